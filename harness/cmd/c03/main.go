// Command c03 runs the driver of property C04 (see harness/drive/c03).
package main

import (
	"fmt"
	"os"

	"verifharness/drive/c03"
)

func main() {
	if err := c03.Main(os.Args[1:]); err != nil {
		fmt.Fprintf(os.Stderr, "driver error: %v\n", err)
		os.Exit(3)
	}
}

// Command c14 runs the driver of property C14 (see harness/drive/c14).
package main

import (
	"fmt"
	"os"

	"verifharness/drive/c14"
)

func main() {
	if err := c14.Main(os.Args[1:]); err != nil {
		fmt.Fprintf(os.Stderr, "driver error: %v\n", err)
		os.Exit(3)
	}
}

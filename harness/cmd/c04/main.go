// Command c04 runs the driver of property C04 (see harness/drive/c04).
package main

import (
	"fmt"
	"os"

	"verifharness/drive/c04"
)

func main() {
	if err := c04.Main(os.Args[1:]); err != nil {
		fmt.Fprintf(os.Stderr, "driver error: %v\n", err)
		os.Exit(3)
	}
}

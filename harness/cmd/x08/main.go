// Command x08 runs the driver of the extra specification X08 (see harness/drive/x08).
package main

import (
	"fmt"
	"os"

	"verifharness/drive/x08"
)

func main() {
	if err := x08.Main(os.Args[1:]); err != nil {
		fmt.Fprintf(os.Stderr, "driver error: %v\n", err)
		os.Exit(3)
	}
}

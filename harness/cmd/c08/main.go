// Command c08 runs the driver of property C08 (see harness/drive/c08).
package main

import (
	"fmt"
	"os"

	"verifharness/drive/c08"
)

func main() {
	if err := c08.Main(os.Args[1:]); err != nil {
		fmt.Fprintf(os.Stderr, "driver error: %v\n", err)
		os.Exit(3)
	}
}

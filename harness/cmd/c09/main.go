// Command c09 runs the driver of property C09 (see harness/drive/c09).
package main

import (
	"fmt"
	"os"

	"verifharness/drive/c09"
)

func main() {
	if err := c09.Main(os.Args[1:]); err != nil {
		fmt.Fprintf(os.Stderr, "driver error: %v\n", err)
		os.Exit(3)
	}
}

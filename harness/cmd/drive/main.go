// Command drive runs the per-property drivers of the verification harness.
// usage: drive <id> [flags]   (see drive/<id>)
package main

import (
	"fmt"
	"os"

	"verifharness/drive/c18"
	"verifharness/drive/c20"
)

var drivers = map[string]func(args []string) error{
	"c18": c18.Main,
	"c20": c20.Main,
}

func main() {
	if len(os.Args) < 2 {
		fmt.Fprintln(os.Stderr, "usage: drive <id> [flags]")
		os.Exit(2)
	}
	d, ok := drivers[os.Args[1]]
	if !ok {
		fmt.Fprintf(os.Stderr, "unknown driver %q\n", os.Args[1])
		os.Exit(2)
	}
	if err := d(os.Args[2:]); err != nil {
		fmt.Fprintf(os.Stderr, "driver error: %v\n", err)
		os.Exit(3)
	}
}

// Command c18 runs the driver of property C18 (see harness/drive/c18).
package main

import (
	"fmt"
	"os"

	"verifharness/drive/c18"
)

func main() {
	if err := c18.Main(os.Args[1:]); err != nil {
		fmt.Fprintf(os.Stderr, "driver error: %v\n", err)
		os.Exit(3)
	}
}

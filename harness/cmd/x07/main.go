// Command x07 runs the driver of the extra specification X07 (see harness/drive/x07).
package main

import (
	"fmt"
	"os"

	"verifharness/drive/x07"
)

func main() {
	if err := x07.Main(os.Args[1:]); err != nil {
		fmt.Fprintf(os.Stderr, "driver error: %v\n", err)
		os.Exit(3)
	}
}

// Command c11 runs the driver of property C18 (see harness/drive/c11).
package main

import (
	"fmt"
	"os"

	"verifharness/drive/c11"
)

func main() {
	if err := c11.Main(os.Args[1:]); err != nil {
		fmt.Fprintf(os.Stderr, "driver error: %v\n", err)
		os.Exit(3)
	}
}

// Command c13 runs the driver of property C13 (see harness/drive/c13).
package main

import (
	"fmt"
	"os"

	"verifharness/drive/c13"
)

func main() {
	if err := c13.Main(os.Args[1:]); err != nil {
		fmt.Fprintf(os.Stderr, "driver error: %v\n", err)
		os.Exit(3)
	}
}

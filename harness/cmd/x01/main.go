// Command x01 runs the driver of the extra specification X01 (see harness/drive/x01).
package main

import (
	"fmt"
	"os"

	"verifharness/drive/x01"
)

func main() {
	if err := x01.Main(os.Args[1:]); err != nil {
		fmt.Fprintf(os.Stderr, "driver error: %v\n", err)
		os.Exit(3)
	}
}

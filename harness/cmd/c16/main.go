// Command c16 runs the driver of property C16 (see harness/drive/c16).
package main

import (
	"fmt"
	"os"

	"verifharness/drive/c16"
)

func main() {
	if err := c16.Main(os.Args[1:]); err != nil {
		fmt.Fprintf(os.Stderr, "driver error: %v\n", err)
		os.Exit(3)
	}
}

// Command x04 runs the driver of the extra specification X04 (see harness/drive/x04).
package main

import (
	"fmt"
	"os"

	"verifharness/drive/x04"
)

func main() {
	if err := x04.Main(os.Args[1:]); err != nil {
		fmt.Fprintf(os.Stderr, "driver error: %v\n", err)
		os.Exit(3)
	}
}

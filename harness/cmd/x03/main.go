// Command x03 runs the driver of property X03 (see harness/drive/x03).
package main

import (
	"fmt"
	"os"

	"verifharness/drive/x03"
)

func main() {
	if err := x03.Main(os.Args[1:]); err != nil {
		fmt.Fprintf(os.Stderr, "driver error: %v\n", err)
		os.Exit(3)
	}
}

// Command c06 runs the driver of property C06 (see harness/drive/c06).
package main

import (
	"fmt"
	"os"

	"verifharness/drive/c06"
)

func main() {
	if err := c06.Main(os.Args[1:]); err != nil {
		fmt.Fprintf(os.Stderr, "driver error: %v\n", err)
		os.Exit(3)
	}
}

// Command c07 runs the driver of property C07 (see harness/drive/c07).
package main

import (
	"fmt"
	"os"

	"verifharness/drive/c07"
)

func main() {
	if err := c07.Main(os.Args[1:]); err != nil {
		fmt.Fprintf(os.Stderr, "driver error: %v\n", err)
		os.Exit(3)
	}
}

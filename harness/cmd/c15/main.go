// Command c15 runs the driver of property C15 (see harness/drive/c15).
package main

import (
	"fmt"
	"os"

	"verifharness/drive/c15"
)

func main() {
	if err := c15.Main(os.Args[1:]); err != nil {
		fmt.Fprintf(os.Stderr, "driver error: %v\n", err)
		os.Exit(3)
	}
}

// Command c02 runs the driver of property C02 (see harness/drive/c02).
package main

import (
	"fmt"
	"os"

	"verifharness/drive/c02"
)

func main() {
	if err := c02.Main(os.Args[1:]); err != nil {
		fmt.Fprintf(os.Stderr, "driver error: %v\n", err)
		os.Exit(3)
	}
}

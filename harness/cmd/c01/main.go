// Command c01 runs the driver of property C01 (see harness/drive/c01).
package main

import (
	"fmt"
	"os"

	"verifharness/drive/c01"
)

func main() {
	if err := c01.Main(os.Args[1:]); err != nil {
		fmt.Fprintf(os.Stderr, "driver error: %v\n", err)
		os.Exit(3)
	}
}

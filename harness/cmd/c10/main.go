// Command c10 runs the driver of property C10 (see harness/drive/c10).
package main

import (
	"fmt"
	"os"

	"verifharness/drive/c10"
)

func main() {
	if err := c10.Main(os.Args[1:]); err != nil {
		fmt.Fprintf(os.Stderr, "driver error: %v\n", err)
		os.Exit(3)
	}
}

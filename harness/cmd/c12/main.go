// Command c12 runs the driver of property C12 (see harness/drive/c12).
package main

import (
	"fmt"
	"os"

	"verifharness/drive/c12"
)

func main() {
	if err := c12.Main(os.Args[1:]); err != nil {
		fmt.Fprintf(os.Stderr, "driver error: %v\n", err)
		os.Exit(3)
	}
}

// Command x06 runs the driver of the extra specification X06 (see harness/drive/x06).
package main

import (
	"fmt"
	"os"

	"verifharness/drive/x06"
)

func main() {
	if err := x06.Main(os.Args[1:]); err != nil {
		fmt.Fprintf(os.Stderr, "driver error: %v\n", err)
		os.Exit(3)
	}
}

// Command x02 runs the driver of the extra specification X02 (see harness/drive/x02).
package main

import (
	"fmt"
	"os"

	"verifharness/drive/x02"
)

func main() {
	if err := x02.Main(os.Args[1:]); err != nil {
		fmt.Fprintf(os.Stderr, "driver error: %v\n", err)
		os.Exit(3)
	}
}

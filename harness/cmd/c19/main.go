// Command c19 runs the driver of property C20 (see harness/drive/c19).
package main

import (
	"fmt"
	"os"

	"verifharness/drive/c19"
)

func main() {
	if err := c19.Main(os.Args[1:]); err != nil {
		fmt.Fprintf(os.Stderr, "driver error: %v\n", err)
		os.Exit(3)
	}
}

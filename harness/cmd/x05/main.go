// Command x05 runs the driver of the extra specification X05 (see harness/drive/x05).
package main

import (
	"fmt"
	"os"

	"verifharness/drive/x05"
)

func main() {
	if err := x05.Main(os.Args[1:]); err != nil {
		fmt.Fprintf(os.Stderr, "driver error: %v\n", err)
		os.Exit(3)
	}
}

// Command c17 runs the driver of property C17 (see harness/drive/c17).
package main

import (
	"fmt"
	"os"

	"verifharness/drive/c17"
)

func main() {
	if err := c17.Main(os.Args[1:]); err != nil {
		fmt.Fprintf(os.Stderr, "driver error: %v\n", err)
		os.Exit(3)
	}
}

// Command c20 runs the driver of property C20 (see harness/drive/c20).
package main

import (
	"fmt"
	"os"

	"verifharness/drive/c20"
)

func main() {
	if err := c20.Main(os.Args[1:]); err != nil {
		fmt.Fprintf(os.Stderr, "driver error: %v\n", err)
		os.Exit(3)
	}
}

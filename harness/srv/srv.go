// Package srv sets up the real livesim2 server on a VoD root and issues requests through its router.
package srv

import (
	"context"
	"fmt"
	"net/http"
	"net/http/httptest"
	"os"
	"strings"

	"github.com/Dash-Industry-Forum/livesim2/cmd/livesim2/app"
	"github.com/Dash-Industry-Forum/livesim2/pkg/logging"
)

type S struct {
	Server *app.Server
	Cancel context.CancelFunc
}

// RepoRoot returns the repository under test ($VERIF_REPO, default /repo).
func RepoRoot() string {
	if r := os.Getenv("VERIF_REPO"); r != "" {
		return r
	}
	return "/repo"
}

// BundledAssets is the VoD root with the repository's own test assets.
func BundledAssets() string { return RepoRoot() + "/cmd/livesim2/app/testdata/assets" }

// New starts a livesim2 server (no listener; use Get). repDataRoot "" disables the metadata cache.
func New(vodRoot string, mutate func(c *app.ServerConfig)) (*S, error) {
	_ = logging.InitSlog("error", "discard")
	cfg := app.DefaultConfig
	cfg.VodRoot = vodRoot
	cfg.RepDataRoot = ""
	cfg.WriteRepData = false
	cfg.TimeoutS = 0
	cfg.LogLevel = "error"
	if mutate != nil {
		mutate(&cfg)
	}
	ctx, cancel := context.WithCancel(context.Background())
	s, err := app.SetupServer(ctx, &cfg)
	if err != nil {
		cancel()
		return nil, fmt.Errorf("SetupServer(%s): %w", vodRoot, err)
	}
	return &S{Server: s, Cancel: cancel}, nil
}

type Resp struct {
	Status int
	Header http.Header
	Body   []byte
}

// Get issues a GET through the real router. A panic inside the handler is turned into status 500 by
// chi's Recoverer (body empty); Get itself never panics.
func (s *S) Get(url string) Resp {
	return s.Do("GET", url, nil, nil)
}

func (s *S) Do(method, url string, hdr map[string]string, body []byte) Resp {
	var rd *strings.Reader
	if body != nil {
		rd = strings.NewReader(string(body))
	}
	var req *http.Request
	if rd != nil {
		req = httptest.NewRequest(method, url, rd)
	} else {
		req = httptest.NewRequest(method, url, nil)
	}
	for k, v := range hdr {
		req.Header.Set(k, v)
	}
	rr := httptest.NewRecorder()
	s.Server.Router.ServeHTTP(rr, req)
	return Resp{Status: rr.Code, Header: rr.Header(), Body: rr.Body.Bytes()}
}

package project

import (
	"fmt"
	"os"
	"path/filepath"
	"strings"

	"github.com/Eyevinn/mp4ff/mp4"
)

// RepTruth is the ground truth about one VoD representation, obtained by an independent parse of
// its files (or, for generated assets, by construction). Nothing here comes from livesim2.
type RepTruth struct {
	ID         string
	Kind       string // video | audio | text | image
	TS         int64  // media timescale
	N          int
	Dur        []int64 // ticks
	Vod0       int64   // first decode time
	L          int64   // loop duration in ticks
	PayDig     []string
	SampleDigs [][]string // per segment, per sample
	SampleDur  int64      // common sample duration (0 if not constant)
	Trex       *mp4.TrexBox
	Init       *mp4.InitSegment
	InitURI    string // relative to the asset dir
	MediaPat   string // with $Number$ or $Time$
	Codec      string
}

// LoadVodRep parses init + media segments startNr.. of a $Number$-addressed VoD representation.
func LoadVodRep(assetDir, id, kind, initURI, mediaPat string, startNr int) (*RepTruth, error) {
	rt := &RepTruth{ID: id, Kind: kind, InitURI: initURI, MediaPat: mediaPat}
	data, err := os.ReadFile(filepath.Join(assetDir, initURI))
	if err != nil {
		return nil, err
	}
	init, err := ParseInit(data)
	if err != nil {
		return nil, fmt.Errorf("init %s: %w", id, err)
	}
	rt.Init = init
	rt.TS = int64(init.Moov.Trak.Mdia.Mdhd.Timescale)
	rt.Trex = init.Moov.Mvex.Trex
	var prevEnd int64 = -1
	common := int64(-1)
	for nr := startNr; ; nr++ {
		p := filepath.Join(assetDir, strings.ReplaceAll(mediaPat, "$Number$", fmt.Sprint(nr)))
		data, err := os.ReadFile(p)
		if err != nil {
			if os.IsNotExist(err) {
				break
			}
			return nil, err
		}
		m, err := ParseMedia(data, rt.Trex)
		if err != nil {
			return nil, fmt.Errorf("%s: %w", p, err)
		}
		start := int64(m.Frags[0].Tfdt)
		if prevEnd < 0 {
			rt.Vod0 = start
		} else if start != prevEnd {
			return nil, fmt.Errorf("%s: VoD not contiguous: starts at %d, previous ended at %d", p, start, prevEnd)
		}
		prevEnd = start + int64(m.TotalDur)
		rt.Dur = append(rt.Dur, int64(m.TotalDur))
		rt.PayDig = append(rt.PayDig, m.PayDig)
		var digs []string
		for _, f := range m.Frags {
			digs = append(digs, f.Digests...)
			for _, d := range f.Durs {
				switch {
				case common == -1:
					common = int64(d)
				case common != int64(d):
					common = 0
				}
			}
		}
		rt.SampleDigs = append(rt.SampleDigs, digs)
	}
	rt.N = len(rt.Dur)
	if rt.N == 0 {
		return nil, fmt.Errorf("no segments for %s", id)
	}
	for _, d := range rt.Dur {
		rt.L += d
	}
	if common > 0 {
		rt.SampleDur = common
	}
	return rt, nil
}

// LoadVodRepTime parses a $Time$-addressed VoD representation whose segment start times are given
// (taken by the caller from the VoD MPD's SegmentTimeline).
func LoadVodRepTime(assetDir, id, kind, initURI, mediaPat string, times []int64) (*RepTruth, error) {
	rt := &RepTruth{ID: id, Kind: kind, InitURI: initURI, MediaPat: mediaPat}
	data, err := os.ReadFile(filepath.Join(assetDir, initURI))
	if err != nil {
		return nil, err
	}
	init, err := ParseInit(data)
	if err != nil {
		return nil, fmt.Errorf("init %s: %w", id, err)
	}
	rt.Init = init
	rt.TS = int64(init.Moov.Trak.Mdia.Mdhd.Timescale)
	rt.Trex = init.Moov.Mvex.Trex
	var prevEnd int64 = -1
	common := int64(-1)
	for _, t := range times {
		p := filepath.Join(assetDir, strings.ReplaceAll(mediaPat, "$Time$", fmt.Sprint(t)))
		data, err := os.ReadFile(p)
		if err != nil {
			return nil, err
		}
		m, err := ParseMedia(data, rt.Trex)
		if err != nil {
			return nil, fmt.Errorf("%s: %w", p, err)
		}
		start := int64(m.Frags[0].Tfdt)
		if start != t {
			return nil, fmt.Errorf("%s: decode time %d differs from the MPD's %d", p, start, t)
		}
		if prevEnd < 0 {
			rt.Vod0 = start
		} else if start != prevEnd {
			return nil, fmt.Errorf("%s: VoD not contiguous", p)
		}
		prevEnd = start + int64(m.TotalDur)
		rt.Dur = append(rt.Dur, int64(m.TotalDur))
		rt.PayDig = append(rt.PayDig, m.PayDig)
		var digs []string
		for _, f := range m.Frags {
			digs = append(digs, f.Digests...)
			for _, d := range f.Durs {
				switch {
				case common == -1:
					common = int64(d)
				case common != int64(d):
					common = 0
				}
			}
		}
		rt.SampleDigs = append(rt.SampleDigs, digs)
	}
	rt.N = len(rt.Dur)
	for _, d := range rt.Dur {
		rt.L += d
	}
	if common > 0 {
		rt.SampleDur = common
	}
	return rt, nil
}

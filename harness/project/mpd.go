package project

import (
	"crypto/sha1"
	"encoding/hex"
	"encoding/xml"
	"fmt"
	"regexp"
	"sort"
	"strings"
	"time"
)

// Minimal, independent MPD model (encoding/xml); only what the trace specifications need.

type XS struct {
	T *uint64 `xml:"t,attr"`
	D uint64  `xml:"d,attr"`
	R int     `xml:"r,attr"`
}

type XSegTemplate struct {
	Media          string  `xml:"media,attr"`
	Initialization string  `xml:"initialization,attr"`
	Timescale      *uint64 `xml:"timescale,attr"`
	StartNumber    *uint64 `xml:"startNumber,attr"`
	Duration       *uint64 `xml:"duration,attr"`
	PTO            *uint64 `xml:"presentationTimeOffset,attr"`
	ATO            string  `xml:"availabilityTimeOffset,attr"`
	ATC            string  `xml:"availabilityTimeComplete,attr"`
	Timeline       *struct {
		S []XS `xml:"S"`
	} `xml:"SegmentTimeline"`
}

type XDescriptor struct {
	SchemeIdUri string `xml:"schemeIdUri,attr"`
	Value       string `xml:"value,attr"`
	DefaultKID  string `xml:"default_KID,attr"`
}

type XRep struct {
	ID        string `xml:"id,attr"`
	Bandwidth uint64 `xml:"bandwidth,attr"`
}

type XAS struct {
	ID                 string         `xml:"id,attr"`
	ContentType        string         `xml:"contentType,attr"`
	MimeType           string         `xml:"mimeType,attr"`
	Lang               string         `xml:"lang,attr"`
	Codecs             string         `xml:"codecs,attr"`
	SegmentTemplate    *XSegTemplate  `xml:"SegmentTemplate"`
	Representations    []XRep         `xml:"Representation"`
	ContentProtections []XDescriptor  `xml:"ContentProtection"`
	InbandEventStreams []XDescriptor  `xml:"InbandEventStream"`
	Supplemental       []XDescriptor  `xml:"SupplementalProperty"`
	Essential          []XDescriptor  `xml:"EssentialProperty"`
}

type XPeriod struct {
	ID       string   `xml:"id,attr"`
	Start    string   `xml:"start,attr"`
	Duration string   `xml:"duration,attr"`
	BaseURLs []string `xml:"BaseURL"`
	AS       []XAS    `xml:"AdaptationSet"`
}

type XMPD struct {
	XMLName     xml.Name  `xml:"MPD"`
	ID          string    `xml:"id,attr"`
	Type        string    `xml:"type,attr"`
	AST         string    `xml:"availabilityStartTime,attr"`
	PublishTime string    `xml:"publishTime,attr"`
	TSBD        string    `xml:"timeShiftBufferDepth,attr"`
	MUP         string    `xml:"minimumUpdatePeriod,attr"`
	MPDur       string    `xml:"mediaPresentationDuration,attr"`
	SPD         string    `xml:"suggestedPresentationDelay,attr"`
	Periods     []XPeriod `xml:"Period"`
	PatchLoc    []struct {
		TTL string `xml:"ttl,attr"`
		URL string `xml:",chardata"`
	} `xml:"PatchLocation"`
	UTCTimings []XDescriptor `xml:"UTCTiming"`
	Locations  []string      `xml:"Location"`
}

func ParseMPD(data []byte) (*XMPD, error) {
	var m XMPD
	if err := xml.Unmarshal(data, &m); err != nil {
		return nil, err
	}
	return &m, nil
}

// DateMS parses an xs:dateTime (RFC 3339) into epoch milliseconds.
func DateMS(s string) (int64, error) {
	t, err := time.Parse(time.RFC3339Nano, s)
	if err != nil {
		return 0, err
	}
	return t.UnixMilli(), nil
}

var durRe = regexp.MustCompile(`^P(?:(\d+)D)?T?(?:(\d+)H)?(?:(\d+)M)?(?:(\d+(?:\.\d+)?)S)?$`)

// DurMS parses an xs:duration of the PnDTnHnMn.nS form into milliseconds.
func DurMS(s string) (int64, error) {
	m := durRe.FindStringSubmatch(s)
	if m == nil {
		return 0, fmt.Errorf("bad duration %q", s)
	}
	var ms int64
	mul := []int64{86400000, 3600000, 60000}
	for i := 0; i < 3; i++ {
		if m[i+1] != "" {
			var v int64
			fmt.Sscan(m[i+1], &v)
			ms += v * mul[i]
		}
	}
	if m[4] != "" {
		parts := strings.SplitN(m[4], ".", 2)
		var v int64
		fmt.Sscan(parts[0], &v)
		ms += v * 1000
		if len(parts) == 2 {
			f := (parts[1] + "000")[:3]
			var fv int64
			fmt.Sscan(f, &fv)
			ms += fv
		}
	}
	return ms, nil
}

var (
	ptAttr    = regexp.MustCompile(` publishTime="[^"]*"`)
	patchElem = regexp.MustCompile(`(?s)<PatchLocation[^>]*>.*?</PatchLocation>`)
	utcDirect = regexp.MustCompile(`<UTCTiming schemeIdUri="urn:mpeg:dash:utc:direct:2014" value="[^"]*"`)
)

// ContentDigest is the digest of the MPD document with the publishTime-dependent parts removed
// (MPD@publishTime, PatchLocation, the value of a direct UTCTiming) - "identical content" for C05.
func ContentDigest(data []byte) string {
	s := ptAttr.ReplaceAllString(string(data), "")
	s = patchElem.ReplaceAllString(s, "")
	s = utcDirect.ReplaceAllString(s, `<UTCTiming schemeIdUri="urn:mpeg:dash:utc:direct:2014" value=""`)
	h := sha1.Sum([]byte(s))
	return hex.EncodeToString(h[:8])
}

// FindAS returns the first AdaptationSet of the first period with the given contentType that contains rep id (or any if id == "").
func (m *XMPD) FindAS(period int, contentType, repID string) *XAS {
	if period >= len(m.Periods) {
		return nil
	}
	for i := range m.Periods[period].AS {
		as := &m.Periods[period].AS[i]
		if contentType != "" && as.ContentType != contentType {
			continue
		}
		if repID == "" {
			return as
		}
		for _, r := range as.Representations {
			if r.ID == repID {
				return as
			}
		}
	}
	return nil
}

// SortedKeys is a small helper for deterministic output.
func SortedKeys(m map[string]bool) []string {
	var k []string
	for x := range m {
		k = append(k, x)
	}
	sort.Strings(k)
	return k
}

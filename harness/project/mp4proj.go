package project

import (
	"bytes"
	"crypto/sha1"
	"encoding/hex"
	"fmt"

	"github.com/Eyevinn/mp4ff/mp4"
)

// Frag is the observation of one movie fragment.
type Frag struct {
	Seq     uint32
	Tfdt    uint64
	Dur     uint64   // sum of sample durations
	NSamp   int
	Durs    []uint32 // per-sample durations
	Sizes   []uint32
	Flags   []uint32
	Digests []string // per-sample payload digest (short)
	MdatDig string   // digest of the fragment's sample payloads in order
	Emsg    []*mp4.EmsgBox
}

// Media is the observation of one served media segment.
type Media struct {
	HasStyp  bool
	Brands   []string
	HasSidx  bool
	SidxEPT  uint64
	SidxTS   uint32
	Frags    []Frag
	TotalDur uint64
	NSamp    int
	PayDig   string // digest over all sample payloads of the segment
	StypPos  []int  // indices of top-level boxes that are styp
	BoxTypes []string
}

func short(b []byte) string {
	h := sha1.Sum(b)
	return hex.EncodeToString(h[:8])
}

// Digest is the short hex digest used for whole bodies.
func Digest(b []byte) string { return short(b) }

// ParseInit decodes an init segment.
func ParseInit(data []byte) (*mp4.InitSegment, error) {
	f, err := mp4.DecodeFile(bytes.NewReader(data))
	if err != nil {
		return nil, err
	}
	if f.Init == nil {
		return nil, fmt.Errorf("no init segment")
	}
	return f.Init, nil
}

// ParseMedia decodes a served media segment (whole or chunked) with the given trex defaults.
func ParseMedia(data []byte, trex *mp4.TrexBox) (m *Media, err error) {
	// a malformed body (e.g. sample sizes beyond the mdat) makes the decoder panic: that is an undecodable
	// segment (an observation), not a failure of the recorder
	defer func() {
		if r := recover(); r != nil {
			m, err = nil, fmt.Errorf("decoder panic: %v", r)
		}
	}()
	f, err := mp4.DecodeFile(bytes.NewReader(data))
	if err != nil {
		return nil, fmt.Errorf("decode: %w", err)
	}
	m = &Media{}
	for i, c := range f.Children {
		m.BoxTypes = append(m.BoxTypes, c.Type())
		if c.Type() == "styp" {
			m.StypPos = append(m.StypPos, i)
		}
	}
	if len(f.Segments) == 0 {
		return nil, fmt.Errorf("no media segment in body")
	}
	all := sha1.New()
	for si, s := range f.Segments {
		if si == 0 && s.Styp != nil {
			m.HasStyp = true
			m.Brands = append([]string{s.Styp.MajorBrand()}, s.Styp.CompatibleBrands()...)
		}
		if s.Sidx != nil {
			m.HasSidx = true
			m.SidxEPT = s.Sidx.EarliestPresentationTime
			m.SidxTS = s.Sidx.Timescale
		}
		for _, fr := range s.Fragments {
			if fr.Moof == nil || fr.Moof.Traf == nil || fr.Moof.Traf.Tfdt == nil || fr.Moof.Traf.Trun == nil {
				return nil, fmt.Errorf("fragment without traf/tfdt/trun")
			}
			fo := Frag{Seq: fr.Moof.Mfhd.SequenceNumber, Tfdt: fr.Moof.Traf.Tfdt.BaseMediaDecodeTime()}
			samples, err := fr.GetFullSamples(trex)
			if err != nil {
				return nil, fmt.Errorf("full samples: %w", err)
			}
			fh := sha1.New()
			for _, sm := range samples {
				fo.Durs = append(fo.Durs, sm.Dur)
				fo.Sizes = append(fo.Sizes, sm.Size)
				fo.Flags = append(fo.Flags, sm.Flags)
				fo.Digests = append(fo.Digests, short(sm.Data))
				fo.Dur += uint64(sm.Dur)
				fh.Write(sm.Data)
				all.Write(sm.Data)
			}
			fo.NSamp = len(samples)
			fo.MdatDig = hex.EncodeToString(fh.Sum(nil)[:8])
			for _, c := range fr.Children {
				if e, ok := c.(*mp4.EmsgBox); ok {
					fo.Emsg = append(fo.Emsg, e)
				}
			}
			m.Frags = append(m.Frags, fo)
			m.TotalDur += fo.Dur
			m.NSamp += fo.NSamp
		}
	}
	if len(m.Frags) == 0 {
		return nil, fmt.Errorf("no fragments")
	}
	m.PayDig = hex.EncodeToString(all.Sum(nil)[:8])
	return m, nil
}

// ParseMediaRaw returns the concatenated mdat payloads of a media segment (for stpp: the TTML document).
func ParseMediaRaw(data []byte) ([]byte, error) {
	f, err := mp4.DecodeFile(bytes.NewReader(data))
	if err != nil {
		return nil, err
	}
	var out []byte
	for _, s := range f.Segments {
		for _, fr := range s.Fragments {
			if fr.Mdat != nil {
				out = append(out, fr.Mdat.Data...)
			}
		}
	}
	return out, nil
}

// Package project turns concrete bytes served by livesim2 (mp4 segments, MPDs) into the abstract
// observations that the TLA+ trace specifications talk about (DESIGN.md 2.4). No expectation enters here.
package project

// Pair decomposes v = w*p + r with 0 <= r < p (exact int64 arithmetic; floor division for negatives).
func Pair(v, p int64) [2]int64 {
	w := v / p
	r := v % p
	if r < 0 {
		r += p
		w--
	}
	return [2]int64{w, r}
}

// Package assetgen builds synthetic VoD assets by re-timing and regrouping the samples of the bundled
// testpic_2s asset (DESIGN.md 3.8). The Layout is the ground truth that goes into trace headers.
package assetgen

import (
	"bytes"
	"fmt"
	"os"
	"path/filepath"
	"strings"

	"github.com/Eyevinn/mp4ff/bits"
	"github.com/Eyevinn/mp4ff/mp4"

	"verifharness/project"
)

// Layout describes a generated asset.
type Layout struct {
	Name       string
	TS         int64 // video timescale
	SampleDur  int64 // ticks per video sample
	SegSamples []int // video samples per segment
	Vod0       int64 // first video decode time
	// audio (optional): AAC 1024-sample frames at 48 kHz taken from testpic_2s/A48
	AudioSegFrames []int
	MpdStyle       string // "number" (SegmentTemplate $Number$) or "timeline" (SegmentTimeline $Time$)
}

type Truth struct {
	Name   string
	Dir    string
	MPD    string
	LoopMS int64
	Video  *project.RepTruth
	Audio  *project.RepTruth
	Lay    Layout
}

type srcSample struct {
	fs mp4.FullSample
}

func loadSamples(srcDir string, n int) (*mp4.InitSegment, []mp4.FullSample, error) {
	data, err := os.ReadFile(filepath.Join(srcDir, "init.mp4"))
	if err != nil {
		return nil, nil, err
	}
	init, err := project.ParseInit(data)
	if err != nil {
		return nil, nil, err
	}
	var out []mp4.FullSample
	for nr := 1; nr <= n; nr++ {
		d, err := os.ReadFile(filepath.Join(srcDir, fmt.Sprintf("%d.m4s", nr)))
		if err != nil {
			return nil, nil, err
		}
		f, err := mp4.DecodeFile(bytes.NewReader(d))
		if err != nil {
			return nil, nil, err
		}
		for _, s := range f.Segments {
			for _, fr := range s.Fragments {
				fss, err := fr.GetFullSamples(init.Moov.Mvex.Trex)
				if err != nil {
					return nil, nil, err
				}
				for _, x := range fss {
					cp := x
					cp.Data = append([]byte{}, x.Data...)
					out = append(out, cp)
				}
			}
		}
	}
	return init, out, nil
}

func encodeInit(init *mp4.InitSegment, path string) error {
	sw := bits.NewFixedSliceWriter(int(init.Size()))
	if err := init.EncodeSW(sw); err != nil {
		return err
	}
	return os.WriteFile(path, sw.Bytes(), 0o644)
}

func writeSeg(path string, seqNr uint32, trackID uint32, samples []mp4.FullSample, startTime uint64, sampleDur uint32) (uint64, error) {
	seg := mp4.NewMediaSegment()
	frag, err := mp4.CreateFragment(seqNr, trackID)
	if err != nil {
		return 0, err
	}
	seg.AddFragment(frag)
	t := startTime
	for _, s := range samples {
		fs := s
		fs.DecodeTime = t
		fs.Dur = sampleDur
		frag.AddFullSample(fs)
		t += uint64(sampleDur)
	}
	var buf bytes.Buffer
	if err := seg.Encode(&buf); err != nil {
		return 0, err
	}
	return t, os.WriteFile(path, buf.Bytes(), 0o644)
}

// Generate writes the asset under root/<Name> and returns its ground truth.
func Generate(root, srcAsset string, lay Layout) (*Truth, error) {
	dir := filepath.Join(root, lay.Name)
	if err := os.MkdirAll(filepath.Join(dir, "V300"), 0o755); err != nil {
		return nil, err
	}
	vinit, vs, err := loadSamples(filepath.Join(srcAsset, "V300"), 4)
	if err != nil {
		return nil, fmt.Errorf("video source: %w", err)
	}
	total := 0
	for _, c := range lay.SegSamples {
		total += c
	}
	if total > len(vs) {
		return nil, fmt.Errorf("layout %s needs %d video samples, source has %d", lay.Name, total, len(vs))
	}
	vinit.Moov.Trak.Mdia.Mdhd.Timescale = uint32(lay.TS)
	if err := encodeInit(vinit, filepath.Join(dir, "V300", "init.mp4")); err != nil {
		return nil, err
	}
	tr := &Truth{Name: lay.Name, Dir: dir, MPD: "Manifest.mpd", Lay: lay}
	vt := &project.RepTruth{ID: "V300", Kind: "video", TS: lay.TS, Vod0: lay.Vod0, SampleDur: lay.SampleDur,
		InitURI: "V300/init.mp4", Trex: vinit.Moov.Mvex.Trex, Init: vinit}
	t := uint64(lay.Vod0)
	idx := 0
	var stl strings.Builder
	for i, c := range lay.SegSamples {
		name := fmt.Sprintf("%d.m4s", i+1)
		if lay.MpdStyle == "timeline" {
			name = fmt.Sprintf("t%d.m4s", t)
		}
		d := int64(c) * lay.SampleDur
		if i == 0 {
			fmt.Fprintf(&stl, `<S t="%d" d="%d"/>`, t, d)
		} else {
			fmt.Fprintf(&stl, `<S d="%d"/>`, d)
		}
		end, err := writeSeg(filepath.Join(dir, "V300", name), uint32(i+1), vinit.Moov.Trak.Tkhd.TrackID, vs[idx:idx+c], t, uint32(lay.SampleDur))
		if err != nil {
			return nil, err
		}
		// digests by construction
		data, _ := os.ReadFile(filepath.Join(dir, "V300", name))
		m, err := project.ParseMedia(data, vt.Trex)
		if err != nil {
			return nil, fmt.Errorf("re-parse generated %s: %w", name, err)
		}
		vt.PayDig = append(vt.PayDig, m.PayDig)
		vt.SampleDigs = append(vt.SampleDigs, m.Frags[0].Digests)
		vt.Dur = append(vt.Dur, d)
		vt.L += d
		t = end
		idx += c
	}
	vt.N = len(vt.Dur)
	if lay.MpdStyle == "timeline" {
		vt.MediaPat = "V300/t$Time$.m4s"
	} else {
		vt.MediaPat = "V300/$Number$.m4s"
	}
	tr.Video = vt
	if (vt.L*1000)%lay.TS == 0 {
		tr.LoopMS = vt.L * 1000 / lay.TS
	} else {
		tr.LoopMS = -1 // inadmissible (C15.admit)
	}

	var audioAS string
	if len(lay.AudioSegFrames) > 0 {
		if err := os.MkdirAll(filepath.Join(dir, "A48"), 0o755); err != nil {
			return nil, err
		}
		ainit, as, err := loadSamples(filepath.Join(srcAsset, "A48"), 4)
		if err != nil {
			return nil, fmt.Errorf("audio source: %w", err)
		}
		if err := encodeInit(ainit, filepath.Join(dir, "A48", "init.mp4")); err != nil {
			return nil, err
		}
		at := &project.RepTruth{ID: "A48", Kind: "audio", TS: 48000, SampleDur: 1024, InitURI: "A48/init.mp4",
			MediaPat: "A48/$Number$.m4s", Trex: ainit.Moov.Mvex.Trex, Init: ainit}
		ta := uint64(0)
		ai := 0
		for i, c := range lay.AudioSegFrames {
			if ai+c > len(as) {
				return nil, fmt.Errorf("layout %s needs more audio frames than the source has", lay.Name)
			}
			name := fmt.Sprintf("%d.m4s", i+1)
			end, err := writeSeg(filepath.Join(dir, "A48", name), uint32(i+1), ainit.Moov.Trak.Tkhd.TrackID, as[ai:ai+c], ta, 1024)
			if err != nil {
				return nil, err
			}
			data, _ := os.ReadFile(filepath.Join(dir, "A48", name))
			m, err := project.ParseMedia(data, at.Trex)
			if err != nil {
				return nil, err
			}
			at.PayDig = append(at.PayDig, m.PayDig)
			at.SampleDigs = append(at.SampleDigs, m.Frags[0].Digests)
			at.Dur = append(at.Dur, int64(c)*1024)
			at.L += int64(c) * 1024
			ta = end
			ai += c
		}
		at.N = len(at.Dur)
		tr.Audio = at
		audioAS = `
      <AdaptationSet contentType="audio" id="1" mimeType="audio/mp4" lang="en" segmentAlignment="true" startWithSAP="1">
         <SegmentTemplate startNumber="1" initialization="$RepresentationID$/init.mp4" media="$RepresentationID$/$Number$.m4s"/>
         <Representation id="A48" codecs="mp4a.40.2" bandwidth="48000" audioSamplingRate="48000"/>
      </AdaptationSet>`
	}
	var vTemplate string
	if lay.MpdStyle == "timeline" {
		vTemplate = fmt.Sprintf(`<SegmentTemplate timescale="%d" initialization="$RepresentationID$/init.mp4" media="$RepresentationID$/t$Time$.m4s"><SegmentTimeline>%s</SegmentTimeline></SegmentTemplate>`, lay.TS, stl.String())
	} else {
		vTemplate = `<SegmentTemplate startNumber="1" initialization="$RepresentationID$/init.mp4" media="$RepresentationID$/$Number$.m4s"/>`
	}
	durS := float64(vt.L) / float64(lay.TS)
	mpd := fmt.Sprintf(`<?xml version="1.0" encoding="utf-8"?>
<MPD xmlns="urn:mpeg:dash:schema:mpd:2011" profiles="urn:mpeg:dash:profile:isoff-live:2011" minBufferTime="PT2S" type="static" mediaPresentationDuration="PT%.3fS" id="gen">
   <Period id="one" start="PT0S">%s
      <AdaptationSet contentType="video" id="2" mimeType="video/mp4" segmentAlignment="true" startWithSAP="1">
         %s
         <Representation id="V300" codecs="avc1.64001e" bandwidth="300000" width="640" height="360"/>
      </AdaptationSet>
   </Period>
</MPD>
`, durS, audioAS, vTemplate)
	if err := os.WriteFile(filepath.Join(dir, "Manifest.mpd"), []byte(mpd), 0o644); err != nil {
		return nil, err
	}
	return tr, nil
}

// Layouts returns the generated-layout families (DESIGN 3.8). quick: a handful; thorough: all.
func Layouts(thorough bool) []Layout {
	aud := []int{94, 94, 94, 93} // 375 frames = 8 s
	ls := []Layout{
		// irregular durations, 90 kHz, 30 fps: 40/80/60/60 samples = 1.333/2.667/2/2 s, loop 8 s
		{Name: "g_irr90k", TS: 90000, SampleDur: 3000, SegSamples: []int{40, 80, 60, 60}, AudioSegFrames: aud, MpdStyle: "number"},
		// 1001-based: 30000/1001 fps, loop 240*1001/30000 = 8.008 s; SegmentTimeline VoD MPD
		{Name: "g_1001tl", TS: 30000, SampleDur: 1001, SegSamples: []int{60, 60, 60, 60}, AudioSegFrames: aud, MpdStyle: "timeline"},
		// alternating 8-4 style (scaled): 90/30 samples at 12800 ticks/s, 512 ticks per sample (25 fps): 3.6/1.2 s, loop 9.6 s
		{Name: "g_alt12800", TS: 12800, SampleDur: 512, SegSamples: []int{90, 30, 90, 30}, MpdStyle: "number"},
		// sub-second segments, non-zero first decode time, 1 kHz timescale (40 ms frames): 0.48 s segments
		{Name: "g_sub1k", TS: 1000, SampleDur: 40, SegSamples: []int{12, 12, 12, 12, 12}, Vod0: 120, MpdStyle: "number"},
	}
	if thorough {
		ls = append(ls,
			Layout{Name: "g_one", TS: 90000, SampleDur: 3600, SegSamples: []int{50}, MpdStyle: "number"}, // single 2 s segment
			Layout{Name: "g_two48k", TS: 48000, SampleDur: 1920, SegSamples: []int{100, 50}, AudioSegFrames: []int{141, 141}, MpdStyle: "number"}, // 4 s + 2 s; audio loop shorter (282 frames = 6.016 s > 6 s? no: 6.016) 
			Layout{Name: "g_six25k", TS: 25000, SampleDur: 1000, SegSamples: []int{50, 25, 50, 25, 50, 25}, MpdStyle: "timeline"}, // 2/1/2/1/2/1 s
			Layout{Name: "g_irr50", TS: 90000, SampleDur: 3600, SegSamples: []int{75, 25, 50, 60}, Vod0: 7200, AudioSegFrames: aud, MpdStyle: "number"}, // +-50 %, loop 8.4 s
			Layout{Name: "g_1001num", TS: 30000, SampleDur: 1001, SegSamples: []int{30, 90, 60}, MpdStyle: "number"}, // loop 6.006 s
		)
	}
	return ls
}

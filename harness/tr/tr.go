// Package tr writes ndjson traces (DESIGN.md 3.4) and driver statistics.
package tr

import (
	"bufio"
	"encoding/json"
	"fmt"
	"os"
	"reflect"
	"sync"
)

// W is a concurrency-safe ndjson writer. Lines are ordered by the order of Emit calls;
// hooks call Emit while still holding the lock that protects the traced state.
type W struct {
	mu sync.Mutex
	f  *os.File
	b  *bufio.Writer
	N  int
}

func New(path string) (*W, error) {
	f, err := os.Create(path)
	if err != nil {
		return nil, err
	}
	return &W{f: f, b: bufio.NewWriterSize(f, 1<<20)}, nil
}

// E is one event; keys must be JSON-encodable, integers must fit 32 bits (linted later).
type E map[string]any

func (w *W) Emit(e E) {
	// TLC's Json module cannot read null: a nil slice (an empty list that was never appended to) is written as []
	for k, v := range e {
		if v == nil {
			panic(fmt.Sprintf("trace field %q is nil", k))
		}
		if rv := reflect.ValueOf(v); rv.Kind() == reflect.Slice && rv.IsNil() {
			e[k] = []int{}
		}
	}
	w.mu.Lock()
	defer w.mu.Unlock()
	data, err := json.Marshal(e)
	if err != nil {
		panic(fmt.Sprintf("trace marshal: %v", err))
	}
	w.b.Write(data)
	w.b.WriteByte('\n')
	w.N++
}

func (w *W) Close() error {
	w.mu.Lock()
	defer w.mu.Unlock()
	if err := w.b.Flush(); err != nil {
		return err
	}
	return w.f.Close()
}

// Stats is printed as the last stdout line of every driver.
func PrintStats(s map[string]any) {
	data, _ := json.Marshal(s)
	fmt.Println(string(data))
}

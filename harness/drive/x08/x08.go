// Package x08 drives the real app.LoadConfig (cmd/livesim2/app/config.go) for the extra specification X08
// (server configuration layering, spec/ConfigOps.tla).
//
// One scenario = one assignment of values to (key, layer) cells, layer in {file, flag, env}. The driver writes the JSON
// configuration file, builds the command line and sets the LIVESIM_* environment variables (restored after every call),
// calls LoadConfig and records the effective configuration as <<key, value-as-string>> pairs or the error class. Per
// scenario LoadConfig is called four times: o (the scenario), o2 (again, same inputs), op (flags in reverse order),
// ob (afterwards with no layer at all - the defaults; shows state leaking out of the scenario).
// All values are small string tokens; the absolute form of the path tokens is computed here (hdr.abs), not by livesim2.
package x08

import (
	"encoding/json"
	"flag"
	"fmt"
	"math/rand"
	"os"
	"path"
	"path/filepath"
	"sort"
	"strconv"
	"strings"

	"github.com/Dash-Industry-Forum/livesim2/cmd/livesim2/app"

	"verifharness/tr"
)

const cwd = "/x08cwd"

type keyDef struct {
	name  string // key = JSON name in the configuration file = name shown by /config
	flag  string // command-line flag
	kind  string // int | str | bool | path
	vals  []string
	bad   []string // values outside the key's type
}

var keys = []keyDef{
	{"port", "port", "int", []string{"7001", "7002", "7003"}, []string{"abc"}},
	{"logformat", "logformat", "str", []string{"json", "pretty", "discard"}, nil},
	{"loglevel", "loglevel", "str", []string{"DEBUG", "WARN", "ERROR"}, nil},
	{"livewindowS", "livewindow", "int", []string{"100", "200", "400"}, []string{"abc"}},
	{"timeoutS", "timeoutS", "int", []string{"10", "20", "30"}, []string{"abc"}},
	{"maxrequests", "maxrequests", "int", []string{"5", "50", "500"}, []string{"abc"}},
	{"reqlimitlog", "reqlimitlog", "str", []string{"/l/a.log", "/l/b.log", "/l/c.log"}, nil},
	{"reqlimitint", "reqlimitint", "int", []string{"60", "600", "3600"}, []string{"abc"}},
	{"whitelistblocks", "whitelistblocks", "str", []string{"10.0.0.0/8", "192.168.0.0/16", "10.0.0.0/8,172.16.0.0/12"}, nil},
	{"vodroot", "vodroot", "path", []string{"/abs/v1", "/abs/v2", "rel/v3", "./rel4"}, nil},
	{"repdataroot", "repdataroot", "path", []string{"+", "-", "/abs/r1", "rel/r2", "/abs/r3"}, nil},
	{"writerepdata", "writerepdata", "bool", []string{"true", "false"}, []string{"maybe"}},
	{"domains", "domains", "str", []string{"a.example.com", "b.example.com,c.example.com", ""}, nil},
	{"certpath", "certpath", "str", []string{"/c/cert1.pem", "/c/cert2.pem", ""}, nil},
	{"keypath", "keypath", "str", []string{"/c/key1.pem", "/c/key2.pem", ""}, nil},
	{"host", "host", "str", []string{"https://h1.example.com", "http://h2.example.com/pfx", "h3"}, nil},
	{"playurl", "playurl", "str", []string{"https://p1/?mpd=%s", "https://p2/?mpd=%s", "p3"}, nil},
	{"drmcfgfile", "drmcfgfile", "path", []string{"/d/drm1.json", "/d/drm2.json", "rel/drm3.json"}, nil},
}

var keyIdx = map[string]int{}

func init() {
	for i, k := range keys {
		keyIdx[k.name] = i
	}
}

type cell struct{ K, V string }

type scenario struct {
	kind             string
	file, flags, env []cell
}

func pairs(cs []cell) [][]string {
	out := [][]string{}
	for _, c := range cs {
		out = append(out, []string{c.K, c.V})
	}
	return out
}

func absOf(v string) string {
	if v == "" {
		return ""
	}
	if strings.HasPrefix(v, "/") {
		return path.Clean(v)
	}
	return path.Clean(cwd + "/" + v)
}

func fileJSON(cs []cell) []byte {
	m := map[string]any{}
	for _, c := range cs {
		kd := keys[keyIdx[c.K]]
		switch kd.kind {
		case "int":
			if n, err := strconv.Atoi(c.V); err == nil {
				m[c.K] = n
				continue
			}
		case "bool":
			if c.V == "true" || c.V == "false" {
				m[c.K] = c.V == "true"
				continue
			}
		}
		m[c.K] = c.V
	}
	b, _ := json.Marshal(m)
	return b
}

func project(cfg *app.ServerConfig) [][]string {
	return [][]string{
		{"port", strconv.Itoa(cfg.Port)}, {"logformat", cfg.LogFormat}, {"loglevel", cfg.LogLevel},
		{"livewindowS", strconv.Itoa(cfg.LiveWindowS)}, {"timeoutS", strconv.Itoa(cfg.TimeoutS)},
		{"maxrequests", strconv.Itoa(cfg.MaxRequests)}, {"reqlimitlog", cfg.ReqLimitLog}, {"reqlimitint", strconv.Itoa(cfg.ReqLimitInt)},
		{"whitelistblocks", cfg.WhiteListBlocks}, {"vodroot", cfg.VodRoot}, {"repdataroot", cfg.RepDataRoot},
		{"writerepdata", strconv.FormatBool(cfg.WriteRepData)}, {"domains", cfg.Domains}, {"certpath", cfg.CertPath},
		{"keypath", cfg.KeyPath}, {"host", cfg.Host}, {"playurl", cfg.PlayURL}, {"drmcfgfile", cfg.DrmCfgFile},
	}
}

func errClass(err error) string {
	s := err.Error()
	switch {
	case strings.Contains(s, "command line parse"):
		return "parse"
	case strings.Contains(s, "load config file"):
		return "file"
	case strings.Contains(s, "certpath") || strings.Contains(s, "keypath"):
		return "tls"
	}
	return "value"
}

type driver struct {
	work  string
	calls int
	errs  map[string]int
}

// call runs the real LoadConfig once with the three layers; the environment is restored afterwards.
func (d *driver) call(file, flags, env []cell) (res map[string]any) {
	d.calls++
	args := []string{"/usr/bin/livesim2"}
	if file != nil {
		p := filepath.Join(d.work, "cfg.json")
		if err := os.WriteFile(p, fileJSON(file), 0o644); err != nil {
			panic(err)
		}
		args = append(args, "--cfg="+p)
	}
	for _, c := range flags {
		args = append(args, "--"+keys[keyIdx[c.K]].flag+"="+c.V)
	}
	var set []string
	for _, c := range env {
		n := "LIVESIM_" + strings.ToUpper(c.K)
		os.Setenv(n, c.V)
		set = append(set, n)
	}
	defer func() {
		for _, n := range set {
			os.Unsetenv(n)
		}
		if r := recover(); r != nil {
			d.errs["panic"]++
			res = map[string]any{"err": "panic", "msg": fmt.Sprint(r), "cfg": [][]string{}}
		}
	}()
	// stderr: pflag prints usage on parse errors
	cfg, err := app.LoadConfig(args, cwd)
	if err != nil {
		c := errClass(err)
		d.errs[c]++
		m := err.Error()
		if len(m) > 160 {
			m = m[:160]
		}
		return map[string]any{"err": c, "msg": strings.ReplaceAll(m, d.work, "$W"), "cfg": [][]string{}}
	}
	d.errs["accepted"]++
	return map[string]any{"err": "", "msg": "", "cfg": project(cfg)}
}

func rev(cs []cell) []cell {
	out := make([]cell, len(cs))
	for i, c := range cs {
		out[len(cs)-1-i] = c
	}
	return out
}

var layerNames = []string{"file", "flag", "env"}

func (s *scenario) put(layer int, k, v string) {
	c := cell{k, v}
	switch layer {
	case 0:
		s.file = append(s.file, c)
	case 1:
		s.flags = append(s.flags, c)
	default:
		s.env = append(s.env, c)
	}
}

func (s *scenario) has(layer int, k string) bool {
	cs := [][]cell{s.file, s.flags, s.env}[layer]
	for _, c := range cs {
		if c.K == k {
			return true
		}
	}
	return false
}

func scenarios(rng *rand.Rand, nrand int) []scenario {
	var out []scenario
	out = append(out, scenario{kind: "base"})
	out = append(out, scenario{kind: "emptyfile", file: []cell{}})
	// every (key, layer, value) singly, ill-typed values included
	for _, k := range keys {
		for l := 0; l < 3; l++ {
			for _, v := range append(append([]string{}, k.vals...), k.bad...) {
				s := scenario{kind: "single"}
				s.put(l, k.name, v)
				out = append(out, s)
			}
		}
	}
	// one key in two or three layers, different values
	for _, k := range keys {
		for _, ls := range [][]int{{0, 1}, {0, 2}, {1, 2}, {0, 1, 2}} {
			for rot := 0; rot < 2; rot++ {
				s := scenario{kind: "stack"}
				off := rng.Intn(len(k.vals))
				for i, l := range ls {
					j := i
					if rot == 1 {
						j = len(ls) - 1 - i
					}
					s.put(l, k.name, k.vals[(off+j)%len(k.vals)])
				}
				out = append(out, s)
			}
		}
	}
	// derivations: repdataroot x vodroot x writerepdata
	kv := func(n string) []string { return keys[keyIdx[n]].vals }
	for _, r := range append([]string{"*"}, kv("repdataroot")...) {
		for _, v := range append([]string{"*"}, kv("vodroot")...) {
			for _, w := range []string{"*", "true"} {
				s := scenario{kind: "derive"}
				if r != "*" {
					s.put(rng.Intn(3), "repdataroot", r)
				}
				if v != "*" {
					s.put(rng.Intn(3), "vodroot", v)
				}
				if w != "*" {
					s.put(rng.Intn(3), "writerepdata", w)
				}
				out = append(out, s)
			}
		}
	}
	// an ill-typed value under a derivation that replaces it
	for l1 := 0; l1 < 3; l1++ {
		for l2 := 0; l2 < 3; l2++ {
			if l1 == 1 {
				continue // an ill-typed flag is always a parse error (covered by the singles)
			}
			s := scenario{kind: "derive"}
			s.put(l1, "port", "abc")
			s.put(l2, "domains", "a.example.com")
			out = append(out, s)
			s = scenario{kind: "derive"}
			s.put(l1, "writerepdata", "maybe")
			s.put(l2, "repdataroot", "-")
			out = append(out, s)
		}
	}
	// TLS: domains x certpath x keypath (x port)
	for _, dm := range []string{"*", "", "a.example.com"} {
		for _, cp := range []string{"*", "", "/c/cert1.pem"} {
			for _, kp := range []string{"*", "", "/c/key1.pem"} {
				for _, pt := range []string{"*", "7001"} {
					s := scenario{kind: "tls"}
					if dm != "*" {
						s.put(rng.Intn(3), "domains", dm)
					}
					if cp != "*" {
						s.put(rng.Intn(3), "certpath", cp)
					}
					if kp != "*" {
						s.put(rng.Intn(3), "keypath", kp)
					}
					if pt != "*" {
						s.put(rng.Intn(3), "port", pt)
					}
					out = append(out, s)
				}
			}
		}
	}
	// seeded random assignments of 2..6 cells (1 in 12 cells ill-typed)
	for i := 0; i < nrand; i++ {
		s := scenario{kind: "random"}
		n := 2 + rng.Intn(5)
		for j := 0; j < n; j++ {
			k := keys[rng.Intn(len(keys))]
			l := rng.Intn(3)
			if s.has(l, k.name) {
				continue
			}
			v := k.vals[rng.Intn(len(k.vals))]
			if len(k.bad) > 0 && rng.Intn(12) == 0 {
				v = k.bad[0]
			}
			s.put(l, k.name, v)
		}
		out = append(out, s)
	}
	return out
}

func Main(args []string) error {
	fs := flag.NewFlagSet("x08", flag.ExitOnError)
	out := fs.String("out", "x08.ndjson", "trace output")
	work := fs.String("work", "", "scratch directory")
	seed := fs.Int64("seed", 1, "seed")
	nrand := fs.Int("random", 300, "number of random scenarios")
	_ = fs.Parse(args)
	if *work == "" {
		return fmt.Errorf("-work required")
	}
	if err := os.MkdirAll(*work, 0o755); err != nil {
		return err
	}
	for _, e := range os.Environ() {
		if strings.HasPrefix(e, "LIVESIM_") {
			os.Unsetenv(strings.SplitN(e, "=", 2)[0])
		}
	}
	// pflag prints its usage text to stderr on every rejected command line
	if null, err := os.OpenFile(os.DevNull, os.O_WRONLY, 0); err == nil {
		os.Stderr = null
	}
	w, err := tr.New(*out)
	if err != nil {
		return err
	}
	rng := rand.New(rand.NewSource(*seed*104729 + 8))
	d := &driver{work: *work, errs: map[string]int{}}
	var names []string
	abs := [][]string{{"./vod", absOf("./vod")}}
	for _, k := range keys {
		names = append(names, k.name)
		if k.kind == "path" {
			for _, v := range k.vals {
				abs = append(abs, []string{v, absOf(v)})
			}
		}
	}
	w.Emit(tr.E{"ev": "hdr", "seed": int(*seed), "cwd": cwd, "keys": names, "abs": abs})
	scs := scenarios(rng, *nrand)
	distinct := map[string]bool{}
	kinds := map[string]int{}
	cells := map[string]int{}
	var samples []any
	for i, s := range scs {
		o := d.call(s.file, s.flags, s.env)
		o2 := d.call(s.file, s.flags, s.env)
		op := d.call(s.file, rev(s.flags), rev(s.env))
		ob := d.call(nil, nil, nil)
		hasfile := 0
		if s.file != nil {
			hasfile = 1
		}
		e := tr.E{"ev": "sc", "id": i, "kind": s.kind, "hasfile": hasfile, "file": pairs(s.file), "flag": pairs(s.flags), "env": pairs(s.env),
			"o": o, "o2": o2, "op": op, "ob": ob}
		w.Emit(e)
		sig, _ := json.Marshal([]any{pairs(s.file), pairs(s.flags), pairs(s.env)})
		distinct[string(sig)] = true
		kinds[s.kind]++
		for l, cs := range [][]cell{s.file, s.flags, s.env} {
			for _, c := range cs {
				cells[layerNames[l]+":"+c.K]++
			}
		}
		if len(samples) < 3 && s.kind == "random" {
			samples = append(samples, map[string]any{"file": pairs(s.file), "flag": pairs(s.flags), "env": pairs(s.env), "err": o["err"]})
		}
	}
	if err := w.Close(); err != nil {
		return err
	}
	var cellnames []string
	for k := range cells {
		cellnames = append(cellnames, k)
	}
	sort.Strings(cellnames)
	tr.PrintStats(map[string]any{"scenarios": len(scs), "events": w.N, "distinct": len(distinct), "samples": samples,
		"kinds": kinds, "calls": d.calls, "outcomes": d.errs, "cells_covered": len(cells), "cells_total": 3 * len(keys)})
	return nil
}

// Package c20 drives the real IPRequestLimiter / limiter middleware and records one event per
// Inc critical section (through the verif hook, i.e. in lock order) and one per HTTP response.
package c20

import (
	"encoding/json"
	"flag"
	"fmt"
	"math/rand"
	"net/http"
	"net/http/httptest"
	"net/netip"
	"os"
	"strconv"
	"strings"
	"sync"
	"syscall"
	"time"

	"github.com/Dash-Industry-Forum/livesim2/cmd/livesim2/app"

	"verifharness/srv"
	"verifharness/tr"
)

type call struct {
	A string `json:"a"`
	T int    `json:"t"`
}

// address classes: ground truth of white-listing is decided HERE (by construction of the
// address), never taken from the limiter.
type addr struct {
	ip string
	wl bool
}

const whiteBlocks = "192.168.0.0/16,2001:db8:ffff::/48"

// blockSets: white-list configurations, including nested and overlapping blocks in both orders.
var blockSets = []string{
	whiteBlocks,
	"10.0.0.0/24,10.0.0.0/8",
	"10.0.0.0/8,10.0.0.0/24",
	"192.168.0.0/24,192.168.0.0/16,2001:db8::/64,2001:db8::/32",
	"10.0.1.0/24,10.0.0.0/16,10.0.0.7/32",
	"2001:db8:ffff::/48,2001:db8::1/128,203.0.113.0/24",
	"10.0.2.0/23,10.0.0.0/22,192.168.1.0/24",
	"",
}

// inBlocks decides white-list membership independently of the limiter (net/netip prefixes; the
// limiter uses net.IPNet). A key that is not one address (several forwarded hops) is in no block.
func inBlocks(blocks, ip string) bool {
	a, err := netip.ParseAddr(ip)
	if err != nil || blocks == "" {
		return false
	}
	for _, b := range strings.Split(blocks, ",") {
		p, err := netip.ParsePrefix(b)
		if err != nil {
			panic(err)
		}
		if p.Masked().Contains(a) {
			return true
		}
	}
	return false
}

func mkAddr(i int) addr {
	switch i % 5 {
	case 0:
		return addr{fmt.Sprintf("10.0.%d.%d", (i/250)%250, i%250+1), false}
	case 1:
		return addr{fmt.Sprintf("2001:db8::%x", i+1), false}
	case 2:
		return addr{fmt.Sprintf("192.168.%d.%d", (i/250)%250, i%250+1), true}
	case 3:
		return addr{fmt.Sprintf("2001:db8:ffff::%x", i+1), true}
	default:
		// forwarded-for style strings with several hops are opaque keys for the limiter
		return addr{fmt.Sprintf("203.0.113.%d, 10.1.1.1", i%250+1), false}
	}
}

type recorder struct {
	w     *tr.W
	start time.Time
	wl    map[string]bool
	// bindStart: take the start time from the limiter at its first Inc
	bindStart bool
}

// hook is installed as app.VerifHook; it runs inside Inc's critical section.
func (r *recorder) hook(ev string, kv ...any) {
	if ev != "inc" {
		return
	}
	il := kv[0].(*app.IPRequestLimiter)
	now := kv[1].(time.Time)
	if r.bindStart {
		// limiter made by SetupServer: its start time is its reset time as long as no interval has elapsed
		r.bindStart = false
		r.start = il.ResetTime
	}
	ip := kv[2].(string)
	nr := *(kv[3].(*int))
	maxNr := *(kv[4].(*int))
	ok := *(kv[5].(*bool))
	r.w.Emit(tr.E{"ev": "inc", "a": ip, "t": int(now.Sub(r.start) / time.Millisecond), "nr": nr, "maxnr": maxNr,
		"ok": ok, "wl": r.wl[ip], "rt": int(il.ResetTime.Sub(r.start) / time.Millisecond)})
}

func Main(args []string) error {
	fs := flag.NewFlagSet("c20", flag.ExitOnError)
	out := fs.String("out", "c20.ndjson", "trace output")
	mode := fs.String("mode", "all", "replay|random|concurrent|http|racechild|all")
	gen := fs.String("gen", "", "file with TLC-generated call sequences (one JSON array per line)")
	seed := fs.Int64("seed", 1, "seed")
	n := fs.Int("n", 2000, "size parameter (random calls per scenario)")
	scen := fs.Int("scen", 20, "number of random scenarios")
	_ = fs.Parse(args)

	if *mode == "racechild" {
		return raceChild(*seed)
	}
	w, err := tr.New(*out)
	if err != nil {
		return err
	}
	rec := &recorder{w: w, wl: map[string]bool{}}
	app.VerifHook = rec.hook
	stats := map[string]any{"scenarios": 0, "distinct_sequences": 0}
	distinct := map[string]bool{}
	samples := []any{}
	nScen := 0

	newLimiter := func(max int, interval time.Duration, blocks string) *app.IPRequestLimiter {
		rec.start = time.Unix(1_700_000_000, 0)
		il, err := app.NewIPRequestLimiter(max, interval, rec.start, blocks, "")
		if err != nil {
			panic(err)
		}
		w.Emit(tr.E{"ev": "hdr", "sc": nScen, "max": max, "interval": int(interval / time.Millisecond), "blocks": blocks})
		nScen++
		return il
	}

	// (R) replay of TLC-enumerated call sequences; model unit = `unit` ms
	if (*mode == "replay" || *mode == "all") && *gen != "" {
		data, err := os.ReadFile(*gen)
		if err != nil {
			return err
		}
		amap := map[string]addr{"a": {"10.0.0.1", false}, "b": {"2001:db8::1", false}, "w": {"192.168.1.7", true}}
		for _, a := range amap {
			rec.wl[a.ip] = a.wl
		}
		for _, line := range strings.Split(strings.TrimSpace(string(data)), "\n") {
			var seq []call
			if err := json.Unmarshal([]byte(line), &seq); err != nil {
				return fmt.Errorf("gen line: %w", err)
			}
			for _, unit := range []int{1, 1000} {
				il := newLimiter(2, time.Duration(3*unit)*time.Millisecond, whiteBlocks)
				for _, c := range seq {
					a := amap[c.A]
					il.Inc(rec.start.Add(time.Duration(c.T*unit)*time.Millisecond), a.ip)
				}
				w.Emit(tr.E{"ev": "end"})
			}
			distinct["r"+line] = true
			if len(samples) < 3 {
				samples = append(samples, map[string]any{"kind": "tlc-replay", "calls": seq})
			}
		}
	}

	rng := rand.New(rand.NewSource(*seed))
	// (V) random sequential sequences over several intervals on virtual time
	if *mode == "random" || *mode == "all" {
		for s := 0; s < *scen; s++ {
			max := []int{1, 2, 3, 10, 100}[rng.Intn(5)]
			intervalMS := []int{1, 10, 1000, 60_000, 86_400_000 / 64}[rng.Intn(5)]
			nAddr := 1 + rng.Intn(50)
			blocks := blockSets[(s+int(*seed))%len(blockSets)]
			addrs := make([]addr, nAddr)
			for i := range addrs {
				addrs[i] = mkAddr(rng.Intn(1000))
				addrs[i].wl = inBlocks(blocks, addrs[i].ip)
				rec.wl[addrs[i].ip] = addrs[i].wl
			}
			il := newLimiter(max, time.Duration(intervalMS)*time.Millisecond, blocks)
			t := 0
			sig := fmt.Sprintf("m%d i%d a%d b%s:", max, intervalMS, nAddr, blocks)
			for i := 0; i < *n; i++ {
				// time steps: mostly small, sometimes exactly to / just beyond the interval boundary, sometimes backwards
				switch rng.Intn(12) {
				case 0:
					t += intervalMS
				case 1:
					t += intervalMS + 1
				case 2:
					t += intervalMS - 1
				case 3:
					if t > 0 {
						t -= rng.Intn(min(t, intervalMS)+1) / 2 // `now` taken before the lock may lag
					}
				case 4:
					t += 3 * intervalMS
				default:
					t += rng.Intn(intervalMS/4 + 2)
				}
				if t < 0 {
					t = 0
				}
				if t > 1_900_000_000 { // times are logged in ms and must stay below 2^31 (TLC integers)
					break
				}
				a := addrs[rng.Intn(nAddr)]
				il.Inc(rec.start.Add(time.Duration(t)*time.Millisecond), a.ip)
				if i < 40 {
					sig += fmt.Sprintf("%s@%d,", a.ip, t)
				}
			}
			w.Emit(tr.E{"ev": "end"})
			distinct[sig] = true
			if s < 2 {
				samples = append(samples, map[string]any{"kind": "random", "prefix": sig})
			}
		}
	}

	// (V) concurrent: 16 goroutines, virtual clock advanced by the goroutines themselves
	if *mode == "concurrent" || *mode == "all" {
		for s := 0; s < max(2, *scen/4); s++ {
			maxReq := []int{1, 3, 25}[rng.Intn(3)]
			intervalMS := []int{5, 50, 1000}[rng.Intn(3)]
			nAddr := 1 + rng.Intn(8)
			blocks := blockSets[(s+1+int(*seed))%len(blockSets)]
			addrs := make([]addr, nAddr)
			for i := range addrs {
				addrs[i] = mkAddr(rng.Intn(40))
				addrs[i].wl = inBlocks(blocks, addrs[i].ip)
				rec.wl[addrs[i].ip] = addrs[i].wl
			}
			il := newLimiter(maxReq, time.Duration(intervalMS)*time.Millisecond, blocks)
			var clock sync.Mutex
			vt := 0
			var wg sync.WaitGroup
			for g := 0; g < 16; g++ {
				wg.Add(1)
				grng := rand.New(rand.NewSource(*seed*1000 + int64(s*16+g)))
				go func() {
					defer wg.Done()
					for i := 0; i < *n/16; i++ {
						clock.Lock()
						vt += grng.Intn(intervalMS/8 + 2)
						now := vt
						clock.Unlock()
						a := addrs[grng.Intn(nAddr)]
						il.Inc(rec.start.Add(time.Duration(now)*time.Millisecond), a.ip)
						if grng.Intn(8) == 0 {
							_ = il.Count(a.ip)
						}
					}
				}()
			}
			wg.Wait()
			w.Emit(tr.E{"ev": "end"})
			distinct[fmt.Sprintf("conc%d-%d-%d-%d", s, maxReq, intervalMS, nAddr)] = true
		}
	}

	// (V) HTTP level: the real middleware in front of a trivial handler, real clock
	if *mode == "http" || *mode == "all" {
		for s := 0; s < 2; s++ {
			maxReq := 3 + s*4
			interval := 400 * time.Millisecond
			rec.start = time.Now()
			blocks := blockSets[(s*3+int(*seed))%len(blockSets)]
			il, err := app.NewIPRequestLimiter(maxReq, interval, rec.start, blocks, "")
			if err != nil {
				return err
			}
			w.Emit(tr.E{"ev": "hdr", "sc": nScen, "max": maxReq, "interval": int(interval / time.Millisecond), "http": true, "blocks": blocks})
			nScen++
			next := http.HandlerFunc(func(w http.ResponseWriter, r *http.Request) { w.WriteHeader(204) })
			h := app.NewLimiterMiddleware("Livesim2-Requests", il)(next)
			addrs := []addr{mkAddr(0), mkAddr(1), mkAddr(2), mkAddr(4), mkAddr(5), mkAddr(503), mkAddr(750)}
			for i := range addrs {
				addrs[i].wl = inBlocks(blocks, addrs[i].ip)
				rec.wl[addrs[i].ip] = addrs[i].wl
			}
			do := func(a addr, forwarded bool) {
				req := httptest.NewRequest("GET", "/livesim2/x.mpd", nil)
				if forwarded || strings.Contains(a.ip, ",") {
					req.Header.Set("X-Forwarded-For", a.ip)
					req.RemoteAddr = "127.0.0.1:1234"
				} else if strings.Contains(a.ip, ":") {
					req.RemoteAddr = "[" + a.ip + "]:1234"
				} else {
					req.RemoteAddr = a.ip + ":1234"
				}
				rr := httptest.NewRecorder()
				h.ServeHTTP(rr, req)
				hdr := rr.Header().Get("Livesim2-Requests")
				var nr, mx int
				if _, err := fmt.Sscanf(hdr, "%d (max %d)", &nr, &mx); err != nil {
					nr, mx = -999, -999
				}
				w.Emit(tr.E{"ev": "http", "a": a.ip, "nr": nr, "maxhdr": mx, "status": rr.Code, "hdr": hdr})
			}
			// sequential, then concurrent bursts, across three intervals
			for round := 0; round < 3; round++ {
				for i := 0; i < maxReq+3; i++ {
					do(addrs[i%len(addrs)], i%2 == 0)
				}
				var wg sync.WaitGroup
				for g := 0; g < 8; g++ {
					wg.Add(1)
					go func() {
						defer wg.Done()
						for i := 0; i < maxReq; i++ {
							do(addrs[(g+i)%len(addrs)], false)
							_ = il.Count(addrs[0].ip)
						}
					}()
				}
				wg.Wait()
				time.Sleep(interval + 30*time.Millisecond)
			}
			w.Emit(tr.E{"ev": "end", "http": true})
			distinct["http"+strconv.Itoa(s)] = true
		}
	}

	// (V) server level: the limiter as SetupServer wires it (white-list blocks from the configuration, /livesim2 and
	// /vod behind the middleware, GET /reqcount reading the counter), real clock, interval 1 s
	if *mode == "srv" || *mode == "all" {
		for s := 0; s < 2; s++ {
			maxReq := 2 + 3*s
			blocks := blockSets[(s*5+1+int(*seed))%len(blockSets)]
			rec.bindStart = true
			sv, err := srv.New(srv.BundledAssets()+"/testpic_2s", func(c *app.ServerConfig) {
				c.MaxRequests = maxReq
				c.ReqLimitInt = 1
				c.WhiteListBlocks = blocks
			})
			if err != nil {
				return err
			}
			w.Emit(tr.E{"ev": "hdr", "sc": nScen, "max": maxReq, "interval": 1000, "http": true, "srv": true, "blocks": blocks})
			nScen++
			addrs := []addr{mkAddr(0), mkAddr(1), mkAddr(2), mkAddr(3), mkAddr(4), mkAddr(255), mkAddr(503), mkAddr(750)}
			for i := range addrs {
				addrs[i].wl = inBlocks(blocks, addrs[i].ip)
				rec.wl[addrs[i].ip] = addrs[i].wl
			}
			var emu sync.Mutex
			do := func(a addr, path string) {
				r := sv.Do("GET", path, map[string]string{"X-Forwarded-For": a.ip}, nil)
				hdr := r.Header.Get("Livesim2-Requests")
				var nr, mx int
				if _, err := fmt.Sscanf(hdr, "%d (max %d)", &nr, &mx); err != nil {
					nr, mx = -999, -999
				}
				emu.Lock()
				w.Emit(tr.E{"ev": "http", "a": a.ip, "nr": nr, "maxhdr": mx, "status": r.Status, "hdr": hdr})
				emu.Unlock()
			}
			reqcount := func(a addr) {
				r := sv.Do("GET", "/reqcount", map[string]string{"X-Forwarded-For": a.ip}, nil)
				var c, mx int
				if _, err := fmt.Sscanf(string(r.Body), "%d (max %d)", &c, &mx); err != nil {
					c, mx = -999, -999
				}
				w.Emit(tr.E{"ev": "rc", "a": a.ip, "count": c, "max": mx, "status": r.Status})
			}
			for round := 0; round < 2; round++ {
				for i := 0; i < (maxReq+2)*len(addrs); i++ {
					a := addrs[i%len(addrs)]
					do(a, []string{"/livesim2/none/Manifest.mpd", "/vod/none/Manifest.mpd"}[i%2])
					if i%3 == 0 {
						reqcount(addrs[(i/3)%len(addrs)])
					}
				}
				for _, a := range addrs {
					reqcount(a)
				}
				// concurrent burst with concurrent /reqcount reads (values not judged, only that they are answered)
				var wg sync.WaitGroup
				for g := 0; g < 6; g++ {
					wg.Add(1)
					go func() {
						defer wg.Done()
						for i := 0; i < 5; i++ {
							do(addrs[(g+i)%len(addrs)], "/livesim2/none/x.m4s")
							_ = sv.Get("/reqcount")
						}
					}()
				}
				wg.Wait()
				for _, a := range addrs {
					reqcount(a)
				}
				time.Sleep(1050 * time.Millisecond)
			}
			w.Emit(tr.E{"ev": "end", "http": true})
			sv.Cancel()
			distinct["srv"+strconv.Itoa(s)+blocks] = true
		}
	}

	// (V) fault injection: a slow request-limit log (a FIFO nobody reads yet) parks the request that rolls the
	// interval over inside its log write; further requests arrive meanwhile. The roll-over must stay atomic.
	if *mode == "slowlog" || *mode == "all" {
		for s := 0; s < 6; s++ {
			fifo := fmt.Sprintf("%s.fifo%d", *out, s)
			_ = os.Remove(fifo)
			if err := syscall.Mkfifo(fifo, 0o600); err != nil {
				return fmt.Errorf("mkfifo: %w", err)
			}
			maxReq := 1 + s%3
			intervalMS := 1000
			rec.start = time.Unix(1_700_000_000, 0)
			il, err := app.NewIPRequestLimiter(maxReq, time.Duration(intervalMS)*time.Millisecond, rec.start, whiteBlocks, fifo)
			if err != nil {
				return err
			}
			w.Emit(tr.E{"ev": "hdr", "sc": nScen, "max": maxReq, "interval": intervalMS, "slowlog": true})
			nScen++
			addrs := []addr{mkAddr(0), mkAddr(1), mkAddr(5)}
			for _, a := range addrs {
				rec.wl[a.ip] = a.wl
			}
			// some requests inside the first interval (no log write happens)
			for i := 0; i < maxReq+1; i++ {
				il.Inc(rec.start.Add(time.Duration(10*i)*time.Millisecond), addrs[i%2].ip)
			}
			// after the interval: several requests, the first of them blocks in the log write
			var wg sync.WaitGroup
			nPar := 2 + s%3
			for g := 0; g < nPar; g++ {
				wg.Add(1)
				go func() {
					defer wg.Done()
					il.Inc(rec.start.Add(time.Duration(intervalMS+5+g)*time.Millisecond), addrs[g%len(addrs)].ip)
				}()
				time.Sleep(30 * time.Millisecond)
			}
			// now let the log be read
			done := make(chan struct{})
			go func() {
				f, err := os.OpenFile(fifo, os.O_RDONLY, 0)
				if err == nil {
					buf := make([]byte, 1<<16)
					for {
						if _, err := f.Read(buf); err != nil {
							break
						}
					}
					f.Close()
				}
				close(done)
			}()
			wg.Wait()
			// requests after the roll-over, same interval
			for i := 0; i < maxReq+1; i++ {
				il.Inc(rec.start.Add(time.Duration(intervalMS+100+i)*time.Millisecond), addrs[i%2].ip)
			}
			w.Emit(tr.E{"ev": "end"})
			// unblock the drain goroutine if nothing was ever written
			if f, err := os.OpenFile(fifo, os.O_WRONLY|syscall.O_NONBLOCK, 0); err == nil {
				f.Close()
			}
			select {
			case <-done:
			case <-time.After(2 * time.Second):
			}
			_ = os.Remove(fifo)
			distinct[fmt.Sprintf("slowlog%d-%d-%d", s, maxReq, nPar)] = true
		}
	}

	if err := w.Close(); err != nil {
		return err
	}
	stats["scenarios"] = nScen
	stats["distinct_sequences"] = len(distinct)
	stats["events"] = w.N
	stats["samples"] = samples
	tr.PrintStats(stats)
	return nil
}

// raceChild is run in a binary built with -race: concurrent Inc / Count / EndTime without any
// synchronisation between the goroutines other than the limiter's own. A detector report is
// printed by the Go runtime on stderr; the parent turns it into a `race` event.
func raceChild(seed int64) error {
	start := time.Now()
	il, err := app.NewIPRequestLimiter(5, 3*time.Millisecond, start, whiteBlocks, "")
	if err != nil {
		return err
	}
	next := http.HandlerFunc(func(w http.ResponseWriter, r *http.Request) { w.WriteHeader(204) })
	h := app.NewLimiterMiddleware("Livesim2-Requests", il)(next)
	var wg sync.WaitGroup
	for g := 0; g < 8; g++ {
		wg.Add(1)
		go func() {
			defer wg.Done()
			for i := 0; i < 400; i++ {
				req := httptest.NewRequest("GET", "/x", nil)
				req.RemoteAddr = fmt.Sprintf("10.0.0.%d:99", g+1)
				h.ServeHTTP(httptest.NewRecorder(), req)
				if i%50 == 0 {
					time.Sleep(time.Millisecond)
				}
			}
		}()
	}
	for g := 0; g < 2; g++ {
		wg.Add(1)
		go func() {
			defer wg.Done()
			for i := 0; i < 400; i++ {
				_ = il.Count("10.0.0.1")
				_ = il.EndTime()
				if i%50 == 0 {
					time.Sleep(time.Millisecond)
				}
			}
		}()
	}
	wg.Wait()
	// the same with the limiter as the server wires it: limited routes and GET /reqcount concurrently
	sv, err := srv.New(srv.BundledAssets()+"/testpic_2s", func(c *app.ServerConfig) {
		c.MaxRequests = 50
		c.ReqLimitInt = 1
		c.WhiteListBlocks = whiteBlocks
	})
	if err != nil {
		return err
	}
	defer sv.Cancel()
	stop := time.Now().Add(1200 * time.Millisecond)
	for g := 0; g < 6; g++ {
		wg.Add(1)
		go func() {
			defer wg.Done()
			for i := 0; time.Now().Before(stop); i++ {
				_ = sv.Do("GET", "/livesim2/none/x.mpd", map[string]string{"X-Forwarded-For": fmt.Sprintf("10.0.0.%d", g%3+1)}, nil)
				if i%20 == 0 {
					time.Sleep(time.Millisecond)
				}
			}
		}()
	}
	for g := 0; g < 2; g++ {
		wg.Add(1)
		go func() {
			defer wg.Done()
			for i := 0; time.Now().Before(stop); i++ {
				_ = sv.Do("GET", "/reqcount", map[string]string{"X-Forwarded-For": fmt.Sprintf("10.0.0.%d", g+1)}, nil)
				if i%20 == 0 {
					time.Sleep(time.Millisecond)
				}
			}
		}()
	}
	wg.Wait()
	tr.PrintStats(map[string]any{"racechild": "done"})
	return nil
}

// Package c02 sweeps live MPDs of the real livesim2 server over increasing instants and fetches, at the
// same instant, segments derived from each MPD (C02); the same trace carries what C05 needs
// (publishTime, content digest, first/last entry over time).
package c02

import (
	"flag"
	"fmt"
	"math/rand"
	"os"
	"path/filepath"
	"sort"
	"strconv"
	"strings"
	"sync"

	"verifharness/drive/tl"
	"verifharness/project"
	"verifharness/tr"
)

type cfgSel struct {
	mode    string
	snr     int
	ast     int64
	tsbd    int
	atoKind int   // 0 none, 1 quarter segment, 2 segment-40ms, 3 1.5 segments
	stopRel int64 // stop_ at AST + stopRel seconds (0 = none)
	periods int   // periods_<n> (0 = single period)
}

func atoMS(kind int, segMS int64) int64 {
	switch kind {
	case 1:
		return max64(segMS/4, 1)
	case 2:
		return max64(segMS-40, 1)
	case 3:
		return segMS + segMS/2
	}
	return 0
}

func uniform(rt *project.RepTruth) bool {
	for _, d := range rt.Dur {
		if d != rt.Dur[0] {
			return false
		}
	}
	return true
}

// wholeMS: every segment boundary of the representation is a whole millisecond
func wholeMS(rt *project.RepTruth) bool {
	if rt.Vod0*1000%rt.TS != 0 {
		return false
	}
	for _, d := range rt.Dur {
		if d*1000%rt.TS != 0 {
			return false
		}
	}
	return true
}

func max64(a, b int64) int64 {
	if a > b {
		return a
	}
	return b
}

func parseATO(s string) int64 {
	if s == "" {
		return 0
	}
	if strings.EqualFold(s, "INF") {
		return -1
	}
	f, err := strconv.ParseFloat(s, 64)
	if err != nil {
		return -9
	}
	return int64(f*1000 + 0.5)
}

type job struct {
	a    *tl.Asset
	rt   *project.RepTruth
	cs   cfgSel
	seed int64
	mpd  string
	// gen: URL option that makes the server generate this representation (timesubsstpp_en / timesubswvtt_en)
	gen string
}

func Main(args []string) error {
	fs := flag.NewFlagSet("c02", flag.ExitOnError)
	out := fs.String("out", "c02.ndjson", "trace output")
	work := fs.String("work", "", "scratch directory for the VoD root")
	seed := fs.Int64("seed", 1, "seed")
	thorough := fs.Bool("thorough", false, "full configuration product")
	nofetch := fs.Bool("nofetch", false, "only MPD events (C05)")
	dense := fs.Bool("dense", false, "C05-style dense sweeps (1 ms steps around breakpoints, 97 ms in between)")
	_ = fs.Parse(args)
	if *work == "" {
		return fmt.Errorf("-work required")
	}
	vod := filepath.Join(*work, "vod")
	_ = os.RemoveAll(vod)
	env, err := tl.Setup(vod, *thorough)
	if err != nil {
		return err
	}
	w, err := tr.New(*out)
	if err != nil {
		return err
	}
	rng := rand.New(rand.NewSource(*seed))
	modes := []string{"number", "time", "tlnr"}
	var cfgs []cfgSel
	if *thorough {
		for _, mode := range modes {
			for _, snr := range []int{-1, 1, 5} {
				for _, ast := range []int64{0, 1000, 1_699_999_000} {
					for _, tsbd := range []int{0, 1, 10, -1} {
						for ak := 0; ak < 4; ak++ {
							if (snr+int(ast)+tsbd+ak)%2 == 0 || mode == "time" { // half of the product per mode, all for $Time$
								cfgs = append(cfgs, cfgSel{mode, snr, ast, tsbd, ak, 0, 0})
							}
						}
					}
				}
			}
		}
	} else {
		for i, mode := range modes {
			cfgs = append(cfgs, cfgSel{mode, -1, 0, -1, 0, 0, 0}, cfgSel{mode, -1, 1_699_999_000, 10, 1 + i%3, 0, 0}, cfgSel{mode, 1, 1000, 1, 0, 0, 0})
		}
		for j := 0; j < 2; j++ {
			cfgs = append(cfgs, cfgSel{modes[rng.Intn(3)], []int{-1, 1, 5}[rng.Intn(3)], []int64{0, 1000, 1_699_999_000}[rng.Intn(3)],
				[]int{0, 1, 10, -1, 7}[rng.Intn(5)], rng.Intn(4), 0, 0})
		}
	}
	// C05.stop: a few scenarios with a configured stop time (static MPD afterwards)
	for i, mode := range modes {
		cfgs = append(cfgs, cfgSel{mode, -1, []int64{0, 1000, 1_699_999_000}[i], 10, 0, int64(13 + 4*i), 0})
		// multi-period + stop: the static MPD must not keep changing at later period boundaries
		cfgs = append(cfgs, cfgSel{mode, -1, []int64{0, 0, 1_699_999_200}[i], -1, 0, int64(150 + 20*i), 60})
		// option combinations: stop / multi-period together with an availabilityTimeOffset (shorter and longer than a segment),
		// and the implicit startNumber (snr_-1 = DASH default 1)
		cfgs = append(cfgs, cfgSel{mode, -1, []int64{1000, 0, 1_699_999_000}[i], 10, 1 + i, int64(14 + 3*i), 0},
			cfgSel{mode, -1, 0, -1, 3 - i, 0, 60},
			cfgSel{mode, tl.SNRImplicit, []int64{0, 1_699_999_000, 1000}[i], []int{-1, 10, 1}[i], i, 0, 0})
	}
	if *thorough {
		for _, mode := range modes {
			for ak := 1; ak < 4; ak++ {
				cfgs = append(cfgs, cfgSel{mode, 1, 1000, 10, ak, 21, 0}, cfgSel{mode, -1, 0, 10, ak, 0, 120},
					cfgSel{mode, tl.SNRImplicit, 0, 10, ak, 0, 60})
			}
		}
	}
	var jobs []job
	samples := []any{}
	for _, a := range env.Assets {
		if !*thorough && (a.Name == "testpic_6s" || (*dense && (a.Name == "g_alt12800" || a.Name == "g_sub1k"))) {
			continue
		}
		type sel struct {
			rt  *project.RepTruth
			mpd string
			gen string
		}
		reps := []sel{{a.Video, a.MPD, ""}}
		if a.Text != nil {
			reps = append(reps, sel{a.Text, "Manifest_imsc1.mpd", ""})
		}
		// generated time subtitles: a text AdaptationSet whose timeline is the video's in ms (C12 decides the cues; here
		// the listed entries must be served as declared and the one after the edge refused with 425)
		if wholeMS(a.Video) && !*nofetch {
			v := a.Video
			kind := []string{"stpp", "wvtt"}[len(reps)%2]
			g := &project.RepTruth{ID: "time" + kind + "-en", Kind: "text", TS: 1000, N: v.N, Vod0: v.Vod0 * 1000 / v.TS, L: v.L * 1000 / v.TS,
				MediaPat: "time" + kind + "-en/$Number$.m4s"}
			for _, d := range v.Dur {
				g.Dur = append(g.Dur, d*1000/v.TS)
			}
			reps = append(reps, sel{g, a.MPD, "timesubs" + kind + "_en"})
		}
		if a.Thumbs != nil {
			th := a.Thumbs
			rt := &project.RepTruth{ID: th.ID, Kind: "image", TS: 1, N: th.N, L: int64(th.N) * th.DurS, MediaPat: th.Pat}
			for j := 0; j < th.N; j++ {
				rt.Dur = append(rt.Dur, th.DurS)
			}
			reps = append(reps, sel{rt, "Manifest_thumbs.mpd", ""})
		}
		// audio AdaptationSet: its timeline follows the video grid (C03 decides the grid itself); here the declared
		// entries must be served with the declared time/duration and the one after the edge refused. Times are
		// carried as pairs over the video loop expressed in audio ticks (a synthetic one-segment layout).
		if a.Audio != nil && (a.LoopMS*a.Audio.TS)%1000 == 0 && !*nofetch { // (the MPD-only sweeps of C05 gain nothing from it)
			pa := a.LoopMS * a.Audio.TS / 1000
			art := &project.RepTruth{ID: a.Audio.ID, Kind: "audio", TS: a.Audio.TS, N: 1, Dur: []int64{pa}, L: pa,
				MediaPat: a.Audio.MediaPat, Trex: a.Audio.Trex}
			reps = append(reps, sel{art, a.MPD, ""})
		}
		for _, rs := range reps {
			for _, cs := range cfgs {
				if rs.rt.Kind == "audio" && cs.mode == "number" {
					continue // $Number$ template of audio: see C03.mpd
				}
				if rs.rt.Kind == "image" && cs.mode != "number" {
					continue // thumbnails are always addressed by number
				}
				if cs.periods > 0 && (rs.rt.Kind != "video" || (3600/cs.periods*1000)%int(rs.rt.Dur[0]*1000/rs.rt.TS) != 0 || !uniform(rs.rt)) {
					continue // multi-period only where the period duration is a multiple of a uniform segment duration
				}
				jobs = append(jobs, job{a, rs.rt, cs, rng.Int63(), rs.mpd, rs.gen})
			}
		}
		if len(samples) < 3 {
			samples = append(samples, map[string]any{"asset": a.Name, "N": a.Video.N, "dur": a.Video.Dur, "TS": a.Video.TS})
		}
	}
	var mu sync.Mutex
	nmpd, nfetch := 0, 0
	distinct := map[string]bool{}
	tl.RunParallel(w, len(jobs), 12, func(idx int, emit func(tr.E)) {
		j := jobs[idx]
		a, rt, cs := j.a, j.rt, j.cs
		rng := rand.New(rand.NewSource(j.seed))
		brk := rt // representation whose availability breakpoints are swept
		if rt.Kind == "audio" {
			brk = a.Video
		}
		segMS := brk.Dur[0] * 1000 / brk.TS
		ato := atoMS(cs.atoKind, segMS)
		c := tl.Cfg{Mode: cs.mode, SNR: cs.snr, AST: cs.ast, TSBD: cs.tsbd, AtoMS: ato}
		stop := int64(-1)
		trex := rt.Trex
		if j.gen != "" {
			c.Extra = append(c.Extra, j.gen)
			if ri := env.S.Get(c.Prefix(a.Name) + "/" + rt.ID + "/init.mp4"); ri.Status == 200 {
				if init, err := project.ParseInit(ri.Body); err == nil && init.Moov != nil && init.Moov.Mvex != nil {
					trex = init.Moov.Mvex.Trex
				}
			}
		}
		if cs.periods > 0 {
			c.Extra = append(c.Extra, fmt.Sprintf("periods_%d", cs.periods))
		}
		if cs.stopRel > 0 {
			stop = cs.stopRel
			c.Extra = append(c.Extra, fmt.Sprintf("stop_%d", cs.ast+cs.stopRel))
		}
		emit(tl.HeaderE(idx, a, rt, c, tr.E{"stop": stop, "multi": cs.periods > 0, "refvod0": a.Video.Vod0}))
		N := int64(rt.N)
		BN := int64(brk.N)
		loopMS := rt.L * 1000 / rt.TS
		tsbdMS := c.EffTSBD() * 1000
		// instants (relative to AST): breakpoints of the piecewise-constant behaviour +-1 ms
		inst := map[int64]bool{0: true, 1: true}
		var ns []int64
		for n := int64(0); n <= BN+2; n++ {
			ns = append(ns, n)
		}
		for _, k := range []int64{2, 1000} {
			if k == 1000 && cs.periods > 0 {
				continue
			}
			ns = append(ns, k*BN-1, k*BN, k*BN+1)
		}
		if cs.ast == 0 && cs.periods == 0 { // (multi-period + stop: instants stay within hours of the stop time)
			kf := int64(1_750_000_000) * brk.TS / brk.L
			ns = append(ns, kf*BN-1, kf*BN, kf*BN+1+int64(rng.Intn(int(BN))))
		}
		for _, n := range ns {
			av := tl.AvailRelMS(brk, n, ato)
			for _, base := range []int64{av, av + tsbdMS} {
				if *dense {
					for d := int64(-3); d <= 3; d++ {
						inst[base+d] = true
					}
				} else {
					for d := int64(-1); d <= 1; d++ {
						inst[base+d] = true
					}
				}
			}
			inst[av+1+int64(rng.Intn(int(segMS)+1))] = true
			if *dense {
				for t := av; t < av+segMS && t < av+4000; t += 97 {
					inst[t] = true
				}
			}
		}
		if cs.periods > 0 { // both sides of period boundaries, also the availabilityTimeOffset before them
			pd := int64(3600 / cs.periods * 1000)
			for _, k := range []int64{1, 2, 60} {
				for _, d := range []int64{-ato - 1, -ato, -ato + 1, -ato / 2, -1, 0, 1} {
					inst[k*pd+d] = true
				}
			}
		}
		if stop > 0 {
			for _, d := range []int64{-ato - 1, -ato, -ato / 2, -1000, -250} {
				inst[stop*1000+d] = true
			}
			for _, d := range []int64{-1, 0, 1, 2, 999, 5000, 100_000} {
				inst[stop*1000+d] = true
			}
			if cs.periods > 0 { // later period boundaries
				pd := int64(3600 / cs.periods * 1000)
				for k := int64(1); k <= 4; k++ {
					b := (stop*1000/pd + k) * pd
					inst[b-1], inst[b], inst[b+1] = true, true, true
				}
				inst[stop*1000+3_600_000] = true
			}
		}
		var list []int64
		for t := range inst {
			if t >= 0 {
				list = append(list, t)
			}
		}
		sort.Slice(list, func(x, y int) bool { return list[x] < list[y] })
		mpdURL := c.Prefix(a.Name) + "/" + j.mpd
		for _, t := range list {
			nowAbs := cs.ast*1000 + t
			q := "?nowMS=" + fmt.Sprint(nowAbs)
			r := env.S.Get(mpdURL + q)
			np := project.Pair(t, loopMS)
			e := tr.E{"ev": "mpd", "now": np[:], "st": r.Status, "type": "", "pt": []int64{0, 0}, "hasPt": false, "dig": "", "S": [][]int64{},
				"hasSn": false, "snp": []int64{0, 0}, "tmplD": 0, "tmplTS": 1, "atoDecl": 0, "tsbdDecl": -1, "astOk": false, "mpdur": -1,
				"hasMup": false, "rel": fmt.Sprint(t), "pids": []string{"", ""}}
			var media string
			var entries [][2]int64 // expanded (t, d) for URL construction only
			if r.Status == 200 {
				m, err := project.ParseMPD(r.Body)
				if err != nil {
					e["st"] = -1
					e["parseErr"] = err.Error()
				} else {
					e["type"] = m.Type
					if np := len(m.Periods); np > 0 { // ids of the oldest and the newest listed Period
						e["pids"] = []string{m.Periods[0].ID, m.Periods[np-1].ID}
					}
					e["dig"] = project.ContentDigest(r.Body)
					if pt, err := project.DateMS(m.PublishTime); err == nil {
						pp := project.Pair(pt-cs.ast*1000, loopMS)
						e["pt"] = pp[:]
						e["hasPt"] = true
					}
					if astMS, err := project.DateMS(m.AST); err == nil && astMS == cs.ast*1000 {
						e["astOk"] = true
					}
					if m.TSBD != "" {
						if v, err := project.DurMS(m.TSBD); err == nil {
							e["tsbdDecl"] = v
						}
					}
					e["hasMup"] = m.MUP != ""
					if m.MPDur != "" {
						if v, err := project.DurMS(m.MPDur); err == nil && v < 2_000_000_000 {
							e["mpdur"] = v
						}
					}
					ct := rt.Kind
					as := m.FindAS(0, ct, rt.ID)
					if as == nil || as.SegmentTemplate == nil {
						e["st"] = -2
					} else {
						st := as.SegmentTemplate
						media = strings.ReplaceAll(st.Media, "$RepresentationID$", rt.ID)
						if st.StartNumber != nil {
							sp := project.Pair(int64(*st.StartNumber)-c.EffSNR(), N)
							e["snp"] = sp[:]
							e["hasSn"] = true
						} else if c.SNR == tl.SNRImplicit { // snr_-1: no attribute, which DASH reads as startNumber 1
							sp := project.Pair(1-c.EffSNR(), N)
							e["snp"] = sp[:]
							e["hasSn"] = true
						}
						if st.Duration != nil {
							e["tmplD"] = int64(*st.Duration)
						}
						if st.Timescale != nil {
							e["tmplTS"] = int64(*st.Timescale)
						}
						e["atoDecl"] = parseATO(st.ATO)
						if st.Timeline != nil {
							raw := [][]int64{}
							var cur int64
							for _, s := range st.Timeline.S {
								ent := []int64{0, 0, 0, int64(s.D), int64(s.R)}
								if s.T != nil {
									tp := project.Pair(int64(*s.T), rt.L)
									ent[0], ent[1], ent[2] = 1, tp[0], tp[1]
									cur = int64(*s.T)
								}
								raw = append(raw, ent)
								for x := 0; x <= s.R; x++ {
									entries = append(entries, [2]int64{cur, int64(s.D)})
									cur += int64(s.D)
								}
							}
							// multi-period: the timelines of the later Periods follow (each starts with an explicit @t); used only to
							// tell where an MPD changed (C05), the per-Period structure is C06's
							for pi := 1; pi < len(m.Periods) && cs.periods > 0; pi++ {
								if as2 := m.FindAS(pi, ct, rt.ID); as2 != nil && as2.SegmentTemplate != nil && as2.SegmentTemplate.Timeline != nil {
									for _, s := range as2.SegmentTemplate.Timeline.S {
										ent := []int64{0, 0, 0, int64(s.D), int64(s.R)}
										if s.T != nil {
											tp := project.Pair(int64(*s.T), rt.L)
											ent[0], ent[1], ent[2] = 1, tp[0], tp[1]
										}
										raw = append(raw, ent)
									}
								}
							}
							e["S"] = raw
						}
					}
				}
			}
			emit(e)
			mu.Lock()
			nmpd++
			mu.Unlock()
			if e["st"] != 200 || media == "" || *nofetch || cs.periods > 0 {
				continue
			}
			segURL := func(v int64) string {
				p := strings.ReplaceAll(strings.ReplaceAll(media, "$Number$", fmt.Sprint(v)), "$Time$", fmt.Sprint(v))
				return c.Prefix(a.Name) + "/" + p + q
			}
			obs := func(e tr.E, r2 struct {
				st   int
				body []byte
			}) {
				e["st"] = r2.st
				e["tfdt"] = []int64{-1, 0}
				e["dur"] = -1
				e["nrp"] = []int64{-1, -1}
				if r2.st == 200 && rt.Kind != "image" {
					md, err := project.ParseMedia(r2.body, trex)
					if err != nil {
						e["st"] = -1
					} else {
						tp := project.Pair(int64(md.Frags[0].Tfdt), rt.L)
						e["tfdt"] = tp[:]
						e["dur"] = int64(md.TotalDur)
						np := project.Pair(int64(md.Frags[0].Seq)-c.EffSNR(), N)
						e["nrp"] = np[:]
					}
				}
			}
			if cs.mode != "number" && rt.Kind != "image" {
				nE := len(entries)
				js := map[int]bool{1: true, 2: true, nE / 2: true, nE - 1: true, nE: true, nE + 1: true}
				if nE > 4 {
					js[1+rng.Intn(nE)] = true
				}
				var jl []int
				for x := range js {
					if x >= 1 && x <= nE+1 {
						jl = append(jl, x)
					}
				}
				sort.Ints(jl)
				sn := int64(-1)
				if as := e["hasSn"].(bool); as {
					sp := e["snp"].([]int64)
					sn = sp[0]*N + sp[1] + c.EffSNR()
				}
				for _, jx := range jl {
					var v int64
					if jx <= nE {
						if cs.mode == "time" {
							v = entries[jx-1][0]
						} else {
							if sn < 0 {
								continue
							}
							v = sn + int64(jx-1)
						}
					} else { // the segment after the live edge
						if nE == 0 {
							continue
						}
						if cs.mode == "time" {
							v = entries[nE-1][0] + entries[nE-1][1]
						} else {
							if sn < 0 {
								continue
							}
							v = sn + int64(nE)
						}
					}
					r2 := env.S.Get(segURL(v))
					fe := tr.E{"ev": "fetch", "j": jx}
					obs(fe, struct {
						st   int
						body []byte
					}{r2.Status, r2.Body})
					emit(fe)
					mu.Lock()
					nfetch++
					mu.Unlock()
				}
			} else {
				// $Number$ template: candidates around the live edge and around the tail of the window
				dms := segMS
				if d, ok := e["tmplD"].(int64); ok && d > 0 {
					if ts, ok := e["tmplTS"].(int64); ok && ts > 0 {
						dms = d * 1000 / ts
					}
				}
				if dms <= 0 {
					continue
				}
				cand := map[int64]bool{}
				edge := (t + ato) / dms
				tail := (t - tsbdMS) / dms
				for d := int64(-3); d <= 2; d++ {
					cand[edge+d] = true
					cand[tail+d] = true
				}
				if edge > tail+6 {
					cand[tail+3+rng.Int63n(edge-tail-5)] = true
				}
				var ql []int64
				for x := range cand {
					if x >= 0 {
						ql = append(ql, x)
					}
				}
				sort.Slice(ql, func(x, y int) bool { return ql[x] < ql[y] })
				for _, qv := range ql {
					r2 := env.S.Get(segURL(qv + c.EffSNR()))
					qp := project.Pair(qv, N)
					fe := tr.E{"ev": "fetchn", "q": qp[:]}
					obs(fe, struct {
						st   int
						body []byte
					}{r2.Status, r2.Body})
					if rt.Kind == "image" && r2.Status == 200 { // no mp4 to decode: report the declared values as observed
						sp := project.Pair(qv*rt.Dur[0], rt.L) // thumbnails: time = number * duration by definition of the template
						fe["tfdt"] = sp[:]
						fe["dur"] = rt.Dur[0]
						fe["nrp"] = qp[:]
					}
					emit(fe)
					mu.Lock()
					nfetch++
					mu.Unlock()
				}
			}
		}
		mu.Lock()
		distinct[fmt.Sprintf("%s|%s|%v", a.Name, rt.ID, cs)] = true
		mu.Unlock()
	})
	if err := w.Close(); err != nil {
		return err
	}
	tr.PrintStats(map[string]any{"scenarios": len(jobs), "events": w.N, "mpds": nmpd, "fetches": nfetch, "distinct": len(distinct), "samples": samples})
	return nil
}

package x07

import (
	"bufio"
	"encoding/base64"
	"encoding/json"
	"flag"
	"fmt"
	"math/rand"
	"net/http"
	"net/url"
	"os"
	"path/filepath"
	"regexp"
	"sort"
	"strconv"
	"strings"
	"time"

	"github.com/Dash-Industry-Forum/livesim2/cmd/livesim2/app"

	"verifharness/drive/tl"
	"verifharness/project"
	"verifharness/tr"
)

// Class is one element of the abstract request space printed by spec/HttpEnvelope.tla (GEN lines).
type Class struct {
	Route   string `json:"route"`
	Method  string `json:"method"`
	Outcome string `json:"outcome"`
	Kind    string `json:"kind"`
	Srv     string `json:"srv"`
	V       int    `json:"v"`
}

func (c Class) key() string {
	return strings.Join([]string{c.Route, c.Method, c.Outcome, c.Kind, c.Srv}, "|")
}
func (c Class) rec() map[string]any {
	return map[string]any{"route": c.Route, "method": c.Method, "outcome": c.Outcome, "kind": c.Kind, "srv": c.Srv, "v": c.V}
}

// route prefixes: the driver's own reading of routes.go (the trace specification compares Location with ITS table)
var prefix = map[string]string{"live": "/livesim2", "vod": "/vod", "patch": "/patch", "rlivesim": "/livesim", "rchunked": "/livesim-chunked",
	"rdashvod": "/dash/vod", "rurlgen": "/urlgen", "healthz": "/healthz", "version": "/version", "config": "/config", "assets": "/assets",
	"vodlist": "/vod", "index": "/", "favicon": "/favicon.ico", "urlgen": "/urlgen/", "static": "/static", "reqcount": "/reqcount",
	"loglevel": "/loglevel", "metrics": "/metrics", "api": "/api", "unknown": "/x07-no-such"}

var intended = map[string]int{"ok": 200, "bad": 400, "notfound": 404, "gone": 410, "early": 425, "code": 503, "err": 500, "limited": 429,
	"redirect": 302, "nometh": 405}

// inputs of a request the oracle needs (known by construction)
type inputs struct {
	tail, q string
	ttl     int
	code    int
}

type driver struct {
	w        *tr.W
	rng      *rand.Rand
	env      *tl.Env
	root     string
	nodes    map[string]*Node
	id       int
	ipn      int
	stats    map[string]int
	status   map[string]int
	achieved map[string]int
	missed   map[string]int
	missEx   map[string]string
	distinct map[string]bool
	samples  []string
	late     map[string]int
	vodCT    map[string]int
	uniform  []*tl.Asset // $Number$ assets with uniform video segment durations
	numbered []*tl.Asset // $Number$ assets
	vodFiles map[string][]string
	mpdFiles []string
	servable []string
	requests int
}

func (d *driver) freshIP() string {
	d.ipn++
	return fmt.Sprintf("10.7.%d.%d", (d.ipn/250)%250, d.ipn%250+1)
}

// ---------------------------------------------------------------- issuing + recording

type reqSpec struct {
	c    Class
	in   inputs
	path string // path?query
	body []byte
	ip   string // X-Forwarded-For on the limited server ("" = fresh)
	aux  bool
	// extra observation fields (facts / listed / servable / expires)
	post func(o *Obs, e tr.E)
}

func pOf(o *Obs) map[string]any {
	return map[string]any{"st": o.Status, "ct": mediaType(o.H.Get("Content-Type")), "cl": clOf(o.H), "hst": o.R.status,
		"hct": mediaType(o.R.snap.Get("Content-Type")), "hcl": clOf(o.R.snap), "blen": len(o.Body), "dig": digest(o.Body),
		"method": o.Method, "allow": tokens(strings.Join(o.H.Values("Allow"), ","))}
}

func (d *driver) do(s reqSpec) (*Obs, error) {
	n := d.nodes[s.c.Srv]
	if n == nil {
		return nil, fmt.Errorf("no server %q", s.c.Srv)
	}
	hdr := map[string]string{}
	if s.c.Srv == "lim" {
		ip := s.ip
		if ip == "" {
			ip = d.freshIP()
		}
		hdr["X-Forwarded-For"] = ip
	}
	if s.c.Method == "POST" && s.body != nil {
		hdr["Content-Type"] = "application/json"
	}
	o, err := n.Do(s.c.Method, s.path, hdr, s.body)
	if err != nil {
		return nil, err
	}
	d.requests++
	d.id++
	te := ""
	if len(o.TE) > 0 {
		te = strings.ToLower(o.TE[0])
	}
	e := tr.E{"ev": "resp", "id": d.id, "aux": s.aux, "r": s.c.rec(), "url": s.path,
		"in": map[string]any{"tail": s.in.tail, "q": s.in.q, "ttl": s.in.ttl, "code": s.in.code},
		"intended": intended[s.c.Outcome], "ext": pathExt(s.path),
		"o": map[string]any{
			"st": o.Status, "env": envOf(o.H), "acam": tokens(o.H.Get("Access-Control-Allow-Methods")),
			"ct": mediaType(o.H.Get("Content-Type")), "cl": clOf(o.H), "blen": len(o.Body), "berr": o.BodyErr,
			"hst": o.R.status, "hct": mediaType(o.R.snap.Get("Content-Type")), "hcl": clOf(o.R.snap), "hbytes": o.R.bytes,
			"writes": o.R.writes, "flushes": o.R.flushes, "late": o.R.late, "te": te,
			"allow": tokens(strings.Join(o.H.Values("Allow"), ",")), "loc": o.H.Get("Location"),
			"hasexp": false, "expoff": 0, "lreq": o.H.Get("Livesim2-Requests"),
			"facts": [][]string{}, "listed": []string{}, "servable": []string{}},
	}
	if s.post != nil {
		s.post(o, e)
	}
	d.w.Emit(e)
	d.status[fmt.Sprintf("%s %s %d", s.c.Route, s.c.Method, o.Status)]++
	if o.R.late > 0 {
		d.late[s.c.Route+" "+strconv.Itoa(o.Status)]++
	}
	if !s.aux {
		want := intended[s.c.Outcome]
		if s.c.Outcome == "ok" && s.c.Method == "OPTIONS" {
			want = 204
		}
		if s.c.Outcome == "code" {
			want = s.in.code
		}
		k := s.c.Outcome
		if o.Status == want {
			d.achieved[k]++
		} else {
			d.missed[k]++
			d.missEx[s.c.key()] = fmt.Sprintf("%s %s -> %d (intended %d)", s.c.Method, s.path, o.Status, want)
		}
		d.distinct[s.c.key()] = true
		if len(d.samples) < 8 && d.rng.Intn(40) == 0 {
			d.samples = append(d.samples, fmt.Sprintf("%s %s -> %d %s cl=%d writes=%d", s.c.Method, s.path, o.Status,
				mediaType(o.H.Get("Content-Type")), clOf(o.H), o.R.writes))
		}
	}
	if s.c.Route == "vod" && o.Status == 200 {
		d.vodCT[pathExt(s.path)+" "+mediaType(o.H.Get("Content-Type"))]++
	}
	// X07.allow: a 405 is confronted with what OPTIONS says about the same path
	if o.Status == http.StatusMethodNotAllowed && s.c.Method != "OPTIONS" {
		p := s.path
		if i := strings.IndexByte(p, '?'); i >= 0 {
			p = p[:i]
		}
		oc := s.c
		oc.Method, oc.Outcome = "OPTIONS", "ok"
		if oc.Route == "api" {
			oc.Outcome = "nometh" // huma's router: OPTIONS is not served there
		}
		if oo, err := d.do(reqSpec{c: oc, path: p, aux: true}); err == nil {
			d.w.Emit(tr.E{"ev": "pair", "rel": "allow", "id": d.id, "r": s.c.rec(), "url": p, "a": pOf(o), "b": pOf(oo)})
			d.stats["pairs_allow"]++
		} else {
			return nil, err
		}
	}
	return o, nil
}

// ---------------------------------------------------------------- metrics

var metricRe = regexp.MustCompile(`^(mpd|segment|other)_(requests_total|request_duration_milliseconds_count)\{code="(\d+)",service="livesim2"\} (\d+)$`)

func (d *driver) scrape() error {
	c := Class{Route: "metrics", Method: "GET", Outcome: "ok", Kind: "none", Srv: "main"}
	var vals [][]any
	post := func(o *Obs, e tr.E) {
		type tv struct{ tot, hist int }
		m := map[[2]string]*tv{}
		sc := bufio.NewScanner(strings.NewReader(string(o.Body)))
		sc.Buffer(make([]byte, 1<<20), 1<<20)
		for sc.Scan() {
			g := metricRe.FindStringSubmatch(sc.Text())
			if g == nil {
				continue
			}
			k := [2]string{g[1], g[3]}
			if m[k] == nil {
				m[k] = &tv{}
			}
			v, _ := strconv.Atoi(g[4])
			if g[2] == "requests_total" {
				m[k].tot = v
			} else {
				m[k].hist = v
			}
		}
		keys := make([][2]string, 0, len(m))
		for k := range m {
			keys = append(keys, k)
		}
		sort.Slice(keys, func(i, j int) bool { return keys[i][0]+keys[i][1] < keys[j][0]+keys[j][1] })
		for _, k := range keys {
			vals = append(vals, []any{k[0], k[1], m[k].tot, m[k].hist})
		}
		// the scrape does not contain itself: the sample is logged BEFORE the response of the scrape request
		d.w.Emit(tr.E{"ev": "scrape", "vals": vals, "st": o.Status})
		d.stats["scrapes"]++
	}
	_, err := d.do(reqSpec{c: c, path: "/metrics", aux: true, post: post})
	return err
}

// ---------------------------------------------------------------- concretisation helpers

func (d *driver) pick(as []*tl.Asset) *tl.Asset { return as[d.rng.Intn(len(as))] }

func (d *driver) nowMS() int64 { return 1_600_000_000_000 + d.rng.Int63n(200_000_000_000) }

func minDurMS(rt *project.RepTruth) int64 {
	m := int64(1 << 62)
	for _, x := range rt.Dur {
		if ms := x * 1000 / rt.TS; ms < m {
			m = ms
		}
	}
	return m
}

// lastComplete is the largest segment index whose end is <= nowMS (stream start 0).
func lastComplete(rt *project.RepTruth, nowMS int64) int64 {
	nowT := nowMS / 1000 * rt.TS // whole seconds: exact
	nowT += (nowMS % 1000) * rt.TS / 1000
	k := nowT / rt.L
	n := k*int64(rt.N) - 1
	for i := int64(0); i < int64(rt.N); i++ {
		if tl.EndTicks(rt, k*int64(rt.N)+i) <= nowT {
			n = k*int64(rt.N) + i
		}
	}
	return n
}

// segNr chooses a segment number for the outcome class (inputs only; nothing is judged by it).
func (d *driver) segNr(rt *project.RepTruth, nowMS int64, outcome string) int64 {
	n := lastComplete(rt, nowMS)
	switch outcome {
	case "gone":
		return n - 150_000/minDurMS(rt) - int64(d.rng.Intn(4))
	case "early":
		return n + 3 + int64(d.rng.Intn(6))
	}
	return n - 1 - int64(d.rng.Intn(3))
}

func nowQ(t int64) string { return fmt.Sprintf("?nowMS=%d", t) }

var codes = []int{500, 502, 503, 504}

// live builds the path of a /livesim2 request of the given kind / outcome (without the /livesim2 prefix: tail).
func (d *driver) live(kind, outcome string) (tail, q string, body []byte, code int, err error) {
	t := d.nowMS()
	cfg := tl.Cfg{Mode: "number", SNR: -1, TSBD: -1}
	strip := func(p string) string { return strings.TrimPrefix(p, "/livesim2") }
	ll := func(a *tl.Asset) tl.Cfg {
		c := cfg
		c.AtoMS = minDurMS(a.Video) * 3 / 4
		c.Extra = []string{"chunkdur_" + []string{"0.5", "0.25", "1"}[d.rng.Intn(3)]}
		return c
	}
	repURL := func(c tl.Cfg, a *tl.Asset, rt, ref *project.RepTruth, oc string) string {
		n := d.segNr(ref, t, oc)
		return strip(tl.SegURL(c, a, rt, n))
	}
	switch kind {
	case "mpd", "llmpd", "mpdstatic":
		a := d.pick(d.numbered)
		c := cfg
		mpd := a.MPD
		switch {
		case kind == "llmpd":
			a = d.pick(d.uniform)
			mpd = a.MPD
			c = ll(a)
		case kind == "mpdstatic":
			st := t/1000 - 3600 - int64(d.rng.Intn(1000))
			c.Extra = []string{fmt.Sprintf("start_%d", st), fmt.Sprintf("stop_%d", st+600+int64(d.rng.Intn(600)))}
		case d.rng.Intn(3) == 0:
			c.Mode = []string{"time", "tlnr"}[d.rng.Intn(2)]
		}
		switch outcome {
		case "bad":
			c.Extra = append(c.Extra, []string{"tsbd_x", "mup_", "snr_1.5", "ato_abc"}[d.rng.Intn(4)])
		case "notfound":
			return strip(c.Prefix("x07nosuch"+strconv.Itoa(d.rng.Intn(100)))) + "/" + mpd, nowQ(t), nil, 0, nil
		case "early":
			c.Extra = append(c.Extra, fmt.Sprintf("start_%d", t/1000+100+int64(d.rng.Intn(5000))))
		}
		return strip(c.Prefix(a.Name)) + "/" + mpd, nowQ(t), nil, 0, nil
	case "video", "audio":
		a := d.pick(d.numbered)
		c := cfg
		rt := a.Video
		if kind == "audio" {
			rt = a.Audio
		}
		switch outcome {
		case "notfound":
			n := d.segNr(a.Video, t, "ok")
			return strip(c.Prefix(a.Name)) + fmt.Sprintf("/NoSuchRep/%d.m4s", n), nowQ(t), nil, 0, nil
		case "code":
			a = d.pick(d.uniform)
			rt = a.Video
			if kind == "audio" {
				rt = a.Audio
			}
			segS := minDurMS(a.Video) / 1000
			per := int64(5 + d.rng.Intn(5))
			n := d.segNr(a.Video, t, "ok")
			code = codes[d.rng.Intn(len(codes))]
			v := fmt.Sprintf("[{cycle:%d,rsq:%d,code:%d}]", per*segS, n%per, code)
			c.Extra = []string{"statuscode_" + url.PathEscape(v)}
			return strip(tl.SegURL(c, a, rt, n)), nowQ(t), nil, code, nil
		}
		// parameters that leave the response an ordinary whole segment; $Time$ addressing for video
		switch d.rng.Intn(6) {
		case 0:
			if strings.HasPrefix(a.Name, "testpic") { // avc + aac: the codecs livesim2 encrypts
				c.Extra = []string{"eccp_" + []string{"cenc", "cbcs"}[d.rng.Intn(2)]}
			}
		case 1:
			c.Extra = []string{"scte35_" + []string{"1", "2", "3"}[d.rng.Intn(3)]}
		case 2:
			if outcome != "gone" {
				c.TSBD = 90 + d.rng.Intn(200)
			}
		case 3:
			if kind == "video" {
				c.Mode = "time"
			} else {
				c.Mode = "tlnr"
			}
		}
		return repURL(c, a, rt, a.Video, outcome), nowQ(t), nil, 0, nil
	case "text", "image", "initt":
		var a *tl.Asset
		for _, x := range d.env.Assets {
			if x.Name == "testpic_2s" {
				a = x
			}
		}
		if a == nil || a.Text == nil || a.Thumbs == nil {
			return "", "", nil, 0, fmt.Errorf("testpic_2s with text and thumbnails not set up")
		}
		switch kind {
		case "text":
			rt := a.Texts[d.rng.Intn(len(a.Texts))]
			return repURL(cfg, a, rt, a.Video, outcome), nowQ(t), nil, 0, nil
		case "initt":
			rt := a.Texts[d.rng.Intn(len(a.Texts))]
			return strip(cfg.Prefix(a.Name)) + "/" + rt.InitURI, "", nil, 0, nil
		}
		n := d.segNr(a.Video, t, outcome)
		return strip(cfg.Prefix(a.Name)) + "/" + strings.ReplaceAll(a.Thumbs.Pat, "$Number$", fmt.Sprint(n)), nowQ(t), nil, 0, nil
	case "initv", "inita":
		a := d.pick(d.numbered)
		rt := a.Video
		if kind == "inita" {
			rt = a.Audio
		}
		q := ""
		if d.rng.Intn(2) == 0 {
			q = nowQ(t)
		}
		c := cfg
		if strings.HasPrefix(a.Name, "testpic") && d.rng.Intn(3) == 0 { // encrypted init segments are generated, not read
			c.Extra = []string{"eccp_" + []string{"cenc", "cbcs"}[d.rng.Intn(2)]}
		}
		return strip(c.Prefix(a.Name)) + "/" + rt.InitURI, q, nil, 0, nil
	case "tsinit", "tsmedia":
		a := d.pick(d.numbered)
		c := cfg
		pre, lang := "timestpp", []string{"en", "sv"}[d.rng.Intn(2)]
		if d.rng.Intn(2) == 0 {
			c.Extra = []string{"timesubsstpp_en,sv"}
		} else {
			c.Extra = []string{"timesubswvtt_en,sv"}
			pre = "timewvtt"
		}
		if kind == "tsinit" {
			return strip(c.Prefix(a.Name)) + "/" + pre + "-" + lang + "/init.mp4", "", nil, 0, nil
		}
		n := d.segNr(a.Video, t, outcome)
		return strip(c.Prefix(a.Name)) + fmt.Sprintf("/%s-%s/%d.m4s", pre, lang, n), nowQ(t), nil, 0, nil
	case "llvideo", "llaudio", "llinit":
		a := d.pick(d.uniform)
		c := ll(a)
		if strings.HasPrefix(a.Name, "testpic") && d.rng.Intn(4) == 0 {
			c.Extra = append(c.Extra, "eccp_"+[]string{"cenc", "cbcs"}[d.rng.Intn(2)])
		}
		rt := a.Video
		if kind == "llaudio" {
			rt = a.Audio
		}
		if kind == "llinit" {
			return strip(c.Prefix(a.Name)) + "/" + rt.InitURI, "", nil, 0, nil
		}
		return repURL(c, a, rt, a.Video, outcome), nowQ(t), nil, 0, nil
	case "llimage":
		var a *tl.Asset
		for _, x := range d.env.Assets {
			if x.Name == "testpic_2s" {
				a = x
			}
		}
		c := ll(a)
		n := d.segNr(a.Video, t, outcome)
		return strip(c.Prefix(a.Name)) + "/" + strings.ReplaceAll(a.Thumbs.Pat, "$Number$", fmt.Sprint(n)), nowQ(t), nil, 0, nil
	case "laurl":
		a := d.pick(d.numbered)
		c := cfg
		c.Extra = []string{"eccp_" + []string{"cenc", "cbcs"}[d.rng.Intn(2)]}
		base := strip(c.Prefix(a.Name)) + "/" + a.MPD
		kid := make([]byte, 16)
		d.rng.Read(kid)
		copy(kid, []byte{0x28, 0x80, 0xfe}) // keys.go kidStart
		b, _ := json.Marshal(map[string]any{"kids": []string{base64.RawURLEncoding.EncodeToString(kid)}, "type": "temporary"})
		switch outcome {
		case "bad":
			return base, "", b, 0, nil
		case "err":
			return base + "/eccp.json", "", []byte("{not json"), 0, nil
		}
		return base + "/eccp.json", "", b, 0, nil
	}
	return "", "", nil, 0, fmt.Errorf("live kind %q", kind)
}

func (d *driver) vod(kind, outcome string) (string, error) {
	fl := d.vodFiles[kind]
	if kind == "dir" {
		a := d.pick(d.env.Assets)
		return "/" + a.Name + "/", nil
	}
	if len(fl) == 0 {
		return "", fmt.Errorf("no VoD file of kind %s", kind)
	}
	f := fl[d.rng.Intn(len(fl))]
	if outcome == "notfound" {
		dir, base := filepath.Split(f)
		return "/" + dir + "x07nosuch-" + base, nil
	}
	return "/" + f, nil
}

var (
	ptRe  = regexp.MustCompile(`publishTime="([^"]+)"`)
	plRe  = regexp.MustCompile(`<PatchLocation[^>]*ttl="(\d+)"[^>]*>([^<]+)</PatchLocation>`)
	lstRe = regexp.MustCompile(`(?s)<strong>([^<]+)</strong>|<td>([^<\s]+\.mpd) <span`)
)

func unescapeXML(s string) string {
	return strings.NewReplacer("&amp;", "&", "&lt;", "<", "&gt;", ">", "&#34;", `"`, "&quot;", `"`, "&#43;", "+").Replace(s)
}

// ---------------------------------------------------------------- one class

func (d *driver) run(c Class) error {
	pfx := prefix[c.Route]
	mk := func(tail, q string) reqSpec {
		return reqSpec{c: c, in: inputs{tail: tail, q: q}, path: pfx + tail + q}
	}
	// issue (with the warm-up requests of the limited class and the HEAD / GET pair)
	issue := func(s reqSpec) (*Obs, error) {
		if c.Outcome == "limited" {
			s.ip = d.freshIP()
			wc := c
			wc.Outcome = "ok"
			for i := 0; i < d.nodes["lim"].Cfg.MaxRequests; i++ {
				w := s
				w.c, w.aux = wc, true
				if _, err := d.do(w); err != nil {
					return nil, err
				}
			}
		}
		o, err := d.do(s)
		if err != nil {
			return nil, err
		}
		if c.Method == "HEAD" && (c.Route == "live" || c.Route == "vod") && c.Outcome != "limited" {
			g := s
			g.c.Method, g.aux = "GET", true
			og, err := d.do(g)
			if err != nil {
				return nil, err
			}
			d.w.Emit(tr.E{"ev": "pair", "rel": "head", "id": d.id, "r": c.rec(), "url": s.path, "a": pOf(og), "b": pOf(o)})
			d.stats["pairs_head"]++
		}
		return o, nil
	}
	switch c.Route {
	case "live":
		tail, q, body, code, err := d.live(c.Kind, c.Outcome)
		if c.Outcome == "limited" || (c.Method == "OPTIONS" && c.Outcome == "ok") {
			tail, q, body, code, err = d.live(c.Kind, "ok")
		}
		if c.Method == "POST" && c.Kind != "laurl" {
			tail, q, body, code, err = d.live(c.Kind, "ok")
			body = []byte(`{"kids":[],"type":"temporary"}`)
		}
		if err != nil {
			return err
		}
		s := mk(tail, q)
		s.body, s.in.code = body, code
		if c.Method != "POST" {
			s.body = nil
		}
		_, err = issue(s)
		return err
	case "vod":
		oc := c.Outcome
		if oc != "notfound" {
			oc = "ok"
		}
		tail, err := d.vod(c.Kind, oc)
		if err != nil {
			return err
		}
		s := mk(tail, "")
		if c.Method == "POST" {
			s.body = []byte("{}")
		}
		_, err = issue(s)
		return err
	case "patch":
		return d.patch(c)
	case "rlivesim", "rchunked", "rdashvod", "rurlgen":
		var tail, q string
		switch c.Route {
		case "rurlgen":
			if d.rng.Intn(2) == 0 {
				q = "?a=b"
			}
		case "rdashvod":
			t, err := d.vod(c.Kind, "ok")
			if err != nil {
				return err
			}
			tail = t
			if d.rng.Intn(2) == 0 {
				q = "?x=1&y=a%20b"
			}
		default:
			t, qq, _, _, err := d.live(c.Kind, "ok")
			if err != nil {
				return err
			}
			tail, q = t, qq
			if d.rng.Intn(2) == 0 {
				if q == "" {
					q = "?foo=bar%2Fbaz"
				} else {
					q += "&foo=bar%2Fbaz"
				}
			}
		}
		s := mk(tail, q)
		if c.Method == "POST" {
			s.body = []byte("{}")
		}
		o, err := d.do(s)
		if err != nil {
			return err
		}
		if c.Outcome == "redirect" && o.Status == http.StatusFound && o.H.Get("Location") != "" {
			loc := o.H.Get("Location")
			to := map[string]string{"rlivesim": "live", "rchunked": "live", "rdashvod": "vod", "rurlgen": "urlgen"}[c.Route]
			fc := Class{Route: to, Method: c.Method, Outcome: "ok", Kind: c.Kind, Srv: c.Srv, V: c.V}
			if to == "urlgen" {
				fc.Kind = "none"
			}
			if u, err := url.Parse(loc); err != nil || u.Host != "" || !strings.HasPrefix(loc, "/") {
				// not a same-server path: nothing to follow (X07.redirect.location has judged it)
				return nil
			}
			of, err := d.do(reqSpec{c: fc, in: inputs{tail: tail, q: q}, path: loc, aux: true})
			if err != nil {
				return err
			}
			od, err := d.do(reqSpec{c: fc, in: inputs{tail: tail, q: q}, path: prefix[to] + tail + q, aux: true})
			if err != nil {
				return err
			}
			d.w.Emit(tr.E{"ev": "pair", "rel": "redirect", "id": d.id, "r": c.rec(), "url": s.path, "a": pOf(of), "b": pOf(od)})
			d.stats["pairs_redirect"]++
		}
		return nil
	case "version":
		s := mk("", "")
		s.post = func(o *Obs, e tr.E) {
			var v struct{ Version string }
			if c.Method == "GET" && json.Unmarshal(o.Body, &v) == nil {
				e["o"].(map[string]any)["facts"] = [][]string{{"Version", o.H.Get("DASH-IF-livesim2"), v.Version}}
			}
		}
		if c.Method == "POST" {
			s.body = []byte("{}")
		}
		_, err := d.do(s)
		return err
	case "config":
		s := mk("", "")
		s.post = func(o *Obs, e tr.E) {
			if c.Method != "GET" {
				return
			}
			dec := json.NewDecoder(strings.NewReader(string(o.Body)))
			dec.UseNumber()
			var m map[string]any
			if dec.Decode(&m) != nil {
				m = map[string]any{}
			}
			cfg := d.nodes[c.Srv].Cfg
			want := map[string]any{"vodroot": cfg.VodRoot, "timeoutS": cfg.TimeoutS, "maxrequests": cfg.MaxRequests,
				"reqlimitint": cfg.ReqLimitInt, "port": cfg.Port, "livewindowS": cfg.LiveWindowS, "host": cfg.Host,
				"playurl": cfg.PlayURL, "whitelistblocks": cfg.WhiteListBlocks, "repdataroot": cfg.RepDataRoot,
				"writerepdata": cfg.WriteRepData, "loglevel": cfg.LogLevel, "logformat": cfg.LogFormat}
			keys := make([]string, 0, len(want))
			for k := range want {
				keys = append(keys, k)
			}
			sort.Strings(keys)
			facts := [][]string{}
			for _, k := range keys {
				got := "(absent)"
				if v, ok := m[k]; ok {
					got = fmt.Sprint(v)
				}
				facts = append(facts, []string{k, fmt.Sprint(want[k]), got})
			}
			e["o"].(map[string]any)["facts"] = facts
		}
		if c.Method == "POST" {
			s.body = []byte("{}")
		}
		_, err := d.do(s)
		return err
	case "assets":
		if c.Method == "GET" && d.servable == nil {
			// which of the .mpd files of the VoD root does /livesim2 serve? (aux requests; independent of the listing)
			d.servable = []string{}
			for _, f := range d.mpdFiles {
				lc := Class{Route: "live", Method: "GET", Outcome: "ok", Kind: "mpd", Srv: "main", V: c.V}
				tail := "/" + f
				q := nowQ(d.nowMS())
				o, err := d.do(reqSpec{c: lc, in: inputs{tail: tail, q: q}, path: "/livesim2" + tail + q, aux: true})
				if err != nil {
					return err
				}
				if o.Status == 200 {
					d.servable = append(d.servable, f)
				}
			}
		}
		s := mk("", "")
		s.post = func(o *Obs, e tr.E) {
			if c.Method != "GET" {
				return
			}
			listed := []string{}
			cur := ""
			for _, g := range lstRe.FindAllStringSubmatch(string(o.Body), -1) {
				if g[1] != "" {
					cur = unescapeXML(g[1])
				} else {
					listed = append(listed, cur+"/"+unescapeXML(g[2]))
				}
			}
			oo := e["o"].(map[string]any)
			oo["listed"], oo["servable"] = listed, d.servable
			d.stats["assets_listed"] = len(listed)
		}
		if c.Method == "POST" {
			s.body = []byte("{}")
		}
		_, err := d.do(s)
		return err
	case "static":
		f := []string{"/time.txt", "/custom.css", "/pico.min.css", "/favicon.ico", "/htmx.min.js", "/table.css"}[d.rng.Intn(6)]
		if c.Outcome == "notfound" {
			f = "/x07nosuch" + f[1:]
		}
		s := mk(f, "")
		if c.Method == "POST" {
			s.body = []byte("{}")
		}
		o, err := d.do(s)
		if err == nil && c.Method == "HEAD" {
			g := s
			g.c.Method, g.aux = "GET", true
			_, err = d.do(g)
		}
		_ = o
		return err
	case "api":
		tail := []string{"/docs", "/openapi.json", "/openapi.yaml"}[d.rng.Intn(3)]
		if c.Outcome == "notfound" {
			tail = fmt.Sprintf("/cmaf-ingests/%d", 1000+d.rng.Intn(1000))
		}
		s := mk(tail, "")
		if c.Method == "POST" {
			s.body = []byte("{}")
		}
		_, err := d.do(s)
		return err
	case "unknown":
		tail := fmt.Sprintf("/p%d%s", d.rng.Intn(1000), []string{"", ".mpd", ".m4s", ".html", "/deep/er.jpg", ".MP4"}[d.rng.Intn(6)])
		s := mk(tail, "")
		if c.Method == "POST" {
			s.body = []byte("{}")
		}
		_, err := d.do(s)
		return err
	case "loglevel":
		s := mk("", "")
		if c.Method == "POST" {
			s.body = []byte("{}") // not a multipart form: the level is left alone
		}
		_, err := d.do(s)
		return err
	default: // healthz, vodlist, index, favicon, urlgen, reqcount, metrics
		q := ""
		if c.Route == "urlgen" && d.rng.Intn(2) == 0 {
			q = "?asset=testpic_2s&mpd=Manifest.mpd"
		}
		s := mk("", q)
		if c.Method == "POST" {
			s.body = []byte("{}")
		}
		_, err := d.do(s)
		return err
	}
}

// patch: the MPD is fetched at t1 (aux), its PatchLocation is requested at t2 (what a client does).
func (d *driver) patch(c Class) error {
	if c.Method != "GET" {
		s := reqSpec{c: c, path: "/patch/livesim2/segtimeline_1/patch_60/testpic_2s/Manifest.mpp?publishTime=2020-01-01T00:00:00Z"}
		if c.Method == "POST" {
			s.body = []byte("{}")
		}
		if c.Method == "OPTIONS" {
			s.path = "/patch/livesim2/segtimeline_1/patch_60/testpic_2s/Manifest.mpp"
		}
		_, err := d.do(s)
		return err
	}
	a := d.pick(d.uniform)
	segMS := minDurMS(a.Video)
	ttl := []int{20, 30, 60, 120}[d.rng.Intn(4)]
	t1 := d.nowMS()
	mode := []string{"segtimeline_1", "segtimelinenr_1"}[d.rng.Intn(2)]
	tail := fmt.Sprintf("/%s/patch_%d/%s/%s", mode, ttl, a.Name, a.MPD)
	if c.Outcome == "err" {
		tail = fmt.Sprintf("/%s/patch_%d/x07nosuch/%s", mode, ttl, a.MPD)
		pt := time.UnixMilli(t1).UTC().Format(time.RFC3339)
		p := "/patch/livesim2" + strings.Replace(tail, ".mpd", ".mpp", 1) + "?publishTime=" + url.QueryEscape(pt) + fmt.Sprintf("&nowMS=%d", t1+segMS)
		_, err := d.do(reqSpec{c: c, in: inputs{tail: tail, ttl: ttl}, path: p})
		return err
	}
	lc := Class{Route: "live", Method: "GET", Outcome: "ok", Kind: "mpd", Srv: c.Srv, V: c.V}
	q1 := nowQ(t1)
	om, err := d.do(reqSpec{c: lc, in: inputs{tail: tail, q: q1}, path: "/livesim2" + tail + q1, aux: true})
	if err != nil {
		return err
	}
	pm := ptRe.FindSubmatch(om.Body)
	lm := plRe.FindSubmatch(om.Body)
	if om.Status != 200 || pm == nil || lm == nil {
		return fmt.Errorf("MPD %s%s: status %d, publishTime / PatchLocation not found", tail, q1, om.Status)
	}
	pt, err := time.Parse(time.RFC3339, string(pm[1]))
	if err != nil {
		return fmt.Errorf("publishTime %q: %w", pm[1], err)
	}
	if n, _ := strconv.Atoi(string(lm[1])); n != ttl {
		return fmt.Errorf("PatchLocation ttl %s, URL says %d", lm[1], ttl)
	}
	loc := unescapeXML(strings.TrimSpace(string(lm[2])))
	if u, err := url.Parse(loc); err == nil && u.Host != "" {
		loc = u.RequestURI()
	}
	var t2 int64
	switch c.Outcome {
	case "ok":
		t2 = t1 + segMS + d.rng.Int63n(int64(ttl)*1000-segMS)
	case "early":
		t2 = t1
	case "gone":
		t2 = t1 + int64(ttl+10)*1000 + 3*segMS + d.rng.Int63n(60000)
	case "bad":
		if i := strings.IndexByte(loc, '?'); i >= 0 {
			loc = loc[:i] // no publishTime
		}
		t2 = t1 + segMS
	}
	sep := "?"
	if strings.Contains(loc, "?") {
		sep = "&"
	}
	p := fmt.Sprintf("%s%snowMS=%d", loc, sep, t2)
	post := func(o *Obs, e tr.E) {
		if ex := o.H.Get("Expires"); ex != "" {
			if et, err := http.ParseTime(ex); err == nil {
				oo := e["o"].(map[string]any)
				oo["hasexp"] = true
				oo["expoff"] = int(et.Unix() - pt.Unix()) // whole seconds of both instants
			}
		}
	}
	_, err = d.do(reqSpec{c: c, in: inputs{tail: tail, ttl: ttl}, path: p, post: post})
	return err
}

// ---------------------------------------------------------------- main

func Main(args []string) error {
	fs := flag.NewFlagSet("x07", flag.ExitOnError)
	out := fs.String("out", "x07.ndjson", "trace output")
	work := fs.String("work", "", "scratch directory for the VoD root")
	seed := fs.Int64("seed", 1, "seed")
	gen := fs.String("gen", "", "GEN lines of HttpEnvelope.tla (jsonl)")
	thorough := fs.Bool("thorough", false, "generated layouts of the thorough tier")
	block := fs.Int("block", 40, "classes between two scrapes of /metrics")
	probe := fs.String("probe", "", "semicolon-separated 'METHOD url' list: print envelopes")
	_ = fs.Parse(args)
	if *work == "" {
		return fmt.Errorf("-work required")
	}
	vod := filepath.Join(*work, "vod")
	_ = os.RemoveAll(vod)
	env, err := tl.Setup(vod, *thorough)
	if err != nil {
		return err
	}
	env.S.Cancel()
	rng := rand.New(rand.NewSource(*seed*7919 + 17))
	mainN, err := NewNode("main", vod, func(c *app.ServerConfig) {
		c.TimeoutS = 61 + rng.Intn(30)
		c.Port = 8000 + rng.Intn(1000)
		c.LiveWindowS = 200 + rng.Intn(200)
	})
	if err != nil {
		return err
	}
	defer mainN.Close()
	limN, err := NewNode("lim", vod, func(c *app.ServerConfig) {
		c.MaxRequests = 2 + rng.Intn(2)
		c.ReqLimitInt = 3600 * (1 + rng.Intn(24))
		c.TimeoutS = 5 + rng.Intn(30)
		c.Port = 9000 + rng.Intn(1000)
		c.WhiteListBlocks = "192.168.77.0/24"
	})
	if err != nil {
		return err
	}
	defer limN.Close()
	if *probe != "" {
		return doProbe(map[string]*Node{"main": mainN, "lim": limN}, *probe)
	}
	w, err := tr.New(*out)
	if err != nil {
		return err
	}
	d := &driver{w: w, rng: rng, env: env, root: vod, nodes: map[string]*Node{"main": mainN, "lim": limN},
		stats: map[string]int{}, status: map[string]int{}, achieved: map[string]int{}, missed: map[string]int{}, missEx: map[string]string{},
		distinct: map[string]bool{}, late: map[string]int{}, vodCT: map[string]int{}, vodFiles: map[string][]string{}}
	for _, a := range env.Assets {
		if a.Video == nil || a.Audio == nil || !strings.Contains(a.Video.MediaPat, "$Number$") {
			continue
		}
		d.numbered = append(d.numbered, a)
		uni := true
		for _, x := range a.Video.Dur {
			if x != a.Video.Dur[0] {
				uni = false
			}
		}
		if uni && minDurMS(a.Video)%1000 == 0 && !a.Gen {
			d.uniform = append(d.uniform, a)
		}
	}
	if len(d.numbered) < 3 || len(d.uniform) < 2 {
		return fmt.Errorf("assets: %d $Number$ assets, %d uniform", len(d.numbered), len(d.uniform))
	}
	// the files of the VoD root (the driver's own walk)
	err = filepath.Walk(vod, func(p string, info os.FileInfo, err error) error {
		if err != nil || info.IsDir() {
			return err
		}
		rel, _ := filepath.Rel(vod, p)
		rel = filepath.ToSlash(rel)
		switch {
		case strings.HasSuffix(rel, ".mpd"):
			d.vodFiles["fmpd"] = append(d.vodFiles["fmpd"], rel)
			d.mpdFiles = append(d.mpdFiles, rel)
		case strings.HasSuffix(rel, ".jpg"):
			d.vodFiles["fjpg"] = append(d.vodFiles["fjpg"], rel)
		case strings.HasSuffix(rel, "init.mp4"):
			d.vodFiles["finit"] = append(d.vodFiles["finit"], rel)
		case strings.HasSuffix(rel, ".m4s"):
			d.vodFiles["fseg"] = append(d.vodFiles["fseg"], rel)
		}
		return nil
	})
	if err != nil {
		return err
	}
	for _, k := range []string{"fmpd", "fjpg", "finit", "fseg"} {
		sort.Strings(d.vodFiles[k])
	}
	sort.Strings(d.mpdFiles)
	// classes
	var classes []Class
	f, err := os.Open(*gen)
	if err != nil {
		return err
	}
	sc := bufio.NewScanner(f)
	sc.Buffer(make([]byte, 1<<20), 1<<20)
	for sc.Scan() {
		if strings.TrimSpace(sc.Text()) == "" {
			continue
		}
		var c Class
		if err := json.Unmarshal(sc.Bytes(), &c); err != nil {
			return fmt.Errorf("gen line %q: %w", sc.Text(), err)
		}
		classes = append(classes, c)
	}
	f.Close()
	sort.Slice(classes, func(i, j int) bool {
		if classes[i].V != classes[j].V {
			return classes[i].V < classes[j].V
		}
		return classes[i].key() < classes[j].key()
	})
	rng.Shuffle(len(classes), func(i, j int) { classes[i], classes[j] = classes[j], classes[i] })
	w.Emit(tr.E{"ev": "hdr", "seed": int(*seed), "names": EnvNames, "limmax": limN.Cfg.MaxRequests, "classes": len(classes),
		"mpdfiles": d.mpdFiles})
	if err := d.scrape(); err != nil {
		return err
	}
	for i, c := range classes {
		if err := d.run(c); err != nil {
			return fmt.Errorf("class %+v: %w", c, err)
		}
		if (i+1)%*block == 0 {
			if err := d.scrape(); err != nil {
				return err
			}
		}
	}
	if err := d.scrape(); err != nil {
		return err
	}
	if err := w.Close(); err != nil {
		return err
	}
	tr.PrintStats(map[string]any{"scenarios": len(classes), "events": w.N, "distinct": len(d.distinct), "samples": d.samples,
		"requests": d.requests, "stats": d.stats, "statuses": d.status, "achieved": d.achieved, "missed": d.missed, "missed_examples": d.missEx,
		"vod_content_types": d.vodCT, "servable_mpds": len(d.servable), "mpd_files": len(d.mpdFiles),
		"assets": len(env.Assets), "limmax": limN.Cfg.MaxRequests})
	return nil
}

func doProbe(nodes map[string]*Node, probe string) error {
	for _, p := range strings.Split(probe, ";") {
		f := strings.SplitN(strings.TrimSpace(p), " ", 2)
		n := nodes["main"]
		if strings.HasPrefix(f[0], "L:") {
			n = nodes["lim"]
			f[0] = f[0][2:]
		}
		var body []byte
		if f[0] == "POST" {
			body = []byte(`{"kids":["KID_-AAAAAAAAAAAAAAAAA"],"type":"temporary"}`)
		}
		o, err := n.Do(f[0], f[1], nil, body)
		if err != nil {
			fmt.Println("ERR", err)
			continue
		}
		fmt.Printf("=== %s %s -> %d wireCL=%d TE=%v body=%d err=%q | handler: st=%d bytes=%d writes=%d flushes=%d whs=%d snapCT=%q snapCL=%q\n", f[0], f[1], o.Status, o.WireCL, o.TE,
			len(o.Body), o.BodyErr, o.R.status, o.R.bytes, o.R.writes, o.R.flushes, o.R.whs, o.R.snap.Get("Content-Type"), o.R.snap.Get("Content-Length"))
		for k, v := range o.H {
			fmt.Printf("    %s: %q\n", k, v)
		}
		if len(o.Body) < 300 || os.Getenv("X07_BODY") != "" {
			fmt.Printf("    body: %q\n", o.Body)
		}
	}
	return nil
}

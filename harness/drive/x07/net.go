// Package x07 drives the real livesim2 server over loopback HTTP and records the HTTP envelope of every response
// (status, the specified header names with multiplicity, entity headers, body length, handler-level write / flush
// counts) for the extra specification X07 (spec/HttpEnvelopeOps.tla). Observations only: every expectation is
// computed by spec/trace/HttpEnvelope_Trace.tla from the scenario header.
package x07

import (
	"crypto/sha256"
	"encoding/hex"
	"fmt"
	"io"
	"mime"
	"net/http"
	"net/http/httptest"
	"net/url"
	"strconv"
	"strings"
	"sync"

	"github.com/Dash-Industry-Forum/livesim2/cmd/livesim2/app"

	"verifharness/srv"
)

// EnvNames are the header names the specification speaks about (clause X07.cors).
var EnvNames = []string{"DASH-IF-livesim2", "Access-Control-Allow-Origin", "Access-Control-Allow-Methods",
	"Access-Control-Expose-Headers", "Access-Control-Allow-Headers", "Timing-Allow-Origin"}

// hrec is what the counting ResponseWriter saw of ONE request at handler level (a ResponseRecorder variant that
// passes everything through to the real connection).
type hrec struct {
	id      string
	status  int         // first WriteHeader (200 if the first call was a Write, 0 if the handler wrote nothing at all)
	snap    http.Header // header map at the moment the status line was fixed
	bytes   int         // bytes the handler passed to Write (attempted)
	writes  int
	flushes int
	whs     int // WriteHeader calls
	late    int // WriteHeader calls after the status line was fixed (superfluous)
}

type cw struct {
	http.ResponseWriter
	r hrec
}

func (c *cw) fix(status int) {
	if c.r.status == 0 {
		c.r.status = status
		c.r.snap = c.Header().Clone()
	}
}
func (c *cw) WriteHeader(s int) {
	c.r.whs++
	if c.r.status != 0 {
		c.r.late++
	}
	if s >= 200 {
		c.fix(s)
	}
	c.ResponseWriter.WriteHeader(s)
}
func (c *cw) Write(p []byte) (int, error) {
	c.fix(200)
	c.r.writes++
	c.r.bytes += len(p)
	return c.ResponseWriter.Write(p)
}
func (c *cw) Flush() {
	c.r.flushes++
	if f, ok := c.ResponseWriter.(http.Flusher); ok {
		f.Flush()
	}
}

// Node is one server instance (real app.Server behind a loopback listener).
type Node struct {
	Name string
	Cfg  app.ServerConfig
	S    *srv.S
	TS   *httptest.Server
	mu   sync.Mutex
	recs map[string]chan hrec
	cl   *http.Client
	seq  int
}

func NewNode(name, vodRoot string, mutate func(c *app.ServerConfig)) (*Node, error) {
	n := &Node{Name: name, recs: map[string]chan hrec{}}
	s, err := srv.New(vodRoot, func(c *app.ServerConfig) {
		if mutate != nil {
			mutate(c)
		}
		n.Cfg = *c
	})
	if err != nil {
		return nil, err
	}
	n.S = s
	n.TS = httptest.NewServer(http.HandlerFunc(func(w http.ResponseWriter, r *http.Request) {
		id := r.Header.Get("X-Verif-Id")
		r.Header.Del("X-Verif-Id")
		c := &cw{ResponseWriter: w}
		c.r.id = id
		defer func() {
			// runs also when the router panics through (chi's Recoverer normally answers 500 itself)
			n.mu.Lock()
			ch := n.recs[id]
			n.mu.Unlock()
			if ch != nil {
				ch <- c.r
			}
		}()
		s.Server.Router.ServeHTTP(c, r)
	}))
	n.cl = &http.Client{
		Transport:     &http.Transport{DisableCompression: true, MaxIdleConnsPerHost: 4},
		CheckRedirect: func(*http.Request, []*http.Request) error { return http.ErrUseLastResponse },
	}
	return n, nil
}

func (n *Node) Close() {
	n.TS.Close()
	n.S.Cancel()
}

// Obs is one response as seen on the wire plus the handler-level record.
type Obs struct {
	Method, URL string
	Status      int
	H           http.Header
	Body        []byte
	BodyErr     string
	TE          []string
	WireCL      int64 // resp.ContentLength (-1 unknown)
	R           hrec
}

// Do issues one request. url is path?query (may contain escapes); hdr extra request headers.
func (n *Node) Do(method, pathq string, hdr map[string]string, body []byte) (*Obs, error) {
	n.mu.Lock()
	n.seq++
	id := fmt.Sprintf("%s-%d", n.Name, n.seq)
	ch := make(chan hrec, 1)
	n.recs[id] = ch
	n.mu.Unlock()
	defer func() {
		n.mu.Lock()
		delete(n.recs, id)
		n.mu.Unlock()
	}()
	var rd io.Reader
	if body != nil {
		rd = strings.NewReader(string(body))
	}
	req, err := http.NewRequest(method, n.TS.URL+pathq, rd)
	if err != nil {
		return nil, fmt.Errorf("request %s %s: %w", method, pathq, err)
	}
	req.Header.Set("X-Verif-Id", id)
	for k, v := range hdr {
		req.Header.Set(k, v)
	}
	resp, err := n.cl.Do(req)
	if err != nil {
		return nil, fmt.Errorf("%s %s: %w", method, pathq, err)
	}
	o := &Obs{Method: method, URL: pathq, Status: resp.StatusCode, H: resp.Header, TE: resp.TransferEncoding, WireCL: resp.ContentLength}
	o.Body, err = io.ReadAll(resp.Body)
	resp.Body.Close()
	if err != nil {
		o.BodyErr = err.Error()
	}
	o.R = <-ch
	return o, nil
}

// ---------------------------------------------------------------- projections (small, uniform shapes for TLC)

func mediaType(v string) string {
	if v == "" {
		return ""
	}
	mt, _, err := mime.ParseMediaType(v)
	if err != nil {
		return "!" + v
	}
	return mt
}

func clOf(h http.Header) int {
	vs := h.Values("Content-Length")
	if len(vs) == 0 {
		return -1
	}
	if len(vs) > 1 {
		return -2
	}
	v, err := strconv.Atoi(vs[0])
	if err != nil || v < 0 {
		return -3
	}
	return v
}

func digest(b []byte) string {
	s := sha256.Sum256(b)
	return hex.EncodeToString(s[:8])
}

// envOf projects a header map to the specified names: [name, count, first value].
func envOf(h http.Header) [][]any {
	out := make([][]any, 0, len(EnvNames))
	for _, nm := range EnvNames {
		vs := h.Values(nm)
		first := ""
		if len(vs) > 0 {
			first = vs[0]
		}
		out = append(out, []any{nm, len(vs), first})
	}
	return out
}

// tokens splits a comma-separated header value into trimmed upper-case tokens.
func tokens(v string) []string {
	out := []string{}
	for _, t := range strings.Split(v, ",") {
		t = strings.ToUpper(strings.TrimSpace(t))
		if t != "" {
			out = append(out, t)
		}
	}
	return out
}

// pathExt is the extension rule stated in prometheus.go: the lower-cased part of the PATH from its last dot ("" if none).
func pathExt(pathq string) string {
	p := pathq
	if i := strings.IndexByte(p, '?'); i >= 0 {
		p = p[:i]
	}
	if u, err := url.PathUnescape(p); err == nil {
		p = u
	}
	i := strings.LastIndexByte(p, '.')
	if i < 0 {
		return ""
	}
	return strings.ToLower(p[i:])
}

// Package c01 requests media segments of the real livesim2 server over many indices, addressing modes,
// start numbers and start times and records the decoded observations (C01).
package c01

import (
	"bytes"
	"flag"
	"fmt"
	"math/rand"
	"os"
	"path/filepath"
	"regexp"
	"sort"
	"strconv"
	"strings"

	"verifharness/drive/tl"
	"verifharness/project"
	"verifharness/tr"
)

var tsRe = regexp.MustCompile(`(\d\d+):(\d\d):(\d\d)(\.\d\d\d)?`)

// ttmlPart returns the TTML document of an stpp sample (image-profile samples carry images after it).
func ttmlPart(b []byte) []byte {
	if i := bytes.Index(b, []byte("</tt>")); i >= 0 {
		return b[:i+5]
	}
	return b
}

// normText is the payload identity of an stpp sample: TTML with timestamps removed + digest of what follows it.
func normText(b []byte) string {
	t := ttmlPart(b)
	return tsRe.ReplaceAllString(string(t), "T") + "|" + project.Digest(b[len(t):])
}

func clamp30(v int64) int64 {
	const lim = int64(1) << 30
	if v > lim {
		return lim
	}
	if v < -lim {
		return -lim
	}
	return v
}

func ttmlTimes(b []byte) []int64 {
	b = ttmlPart(b)
	var out []int64
	for _, m := range tsRe.FindAllStringSubmatch(string(b), -1) {
		h, _ := strconv.ParseInt(m[1], 10, 64)
		mi, _ := strconv.ParseInt(m[2], 10, 64)
		s, _ := strconv.ParseInt(m[3], 10, 64)
		ms := int64(0)
		if m[4] != "" {
			ms, _ = strconv.ParseInt(m[4][1:], 10, 64)
		}
		out = append(out, ((h*60+mi)*60+s)*1000+ms)
	}
	return out
}

// indices: first loops, around several wraps, the 32->64 bit tfdt boundary and far from epoch.
func indices(rt *project.RepTruth, rng *rand.Rand, thorough bool) [][]int64 {
	N := int64(rt.N)
	var runs [][]int64
	first := []int64{}
	for n := int64(0); n <= 2*N+1; n++ {
		first = append(first, n)
	}
	runs = append(runs, first)
	ks := []int64{3, 1000}
	// tfdt crosses 2^32 ticks in wrap number kb
	kb := (int64(1) << 32) / rt.L
	ks = append(ks, kb, kb+1)
	// "now" in 2025: 1.75e9 s
	kf := int64(1_750_000_000) * rt.TS / rt.L
	ks = append(ks, kf, kf+int64(rng.Intn(1000)))
	if thorough {
		ks = append(ks, 10, 7+int64(rng.Intn(500)), kb-1, (int64(1)<<31)/rt.L, kf/2+int64(rng.Intn(100000)))
		for j := 0; j < 20; j++ { // seeded loop counts anywhere between the start and the year 2025
			ks = append(ks, 2+rng.Int63n(kf))
		}
	}
	for _, k := range ks {
		if k < 1 {
			continue
		}
		runs = append(runs, []int64{k*N - 2, k*N - 1, k * N, k*N + 1, k*N + 2})
	}
	return runs
}

func Main(args []string) error {
	fs := flag.NewFlagSet("c01", flag.ExitOnError)
	out := fs.String("out", "c01.ndjson", "trace output")
	work := fs.String("work", "", "scratch directory for the VoD root")
	seed := fs.Int64("seed", 1, "seed")
	thorough := fs.Bool("thorough", false, "all layout families")
	_ = fs.Parse(args)
	if *work == "" {
		return fmt.Errorf("-work required")
	}
	vod := filepath.Join(*work, "vod")
	_ = os.RemoveAll(vod)
	env, err := tl.Setup(vod, *thorough)
	if err != nil {
		return err
	}
	w, err := tr.New(*out)
	if err != nil {
		return err
	}
	rng := rand.New(rand.NewSource(*seed))
	sc := 0
	nseg := 0
	npert := 0
	distinct := map[string]bool{}
	samples := []any{}
	snrs := []int{-1, 1, 17, tl.SNRImplicit}
	asts := []int64{0, 1000, 1_699_999_000}
	if *thorough {
		snrs = append(snrs, 5+rng.Intn(1000))
		asts = append(asts, 1_000_000_000+int64(rng.Intn(600_000_000)))
	}
	for _, a := range env.Assets {
		type repSel struct {
			rt    *project.RepTruth
			modes []string
		}
		reps := []repSel{{a.Video, []string{"number", "time", "tlnr"}}}
		for _, tx := range a.Texts {
			reps = append(reps, repSel{tx, []string{"number", "time", "tlnr"}})
		}
		for _, rs := range reps {
			rt := rs.rt
			vodTTML := map[int][]int64{}
			// sweep: one scenario = the index runs under one URL configuration
			sweep := func(c tl.Cfg, keep bool) {
				tl.Header(w, sc, a, rt, c, tr.E{"keepdigs": keep})
				sc++
				for _, run := range indices(rt, rand.New(rand.NewSource(*seed+int64(len(a.Name)))), *thorough) {
					prevN := int64(-100)
					for _, n := range run {
						if n < 0 {
							continue
						}
						nowMS := c.AST*1000 + tl.AvailRelMS(rt, n, 0) + 1
						url := tl.SegURL(c, a, rt, n) + "?nowMS=" + fmt.Sprint(nowMS)
						r := env.S.Get(url)
						k, i := n/int64(rt.N), n%int64(rt.N)
						e := tr.E{"ev": "seg", "k": k, "i": i, "st": r.Status, "nrp": []int64{-1, -1}, "tfdt": []int64{-1, 0}, "dur": -1,
							"frags": [][]int64{}, "pidx": -1, "dig": project.Digest(r.Body), "sidx": []int64{0, 0}, "hasSidx": false,
							"ttml": [][2]int64{}, "run": n == prevN+1, "url": url}
						prevN = n
						if r.Status == 200 {
							m, err := project.ParseMedia(r.Body, rt.Trex)
							if err != nil {
								e["st"] = -1
								e["parseErr"] = err.Error()
							} else {
								nrp := project.Pair(int64(m.Frags[0].Seq)-c.EffSNR(), int64(rt.N))
								e["nrp"] = nrp[:]
								// every fragment carries the same sequence number?
								for _, f := range m.Frags {
									if f.Seq != m.Frags[0].Seq {
										e["nrp"] = []int64{-2, -2}
									}
								}
								tf := project.Pair(int64(m.Frags[0].Tfdt), rt.L)
								e["tfdt"] = tf[:]
								e["dur"] = clamp30(int64(m.TotalDur))
								fr := [][]int64{}
								for j, f := range m.Frags {
									if j < 16 {
										// offsets far outside a segment (a wrapped 32-bit decode time) are clamped: they fail C01.frags
										// as any other wrong offset, and stay within TLC's integers
										fr = append(fr, []int64{clamp30(int64(f.Tfdt) - int64(m.Frags[0].Tfdt)), clamp30(int64(f.Dur))})
									}
								}
								e["frags"] = fr
								if m.HasSidx {
									sp := project.Pair(int64(m.SidxEPT), rt.L)
									e["sidx"] = sp[:]
									e["hasSidx"] = true
								}
								if rt.Kind == "text" {
									// compare TTML timestamps with those of the VoD segment i, position by position
									if _, ok := vodTTML[int(i)]; !ok {
										p := filepath.Join(env.Root, a.Name, strings.ReplaceAll(rt.MediaPat, "$Number$", fmt.Sprint(i+1)))
										vd, err := os.ReadFile(p)
										if err == nil {
											vm, err := project.ParseMediaRaw(vd)
											if err == nil {
												vodTTML[int(i)] = ttmlTimes(vm)
											}
										}
									}
									sm, err := project.ParseMediaRaw(r.Body)
									diffs := map[[2]int64]bool{}
									if err == nil {
										st := ttmlTimes(sm)
										vt := vodTTML[int(i)]
										if len(st) != len(vt) || len(st) == 0 {
											diffs[[2]int64{-1, -1}] = true
										}
										for j := 0; j < len(st) && j < len(vt); j++ {
											diffs[project.Pair(st[j]-vt[j], a.LoopMS)] = true
										}
									} else {
										diffs[[2]int64{-2, -2}] = true
									}
									dl := [][2]int64{}
									for d := range diffs {
										dl = append(dl, d)
									}
									sort.Slice(dl, func(x, y int) bool { return dl[x][0] < dl[y][0] || (dl[x][0] == dl[y][0] && dl[x][1] < dl[y][1]) })
									e["ttml"] = dl
									// payload identity for text is judged on the TTML with timestamps removed
									e["pidx"] = -1
									if err == nil {
										for j := 0; j < rt.N; j++ {
											p := filepath.Join(env.Root, a.Name, strings.ReplaceAll(rt.MediaPat, "$Number$", fmt.Sprint(j+1)))
											vd, err1 := os.ReadFile(p)
											if err1 != nil {
												continue
											}
											vm, err2 := project.ParseMediaRaw(vd)
											if err2 == nil && normText(vm) == normText(sm) {
												e["pidx"] = j
											}
										}
									}
								} else {
									for j, d := range rt.PayDig {
										if d == m.PayDig {
											e["pidx"] = j
										}
									}
								}
							}
						}
						w.Emit(e)
						nseg++
					}
				}
			}
			for _, snr := range snrs {
				for _, ast := range asts {
					for mi, mode := range rs.modes {
						c := tl.Cfg{Mode: mode, SNR: snr, AST: ast, TSBD: -1}
						sweep(c, mi > 0)
						distinct[fmt.Sprintf("%s|%s|%s|%d|%d", a.Name, rt.ID, mode, snr, ast)] = true
					}
				}
			}
			if rt.Kind == "video" {
				// C01.history: what is served for n does not depend on what was served before. Other requests that draw
				// on the same VoD segments (encrypted on the fly) come between two sweeps of the same URLs.
				c := tl.Cfg{Mode: "number", SNR: -1, AST: 0, TSBD: -1}
				sweep(c, false)
				for _, x := range []string{"eccp_cbcs", "eccp_cenc"} {
					cx := c
					cx.Extra = []string{x}
					for n := int64(0); n < 2*int64(rt.N)+2; n++ {
						nowMS := tl.AvailRelMS(rt, n, 0) + 1
						_ = env.S.Get(tl.SegURL(cx, a, rt, n) + "?nowMS=" + fmt.Sprint(nowMS))
						npert++
					}
				}
				sweep(c, true)
				c.Mode = "time"
				sweep(c, true)
			}
		}
		// thumbnails: number addressing only, body must be byte-identical to VoD thumbnail I(n)
		if a.Thumbs != nil {
			th := a.Thumbs
			rt := &project.RepTruth{ID: th.ID, Kind: "image", TS: 1, N: th.N, Vod0: 0, L: int64(th.N) * th.DurS, MediaPat: th.Pat}
			for j := 0; j < th.N; j++ {
				rt.Dur = append(rt.Dur, th.DurS)
			}
			for _, snr := range snrs {
				for _, ast := range asts {
					c := tl.Cfg{Mode: "number", SNR: snr, AST: ast, TSBD: -1}
					tl.Header(w, sc, a, rt, c, tr.E{"loopMS": int64(th.N) * th.DurS * 1000})
					sc++
					for _, run := range indices(rt, rng, *thorough) {
						for _, n := range run {
							if n < 0 {
								continue
							}
							nowMS := ast*1000 + tl.AvailRelMS(rt, n, 0) + 1
							url := tl.SegURL(c, a, rt, n) + "?nowMS=" + fmt.Sprint(nowMS)
							r := env.S.Get(url)
							e := tr.E{"ev": "seg", "k": n / int64(rt.N), "i": n % int64(rt.N), "st": r.Status, "nrp": []int64{-1, -1}, "tfdt": []int64{-1, 0},
								"dur": -1, "frags": [][]int64{}, "pidx": -1, "dig": project.Digest(r.Body), "sidx": []int64{0, 0}, "hasSidx": false,
								"ttml": [][2]int64{}, "run": false, "url": url}
							d := project.Digest(r.Body)
							for j, x := range th.BodDig {
								if x == d {
									e["pidx"] = j
								}
							}
							w.Emit(e)
							nseg++
						}
					}
					distinct[fmt.Sprintf("%s|thumbs|%d|%d", a.Name, snr, ast)] = true
				}
			}
		}
		if len(samples) < 3 {
			samples = append(samples, map[string]any{"asset": a.Name, "N": a.Video.N, "dur": a.Video.Dur, "TS": a.Video.TS, "vod0": a.Video.Vod0, "generated": a.Gen})
		}
	}
	if err := w.Close(); err != nil {
		return err
	}
	tr.PrintStats(map[string]any{"scenarios": sc, "events": w.N, "segments": nseg, "distinct": len(distinct), "samples": samples,
		"assets": len(env.Assets), "perturbing_requests": npert})
	return nil
}

// Package x06 drives the real CMAF-ingest receiver (cmd/cmaf-ingest-receiver/app, build tag verif) through its HTTP
// router with the configurations and request scripts enumerated by TLC (GEN lines of spec/ReceiverCfg.tla).
// One scenario = one abstract configuration (global default credentials / -tsbd / -recRawNr, 0-2 channel entries) and
// one script of abstract requests (channel, kind, track, number, URL form, method, credentials).  The driver
//   - writes the configuration as the JSON config file the usage text documents and reads it back the way the
//     receiver does (json.Unmarshal into app.Config), starts a FRESH receiver per run (app.VerifNewRouter),
//   - builds real fMP4 uploads with the X02 segment library (init segments re-stamped, media segments from scratch),
//   - sends every request through the real router and records status, WWW-Authenticate, whether a channel object was
//     created (hook chan_created) and the difference of the whole sandbox directory tree (storage root, directories
//     around it, process working directory) before / after the request, every file classified syntactically and
//     digested; MPDs written by the receiver are parsed (timeShiftBufferDepth, listed segments),
//   - repeats the script in reference runs: "cfg" = a receiver configured with only the channel's entry, every
//     effective setting written out (the requests of that channel only), "forms" = the same configuration with
//     every upload sent in the other URL form and with the other of PUT/POST.
//
// Every clause of X06 is decided by spec/trace/ReceiverCfg_Trace.tla on these records; the class / auth predictions
// of the GEN lines are used for coverage statistics only.
package x06

import (
	"bufio"
	"encoding/json"
	"flag"
	"fmt"
	"io"
	"log/slog"
	"math/rand"
	"net/http"
	"os"
	"path/filepath"
	"sort"
	"sync"

	"github.com/go-chi/chi/v5/middleware"

	"verifharness/drive/x02"
	"verifharness/tr"
)

type chanCfg struct {
	Name      string   `json:"name"`
	User      string   `json:"user"`
	Pswd      string   `json:"pswd"`
	StartNr   int      `json:"startNr"`
	Tsbd      int      `json:"tsbd"`
	Raw       int      `json:"raw"`
	Ignore    bool     `json:"ignore"`
	IgnTracks []string `json:"ignTracks"`
}

type absCfg struct {
	Prefix  string    `json:"prefix"`
	DefUser string    `json:"defUser"`
	DefPswd string    `json:"defPswd"`
	DefTsbd int       `json:"defTsbd"`
	DefRaw  int       `json:"defRaw"`
	Chans   []chanCfg `json:"chans"`
}

type absRq struct {
	Ch      string `json:"ch"`
	Kind    string `json:"kind"`
	Track   string `json:"track"`
	Ext     string `json:"ext"`
	Nin     int    `json:"nin"`
	J       int    `json:"j"`
	Form    string `json:"form"`
	M       string `json:"m"`
	HasCred bool   `json:"hasCred"`
	User    string `json:"user"`
	Pswd    string `json:"pswd"`
	CredCls string `json:"credCls"`
	Big     bool   `json:"big"`
}

type step struct {
	Rq   absRq  `json:"rq"`
	Cls  string `json:"cls"`
	Auth string `json:"auth"`
}

type genLine struct {
	Cfg       absCfg `json:"cfg"`
	Focus     string `json:"focus"`
	Flip      bool   `json:"flip"`
	Dsec      int    `json:"dsec"`
	Nb        int    `json:"nb"`
	K         int    `json:"k"`
	EffTsbd   int    `json:"efftsbd"`
	EffRaw    int    `json:"effraw"`
	EffIgnore bool   `json:"effignore"`
	Script    []step `json:"script"`
}

func (c absCfg) toMap() map[string]any {
	chans := []map[string]any{}
	for _, e := range c.Chans {
		it := e.IgnTracks
		if it == nil {
			it = []string{}
		}
		chans = append(chans, map[string]any{"name": e.Name, "user": e.User, "pswd": e.Pswd, "startNr": e.StartNr, "tsbd": e.Tsbd,
			"raw": e.Raw, "ignore": e.Ignore, "ignTracks": it})
	}
	return map[string]any{"prefix": c.Prefix, "defUser": c.DefUser, "defPswd": c.DefPswd, "defTsbd": c.DefTsbd, "defRaw": c.DefRaw, "chans": chans}
}

func (r absRq) toMap() map[string]any {
	return map[string]any{"ch": r.Ch, "kind": r.Kind, "track": r.Track, "ext": r.Ext, "nin": r.Nin, "j": r.J, "form": r.Form, "m": r.M,
		"hasCred": r.HasCred, "user": r.User, "pswd": r.Pswd, "credCls": r.CredCls, "big": r.Big}
}

// Main is the entry point of harness/cmd/x06.
func Main(args []string) error {
	fs := flag.NewFlagSet("x06", flag.ContinueOnError)
	out := fs.String("out", "x06.ndjson", "trace output")
	gen := fs.String("gen", "", "jsonl of scenarios (GEN lines of ReceiverCfg)")
	seed := fs.Int64("seed", 1, "seed of the scenario selection")
	pick := fs.Int("pick", 0, "number of scenarios taken from the GEN lines (0 = all)")
	formsEvery := fs.Int("formsEvery", 3, "every n-th scenario is repeated with the other URL form / method (1 = all)")
	par := fs.Int("par", 6, "scenarios run in parallel")
	tmp := fs.String("tmp", "", "scratch directory")
	only := fs.Int("only", -1, "run only the scenario with this index of the GEN file")
	if err := fs.Parse(args); err != nil {
		return err
	}
	if *gen == "" {
		return fmt.Errorf("-gen is required")
	}
	repo := os.Getenv("VERIF_REPO")
	if repo == "" {
		repo = "/repo"
	}
	if *tmp == "" {
		base := ""
		if st, err := os.Stat("/dev/shm"); err == nil && st.IsDir() {
			base = "/dev/shm"
		}
		d, err := os.MkdirTemp(base, "x06-")
		if err != nil {
			return err
		}
		defer os.RemoveAll(d)
		*tmp = d
	}
	abstmp, err := filepath.Abs(*tmp)
	if err != nil {
		return err
	}
	// the receiver creates a directory relative to the process working directory (handleMPD): give it a deep, private one
	cwd := filepath.Join(abstmp, "c1", "c2", "c3", "cwd")
	if err := os.MkdirAll(cwd, 0o755); err != nil {
		return err
	}
	absout, err := filepath.Abs(*out)
	if err != nil {
		return err
	}
	absgen, err := filepath.Abs(*gen)
	if err != nil {
		return err
	}
	if err := os.Chdir(cwd); err != nil {
		return err
	}
	slog.SetDefault(slog.New(slog.NewTextHandler(io.Discard, &slog.HandlerOptions{Level: slog.Level(100)})))
	middleware.DefaultLogger = func(next http.Handler) http.Handler { return next }
	lib, err := x02.LoadInits(repo)
	if err != nil {
		return err
	}

	var gens []genLine
	f, err := os.Open(absgen)
	if err != nil {
		return err
	}
	rd := bufio.NewReaderSize(f, 1<<22)
	for {
		line, err := rd.ReadBytes('\n')
		if len(line) > 1 {
			var g genLine
			if e := json.Unmarshal(line, &g); e != nil {
				return fmt.Errorf("gen line %d: %w", len(gens), e)
			}
			gens = append(gens, g)
		}
		if err != nil {
			break
		}
	}
	f.Close()
	idxs := make([]int, len(gens))
	for i := range idxs {
		idxs[i] = i
	}
	if *only >= 0 {
		idxs = []int{*only}
	} else if *pick > 0 && *pick < len(gens) {
		rng := rand.New(rand.NewSource(*seed))
		rng.Shuffle(len(idxs), func(i, j int) { idxs[i], idxs[j] = idxs[j], idxs[i] })
		idxs = idxs[:*pick]
		sort.Ints(idxs)
	}

	installHook()
	bl := newBodyLib(lib)
	results := make([]result, len(idxs))
	next := make(chan int, len(idxs))
	for i := range idxs {
		next <- i
	}
	close(next)
	var wg sync.WaitGroup
	for w := 0; w < *par; w++ {
		wg.Add(1)
		go func() {
			defer wg.Done()
			for i := range next {
				gi := idxs[i]
				forms := *formsEvery > 0 && (gi+int(*seed))%*formsEvery == 0
				results[i] = runScenario(gi, &gens[gi], bl, abstmp, cwd, forms)
			}
		}()
	}
	wg.Wait()

	w, err := tr.New(absout)
	if err != nil {
		return err
	}
	distinct := map[string]bool{}
	byClass := map[string]int{}
	byCred := map[string]int{}
	byForm := map[string]int{}
	byStatus := map[string]int{}
	var samples []string
	st := map[string]int{}
	for i := range results {
		r := &results[i]
		if r.err != nil {
			return fmt.Errorf("scenario %d: %w", idxs[i], r.err)
		}
		for _, e := range r.events {
			w.Emit(e)
		}
		g := &gens[idxs[i]]
		key, _ := json.Marshal([]any{g.Cfg, g.Focus, g.Flip})
		distinct[string(key)] = true
		for _, s := range g.Script {
			byClass[s.Cls]++
			byCred[s.Rq.CredCls]++
			byForm[s.Rq.Form+"/"+s.Rq.M]++
			if s.Auth == "either" {
				st["authEither"]++
			}
		}
		for k, v := range r.statuses {
			byStatus[k] += v
		}
		st["requests"] += r.requests
		st["runs"] += r.runs
		st["refCfgRuns"] += r.refCfg
		st["refFormsRuns"] += r.refForms
		st["mpdEvents"] += r.mpds
		st["hookWaits"] += r.waits
		// input classes by construction of the scenario (never by what the receiver did)
		switch {
		case g.EffIgnore:
			st["ignoredFocus"]++
		case g.EffRaw > 0:
			st["rawFocus"]++
		case g.K >= g.EffTsbd/g.Dsec+4:
			st["longRuns"]++
		default:
			st["shortRuns"]++
		}
		if g.Cfg.Prefix != "/upload" {
			st["otherPrefix"]++
		}
		if idxs[i]%4 == 3 {
			st["nestedNames"]++
		}
		if len(g.Cfg.Chans) == 2 {
			st["twoEntries"]++
		}
		if len(samples) < 8 && i%(len(results)/8+1) == 0 {
			cj, _ := json.Marshal(g.Cfg)
			samples = append(samples, fmt.Sprintf("gen#%d focus=%s flip=%v cfg=%s script=%d requests", idxs[i], g.Focus, g.Flip, cj, len(g.Script)))
		}
	}
	events := w.N
	if err := w.Close(); err != nil {
		return err
	}
	tr.PrintStats(map[string]any{"scenarios": len(idxs), "events": events, "distinct": len(distinct), "samples": samples,
		"pool": len(gens), "requests": st["requests"], "runs": st["runs"], "refCfgRuns": st["refCfgRuns"], "refFormsRuns": st["refFormsRuns"],
		"mpdEvents": st["mpdEvents"], "hookWaits": st["hookWaits"], "twoEntries": st["twoEntries"], "authEither": st["authEither"],
		"longRuns": st["longRuns"], "shortRuns": st["shortRuns"], "rawFocus": st["rawFocus"], "ignoredFocus": st["ignoredFocus"],
		"otherPrefix": st["otherPrefix"], "nestedNames": st["nestedNames"],
		"byClass": byClass, "byCred": byCred, "byForm": byForm, "byStatus": byStatus})
	return nil
}

package x06

import (
	"bytes"
	"context"
	"encoding/json"
	"encoding/xml"
	"fmt"
	"net/http"
	"net/http/httptest"
	"os"
	"path/filepath"
	"regexp"
	"sort"
	"strconv"
	"strings"
	"sync"
	"sync/atomic"
	"syscall"
	"time"

	"github.com/Dash-Industry-Forum/livesim2/cmd/cmaf-ingest-receiver/app"

	"verifharness/drive/x02"
	"verifharness/tr"
)

const processTimeout = 20 * time.Second

// ---- hooks: routed by the (process-wide unique) concrete channel name of a run

type procEv struct {
	track    string
	complete bool
}

var debugHook = os.Getenv("X06_DEBUG") != ""

var (
	procChans  sync.Map // channel name -> chan procEv
	createdCnt sync.Map // channel name -> *int32
)

func installHook() {
	app.VerifHook = func(ev string, kv map[string]any) {
		name, _ := kv["ch"].(string)
		switch ev {
		case "process":
			if debugHook {
				fmt.Fprintf(os.Stderr, "process %s %v/%v complete=%v chunk=%v latest=%v started=%v win=%v nrTracks=%v fill=%v counters=%v/%v\n", name, kv["track"], kv["seqNr"],
					kv["complete"], kv["chunkNr"], kv["latestSeqNr"], kv["started"], kv["windowSize"], kv["nrTracks"], kv["fill"], kv["counterFill"], kv["counterLen"])
			}
			if c, ok := procChans.Load(name); ok {
				t, _ := kv["track"].(string)
				cpl, _ := kv["complete"].(bool)
				select {
				case c.(chan procEv) <- procEv{track: t, complete: cpl}:
				default:
				}
			}
		case "chan_created":
			if c, ok := createdCnt.Load(name); ok {
				atomic.AddInt32(c.(*int32), 1)
			}
		}
	}
}

// ---- upload bodies (ground truth by construction; shared by all scenarios)

type bodyLib struct {
	lib   *x02.InitLib
	mu    sync.Mutex
	cache map[string][]byte
	pay   map[string][]string // body digest -> payload digests of its fragments
}

func newBodyLib(lib *x02.InitLib) *bodyLib {
	return &bodyLib{lib: lib, cache: map[string][]byte{}, pay: map[string][]string{}}
}

var trackKind = map[string]string{"v": "video", "a": "audio"}
var trackTs = map[string]int64{"v": 90000, "a": 48000}

const samplesPerSeg = 200 // bodies of media segments must be >= 4096 bytes (raw capture treats shorter uploads as init segments)

func payloads(m *x02.MediaObs) []string {
	var p []string
	for _, f := range m.Frags {
		p = append(p, f.Payload)
	}
	return p
}

func (b *bodyLib) body(rq absRq, nb, dsec, i int) ([]byte, error) {
	var key string
	switch rq.Kind {
	case "init":
		key = "init/" + rq.Track
	case "media":
		key = fmt.Sprintf("media/%s/%d/%d/%d/%d", rq.Track, rq.Nin, rq.J, nb, dsec)
	case "mpd":
		return []byte(fmt.Sprintf(`<?xml version="1.0" encoding="UTF-8"?>`+"\n"+`<MPD xmlns="urn:mpeg:dash:schema:mpd:2011" type="dynamic" id="%s-%d"></MPD>`+"\n", rq.Ch, i)), nil
	default:
		return []byte{}, nil
	}
	b.mu.Lock()
	defer b.mu.Unlock()
	if d, ok := b.cache[key]; ok {
		return d, nil
	}
	var data []byte
	var err error
	ts := trackTs[rq.Track]
	if ts == 0 {
		return nil, fmt.Errorf("unknown track %q", rq.Track)
	}
	if rq.Kind == "init" {
		data, err = b.lib.MakeInit(trackKind[rq.Track], uint32(ts), 0, 0)
	} else {
		tot := ts * int64(dsec)
		if tot%samplesPerSeg != 0 || rq.J < 0 {
			return nil, fmt.Errorf("segment of %d ticks cannot be split / media index %d", tot, rq.J)
		}
		durs := make([]uint32, samplesPerSeg)
		for k := range durs {
			durs[k] = uint32(tot / samplesPerSeg)
		}
		t0 := int64(nb+rq.J) * tot
		data, err = x02.BuildSeg(x02.SegPlan{SeqNr: uint32(rq.Nin), Chunks: []x02.ChunkPlan{{T: uint64(t0), Durs: durs}}, Styp: true,
			Video: rq.Track == "v", Salt: byte(13*rq.J + len(rq.Track) + int(ts%7))})
		if err == nil {
			var m *x02.MediaObs
			m, err = x02.ParseMedia(data, 0)
			if err == nil && (m.Frags[0].Mfhd != uint32(rq.Nin) || int64(m.Frags[0].Tfdt) != t0) {
				err = fmt.Errorf("built segment reads back differently")
			}
			if err == nil {
				b.pay[x02.Digest(data)] = payloads(m)
			}
		}
		if err == nil && len(data) < 4096 {
			err = fmt.Errorf("media body of %d bytes is shorter than 4096", len(data))
		}
	}
	if err != nil {
		return nil, err
	}
	b.cache[key] = data
	return data, nil
}

func (b *bodyLib) payloadOf(dig string) []string {
	b.mu.Lock()
	defer b.mu.Unlock()
	return b.pay[dig]
}

// ---- effective settings written out (reference run "cfg"; the trace specification checks it against Solo of the oracle)

func solo(c absCfg, ch string) absCfg {
	e := chanCfg{Name: ch}
	for _, x := range c.Chans {
		if x.Name == ch {
			e = x
			break
		}
	}
	if e.User == "" {
		e.User = c.DefUser
	}
	if e.Pswd == "" {
		e.Pswd = c.DefPswd
	}
	if e.Tsbd == 0 {
		e.Tsbd = c.DefTsbd
	}
	if e.Raw == 0 {
		e.Raw = c.DefRaw
	}
	return absCfg{Prefix: c.Prefix, DefTsbd: 90, DefRaw: 0, Chans: []chanCfg{e}}
}

// ---- one run = one fresh receiver

type fileInfo struct {
	dir bool
	dig string
}

type cachedDig struct {
	stamp string
	dig   string
	at    time.Time
}

type runCtx struct {
	gi      int
	tag     string
	run     string
	nested  bool
	sandbox string
	storage string
	cwd     string
	names   map[string]string // abstract channel -> concrete channel name (may have several path components)
	bases   map[string]string // abstract channel -> unique last component
	esc     string            // channel name of the "dotdot" request
	router  http.Handler
	proc    map[string]chan procEv
	created []*int32
	dcache  map[string]cachedDig
	bl      *bodyLib
	g       *genLine
}

const storageRel = "d1/d2/storage"

func (rc *runCtx) setup(cfg absCfg) (func(), error) {
	rc.names, rc.bases, rc.proc = map[string]string{}, map[string]string{}, map[string]chan procEv{}
	rc.dcache = map[string]cachedDig{}
	for _, abs := range []string{"A", "B", "U"} {
		base := fmt.Sprintf("%sx%d%s", strings.ToLower(abs), rc.gi, rc.tag)
		rc.bases[abs] = base
		rc.names[abs] = base
		if rc.nested {
			rc.names[abs] = fmt.Sprintf("g%s/sub/%s", base, base)
		}
	}
	rc.esc = "../../esc" + rc.bases[rc.g.Focus]
	rc.storage = filepath.Join(rc.sandbox, filepath.FromSlash(storageRel))
	_ = os.RemoveAll(rc.sandbox)
	if err := os.MkdirAll(rc.storage, 0o755); err != nil {
		return nil, err
	}
	conf, err := rc.appConfig(cfg)
	if err != nil {
		return nil, err
	}
	ctx, cancel := context.WithCancel(context.Background())
	var hooked []string
	shared := make(chan procEv, 256) // one queue per run: requests are sequential, and a channel may report under another name
	for _, n := range append([]string{rc.esc}, rc.names["A"], rc.names["B"], rc.names["U"]) {
		c := shared
		rc.proc[n] = c
		procChans.Store(n, c)
		cnt := new(int32)
		rc.created = append(rc.created, cnt)
		createdCnt.Store(n, cnt)
		hooked = append(hooked, n)
	}
	router, _, err := app.VerifNewRouter(ctx, cfg.Prefix, rc.storage, uint64(cfg.DefTsbd), uint64(cfg.DefRaw), "", conf)
	if err != nil {
		cancel()
		return nil, err
	}
	rc.router = router
	return func() {
		cancel()
		for _, n := range hooked {
			procChans.Delete(n)
			createdCnt.Delete(n)
		}
		_ = os.RemoveAll(rc.sandbox)
		for _, n := range hooked {
			p := filepath.Join(rc.cwd, n)
			if strings.HasPrefix(p, rc.cwd+string(filepath.Separator)) {
				_ = os.RemoveAll(filepath.Join(rc.cwd, strings.SplitN(n, "/", 2)[0]))
			} else {
				_ = os.RemoveAll(p)
			}
		}
	}, nil
}

// appConfig writes the configuration as the JSON config file of the usage text (keys that are not set are left out, as a
// user would) and reads it the way the receiver's readConfig does.
func (rc *runCtx) appConfig(c absCfg) (*app.Config, error) {
	chans := []map[string]any{}
	for _, e := range c.Chans {
		m := map[string]any{"name": rc.names[e.Name]}
		if e.StartNr != 0 {
			m["startNr"] = e.StartNr
		}
		if e.User != "" {
			m["authUser"] = e.User
		}
		if e.Pswd != "" {
			m["authPassword"] = e.Pswd
		}
		if e.Tsbd != 0 {
			m["timeShiftBufferDepthS"] = e.Tsbd
		}
		if e.Raw != 0 {
			m["receiveNrRawSegments"] = e.Raw
		}
		if e.Ignore {
			m["ignore"] = true
		}
		if len(e.IgnTracks) > 0 {
			reps := []map[string]any{}
			for _, t := range e.IgnTracks {
				reps = append(reps, map[string]any{"name": t, "ignore": true})
			}
			m["reps"] = reps
		}
		chans = append(chans, m)
	}
	doc := map[string]any{"channels": chans}
	if c.DefUser != "" {
		doc["defaultUser"] = c.DefUser
	}
	if c.DefPswd != "" {
		doc["defaultPassword"] = c.DefPswd
	}
	data, err := json.Marshal(doc)
	if err != nil {
		return nil, err
	}
	conf := &app.Config{}
	if err := json.Unmarshal(data, conf); err != nil {
		return nil, err
	}
	return conf, nil
}

func (rc *runCtx) createdTotal() int32 {
	var n int32
	for _, c := range rc.created {
		n += atomic.LoadInt32(c)
	}
	return n
}

// url of an abstract request (swap: the other documented form and the other upload method)
func (rc *runCtx) target(rq absRq, swap bool) (method, url string) {
	p := rc.g.Cfg.Prefix
	cc := rc.names[rq.Ch]
	form, m := rq.Form, rq.M
	if swap && (m == "PUT" || m == "POST") {
		if m == "PUT" {
			m = "POST"
		} else {
			m = "PUT"
		}
		switch form {
		case "seg":
			form = "streams"
		case "streams":
			form = "seg"
		}
	}
	segID := "init"
	if rq.Kind == "media" {
		segID = strconv.Itoa(rq.Nin)
		if rq.J%2 == 1 {
			segID = fmt.Sprintf("s%dx", rq.J) // "the name is changed for each segment": the number comes from the segment, not from the name
		}
	} else if rq.Track == "a" {
		segID = "header"
	}
	switch form {
	case "seg":
		url = fmt.Sprintf("%s/%s/%s/%s%s", p, cc, rq.Track, segID, rq.Ext)
	case "streams":
		url = fmt.Sprintf("%s/%s/Streams(%s%s)", p, cc, rq.Track, rq.Ext)
	case "mpd":
		name := "manifest"
		if m == "POST" {
			name = "live_1"
		}
		url = fmt.Sprintf("%s/%s/%s.mpd", p, cc, name)
	case "noprefix":
		url = fmt.Sprintf("/%s/%s/%s%s", cc, rq.Track, segID, rq.Ext)
		if p == "" {
			url = "/" + url // cannot be outside an empty prefix: never generated
		}
	case "badext":
		url = fmt.Sprintf("%s/%s/%s/%s.mp4", p, cc, rq.Track, segID)
	case "segment_n":
		url = fmt.Sprintf("%s/%s/Streams(%s%s)/Segment(%d)", p, cc, rq.Track, rq.Ext, rq.Nin)
	case "onecomp":
		url = fmt.Sprintf("%s/%s%s", p, segID, rq.Ext)
	case "dotdot":
		url = fmt.Sprintf("%s/%s/%s/%s%s", p, rc.esc, rq.Track, segID, rq.Ext)
	case "nochan":
		url = fmt.Sprintf("%s/%s%s/%s%s", p, rq.Track, rc.bases[rq.Ch], segID, rq.Ext)
	}
	return m, url
}

func (rc *runCtx) send(rq absRq, swap bool, body []byte) (int, string) {
	m, url := rc.target(rq, swap)
	req := httptest.NewRequest(m, "http://receiver.test"+url, bytes.NewReader(body))
	if len(body) > 0 {
		req.Header.Set("Content-Length", strconv.Itoa(len(body)))
	}
	switch {
	case rq.CredCls == "malformed":
		req.Header.Set("Authorization", "Basic %%%not-base64%%%")
	case rq.HasCred:
		req.SetBasicAuth(rq.User, rq.Pswd)
	}
	rec := httptest.NewRecorder()
	rc.router.ServeHTTP(rec, req)
	return rec.Code, rec.Header().Get("WWW-Authenticate")
}

// snapshot of everything the receiver may have touched: the sandbox around the storage root and the
// directories it could have created relative to the process working directory
func (rc *runCtx) snapshot() map[string]fileInfo {
	res := map[string]fileInfo{}
	_ = filepath.WalkDir(rc.sandbox, func(p string, d os.DirEntry, err error) error {
		if err != nil || p == rc.sandbox {
			return nil
		}
		rel, _ := filepath.Rel(rc.sandbox, p)
		rel = filepath.ToSlash(rel)
		if d.IsDir() {
			if rel == "d1" || rel == "d1/d2" || rel == storageRel {
				return nil
			}
			res[rel] = fileInfo{dir: true, dig: "dir"}
			return nil
		}
		info, err := d.Info()
		if err != nil {
			return nil
		}
		// file timestamps have the granularity of the kernel tick: a cached digest is only trusted when it was computed
		// well after the file's modification time (a later write would then have moved the time on)
		var ino uint64
		if sys, ok := info.Sys().(*syscall.Stat_t); ok {
			ino = sys.Ino
		}
		stamp := fmt.Sprintf("%d/%d/%d", info.Size(), info.ModTime().UnixNano(), ino)
		if c, ok := rc.dcache[rel]; ok && c.stamp == stamp && c.at.Sub(info.ModTime()) > 50*time.Millisecond {
			res[rel] = fileInfo{dig: c.dig}
			return nil
		}
		data, err := os.ReadFile(p)
		if err != nil {
			return nil
		}
		dig := x02.Digest(data)
		rc.dcache[rel] = cachedDig{stamp: stamp, dig: dig, at: time.Now()}
		res[rel] = fileInfo{dig: dig}
		return nil
	})
	for n := range rc.proc {
		p := filepath.Join(rc.cwd, n)
		if st, err := os.Stat(p); err == nil {
			res["cwd:"+n] = fileInfo{dir: st.IsDir(), dig: "stray"}
		}
	}
	return res
}

var numRe = regexp.MustCompile(`^(\d{1,9})(\.cmf[vatm])$`)

func (rc *runCtx) abstractify(s string) string {
	for abs, base := range rc.bases {
		s = strings.ReplaceAll(s, base, abs)
	}
	return s
}

// classify is purely syntactic: where does the path lie, what does its name look like
func (rc *runCtx) classify(key string, fi fileInfo) map[string]any {
	e := map[string]any{"ch": "?", "track": "", "name": rc.abstractify(key), "nr": -1, "kind": "other", "inside": false, "dig": fi.dig}
	if fi.dir {
		e["kind"] = "dir"
	}
	if !strings.HasPrefix(key, storageRel+"/") {
		return e
	}
	e["inside"] = true
	rel := strings.TrimPrefix(key, storageRel+"/")
	e["name"] = rc.abstractify(rel)
	for abs, cp := range rc.names {
		switch {
		case rel == cp:
			e["ch"], e["name"] = abs, "."
			return e
		case strings.HasPrefix(cp, rel+"/"): // a directory above a channel name with several components
			e["ch"], e["name"] = abs, "^"+strconv.Itoa(strings.Count(cp, "/")-strings.Count(rel, "/"))
			return e
		case strings.HasPrefix(rel, cp+"/"):
			rest := strings.Split(strings.TrimPrefix(rel, cp+"/"), "/")
			e["ch"] = abs
			switch len(rest) {
			case 1:
				e["name"] = rest[0]
				if !fi.dir {
					switch {
					case rest[0] == "received.mpd":
						e["kind"] = "received"
					case rest[0] == "manifest.mpd":
						e["kind"] = "manifest"
					case rest[0] == "manifest_timeline_nr.mpd":
						e["kind"] = "timeline"
					case strings.HasSuffix(rest[0], ".tmp"):
						e["kind"] = "tmp"
					}
				} else {
					e["track"], e["name"] = rest[0], "."
				}
			case 2:
				e["track"], e["name"] = rest[0], rest[1]
				if !fi.dir {
					if m := numRe.FindStringSubmatch(rest[1]); m != nil {
						n, _ := strconv.Atoi(m[1])
						e["kind"], e["nr"] = "media", n
					} else if strings.HasPrefix(rest[1], "init_org.cmf") {
						e["kind"] = "init_org"
					} else if strings.HasPrefix(rest[1], "init.cmf") {
						e["kind"] = "init"
					}
				}
			default:
				e["track"], e["name"] = rest[0], strings.Join(rest[1:], "/")
			}
			return e
		}
	}
	return e
}

type result struct {
	events   []tr.E
	requests int
	runs     int
	refCfg   int
	refForms int
	mpds     int
	waits    int
	statuses map[string]int
	err      error
}

var isoDur = regexp.MustCompile(`^P(?:(\d+)Y)?(?:(\d+)M)?(?:(\d+)D)?(?:T(?:(\d+)H)?(?:(\d+)M)?(?:(\d+)(?:\.(\d+))?S)?)?$`)

// seconds of an xs:duration without years / months (whole seconds only; -1 otherwise)
func durSeconds(s string) int {
	m := isoDur.FindStringSubmatch(s)
	if m == nil || m[1] != "" || m[2] != "" {
		return -1
	}
	if m[7] != "" && strings.Trim(m[7], "0") != "" {
		return -1
	}
	tot := 0
	for i, f := range []int{0, 0, 0, 86400, 3600, 60, 1} {
		if f == 0 || m[i] == "" {
			continue
		}
		v, _ := strconv.Atoi(m[i])
		tot += v * f
	}
	return tot
}

type xMPD struct {
	Tsbd    string `xml:"timeShiftBufferDepth,attr"`
	Periods []struct {
		AS []struct {
			ST *struct {
				Timeline *struct {
					S []struct {
						R int `xml:"r,attr"`
					} `xml:"S"`
				} `xml:"SegmentTimeline"`
			} `xml:"SegmentTemplate"`
		} `xml:"AdaptationSet"`
	} `xml:"Period"`
}

func mpdFacts(path string) map[string]any {
	f := map[string]any{"ok": false, "tsbd": -1, "nAS": 0, "minListed": 0, "maxListed": 0}
	data, err := os.ReadFile(path)
	if err != nil {
		return f
	}
	var d xMPD
	if err := xml.Unmarshal(data, &d); err != nil {
		return f
	}
	f["ok"] = true
	f["tsbd"] = durSeconds(d.Tsbd)
	first := true
	nAS := 0
	for _, p := range d.Periods {
		for _, as := range p.AS {
			nAS++
			n := 0
			if as.ST != nil && as.ST.Timeline != nil {
				for _, s := range as.ST.Timeline.S {
					n += s.R + 1
				}
			}
			if first || n < f["minListed"].(int) {
				f["minListed"] = n
			}
			if first || n > f["maxListed"].(int) {
				f["maxListed"] = n
			}
			first = false
		}
	}
	f["nAS"] = nAS
	return f
}

func (rc *runCtx) runOne(res *result, cfg absCfg, only string, swap bool) error {
	cleanup, err := rc.setup(cfg)
	if err != nil {
		return err
	}
	defer cleanup()
	emit := func(e tr.E) { res.events = append(res.events, e) }
	emit(tr.E{"ev": "run", "run": rc.run, "ch": only, "cfg": cfg.toMap()})
	res.runs++
	prev := rc.snapshot()
	for i, s := range rc.g.Script {
		rq := s.Rq
		if only != "" && rq.Ch != only {
			continue
		}
		body, err := rc.bl.body(rq, rc.g.Nb, rc.g.Dsec, i)
		if err != nil {
			return err
		}
		bdig := x02.Digest(body)
		for _, c := range rc.proc {
			for len(c) > 0 {
				<-c
			}
		}
		c0 := rc.createdTotal()
		status, chalHdr := rc.send(rq, swap, body)
		res.requests++
		res.statuses[strconv.Itoa(status)]++
		now := rc.snapshot()
		// the channel goroutine writes the MPDs after the answer: when the upload stored a numbered media file, wait
		// for the goroutine's report of the completed segment (decided on what was observed, not on the oracle)
		if status == http.StatusOK {
			for k, fi := range now {
				if p, ok := prev[k]; ok && p.dig == fi.dig {
					continue
				}
				e := rc.classify(k, fi)
				if e["kind"] != "media" {
					continue
				}
				pc := rc.proc[rc.names[e["ch"].(string)]]
				deadline := time.After(processTimeout)
			wait:
				for {
					select {
					case ev := <-pc:
						if ev.complete && ev.track == e["track"] {
							break wait
						}
					case <-deadline:
						return fmt.Errorf("gen %d run %s request %d: answered 200 and stored %s but the channel goroutine reported nothing", rc.gi, rc.run, i+1, k)
					}
				}
				res.waits++
				now = rc.snapshot()
				break
			}
		}
		var keys []string
		for k := range now {
			keys = append(keys, k)
		}
		for k := range prev {
			if _, ok := now[k]; !ok {
				keys = append(keys, k)
			}
		}
		sort.Strings(keys)
		delta := []map[string]any{}
		var mpdEvs []tr.E
		for _, k := range keys {
			fi, inNow := now[k]
			pi, inPrev := prev[k]
			var e map[string]any
			switch {
			case inNow && !inPrev:
				e = rc.classify(k, fi)
				e["op"] = "+"
			case !inNow && inPrev:
				e = rc.classify(k, pi)
				e["op"] = "-"
			case fi.dig != pi.dig:
				e = rc.classify(k, fi)
				e["op"] = "~"
			default:
				continue
			}
			e["same"] = inNow && !fi.dir && fi.dig == bdig
			e["payload"] = false
			if inNow && e["kind"] == "media" {
				if data, err := os.ReadFile(filepath.Join(rc.sandbox, filepath.FromSlash(k))); err == nil {
					if m, err := x02.ParseMedia(data, 0); err == nil {
						want := rc.bl.payloadOf(bdig)
						got := payloads(m)
						e["payload"] = len(want) > 0 && len(want) == len(got) && strings.Join(want, ",") == strings.Join(got, ",")
					}
				}
			}
			if inNow && (e["kind"] == "manifest" || e["kind"] == "timeline") && e["ch"] != "?" {
				f := mpdFacts(filepath.Join(rc.sandbox, filepath.FromSlash(k)))
				ev := tr.E{"ev": "mpd", "run": rc.run, "i": i + 1, "ch": e["ch"], "which": e["kind"]}
				for fk, fv := range f {
					ev[fk] = fv
				}
				mpdEvs = append(mpdEvs, ev)
				// the differential clauses compare what the MPD says, not its bytes
				e["dig"] = fmt.Sprintf("mpd:%v/%v/%v/%v", f["ok"], f["tsbd"], f["minListed"], f["maxListed"])
			}
			delta = append(delta, e)
		}
		m, url := rc.target(rq, swap)
		emit(tr.E{"ev": "req", "run": rc.run, "i": i + 1, "rq": rq.toMap(), "sentM": m, "url": rc.abstractify(url), "status": status,
			"chal":    strings.HasPrefix(strings.ToLower(strings.TrimSpace(chalHdr)), "basic"),
			"created": int(rc.createdTotal() - c0), "delta": delta, "blen": len(body)})
		for _, ev := range mpdEvs {
			emit(ev)
			res.mpds++
		}
		prev = now
	}
	// final tree: every file
	var keys []string
	for k, fi := range prev {
		if !fi.dir && !strings.HasPrefix(k, "cwd:") { // (directories outside the storage root are reported with the request that made them)
			keys = append(keys, k)
		}
	}
	sort.Strings(keys)
	files := []map[string]any{}
	for _, k := range keys {
		e := rc.classify(k, prev[k])
		if (e["kind"] == "manifest" || e["kind"] == "timeline") && e["ch"] != "?" {
			f := mpdFacts(filepath.Join(rc.sandbox, filepath.FromSlash(k)))
			e["dig"] = fmt.Sprintf("mpd:%v/%v/%v/%v", f["ok"], f["tsbd"], f["minListed"], f["maxListed"])
		}
		files = append(files, e)
	}
	emit(tr.E{"ev": "tree", "run": rc.run, "ch": only, "files": files})
	return nil
}

func runScenario(gi int, g *genLine, bl *bodyLib, tmp, cwd string, forms bool) (res result) {
	res.statuses = map[string]int{}
	nested := gi%4 == 3
	res.events = append(res.events, tr.E{"ev": "hdr", "id": fmt.Sprintf("gen%d", gi), "gen": gi, "cfg": g.Cfg.toMap(), "focus": g.Focus,
		"flip": g.Flip, "dsec": g.Dsec, "nb": g.Nb, "nested": nested, "n": len(g.Script)})
	mk := func(tag, run string) *runCtx {
		return &runCtx{gi: gi, tag: tag, run: run, nested: nested, sandbox: filepath.Join(tmp, fmt.Sprintf("s%d%s", gi, tag)), cwd: cwd, bl: bl, g: g}
	}
	if res.err = mk("m", "main").runOne(&res, g.Cfg, "", false); res.err != nil {
		return
	}
	seen := map[string]bool{}
	tags := []string{"c", "d", "e"}
	for _, s := range g.Script {
		ch := s.Rq.Ch
		if seen[ch] {
			continue
		}
		seen[ch] = true
		sc := solo(g.Cfg, ch)
		if res.err = mk(tags[len(seen)-1], "cfg").runOne(&res, sc, ch, false); res.err != nil {
			return
		}
		res.refCfg++
	}
	if forms {
		if res.err = mk("f", "forms").runOne(&res, g.Cfg, "", true); res.err != nil {
			return
		}
		res.refForms++
	}
	return
}

// Package x01 drives the real livesim2 server with the URL configurations enumerated by TLC (spec/MpdSignal.tla, GEN
// lines), concretised with seeded representatives per value class, and records for each configuration and instant
//   - the facts of the served MPD that the value clauses of MpdSignalOps read ("sig"), and
//   - for every given parameter k the symmetric difference between that MPD's facts and the facts of the MPD served for
//     the same URL without k at the same instant ("ind"; for k = periods Period by Period against the single Period).
//
// Ground truth in the "hdr" events: the configuration as constructed here, the request host and path parts, and the
// driver's own reading of the VoD MPD file (AdaptationSets, MPD@id, UTCTiming elements) and of the VoD segments
// (shortest / longest video segment, from the asset generator or an independent parse).
package x01

import (
	"bufio"
	"encoding/json"
	"flag"
	"fmt"
	"hash/fnv"
	"math/rand"
	"os"
	"path/filepath"
	"regexp"
	"sort"
	"strconv"
	"strings"
	"sync"

	"github.com/Dash-Industry-Forum/livesim2/cmd/livesim2/app"

	"verifharness/drive/tl"
	"verifharness/srv"
	"verifharness/tr"
)

const hostPort = "x01.test:8443"
const host = "http://" + hostPort

type part struct {
	K string `json:"k"`
	C string `json:"c"`
}

type genCfg struct {
	Mode  string `json:"mode"`
	Asset string `json:"asset"`
	Parts []part `json:"parts"`
}

// concrete configuration record (MpdSignalOps.NoCfg)
type conc struct {
	Tsbd       int      `json:"tsbd"`
	Mup        int      `json:"mup"`
	Spd        int      `json:"spd"`
	Snr        int      `json:"snr"`
	Start      int      `json:"start"`
	Startkey   string   `json:"startkey"`
	Startrel   int      `json:"startrel"`
	Stoprel    int      `json:"stoprel"`
	Utc        []string `json:"utc"`
	Ato        int      `json:"ato"`
	Chunkdur   int      `json:"chunkdur"`
	Ltgt       int      `json:"ltgt"`
	Patch      int      `json:"patch"`
	Stpp       []string `json:"stpp"`
	Wvtt       []string `json:"wvtt"`
	Scte35     int      `json:"scte35"`
	AnnexI     int      `json:"annexI"`
	Traffic    int      `json:"traffic"`
	Periods    int      `json:"periods"`
	Continuous bool     `json:"continuous"`
	Eccp       string   `json:"eccp"`
	Drm        string   `json:"drm"`
}

func noCfg() conc {
	return conc{Tsbd: -1, Mup: -1, Spd: -1, Snr: -2, Start: -1, Startkey: "start", Ltgt: -1, Patch: -1, Utc: []string{}, Stpp: []string{}, Wvtt: []string{}}
}

// vodAsset is one (asset, VoD MPD) the configurations are applied to.
type vodAsset struct {
	class  string
	path   string // asset path under the VoD root
	mpd    string
	segMin int64
	segMax int64
	vas    [][2]string
	vodID  string
	vodUtc [][2]string
	keys   map[string]bool
}

type urlPart struct {
	K   string `json:"k"`
	Raw string `json:"raw"`
}

func fmtMS(ms int) string {
	s := fmt.Sprintf("%d.%03d", ms/1000, ms%1000)
	s = strings.TrimRight(s, "0")
	return strings.TrimSuffix(s, ".")
}

var utcMethods = []string{"direct", "head", "ntp", "sntp", "httpxsdate", "httpxsdatems", "httpiso", "httpisoms"}
var langPool = []string{"en", "sv", "de", "fr", "fi", "nb", "es"}
var trafficPool = []string{"u20d10", "d1", "u1", "u45s10h5", "u10d50", "u50d10", "u7d3", "d2u5"}

func rint(r *rand.Rand, lo, hi int) int { return lo + r.Intn(hi-lo+1) }

// concretise turns one abstract part into the URL part and updates the concrete record. query receives the query
// pairs an annexI configuration needs on the MPD request.
func concretise(r *rand.Rand, p part, a *vodAsset, t1s int64, c *conc, query *[]string) (string, error) {
	bad := fmt.Errorf("unknown value class %s_%s", p.K, p.C)
	num := func(v int) string { return p.K + "_" + strconv.Itoa(v) }
	switch p.K {
	case "tsbd":
		switch p.C {
		case "0":
			c.Tsbd = 0
		case "1":
			c.Tsbd = 1
		case "typ":
			c.Tsbd = rint(r, 2, 3600)
			if c.Tsbd == 60 {
				c.Tsbd = 61
			}
		case "max":
			c.Tsbd = 172800
		default:
			return "", bad
		}
		return num(c.Tsbd), nil
	case "mup":
		switch p.C {
		case "1":
			c.Mup = 1
		case "typ":
			c.Mup = rint(r, 3, 3600)
		case "big":
			c.Mup = rint(r, 100000, 2000000)
		default:
			return "", bad
		}
		return num(c.Mup), nil
	case "spd":
		switch p.C {
		case "0":
			c.Spd = 0
		case "typ":
			c.Spd = rint(r, 1, 120)
		default:
			return "", bad
		}
		return num(c.Spd), nil
	case "snr":
		switch p.C {
		case "0":
			c.Snr = 0
		case "1":
			c.Snr = 1
		case "typ":
			c.Snr = rint(r, 2, 100000)
		case "m1":
			c.Snr = -1
		default:
			return "", bad
		}
		return num(c.Snr), nil
	case "start", "ast":
		switch p.C {
		case "1":
			c.Start = 1
		case "typ":
			c.Start = rint(r, 2, int(t1s)-4000)
		default:
			return "", bad
		}
		c.Startkey = p.K
		return num(c.Start), nil
	case "startrel":
		switch p.C {
		case "m1":
			c.Startrel = -1
		case "typ":
			c.Startrel = -rint(r, 2, 3600)
		default:
			return "", bad
		}
		return num(c.Startrel), nil
	case "stoprel":
		c.Stoprel = rint(r, 10, 3600)
		return num(c.Stoprel), nil
	case "utc":
		switch p.C {
		case "none", "keep":
			c.Utc = []string{p.C}
		case "multi":
			perm := r.Perm(len(utcMethods))
			n := rint(r, 2, 4)
			for _, i := range perm[:n] {
				c.Utc = append(c.Utc, utcMethods[i])
			}
		case "all":
			for _, i := range r.Perm(len(utcMethods)) {
				c.Utc = append(c.Utc, utcMethods[i])
			}
		default:
			ok := false
			for _, m := range utcMethods {
				ok = ok || m == p.C
			}
			if !ok {
				return "", bad
			}
			c.Utc = []string{p.C}
		}
		return "utc_" + strings.Join(c.Utc, "-"), nil
	case "ato":
		lim := int(a.segMin) - 300
		switch p.C {
		case "typ":
			c.Ato = 100 * rint(r, 1, lim/100)
		case "ms":
			c.Ato = rint(r, 1, lim)
			if c.Ato%100 == 0 {
				c.Ato++
			}
		case "inf":
			c.Ato = -1
			return "ato_inf", nil
		default:
			return "", bad
		}
		return "ato_" + fmtMS(c.Ato), nil
	case "chunkdur":
		hi := 10
		if int(a.segMin) < 1100 {
			hi = int(a.segMin)/100 - 1
		}
		c.Chunkdur = 100 * rint(r, 1, hi)
		return "chunkdur_" + fmtMS(c.Chunkdur), nil
	case "ltgt":
		switch p.C {
		case "typ":
			c.Ltgt = rint(r, 1000, 10000)
			if c.Ltgt == 3500 {
				c.Ltgt = 3501
			}
		case "1":
			c.Ltgt = 1
		default:
			return "", bad
		}
		return num(c.Ltgt), nil
	case "patch":
		switch p.C {
		case "0":
			c.Patch = 0
		case "1":
			c.Patch = 1
		case "typ":
			c.Patch = rint(r, 2, 120)
		default:
			return "", bad
		}
		return num(c.Patch), nil
	case "timesubsstpp", "timesubswvtt":
		n := map[string]int{"one": 1, "two": 2, "three": 3}[p.C]
		if n == 0 {
			return "", bad
		}
		var ls []string
		for _, i := range r.Perm(len(langPool))[:n] {
			ls = append(ls, langPool[i])
		}
		if p.K == "timesubsstpp" {
			c.Stpp = ls
		} else {
			c.Wvtt = ls
		}
		return p.K + "_" + strings.Join(ls, ","), nil
	case "scte35":
		v, err := strconv.Atoi(p.C)
		if err != nil || v < 1 || v > 3 {
			return "", bad
		}
		c.Scte35 = v
		return num(v), nil
	case "annexI":
		n := map[string]int{"one": 1, "two": 2}[p.C]
		if n == 0 {
			return "", bad
		}
		c.AnnexI = n
		var pairs []string
		for i := 0; i < n; i++ {
			pairs = append(pairs, fmt.Sprintf("%c%d=v%d", 'a'+i, rint(r, 0, 9), rint(r, 0, 999)))
		}
		*query = append(*query, pairs...)
		return "annexI_" + strings.Join(pairs, ","), nil
	case "traffic":
		n := map[string]int{"one": 1, "two": 2, "three": 3}[p.C]
		if n == 0 {
			return "", bad
		}
		c.Traffic = n
		var ps []string
		for i := 0; i < n; i++ {
			ps = append(ps, trafficPool[r.Intn(len(trafficPool))])
		}
		return "traffic_" + strings.Join(ps, ","), nil
	case "periods":
		// period durations that are multiples of the (uniform) segment duration
		var typ int
		var alt []int
		switch {
		case a.segMin == 2000 && a.segMax == 2000:
			typ, alt = 60, []int{30, 120, 20, 90, 360}
		case a.segMin == 8000 && a.segMax == 8000:
			typ, alt = 30, []int{45, 15, 9, 225}
		default:
			return "", fmt.Errorf("periods_ on asset %s with segment durations %d..%d ms", a.path, a.segMin, a.segMax)
		}
		switch p.C {
		case "typ":
			c.Periods = typ
		case "alt":
			c.Periods = alt[r.Intn(len(alt))]
		default:
			return "", bad
		}
		return num(c.Periods), nil
	case "continuous":
		c.Continuous = true
		return "continuous_1", nil
	case "drm":
		pk, ok := drmPkgs[p.C]
		if !ok {
			return "", bad
		}
		c.Drm = pk.name
		return "drm_" + pk.name, nil
	case "eccp":
		if p.C != "cenc" && p.C != "cbcs" {
			return "", bad
		}
		c.Eccp = p.C
		return "eccp_" + p.C, nil
	}
	return "", fmt.Errorf("unknown key %s", p.K)
}

// drmPkg is a package of the repository's test DRM configuration, read by the driver itself.
type drmPkg struct {
	name   string
	scheme string // commonEncryptionScheme of its CPIX content keys
}

var drmPkgs = map[string]drmPkg{}

var cpixSchemeRe = regexp.MustCompile(`commonEncryptionScheme="([a-z0-9]+)"`)

// loadDrmPkgs reads pkg/drm/testdata/drm_config_test.json: value class k1 / k2 = first / second package.
func loadDrmPkgs() (string, error) {
	dir := filepath.Join(srv.RepoRoot(), "pkg", "drm", "testdata")
	cfgFile := filepath.Join(dir, "drm_config_test.json")
	data, err := os.ReadFile(cfgFile)
	if err != nil {
		return "", err
	}
	var cfg struct {
		Packages []struct {
			Name     string `json:"name"`
			CpixFile string `json:"cpixFile"`
		} `json:"packages"`
	}
	if err := json.Unmarshal(data, &cfg); err != nil {
		return "", err
	}
	for i, p := range cfg.Packages {
		cp, err := os.ReadFile(filepath.Join(dir, p.CpixFile))
		if err != nil {
			return "", err
		}
		schemes := map[string]bool{}
		for _, m := range cpixSchemeRe.FindAllSubmatch(cp, -1) {
			schemes[string(m[1])] = true
		}
		if len(schemes) != 1 {
			return "", fmt.Errorf("CPIX %s: %d encryption schemes", p.CpixFile, len(schemes))
		}
		for sch := range schemes {
			drmPkgs[fmt.Sprintf("k%d", i+1)] = drmPkg{p.Name, sch}
		}
	}
	if len(drmPkgs) < 2 {
		return "", fmt.Errorf("%s: fewer than 2 packages", cfgFile)
	}
	return cfgFile, nil
}

func drmScheme(name string) string {
	for _, p := range drmPkgs {
		if p.name == name {
			return p.scheme
		}
	}
	return ""
}

func modePart(mode string) string {
	switch mode {
	case "time":
		return "segtimeline_1"
	case "tlnr":
		return "segtimelinenr_1"
	}
	return ""
}

// request is a concretised configuration.
type request struct {
	g      genCfg
	c      conc
	raws   []string // URL parts of g.Parts, in g.Parts order
	order  []int    // order in which the parts appear in the URL
	query  []string
	a      *vodAsset
}

// urlParts lists the path parts after the host, skipping the part of key `without` ("" = none).
func (q *request) urlParts(without string) []urlPart {
	ps := []urlPart{{"", "livesim2"}}
	if m := modePart(q.g.Mode); m != "" {
		ps = append(ps, urlPart{"", m})
	}
	for _, i := range q.order {
		if q.g.Parts[i].K == without {
			continue
		}
		ps = append(ps, urlPart{q.g.Parts[i].K, q.raws[i]})
	}
	for _, s := range strings.Split(q.a.path, "/") {
		ps = append(ps, urlPart{"", s})
	}
	return append(ps, urlPart{"", q.a.mpd})
}

func (q *request) url(without string, nowMS int64) string {
	var sb strings.Builder
	sb.WriteString(host)
	for _, p := range q.urlParts(without) {
		sb.WriteString("/" + p.Raw)
	}
	sb.WriteString("?nowMS=" + strconv.FormatInt(nowMS, 10))
	if without != "annexI" {
		for _, kv := range q.query {
			sb.WriteString("&" + kv)
		}
	}
	return sb.String()
}

func stripPer(fs []Fact, pers map[string]bool) []Fact {
	var out []Fact
	for _, f := range fs {
		if pers[f[0]] {
			g := f
			g[0] = ""
			out = append(out, g)
		}
	}
	return out
}

func periodsOf(fs []Fact) []string {
	seen := map[string]bool{}
	var out []string
	for _, f := range fs {
		if f[1] == "Period" && !seen[f[0]] {
			seen[f[0]] = true
			out = append(out, f[0])
		}
	}
	return out
}

// diffFor mirrors MpdSignal.DiffFor.
func diffFor(key string, a, b []Fact) (d []Fact, common int, modper bool) {
	if key != "periods" {
		// what is outside the Periods, and the Periods (by id) that both MPDs list
		both := map[string]bool{"": true}
		inB := map[string]bool{}
		for _, p := range periodsOf(b) {
			inB[p] = true
		}
		for _, p := range periodsOf(a) {
			if inB[p] {
				both[p] = true
			}
		}
		sel := func(fs []Fact) []Fact {
			var out []Fact
			for _, f := range fs {
				if both[f[0]] {
					out = append(out, f)
				}
			}
			return out
		}
		oa, ob, cm := Diff(sel(a), sel(b))
		return append(oa, ob...), cm, false
	}
	pb := periodsOf(b)
	bs := map[string]bool{"": true}
	if len(pb) > 0 {
		bs[pb[0]] = true
	}
	sb := stripPer(b, bs)
	set := map[Fact]bool{}
	for _, p := range periodsOf(a) {
		oa, ob, cm := Diff(stripPer(a, map[string]bool{"": true, p: true}), sb)
		common += cm
		for _, f := range append(oa, ob...) {
			set[f] = true
		}
	}
	for f := range set {
		d = append(d, f)
	}
	sortFacts(d)
	return d, common, true
}

// capPerClass keeps at most n facts per (scope, cls): X01.indep depends on scope and cls of a differing fact only
// (MpdSignalOps.Match), and a long SegmentTimeline differs in thousands of S elements.
func capPerClass(fs []Fact, n int) []Fact {
	cnt := map[[2]string]int{}
	var out []Fact
	for _, f := range fs {
		k := [2]string{f[1], f[2]}
		if cnt[k] < n {
			out = append(out, f)
		}
		cnt[k]++
	}
	return out
}

func copyFile(src, dst string) error {
	data, err := os.ReadFile(src)
	if err != nil {
		return err
	}
	if err := os.MkdirAll(filepath.Dir(dst), 0o755); err != nil {
		return err
	}
	return os.WriteFile(dst, data, 0o644)
}

// makeUtcVod writes the asset x01vod: the media of testpic_2s with a VoD MPD that carries two UTCTiming elements, a
// suggestedPresentationDelay-free header and no ids.
func makeUtcVod(root string) error {
	src := filepath.Join(srv.BundledAssets(), "testpic_2s")
	dst := filepath.Join(root, "x01vod")
	for _, rep := range []string{"V300", "A48"} {
		ents, err := os.ReadDir(filepath.Join(src, rep))
		if err != nil {
			return err
		}
		for _, e := range ents {
			if err := copyFile(filepath.Join(src, rep, e.Name()), filepath.Join(dst, rep, e.Name())); err != nil {
				return err
			}
		}
	}
	mpd := `<?xml version="1.0" encoding="utf-8"?>
<MPD xmlns="urn:mpeg:dash:schema:mpd:2011" profiles="urn:mpeg:dash:profile:isoff-live:2011" maxSegmentDuration="PT2S" minBufferTime="PT2S" type="static" mediaPresentationDuration="PT8S">
   <ProgramInformation>
      <Title>X01: testpic_2s media, VoD MPD with UTCTiming elements</Title>
   </ProgramInformation>
   <Period id="vod" start="PT0S">
      <AdaptationSet contentType="video" mimeType="video/mp4" segmentAlignment="true" startWithSAP="1" par="16:9">
         <Role schemeIdUri="urn:mpeg:dash:role:2011" value="main"/>
         <SegmentTemplate startNumber="1" initialization="$RepresentationID$/init.mp4" duration="2" media="$RepresentationID$/$Number$.m4s"/>
         <Representation id="V300" codecs="avc1.64001e" bandwidth="300000" width="640" height="360" frameRate="60/2" sar="1:1"/>
      </AdaptationSet>
      <AdaptationSet contentType="audio" mimeType="audio/mp4" lang="en" segmentAlignment="true" startWithSAP="1">
         <Role schemeIdUri="urn:mpeg:dash:role:2011" value="main"/>
         <SegmentTemplate startNumber="1" initialization="$RepresentationID$/init.mp4" duration="2" media="$RepresentationID$/$Number$.m4s"/>
         <Representation id="A48" codecs="mp4a.40.2" bandwidth="48000" audioSamplingRate="48000">
            <AudioChannelConfiguration schemeIdUri="urn:mpeg:dash:23003:3:audio_channel_configuration:2011" value="2"/>
         </Representation>
      </AdaptationSet>
   </Period>
   <UTCTiming schemeIdUri="urn:mpeg:dash:utc:http-head:2014" value="https://vod.x01.test/time"/>
   <UTCTiming schemeIdUri="urn:mpeg:dash:utc:sntp:2014" value="sntp.vod.x01.test"/>
</MPD>
`
	return os.WriteFile(filepath.Join(dst, "Manifest_utc.mpd"), []byte(mpd), 0o644)
}

func loadVod(root string, a *vodAsset) error {
	data, err := os.ReadFile(filepath.Join(root, a.path, a.mpd))
	if err != nil {
		return err
	}
	if a.vas, err = VodASKeys(data); err != nil {
		return err
	}
	a.keys = map[string]bool{}
	for _, v := range a.vas {
		a.keys[v[0]] = true
	}
	fs, err := Project(data, nil)
	if err != nil {
		return err
	}
	utc := map[string]*[2]string{}
	var order []string
	for _, f := range fs {
		if f[1] != "MPD" {
			continue
		}
		switch f[2] {
		case "@id":
			a.vodID = f[5]
		case "UTCTiming@schemeIdUri", "UTCTiming@value", "UTCTiming@value!raw":
			u := utc[f[4]]
			if u == nil {
				u = &[2]string{}
				utc[f[4]] = u
				order = append(order, f[4])
			}
			if f[2] == "UTCTiming@schemeIdUri" {
				u[0] = f[5]
			} else {
				u[1] = f[5]
			}
		case "BaseURL#text", "Location#text", "PatchLocation#text":
			return fmt.Errorf("VoD MPD %s/%s has %s (README: MPD restrictions)", a.path, a.mpd, f[2])
		}
	}
	a.vodUtc = [][2]string{}
	for _, k := range order {
		a.vodUtc = append(a.vodUtc, *utc[k])
	}
	return nil
}

func Main(args []string) error {
	fs := flag.NewFlagSet("x01", flag.ExitOnError)
	out := fs.String("out", "x01.ndjson", "trace output")
	work := fs.String("work", "", "scratch directory for the VoD root")
	seed := fs.Int64("seed", 1, "seed")
	gen := fs.String("gen", "", "GEN lines of MpdSignal.tla (jsonl)")
	sigcls := fs.String("sigcls", "", "JSON array of the fact classes the value clauses read")
	instants := fs.Int("instants", 2, "request instants per configuration")
	probe := fs.String("probe", "", "semicolon-separated URLs: print MPD and facts")
	workers := fs.Int("workers", 4, "goroutines fetching MPDs")
	_ = fs.Parse(args)
	if *work == "" {
		return fmt.Errorf("-work required")
	}
	vod := filepath.Join(*work, "vod")
	_ = os.RemoveAll(vod)
	if err := makeUtcVod(vod); err != nil {
		return err
	}
	env, err := tl.Setup(vod, false)
	if err != nil {
		return err
	}
	drmCfgFile, err := loadDrmPkgs()
	if err != nil {
		return err
	}
	drmSrv, err := srv.New(vod, func(c *app.ServerConfig) { c.DrmCfgFile = drmCfgFile })
	if err != nil {
		return fmt.Errorf("server with DRM configuration: %w", err)
	}
	if *probe != "" {
		for _, u := range strings.Split(*probe, ";") {
			r := env.S.Get(u)
			fmt.Printf("=== %s -> %d\n%s\n", u, r.Status, r.Body)
			if r.Status == 200 {
				f, err := Project(r.Body, nil)
				fmt.Println(err)
				for _, x := range f {
					fmt.Printf("%q\n", x)
				}
			}
		}
		return nil
	}
	// ---- assets
	segRange := func(name string) (int64, int64, error) {
		for _, a := range env.Assets {
			if a.Name == name {
				lo, hi := int64(1<<62), int64(0)
				for _, d := range a.Video.Dur {
					if ms := d * 1000 / a.Video.TS; ms < lo {
						lo = ms
					}
					if ms := (d*1000 + a.Video.TS - 1) / a.Video.TS; ms > hi {
						hi = ms
					}
				}
				return lo, hi, nil
			}
		}
		return 0, 0, fmt.Errorf("asset %s not set up", name)
	}
	assets := map[string]*vodAsset{
		"plain":  {class: "plain", path: "testpic_2s", mpd: "Manifest.mpd"},
		"thumbs": {class: "thumbs", path: "testpic_2s", mpd: "Manifest_thumbs.mpd"},
		"imsc1":  {class: "imsc1", path: "testpic_2s", mpd: "Manifest_imsc1.mpd"},
		"s8":     {class: "s8", path: "testpic_8s", mpd: "Manifest.mpd"},
		"utcvod": {class: "utcvod", path: "x01vod", mpd: "Manifest_utc.mpd"},
		"irr":    {class: "irr", path: "g_irr90k"},
	}
	for _, a := range assets {
		truth := a.path
		if a.class == "utcvod" {
			truth = "testpic_2s"
		}
		if a.segMin, a.segMax, err = segRange(truth); err != nil {
			return err
		}
		if a.class == "irr" {
			for _, x := range env.Assets {
				if x.Name == a.path {
					a.mpd = x.MPD
				}
			}
		}
		if err := loadVod(vod, a); err != nil {
			return err
		}
	}
	// ---- inputs
	keep := map[string]bool{}
	if *sigcls != "" {
		data, err := os.ReadFile(*sigcls)
		if err != nil {
			return err
		}
		var cls []string
		if err := json.Unmarshal(data, &cls); err != nil {
			return err
		}
		for _, c := range cls {
			keep[c] = true
		}
	}
	if len(keep) == 0 {
		return fmt.Errorf("-sigcls required")
	}
	var gens []genCfg
	{
		f, err := os.Open(*gen)
		if err != nil {
			return err
		}
		sc := bufio.NewScanner(f)
		sc.Buffer(make([]byte, 1<<20), 1<<24)
		for sc.Scan() {
			if strings.TrimSpace(sc.Text()) == "" {
				continue
			}
			var g genCfg
			if err := json.Unmarshal(sc.Bytes(), &g); err != nil {
				return fmt.Errorf("gen line: %w", err)
			}
			gens = append(gens, g)
		}
		f.Close()
	}
	keyOf := func(g genCfg) string {
		s := g.Asset + "|" + g.Mode
		for _, p := range g.Parts {
			s += "|" + p.K + ":" + p.C
		}
		return s
	}
	sort.Slice(gens, func(i, j int) bool {
		if len(gens[i].Parts) != len(gens[j].Parts) {
			return len(gens[i].Parts) < len(gens[j].Parts)
		}
		return keyOf(gens[i]) < keyOf(gens[j])
	})
	// ---- instants: one early (days after the epoch), the others 2022-2026; seeded ms remainders
	rng := rand.New(rand.NewSource(*seed))
	var nows []int64
	nows = append(nows, 1_200_000_000+rng.Int63n(700_000_000))
	for i := 1; i < *instants; i++ {
		nows = append(nows, 1_650_000_000_000+rng.Int63n(130_000_000_000))
	}
	if *instants >= 3 {
		nows[2] -= nows[2] % 1000 // a whole second
	}
	t1s := nows[0] / 1000

	w, err := tr.New(*out)
	if err != nil {
		return err
	}
	type fetched struct {
		st    int
		facts []Fact
		err   string
	}
	cache := map[string]*fetched{}
	nreq := 0
	fetch := func(u string, a *vodAsset) *fetched {
		if f, ok := cache[u]; ok {
			return f
		}
		panic("x01: URL not prefetched: " + u)
	}
	get := func(u string, a *vodAsset, drm bool) *fetched {
		s := env.S
		if drm {
			s = drmSrv // every request of a configuration with drm_ (also the one without the key) goes to the DRM-configured server
		}
		r := s.Get(u)
		f := &fetched{st: r.Status}
		if r.Status == 200 {
			facts, err := Project(r.Body, a.keys)
			if err != nil {
				f.err = err.Error()
			}
			f.facts = facts
		}
		return f
	}
	factsJSON := func(fs []Fact) [][6]string {
		out := make([][6]string, 0, len(fs))
		for _, f := range fs {
			out = append(out, [6]string(f))
		}
		return out
	}
	distinct := map[string]bool{}
	samples := []any{}
	scen, nsig, nind, nmulti := 0, 0, 0, 0
	keysSeen := map[string]int{}
	statuses := map[string]int{}
	reqs := make([]*request, len(gens))
	for id, g := range gens {
		a := assets[g.Asset]
		if a == nil {
			return fmt.Errorf("unknown asset class %q", g.Asset)
		}
		h := fnv.New64a()
		h.Write([]byte(keyOf(g)))
		r := rand.New(rand.NewSource(*seed*1_000_003 + int64(h.Sum64()>>1)))
		q := &request{g: g, c: noCfg(), a: a}
		for _, p := range g.Parts {
			raw, err := concretise(r, p, a, t1s, &q.c, &q.query)
			if err != nil {
				return err
			}
			q.raws = append(q.raws, raw)
			keysSeen[p.K]++
		}
		q.order = r.Perm(len(g.Parts))
		distinct[keyOf(g)] = true
		reqs[id] = q
	}
	// every MPD that will be needed (configuration, and configuration without each given key), fetched once, on 4 workers
	{
		type job struct {
			u   string
			a   *vodAsset
			drm bool
		}
		var jobs []job
		seen := map[string]bool{}
		for _, q := range reqs {
			for _, now := range nows {
				us := []string{q.url("", now)}
				for _, p := range q.g.Parts {
					us = append(us, q.url(p.K, now))
				}
				for _, u := range us {
					if q.c.Drm != "" {
						u = "drm!" + u
					}
					if !seen[u] {
						seen[u] = true
						jobs = append(jobs, job{u, q.a, q.c.Drm != ""})
					}
				}
			}
		}
		res := make([]*fetched, len(jobs))
		var wg sync.WaitGroup
		for g := 0; g < *workers; g++ {
			wg.Add(1)
			go func(g int) {
				defer wg.Done()
				for i := g; i < len(jobs); i += *workers {
					res[i] = get(strings.TrimPrefix(jobs[i].u, "drm!"), jobs[i].a, jobs[i].drm)
				}
			}(g)
		}
		wg.Wait()
		for i, j := range jobs {
			cache[j.u] = res[i]
		}
		nreq = len(jobs)
	}
	for id, q := range reqs {
		g, a := q.g, q.a
		w.Emit(tr.E{"ev": "hdr", "id": id, "asset": g.Asset, "amp": a.path + "/" + a.mpd, "mode": g.Mode, "parts": g.Parts, "c": q.c,
			"e": tr.E{"mode": g.Mode, "segMin": a.segMin, "segMax": a.segMax, "vas": a.vas, "vodId": a.vodID, "vodUtc": a.vodUtc,
				"host": host, "url": q.urlParts(""), "drmScheme": drmScheme(q.c.Drm)}})
		for ti, now := range nows {
			scen++
			u := q.url("", now)
			pre := ""
			if q.c.Drm != "" {
				pre = "drm!"
			}
			f := fetch(pre+u, a)
			statuses[strconv.Itoa(f.st)]++
			var sig []Fact
			for _, x := range f.facts {
				if keep[x[2]] {
					sig = append(sig, x)
				}
			}
			if len(periodsOf(f.facts)) > 1 {
				nmulti++
			}
			w.Emit(tr.E{"ev": "sig", "id": id, "t": ti + 1, "now": []int64{now / 1000, now % 1000}, "st": f.st, "perr": f.err,
				"nf": len(f.facts), "facts": factsJSON(sig), "url": u})
			nsig++
			if len(samples) < 8 && (id%97 == 0) && ti == 0 {
				samples = append(samples, map[string]any{"url": u, "status": f.st, "facts": len(f.facts)})
			}
			if f.st != 200 || f.err != "" {
				continue
			}
			for _, p := range g.Parts {
				bu := q.url(p.K, now)
				b := fetch(pre+bu, a)
				e := tr.E{"ev": "ind", "id": id, "t": ti + 1, "key": p.K, "st": b.st, "perr": b.err, "burl": bu}
				if b.st == 200 && b.err == "" {
					d, common, modper := diffFor(p.K, f.facts, b.facts)
					e["diff"], e["ndiff"], e["common"], e["modper"] = factsJSON(capPerClass(d, 2)), len(d), common, modper
				} else {
					e["diff"], e["ndiff"], e["common"], e["modper"] = [][6]string{}, 0, 0, false
				}
				w.Emit(e)
				nind++
			}
		}
	}
	if err := w.Close(); err != nil {
		return err
	}
	tr.PrintStats(map[string]any{"scenarios": scen, "events": w.N, "distinct": len(distinct), "samples": samples, "configs": len(gens),
		"sig": nsig, "ind": nind, "requests": nreq, "multi_period_mpds": nmulti, "keys": keysSeen, "statuses": statuses,
		"instants": nows})
	return nil
}

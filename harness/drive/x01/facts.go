package x01

// Independent, generic projection of an MPD document into a set of FACTS (encoding/xml token walk; nothing from
// livesim2 or the dash-mpd library).  Every attribute and every non-blank text node of the document becomes one fact
//
//	[per, scope, cls, as, inst, v]
//
//	per    "" for what is outside any Period, else Period@id ("#<index>" when the Period has no id)
//	scope  "MPD" | "Period" | "AS:<contentType>" for an AdaptationSet that the VoD MPD has (matched by the id of its
//	       first Representation) | "AS+:<codecs>" for an AdaptationSet that the VoD MPD does not have
//	cls    the element path below the scope root without positions, then "@attr" or "#text"; the generic descriptor
//	       elements (EssentialProperty, SupplementalProperty, InbandEventStream) carry their schemeIdUri in braces
//	as     the AdaptationSet key (id of its first Representation, "#<index>" without one); "" outside AdaptationSets
//	inst   which instance: the path below the scope root with positions "Tag[i]" (i counts siblings of the same class
//	       step; ContentProtection carries its scheme in the instance name: "ContentProtection{scheme}[i]")
//	v      the value in canonical form: xs:duration attributes of MPD and Period as whole milliseconds, xs:dateTime
//	       attributes (and the value of a urn:mpeg:dash:utc:direct:2014 UTCTiming) as "<seconds>.<mmm>",
//	       availabilityTimeOffset as milliseconds or "INF", PatchLocation@ttl as a shortest decimal; a value that
//	       cannot be read that way is reported verbatim under the class "<cls>!raw"; everything else verbatim.
//
// Elements that have neither attributes nor text nor children give one fact with cls "...#el".
// Synthetic facts (cls starting with "#"): per AdaptationSet "#ct" (content type) and "#codecs"; per AdaptationSet
// that the VoD MPD has "#pos" (position among those); per Period "#pos"; for the MPD "#periods" (ids, space-joined).
// Namespace declarations are dropped, other attributes and elements are named by their local name.

import (
	"bytes"
	"encoding/xml"
	"fmt"
	"io"
	"regexp"
	"sort"
	"strconv"
	"strings"
	"time"
)

type Fact [6]string

func (f Fact) Per() string   { return f[0] }
func (f Fact) Scope() string { return f[1] }
func (f Fact) Cls() string   { return f[2] }
func (f Fact) AS() string    { return f[3] }
func (f Fact) Inst() string  { return f[4] }
func (f Fact) V() string     { return f[5] }

type node struct {
	tag   string
	attrs [][2]string
	text  string
	kids  []*node
}

func parseTree(data []byte) (*node, error) {
	d := xml.NewDecoder(bytes.NewReader(data))
	var stack []*node
	var root *node
	for {
		tok, err := d.Token()
		if err == io.EOF {
			break
		}
		if err != nil {
			return nil, err
		}
		switch t := tok.(type) {
		case xml.StartElement:
			n := &node{tag: t.Name.Local}
			for _, a := range t.Attr {
				if a.Name.Space == "xmlns" || (a.Name.Space == "" && a.Name.Local == "xmlns") {
					continue
				}
				n.attrs = append(n.attrs, [2]string{a.Name.Local, a.Value})
			}
			if len(stack) > 0 {
				p := stack[len(stack)-1]
				p.kids = append(p.kids, n)
			} else {
				if root != nil {
					return nil, fmt.Errorf("two root elements")
				}
				root = n
			}
			stack = append(stack, n)
		case xml.EndElement:
			if len(stack) == 0 {
				return nil, fmt.Errorf("unbalanced end element")
			}
			stack = stack[:len(stack)-1]
		case xml.CharData:
			if len(stack) > 0 {
				stack[len(stack)-1].text += string(t)
			}
		}
	}
	if root == nil {
		return nil, fmt.Errorf("no root element")
	}
	return root, nil
}

func (n *node) attr(name string) (string, bool) {
	for _, a := range n.attrs {
		if a[0] == name {
			return a[1], true
		}
	}
	return "", false
}

func (n *node) first(tag string) *node {
	for _, k := range n.kids {
		if k.tag == tag {
			return k
		}
	}
	return nil
}

var genericDesc = map[string]bool{"EssentialProperty": true, "SupplementalProperty": true, "InbandEventStream": true}

var durAttrs = map[string]bool{"timeShiftBufferDepth": true, "minimumUpdatePeriod": true, "suggestedPresentationDelay": true,
	"mediaPresentationDuration": true, "maxSegmentDuration": true, "minBufferTime": true, "maxSubsegmentDuration": true}
var dateAttrs = map[string]bool{"availabilityStartTime": true, "publishTime": true, "availabilityEndTime": true, "wallClockTime": true}

var durRe = regexp.MustCompile(`^P(?:(\d+)Y)?(?:(\d+)M)?(?:(\d+)D)?(?:T(?:(\d+)H)?(?:(\d+)M)?(?:(\d+)(?:\.(\d{1,9}))?S)?)?$`)

// durMS: xs:duration -> whole ms (years/months not accepted).
func durMS(s string) (int64, bool) {
	m := durRe.FindStringSubmatch(s)
	if m == nil || s == "P" || strings.HasSuffix(s, "T") || m[1] != "" || m[2] != "" {
		return 0, false
	}
	at := func(i int) int64 {
		if m[i] == "" {
			return 0
		}
		v, _ := strconv.ParseInt(m[i], 10, 64)
		return v
	}
	ms := (((at(3)*24+at(4))*60+at(5))*60 + at(6)) * 1000
	if f := m[7]; f != "" {
		f = (f + "000000000")[:9]
		ns, _ := strconv.ParseInt(f, 10, 64)
		if ns%1_000_000 != 0 {
			return 0, false
		}
		ms += ns / 1_000_000
	}
	return ms, true
}

func dateCanon(s string) (string, bool) {
	for _, lay := range []string{"2006-01-02T15:04:05.999999999Z07:00", "2006-01-02T15:04:05Z07:00"} {
		if t, err := time.Parse(lay, s); err == nil {
			if t.Nanosecond()%1_000_000 != 0 {
				return "", false
			}
			ms := t.UnixMilli()
			if ms < 0 {
				return "", false
			}
			return fmt.Sprintf("%d.%03d", ms/1000, ms%1000), true
		}
	}
	return "", false
}

func canon(n *node, attr, v string) (string, bool) {
	tag := n.tag
	switch {
	case durAttrs[attr] || ((tag == "Period") && (attr == "start" || attr == "duration")):
		if ms, ok := durMS(v); ok {
			return strconv.FormatInt(ms, 10), true
		}
		return v, false
	case dateAttrs[attr]:
		return dateOr(v)
	case tag == "UTCTiming" && attr == "value":
		if sch, _ := n.attr("schemeIdUri"); sch == "urn:mpeg:dash:utc:direct:2014" {
			return dateOr(v)
		}
		return v, true
	case attr == "availabilityTimeOffset":
		if v == "INF" {
			return "INF", true
		}
		f, err := strconv.ParseFloat(v, 64)
		if err != nil || f < 0 || f > 1e6 {
			return v, false
		}
		ms := int64(f*1000 + 0.5)
		if diff := f*1000 - float64(ms); diff > 1e-6 || diff < -1e-6 {
			return v, false
		}
		return strconv.FormatInt(ms, 10), true
	case tag == "PatchLocation" && attr == "ttl":
		f, err := strconv.ParseFloat(v, 64)
		if err != nil {
			return v, false
		}
		return strconv.FormatFloat(f, 'f', -1, 64), true
	}
	return v, true
}

func dateOr(v string) (string, bool) {
	if c, ok := dateCanon(v); ok {
		return c, true
	}
	return v, false
}

// ContentType of an AdaptationSet by the MPD's own statements: @contentType, else @mimeType (AdaptationSet or first
// Representation), else the codecs.
func contentType(as *node) string {
	if v, ok := as.attr("contentType"); ok && v != "" {
		return v
	}
	mt, _ := as.attr("mimeType")
	co, _ := as.attr("codecs")
	if r := as.first("Representation"); r != nil {
		if mt == "" {
			mt, _ = r.attr("mimeType")
		}
		if co == "" {
			co, _ = r.attr("codecs")
		}
	}
	switch {
	case strings.HasPrefix(mt, "video/"):
		return "video"
	case strings.HasPrefix(mt, "audio/"):
		return "audio"
	case strings.HasPrefix(mt, "image/"):
		return "image"
	case mt == "application/mp4" || strings.HasPrefix(mt, "text/") || mt == "application/ttml+xml":
		return "text"
	}
	for _, p := range []string{"avc", "hev", "hvc"} {
		if strings.HasPrefix(co, p) {
			return "video"
		}
	}
	for _, p := range []string{"mp4a", "ac-3", "ec-3"} {
		if strings.HasPrefix(co, p) {
			return "audio"
		}
	}
	for _, p := range []string{"stpp", "wvtt"} {
		if strings.HasPrefix(co, p) {
			return "text"
		}
	}
	return "other"
}

func asCodecs(as *node) string {
	if v, ok := as.attr("codecs"); ok && v != "" {
		return v
	}
	if r := as.first("Representation"); r != nil {
		if v, ok := r.attr("codecs"); ok {
			return v
		}
	}
	return ""
}

func asKey(as *node, idx int) string {
	if r := as.first("Representation"); r != nil {
		if v, ok := r.attr("id"); ok && v != "" {
			return v
		}
	}
	return fmt.Sprintf("#%d", idx)
}

type emitter struct {
	out []Fact
}

// walk emits the facts of the children / attributes / text of n. clsPrefix and instPrefix are the paths of n itself
// relative to the scope root ("" for the scope root).
func (e *emitter) walk(per, scope, ask string, n *node, clsPrefix, instPrefix string, skip map[string]bool) {
	for _, a := range n.attrs {
		v, ok := canon(n, a[0], a[1])
		cls := clsPrefix + "@" + a[0]
		if !ok {
			cls += "!raw"
		}
		e.out = append(e.out, Fact{per, scope, cls, ask, instPrefix, v})
	}
	if t := strings.TrimSpace(n.text); t != "" {
		e.out = append(e.out, Fact{per, scope, clsPrefix + "#text", ask, instPrefix, t})
	}
	if len(n.attrs) == 0 && strings.TrimSpace(n.text) == "" && len(n.kids) == 0 && clsPrefix != "" {
		e.out = append(e.out, Fact{per, scope, clsPrefix + "#el", ask, instPrefix, ""})
	}
	count := map[string]int{}
	for _, k := range n.kids {
		if skip != nil && skip[k.tag] {
			continue
		}
		step, istep := k.tag, k.tag
		if sch, ok := k.attr("schemeIdUri"); ok {
			if genericDesc[k.tag] {
				step = k.tag + "{" + sch + "}"
				istep = step
			} else if k.tag == "ContentProtection" {
				istep = k.tag + "{" + sch + "}"
			}
		}
		count[istep]++
		cp, ip := step, fmt.Sprintf("%s[%d]", istep, count[istep])
		if clsPrefix != "" {
			cp = clsPrefix + "/" + step
		}
		if instPrefix != "" {
			ip = instPrefix + "/" + ip
		}
		e.walk(per, scope, ask, k, cp, ip, nil)
	}
}

// Project returns the facts of an MPD document. vodKeys: AdaptationSet keys of the VoD MPD (nil: every AdaptationSet
// counts as one of the VoD MPD, used for the VoD MPD itself).
func Project(data []byte, vodKeys map[string]bool) ([]Fact, error) {
	root, err := parseTree(data)
	if err != nil {
		return nil, err
	}
	if root.tag != "MPD" {
		return nil, fmt.Errorf("root element %q", root.tag)
	}
	e := &emitter{}
	e.walk("", "MPD", "", root, "", "", map[string]bool{"Period": true})
	pidx := 0
	var perIDs []string
	for _, p := range root.kids {
		if p.tag != "Period" {
			continue
		}
		pidx++
		per, ok := p.attr("id")
		if !ok || per == "" {
			per = fmt.Sprintf("#%d", pidx)
		}
		perIDs = append(perIDs, per)
		e.walk(per, "Period", "", p, "", "", map[string]bool{"AdaptationSet": true})
		e.out = append(e.out, Fact{per, "Period", "#pos", "", "", strconv.Itoa(pidx)})
		aidx, vidx := 0, 0
		for _, as := range p.kids {
			if as.tag != "AdaptationSet" {
				continue
			}
			aidx++
			key := asKey(as, aidx)
			ct := contentType(as)
			scope := "AS:" + ct
			if vodKeys != nil && !vodKeys[key] {
				co := asCodecs(as)
				switch {
				case strings.HasPrefix(co, "stpp"):
					scope = "AS+:stpp"
				case strings.HasPrefix(co, "wvtt"):
					scope = "AS+:wvtt"
				default:
					scope = "AS+:other"
				}
			}
			switch scope {
			case "AS:video", "AS:audio", "AS:text", "AS:image", "AS+:stpp", "AS+:wvtt", "AS+:other":
			default:
				scope = "AS:other"
			}
			// synthetic facts: what the AdaptationSet is (order among the AdaptationSets of its Period included)
			e.out = append(e.out, Fact{per, scope, "#ct", key, "", ct})
			e.out = append(e.out, Fact{per, scope, "#codecs", key, "", asCodecs(as)})
			if strings.HasPrefix(scope, "AS:") {
				vidx++
				e.out = append(e.out, Fact{per, scope, "#pos", key, "", strconv.Itoa(vidx)})
			}
			e.walk(per, scope, key, as, "", "", nil)
		}
	}
	e.out = append(e.out, Fact{"", "MPD", "#periods", "", "", strings.Join(perIDs, " ")})
	return e.out, nil
}

// VodASKeys lists (key, contentType) of the AdaptationSets of the first Period of a VoD MPD.
func VodASKeys(data []byte) ([][2]string, error) {
	root, err := parseTree(data)
	if err != nil {
		return nil, err
	}
	p := root.first("Period")
	if p == nil {
		return nil, fmt.Errorf("no Period")
	}
	var out [][2]string
	idx := 0
	for _, as := range p.kids {
		if as.tag != "AdaptationSet" {
			continue
		}
		idx++
		ct := contentType(as)
		switch ct {
		case "video", "audio", "text", "image":
		default:
			ct = "other"
		}
		out = append(out, [2]string{asKey(as, idx), ct})
	}
	return out, nil
}

func sortFacts(fs []Fact) {
	sort.Slice(fs, func(i, j int) bool {
		for k := 0; k < 6; k++ {
			if fs[i][k] != fs[j][k] {
				return fs[i][k] < fs[j][k]
			}
		}
		return false
	})
}

// Diff returns the facts only in a and only in b (as sets).
func Diff(a, b []Fact) (onlyA, onlyB []Fact, common int) {
	ma := map[Fact]bool{}
	for _, f := range a {
		ma[f] = true
	}
	mb := map[Fact]bool{}
	for _, f := range b {
		mb[f] = true
	}
	for f := range ma {
		if mb[f] {
			common++
		} else {
			onlyA = append(onlyA, f)
		}
	}
	for f := range mb {
		if !ma[f] {
			onlyB = append(onlyB, f)
		}
	}
	sortFacts(onlyA)
	sortFacts(onlyB)
	return
}

// Package tl holds what the timeline-family drivers (C01, C02, C04, C05, ...) share: asset set-up
// (bundled + generated layouts with ground truth), scenario headers and URL construction.
package tl

import (
	"fmt"
	"math/big"
	"os"
	"path/filepath"
	"strings"

	"verifharness/assetgen"
	"verifharness/project"
	"verifharness/srv"
	"verifharness/tr"
)

// Asset is one VoD asset with the ground truth of the representations the drivers use.
type Asset struct {
	Name    string // asset path under the VoD root
	MPD     string
	LoopMS  int64
	Video   *project.RepTruth
	Audio   *project.RepTruth
	Text    *project.RepTruth   // stpp text profile (bundled testpic_2s only)
	Texts   []*project.RepTruth // all stpp representations (text and image profile)
	TextMPD string
	Thumbs  *ThumbTruth
	Gen     bool
}

type ThumbTruth struct {
	ID     string
	N      int
	DurS   int64 // seconds per thumbnail (SegmentTemplate@duration with timescale 1)
	BodDig []string
	Pat    string
}

// Env is a running server over a VoD root that contains the bundled assets (symlinked) and the
// generated layouts.
type Env struct {
	Root   string
	S      *srv.S
	Assets []*Asset
}

// copyBundled copies the repository's test assets into the VoD root (fs.WalkDir does not follow symlinks).
func copyBundled(root string) error {
	src := srv.BundledAssets()
	return filepath.Walk(src, func(p string, info os.FileInfo, err error) error {
		if err != nil {
			return err
		}
		rel, _ := filepath.Rel(src, p)
		if rel == "WAVE" { // large; not needed by these drivers
			return filepath.SkipDir
		}
		dst := filepath.Join(root, rel)
		if info.IsDir() {
			return os.MkdirAll(dst, 0o755)
		}
		data, err := os.ReadFile(p)
		if err != nil {
			return err
		}
		return os.WriteFile(dst, data, 0o644)
	})
}

// Setup builds the VoD root under dir (must be empty or absent), starts the server.
func Setup(dir string, thorough bool) (*Env, error) {
	if err := os.MkdirAll(dir, 0o755); err != nil {
		return nil, err
	}
	if err := copyBundled(dir); err != nil {
		return nil, err
	}
	env := &Env{Root: dir}
	src := filepath.Join(srv.BundledAssets(), "testpic_2s")
	for _, lay := range assetgen.Layouts(thorough) {
		t, err := assetgen.Generate(dir, src, lay)
		if err != nil {
			return nil, fmt.Errorf("generate %s: %w", lay.Name, err)
		}
		env.Assets = append(env.Assets, &Asset{Name: t.Name, MPD: t.MPD, LoopMS: t.LoopMS, Video: t.Video, Audio: t.Audio, Gen: true})
	}
	// bundled assets: ground truth by independent parse of the files
	for _, b := range []struct{ name, mpd string }{{"testpic_2s", "Manifest_thumbs.mpd"}, {"testpic_8s", "Manifest.mpd"}, {"testpic_6s", "Manifest.mpd"}} {
		ad := filepath.Join(srv.BundledAssets(), b.name)
		v, err := project.LoadVodRep(ad, "V300", "video", "V300/init.mp4", "V300/$Number$.m4s", 1)
		if err != nil {
			return nil, err
		}
		au, err := project.LoadVodRep(ad, "A48", "audio", "A48/init.mp4", "A48/$Number$.m4s", 1)
		if err != nil {
			return nil, err
		}
		a := &Asset{Name: b.name, MPD: b.mpd, Video: v, Audio: au}
		if (v.L*1000)%v.TS != 0 {
			return nil, fmt.Errorf("bundled asset %s: loop not whole ms", b.name)
		}
		a.LoopMS = v.L * 1000 / v.TS
		if b.name == "testpic_2s" {
			tx, err := project.LoadVodRep(ad, "imsc1_txt_sv", "text", "imsc1_txt_sv/init.mp4", "imsc1_txt_sv/$Number$.m4s", 1)
			if err != nil {
				return nil, err
			}
			a.Text = tx
			a.Texts = append(a.Texts, tx)
			a.TextMPD = "Manifest_imsc1.mpd"
			if ti, err := project.LoadVodRep(ad, "imsc1_img_en", "text", "imsc1_img_en/init.mp4", "imsc1_img_en/$Number$.m4s", 1); err == nil {
				a.Texts = append(a.Texts, ti)
			} else {
				return nil, err
			}
			th := &ThumbTruth{ID: "thumbs", DurS: 2, Pat: "thumbs/$Number$.jpg"}
			for nr := 1; ; nr++ {
				d, err := os.ReadFile(filepath.Join(ad, "thumbs", fmt.Sprintf("%d.jpg", nr)))
				if err != nil {
					break
				}
				th.BodDig = append(th.BodDig, project.Digest(d))
			}
			th.N = len(th.BodDig)
			a.Thumbs = th
		}
		env.Assets = append(env.Assets, a)
	}
	// bbb_hevc_ac3_8s: HEVC + AC-3 (1536-sample frames), file names video_<n>.m4s / audio_<n>.m4s, rep ids "1" / "2"
	{
		ad := filepath.Join(srv.BundledAssets(), "bbb_hevc_ac3_8s")
		v, err := project.LoadVodRep(ad, "1", "video", "video_init.mp4", "video_$Number$.m4s", 1)
		if err != nil {
			return nil, err
		}
		au, err := project.LoadVodRep(ad, "2", "audio", "audio_init.mp4", "audio_$Number$.m4s", 1)
		if err != nil {
			return nil, err
		}
		env.Assets = append(env.Assets, &Asset{Name: "bbb_hevc_ac3_8s", MPD: "manifest.mpd", LoopMS: v.L * 1000 / v.TS, Video: v, Audio: au})
	}
	// testpic_alt_seg_dur_stl: $Time$-addressed VoD with alternating 4 s / 8 s segments
	{
		ad := filepath.Join(srv.BundledAssets(), "testpic_alt_seg_dur_stl")
		md, err := os.ReadFile(filepath.Join(ad, "Manifest.mpd"))
		if err != nil {
			return nil, err
		}
		m, err := project.ParseMPD(md)
		if err != nil {
			return nil, err
		}
		times := func(ct string) []int64 {
			var out []int64
			as := m.FindAS(0, ct, "")
			if as == nil || as.SegmentTemplate == nil || as.SegmentTemplate.Timeline == nil {
				return nil
			}
			var t int64
			for _, s := range as.SegmentTemplate.Timeline.S {
				if s.T != nil {
					t = int64(*s.T)
				}
				for x := 0; x <= s.R; x++ {
					out = append(out, t)
					t += int64(s.D)
				}
			}
			return out
		}
		v, err := project.LoadVodRepTime(ad, "V300", "video", "V300/init.mp4", "V300/$Time$.m4s", times("video"))
		if err != nil {
			return nil, err
		}
		au, err := project.LoadVodRepTime(ad, "A48", "audio", "A48/init.mp4", "A48/$Time$.m4s", times("audio"))
		if err != nil {
			return nil, err
		}
		env.Assets = append(env.Assets, &Asset{Name: "testpic_alt_seg_dur_stl", MPD: "Manifest.mpd", LoopMS: v.L * 1000 / v.TS, Video: v, Audio: au})
	}
	s, err := srv.New(dir, nil)
	if err != nil {
		return nil, err
	}
	env.S = s
	return env, nil
}

// Cfg is the URL configuration of a scenario.
type Cfg struct {
	Mode  string // "number" | "time" | "tlnr"
	SNR   int    // -1 = not given (default 0); SNRImplicit = snr_-1 (no startNumber in the MPD: the DASH default 1)
	AST   int64  // start_<AST>; 0 = not given
	TSBD  int    // -1 = not given (default 60)
	AtoMS int64  // 0 none; -1 infinite
	Extra []string
}

// SNRImplicit is the value of Cfg.SNR for the URL option snr_-1.
const SNRImplicit = -2

func (c Cfg) Parts() []string {
	var p []string
	if c.AST != 0 {
		p = append(p, fmt.Sprintf("start_%d", c.AST))
	}
	if c.TSBD >= 0 {
		p = append(p, fmt.Sprintf("tsbd_%d", c.TSBD))
	}
	if c.SNR >= 0 {
		p = append(p, fmt.Sprintf("snr_%d", c.SNR))
	} else if c.SNR == SNRImplicit {
		p = append(p, "snr_-1")
	}
	switch {
	case c.AtoMS < 0:
		p = append(p, "ato_inf")
	case c.AtoMS > 0:
		p = append(p, "ato_"+fmtMS(c.AtoMS))
	}
	switch c.Mode {
	case "time":
		p = append(p, "segtimeline_1")
	case "tlnr":
		p = append(p, "segtimelinenr_1")
	}
	return append(p, c.Extra...)
}

func fmtMS(ms int64) string {
	s := fmt.Sprintf("%d.%03d", ms/1000, ms%1000)
	s = strings.TrimRight(s, "0")
	return strings.TrimSuffix(s, ".")
}

func (c Cfg) EffSNR() int64 {
	if c.SNR == SNRImplicit {
		return 1
	}
	if c.SNR < 0 {
		return 0
	}
	return int64(c.SNR)
}
func (c Cfg) EffTSBD() int64 {
	if c.TSBD < 0 {
		return 60
	}
	return int64(c.TSBD)
}

// Prefix returns "/livesim2/<cfg parts>/<asset>".
func (c Cfg) Prefix(asset string) string {
	parts := append([]string{"/livesim2"}, c.Parts()...)
	return strings.Join(append(parts, asset), "/")
}

// SegURL builds the URL of segment n of rep under cfg (without query).
func SegURL(c Cfg, a *Asset, rt *project.RepTruth, n int64) string {
	var v int64
	if c.Mode == "time" {
		v = StartTicks(rt, n)
	} else {
		v = n + c.EffSNR()
	}
	pat := strings.ReplaceAll(strings.ReplaceAll(rt.MediaPat, "$Number$", fmt.Sprint(v)), "$Time$", fmt.Sprint(v))
	return c.Prefix(a.Name) + "/" + pat
}

// StartTicks / EndTicks: the driver's own int64 arithmetic, used only to CHOOSE request instants and
// $Time$ values (inputs). Expectations are computed by TLC from the header.
func StartTicks(rt *project.RepTruth, n int64) int64 {
	k, i := n/int64(rt.N), n%int64(rt.N)
	t := k*rt.L + rt.Vod0
	for j := int64(0); j < i; j++ {
		t += rt.Dur[j]
	}
	return t
}
func EndTicks(rt *project.RepTruth, n int64) int64 {
	return StartTicks(rt, n) + rt.Dur[n%int64(rt.N)]
}

// AvailRelMS is the first whole ms (relative to AST) at which segment n is available under atoMS.
func AvailRelMS(rt *project.RepTruth, n int64, atoMS int64) int64 {
	if atoMS < 0 {
		return 0
	}
	e := EndTicks(rt, n) * 1000 // in 1/TS ms
	ms := (e + rt.TS - 1) / rt.TS
	return ms - atoMS
}

// Header emits the scenario header shared by the timeline trace specifications.
func Header(w *tr.W, sc int, a *Asset, rt *project.RepTruth, c Cfg, extra tr.E) {
	loopMS := a.LoopMS
	if rt.L*1000%rt.TS == 0 {
		loopMS = rt.L * 1000 / rt.TS // the representation's own loop (equal to the asset's for admissible assets)
	}
	e := tr.E{"ev": "hdr", "sc": sc, "asset": a.Name, "rep": rt.ID, "kind": rt.Kind, "N": rt.N, "dur": rt.Dur, "vod0": rt.Vod0,
		"TS": rt.TS, "loopMS": loopMS, "tsbd": c.EffTSBD(), "ato": c.AtoMS, "snr": c.EffSNR(), "ast": c.AST, "mode": c.Mode,
		"L": rt.L, "keepdigs": false, "stop": -1, "slack": 0, "multi": false, "cfg": strings.Join(c.Parts(), "/")}
	for k, v := range extra {
		e[k] = v
	}
	w.Emit(e)
}

// RunParallel executes jobs 0..n-1 on `workers` goroutines; each job appends its events to its own
// buffer through emit; buffers are written to w in job order afterwards (so the trace is deterministic
// and events of one scenario stay contiguous and ordered).
func RunParallel(w *tr.W, n, workers int, job func(idx int, emit func(tr.E))) {
	bufs := make([][]tr.E, n)
	ch := make(chan int)
	done := make(chan struct{})
	for g := 0; g < workers; g++ {
		go func() {
			for idx := range ch {
				job(idx, func(e tr.E) { bufs[idx] = append(bufs[idx], e) })
			}
			done <- struct{}{}
		}()
	}
	for i := 0; i < n; i++ {
		ch <- i
	}
	close(ch)
	for g := 0; g < workers; g++ {
		<-done
	}
	for _, b := range bufs {
		for _, e := range b {
			w.Emit(e)
		}
	}
}

// HeaderE builds the scenario header event (see Header).
func HeaderE(sc int, a *Asset, rt *project.RepTruth, c Cfg, extra tr.E) tr.E {
	loopMS := a.LoopMS
	if rt.L*1000%rt.TS == 0 {
		loopMS = rt.L * 1000 / rt.TS
	}
	e := tr.E{"ev": "hdr", "sc": sc, "asset": a.Name, "rep": rt.ID, "kind": rt.Kind, "N": rt.N, "dur": rt.Dur, "vod0": rt.Vod0,
		"TS": rt.TS, "loopMS": loopMS, "tsbd": c.EffTSBD(), "ato": c.AtoMS, "snr": c.EffSNR(), "ast": c.AST, "mode": c.Mode,
		"L": rt.L, "keepdigs": false, "stop": -1, "slack": 0, "multi": false, "cfg": strings.Join(c.Parts(), "/")}
	for k, v := range extra {
		e[k] = v
	}
	return e
}

// AudioStartTicks is the audio decode time a client computes for segment n of an audio representation that
// follows the video grid: the first audio frame boundary at or after the video segment start (big-int exact).
// Used only to construct $Time$ request URLs (an input); C03 judges the value itself.
func AudioStartTicks(video, audio *project.RepTruth, n int64) int64 {
	sv := new(big.Int).SetInt64(StartTicks(video, n))
	num := new(big.Int).Mul(sv, big.NewInt(audio.TS))
	den := new(big.Int).Mul(big.NewInt(video.TS), big.NewInt(audio.SampleDur))
	q, r := new(big.Int).QuoRem(num, den, new(big.Int))
	if r.Sign() != 0 {
		q.Add(q, big.NewInt(1))
	}
	return q.Mul(q, big.NewInt(audio.SampleDur)).Int64()
}

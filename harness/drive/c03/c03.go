// Package c03 requests re-segmented audio segments (and the MPD at the same instants) from the real
// livesim2 server and records what was served: mfhd number, tfdt, sample count, sample durations and,
// per frame, which VoD audio frame carries the same payload (C03).
//
// No expectation is computed here: the trace specification spec/trace/AudioReseg_Trace.tla derives
// start, end, count and source frame of every segment from the header constants (video layout from the
// asset generator / an independent parse of the VoD files, audio frame duration, timescales, number of
// VoD audio frames). The driver's own arithmetic is used only to choose inputs ($Time$ values, instants)
// and to split 64-bit times into pairs over the header constant PA.
package c03

import (
	"encoding/xml"
	"flag"
	"fmt"
	"math/big"
	"math/rand"
	"os"
	"path/filepath"
	"strconv"
	"strings"
	"sync"

	"verifharness/assetgen"
	"verifharness/drive/tl"
	"verifharness/project"
	"verifharness/srv"
	"verifharness/tr"
)

// ---------------------------------------------------------------- audio constants of an asset

type audioK struct {
	F, TSa, A  int64
	RA, RV     int64 // TSa/TSv as a fraction
	M, PA      int64 // super-period: M video loops = PA audio ticks = whole number of frames
	VCls       []int // class (= first VoD frame with the same payload digest) of every VoD frame
	clsOfDig   map[string]int
	SegFrames  []int // frames per VoD audio segment (documentation in the header)
}

func gcd(a, b int64) int64 {
	for b != 0 {
		a, b = b, a%b
	}
	return a
}

func mkAudioK(v, au *project.RepTruth) (*audioK, error) {
	if au.SampleDur <= 0 {
		return nil, fmt.Errorf("audio %s: no constant frame duration", au.ID)
	}
	if au.Vod0 != 0 {
		return nil, fmt.Errorf("audio %s: VoD audio starts at %d, not 0", au.ID, au.Vod0)
	}
	k := &audioK{F: au.SampleDur, TSa: au.TS, clsOfDig: map[string]int{}}
	g := gcd(au.TS, v.TS)
	k.RA, k.RV = au.TS/g, v.TS/g
	den := k.RV * k.F
	k.M = den / gcd(v.L*k.RA, den)
	if (k.M*v.L*k.RA)%k.RV != 0 {
		return nil, fmt.Errorf("super-period not integral")
	}
	k.PA = k.M * v.L * k.RA / k.RV
	if (k.M+2)*v.L*k.RA+den >= 1<<31 || k.PA*k.RV >= 1<<31 {
		return nil, fmt.Errorf("constants too large for 32-bit evaluation: M=%d L=%d ra=%d", k.M, v.L, k.RA)
	}
	for _, seg := range au.SampleDigs {
		k.SegFrames = append(k.SegFrames, len(seg))
		for _, d := range seg {
			idx := len(k.VCls)
			c, ok := k.clsOfDig[d]
			if !ok {
				c = idx
				k.clsOfDig[d] = c
			}
			k.VCls = append(k.VCls, c)
		}
	}
	k.A = int64(len(k.VCls))
	if k.A*k.F != au.L {
		return nil, fmt.Errorf("audio %s: %d frames of %d ticks but track duration %d", au.ID, k.A, k.F, au.L)
	}
	return k, nil
}

// aStartInput is the driver's own computation of the $Time$ value to REQUEST for segment n (an input,
// like a client that computed it from the MPD); the served tfdt is judged by the specification.
func aStartInput(v *project.RepTruth, k *audioK, n int64) int64 {
	sv := big.NewInt(tl.StartTicks(v, n))
	num := new(big.Int).Mul(sv, big.NewInt(k.TSa))
	den := big.NewInt(v.TS * k.F)
	q, r := new(big.Int).QuoRem(num, den, new(big.Int))
	if r.Sign() != 0 {
		q.Add(q, big.NewInt(1))
	}
	return q.Int64() * k.F
}

// availMS is the first whole millisecond (relative to availabilityStartTime) at which reference segment n has
// ended (tl.AvailRelMS with arbitrary-precision arithmetic: 10 MHz timescales overflow int64 after * 1000).
func availMS(v *project.RepTruth, n int64) int64 {
	e := new(big.Int).Mul(big.NewInt(tl.EndTicks(v, n)), big.NewInt(1000))
	q, r := new(big.Int).QuoRem(e, big.NewInt(v.TS), new(big.Int))
	if r.Sign() != 0 {
		q.Add(q, big.NewInt(1))
	}
	return q.Int64()
}

// ---------------------------------------------------------------- MPD projection

type xS struct {
	T *int64 `xml:"t,attr"`
	D int64  `xml:"d,attr"`
	R int64  `xml:"r,attr"`
}
type xTemplate struct {
	Timescale   *int64 `xml:"timescale,attr"`
	StartNumber *int64 `xml:"startNumber,attr"`
	Media       string `xml:"media,attr"`
	S           []xS   `xml:"SegmentTimeline>S"`
}
type xRep struct {
	ID       string     `xml:"id,attr"`
	Template *xTemplate `xml:"SegmentTemplate"`
}
type xAS struct {
	ContentType string     `xml:"contentType,attr"`
	MimeType    string     `xml:"mimeType,attr"`
	Template    *xTemplate `xml:"SegmentTemplate"`
	Reps        []xRep     `xml:"Representation"`
}
type xMPD struct {
	Periods []struct {
		AS []xAS `xml:"AdaptationSet"`
	} `xml:"Period"`
}

type tlEntry struct{ t, d int64 }

func (a *xAS) kind() string {
	if a.ContentType != "" {
		return a.ContentType
	}
	return strings.SplitN(a.MimeType, "/", 2)[0]
}

// timelineOf returns the expanded SegmentTimeline of the adaptation set that holds representation repID.
func timelineOf(m *xMPD, repID string) (entries []tlEntry, ts, startNr int64, found bool, err error) {
	if len(m.Periods) != 1 {
		return nil, 0, 0, false, fmt.Errorf("%d periods", len(m.Periods))
	}
	for i := range m.Periods[0].AS {
		as := &m.Periods[0].AS[i]
		for _, r := range as.Reps {
			if r.ID != repID {
				continue
			}
			t := as.Template
			if r.Template != nil {
				t = r.Template
			}
			if t == nil {
				return nil, 0, 0, false, nil
			}
			ts, startNr = 1, -1
			if t.Timescale != nil {
				ts = *t.Timescale
			}
			if t.StartNumber != nil {
				startNr = *t.StartNumber
			}
			cur := int64(0)
			for j, s := range t.S {
				if s.T != nil {
					cur = *s.T
				} else if j == 0 {
					return nil, 0, 0, false, fmt.Errorf("first S without t")
				}
				if s.R < 0 {
					return nil, 0, 0, false, fmt.Errorf("S@r=%d not supported by the projection", s.R)
				}
				for c := int64(0); c <= s.R; c++ {
					entries = append(entries, tlEntry{cur, s.D})
					cur += s.D
				}
			}
			return entries, ts, startNr, true, nil
		}
	}
	return nil, 0, 0, false, nil
}

// videoIndex finds (k, i) with Start_v(k, i) = t by the driver's own arithmetic (input to the specification,
// which re-checks it against the oracle: clause hdr.mpdbase).
func videoIndex(v *project.RepTruth, t int64) (int64, int64, bool) {
	x := t - v.Vod0
	if x < 0 {
		return 0, 0, false
	}
	k := x / v.L
	off := x - k*v.L
	for i := int64(0); i < int64(v.N); i++ {
		if off == 0 {
			return k, i, true
		}
		off -= v.Dur[i]
		if off < 0 {
			return 0, 0, false
		}
	}
	return 0, 0, false
}

// ---------------------------------------------------------------- layouts of this property

func ownLayouts(thorough bool) []assetgen.Layout {
	aud := []int{94, 94, 94, 93}
	ls := []assetgen.Layout{
		// audio segment grid different from the video grid (4 x 2 s video; 50/125/100/100 audio frames), loop 8 s = 375 frames
		{Name: "c3_grid", TS: 90000, SampleDur: 3000, SegSamples: []int{60, 60, 60, 60}, AudioSegFrames: []int{50, 125, 100, 100}, MpdStyle: "number"},
		// audio loop one frame SHORTER than the video loop (374 of 375 frames): one padding frame per loop
		{Name: "c3_short", TS: 90000, SampleDur: 3000, SegSamples: []int{60, 60, 60, 60}, AudioSegFrames: []int{94, 94, 94, 92}, MpdStyle: "number"},
		// video loop 7.68 s = exactly 360 frames, every video segment (1.92 s) = exactly 90 frames; audio one frame LONGER (361)
		{Name: "c3_long", TS: 12800, SampleDur: 512, SegSamples: []int{48, 48, 48, 48}, AudioSegFrames: []int{91, 90, 90, 90}, MpdStyle: "number"},
		// 30000/1001 fps, irregular video segments, 5 audio segments against 4 video segments; loop 8.008 s = 375.375 frames (M = 8)
		{Name: "c3_2997", TS: 30000, SampleDur: 1001, SegSamples: []int{60, 30, 90, 60}, AudioSegFrames: []int{75, 75, 75, 75, 75}, MpdStyle: "timeline"},
		// reference track not starting at media time 0 (0.1 s = 4.69 frames): segments straddle multiples of the loop duration
		{Name: "c3_vod0", TS: 90000, SampleDur: 3000, SegSamples: []int{60, 60, 60, 60}, Vod0: 9000, AudioSegFrames: aud, MpdStyle: "number"},
		// VoD audio 95 frames shorter than the 8 s loop: the last video segment starts after the end of the VoD audio (pure padding)
		{Name: "c3_gap", TS: 90000, SampleDur: 3000, SegSamples: []int{60, 60, 60, 60}, AudioSegFrames: []int{140, 140}, MpdStyle: "number"},
		// 10 MHz video timescale (25 fps)
		{Name: "c3_ts10m", TS: 10_000_000, SampleDur: 400_000, SegSamples: []int{50, 50, 50, 50}, AudioSegFrames: aud, MpdStyle: "number"},
	}
	if thorough {
		ls = append(ls,
			// loop 7.96 s = 373.125 frames (M = 8), audio 375 frames: longer by one or two frames depending on the loop
			assetgen.Layout{Name: "c3_long2", TS: 90000, SampleDur: 3600, SegSamples: []int{50, 50, 50, 49}, AudioSegFrames: aud, MpdStyle: "number"},
			// audio two and more frames shorter, single audio segment
			assetgen.Layout{Name: "c3_short5", TS: 90000, SampleDur: 3000, SegSamples: []int{120, 120}, AudioSegFrames: []int{370}, MpdStyle: "timeline"},
			// 24000/1001 fps, 2.002 s segments, many small audio segments
			assetgen.Layout{Name: "c3_2398", TS: 24000, SampleDur: 1001, SegSamples: []int{48, 48, 48, 48}, AudioSegFrames: []int{25, 25, 25, 25, 25, 25, 25, 25, 25, 25, 25, 25, 25, 25, 25}, MpdStyle: "number"},
			// 12800 timescale, 7.52 s loop = 352.5 frames (M = 2), audio exactly one frame more than the longer loop
			assetgen.Layout{Name: "c3_half", TS: 12800, SampleDur: 512, SegSamples: []int{47, 47, 47, 47}, AudioSegFrames: []int{177, 177}, MpdStyle: "number"},
			// short video segments (0.4 s = 18.75 frames), one long audio segment
			assetgen.Layout{Name: "c3_tiny", TS: 90000, SampleDur: 3600, SegSamples: []int{10, 10, 10, 10, 10, 10, 10, 10, 10, 10}, AudioSegFrames: []int{188}, MpdStyle: "number"},
			// larger non-zero start of the reference track: 1.0 s
			assetgen.Layout{Name: "c3_vod1s", TS: 90000, SampleDur: 3600, SegSamples: []int{50, 50, 50, 50}, Vod0: 90000, AudioSegFrames: aud, MpdStyle: "number"},
		)
	}
	return ls
}

// ---------------------------------------------------------------- driver

type scen struct {
	a    *tl.Asset
	k    *audioK
	cfg  tl.Cfg
	sd   int64
	full bool // long consecutive run from n = 0
	ll   bool // low-latency (chunked) delivery: ato_ + chunkdur_
}

// sampleSeq is a digest of the decode time of the first sample and of (duration, size, payload digest) of every sample
// of all fragments of a body in order: two delivery variants of one segment are equal sample by sample iff it is equal.
func sampleSeq(m *project.Media) string {
	var b strings.Builder
	fmt.Fprintf(&b, "%d|", m.Frags[0].Tfdt)
	for _, fr := range m.Frags {
		for x := range fr.Durs {
			fmt.Fprintf(&b, "%d:%d:%s,", fr.Durs[x], fr.Sizes[x], fr.Digests[x])
		}
	}
	return project.Digest([]byte(b.String()))
}

func Main(args []string) error {
	fs := flag.NewFlagSet("c03", flag.ExitOnError)
	out := fs.String("out", "c03.ndjson", "trace output")
	work := fs.String("work", "", "scratch directory for the VoD root")
	seed := fs.Int64("seed", 1, "seed")
	thorough := fs.Bool("thorough", false, "more layouts, configurations and indices")
	_ = fs.Parse(args)
	if *work == "" {
		return fmt.Errorf("-work required")
	}
	vod := filepath.Join(*work, "vod")
	_ = os.RemoveAll(vod)
	if err := os.MkdirAll(vod, 0o755); err != nil {
		return err
	}
	// layouts of this property are generated before the server starts (tl.Setup starts it)
	src := filepath.Join(srv.BundledAssets(), "testpic_2s")
	var own []*tl.Asset
	for _, lay := range ownLayouts(*thorough) {
		t, err := assetgen.Generate(vod, src, lay)
		if err != nil {
			return fmt.Errorf("generate %s: %w", lay.Name, err)
		}
		own = append(own, &tl.Asset{Name: t.Name, MPD: t.MPD, LoopMS: t.LoopMS, Video: t.Video, Audio: t.Audio, Gen: true})
	}
	env, err := tl.Setup(vod, *thorough)
	if err != nil {
		return err
	}
	assets := append([]*tl.Asset{}, own...)
	for _, a := range env.Assets {
		if a.Audio != nil {
			assets = append(assets, a)
		}
	}
	// AC-3 (1536-sample frames): bundled bbb asset, truth by independent parse with its own file naming
	{
		ad := filepath.Join(srv.BundledAssets(), "bbb_hevc_ac3_8s")
		v, err := project.LoadVodRep(ad, "1", "video", "video_init.mp4", "video_$Number$.m4s", 1)
		if err != nil {
			return err
		}
		au, err := project.LoadVodRep(ad, "2", "audio", "audio_init.mp4", "audio_$Number$.m4s", 1)
		if err != nil {
			return err
		}
		if (v.L*1000)%v.TS != 0 {
			return fmt.Errorf("bbb: loop not whole ms")
		}
		assets = append(assets, &tl.Asset{Name: "bbb_hevc_ac3_8s", MPD: "manifest.mpd", LoopMS: v.L * 1000 / v.TS, Video: v, Audio: au})
	}

	w, err := tr.New(*out)
	if err != nil {
		return err
	}
	rng := rand.New(rand.NewSource(*seed))
	var scens []scen
	samples := []any{}
	for ai, a := range assets {
		k, err := mkAudioK(a.Video, a.Audio)
		if err != nil {
			return fmt.Errorf("asset %s: %w", a.Name, err)
		}
		if len(samples) < 8 {
			samples = append(samples, map[string]any{"asset": a.Name, "video_dur": a.Video.Dur, "TSv": a.Video.TS, "vod0": a.Video.Vod0,
				"F": k.F, "TSa": k.TSa, "A": k.A, "audio_seg_frames": k.SegFrames, "M": k.M})
		}
		cfgs := []tl.Cfg{
			{Mode: "number", SNR: -1, TSBD: -1},
			{Mode: "time", SNR: -1, TSBD: -1},
			{Mode: "tlnr", SNR: -1, TSBD: []int{20, 30, -1}[rng.Intn(3)]},
		}
		extra := []tl.Cfg{
			{Mode: "number", SNR: 1 + rng.Intn(9), TSBD: -1},
			{Mode: "time", SNR: 1 + rng.Intn(9), TSBD: 10 + rng.Intn(40)},
			{Mode: "number", SNR: -1, TSBD: -1, AST: 1000 + int64(rng.Intn(1_000_000))},
			{Mode: "tlnr", SNR: 1 + rng.Intn(9), TSBD: 8},
		}
		if *thorough {
			cfgs = append(cfgs, extra...)
		} else {
			cfgs = append(cfgs, extra[(ai+int(*seed))%len(extra)])
		}
		for ci, c := range cfgs {
			scens = append(scens, scen{a: a, k: k, cfg: c, sd: rng.Int63(), full: ci < 3})
		}
		// low-latency (chunked) delivery of the same audio segments: availabilityTimeOffset = a fraction of the shortest
		// reference segment, chunk duration = the rest of it; all addressing modes
		minMS := a.Video.Dur[0] * 1000 / a.Video.TS
		for _, d := range a.Video.Dur {
			if ms := d * 1000 / a.Video.TS; ms < minMS {
				minMS = ms
			}
		}
		fracs := [][2]int64{{1, 4}, {1, 2}, {3, 4}, {7, 8}, {1, 8}}
		for mi, mode := range []string{"number", "time", "tlnr"} {
			var sel [][2]int64
			if *thorough {
				sel = fracs
			} else {
				sel = [][2]int64{fracs[(ai+mi+int(*seed))%len(fracs)]}
			}
			for fi, f := range sel {
				ato := minMS * f[0] / f[1]
				if ato <= 0 || minMS-ato <= 0 {
					continue
				}
				c := tl.Cfg{Mode: mode, SNR: -1, TSBD: -1, AtoMS: ato,
					Extra: []string{"chunkdur_" + strconv.FormatFloat(float64(minMS-ato)/1000, 'f', -1, 64)}}
				if (fi+mi)%2 == 1 {
					c.SNR = 1 + rng.Intn(9)
				}
				scens = append(scens, scen{a: a, k: k, cfg: c, sd: rng.Int63(), ll: true})
			}
		}
	}

	var mu sync.Mutex
	nreq, nseg, nframes, nmpd, nmpdEntries := 0, 0, 0, 0, 0
	nll, nllMulti, nllFrags := 0, 0, 0
	distinct := map[string]bool{}
	var firstErr error
	tl.RunParallel(w, len(scens), 8, func(idx int, emit func(tr.E)) {
		s := scens[idx]
		a, k, c, v, au := s.a, s.k, s.cfg, s.a.Video, s.a.Audio
		rng := rand.New(rand.NewSource(s.sd))
		N := int64(v.N)
		emit(tl.HeaderE(idx, a, v, c, tr.E{"rep": au.ID, "kind": "audio", "vrep": v.ID, "F": k.F, "TSa": k.TSa, "A": k.A, "ra": k.RA, "rv": k.RV,
			"M": k.M, "PA": k.PA, "vcls": k.VCls, "asegs": k.SegFrames, "ll": s.ll}))
		// runs of consecutive indices
		type run struct{ from, to int64 }
		var runs []run
		loops := k.M + 1
		if loops < 3 {
			loops = 3
		}
		if !*thorough && loops > 4 && !s.full {
			loops = 2
		}
		if s.full || *thorough {
			runs = append(runs, run{0, loops*N + 1})
		} else if s.ll {
			if loops > 3 {
				loops = 3
			}
			runs = append(runs, run{0, loops*N + 1})
		} else {
			runs = append(runs, run{0, N + 1})
		}
		for _, kk := range []int64{10, 1000} {
			runs = append(runs, run{kk*N - 2, kk*N + 2})
		}
		if c.AST == 0 {
			// a wall-clock in 2025: loop index reached 1.75e9 s after the epoch, plus a seeded phase
			kfar := 1_750_000_000*v.TS/v.L + int64(rng.Intn(64))
			if lim := int64(2_000_000_000)/N - 100; kfar > lim { // segment numbers are 32-bit (sub-second segments)
				kfar = lim - int64(rng.Intn(64))
			}
			runs = append(runs, run{kfar*N - 2, kfar*N + N + 1})
		} else {
			runs = append(runs, run{5000*N - 1, 5000*N + 1})
		}
		nrnd := 3
		if *thorough {
			nrnd = 12
		}
		for j := 0; j < nrnd; j++ {
			n := int64(rng.Intn(4_000_000))
			runs = append(runs, run{n, n + 1 + int64(rng.Intn(3))})
		}
		mpdEvery := 5
		for _, r := range runs {
			prevOK := false
			for n := r.from; n <= r.to; n++ {
				// instant: segment n of the reference just became available (+ seeded slack inside the window)
				slack := int64(rng.Intn(int(c.EffTSBD()*500) + 1))
				if rng.Intn(3) == 0 {
					slack = 0
				}
				now := c.AST*1000 + availMS(v, n) + slack
				if s.ll {
					// every chunk must be over at the instant of the request (the last audio chunk ends less than one frame
					// after the reference segment): nothing is delivered in real time
					now += 200
				}
				var url string
				if c.Mode == "time" {
					url = c.Prefix(a.Name) + "/" + strings.ReplaceAll(strings.ReplaceAll(au.MediaPat, "$Number$", fmt.Sprint(aStartInput(v, k, n))), "$Time$", fmt.Sprint(aStartInput(v, k, n)))
				} else {
					url = c.Prefix(a.Name) + "/" + strings.ReplaceAll(strings.ReplaceAll(au.MediaPat, "$Number$", fmt.Sprint(n+c.EffSNR())), "$Time$", fmt.Sprint(n+c.EffSNR()))
				}
				resp := env.S.Get(url + "?nowMS=" + fmt.Sprint(now))
				e := tr.E{"ev": "seg", "k": n / N, "i": n % N, "st": resp.Status, "run": prevOK, "url": url, "now": fmt.Sprint(now),
					"sdig": "", "wdig": "", "wst": 0}
				prevOK = false
				if resp.Status == 200 {
					m, err := project.ParseMedia(resp.Body, au.Trex)
					if err != nil {
						// a 200 body that is not a parseable media segment: recorded as such (clause C03.served)
						e["st"] = -200
						e["err"] = err.Error()
					} else {
						f0 := m.Frags[0]
						tp := project.Pair(int64(f0.Tfdt), k.PA)
						np := project.Pair(int64(f0.Seq)-c.EffSNR(), N)
						durSet := map[uint32]bool{}
						var durs []uint32
						var cls []int
						contig := true
						at := f0.Tfdt
						for _, fr := range m.Frags {
							if fr.Tfdt != at {
								contig = false
							}
							at = fr.Tfdt + fr.Dur
							for x, d := range fr.Durs {
								if !durSet[d] {
									durSet[d] = true
									durs = append(durs, d)
								}
								cv, ok := k.clsOfDig[fr.Digests[x]]
								if !ok {
									cv = -1
								}
								cls = append(cls, cv)
							}
						}
						e["tfdt"], e["nrp"], e["cnt"], e["durs"], e["cls"], e["nfrag"], e["contig"] = tp[:], np[:], m.NSamp, durs, cls, len(m.Frags), contig
						prevOK = true
						mu.Lock()
						nseg++
						nframes += m.NSamp
						mu.Unlock()
						if s.ll {
							// the same segment delivered whole (same configuration without ato_/chunkdur_) at the same instant
							cw := c
							cw.AtoMS, cw.Extra = 0, nil
							wurl := cw.Prefix(a.Name) + url[len(c.Prefix(a.Name)):]
							wr := env.S.Get(wurl + "?nowMS=" + fmt.Sprint(now))
							e["sdig"], e["wst"], e["wurl"] = sampleSeq(m), wr.Status, wurl
							if wr.Status == 200 {
								if wm, err := project.ParseMedia(wr.Body, au.Trex); err == nil {
									e["wdig"] = sampleSeq(wm)
								} else {
									e["wst"] = -200
								}
							}
							mu.Lock()
							nll++
							nllFrags += len(m.Frags)
							if len(m.Frags) > 1 {
								nllMulti++
							}
							mu.Unlock()
						}
					}
				} else if len(resp.Body) < 200 {
					e["body"] = strings.TrimSpace(string(resp.Body))
				}
				for _, f := range []string{"tfdt", "nrp"} {
					if _, ok := e[f]; !ok {
						e[f] = []int64{0, 0}
					}
				}
				for _, f := range []string{"durs", "cls"} {
					if _, ok := e[f]; !ok {
						e[f] = []int{}
					}
				}
				if _, ok := e["cnt"]; !ok {
					e["cnt"], e["nfrag"], e["contig"] = 0, 0, true
				}
				emit(e)
				mu.Lock()
				nreq++
				distinct[fmt.Sprintf("%s|%s|%d|%d|%v|%d", a.Name, c.Mode, c.EffSNR(), n, s.ll, c.AtoMS)] = true
				mu.Unlock()

				// the MPD at the same instant (SegmentTimeline modes)
				if c.Mode != "number" && (n%int64(mpdEvery) == 0 || n == r.to) {
					murl := c.Prefix(a.Name) + "/" + a.MPD
					mr := env.S.Get(murl + "?nowMS=" + fmt.Sprint(now))
					me := tr.E{"ev": "mpd", "st": mr.Status, "url": murl, "now": fmt.Sprint(now), "k0": 0, "i0": 0, "nv": 0, "vt": []int64{0, 0},
						"at": [][]int64{}, "ats": 0, "vsn": -1, "asn": -1}
					if mr.Status == 200 {
						var x xMPD
						if err := xml.Unmarshal(mr.Body, &x); err != nil {
							me["st"] = -200
						} else {
							ve, _, vsn, vf, err1 := timelineOf(&x, v.ID)
							ae, ats, asn, af, err2 := timelineOf(&x, au.ID)
							if err1 != nil || err2 != nil || !vf || !af {
								mu.Lock()
								if firstErr == nil {
									firstErr = fmt.Errorf("MPD %s: projection failed (%v, %v, video found %v, audio found %v)", murl, err1, err2, vf, af)
								}
								mu.Unlock()
								continue
							}
							me["nv"], me["ats"], me["vsn"], me["asn"] = len(ve), ats, vsn, asn
							if len(ve) > 0 {
								k0, i0, ok := videoIndex(v, ve[0].t)
								if !ok {
									mu.Lock()
									if firstErr == nil {
										firstErr = fmt.Errorf("MPD %s: video timeline starts at %d which is not a segment start of the reference", murl, ve[0].t)
									}
									mu.Unlock()
									continue
								}
								vp := project.Pair(ve[0].t, v.L)
								me["k0"], me["i0"], me["vt"] = k0, i0, vp[:]
							}
							var at [][]int64
							for _, x := range ae {
								p := project.Pair(x.t, k.PA)
								at = append(at, []int64{p[0], p[1], x.d})
							}
							if at == nil {
								at = [][]int64{}
							}
							me["at"] = at
							mu.Lock()
							nmpd++
							nmpdEntries += len(ae)
							mu.Unlock()
						}
					}
					emit(me)
				}
			}
		}
	})
	if firstErr != nil {
		return firstErr
	}
	if err := w.Close(); err != nil {
		return err
	}
	tr.PrintStats(map[string]any{"scenarios": len(scens), "events": w.N, "requests": nreq, "distinct": len(distinct), "samples": samples,
		"segments_served": nseg, "frames": nframes, "ll_segments": nll, "ll_multi_fragment": nllMulti, "ll_fragments": nllFrags, "mpds": nmpd, "mpd_audio_entries": nmpdEntries, "assets": len(assets)})
	return nil
}

// Package x05 is the driver of the extra specification X05 (asset mirroring and loading):
//
//	(A) dashfetcher (cmd/dashfetcher/app.Fetch, called in-process) against an in-process HTTP origin with fault injection,
//	(B) livesim2's asset discovery / loading (app.SetupServer) on generated VoD directory trees, /assets, /livesim2, /vod.
//
// gen.go builds concrete VoD assets from abstract shapes (as enumerated by spec/AssetMirror.tla): the media segments come from
// harness/assetgen (re-timed samples of the bundled testpic_2s asset), the addressing (file names, MPD) is written here, so the
// set of files an MPD references and the timing of every segment are known by construction.
package x05

import (
	"fmt"
	"os"
	"path/filepath"
	"sort"
	"strings"
	"sync"

	"verifharness/assetgen"
	"verifharness/project"
	"verifharness/srv"
)

// Shape is the abstract description of a VoD asset (the fields printed by TLC in GEN lines).
type Shape struct {
	V    string `json:"v"`    // video addressing: numdur ($Number$ + @duration) | numnodur ($Number$ only) | timetl (SegmentTimeline + $Time$) | numtl (SegmentTimeline + $Number$)
	A    string `json:"a"`    // audio addressing: none | numdur | numnodur | timetl
	SN   int    `json:"sn"`   // startNumber: -1 attribute absent (default 1), else the value
	Sub  string `json:"sub"`  // id ($RepresentationID$) | bw ($Bandwidth$) | lit (no identifier)
	Lvl  string `json:"lvl"`  // SegmentTemplate on AdaptationSet (as) or Representation (rep) level
	NV   int    `json:"nv"`   // number of video Representations in the video AdaptationSet
	Base string `json:"base"` // BaseURL: none | mpd | period | as
	Big  string `json:"big"`  // no | ts10m (10 MHz timescale) | long90k (60 s at 90 kHz)
	Lay  string `json:"lay"`  // u90k | last90k (last segment shorter) | irr90k | alt12800 | sub1k | n1001 | nonint (loop not integral ms)
	Per  string `json:"per"`  // Period signalling: start | dur | none
	Typ  string `json:"typ"`  // MPD@type: static | absent | dynamic
	ADur string `json:"adur"` // audio total duration relative to video: same | shorter | longer
}

// Rep is the ground truth of one Representation as placed by the driver.
type Rep struct {
	ID     string
	Kind   string
	BW     int
	Mode   string
	SN     int // effective start number (number modes)
	TS     int64
	Durs   []int64
	Starts []int64
	Init   string   // path relative to the asset directory
	Segs   []string // paths relative to the asset directory, in presentation order
	PayDig []string
	Codecs string
}

func (r *Rep) L() int64 {
	var s int64
	for _, d := range r.Durs {
		s += d
	}
	return s
}

// Asset is one generated asset directory with one MPD.
type Asset struct {
	Shape   Shape
	Dir     string
	MPDName string
	Reps    []*Rep
	DeclN   int // > 0: the MPD declares only the first DeclN video segments (the files hold more)
}

func digest(b []byte) string { return project.Digest(b) }

type baseLay struct {
	lay   assetgen.Layout
	truth *assetgen.Truth
}

// Builder caches the generated base layouts (segments) under one scratch directory.
type Builder struct {
	mu      sync.Mutex // held by concurrent callers around Build
	scratch string
	cache   map[string]*baseLay
}

func NewBuilder(scratch string) *Builder {
	return &Builder{scratch: scratch, cache: map[string]*baseLay{}}
}

var audSame = []int{94, 94, 94, 93} // 375 frames = 8 s

func layoutFor(sh Shape) (assetgen.Layout, error) {
	var l assetgen.Layout
	switch {
	case sh.Big == "ts10m":
		l = assetgen.Layout{TS: 10_000_000, SampleDur: 400_000, SegSamples: []int{50, 50, 50, 50}} // 25 fps, 2 s, loop 8 s
	case sh.Big == "long90k":
		l = assetgen.Layout{TS: 90000, SampleDur: 45000, SegSamples: []int{30, 30, 30, 30}} // 15 s segments, loop 60 s
	default:
		switch sh.Lay {
		case "u90k":
			l = assetgen.Layout{TS: 90000, SampleDur: 3000, SegSamples: []int{60, 60, 60, 60}}
		case "last90k":
			l = assetgen.Layout{TS: 90000, SampleDur: 3000, SegSamples: []int{60, 60, 60, 30}} // 2/2/2/1 s, loop 7 s
		case "irr90k":
			l = assetgen.Layout{TS: 90000, SampleDur: 3000, SegSamples: []int{40, 80, 60, 60}}
		case "alt12800":
			l = assetgen.Layout{TS: 12800, SampleDur: 512, SegSamples: []int{90, 30, 90, 30}} // 3.6/1.2 s, loop 9.6 s
		case "sub1k":
			l = assetgen.Layout{TS: 1000, SampleDur: 40, SegSamples: []int{12, 12, 12, 12, 12}, Vod0: 120}
		case "n1001":
			l = assetgen.Layout{TS: 30000, SampleDur: 1001, SegSamples: []int{60, 60, 60, 60}} // loop 8.008 s
		case "five":
			l = assetgen.Layout{TS: 90000, SampleDur: 3000, SegSamples: []int{48, 48, 48, 48, 48}} // 1.6 s segments, loop 8 s
		case "nonint":
			l = assetgen.Layout{TS: 90000, SampleDur: 3001, SegSamples: []int{60, 60, 60, 60}} // loop 8.002666.. s
		default:
			return l, fmt.Errorf("unknown layout %q", sh.Lay)
		}
	}
	if sh.A != "none" {
		switch sh.ADur {
		case "shorter":
			l.AudioSegFrames = []int{94, 94, 94, 80}
		case "longer":
			// the source has 8 s of audio: "longer" is relative to a video that is cut to 7 s
			l.AudioSegFrames = audSame
			if sh.Lay == "u90k" && sh.Big == "no" {
				l.SegSamples = []int{60, 60, 60, 30}
			}
		default:
			l.AudioSegFrames = audSame
		}
	}
	l.MpdStyle = "number"
	return l, nil
}

func (b *Builder) base(sh Shape) (*baseLay, error) {
	l, err := layoutFor(sh)
	if err != nil {
		return nil, err
	}
	key := fmt.Sprintf("b_%d_%d_%v_%d_%v", l.TS, l.SampleDur, l.SegSamples, l.Vod0, l.AudioSegFrames)
	key = strings.NewReplacer(" ", "_", "[", "", "]", "").Replace(key)
	if bl, ok := b.cache[key]; ok {
		return bl, nil
	}
	l.Name = key
	tr, err := assetgen.Generate(filepath.Join(b.scratch, "base"), srv.BundledAssets()+"/testpic_2s", l)
	if err != nil {
		return nil, fmt.Errorf("assetgen %s: %w", key, err)
	}
	bl := &baseLay{lay: l, truth: tr}
	b.cache[key] = bl
	return bl, nil
}

func copyFile(src, dst string) error {
	data, err := os.ReadFile(src)
	if err != nil {
		return err
	}
	if err := os.MkdirAll(filepath.Dir(dst), 0o755); err != nil {
		return err
	}
	return os.WriteFile(dst, data, 0o644)
}

func subst(pat string, r *Rep) string {
	pat = strings.ReplaceAll(pat, "$RepresentationID$", r.ID)
	return strings.ReplaceAll(pat, "$Bandwidth$", fmt.Sprint(r.BW))
}

// patterns returns the init and media templates (as written into the MPD) for a representation.
func patterns(sh Shape, r *Rep) (initPat, mediaPat string) {
	key := "$Number$"
	if r.Mode == "timetl" {
		key = "$Time$"
	}
	switch sh.Sub {
	case "bw":
		return "q$Bandwidth$/init.mp4", "q$Bandwidth$/seg_" + key + ".m4s"
	case "lit":
		return r.ID + "_init.mp4", r.ID + "_" + key + ".m4s"
	default:
		return "$RepresentationID$/init.mp4", "$RepresentationID$/" + key + ".m4s"
	}
}

func basePrefix(sh Shape, kind string) string {
	switch sh.Base {
	case "mpd":
		return "media/"
	case "period":
		return "p0/"
	case "as":
		return kind + "/"
	}
	return ""
}

func isoDur(ticks, ts int64) string {
	ms := ticks * 1000 / ts
	rem := (ticks * 1000) % ts
	if rem == 0 {
		return fmt.Sprintf("PT%d.%03dS", ms/1000, ms%1000)
	}
	us := ticks * 1_000_000 / ts
	return fmt.Sprintf("PT%d.%06dS", us/1_000_000, us%1_000_000)
}

// Build writes the asset for shape sh into dir (MPD name mpdName) and returns its ground truth.
func (b *Builder) Build(sh Shape, dir, mpdName string) (*Asset, error) {
	return b.BuildDecl(sh, dir, mpdName, 0)
}

// BuildDecl is Build with an MPD that declares only the first declN video segments (0 = all).
func (b *Builder) BuildDecl(sh Shape, dir, mpdName string, declN int) (*Asset, error) {
	bl, err := b.base(sh)
	if err != nil {
		return nil, err
	}
	a := &Asset{Shape: sh, Dir: dir, MPDName: mpdName, DeclN: declN}
	if err := os.MkdirAll(dir, 0o755); err != nil {
		return nil, err
	}
	mk := func(t *project.RepTruth, id, kind string, bw int, mode, codecs string) *Rep {
		r := &Rep{ID: id, Kind: kind, BW: bw, Mode: mode, TS: t.TS, Durs: append([]int64{}, t.Dur...), PayDig: append([]string{}, t.PayDig...), Codecs: codecs}
		st := t.Vod0
		for _, d := range t.Dur {
			r.Starts = append(r.Starts, st)
			st += d
		}
		r.SN = sh.SN
		if sh.SN < 0 {
			r.SN = 1
		}
		return r
	}
	srcDirs := map[*Rep]string{}
	for i := 0; i < sh.NV; i++ {
		id, bw := "V300", 300000
		if i == 1 {
			id, bw = "V600", 600000
		}
		r := mk(bl.truth.Video, id, "video", bw, sh.V, "avc1.64001e")
		a.Reps = append(a.Reps, r)
		srcDirs[r] = filepath.Join(bl.truth.Dir, "V300")
	}
	if sh.A != "none" {
		if bl.truth.Audio == nil {
			return nil, fmt.Errorf("shape %+v has audio but the base layout has none", sh)
		}
		r := mk(bl.truth.Audio, "A48", "audio", 48000, sh.A, "mp4a.40.2")
		a.Reps = append(a.Reps, r)
		srcDirs[r] = filepath.Join(bl.truth.Dir, "A48")
	}
	for _, r := range a.Reps {
		ip, mp := patterns(sh, r)
		pre := basePrefix(sh, r.Kind)
		r.Init = pre + subst(ip, r)
		if err := copyFile(filepath.Join(srcDirs[r], "init.mp4"), filepath.Join(dir, r.Init)); err != nil {
			return nil, err
		}
		for i := range r.Durs {
			var name string
			if r.Mode == "timetl" {
				name = strings.ReplaceAll(subst(mp, r), "$Time$", fmt.Sprint(r.Starts[i]))
			} else {
				name = strings.ReplaceAll(subst(mp, r), "$Number$", fmt.Sprint(r.SN+i))
			}
			r.Segs = append(r.Segs, pre+name)
			if err := copyFile(filepath.Join(srcDirs[r], fmt.Sprintf("%d.m4s", i+1)), filepath.Join(dir, pre+name)); err != nil {
				return nil, err
			}
		}
	}
	if err := os.WriteFile(filepath.Join(dir, mpdName), []byte(a.MPDText()), 0o644); err != nil {
		return nil, err
	}
	return a, nil
}

// nominal returns the @duration (ticks) of a numdur representation: the common duration of all segments but the
// last when there is one, else the average duration (DASH allows the real durations to deviate from @duration).
func (r *Rep) nominal() int64 {
	same := true
	for i := 1; i < len(r.Durs)-1; i++ {
		same = same && r.Durs[i] == r.Durs[0]
	}
	if same {
		return r.Durs[0]
	}
	return r.L() / int64(len(r.Durs))
}

func (a *Asset) template(r *Rep) string {
	sh := a.Shape
	ip, mp := patterns(sh, r)
	var sb strings.Builder
	sb.WriteString(`<SegmentTemplate`)
	if sh.SN >= 0 && r.Mode != "timetl" {
		fmt.Fprintf(&sb, ` startNumber="%d"`, sh.SN)
	}
	fmt.Fprintf(&sb, ` initialization="%s" media="%s"`, ip, mp)
	switch r.Mode {
	case "numdur":
		fmt.Fprintf(&sb, ` timescale="%d" duration="%d"/>`, r.TS, r.nominal())
	case "numnodur":
		sb.WriteString(`/>`)
	default: // timetl, numtl
		fmt.Fprintf(&sb, ` timescale="%d"><SegmentTimeline>`, r.TS)
		for i, d := range r.Durs {
			if r.Kind == "video" && a.DeclN > 0 && i >= a.DeclN {
				break
			}
			if i == 0 {
				fmt.Fprintf(&sb, `<S t="%d" d="%d"/>`, r.Starts[0], d)
			} else {
				fmt.Fprintf(&sb, `<S d="%d"/>`, d)
			}
		}
		sb.WriteString(`</SegmentTimeline></SegmentTemplate>`)
	}
	return sb.String()
}

// MPDText renders the VoD MPD of the asset.
func (a *Asset) MPDText() string {
	sh := a.Shape
	v := a.Reps[0]
	total := v.L()
	if a.DeclN > 0 {
		total = 0
		for _, x := range v.Durs[:a.DeclN] {
			total += x
		}
	}
	var sb strings.Builder
	sb.WriteString(`<?xml version="1.0" encoding="utf-8"?>` + "\n")
	sb.WriteString(`<MPD xmlns="urn:mpeg:dash:schema:mpd:2011" profiles="urn:mpeg:dash:profile:isoff-live:2011" minBufferTime="PT2S"`)
	switch sh.Typ {
	case "static":
		sb.WriteString(` type="static"`)
	case "dynamic":
		sb.WriteString(` type="dynamic" availabilityStartTime="1970-01-01T00:00:00Z" minimumUpdatePeriod="PT2S"`)
	}
	fmt.Fprintf(&sb, ` mediaPresentationDuration="%s" id="x05">`+"\n", isoDur(total, v.TS))
	sb.WriteString("  <ProgramInformation><Title>X05 generated asset</Title></ProgramInformation>\n")
	if sh.Base == "mpd" {
		sb.WriteString("  <BaseURL>media/</BaseURL>\n")
	}
	switch sh.Per {
	case "start":
		sb.WriteString(`  <Period id="one" start="PT0S">` + "\n")
	case "dur":
		fmt.Fprintf(&sb, `  <Period id="one" duration="%s">`+"\n", isoDur(total, v.TS))
	default:
		sb.WriteString(`  <Period id="one">` + "\n")
	}
	if sh.Base == "period" {
		sb.WriteString("    <BaseURL>p0/</BaseURL>\n")
	}
	byKind := map[string][]*Rep{}
	var kinds []string
	for _, r := range a.Reps {
		if _, ok := byKind[r.Kind]; !ok {
			kinds = append(kinds, r.Kind)
		}
		byKind[r.Kind] = append(byKind[r.Kind], r)
	}
	sort.Strings(kinds) // audio first, as in the bundled assets
	for i, k := range kinds {
		reps := byKind[k]
		mime := k + "/mp4"
		fmt.Fprintf(&sb, `    <AdaptationSet contentType="%s" id="%d" mimeType="%s" segmentAlignment="true" startWithSAP="1"`, k, i+1, mime)
		if k == "audio" {
			sb.WriteString(` lang="en"`)
		}
		sb.WriteString(">\n")
		if sh.Base == "as" {
			fmt.Fprintf(&sb, "      <BaseURL>%s/</BaseURL>\n", k)
		}
		if sh.Lvl == "as" {
			sb.WriteString("      " + a.template(reps[0]) + "\n")
		}
		for _, r := range reps {
			fmt.Fprintf(&sb, `      <Representation id="%s" codecs="%s" bandwidth="%d"`, r.ID, r.Codecs, r.BW)
			if k == "audio" {
				sb.WriteString(` audioSamplingRate="48000"`)
			} else {
				sb.WriteString(` width="640" height="360"`)
			}
			if sh.Lvl == "rep" {
				sb.WriteString(">\n        " + a.template(r) + "\n      </Representation>\n")
			} else {
				sb.WriteString("/>\n")
			}
		}
		sb.WriteString("    </AdaptationSet>\n")
	}
	sb.WriteString("  </Period>\n</MPD>\n")
	return sb.String()
}

// Referenced returns the relative paths of all files the MPD references (initialization and media segments of
// every Representation), in MPD order.
func (a *Asset) Referenced() []string {
	var out []string
	seen := map[string]bool{}
	for _, r := range a.Reps {
		for _, p := range append([]string{r.Init}, r.Segs...) {
			if !seen[p] {
				seen[p] = true
				out = append(out, p)
			}
		}
	}
	return out
}

// listTree returns relpath -> short digest of every regular file under dir.
func listTree(dir string) (map[string]string, error) {
	out := map[string]string{}
	err := filepath.Walk(dir, func(p string, info os.FileInfo, err error) error {
		if err != nil {
			return err
		}
		if info.IsDir() {
			return nil
		}
		data, err := os.ReadFile(p)
		if err != nil {
			return err
		}
		rel, _ := filepath.Rel(dir, p)
		out[filepath.ToSlash(rel)] = fmt.Sprintf("%s:%d", project.Digest(data), len(data))
		return nil
	})
	if os.IsNotExist(err) {
		return out, nil
	}
	return out, err
}

package x05

import (
	"bufio"
	"encoding/json"
	"flag"
	"fmt"
	"math/rand"
	"os"
	"path/filepath"
	"runtime"
	"sort"
	"strings"
	"sync"
	"syscall"
	"time"

	"verifharness/tr"
)

// Scenario is one GEN line of spec/AssetMirror.tla.
type Scenario struct {
	Kind  string `json:"kind"`
	Shape Shape  `json:"shape"`
	// fetch
	Fault struct {
		Rep  string `json:"rep"`
		Pos  string `json:"pos"`
		Kind string `json:"kind"`
	} `json:"fault"`
	Plan []string `json:"plan"`
	// load
	Defect Defect `json:"defect"`
	Depth  int    `json:"depth"`
	Mpds   string `json:"mpds"`
}

type driver struct {
	work    string
	seed    int64
	b       *Builder
	o       *Origin
	mu      sync.Mutex
	stats   map[string]int
	samples []string
	mirrors []*mirrorCand
}

type mirrorCand struct {
	dir   string
	asset *Asset
	sid   string
}

func (d *driver) count(k string, n int) {
	d.mu.Lock()
	d.stats[k] += n
	d.mu.Unlock()
}

func pairsOf(m map[string]string) [][]string {
	keys := make([]string, 0, len(m))
	for k := range m {
		keys = append(keys, k)
	}
	sort.Strings(keys)
	out := make([][]string, 0, len(keys))
	for _, k := range keys {
		out = append(out, []string{k, m[k]})
	}
	return out
}

func ceilDiv(a, b int64) int64 { return (a + b - 1) / b }

// checkConsistent verifies (machinery) that the MPD the driver wrote promises exactly the files it placed.
func checkConsistent(a *Asset) error {
	v := a.Reps[0]
	for _, r := range a.Reps {
		if r.Mode != "numdur" {
			continue
		}
		cnt := ceilDiv(v.L()*r.TS, v.TS*r.nominal())
		if int(cnt) != len(r.Segs) {
			return fmt.Errorf("shape %+v: representation %s: @duration promises %d segments, %d files", a.Shape, r.ID, cnt, len(r.Segs))
		}
	}
	return nil
}

func (a *Asset) oneMore() []string {
	var out []string
	for _, r := range a.Reps {
		if r.Mode != "numdur" {
			continue
		}
		_, mp := patterns(a.Shape, r)
		out = append(out, basePrefix(a.Shape, r.Kind)+strings.ReplaceAll(subst(mp, r), "$Number$", fmt.Sprint(r.SN+len(r.Segs))))
	}
	return out
}

func (a *Asset) faultPath(rep, pos string, rng *rand.Rand) (string, error) {
	if rep == "mpd" {
		return a.MPDName, nil
	}
	var r *Rep
	switch rep {
	case "v1":
		r = a.Reps[0]
	case "v2":
		if a.Shape.NV < 2 {
			return "", fmt.Errorf("no second video representation")
		}
		r = a.Reps[1]
	case "a":
		r = a.rep("a")
	}
	if r == nil {
		return "", fmt.Errorf("no representation %q in shape", rep)
	}
	n := len(r.Segs)
	switch pos {
	case "init":
		return r.Init, nil
	case "first":
		return r.Segs[0], nil
	case "last":
		return r.Segs[n-1], nil
	case "mid":
		if n < 3 {
			return "", fmt.Errorf("no middle segment")
		}
		return r.Segs[1+rng.Intn(n-2)], nil
	}
	return "", fmt.Errorf("unknown position %q", pos)
}

// changeOrigin alters the first and the last media segment of every Representation (a trailing free box: still valid, new bytes).
func changeOrigin(a *Asset) error {
	for _, r := range a.Reps {
		for _, p := range []string{r.Segs[0], r.Segs[len(r.Segs)-1]} {
			f, err := os.OpenFile(filepath.Join(a.Dir, p), os.O_APPEND|os.O_WRONLY, 0o644)
			if err != nil {
				return err
			}
			_, err = f.Write([]byte{0, 0, 0, 8, 'f', 'r', 'e', 'e'})
			f.Close()
			if err != nil {
				return err
			}
		}
	}
	return nil
}

func rel(prefix, p string) string {
	if strings.HasPrefix(p, prefix) {
		return p[len(prefix):]
	}
	return "../" + p
}

func readMpdList(dir string) [][]string {
	out := [][]string{}
	data, err := os.ReadFile(filepath.Join(dir, "mpdlist.json"))
	if err != nil {
		return out
	}
	var l []struct {
		Name string `json:"name"`
		URI  string `json:"originURI"`
	}
	if json.Unmarshal(data, &l) != nil {
		return [][]string{{"(unreadable)", ""}}
	}
	for _, e := range l {
		out = append(out, []string{e.Name, e.URI})
	}
	return out
}

func short(s string, n int) string {
	if len(s) > n {
		return s[:n]
	}
	return s
}

// ---------------------------------------------------------------- (A) one fetch scenario

func (d *driver) runFetchScenario(idx int, sc Scenario, raw json.RawMessage) ([]tr.E, error) {
	rng := rand.New(rand.NewSource(d.seed*1_000_003 + int64(idx)))
	sid := fmt.Sprintf("f%04d", idx)
	root := filepath.Join(d.work, "origin", sid)
	dirs := []string{"vod/asset", "content/WAVE/t1", "a", "x/y/z/clip"}
	mpds := []string{"Manifest.mpd", "stream.mpd", "manifest.mpd"}
	adir, mpdName := dirs[rng.Intn(len(dirs))], mpds[rng.Intn(len(mpds))]
	d.b.mu.Lock()
	a, err := d.b.Build(sc.Shape, filepath.Join(root, filepath.FromSlash(adir)), mpdName)
	d.b.mu.Unlock()
	if err != nil {
		return nil, fmt.Errorf("scenario %d: %w", idx, err)
	}
	if err := checkConsistent(a); err != nil {
		return nil, err
	}
	url := d.o.URL + "/" + sid + "/" + adir + "/" + mpdName
	base := d.o.URL + "/" + sid + "/" + adir + "/"
	refs := a.Referenced()
	onemore := a.oneMore()
	// tail: the last segment of every $Number$+@duration Representation and, when the Period duration is not a multiple of
	// @duration, the one before it (discriminator for known findings only)
	tail := []string{}
	for _, r := range a.Reps {
		if r.Mode == "numdur" {
			n := len(r.Segs)
			tail = append(tail, r.Segs[n-1])
			if (a.Reps[0].L()*r.TS)%(a.Reps[0].TS*r.nominal()) != 0 && n > 1 {
				tail = append(tail, r.Segs[n-2])
			}
		}
	}
	var evs []tr.E
	evs = append(evs, tr.E{"ev": "hdr", "id": sid, "kind": "fetch", "sc": raw, "mpd": mpdName, "url": url, "refs": refs, "onemore": onemore, "tail": tail})
	faults := map[string]string{}
	maxTime := 0
	if sc.Fault.Kind != "none" {
		p, err := a.faultPath(sc.Fault.Rep, sc.Fault.Pos, rng)
		if err != nil {
			return nil, fmt.Errorf("scenario %d: %w", idx, err)
		}
		faults[adir+"/"+p] = sc.Fault.Kind
		if sc.Fault.Kind == "stall" {
			maxTime = 1
		}
	}
	out := filepath.Join(d.work, "mirror", sid)
	seq := 0
	clean := sc.Fault.Kind == "none" && FetchSupportedGo(sc.Shape)
	for _, step := range sc.Plan {
		if step == "change" {
			if err := changeOrigin(a); err != nil {
				return nil, err
			}
			continue
		}
		seq++
		f := map[string]string{}
		if seq == 1 {
			f = faults
		}
		d.o.Mount(sid, root, f)
		org, err := listTree(a.Dir)
		if err != nil {
			return nil, err
		}
		evs = append(evs, tr.E{"ev": "run", "id": sid, "seq": seq, "force": step == "force", "healthy": len(f) == 0, "origin": pairsOf(org)})
		mt := 0
		if seq == 1 {
			mt = maxTime
		}
		res := runFetch(url, out, step == "force", mt, "/"+sid+"/", 20*time.Second)
		reqs := [][]any{}
		for _, rq := range d.o.Log(sid) {
			c := 0
			if rq.Status == 200 && rq.Sent == rq.Full {
				c = 1
			}
			fk := rq.Fault
			if fk == "" {
				fk = "-"
			}
			reqs = append(reqs, []any{rel(adir+"/", rq.Path), rq.Status, fk, c})
		}
		evs = append(evs, tr.E{"ev": "get", "id": sid, "seq": seq, "reqs": reqs})
		mir, err := listTree(out)
		if err != nil {
			return nil, err
		}
		evs = append(evs, tr.E{"ev": "file", "id": sid, "seq": seq, "files": pairsOf(mir)})
		named, warned := []string{}, []string{}
		var warnText strings.Builder
		for _, l := range res.Logs {
			if l.Level >= 4 {
				warnText.WriteString(l.Text)
				warnText.WriteString("\n")
			}
		}
		wt := warnText.String()
		for _, p := range append(append([]string{mpdName}, refs...), onemore...) {
			u := base + p
			if strings.Contains(res.Err, u) {
				named = append(named, p)
			}
			if strings.Contains(wt, u) {
				warned = append(warned, p)
			}
		}
		evs = append(evs, tr.E{"ev": "result", "id": sid, "seq": seq, "err": short(res.Err, 300), "panic": short(res.Panic, 200), "hung": res.Hung,
			"named": named, "warned": warned, "mpdlist": readMpdList(out), "wall_ms": res.WallMS})
		d.count("fetch_runs", 1)
		d.count("origin_requests", len(reqs))
		if res.Panic != "" {
			d.count("fetch_panics", 1)
		}
		if res.Hung {
			d.count("fetch_hung", 1)
			clean = false
			break // the goroutine is still running: no further runs into the same directory
		}
		if clean {
			for _, p := range append([]string{mpdName}, refs...) {
				if mir[p] == "" || mir[p] != org[p] {
					clean = false
				}
			}
		}
	}
	d.o.Unmount(sid)
	if clean && sc.Shape.Big != "ts10m" {
		d.mu.Lock()
		d.mirrors = append(d.mirrors, &mirrorCand{dir: out, asset: a, sid: sid})
		d.mu.Unlock()
	} else {
		os.RemoveAll(out)
	}
	if !clean || sc.Shape.Big == "ts10m" {
		os.RemoveAll(root)
	}
	return evs, nil
}

// FetchSupportedGo mirrors AssetMirrorOps!FetchSupported (used only to choose which mirrors are loaded afterwards).
func FetchSupportedGo(sh Shape) bool {
	return (sh.V == "numdur" || sh.V == "timetl") && (sh.A == "none" || sh.A == "numdur" || sh.A == "timetl") && sh.Base == "none" && sh.Typ != "dynamic"
}

// ---------------------------------------------------------------- (B) load scenarios

func gcd(a, b int64) int64 {
	for b != 0 {
		a, b = b, a%b
	}
	return a
}

// truthD is the record AssetMirrorOps!Accepted / MetaBad read: abstract damage + ground truth by construction.
func truthD(a *Asset, df Defect, k int, audio bool) tr.E {
	v := a.Reps[0]
	n0 := len(v.Segs)
	if a.DeclN > 0 {
		n0 = a.DeclN
	}
	am := a.Shape.A
	if !audio {
		am = "none"
	}
	return tr.E{"vmode": a.Shape.V, "amode": am, "typ": a.Shape.Typ, "lvl": a.Shape.Lvl, "base": a.Shape.Base, "lay": a.Shape.Lay,
		"kind": df.Kind, "rep": df.Rep, "pos": df.Pos, "how": df.How, "k": k, "n0": n0, "nfiles": len(v.Segs), "vts": v.TS,
		"durs": v.Durs, "pay": v.PayDig}
}

func obsE(o *MPDObs) tr.E {
	vd := []int64{0, 1}
	if o.VDur > 0 && o.VTS > 0 {
		g := gcd(o.VDur, o.VTS)
		vd = []int64{o.VDur / g, o.VTS / g}
	}
	ni := func(x []int) []int {
		if x == nil {
			return []int{}
		}
		return x
	}
	n64 := func(x []int64) []int64 {
		if x == nil {
			return []int64{}
		}
		return x
	}
	dig := o.SegDig
	if dig == nil {
		dig = []string{}
	}
	return tr.E{"loop": o.LoopMS, "mpdst": o.MpdSt, "vdur": vd, "initst": o.InitSt, "initts": o.InitTS, "nums": ni(o.Nums), "st": ni(o.SegSt),
		"dig": dig, "sdur": n64(o.SegDurs), "dt": n64(o.SegDT), "aud": ni(o.AudioSt)}
}

func emptyObs() *MPDObs { return &MPDObs{} }

type loadTarget struct {
	role  string
	path  string // asset path below the VoD root
	mpd   string
	d     tr.E
	m     int
	asset *Asset
}

func (d *driver) observeTree(sid, root string, targets []loadTarget, rng *rand.Rand) []tr.E {
	var evs []tr.E
	st := startServer(root)
	defer st.Close()
	evs = append(evs, tr.E{"ev": "start", "id": sid, "err": short(st.Err, 300), "panic": short(st.Panic, 300)})
	d.count("server_starts", 1)
	up := st.Srv != nil
	if !up {
		d.count("server_start_failures", 1)
	}
	listed := map[string]*ListedAsset{}
	if up {
		listed = parseAssetsPage(st.get("/assets").Body)
	}
	for _, t := range targets {
		o := emptyObs()
		if up {
			o = st.observeMPD(t.path, t.mpd, t.m, listed)
			o.markLogs(st.Logs, t.path, t.mpd)
			d.count("load_observations", 1)
			if o.Listed {
				d.count("listed", 1)
				d.count("live_segments_compared", len(o.Nums))
			} else {
				d.count("not_listed", 1)
			}
		}
		evs = append(evs, tr.E{"ev": "load", "id": sid, "role": t.role, "asset": t.path, "mpd": t.mpd, "d": t.d, "listed": o.Listed, "reflog": o.RefLog,
			"logs": strings.Join(o.LogTexts, " | "), "obs": obsE(o)})
	}
	if up {
		// /vod: files of the tree and paths that do not exist
		all, _ := listTree(root)
		var paths []string
		for p := range all {
			paths = append(paths, p)
		}
		sort.Strings(paths)
		rng.Shuffle(len(paths), func(i, j int) { paths[i], paths[j] = paths[j], paths[i] })
		if len(paths) > 6 {
			paths = paths[:6]
		}
		for _, t := range targets {
			paths = append(paths, t.path+"/"+t.mpd)
		}
		for _, p := range paths {
			r := st.get("/vod/" + p)
			bd := "-"
			if r.Status == 200 {
				bd = fmt.Sprintf("%s:%d", digest(r.Body), len(r.Body))
			}
			fd, ok := all[p]
			if !ok {
				fd = "-"
			}
			evs = append(evs, tr.E{"ev": "vod", "id": sid, "path": p, "exists": ok, "st": r.Status, "fdig": fd, "bdig": bd})
			d.count("vod_requests", 1)
		}
		for _, p := range []string{targets[0].path + "/nope.m4s", "nope/" + targets[0].mpd, targets[0].path + "/V300/999999.m4s"} {
			r := st.get("/vod/" + p)
			evs = append(evs, tr.E{"ev": "vod", "id": sid, "path": p, "exists": false, "st": r.Status, "fdig": "-", "bdig": "-"})
			d.count("vod_requests", 1)
		}
	}
	return evs
}

var loadDefault = Shape{V: "numnodur", A: "numnodur", SN: 1, Sub: "id", Lvl: "as", NV: 1, Base: "none", Big: "no", Lay: "u90k", Per: "start", Typ: "static", ADur: "same"}
var noDefect = Defect{Kind: "none", Rep: "-", Pos: "-", How: "-"}

func (d *driver) runLoadScenario(idx int, sc Scenario, raw json.RawMessage) ([]tr.E, error) {
	rng := rand.New(rand.NewSource(d.seed*1_000_003 + int64(idx)))
	sid := fmt.Sprintf("l%04d", idx)
	root := filepath.Join(d.work, "trees", sid)
	evs := []tr.E{{"ev": "hdr", "id": sid, "kind": "load", "sc": raw}}
	comp, err := d.b.Build(loadDefault, filepath.Join(root, "ok", "g0"), "Manifest.mpd")
	if err != nil {
		return nil, err
	}
	vpath := map[int]string{0: "var", 1: "lib/var", 2: "lib/sub/var", 3: "a/b/c/var"}[sc.Depth]
	if vpath == "" {
		return nil, fmt.Errorf("depth %d", sc.Depth)
	}
	sh := sc.Shape
	declN := 0
	if sc.Defect.Kind == "extra" {
		if sh.Lay != "u90k" || sh.Big != "no" {
			return nil, fmt.Errorf("extra segment only for layout u90k")
		}
		sh.Lay = "five"
		declN = 4
	}
	mpdName := []string{"Manifest.mpd", "stream.mpd"}[rng.Intn(2)]
	a, err := d.b.BuildDecl(sh, filepath.Join(root, filepath.FromSlash(vpath)), mpdName, declN)
	if err != nil {
		return nil, fmt.Errorf("scenario %d: %w", idx, err)
	}
	a.Shape.Lay = sc.Shape.Lay
	k, err := a.Apply(sc.Defect, rng)
	if err != nil {
		return nil, fmt.Errorf("scenario %d: %w", idx, err)
	}
	if err := noise(root, rng); err != nil {
		return nil, err
	}
	m := len(a.Reps[0].Segs) + 2
	targets := []loadTarget{
		{role: "variant", path: vpath, mpd: mpdName, d: truthD(a, sc.Defect, k, true), m: m, asset: a},
		{role: "companion", path: "ok/g0", mpd: "Manifest.mpd", d: truthD(comp, noDefect, 0, true), m: 6, asset: comp},
	}
	switch sc.Mpds {
	case "two":
		// a second MPD with the video AdaptationSet only: shares the video Representation(s)
		txt := a.MPDText()
		if i := strings.Index(txt, `    <AdaptationSet contentType="audio"`); i >= 0 {
			j := i + strings.Index(txt[i:], "</AdaptationSet>\n") + len("</AdaptationSet>\n")
			txt = txt[:i] + txt[j:]
		}
		if err := os.WriteFile(filepath.Join(a.Dir, "Manifest_video.mpd"), []byte(txt), 0o644); err != nil {
			return nil, err
		}
		targets = append(targets, loadTarget{role: "second", path: vpath, mpd: "Manifest_video.mpd", d: truthD(a, sc.Defect, k, false), m: m, asset: a})
	case "twobad":
		// a second MPD whose Representations (other ids) have no files
		txt := a.MPDText()
		txt = strings.NewReplacer(`id="V300"`, `id="V999"`, `id="V600"`, `id="V998"`, `id="A48"`, `id="A999"`,
			`initialization="`, `initialization="nx/`, `media="`, `media="nx/`).Replace(txt)
		if err := os.WriteFile(filepath.Join(a.Dir, "Manifest_bad.mpd"), []byte(txt), 0o644); err != nil {
			return nil, err
		}
		bad := Defect{Kind: "norep", Rep: "-", Pos: "-", How: "-"}
		targets = append(targets, loadTarget{role: "second", path: vpath, mpd: "Manifest_bad.mpd", d: truthD(a, bad, 0, true), m: m, asset: a})
	}
	evs = append(evs, d.observeTree(sid, root, targets, rng)...)
	os.RemoveAll(root)
	return evs, nil
}

// mirrorTrees loads the mirrors dashfetcher produced (complete, from supported MPDs on a correct origin) like any other asset.
func (d *driver) mirrorTrees(maxTrees, perTree int) ([]tr.E, error) {
	var evs []tr.E
	rng := rand.New(rand.NewSource(d.seed))
	sort.Slice(d.mirrors, func(i, j int) bool { return d.mirrors[i].sid < d.mirrors[j].sid })
	rng.Shuffle(len(d.mirrors), func(i, j int) { d.mirrors[i], d.mirrors[j] = d.mirrors[j], d.mirrors[i] })
	// prefer distinct shapes
	seen := map[Shape]bool{}
	var pick []*mirrorCand
	for _, mc := range d.mirrors {
		if !seen[mc.asset.Shape] {
			seen[mc.asset.Shape] = true
			pick = append(pick, mc)
		}
	}
	// a mirror whose MPD has no @type goes into a tree of its own (its scenario header carries the shape): such an MPD is a
	// class of its own for the loader
	var groups [][]*mirrorCand
	var normal []*mirrorCand
	alone := 0
	for _, mc := range pick {
		if mc.asset.Shape.Typ == "absent" {
			if alone < 2 {
				groups = append(groups, []*mirrorCand{mc})
				alone++
			}
			continue
		}
		normal = append(normal, mc)
	}
	for i := 0; i < len(normal) && len(groups) < maxTrees+alone; i += perTree {
		j := i + perTree
		if j > len(normal) {
			j = len(normal)
		}
		groups = append(groups, normal[i:j])
	}
	for t, grp := range groups {
		sid := fmt.Sprintf("m%04d", t)
		root := filepath.Join(d.work, "trees", sid)
		comp, err := d.b.Build(loadDefault, filepath.Join(root, "ok", "g0"), "Manifest.mpd")
		if err != nil {
			return nil, err
		}
		shape := loadDefault
		if len(grp) == 1 {
			shape = grp[0].asset.Shape
		}
		hdrSc, _ := json.Marshal(map[string]any{"kind": "load", "shape": shape, "defect": noDefect, "depth": 1, "mpds": "mirror"})
		evs = append(evs, tr.E{"ev": "hdr", "id": sid, "kind": "load", "sc": json.RawMessage(hdrSc)})
		targets := []loadTarget{}
		for _, mc := range grp {
			dst := filepath.Join(root, "mirrors", mc.sid)
			if err := os.MkdirAll(filepath.Dir(dst), 0o755); err != nil {
				return nil, err
			}
			if err := os.Rename(mc.dir, dst); err != nil {
				return nil, err
			}
			targets = append(targets, loadTarget{role: "mirror", path: "mirrors/" + mc.sid, mpd: mc.asset.MPDName, d: truthD(mc.asset, noDefect, 0, true),
				m: len(mc.asset.Reps[0].Segs) + 2, asset: mc.asset})
			d.count("mirrors_loaded", 1)
		}
		targets = append(targets, loadTarget{role: "companion", path: "ok/g0", mpd: "Manifest.mpd", d: truthD(comp, noDefect, 0, true), m: 6, asset: comp})
		evs = append(evs, d.observeTree(sid, root, targets, rng)...)
		os.RemoveAll(root)
	}
	return evs, nil
}

// ---------------------------------------------------------------- main

func Main(args []string) error {
	fs := flag.NewFlagSet("x05", flag.ContinueOnError)
	gen := fs.String("gen", "", "GEN lines of spec/AssetMirror.tla (jsonl)")
	out := fs.String("out", "", "trace file (ndjson)")
	work := fs.String("work", "", "scratch directory")
	seed := fs.Int64("seed", 1, "seed")
	workers := fs.Int("workers", 6, "parallel fetch scenarios")
	maxFetch := fs.Int("maxfetch", 0, "at most this many fetch scenarios (0 = all), stratified by seed")
	maxLoad := fs.Int("maxload", 0, "at most this many load scenarios (0 = all)")
	mirrorTrees := fs.Int("mirrortrees", 3, "trees of mirrored assets to load")
	if err := fs.Parse(args); err != nil {
		return err
	}
	if *gen == "" || *out == "" || *work == "" {
		return fmt.Errorf("usage: x05 -gen gen.jsonl -out trace.ndjson -work dir [-seed n]")
	}
	if err := os.MkdirAll(*work, 0o755); err != nil {
		return err
	}
	// chi's Recoverer prints stacks to the process's stderr: keep them in a file
	if lf, err := os.Create(filepath.Join(*work, "stderr.log")); err == nil {
		saved, _ := syscall.Dup(2)
		_ = syscall.Dup2(int(lf.Fd()), 2)
		defer func() { _ = syscall.Dup2(saved, 2) }()
	}
	InstallLogCapture()
	d := &driver{work: *work, seed: *seed, b: NewBuilder(*work), o: NewOrigin(), stats: map[string]int{}}
	defer d.o.Close()

	type item struct {
		sc  Scenario
		raw json.RawMessage
	}
	var fetch, load []item
	f, err := os.Open(*gen)
	if err != nil {
		return err
	}
	rd := bufio.NewScanner(f)
	rd.Buffer(make([]byte, 1<<20), 1<<24)
	for rd.Scan() {
		line := strings.TrimSpace(rd.Text())
		if line == "" {
			continue
		}
		var sc Scenario
		if err := json.Unmarshal([]byte(line), &sc); err != nil {
			return fmt.Errorf("gen line: %w", err)
		}
		it := item{sc, json.RawMessage(append([]byte{}, line...))}
		if sc.Kind == "fetch" {
			fetch = append(fetch, it)
		} else {
			load = append(load, it)
		}
	}
	f.Close()
	key := func(it item) string { return string(it.raw) }
	sort.Slice(fetch, func(i, j int) bool { return key(fetch[i]) < key(fetch[j]) })
	sort.Slice(load, func(i, j int) bool { return key(load[i]) < key(load[j]) })
	rng := rand.New(rand.NewSource(*seed))
	pick := func(items []item, max int) []item {
		if max <= 0 || len(items) <= max {
			return items
		}
		idx := rng.Perm(len(items))[:max]
		sort.Ints(idx)
		var outp []item
		for _, i := range idx {
			outp = append(outp, items[i])
		}
		return outp
	}
	fetch, load = pick(fetch, *maxFetch), pick(load, *maxLoad)

	w, err := tr.New(*out)
	if err != nil {
		return err
	}
	distinct := map[string]bool{}
	// (A) fetch scenarios in parallel; events written in scenario order
	results := make([][]tr.E, len(fetch))
	errs := make([]error, len(fetch))
	var wg sync.WaitGroup
	sem := make(chan struct{}, *workers)
	for i := range fetch {
		wg.Add(1)
		sem <- struct{}{}
		go func(i int) {
			defer wg.Done()
			defer func() { <-sem }()
			results[i], errs[i] = d.runFetchScenario(i, fetch[i].sc, fetch[i].raw)
			if i%16 == 0 {
				runtime.GC() // Fetch leaves its output files to the finalizers
			}
		}(i)
	}
	wg.Wait()
	for i := range fetch {
		if errs[i] != nil {
			return errs[i]
		}
		for _, e := range results[i] {
			w.Emit(e)
		}
		distinct[key(fetch[i])] = true
	}
	d.stats["fetch_scenarios"] = len(fetch)
	// (B) load scenarios, sequentially (SetupServer logs through the process-wide logger)
	for i := range load {
		evs, err := d.runLoadScenario(i, load[i].sc, load[i].raw)
		if err != nil {
			return err
		}
		for _, e := range evs {
			w.Emit(e)
		}
		distinct[key(load[i])] = true
	}
	d.stats["load_scenarios"] = len(load)
	// (A)->(B): mirrors as assets
	d.stats["mirror_candidates"] = len(d.mirrors)
	evs, err := d.mirrorTrees(*mirrorTrees, 8)
	if err != nil {
		return err
	}
	for _, e := range evs {
		w.Emit(e)
	}
	if err := w.Close(); err != nil {
		return err
	}
	for i := 0; i < len(fetch) && len(d.samples) < 4; i += 1 + len(fetch)/4 {
		d.samples = append(d.samples, short(key(fetch[i]), 300))
	}
	for i := 0; i < len(load) && len(d.samples) < 8; i += 1 + len(load)/4 {
		d.samples = append(d.samples, short(key(load[i]), 300))
	}
	st := map[string]any{"scenarios": len(fetch) + len(load), "events": w.N, "distinct": len(distinct), "samples": d.samples}
	for k, v := range d.stats {
		st[k] = v
	}
	tr.PrintStats(st)
	return nil
}

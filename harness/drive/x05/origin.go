package x05

import (
	"net/http"
	"net/http/httptest"
	"os"
	"path/filepath"
	"strings"
	"sync"
	"time"
)

// Origin is an HTTP origin (loopback listener) serving scenario directories under /<sid>/... with fault injection by path.
// It records every request it receives.
type Origin struct {
	ts  *httptest.Server
	mu  sync.Mutex
	sc  map[string]*originSc
	URL string
}

type Req struct {
	Path   string // relative to the scenario root
	Status int    // status sent (0: connection dropped before a response)
	Fault  string // fault applied ("" none)
	Sent   int    // body bytes sent
	Full   int    // size of the file
}

type originSc struct {
	root   string
	faults map[string]string // relpath -> fault kind; consumed once
	log    []Req
}

func NewOrigin() *Origin {
	o := &Origin{sc: map[string]*originSc{}}
	o.ts = httptest.NewServer(http.HandlerFunc(o.handle))
	o.URL = o.ts.URL
	return o
}

func (o *Origin) Close() { o.ts.Close() }

// Mount (re)defines what is served under /<sid>/ and with which faults; the request log of sid is cleared.
func (o *Origin) Mount(sid, root string, faults map[string]string) {
	o.mu.Lock()
	defer o.mu.Unlock()
	f := map[string]string{}
	for k, v := range faults {
		f[k] = v
	}
	o.sc[sid] = &originSc{root: root, faults: f}
}

func (o *Origin) Unmount(sid string) {
	o.mu.Lock()
	defer o.mu.Unlock()
	delete(o.sc, sid)
}

func (o *Origin) Log(sid string) []Req {
	o.mu.Lock()
	defer o.mu.Unlock()
	if s := o.sc[sid]; s != nil {
		return append([]Req{}, s.log...)
	}
	return nil
}

func (o *Origin) record(sid string, r Req) {
	o.mu.Lock()
	defer o.mu.Unlock()
	if s := o.sc[sid]; s != nil {
		s.log = append(s.log, r)
	}
}

func (o *Origin) handle(w http.ResponseWriter, r *http.Request) {
	parts := strings.SplitN(strings.TrimPrefix(r.URL.Path, "/"), "/", 2)
	if len(parts) != 2 {
		http.NotFound(w, r)
		return
	}
	sid, rel := parts[0], parts[1]
	o.mu.Lock()
	s := o.sc[sid]
	var fault, root string
	if s != nil {
		root = s.root
		fault = s.faults[rel]
		delete(s.faults, rel)
	}
	o.mu.Unlock()
	if s == nil || strings.Contains(rel, "..") {
		http.NotFound(w, r)
		return
	}
	data, err := os.ReadFile(filepath.Join(root, filepath.FromSlash(rel)))
	req := Req{Path: rel, Fault: fault, Full: len(data)}
	if err != nil {
		req.Status = 404
		o.record(sid, req)
		http.NotFound(w, r)
		return
	}
	switch fault {
	case "404", "500", "503":
		code := map[string]int{"404": 404, "500": 500, "503": 503}[fault]
		req.Status = code
		o.record(sid, req)
		http.Error(w, "injected fault", code)
		return
	case "drop":
		o.record(sid, req)
		panic(http.ErrAbortHandler) // connection closed without a response
	case "trunc", "stall":
		w.Header().Set("Content-Type", "application/octet-stream")
		w.Header().Set("Content-Length", itoa(len(data)))
		w.WriteHeader(200)
		half := len(data) / 2
		_, _ = w.Write(data[:half])
		if f, ok := w.(http.Flusher); ok {
			f.Flush()
		}
		req.Status, req.Sent = 200, half
		o.record(sid, req)
		if fault == "stall" {
			select {
			case <-r.Context().Done():
			case <-time.After(5 * time.Second):
			}
		}
		panic(http.ErrAbortHandler) // body ends before Content-Length bytes were sent
	}
	w.Header().Set("Content-Type", "application/octet-stream")
	w.Header().Set("Content-Length", itoa(len(data)))
	// recorded before the body is written: the client may finish (and the driver read the log) before Write returns
	req.Status, req.Sent = 200, len(data)
	o.record(sid, req)
	w.WriteHeader(200)
	_, _ = w.Write(data)
}

func itoa(n int) string {
	if n == 0 {
		return "0"
	}
	var b []byte
	for n > 0 {
		b = append([]byte{byte('0' + n%10)}, b...)
		n /= 10
	}
	return string(b)
}

package x05

import (
	"context"
	"encoding/xml"
	"fmt"
	"html"
	"math/rand"
	"net/http/httptest"
	"os"
	"path/filepath"
	"regexp"
	"runtime/debug"
	"strconv"
	"strings"
	"time"

	"github.com/Dash-Industry-Forum/livesim2/cmd/livesim2/app"

	"verifharness/project"
)

// Defect is one abstract damage applied to an asset directory (as enumerated by TLC).
type Defect struct {
	Kind string `json:"kind"` // none | seg | init | extra | nofiles | mpd
	Rep  string `json:"rep"`  // v | a | -
	Pos  string `json:"pos"`  // first | mid | last | -
	How  string `json:"how"`  // seg/init: missing | zero | trunc | garbage | nofrag | text ; mpd: twoperiods | garbage | empty | notemplate | noperiod | nodur ; else -
}

func (a *Asset) rep(which string) *Rep {
	for _, r := range a.Reps {
		if (which == "v" && r.Kind == "video") || (which == "a" && r.Kind == "audio") {
			return r
		}
	}
	return nil
}

// posIndex returns the 0-based segment index of an abstract position.
func posIndex(pos string, n int) int {
	switch pos {
	case "first":
		return 0
	case "last":
		return n - 1
	}
	return n / 2
}

func damageFile(p, how string, rng *rand.Rand) error {
	data, err := os.ReadFile(p)
	if err != nil {
		return err
	}
	switch how {
	case "missing":
		return os.Remove(p)
	case "zero":
		return os.WriteFile(p, nil, 0o644)
	case "trunc":
		return os.WriteFile(p, data[:len(data)/2], 0o644)
	case "garbage":
		g := make([]byte, len(data))
		rng.Read(g)
		// a plausible first box header so that the decoder starts reading
		copy(g, []byte{0, 0, 0, 24, 's', 't', 'y', 'p'})
		return os.WriteFile(p, g, 0o644)
	case "nofrag":
		// only the leading box (styp / ftyp) is left
		sz := int(data[0])<<24 | int(data[1])<<16 | int(data[2])<<8 | int(data[3])
		if sz <= 0 || sz > len(data) {
			return fmt.Errorf("%s: cannot find first box", p)
		}
		return os.WriteFile(p, data[:sz], 0o644)
	case "text":
		return os.WriteFile(p, []byte("<html><body>404 page not found</body></html>\n"), 0o644)
	}
	return fmt.Errorf("unknown damage %q", how)
}

// Apply damages the asset's files; it returns the 1-based index of the damaged segment (0 if none).
func (a *Asset) Apply(d Defect, rng *rand.Rand) (int, error) {
	switch d.Kind {
	case "none", "extra":
		return 0, nil
	case "seg":
		r := a.rep(d.Rep)
		if r == nil {
			return 0, fmt.Errorf("no %s representation", d.Rep)
		}
		i := posIndex(d.Pos, len(r.Segs))
		return i + 1, damageFile(filepath.Join(a.Dir, r.Segs[i]), d.How, rng)
	case "init":
		r := a.rep(d.Rep)
		if r == nil {
			return 0, fmt.Errorf("no %s representation", d.Rep)
		}
		return 0, damageFile(filepath.Join(a.Dir, r.Init), d.How, rng)
	case "nofiles":
		for _, p := range a.Referenced() {
			if err := os.Remove(filepath.Join(a.Dir, p)); err != nil {
				return 0, err
			}
		}
		return 0, nil
	case "mpd":
		p := filepath.Join(a.Dir, a.MPDName)
		txt := a.MPDText()
		switch d.How {
		case "garbage":
			txt = "this is not an MPD\x00\x01<<<"
		case "empty":
			txt = ""
		case "twoperiods":
			i := strings.Index(txt, "  <Period")
			j := strings.Index(txt, "</Period>") + len("</Period>\n")
			per := txt[i:j]
			second := strings.Replace(strings.Replace(per, `id="one"`, `id="two"`, 1), `start="PT0S"`, `start="PT100S"`, 1)
			txt = txt[:j] + second + txt[j:]
		case "noperiod":
			i := strings.Index(txt, "  <Period")
			j := strings.Index(txt, "</Period>") + len("</Period>\n")
			txt = txt[:i] + txt[j:]
		case "nodur":
			re := regexp.MustCompile(` mediaPresentationDuration="[^"]*"`)
			txt = re.ReplaceAllString(txt, "")
		case "notemplate":
			re := regexp.MustCompile(`(?s)<SegmentTemplate.*?(/>|</SegmentTemplate>)`)
			txt = re.ReplaceAllString(txt, `<SegmentBase indexRange="0-100"/>`)
		default:
			return 0, fmt.Errorf("unknown mpd defect %q", d.How)
		}
		return 0, os.WriteFile(p, []byte(txt), 0o644)
	}
	return 0, fmt.Errorf("unknown defect %+v", d)
}

// ---------------------------------------------------------------- server start with log capture

type Started struct {
	Srv   *app.Server
	Err   string
	Panic string
	Stack string
	Logs  []LogRec
	stop  context.CancelFunc
}

func startServer(vodRoot string) *Started {
	st := &Started{}
	cfg := app.DefaultConfig
	cfg.VodRoot = vodRoot
	cfg.RepDataRoot = ""
	cfg.WriteRepData = false
	cfg.TimeoutS = 0
	ctx, cancel := context.WithCancel(context.Background())
	st.stop = cancel
	func() {
		defer func() {
			if p := recover(); p != nil {
				st.Panic = fmt.Sprint(p)
				st.Stack = string(debug.Stack())
			}
		}()
		s, err := app.SetupServer(ctx, &cfg)
		if err != nil {
			st.Err = err.Error()
			return
		}
		st.Srv = s
	}()
	st.Logs = logCap.take(vodRoot)
	st.Logs = append(st.Logs, logCap.take("")...) // SetupServer runs alone in the process (load scenarios are sequential)
	return st
}

func (st *Started) Close() {
	if st.stop != nil {
		st.stop()
	}
}

type resp struct {
	Status int
	Body   []byte
}

func (st *Started) get(url string) resp {
	req := httptest.NewRequest("GET", url, nil)
	rr := httptest.NewRecorder()
	st.Srv.Router.ServeHTTP(rr, req)
	return resp{Status: rr.Code, Body: rr.Body.Bytes()}
}

// ---------------------------------------------------------------- /assets

type ListedAsset struct {
	Path   string
	LoopMS int
	MPDs   []string
}

var (
	secRe  = regexp.MustCompile(`(?s)<section>(.*?)</section>`)
	pathRe = regexp.MustCompile(`<strong>([^<]*)</strong>`)
	loopRe = regexp.MustCompile(`loop: (-?\d+)ms`)
	mpdRe  = regexp.MustCompile(`<td>([^<]*?) <span role="button"`)
)

func parseAssetsPage(body []byte) map[string]*ListedAsset {
	out := map[string]*ListedAsset{}
	for _, m := range secRe.FindAllSubmatch(body, -1) {
		sec := string(m[1])
		pm := pathRe.FindStringSubmatch(sec)
		if pm == nil {
			continue
		}
		la := &ListedAsset{Path: html.UnescapeString(pm[1]), LoopMS: -1}
		if lm := loopRe.FindStringSubmatch(sec); lm != nil {
			la.LoopMS, _ = strconv.Atoi(lm[1])
		}
		for _, mm := range mpdRe.FindAllStringSubmatch(sec, -1) {
			la.MPDs = append(la.MPDs, html.UnescapeString(mm[1]))
		}
		out[la.Path] = la
	}
	return out
}

// ---------------------------------------------------------------- live MPD (only what X05 needs)

type xTemplate struct {
	Media       string `xml:"media,attr"`
	Init        string `xml:"initialization,attr"`
	Duration    *int64 `xml:"duration,attr"`
	Timescale   *int64 `xml:"timescale,attr"`
	StartNumber *int64 `xml:"startNumber,attr"`
}
type xRep struct {
	ID        string     `xml:"id,attr"`
	Bandwidth int        `xml:"bandwidth,attr"`
	Template  *xTemplate `xml:"SegmentTemplate"`
}
type xAS struct {
	ContentType string     `xml:"contentType,attr"`
	Template    *xTemplate `xml:"SegmentTemplate"`
	Reps        []xRep     `xml:"Representation"`
}
type xPeriod struct {
	AS []xAS `xml:"AdaptationSet"`
}
type xMPD struct {
	Type    string    `xml:"type,attr"`
	Periods []xPeriod `xml:"Period"`
}

// MPDObs is what the driver observed for one (asset, MPD) of a started server.
type MPDObs struct {
	Listed   bool
	LoopMS   int
	MpdSt    int    // status of the live MPD request
	MpdErr   string // "" or why the served MPD could not be used
	VDur     int64  // video SegmentTemplate@duration / @timescale of the live MPD ($Number$ mode), 0 if absent
	VTS      int64
	StartNr  int   // startNumber of the live MPD (-1 absent)
	Nums     []int // requested video segment numbers
	SegSt    []int // status per requested number
	SegDig   []string
	SegDT    []int64 // tfdt(k+1) - tfdt(k) in video ticks (len = len(Nums)-1; -1 where unknown)
	SegDurs  []int64 // total sample duration per served segment (-1 unknown)
	InitSt   int
	InitTS   int64
	AudioSt  []int // status of the first and the last requested number of the audio representation (empty: no audio)
	RefLog   bool  // a WARN/ERROR log record of the start names the asset directory or MPD path
	LogTexts []string
}

func fillPattern(pat string, id string, bw int, nr int) string {
	pat = strings.ReplaceAll(pat, "$RepresentationID$", id)
	pat = strings.ReplaceAll(pat, "$Bandwidth$", fmt.Sprint(bw))
	return strings.ReplaceAll(pat, "$Number$", fmt.Sprint(nr))
}

const liveNowMS = 200_000

// observeMPD requests the live MPD of (assetPath, mpdName) and m consecutive video segments (numbers from the MPD's startNumber).
func (st *Started) observeMPD(assetPath, mpdName string, m int, listed map[string]*ListedAsset) *MPDObs {
	o := &MPDObs{StartNr: -1}
	if la := listed[assetPath]; la != nil {
		o.LoopMS = la.LoopMS
		for _, n := range la.MPDs {
			if n == mpdName {
				o.Listed = true
			}
		}
	}
	prefix := "/livesim2/tsbd_600/" + assetPath + "/"
	q := fmt.Sprintf("?nowMS=%d", liveNowMS)
	r := st.get(prefix + mpdName + q)
	o.MpdSt = r.Status
	if r.Status != 200 {
		return o
	}
	var mpd xMPD
	if err := xml.Unmarshal(r.Body, &mpd); err != nil || len(mpd.Periods) == 0 {
		o.MpdErr = "unreadable live MPD"
		return o
	}
	for _, as := range mpd.Periods[0].AS {
		if len(as.Reps) == 0 {
			continue
		}
		rep := as.Reps[0]
		t := as.Template
		if rep.Template != nil {
			t = rep.Template
		}
		if t == nil {
			o.MpdErr = "live MPD without SegmentTemplate"
			return o
		}
		sn := 1
		if t.StartNumber != nil {
			sn = int(*t.StartNumber)
		}
		switch as.ContentType {
		case "video":
			if t.Duration != nil {
				o.VDur = *t.Duration
			}
			o.VTS = 1
			if t.Timescale != nil {
				o.VTS = *t.Timescale
			}
			o.StartNr = sn
			ir := st.get(prefix + fillPattern(t.Init, rep.ID, rep.Bandwidth, 0) + q)
			o.InitSt = ir.Status
			var trex = (*project.Media)(nil)
			_ = trex
			if ir.Status == 200 {
				if init, err := project.ParseInit(ir.Body); err == nil && init.Moov != nil && init.Moov.Trak != nil {
					o.InitTS = int64(init.Moov.Trak.Mdia.Mdhd.Timescale)
					var prev int64 = -1
					for k := 0; k < m; k++ {
						nr := sn + k
						sr := st.get(prefix + fillPattern(t.Media, rep.ID, rep.Bandwidth, nr) + q)
						o.Nums = append(o.Nums, k)
						o.SegSt = append(o.SegSt, sr.Status)
						dig, dur, tfdt := "-", int64(-1), int64(-1)
						if sr.Status == 200 {
							if md, err := project.ParseMedia(sr.Body, init.Moov.Mvex.Trex); err == nil {
								dig, dur, tfdt = md.PayDig, int64(md.TotalDur), int64(md.Frags[0].Tfdt)
							} else {
								dig = "undecodable"
							}
						}
						o.SegDig = append(o.SegDig, dig)
						o.SegDurs = append(o.SegDurs, dur)
						if k > 0 {
							if prev >= 0 && tfdt >= 0 {
								o.SegDT = append(o.SegDT, tfdt-prev)
							} else {
								o.SegDT = append(o.SegDT, -1)
							}
						}
						prev = tfdt
					}
				}
			}
		case "audio":
			for _, k := range []int{0, m - 1} {
				sr := st.get(prefix + fillPattern(t.Media, rep.ID, rep.Bandwidth, sn+k) + q)
				o.AudioSt = append(o.AudioSt, sr.Status)
			}
		}
	}
	return o
}

// markLogs sets RefLog / LogTexts from the start's WARN+ records that name the asset.
func (o *MPDObs) markLogs(logs []LogRec, assetPath, mpdName string) {
	for _, l := range logs {
		if l.Level < 4 { // slog.LevelWarn
			continue
		}
		if strings.Contains(l.Text, assetPath+"/"+mpdName) || strings.Contains(l.Text, "="+assetPath+" ") || strings.HasSuffix(l.Text, "="+assetPath) ||
			strings.Contains(l.Text, "asset "+assetPath+" ") {
			o.RefLog = true
			if len(o.LogTexts) < 3 {
				t := l.Text
				if len(t) > 160 {
					t = t[:160]
				}
				o.LogTexts = append(o.LogTexts, t)
			}
		}
	}
}

// noise writes files that are not DASH content around the assets.
func noise(root string, rng *rand.Rand) error {
	files := map[string]string{
		"README.txt":             "not an asset\n",
		"misc/.DS_Store":         "\x00\x00\x00\x01Bud1",
		"misc/notes.mpd.bak":     "<MPD/>",
		"misc/archive/video.mp4": "\x00\x00\x00\x18ftypisom",
		"misc/page.html":         "<html></html>",
	}
	for p, c := range files {
		if rng.Intn(4) == 0 {
			continue
		}
		full := filepath.Join(root, p)
		if err := os.MkdirAll(filepath.Dir(full), 0o755); err != nil {
			return err
		}
		if err := os.WriteFile(full, []byte(c), 0o644); err != nil {
			return err
		}
	}
	// a directory whose name ends in .mpd
	return os.MkdirAll(filepath.Join(root, "misc", "dir.mpd"), 0o755)
}

var _ = time.Now

package x05

import (
	"context"
	"fmt"
	"log/slog"
	"runtime/debug"
	"strings"
	"sync"
	"time"

	fetcher "github.com/Dash-Industry-Forum/livesim2/cmd/dashfetcher/app"
)

// ---------------------------------------------------------------- log capture (dashfetcher and livesim2 log through slog.Default)

type LogRec struct {
	Level slog.Level
	Text  string // message and all attribute values
}

type capture struct {
	mu   sync.Mutex
	recs []LogRec
}

type capHandler struct {
	c     *capture
	attrs []slog.Attr
}

func (h *capHandler) Enabled(context.Context, slog.Level) bool { return true }
func (h *capHandler) Handle(_ context.Context, r slog.Record) error {
	var sb strings.Builder
	sb.WriteString(r.Message)
	for _, a := range h.attrs {
		fmt.Fprintf(&sb, " %s=%v", a.Key, a.Value)
	}
	r.Attrs(func(a slog.Attr) bool {
		fmt.Fprintf(&sb, " %s=%v", a.Key, a.Value)
		return true
	})
	h.c.mu.Lock()
	h.c.recs = append(h.c.recs, LogRec{Level: r.Level, Text: sb.String()})
	h.c.mu.Unlock()
	return nil
}
func (h *capHandler) WithAttrs(as []slog.Attr) slog.Handler {
	return &capHandler{c: h.c, attrs: append(append([]slog.Attr{}, h.attrs...), as...)}
}
func (h *capHandler) WithGroup(string) slog.Handler { return h }

var logCap = &capture{}

// InstallLogCapture makes slog.Default() record into logCap.
func InstallLogCapture() { slog.SetDefault(slog.New(&capHandler{c: logCap})) }

// take removes and returns the records whose text contains marker ("" = all).
func (c *capture) take(marker string) []LogRec {
	c.mu.Lock()
	defer c.mu.Unlock()
	var out, keep []LogRec
	for _, r := range c.recs {
		if marker == "" || strings.Contains(r.Text, marker) {
			out = append(out, r)
		} else {
			keep = append(keep, r)
		}
	}
	c.recs = keep
	return out
}

// ---------------------------------------------------------------- one dashfetcher run

type FetchResult struct {
	Err     string // error returned by Fetch ("" = nil)
	Panic   string // recovered panic value ("" = none)
	Hung    bool   // Fetch did not return within the bound
	Logs    []LogRec
	WallMS  int
	ErrNil  bool
	Stack   string
}

// runFetch calls dashfetcher's Fetch in-process. marker attributes captured log records to this run.
func runFetch(mpdURL, outDir string, force bool, maxTimeS int, marker string, bound time.Duration) FetchResult {
	type ret struct {
		err   error
		pan   any
		stack string
	}
	ch := make(chan ret, 1)
	t0 := time.Now()
	go func() {
		var r ret
		defer func() {
			if p := recover(); p != nil {
				r.pan = p
				r.stack = string(debug.Stack())
			}
			ch <- r
		}()
		r.err = fetcher.Fetch(&fetcher.Options{AssetURL: mpdURL, OutDir: outDir, Force: force, MaxTimeS: maxTimeS})
	}()
	var res FetchResult
	select {
	case r := <-ch:
		if r.pan != nil {
			res.Panic = fmt.Sprint(r.pan)
			res.Stack = r.stack
		} else if r.err != nil {
			res.Err = r.err.Error()
		} else {
			res.ErrNil = true
		}
	case <-time.After(bound):
		res.Hung = true
	}
	res.WallMS = int(time.Since(t0) / time.Millisecond)
	res.Logs = logCap.take(marker)
	return res
}

package c13

import (
	"fmt"

	"github.com/Comcast/gots/v2/scte35"
)

// crc32mpeg2 is CRC-32/MPEG-2 (poly 0x04C11DB7, init 0xFFFFFFFF, no reflection, no final xor), written here from
// the definition in ISO/IEC 13818-1 Annex A: the recorder does not use the library that built the section.
func crc32mpeg2(b []byte) uint32 {
	crc := uint32(0xFFFFFFFF)
	for _, x := range b {
		crc ^= uint32(x) << 24
		for i := 0; i < 8; i++ {
			if crc&0x80000000 != 0 {
				crc = (crc << 1) ^ 0x04C11DB7
			} else {
				crc <<= 1
			}
		}
	}
	return crc
}

// section is the driver's own decoding of a binary splice_info_section (SCTE 35 9.6, splice_insert 9.7.3).
type section struct {
	OK      bool // structurally decodable
	Err     string
	TableID int
	LenOK   bool // section_length and splice_command_length agree with the bytes
	CrcOK   bool
	Cmd     int
	EventID uint32
	Cancel  bool
	Out     bool
	Imm     bool
	HasPTS  bool
	HasDur  bool
	Auto    bool
	PTS     uint64 // (pts_time + pts_adjustment) mod 2^33: the splice time a SCTE 35 decoder obtains
	PTSRaw  uint64 // the pts_time field of splice_time()
	Adj     uint64 // the pts_adjustment field
	Break   uint64
}

type rd struct {
	b   []byte
	pos int
	err bool
}

func (r *rd) u8() uint64 {
	if r.pos >= len(r.b) {
		r.err = true
		return 0
	}
	v := r.b[r.pos]
	r.pos++
	return uint64(v)
}
func (r *rd) un(n int) uint64 {
	var v uint64
	for i := 0; i < n; i++ {
		v = v<<8 | r.u8()
	}
	return v
}

func decodeSection(b []byte) section {
	var s section
	s.TableID, s.Cmd = -1, -1
	if len(b) < 3+11+6 {
		s.Err = "too short"
		return s
	}
	r := &rd{b: b}
	s.TableID = int(r.u8())
	sl := int(r.un(2) & 0x0FFF)
	lenOK := sl == len(b)-3
	r.u8() // protocol_version
	x := r.un(5)
	encrypted := x>>39&1 == 1
	adj := x & 0x1FFFFFFFF
	r.u8() // cw_index
	y := r.un(3)
	cmdLen := int(y & 0x0FFF)
	s.Cmd = int(r.u8())
	cmdStart := r.pos
	if encrypted {
		s.Err = "encrypted"
		return s
	}
	if s.Cmd != 5 {
		s.Err = fmt.Sprintf("command type %d", s.Cmd)
		s.LenOK = lenOK
		s.CrcOK = crc32mpeg2(b) == 0
		return s
	}
	s.EventID = uint32(r.un(4))
	s.Cancel = r.u8()&0x80 != 0
	var pts uint64
	if !s.Cancel {
		f := r.u8()
		s.Out = f&0x80 != 0
		program := f&0x40 != 0
		s.HasDur = f&0x20 != 0
		s.Imm = f&0x10 != 0
		spliceTime := func() (bool, uint64) {
			t := r.u8()
			if t&0x80 != 0 {
				v := (t&0x01)<<32 | r.un(4)
				return true, v
			}
			return false, 0
		}
		if program && !s.Imm {
			s.HasPTS, pts = spliceTime()
		}
		if !program {
			n := int(r.u8())
			for i := 0; i < n; i++ {
				r.u8()
				if !s.Imm {
					spliceTime()
				}
			}
		}
		if s.HasDur {
			v := r.un(5)
			s.Auto = v>>39&1 == 1
			s.Break = v & 0x1FFFFFFFF
		}
		r.un(4) // unique_program_id, avail_num, avails_expected
	}
	cmdEnd := r.pos
	dl := int(r.un(2))
	if r.err || r.pos+dl+4 > len(b) {
		s.Err = "truncated"
		return s
	}
	s.OK = true
	s.LenOK = lenOK && (cmdLen == 0xFFF || cmdLen == cmdEnd-cmdStart)
	s.CrcOK = crc32mpeg2(b) == 0 // the CRC of a section including its CRC_32 field is zero
	s.PTS = (pts + adj) & 0x1FFFFFFFF
	s.PTSRaw, s.Adj = pts, adj
	return s
}

// gotsSection decodes the same bytes with github.com/Comcast/gots (second, independent-of-the-recorder decoder; gots
// expects a pointer_field before the table and does not verify the CRC).
type gsec struct {
	OK      bool
	Cmd     int
	EventID uint32
	PTS     uint64 // SCTE35.PTS(): includes the adjustment
	PTSRaw  uint64 // SpliceCommand.PTS(): the pts_time field
	HasDur  bool
	Break   uint64
}

func gotsSection(b []byte) (g gsec) {
	g.Cmd = -1
	defer func() {
		if recover() != nil {
			g = gsec{Cmd: -2}
		}
	}()
	s, err := scte35.NewSCTE35(append([]byte{0}, b...))
	if err != nil {
		return g
	}
	g.OK = true
	g.Cmd = int(s.Command())
	if s.HasPTS() {
		g.PTS = uint64(s.PTS())
		g.PTSRaw = uint64(s.CommandInfo().PTS())
	}
	if ci, ok := s.CommandInfo().(scte35.SpliceInsertCommand); ok {
		g.EventID = ci.EventID()
		g.HasDur = ci.HasDuration()
		if g.HasDur {
			g.Break = uint64(ci.Duration())
		}
	}
	return g
}

// p16 logs a value of up to 33 bits as the pair [v div 16, v mod 16] (TLC integers are 32-bit; 90000 = 16*5625).
func p16(v uint64) []int64 { return []int64{int64(v >> 4), int64(v & 15)} }

// Package c13 requests contiguous runs of segments of the real livesim2 server with SCTE-35 insertion enabled
// (URL part scte35_<N>) and records, per served segment, its media interval and every emsg box with the decoded
// splice_info_section (C13).  The recorder computes no expectation: times are logged as exact decompositions
// [seconds, ticks] of the observed 64-bit values by a timescale that is part of the record / header.
package c13

import (
	"bytes"
	"encoding/xml"
	"flag"
	"fmt"
	"math/rand"
	"os"
	"path/filepath"
	"strings"
	"sync"

	"github.com/Dash-Industry-Forum/livesim2/cmd/livesim2/app"
	"github.com/Eyevinn/mp4ff/mp4"

	"verifharness/assetgen"
	"verifharness/drive/tl"
	"verifharness/project"
	"verifharness/srv"
	"verifharness/tr"
)

// own layouts: segment durations 1 .. 10 s, whole and fractional, shifted first decode time (0.5 s / 0.4 s / 40 ms per sample)
func layouts(thorough bool) []assetgen.Layout {
	ls := []assetgen.Layout{
		{Name: "c13d1", TS: 1000, SampleDur: 500, SegSamples: []int{2, 2, 2, 2}, MpdStyle: "number"},
		{Name: "c13d3", TS: 90000, SampleDur: 45000, SegSamples: []int{6, 6}, MpdStyle: "number"},
		{Name: "c13d4o", TS: 1000, SampleDur: 500, SegSamples: []int{8, 8, 8}, Vod0: 1500, MpdStyle: "number"},
		{Name: "c13d5", TS: 48000, SampleDur: 24000, SegSamples: []int{10, 10}, MpdStyle: "number"},
		{Name: "c13d7", TS: 1000, SampleDur: 500, SegSamples: []int{14, 14}, MpdStyle: "timeline"},
		{Name: "c13d9", TS: 90000, SampleDur: 45000, SegSamples: []int{18}, MpdStyle: "number"},
		{Name: "c13d10", TS: 1000, SampleDur: 500, SegSamples: []int{20, 20, 20}, MpdStyle: "number"},
		{Name: "c13d75", TS: 600, SampleDur: 300, SegSamples: []int{15, 15}, MpdStyle: "number"},
		{Name: "c13mix", TS: 1000, SampleDur: 250, SegSamples: []int{38, 14, 20, 40}, MpdStyle: "number"}, // 9.5 / 3.5 / 5 / 10 s
		{Name: "c13d96", TS: 1000, SampleDur: 400, SegSamples: []int{24, 24}, MpdStyle: "number"},         // 9.6 s
		{Name: "c13d192", TS: 12800, SampleDur: 512, SegSamples: []int{48, 48, 48, 48}, MpdStyle: "number"},
		{Name: "c13d384", TS: 12800, SampleDur: 1024, SegSamples: []int{48, 48}, MpdStyle: "number"},
	}
	if thorough {
		ls = append(ls,
			assetgen.Layout{Name: "c13d2o", TS: 90000, SampleDur: 45000, SegSamples: []int{4, 4, 4}, Vod0: 63000, MpdStyle: "number"}, // 2 s shifted by 0.7 s
			assetgen.Layout{Name: "c13d6", TS: 1000, SampleDur: 500, SegSamples: []int{12, 12}, Vod0: 3000, MpdStyle: "number"},        // 6 s shifted by 3 s
			assetgen.Layout{Name: "c13d8o", TS: 1000, SampleDur: 500, SegSamples: []int{16, 16}, Vod0: 5000, MpdStyle: "number"},       // 8 s shifted by 5 s
			assetgen.Layout{Name: "c13d999", TS: 1000, SampleDur: 333, SegSamples: []int{30, 30}, MpdStyle: "number"},                  // 9.99 s
		)
	}
	return ls
}

// ---- MPD (own decoding with encoding/xml)
type xEvt struct {
	Scheme string `xml:"schemeIdUri,attr"`
	Value  string `xml:"value,attr"`
}
type xRep struct {
	ID     string `xml:"id,attr"`
	Mime   string `xml:"mimeType,attr"`
	Inband []xEvt `xml:"InbandEventStream"`
}
type xAS struct {
	ContentType string `xml:"contentType,attr"`
	Mime        string `xml:"mimeType,attr"`
	Inband      []xEvt `xml:"InbandEventStream"`
	Reps        []xRep `xml:"Representation"`
}
type xMPD struct {
	Periods []struct {
		AS []xAS `xml:"AdaptationSet"`
	} `xml:"Period"`
}

const scteBin = "urn:scte:scte35:2013:bin"

// mpdFacts returns one record per AdaptationSet of every Period (period index, kind, number of SCTE-35 InbandEventStream
// elements at AdaptationSet or Representation level) and [scheme, value] of every InbandEventStream of the video AdaptationSets.
func mpdFacts(body []byte) ([]any, [][]string, error) {
	var m xMPD
	if err := xml.Unmarshal(body, &m); err != nil {
		return nil, nil, err
	}
	as := []any{}
	inb := [][]string{}
	for pi, p := range m.Periods {
		for _, a := range p.AS {
			kind := a.ContentType
			mime := a.Mime
			if mime == "" && len(a.Reps) > 0 {
				mime = a.Reps[0].Mime
			}
			if kind == "" {
				kind, _, _ = strings.Cut(mime, "/")
				if kind == "application" {
					kind = "text"
				}
			}
			all := append([]xEvt{}, a.Inband...)
			for _, r := range a.Reps {
				all = append(all, r.Inband...)
			}
			n := 0
			for _, e := range all {
				if e.Scheme == scteBin {
					n++
				}
				if kind == "video" {
					inb = append(inb, []string{e.Scheme, e.Value})
				}
			}
			as = append(as, tr.E{"p": pi, "kind": kind, "nscte": n, "ninband": len(all)})
		}
	}
	return as, inb, nil
}

// countEmsg counts the emsg boxes of a served segment: inside fragments and at top level (no sample decoding needed).
func countEmsg(body []byte) (nfrag, ntop int, err error) {
	f, err := mp4.DecodeFile(bytes.NewReader(body))
	if err != nil {
		return 0, 0, err
	}
	for _, c := range f.Children {
		if c.Type() == "emsg" {
			ntop++
		}
	}
	for _, sg := range f.Segments {
		for _, fr := range sg.Fragments {
			nfrag += len(fr.Emsgs)
		}
	}
	if len(f.Segments) == 0 {
		return nfrag, ntop, fmt.Errorf("no media segment in body")
	}
	return nfrag, ntop, nil
}

// option is another documented URL option combined with scte35_<N>.
type option struct {
	name    string
	parts   []string // URL parts
	query   string   // Annex I: query the client has to repeat on MPD and video segment requests
	mode    string   // "" or an addressing mode
	snr     int      // -1: not given
	chunked bool     // chunked low-latency delivery: segments shorter than 1.5 s are not eligible (ato_1)
	periods bool     // multi-period: only assets with one segment duration that divides 60 s
	subs    []string // generated subtitle representations to request as well
}

func options(drmName string) []option {
	o := func(name string, parts ...string) option { return option{name: name, parts: parts, snr: -1} }
	l := []option{
		{name: "annexI", parts: []string{"annexI_a=1,b=x"}, query: "a=1&b=x", snr: -1},
		{name: "periods", parts: []string{"periods_60"}, periods: true, snr: -1},
		{name: "periods+continuous", parts: []string{"periods_60", "continuous_1"}, periods: true, snr: -1},
		o("patch", "patch_60"),
		{name: "timesubsstpp", parts: []string{"timesubsstpp_en,sv", "timesubsdur_900", "timesubsreg_1"}, subs: []string{"timestpp-en", "timestpp-sv"}, snr: -1},
		{name: "timesubswvtt", parts: []string{"timesubswvtt_en"}, subs: []string{"timewvtt-en"}, snr: -1},
		o("eccp_cenc", "eccp_cenc"), o("eccp_cbcs", "eccp_cbcs"),
		{name: "segtimeline", mode: "time", snr: -1}, {name: "segtimelinenr", mode: "tlnr", snr: -1},
		o("ato", "ato_1"),
		{name: "ato+chunkdur", parts: []string{"ato_1", "chunkdur_0.5"}, chunked: true, snr: -1},
		o("tsbd", "tsbd_30"),
		{name: "snr", snr: 5},
		o("mup", "mup_2"), o("spd", "spd_4"), o("utc", "utc_direct-head"), o("ltgt", "ltgt_2500"), o("sidx", "sidx_1"),
	}
	if drmName != "" {
		l = append(l, o("drm", "drm_"+drmName))
	}
	return l
}

// combine merges two options (thorough: pairwise); ok = false for pairs that cannot be expressed together.
func combine(a, b option) (option, bool) {
	if a.mode != "" && b.mode != "" {
		return a, false
	}
	c := option{name: a.name + " & " + b.name, parts: append(append([]string{}, a.parts...), b.parts...), query: a.query + b.query,
		mode: a.mode + b.mode, snr: a.snr, chunked: a.chunked || b.chunked, periods: a.periods || b.periods, subs: append(append([]string{}, a.subs...), b.subs...)}
	if b.snr >= 0 {
		c.snr = b.snr
	}
	seen := map[string]bool{}
	for _, p := range c.parts {
		k, _, _ := strings.Cut(p, "_")
		if seen[k] {
			return c, false
		}
		seen[k] = true
	}
	return c, true
}

func eligible(o option, a *tl.Asset) bool {
	rt := a.Video
	if o.periods {
		for _, d := range rt.Dur {
			if d != rt.Dur[0] {
				return false
			}
		}
		if (60*rt.TS)%rt.Dur[0] != 0 || rt.Vod0 != 0 {
			return false
		}
	}
	if o.chunked {
		for _, d := range rt.Dur {
			if 2*d < 3*rt.TS {
				return false
			}
		}
	}
	return true
}

// secPair is the exact decomposition [v div ts, v mod ts]; [-1, -1] if the seconds do not fit 31 bits.
func secPair(v uint64, ts int64) []int64 {
	if ts <= 0 {
		return []int64{-1, -1}
	}
	q, r := v/uint64(ts), v%uint64(ts)
	if q >= 1<<31 {
		return []int64{-1, -1}
	}
	return []int64{int64(q), int64(r)}
}

// i32 logs a uint32 as int32 (two's complement): values below 2^31 unchanged, others negative (TLC integers are 32-bit).
func i32(v uint32) int64 { return int64(int32(v)) }

type scen struct {
	a      *tl.Asset
	pm     int
	ast    int64
	mode   string
	epoch  string
	t0     int64 // media time (s) at which the run starts (the run starts at the loop boundary at or before t0)
	durS   int64
	others bool // also request audio / text segments of the run
	reject bool // also request scte35_<other>
	opt    *option // nil: scte35_<N> with start_ / addressing mode only
	sd     int64
}

const wrapTicks = uint64(1) << 33 // 33-bit PTS at 90 kHz: wraps every 2^33/90000 s = 95443.7 s

func wrapS(k int64) int64 { return int64(uint64(k) * wrapTicks / 90000) }

func Main(args []string) error {
	fs := flag.NewFlagSet("c13", flag.ExitOnError)
	out := fs.String("out", "c13", "trace output base name (<out>.<shard>.ndjson)")
	shards := fs.Int("shards", 1, "number of trace files")
	work := fs.String("work", "", "scratch directory for the VoD root")
	seed := fs.Int64("seed", 1, "seed")
	thorough := fs.Bool("thorough", false, "long runs, all layouts")
	only := fs.String("only", "", "restrict to one asset (debugging)")
	_ = fs.Parse(args)
	if *work == "" {
		return fmt.Errorf("-work required")
	}
	vod := filepath.Join(*work, "vod")
	_ = os.RemoveAll(vod)
	// own layouts are generated into the VoD root before the server starts: generate into a staging root first
	if err := os.MkdirAll(vod, 0o755); err != nil {
		return err
	}
	src := filepath.Join(srv.BundledAssets(), "testpic_2s")
	var own []*tl.Asset
	for _, lay := range layouts(*thorough) {
		t, err := assetgen.Generate(vod, src, lay)
		if err != nil {
			return fmt.Errorf("generate %s: %w", lay.Name, err)
		}
		own = append(own, &tl.Asset{Name: t.Name, MPD: t.MPD, LoopMS: t.LoopMS, Video: t.Video, Audio: t.Audio, Gen: true})
	}
	env, err := tl.Setup(vod, *thorough)
	if err != nil {
		return err
	}
	assets := append(append([]*tl.Asset{}, env.Assets...), own...)
	// own server over the same VoD root, with the repository's test DRM configuration (drm_<package>)
	drmName := "EZDRM-1-key-cbcs-test"
	S, err := srv.New(vod, func(c *app.ServerConfig) { c.DrmCfgFile = filepath.Join(srv.RepoRoot(), "pkg", "drm", "testdata", "drm_config_test.json") })
	if err != nil {
		return err
	}
	rng := rand.New(rand.NewSource(*seed))

	asts := []int64{0, 1000, 1_699_999_020, 1_700_000_017} // % 60 = 0, 40, 0, 37
	modes := []string{"number", "time", "tlnr"}
	epochs := []string{"start", "wrap1", "y2025", "wrapK"}
	t0of := func(epoch string, ast, durS int64, rng *rand.Rand) int64 {
		switch epoch {
		case "start":
			return 0
		case "wrap1": // the run straddles the first 33-bit PTS wrap (26.5 h of media time)
			return wrapS(1) - durS/2 - int64(rng.Intn(60))
		case "y2025": // wall clock in 2025 (media time = wall clock - start)
			return 1_750_000_000 + int64(rng.Intn(20_000_000)) - ast
		default: // a later wrap, wall clock 2025 when start = 0
			k := (1_750_000_000-ast)/wrapS(1) + int64(rng.Intn(200))
			return wrapS(k) - durS/2 - int64(rng.Intn(60))
		}
	}
	var scens []scen
	sd := int(*seed)
	for ai, a := range assets {
		if *only != "" && a.Name != *only {
			continue
		}
		long := (ai+sd)%3 + 1
		for pm := 1; pm <= 3; pm++ {
			durS := int64(20 * 60)
			if *thorough {
				durS = 3600
				if pm == long {
					durS = 4 * 3600
				}
			}
			ep := epochs[(ai+pm+sd)%4]
			ast := asts[(ai+2*pm+sd)%4]
			r := rand.New(rand.NewSource(*seed*7919 + int64(ai*10+pm)))
			scens = append(scens, scen{a: a, pm: pm, ast: ast, mode: modes[(ai+pm)%3], epoch: ep, t0: t0of(ep, ast, durS+120, r), durS: durS + 120,
				others: pm == long, reject: pm == long, sd: r.Int63()})
			if *thorough {
				// every epoch x two start times for 20 minutes
				for ei, e2 := range epochs {
					ast2 := asts[(ai+pm+ei+sd)%4]
					scens = append(scens, scen{a: a, pm: pm, ast: ast2, mode: modes[(ai+pm+ei)%3], epoch: e2, t0: t0of(e2, ast2, 1320, r), durS: 1320, sd: r.Int63()})
				}
			}
		}
	}
	// scte35_<N> combined with every other documented option: singly (quick: one asset each, thorough: three), pairwise (thorough)
	opts := options(drmName)
	var combos []option
	for _, o := range opts {
		combos = append(combos, o)
	}
	reps := 1
	if *thorough {
		reps = 3
		for i := range opts {
			for j := i + 1; j < len(opts); j++ {
				if c, ok := combine(opts[i], opts[j]); ok {
					combos = append(combos, c)
				}
			}
		}
	}
	nopt := 0
	if *only == "" {
		for oi := range combos {
			o := &combos[oi]
			var el []*tl.Asset
			for _, a := range assets {
				if eligible(*o, a) {
					el = append(el, a)
				}
			}
			if len(el) == 0 {
				continue
			}
			n := reps
			if oi >= len(opts) {
				n = 1
			}
			for r := 0; r < n; r++ {
				k := oi*5 + r*7 + sd
				a := el[k%len(el)]
				pm := k%3 + 1
				ast := asts[(k/3)%4]
				ep := []string{"start", "y2025"}[(k/2)%2]
				rr := rand.New(rand.NewSource(*seed*104729 + int64(oi*10+r)))
				scens = append(scens, scen{a: a, pm: pm, ast: ast, mode: "number", epoch: ep, t0: t0of(ep, ast, 300, rr), durS: 300, opt: o, sd: rr.Int63()})
				nopt++
			}
		}
	}
	_ = rng

	var mu sync.Mutex
	nskip := 0
	optSeen := map[string]bool{}
	nseg, nemsg, noth, nrej, nmpd, nwrap, nothSkipped := 0, 0, 0, 0, 0, 0, 0
	var streamS int64
	distinct := map[string]bool{}
	samples := []any{}

	runScen := func(idx int, emit func(tr.E)) {
		sc := scens[idx]
		a, rt := sc.a, sc.a.Video
		scte := fmt.Sprintf("scte35_%d", sc.pm)
		extra, extra0, mode, snr, query, optName, chunked := []string{scte}, []string{}, sc.mode, -1, "", "", false
		var subs []string
		if o := sc.opt; o != nil {
			extra0 = o.parts
			if idx%2 == 0 { // either order of the URL parts
				extra = append([]string{scte}, o.parts...)
			} else {
				extra = append(append([]string{}, o.parts...), scte)
			}
			if o.mode != "" {
				mode = o.mode
			}
			snr, optName, chunked, subs = o.snr, o.name, o.chunked, o.subs
			if o.query != "" {
				query = "&" + o.query
			}
		}
		c := tl.Cfg{Mode: mode, SNR: snr, AST: sc.ast, TSBD: -1, Extra: extra}
		c0 := tl.Cfg{Mode: mode, SNR: snr, AST: sc.ast, TSBD: -1, Extra: extra0}
		cNum := tl.Cfg{Mode: "number", SNR: snr, AST: sc.ast, TSBD: -1, Extra: extra}
		// first segment: loop boundary at or before t0
		k0 := sc.t0 * rt.TS / rt.L
		if k0 < 0 {
			k0 = 0
		}
		n0 := k0 * int64(rt.N)
		startTicks := tl.StartTicks(rt, n0)
		// MPD at the instant the first segment of the run is available
		now0 := sc.ast*1000 + tl.AvailRelMS(rt, n0, 0) + 1
		if sc.opt != nil {
			// a combination the server refuses even without scte35_<N> is not C13's business: counted, not judged
			if r := S.Get(c0.Prefix(a.Name) + "/" + a.MPD + "?nowMS=" + fmt.Sprint(now0) + query); r.Status != 200 {
				mu.Lock()
				nskip++
				mu.Unlock()
				return
			}
		}
		emit(tr.E{"ev": "hdr", "sc": idx, "asset": a.Name, "rep": rt.ID, "TS": rt.TS, "pm": sc.pm, "ast": sc.ast, "astmod": sc.ast % 60,
			"mode": mode, "epoch": sc.epoch, "cfg": strings.Join(c.Parts(), "/"), "N": rt.N, "dur": rt.Dur, "vod0": rt.Vod0, "run_s": sc.durS,
			"opts": optName, "chunked": chunked})
		getMPD := func(now int64) {
			u := c.Prefix(a.Name) + "/" + a.MPD + "?nowMS=" + fmt.Sprint(now) + query
			r := S.Get(u)
			as, inb := []any{}, [][]string{}
			if r.Status == 200 {
				if x, y, err := mpdFacts(r.Body); err == nil {
					as, inb = x, y
				}
			}
			emit(tr.E{"ev": "mpd", "st": r.Status, "as": as, "inband": inb, "url": u})
		}
		getMPD(now0)
		segs, emsgs, oth := 0, 0, 0
		lastN := n0
		for n := n0; tl.StartTicks(rt, n)-startTicks < sc.durS*rt.TS; n++ {
			now := sc.ast*1000 + tl.AvailRelMS(rt, n, 0) + 1
			url := tl.SegURL(c, a, rt, n) + "?nowMS=" + fmt.Sprint(now) + query
			r := S.Get(url)
			e := tr.E{"ev": "seg", "n": fmt.Sprint(n), "st": r.Status, "st0": -1, "perr": "", "run": n > n0, "s": []int64{-1, 0}, "e": []int64{-1, 0},
				"ntop": 0, "emsgs": []any{}, "url": url}
			if r.Status != 200 {
				e["st0"] = S.Get(tl.SegURL(c0, a, rt, n) + "?nowMS=" + fmt.Sprint(now) + query).Status
			} else if m, err := project.ParseMedia(r.Body, rt.Trex); err != nil {
				e["perr"] = err.Error()
			} else {
				s := m.Frags[0].Tfdt
				e["s"] = secPair(s, rt.TS)
				e["e"] = secPair(s+m.TotalDur, rt.TS)
				ntop := 0
				for _, bt := range m.BoxTypes {
					if bt == "emsg" {
						ntop++
					}
				}
				e["ntop"] = ntop
				list := []any{}
				for fi, f := range m.Frags {
					for _, x := range f.Emsg {
						pt := x.PresentationTime
						if x.Version == 0 { // delta relative to the segment start, in the emsg timescale
							pt = s*uint64(x.TimeScale)/uint64(rt.TS) + uint64(x.PresentationTimeDelta)
						}
						d := decodeSection(x.MessageData)
						g := gotsSection(x.MessageData)
						list = append(list, tr.E{"ver": int(x.Version), "ets": i32(x.TimeScale), "pt": secPair(pt, int64(x.TimeScale)), "id": i32(x.ID),
							"dur": i32(x.EventDuration), "scheme": x.SchemeIDURI, "value": x.Value, "frag": fi, "mlen": len(x.MessageData),
							"ok": d.OK, "serr": d.Err, "tid": d.TableID, "lenok": d.LenOK, "crcok": d.CrcOK, "cmd": d.Cmd, "eid": i32(d.EventID),
							"cancel": d.Cancel, "out": d.Out, "imm": d.Imm, "haspts": d.HasPTS, "hasdur": d.HasDur, "auto": d.Auto,
							"pts16": p16(d.PTS), "ptsraw16": p16(d.PTSRaw), "adj16": p16(d.Adj), "bd16": p16(d.Break),
							"gok": g.OK, "gcmd": g.Cmd, "geid": i32(g.EventID), "gpts16": p16(g.PTS), "gptsraw16": p16(g.PTSRaw), "gbd16": p16(g.Break)})
					}
				}
				e["emsgs"] = list
				emsgs += len(list)
			}
			emit(e)
			segs++
			lastN = n
			type orep struct{ kind, id, url string }
			var oreps []orep
			if sc.others {
				if a.Audio != nil {
					oreps = append(oreps, orep{"audio", a.Audio.ID, tl.SegURL(cNum, a, a.Audio, n)})
				}
				if a.Text != nil {
					oreps = append(oreps, orep{"text", a.Text.ID, tl.SegURL(cNum, a, a.Text, n)})
				}
			}
			for _, id := range subs { // generated subtitle representations (timesubsstpp_ / timesubswvtt_)
				oreps = append(oreps, orep{"text", id, fmt.Sprintf("%s/%s/%d.m4s", cNum.Prefix(a.Name), id, n+cNum.EffSNR())})
			}
			for _, o := range oreps {
				u := o.url + "?nowMS=" + fmt.Sprint(now+3000)
				r := S.Get(u)
				if r.Status != 200 {
					// not C13's business (e.g. an audio track whose loop length differs from the video's): counted, not judged
					mu.Lock()
					nothSkipped++
					mu.Unlock()
					continue
				}
				oe := tr.E{"ev": "oseg", "kind": o.kind, "rep": o.id, "n": fmt.Sprint(n), "st": r.Status, "perr": "", "nemsg": 0, "ntop": 0, "url": u}
				if ne, nt, err := countEmsg(r.Body); err != nil {
					oe["perr"] = err.Error()
				} else {
					oe["nemsg"], oe["ntop"] = ne, nt
				}
				emit(oe)
				oth++
			}
		}
		getMPD(sc.ast*1000 + tl.AvailRelMS(rt, lastN, 0) + 1)
		rej := 0
		if sc.reject {
			n := n0 + 1
			now := sc.ast*1000 + tl.AvailRelMS(rt, n, 0) + 1
			for _, val := range []string{"0", "4", "-1", "10", "60", "x", "1.5", "2x"} {
				cr := tl.Cfg{Mode: sc.mode, SNR: -1, AST: sc.ast, TSBD: -1, Extra: []string{"scte35_" + val}}
				u := cr.Prefix(a.Name) + "/" + a.MPD + "?nowMS=" + fmt.Sprint(now)
				emit(tr.E{"ev": "rej", "what": "mpd", "val": val, "st": S.Get(u).Status, "url": u})
				u = tl.SegURL(cr, a, rt, n) + "?nowMS=" + fmt.Sprint(now)
				emit(tr.E{"ev": "rej", "what": "video segment", "val": val, "st": S.Get(u).Status, "url": u})
				rej += 2
			}
		}
		emit(tr.E{"ev": "end", "sc": idx, "segs": segs, "emsgs": emsgs})
		// the run (an input) straddles a multiple of 2^33 ticks of the 90 kHz clock
		wrapIdx := func(ticks int64) uint64 { return uint64(ticks/rt.TS) * 90000 / wrapTicks }
		wrapped := wrapIdx(startTicks) != wrapIdx(tl.EndTicks(rt, lastN))
		mu.Lock()
		nseg += segs
		nemsg += emsgs
		noth += oth
		nrej += rej
		nmpd += 2
		if optName != "" {
			optSeen[optName] = true
		}
		streamS += sc.durS
		if wrapped {
			nwrap++
		}
		distinct[fmt.Sprintf("%s|%d|%d|%s|%s|%s", a.Name, sc.pm, sc.ast, mode, sc.epoch, optName)] = true
		if len(samples) < 6 && idx%7 == 0 {
			samples = append(samples, map[string]any{"asset": a.Name, "dur": rt.Dur, "TS": rt.TS, "vod0": rt.Vod0, "scte35": sc.pm, "start": sc.ast,
				"mode": sc.mode, "epoch": sc.epoch, "first_segment": fmt.Sprint(n0), "segments": segs, "emsg": emsgs})
		}
		mu.Unlock()
	}

	// shards: scenario idx goes to file idx % shards (scenarios stay contiguous inside a file)
	events := 0
	for sh := 0; sh < *shards; sh++ {
		w, err := tr.New(fmt.Sprintf("%s.%d.ndjson", *out, sh))
		if err != nil {
			return err
		}
		var ids []int
		for i := range scens {
			if i%*shards == sh {
				ids = append(ids, i)
			}
		}
		tl.RunParallel(w, len(ids), 8, func(j int, emit func(tr.E)) { runScen(ids[j], emit) })
		if err := w.Close(); err != nil {
			return err
		}
		events += w.N
	}
	tr.PrintStats(map[string]any{"scenarios": len(scens) - nskip, "option_scenarios": nopt - nskip, "options_covered": len(optSeen), "options_single": len(opts),
		"combinations_refused_without_scte35": nskip, "events": events, "segments": nseg, "emsgs": nemsg, "other_rep_segments": noth, "other_rep_not_served": nothSkipped,
		"rejections": nrej, "mpds": nmpd, "stream_hours": float64(streamS) / 3600, "runs_with_pts_wrap": nwrap,
		"distinct": len(distinct), "samples": samples, "assets": len(assets)})
	return nil
}

// Package c13 requests contiguous runs of segments of the real livesim2 server with SCTE-35 insertion enabled
// (URL part scte35_<N>) and records, per served segment, its media interval and every emsg box with the decoded
// splice_info_section (C13).  The recorder computes no expectation: times are logged as exact decompositions
// [seconds, ticks] of the observed 64-bit values by a timescale that is part of the record / header.
package c13

import (
	"encoding/xml"
	"flag"
	"fmt"
	"math/rand"
	"os"
	"path/filepath"
	"strings"
	"sync"

	"verifharness/assetgen"
	"verifharness/drive/tl"
	"verifharness/project"
	"verifharness/srv"
	"verifharness/tr"
)

// own layouts: segment durations 1 .. 10 s, whole and fractional, shifted first decode time (0.5 s / 0.4 s / 40 ms per sample)
func layouts(thorough bool) []assetgen.Layout {
	ls := []assetgen.Layout{
		{Name: "c13d1", TS: 1000, SampleDur: 500, SegSamples: []int{2, 2, 2, 2}, MpdStyle: "number"},
		{Name: "c13d3", TS: 90000, SampleDur: 45000, SegSamples: []int{6, 6}, MpdStyle: "number"},
		{Name: "c13d4o", TS: 1000, SampleDur: 500, SegSamples: []int{8, 8, 8}, Vod0: 1500, MpdStyle: "number"},
		{Name: "c13d5", TS: 48000, SampleDur: 24000, SegSamples: []int{10, 10}, MpdStyle: "number"},
		{Name: "c13d7", TS: 1000, SampleDur: 500, SegSamples: []int{14, 14}, MpdStyle: "timeline"},
		{Name: "c13d9", TS: 90000, SampleDur: 45000, SegSamples: []int{18}, MpdStyle: "number"},
		{Name: "c13d10", TS: 1000, SampleDur: 500, SegSamples: []int{20, 20, 20}, MpdStyle: "number"},
		{Name: "c13d75", TS: 600, SampleDur: 300, SegSamples: []int{15, 15}, MpdStyle: "number"},
		{Name: "c13mix", TS: 1000, SampleDur: 250, SegSamples: []int{38, 14, 20, 40}, MpdStyle: "number"}, // 9.5 / 3.5 / 5 / 10 s
		{Name: "c13d96", TS: 1000, SampleDur: 400, SegSamples: []int{24, 24}, MpdStyle: "number"},         // 9.6 s
		{Name: "c13d192", TS: 12800, SampleDur: 512, SegSamples: []int{48, 48, 48, 48}, MpdStyle: "number"},
		{Name: "c13d384", TS: 12800, SampleDur: 1024, SegSamples: []int{48, 48}, MpdStyle: "number"},
	}
	if thorough {
		ls = append(ls,
			assetgen.Layout{Name: "c13d2o", TS: 90000, SampleDur: 45000, SegSamples: []int{4, 4, 4}, Vod0: 63000, MpdStyle: "number"}, // 2 s shifted by 0.7 s
			assetgen.Layout{Name: "c13d6", TS: 1000, SampleDur: 500, SegSamples: []int{12, 12}, Vod0: 3000, MpdStyle: "number"},        // 6 s shifted by 3 s
			assetgen.Layout{Name: "c13d8o", TS: 1000, SampleDur: 500, SegSamples: []int{16, 16}, Vod0: 5000, MpdStyle: "number"},       // 8 s shifted by 5 s
			assetgen.Layout{Name: "c13d999", TS: 1000, SampleDur: 333, SegSamples: []int{30, 30}, MpdStyle: "number"},                  // 9.99 s
		)
	}
	return ls
}

// ---- MPD (own decoding with encoding/xml)
type xEvt struct {
	Scheme string `xml:"schemeIdUri,attr"`
	Value  string `xml:"value,attr"`
}
type xRep struct {
	ID     string `xml:"id,attr"`
	Mime   string `xml:"mimeType,attr"`
	Inband []xEvt `xml:"InbandEventStream"`
}
type xAS struct {
	ContentType string `xml:"contentType,attr"`
	Mime        string `xml:"mimeType,attr"`
	Inband      []xEvt `xml:"InbandEventStream"`
	Reps        []xRep `xml:"Representation"`
}
type xMPD struct {
	Periods []struct {
		AS []xAS `xml:"AdaptationSet"`
	} `xml:"Period"`
}

// inbandOfVideo returns [scheme, value] of every InbandEventStream of the AdaptationSets holding representation repID.
func inbandOfVideo(body []byte, repID string) ([][]string, error) {
	var m xMPD
	if err := xml.Unmarshal(body, &m); err != nil {
		return nil, err
	}
	out := [][]string{}
	for _, p := range m.Periods {
		for _, as := range p.AS {
			has := false
			for _, r := range as.Reps {
				if r.ID == repID {
					has = true
				}
			}
			if !has {
				continue
			}
			for _, e := range as.Inband {
				out = append(out, []string{e.Scheme, e.Value})
			}
			for _, r := range as.Reps {
				if r.ID == repID {
					for _, e := range r.Inband {
						out = append(out, []string{e.Scheme, e.Value})
					}
				}
			}
		}
	}
	return out, nil
}

// secPair is the exact decomposition [v div ts, v mod ts]; [-1, -1] if the seconds do not fit 31 bits.
func secPair(v uint64, ts int64) []int64 {
	if ts <= 0 {
		return []int64{-1, -1}
	}
	q, r := v/uint64(ts), v%uint64(ts)
	if q >= 1<<31 {
		return []int64{-1, -1}
	}
	return []int64{int64(q), int64(r)}
}

// i32 logs a uint32 as int32 (two's complement): values below 2^31 unchanged, others negative (TLC integers are 32-bit).
func i32(v uint32) int64 { return int64(int32(v)) }

type scen struct {
	a      *tl.Asset
	pm     int
	ast    int64
	mode   string
	epoch  string
	t0     int64 // media time (s) at which the run starts (the run starts at the loop boundary at or before t0)
	durS   int64
	others bool // also request audio / text segments of the run
	reject bool // also request scte35_<other>
	sd     int64
}

const wrapTicks = uint64(1) << 33 // 33-bit PTS at 90 kHz: wraps every 2^33/90000 s = 95443.7 s

func wrapS(k int64) int64 { return int64(uint64(k) * wrapTicks / 90000) }

func Main(args []string) error {
	fs := flag.NewFlagSet("c13", flag.ExitOnError)
	out := fs.String("out", "c13", "trace output base name (<out>.<shard>.ndjson)")
	shards := fs.Int("shards", 1, "number of trace files")
	work := fs.String("work", "", "scratch directory for the VoD root")
	seed := fs.Int64("seed", 1, "seed")
	thorough := fs.Bool("thorough", false, "long runs, all layouts")
	only := fs.String("only", "", "restrict to one asset (debugging)")
	_ = fs.Parse(args)
	if *work == "" {
		return fmt.Errorf("-work required")
	}
	vod := filepath.Join(*work, "vod")
	_ = os.RemoveAll(vod)
	// own layouts are generated into the VoD root before the server starts: generate into a staging root first
	if err := os.MkdirAll(vod, 0o755); err != nil {
		return err
	}
	src := filepath.Join(srv.BundledAssets(), "testpic_2s")
	var own []*tl.Asset
	for _, lay := range layouts(*thorough) {
		t, err := assetgen.Generate(vod, src, lay)
		if err != nil {
			return fmt.Errorf("generate %s: %w", lay.Name, err)
		}
		own = append(own, &tl.Asset{Name: t.Name, MPD: t.MPD, LoopMS: t.LoopMS, Video: t.Video, Audio: t.Audio, Gen: true})
	}
	env, err := tl.Setup(vod, *thorough)
	if err != nil {
		return err
	}
	assets := append(append([]*tl.Asset{}, env.Assets...), own...)
	rng := rand.New(rand.NewSource(*seed))

	asts := []int64{0, 1000, 1_699_999_020, 1_700_000_017} // % 60 = 0, 40, 0, 37
	modes := []string{"number", "time", "tlnr"}
	epochs := []string{"start", "wrap1", "y2025", "wrapK"}
	t0of := func(epoch string, ast, durS int64, rng *rand.Rand) int64 {
		switch epoch {
		case "start":
			return 0
		case "wrap1": // the run straddles the first 33-bit PTS wrap (26.5 h of media time)
			return wrapS(1) - durS/2 - int64(rng.Intn(60))
		case "y2025": // wall clock in 2025 (media time = wall clock - start)
			return 1_750_000_000 + int64(rng.Intn(20_000_000)) - ast
		default: // a later wrap, wall clock 2025 when start = 0
			k := (1_750_000_000-ast)/wrapS(1) + int64(rng.Intn(200))
			return wrapS(k) - durS/2 - int64(rng.Intn(60))
		}
	}
	var scens []scen
	sd := int(*seed)
	for ai, a := range assets {
		if *only != "" && a.Name != *only {
			continue
		}
		long := (ai+sd)%3 + 1
		for pm := 1; pm <= 3; pm++ {
			durS := int64(20 * 60)
			if *thorough {
				durS = 3600
				if pm == long {
					durS = 4 * 3600
				}
			}
			ep := epochs[(ai+pm+sd)%4]
			ast := asts[(ai+2*pm+sd)%4]
			r := rand.New(rand.NewSource(*seed*7919 + int64(ai*10+pm)))
			scens = append(scens, scen{a: a, pm: pm, ast: ast, mode: modes[(ai+pm)%3], epoch: ep, t0: t0of(ep, ast, durS+120, r), durS: durS + 120,
				others: pm == long, reject: pm == long, sd: r.Int63()})
			if *thorough {
				// every epoch x two start times for 20 minutes
				for ei, e2 := range epochs {
					ast2 := asts[(ai+pm+ei+sd)%4]
					scens = append(scens, scen{a: a, pm: pm, ast: ast2, mode: modes[(ai+pm+ei)%3], epoch: e2, t0: t0of(e2, ast2, 1320, r), durS: 1320, sd: r.Int63()})
				}
			}
		}
	}
	_ = rng

	var mu sync.Mutex
	nseg, nemsg, noth, nrej, nmpd, nwrap, nothSkipped := 0, 0, 0, 0, 0, 0, 0
	var streamS int64
	distinct := map[string]bool{}
	samples := []any{}

	runScen := func(idx int, emit func(tr.E)) {
		sc := scens[idx]
		a, rt := sc.a, sc.a.Video
		c := tl.Cfg{Mode: sc.mode, SNR: -1, AST: sc.ast, TSBD: -1, Extra: []string{fmt.Sprintf("scte35_%d", sc.pm)}}
		c0 := tl.Cfg{Mode: sc.mode, SNR: -1, AST: sc.ast, TSBD: -1}
		cNum := tl.Cfg{Mode: "number", SNR: -1, AST: sc.ast, TSBD: -1, Extra: c.Extra}
		emit(tr.E{"ev": "hdr", "sc": idx, "asset": a.Name, "rep": rt.ID, "TS": rt.TS, "pm": sc.pm, "ast": sc.ast, "astmod": sc.ast % 60,
			"mode": sc.mode, "epoch": sc.epoch, "cfg": strings.Join(c.Parts(), "/"), "N": rt.N, "dur": rt.Dur, "vod0": rt.Vod0, "run_s": sc.durS})
		// first segment: loop boundary at or before t0
		k0 := sc.t0 * rt.TS / rt.L
		if k0 < 0 {
			k0 = 0
		}
		n0 := k0 * int64(rt.N)
		startTicks := tl.StartTicks(rt, n0)
		// MPD at the instant the first segment of the run is available
		now0 := sc.ast*1000 + tl.AvailRelMS(rt, n0, 0) + 1
		mu0 := c.Prefix(a.Name) + "/" + a.MPD + "?nowMS=" + fmt.Sprint(now0)
		r := env.S.Get(mu0)
		inb := [][]string{}
		if r.Status == 200 {
			if v, err := inbandOfVideo(r.Body, rt.ID); err == nil {
				inb = v
			}
		}
		emit(tr.E{"ev": "mpd", "st": r.Status, "inband": inb, "url": mu0})
		segs, emsgs, oth := 0, 0, 0
		lastN := n0
		for n := n0; tl.StartTicks(rt, n)-startTicks < sc.durS*rt.TS; n++ {
			now := sc.ast*1000 + tl.AvailRelMS(rt, n, 0) + 1
			url := tl.SegURL(c, a, rt, n) + "?nowMS=" + fmt.Sprint(now)
			r := env.S.Get(url)
			e := tr.E{"ev": "seg", "n": fmt.Sprint(n), "st": r.Status, "st0": -1, "perr": "", "run": n > n0, "s": []int64{-1, 0}, "e": []int64{-1, 0},
				"ntop": 0, "emsgs": []any{}, "url": url}
			if r.Status != 200 {
				e["st0"] = env.S.Get(tl.SegURL(c0, a, rt, n) + "?nowMS=" + fmt.Sprint(now)).Status
			} else if m, err := project.ParseMedia(r.Body, rt.Trex); err != nil {
				e["perr"] = err.Error()
			} else {
				s := m.Frags[0].Tfdt
				e["s"] = secPair(s, rt.TS)
				e["e"] = secPair(s+m.TotalDur, rt.TS)
				ntop := 0
				for _, bt := range m.BoxTypes {
					if bt == "emsg" {
						ntop++
					}
				}
				e["ntop"] = ntop
				list := []any{}
				for fi, f := range m.Frags {
					for _, x := range f.Emsg {
						pt := x.PresentationTime
						if x.Version == 0 { // delta relative to the segment start, in the emsg timescale
							pt = s*uint64(x.TimeScale)/uint64(rt.TS) + uint64(x.PresentationTimeDelta)
						}
						d := decodeSection(x.MessageData)
						g := gotsSection(x.MessageData)
						list = append(list, tr.E{"ver": int(x.Version), "ets": i32(x.TimeScale), "pt": secPair(pt, int64(x.TimeScale)), "id": i32(x.ID),
							"dur": i32(x.EventDuration), "scheme": x.SchemeIDURI, "value": x.Value, "frag": fi, "mlen": len(x.MessageData),
							"ok": d.OK, "serr": d.Err, "tid": d.TableID, "lenok": d.LenOK, "crcok": d.CrcOK, "cmd": d.Cmd, "eid": i32(d.EventID),
							"cancel": d.Cancel, "out": d.Out, "imm": d.Imm, "haspts": d.HasPTS, "hasdur": d.HasDur, "auto": d.Auto,
							"pts16": p16(d.PTS), "ptsraw16": p16(d.PTSRaw), "adj16": p16(d.Adj), "bd16": p16(d.Break),
							"gok": g.OK, "gcmd": g.Cmd, "geid": i32(g.EventID), "gpts16": p16(g.PTS), "gptsraw16": p16(g.PTSRaw), "gbd16": p16(g.Break)})
					}
				}
				e["emsgs"] = list
				emsgs += len(list)
			}
			emit(e)
			segs++
			lastN = n
			if sc.others {
				var reps []*project.RepTruth
				if a.Audio != nil {
					reps = append(reps, a.Audio)
				}
				if a.Text != nil {
					reps = append(reps, a.Text)
				}
				for _, ort := range reps {
					u := tl.SegURL(cNum, a, ort, n) + "?nowMS=" + fmt.Sprint(now+3000)
					r := env.S.Get(u)
					if r.Status != 200 {
						// not C13's business (e.g. an audio track whose loop length differs from the video's): counted, not judged
						mu.Lock()
						nothSkipped++
						mu.Unlock()
						continue
					}
					oe := tr.E{"ev": "oseg", "kind": ort.Kind, "rep": ort.ID, "n": fmt.Sprint(n), "st": r.Status, "perr": "", "nemsg": 0, "ntop": 0, "url": u}
					if r.Status == 200 {
						if m, err := project.ParseMedia(r.Body, ort.Trex); err != nil {
							oe["perr"] = err.Error()
						} else {
							ne := 0
							for _, f := range m.Frags {
								ne += len(f.Emsg)
							}
							nt := 0
							for _, bt := range m.BoxTypes {
								if bt == "emsg" {
									nt++
								}
							}
							oe["nemsg"], oe["ntop"] = ne, nt
						}
					}
					emit(oe)
					oth++
				}
			}
		}
		rej := 0
		if sc.reject {
			n := n0 + 1
			now := sc.ast*1000 + tl.AvailRelMS(rt, n, 0) + 1
			for _, val := range []string{"0", "4", "-1", "10", "60", "x", "1.5", "2x"} {
				cr := tl.Cfg{Mode: sc.mode, SNR: -1, AST: sc.ast, TSBD: -1, Extra: []string{"scte35_" + val}}
				u := cr.Prefix(a.Name) + "/" + a.MPD + "?nowMS=" + fmt.Sprint(now)
				emit(tr.E{"ev": "rej", "what": "mpd", "val": val, "st": env.S.Get(u).Status, "url": u})
				u = tl.SegURL(cr, a, rt, n) + "?nowMS=" + fmt.Sprint(now)
				emit(tr.E{"ev": "rej", "what": "video segment", "val": val, "st": env.S.Get(u).Status, "url": u})
				rej += 2
			}
		}
		emit(tr.E{"ev": "end", "sc": idx, "segs": segs, "emsgs": emsgs})
		// the run (an input) straddles a multiple of 2^33 ticks of the 90 kHz clock
		wrapIdx := func(ticks int64) uint64 { return uint64(ticks/rt.TS) * 90000 / wrapTicks }
		wrapped := wrapIdx(startTicks) != wrapIdx(tl.EndTicks(rt, lastN))
		mu.Lock()
		nseg += segs
		nemsg += emsgs
		noth += oth
		nrej += rej
		nmpd++
		streamS += sc.durS
		if wrapped {
			nwrap++
		}
		distinct[fmt.Sprintf("%s|%d|%d|%s|%s", a.Name, sc.pm, sc.ast, sc.mode, sc.epoch)] = true
		if len(samples) < 6 && idx%7 == 0 {
			samples = append(samples, map[string]any{"asset": a.Name, "dur": rt.Dur, "TS": rt.TS, "vod0": rt.Vod0, "scte35": sc.pm, "start": sc.ast,
				"mode": sc.mode, "epoch": sc.epoch, "first_segment": fmt.Sprint(n0), "segments": segs, "emsg": emsgs})
		}
		mu.Unlock()
	}

	// shards: scenario idx goes to file idx % shards (scenarios stay contiguous inside a file)
	events := 0
	for sh := 0; sh < *shards; sh++ {
		w, err := tr.New(fmt.Sprintf("%s.%d.ndjson", *out, sh))
		if err != nil {
			return err
		}
		var ids []int
		for i := range scens {
			if i%*shards == sh {
				ids = append(ids, i)
			}
		}
		tl.RunParallel(w, len(ids), 8, func(j int, emit func(tr.E)) { runScen(ids[j], emit) })
		if err := w.Close(); err != nil {
			return err
		}
		events += w.N
	}
	tr.PrintStats(map[string]any{"scenarios": len(scens), "events": events, "segments": nseg, "emsgs": nemsg, "other_rep_segments": noth, "other_rep_not_served": nothSkipped,
		"rejections": nrej, "mpds": nmpd, "stream_hours": float64(streamS) / 3600, "runs_with_pts_wrap": nwrap,
		"distinct": len(distinct), "samples": samples, "assets": len(assets)})
	return nil
}

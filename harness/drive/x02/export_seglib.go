package x02

// Exported names of the fMP4 upload library (seglib.go) for other drivers (X06 builds its uploads with it).
// Add-only: nothing of X02 depends on this file.

type (
	InitLib   = initLib
	SegPlan   = segPlan
	ChunkPlan = chunkPlan
	MediaObs  = mediaObs
	FragObs   = fragObs
)

// LoadInits reads the repository's test init segments (video / audio / text).
func LoadInits(repo string) (*InitLib, error) { return loadInits(repo) }

// MakeInit re-stamps an init segment (media timescale, movie creation time, trex default duration).
func (l *initLib) MakeInit(kind string, ts uint32, creationS int64, trexDur uint32) ([]byte, error) {
	return l.makeInit(kind, ts, creationS, trexDur)
}

// BuildSeg encodes a media segment (styp + moof/mdat chunks with dummy payload).
func BuildSeg(p SegPlan) ([]byte, error) { return buildSeg(p) }

// ParseMedia reads a media segment back (mfhd, tfdt, durations, payload digest per fragment).
func ParseMedia(data []byte, trexDur uint32) (*MediaObs, error) { return parseMedia(data, trexDur) }

// Digest is the short content digest used in traces.
func Digest(b []byte) string { return digest(b) }

package x02

import (
	"bytes"
	"crypto/sha256"
	"encoding/hex"
	"fmt"
	"os"
	"path/filepath"

	"github.com/Eyevinn/mp4ff/mp4"
)

// Ground truth of the uploads is built HERE.  Init segments are the repository's test init segments
// (avc1 / mp4a / stpp sample entries) re-stamped by the driver with the scenario's media timescale and
// movie creation time; media segments are generated from scratch with mp4ff (styp + one or more
// moof/mdat chunks, dummy payload) from the scenario's numbers, decode times and sample durations.
// What was uploaded and what the receiver stored are both read back with the same small parser
// (parseMedia): the driver never takes a number from the receiver's own tables.

type initLib struct {
	src map[string][]byte // kind -> init segment bytes
}

func loadInits(repo string) (*initLib, error) {
	l := &initLib{src: map[string][]byte{}}
	for kind, rel := range map[string]string{
		"video": "cmd/livesim2/app/testdata/assets/testpic_2s/V300/init.mp4",
		"audio": "cmd/livesim2/app/testdata/assets/testpic_2s/A48/init.mp4",
		"text":  "cmd/livesim2/app/testdata/assets/testpic_2s/imsc1_txt_sv/init.mp4",
	} {
		data, err := os.ReadFile(filepath.Join(repo, rel))
		if err != nil {
			return nil, err
		}
		l.src[kind] = data
	}
	return l, nil
}

// makeInit re-stamps an init segment: media timescale, movie creation time (unix seconds) and the
// default sample duration of trex.
func (l *initLib) makeInit(kind string, ts uint32, creationS int64, trexDur uint32) ([]byte, error) {
	f, err := mp4.DecodeFile(bytes.NewReader(l.src[kind]))
	if err != nil {
		return nil, err
	}
	if f.Init == nil || f.Init.Moov == nil || len(f.Init.Moov.Traks) != 1 || f.Init.Moov.Mvex == nil || f.Init.Moov.Mvex.Trex == nil {
		return nil, fmt.Errorf("%s init: unexpected structure", kind)
	}
	mv := f.Init.Moov
	mv.Mvhd.SetCreationTimeS(creationS)
	mv.Trak.Mdia.Mdhd.Timescale = ts
	mv.Mvex.Trex.DefaultSampleDuration = trexDur
	var buf bytes.Buffer
	if err := f.Init.Encode(&buf); err != nil {
		return nil, err
	}
	return buf.Bytes(), nil
}

// chunkPlan: one moof/mdat pair.
type chunkPlan struct {
	T    uint64   // baseMediaDecodeTime
	Durs []uint32 // sample durations
}

type segPlan struct {
	SeqNr      uint32
	Chunks     []chunkPlan
	DefaultDur bool // equal sample durations are carried in tfhd (mp4ff trun optimisation), not in trun
	Styp       bool
	Video      bool
	Salt       byte
}

func buildSeg(p segPlan) ([]byte, error) {
	var seg *mp4.MediaSegment
	if p.Styp {
		seg = mp4.NewMediaSegment()
	} else {
		seg = mp4.NewMediaSegmentWithoutStyp()
	}
	if p.DefaultDur {
		seg.EncOptimize = mp4.OptimizeTrun
	}
	for ci, c := range p.Chunks {
		fr, err := mp4.CreateFragment(p.SeqNr, 1)
		if err != nil {
			return nil, err
		}
		if p.DefaultDur {
			fr.EncOptimize = mp4.OptimizeTrun
		}
		t := c.T
		for si, d := range c.Durs {
			flags := mp4.NonSyncSampleFlags
			if !p.Video || (ci == 0 && si == 0) {
				flags = mp4.SyncSampleFlags
			}
			size := 24 + (si*7+ci*3+int(p.Salt))%17
			data := make([]byte, size)
			for i := range data {
				data[i] = byte(int(p.Salt) + 31*si + 7*ci + i)
			}
			fr.AddFullSample(mp4.FullSample{
				Sample:     mp4.Sample{Flags: flags, Dur: d, Size: uint32(size)},
				DecodeTime: t,
				Data:       data,
			})
			t += uint64(d)
		}
		seg.AddFragment(fr)
	}
	var buf bytes.Buffer
	if err := seg.Encode(&buf); err != nil {
		return nil, err
	}
	return buf.Bytes(), nil
}

// durRun: a run of samples with the same effective duration.
type durRun struct {
	D uint32
	N int
}

type fragObs struct {
	Mfhd    uint32
	Tfdt    uint64
	Runs    []durRun // effective sample durations (trun, else tfhd default, else trex default), run-length coded
	Durs    []uint32 // the same, sample by sample
	NS      int
	SumDur  uint64
	Payload string // digest of the mdat payload and the sample sizes
}

type mediaObs struct {
	Frags []fragObs
	Styp  bool
	Lmsg  bool
}

func digest(b []byte) string {
	s := sha256.Sum256(b)
	return hex.EncodeToString(s[:6])
}

// parseMedia reads a media segment (one or more fragments).
func parseMedia(data []byte, trexDur uint32) (*mediaObs, error) {
	f, err := mp4.DecodeFile(bytes.NewReader(data))
	if err != nil {
		return nil, err
	}
	o := &mediaObs{}
	for _, s := range f.Segments {
		if s.Styp != nil {
			o.Styp = true
			for _, b := range s.Styp.CompatibleBrands() {
				if b == "lmsg" {
					o.Lmsg = true
				}
			}
		}
		for _, fr := range s.Fragments {
			if fr.Moof == nil || fr.Moof.Traf == nil || fr.Moof.Traf.Tfdt == nil || fr.Moof.Traf.Trun == nil || fr.Mdat == nil {
				return nil, fmt.Errorf("fragment without moof/traf/tfdt/trun/mdat")
			}
			tr := fr.Moof.Traf
			fo := fragObs{Mfhd: fr.Moof.Mfhd.SequenceNumber, Tfdt: tr.Tfdt.BaseMediaDecodeTime()}
			def := trexDur
			if tr.Tfhd.HasDefaultSampleDuration() {
				def = tr.Tfhd.DefaultSampleDuration
			}
			h := sha256.New()
			for _, trun := range tr.Truns {
				for _, smp := range trun.Samples {
					d := def
					if trun.HasSampleDuration() {
						d = smp.Dur
					}
					if n := len(fo.Runs); n > 0 && fo.Runs[n-1].D == d {
						fo.Runs[n-1].N++
					} else {
						fo.Runs = append(fo.Runs, durRun{D: d, N: 1})
					}
					fo.Durs = append(fo.Durs, d)
					fo.NS++
					fo.SumDur += uint64(d)
					sz := smp.Size
					if !trun.HasSampleSize() {
						sz = tr.Tfhd.DefaultSampleSize
					}
					fmt.Fprintf(h, "%d,", sz)
				}
			}
			h.Write(fr.Mdat.Data)
			fo.Payload = hex.EncodeToString(h.Sum(nil)[:6])
			o.Frags = append(o.Frags, fo)
		}
	}
	if len(o.Frags) == 0 {
		return nil, fmt.Errorf("no fragments")
	}
	return o, nil
}

type initObs struct {
	Timescale uint32
	TrexDur   uint32
}

func parseInit(data []byte) (*initObs, error) {
	f, err := mp4.DecodeFile(bytes.NewReader(data))
	if err != nil {
		return nil, err
	}
	if f.Init == nil || f.Init.Moov == nil || f.Init.Moov.Trak == nil || f.Init.Moov.Mvex == nil || f.Init.Moov.Mvex.Trex == nil {
		return nil, fmt.Errorf("not an init segment")
	}
	return &initObs{Timescale: f.Init.Moov.Trak.Mdia.Mdhd.Timescale, TrexDur: f.Init.Moov.Mvex.Trex.DefaultSampleDuration}, nil
}

// creationOf: movie creation time of an init segment in unix seconds.
func creationOf(data []byte) int64 {
	f, err := mp4.DecodeFile(bytes.NewReader(data))
	if err != nil || f.Init == nil || f.Init.Moov == nil || f.Init.Moov.Mvhd == nil {
		return 0
	}
	return f.Init.Moov.Mvhd.CreationTimeS()
}

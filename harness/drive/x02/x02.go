// Package x02 drives the real CMAF-ingest receiver (cmd/cmaf-ingest-receiver/app, build tag verif) through its
// HTTP router with fMP4 uploads constructed by the driver (and with the repository's recorded encoder output)
// and records, per upload, what the receiver stored: file name, mfhd, tfdt and sample durations of every
// fragment read back from the stored file, the scalars of the `process` hook, and the $Number$ manifest.mpd.
// All numbers and times are logged RELATIVE to scenario constants (grid base G, number base NB) and times are
// decomposed into (grid index, remainder) in a fine unit common to the timescales involved, with exact int64
// arithmetic, because absolute values (1.5e14 ticks) do not fit TLC's 32-bit integers.  Every clause of X02 is
// decided by spec/trace/ReceiverShift_Trace.tla on these records.
package x02

import (
	"bufio"
	"encoding/json"
	"flag"
	"fmt"
	"io"
	"log/slog"
	"math/rand"
	"net/http"
	"os"
	"sort"
	"sync"

	"github.com/go-chi/chi/v5/middleware"

	"verifharness/tr"
)

// Main is the entry point of harness/cmd/x02.
func Main(args []string) error {
	fs := flag.NewFlagSet("x02", flag.ContinueOnError)
	out := fs.String("out", "x02.ndjson", "trace output")
	gen := fs.String("gen", "", "jsonl of upload scripts (GEN lines of ReceiverShift)")
	seed := fs.Int64("seed", 1, "seed of the sampled scenarios")
	n := fs.Int("n", 60, "number of seeded scenarios")
	par := fs.Int("par", 4, "scenarios run in parallel")
	tmp := fs.String("tmp", "", "scratch directory for storage trees")
	only := fs.String("only", "", "run only the scenario with this id")
	if err := fs.Parse(args); err != nil {
		return err
	}
	repo := os.Getenv("VERIF_REPO")
	if repo == "" {
		repo = "/repo"
	}
	if *tmp == "" {
		base := ""
		if st, err := os.Stat("/dev/shm"); err == nil && st.IsDir() {
			base = "/dev/shm" // thousands of small files: a RAM file system is five times faster
		}
		d, err := os.MkdirTemp(base, "x02-")
		if err != nil {
			return err
		}
		defer os.RemoveAll(d)
		*tmp = d
	}
	if err := os.MkdirAll(*tmp, 0o755); err != nil {
		return err
	}
	slog.SetDefault(slog.New(slog.NewTextHandler(io.Discard, &slog.HandlerOptions{Level: slog.Level(100)})))
	lib, err := loadInits(repo)
	if err != nil {
		return err
	}
	var scs []scenario
	scs = append(scs, testdataScenarios(repo)...)
	scs = append(scs, specials()...)
	nTestdata := len(scs)
	if *gen != "" {
		f, err := os.Open(*gen)
		if err != nil {
			return err
		}
		r := bufio.NewReaderSize(f, 1<<20)
		idx := 0
		for {
			line, err := r.ReadBytes('\n')
			if len(line) > 1 {
				var g genLine
				if e := json.Unmarshal(line, &g); e != nil {
					return fmt.Errorf("gen line %d: %w", idx, e)
				}
				scs = append(scs, fromGen(g, idx, 0))
				// the same script at wall-clock time; numbers moved along, or left where they are (far from the grid)
				if (idx+int(*seed))%3 == 0 {
					scs = append(scs, fromGen(g, idx, 1))
				}
				idx++
			}
			if err != nil {
				break
			}
		}
		f.Close()
	}
	nGen := len(scs) - nTestdata
	rng := rand.New(rand.NewSource(*seed))
	for i := 0; i < *n; i++ {
		scs = append(scs, seeded(rng, i, false))
	}
	if *only != "" {
		var sel []scenario
		for _, s := range scs {
			if s.ID == *only {
				sel = append(sel, s)
			}
		}
		scs = sel
	}
	installHook()
	// chi's request logger prints one line per request to stdout
	middleware.DefaultLogger = func(next http.Handler) http.Handler { return next }
	rn := &runner{lib: lib, tmp: *tmp, repo: repo}
	results := make([]result, len(scs))
	var wg sync.WaitGroup
	next := make(chan int, len(scs))
	for i := range scs {
		next <- i
	}
	close(next)
	for w := 0; w < *par; w++ {
		wg.Add(1)
		go func() {
			defer wg.Done()
			for i := range next {
				results[i] = rn.run(i, &scs[i])
			}
		}()
	}
	wg.Wait()
	w, err := tr.New(*out)
	if err != nil {
		return err
	}
	st := map[string]int{}
	byClass := map[string]int{}
	distinct := map[string]bool{}
	var samples []string
	var fidNotes []string
	for i := range results {
		r := &results[i]
		if r.err != nil {
			return fmt.Errorf("scenario %s: %w", scs[i].ID, r.err)
		}
		for _, e := range r.events {
			w.Emit(e)
		}
		st["uploads"] += r.uploads
		if r.tuned {
			st["tuned"]++
		}
		if r.shifted {
			st["shifted"]++
		}
		switch r.fidelity {
		case 1:
			st["fidelityCompared"]++
		case -1:
			st["fidelityCompared"]++
			st["fidelityMismatch"]++
			if len(fidNotes) < 5 {
				fidNotes = append(fidNotes, r.fidNote)
			}
		}
		byClass[scs[i].Class]++
		// by construction of the input (not by what the receiver did): nothing to shift / something to shift
		if scs[i].Off == 0 && scs[i].NB-int64(scs[i].StartNr) == scs[i].G {
			st["inputsOnGrid"]++
		} else {
			st["inputsOffGrid"]++
		}
		sc := scs[i]
		key, _ := json.Marshal([]any{sc.Tm, sc.D, sc.G, sc.Off, sc.NB, sc.StartNr, sc.Short, sc.K, sc.Creation, sc.Tracks, sc.InitOrder, sc.RoundOrder, sc.ResendInit, sc.Streams, sc.testdata})
		distinct[string(key)] = true
		if len(samples) < 8 && (i%7 == 0 || sc.Src == "testdata") {
			samples = append(samples, fmt.Sprintf("%s [%s] Tm=%d D=%d G=%d off=%d NB=%d startNr=%d tracks=%d", sc.ID, sc.Class, sc.Tm, sc.D, sc.G, sc.Off, sc.NB, sc.StartNr, len(sc.Tracks)))
		}
	}
	events := w.N
	if err := w.Close(); err != nil {
		return err
	}
	var classes []string
	for c := range byClass {
		classes = append(classes, c)
	}
	sort.Strings(classes)
	tr.PrintStats(map[string]any{"scenarios": len(scs), "events": events, "distinct": len(distinct), "samples": samples,
		"uploads": st["uploads"], "tuned": st["tuned"], "shifted": st["shifted"],
		"inputsOnGrid": st["inputsOnGrid"], "inputsOffGrid": st["inputsOffGrid"], "testdata": nTestdata, "fromModel": nGen,
		"seeded": *n, "classes": len(byClass), "byClass": byClass, "fidelity_compared": st["fidelityCompared"],
		"fidelity_mismatch": st["fidelityMismatch"], "fidelity_notes": fidNotes})
	return nil
}

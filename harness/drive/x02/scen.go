package x02

import (
	"fmt"
	"math/rand"
	"os"
	"path/filepath"
	"sort"
	"strconv"
	"strings"
)

// trackSpec: one CMAF track of a scenario.
type trackSpec struct {
	Name       string `json:"name"`
	Kind       string `json:"kind"`  // video | audio | text | meta
	Ts         uint32 `json:"ts"`    // media timescale of the uploaded track
	Align      string `json:"align"` // exact: segment k starts exactly at the master's time (converted); aac: at the next 1024-tick frame boundary
	NOff       int64  `json:"noff"`  // own sequence numbering: number of segment k = NB + k + NOff
	DefaultDur bool   `json:"defdur"`
	Chunks     int    `json:"chunks"`
	Samples    int    `json:"samples"` // samples per segment (exact tracks)
}

// scenario: everything the driver needs to construct the uploads of one channel.
type scenario struct {
	ID      string `json:"id"`
	Class   string `json:"cls"`
	Src     string `json:"src"` // tlc | seed | testdata
	Tm      uint32 `json:"Tm"`  // timescale of the master (first video) track
	D       int64  `json:"D"`   // nominal segment duration in master ticks
	G       int64  `json:"G"`   // grid index base: the first regular master segment starts at G*D + Off
	Off     int64  `json:"off"` // 0 <= Off < D (master ticks)
	NB      int64  `json:"NB"`  // sequence number of the first regular master segment
	StartNr int    `json:"startNr"`
	Short   int    `json:"short"` // number of leading master segments with a different (shorter) duration
	K       int    `json:"K"`     // regular segments per track
	// movie creation time of the init segments (unix seconds)
	Creation   int64       `json:"creation"`
	Tracks     []trackSpec `json:"tracks"`
	InitOrder  []int       `json:"initOrder"`  // indexes into Tracks
	RoundOrder []int       `json:"roundOrder"` // order of the tracks inside one round of uploads
	ResendInit int         `json:"resendInit"` // 0: never; r > 0: all init segments are sent again before round r
	Streams    bool        `json:"streams"`    // URL form prefix/channel/Streams(track.ext)
	Tsbd       int         `json:"tsbd"`
	Pred       *genPred    `json:"pred,omitempty"`
	GenF       int64       `json:"genF"` // Src == tlc: real ticks per tick of the model
	testdata   string      // directory with real segments (Src == testdata)
	tdFrom     int
}

// genPred: what the explorer model predicts (fidelity only, never a verdict).
type genPred struct {
	Tuned  bool    `json:"tuned"`
	TS     int64   `json:"ts"` // master ticks of the model (abstract)
	SS     int64   `json:"ss"`
	Stored [][]int `json:"stored"` // [track index, n, t] in the model's units
	F      int64   `json:"f"`      // real ticks per tick of the model
	Abs    bool    `json:"abs"`    // numbers and times of the model are the real ones (stream near time zero)
	TolA   int64   `json:"tolA"`   // the model counts in coarser ticks: agreement of the second track's times up to its roundings
}

// genLine: one GEN line of spec/ReceiverShift.tla.
type genLine struct {
	Tm      int     `json:"Tm"`
	Ta      int     `json:"Ta"`
	DSec    int     `json:"dsec"`
	T0      int     `json:"t0"`
	K0      int     `json:"k"`
	StartNr int     `json:"startNr"`
	Short   int     `json:"short"`
	AFirst  bool    `json:"afirst"`
	NSeg    int     `json:"nseg"`
	Tuned   bool    `json:"tuned"`
	TS      int     `json:"ts"`
	SS      int     `json:"ss"`
	Stored  [][]int `json:"stored"`
}

func gcd(a, b int64) int64 {
	for b != 0 {
		a, b = b, a%b
	}
	if a < 0 {
		return -a
	}
	return a
}

func lcm(a, b int64) int64 { return a / gcd(a, b) * b }

const epochG2s = 864000000 // grid base of "wall-clock" streams with 2 s segments: 2024-10-04

// fromGen maps an abstract upload script of the model to real timescales.  The model counts in ticks of
// Tm / Ta per abstract second; the real timescales are Tm*f / Ta*f.  variant 0: the stream starts near
// time zero as in the model; variant 1: the same stream moved by a whole number of grid steps to
// wall-clock time and the sequence numbers either moved along (k stays) or left low (far).
func fromGen(g genLine, idx int, variant int) scenario {
	f := int64(6000)
	if g.Tm == 4 {
		f = 3200
	}
	if g.Tm == 1 {
		f = 90000
	}
	tm := int64(g.Tm) * f
	ta := int64(g.Ta) * f
	d := int64(g.DSec) * tm
	t0 := int64(g.T0) * f
	sc := scenario{ID: fmt.Sprintf("tlc%d.%d", idx, variant), Src: "tlc", Tm: uint32(tm), D: d, StartNr: g.StartNr, Short: g.Short,
		K: g.NSeg - g.Short, Creation: 0, Tsbd: 60, GenF: f}
	// first REGULAR master segment: after the short one (which lasts one second in the model)
	treg := t0 + int64(g.Short)*tm
	sc.G = treg / d
	sc.Off = treg % d
	// model: number of master segment j (j = 0 is the first uploaded) = t0 div D + k + startNr + j
	sc.NB = int64(g.T0)/(int64(g.DSec)*int64(g.Tm)) + int64(g.K0) + int64(g.StartNr) + int64(g.Short)
	if variant == 1 {
		b := int64(epochG2s) * 2 / int64(g.DSec) // whole grid steps: exact in every timescale
		sc.G += b
		if g.K0 < 5 {
			sc.NB += b
		}
	}
	sc.Tracks = []trackSpec{
		{Name: "video", Kind: "video", Ts: uint32(tm), Align: "exact", Chunks: 1, Samples: 4},
		{Name: "audio", Kind: "audio", Ts: uint32(ta), Align: "exact", Chunks: 1, Samples: 4},
	}
	sc.InitOrder = []int{0, 1}
	sc.RoundOrder = []int{0, 1}
	if g.AFirst {
		sc.RoundOrder = []int{1, 0}
	}
	sc.Pred = &genPred{Tuned: g.Tuned, TS: int64(g.TS) * f, SS: int64(g.SS), Stored: g.Stored, F: f, Abs: variant == 0,
		TolA: f * int64(2+(g.Ta+g.Tm-1)/g.Tm)}
	sc.Class = classOf(&sc)
	return sc
}

func classOf(sc *scenario) string {
	var fs []string
	if sc.Off != 0 {
		fs = append(fs, "unaligned")
	} else {
		fs = append(fs, "aligned")
	}
	c := sc.NB - int64(sc.StartNr) - sc.G
	switch {
	case c == 0:
		fs = append(fs, "nr=grid")
	case c > -1000 && c < 1000:
		fs = append(fs, "nr=off")
	default:
		fs = append(fs, "nr=far")
	}
	fs = append(fs, "snr"+strconv.Itoa(sc.StartNr))
	if sc.Short > 0 {
		fs = append(fs, "short")
	}
	if sc.G < 1000 {
		fs = append(fs, "t~0")
	}
	kinds := map[string]bool{}
	for _, t := range sc.Tracks {
		if t.Chunks > 1 {
			kinds["chunked"] = true
		}
		if t.DefaultDur {
			kinds["defdur"] = true
		}
		if t.Align == "aac" {
			kinds["aac"] = true
		}
		if t.Kind == "text" && t.Ts != 1000 {
			kinds["text-rescale"] = true
		}
		if t.NOff != 0 {
			kinds["own-numbers"] = true
		}
	}
	if sc.ResendInit > 0 {
		kinds["resend-init"] = true
	}
	if sc.Creation != 0 {
		kinds["creation"] = true
	}
	var ks []string
	for k := range kinds {
		ks = append(ks, k)
	}
	sort.Strings(ks)
	return strings.Join(append(fs, ks...), ",")
}

type family struct {
	tm, ta, tt uint32 // video, audio, text timescales
	dsec       [2]int64 // segment duration as a fraction of a second (num, den)
}

var families = []family{
	{90000, 48000, 1000, [2]int64{2, 1}},
	{90000, 48000, 90000, [2]int64{48, 25}}, // 1.92 s (AWS MediaLive)
	{12800, 48000, 1000, [2]int64{2, 1}},
	{50000, 48000, 50000, [2]int64{96, 25}}, // 3.84 s, text in 50000 (repository test data zero_3.84s)
	{90000, 48000, 1000, [2]int64{4, 1}},
	{25000, 48000, 25000, [2]int64{2, 1}},
	{30000, 48000, 1000, [2]int64{1001, 500}}, // 2.002 s (29.97 fps)
}

var creations = []int64{0, 0, 0, -2082844800, 1704067200 /* 2024-01-01 */, 1724112000 /* 2024-08-20 */, 1724140027 /* not a full day */, -86400}

// seeded scenarios: realistic multi-track channels.
func seeded(rng *rand.Rand, idx int, thorough bool) scenario {
	fam := families[rng.Intn(len(families))]
	tm := int64(fam.tm)
	d := tm * fam.dsec[0] / fam.dsec[1]
	sc := scenario{ID: fmt.Sprintf("seed%d", idx), Src: "seed", Tm: fam.tm, D: d, Tsbd: 60}
	// grid base: wall clock (seconds since 1970 around 2024) or a stream that starts near zero
	if rng.Intn(4) == 0 {
		sc.G = int64(rng.Intn(4))
	} else {
		sc.G = (1728000000 + int64(rng.Intn(1000000))) * fam.dsec[1] / fam.dsec[0]
	}
	sc.StartNr = rng.Intn(2)
	if sc.G == 0 && sc.StartNr == 1 {
		sc.G = 1
	}
	// offset of the first regular segment inside the grid step; chosen so that the audio time is a whole tick
	step := tm / gcd(tm, int64(fam.ta))
	if fam.tt != 0 {
		step = lcm(step, tm/gcd(tm, int64(fam.tt)))
		step = lcm(step, tm/gcd(tm, 1000)) // the stored text track counts in ms
	}
	switch rng.Intn(5) {
	case 0, 1:
		sc.Off = 0
	case 2:
		sc.Off = d / 2 / step * step
	default:
		sc.Off = (1 + int64(rng.Intn(int(d/step-1)))) * step
	}
	// numbering
	switch rng.Intn(6) {
	case 0, 1:
		sc.NB = sc.G + int64(sc.StartNr) // number = time / duration (+ startNr)
	case 2:
		sc.NB = sc.G + int64(sc.StartNr) + 1
	case 3:
		sc.NB = sc.G + int64(sc.StartNr) - 1
		if sc.NB < int64(sc.StartNr) {
			sc.NB = int64(sc.StartNr)
		}
	case 4:
		sc.NB = int64(sc.StartNr) + int64(rng.Intn(3)) // counting from the start of the encoder
	default:
		sc.NB = 8090 + int64(rng.Intn(100000))
	}
	if rng.Intn(3) == 0 {
		sc.Short = 1
	}
	// the sender's numbers are never below its start number (usage text: startNr = number of the first segment)
	if sc.NB-int64(sc.Short) < int64(sc.StartNr) {
		sc.NB = int64(sc.StartNr) + int64(sc.Short)
	}
	sc.K = 4 + rng.Intn(3)
	sc.Creation = creations[rng.Intn(len(creations))]
	sc.Streams = rng.Intn(3) == 0
	// tracks
	fps := int64(25)
	if fam.tm == 30000 {
		fps = 30 // 1001-tick frames
	}
	nv := d * fps / tm
	if fam.tm == 30000 {
		nv = d / 1001
	}
	sc.Tracks = append(sc.Tracks, trackSpec{Name: "video", Kind: "video", Ts: fam.tm, Align: "exact", Chunks: 1, Samples: int(nv)})
	if rng.Intn(3) == 0 {
		sc.Tracks = append(sc.Tracks, trackSpec{Name: "video-800Kbps", Kind: "video", Ts: fam.tm, Align: "exact", Chunks: 1, Samples: int(nv)})
	}
	a := trackSpec{Name: "audio", Kind: "audio", Ts: fam.ta, Align: "exact", Chunks: 1, Samples: 4}
	if rng.Intn(3) == 0 {
		a.Align = "aac"
	}
	sc.Tracks = append(sc.Tracks, a)
	if rng.Intn(2) == 0 {
		sc.Tracks = append(sc.Tracks, trackSpec{Name: "text-nor-0", Kind: "text", Ts: fam.tt, Align: "exact", Chunks: 1, Samples: 1 + rng.Intn(3)})
	}
	for i := range sc.Tracks {
		t := &sc.Tracks[i]
		if rng.Intn(4) == 0 {
			t.Chunks = 2 + rng.Intn(2)
		}
		if rng.Intn(4) == 0 && t.Align == "exact" {
			t.DefaultDur = true
		}
	}
	// own numbering per track only when the numbers are not related to the time anyway
	if c := sc.NB - int64(sc.StartNr) - sc.G; (c > 1000 || c < -1000) && rng.Intn(3) == 0 {
		for i := 1; i < len(sc.Tracks); i++ {
			sc.Tracks[i].NOff = int64(rng.Intn(7))
		}
	}
	n := len(sc.Tracks)
	sc.InitOrder = rng.Perm(n)
	sc.RoundOrder = rng.Perm(n)
	if rng.Intn(12) == 0 {
		sc.ResendInit = 1 + rng.Intn(2)
	}
	sc.Class = classOf(&sc)
	return sc
}

// testdataScenarios: the repository's recorded encoder output (AWS MediaLive with SCTE-35 track; the
// "zero" encoder with unaligned times and low sequence numbers).
func testdataScenarios(repo string) []scenario {
	td := filepath.Join(repo, "cmd/cmaf-ingest-receiver/app/testdata")
	var res []scenario
	if _, err := os.Stat(filepath.Join(td, "awsMediaLiveScte35", "video", "init.cmfv")); err == nil {
		for _, snr := range []int{1, 0} {
			for _, streams := range []bool{true, false} {
				res = append(res, scenario{ID: fmt.Sprintf("medialive-snr%d-streams%v", snr, streams), Src: "testdata", Class: "medialive",
					StartNr: snr, Streams: streams, Tsbd: 60, testdata: filepath.Join(td, "awsMediaLiveScte35")})
			}
		}
	}
	if _, err := os.Stat(filepath.Join(td, "zero_3.84s", "video-500Kbps", "init_org.cmfv")); err == nil {
		for _, snr := range []int{0, 1} {
			res = append(res, scenario{ID: fmt.Sprintf("zero384-snr%d", snr), Src: "testdata", Class: "zero_3.84s",
				StartNr: snr, Streams: true, Tsbd: 60, testdata: filepath.Join(td, "zero_3.84s")})
		}
	}
	return res
}

// specials: fixed scenarios (independent of the seed) for timescale combinations in which conversions are
// not exact or intermediate products are large.
func specials() []scenario {
	mk := func(id string, tm uint32, d, g, off, nb int64, startNr int, tracks []trackSpec) scenario {
		sc := scenario{ID: id, Src: "special", Tm: tm, D: d, G: g, Off: off, NB: nb, StartNr: startNr, K: 5, Tsbd: 60, Tracks: tracks}
		for i := range tracks {
			sc.InitOrder = append(sc.InitOrder, i)
			sc.RoundOrder = append(sc.RoundOrder, i)
		}
		sc.Class = "special:" + id
		return sc
	}
	v := func(ts uint32, n int) trackSpec {
		return trackSpec{Name: "video", Kind: "video", Ts: ts, Align: "exact", Chunks: 1, Samples: n}
	}
	a := func(ts uint32, align string) trackSpec {
		return trackSpec{Name: "audio", Kind: "audio", Ts: ts, Align: align, Chunks: 1, Samples: 4}
	}
	x := func(ts uint32) trackSpec {
		return trackSpec{Name: "text-nor-0", Kind: "text", Ts: ts, Align: "exact", Chunks: 1, Samples: 2}
	}
	g2 := int64(864123456)
	return []scenario{
		// offset that is not a whole number of audio ticks: every conversion of the shift rounds
		mk("inexact-off", 90000, 180000, g2, 4711, 17, 0, []trackSpec{v(90000, 50), a(48000, "exact"), x(1000)}),
		mk("inexact-off-aligned-nr", 90000, 180000, g2, 100003, g2, 0, []trackSpec{v(90000, 50), a(48000, "aac")}),
		// 44.1 kHz audio
		mk("audio44k", 90000, 180000, g2, 90000, 1, 0, []trackSpec{v(90000, 50), a(44100, "exact")}),
		// 29.97 fps video (2.002 s segments) with 44.1 kHz audio: the segment duration is not a whole number of audio ticks
		mk("ntsc-audio44k", 90000, 180180, 863259000, 90090, 5, 0, []trackSpec{v(90000, 60), a(44100, "exact")}),
		// text track in a 10 MHz timescale
		mk("text10MHz", 90000, 180000, g2, 0, g2, 0, []trackSpec{v(90000, 50), a(48000, "exact"), x(10000000)}),
		mk("text10MHz-unaligned", 25000, 50000, g2, 25000, 3, 0, []trackSpec{v(25000, 50), x(10000000)}),
		// low timescales: stream starting at zero, numbers from 1, startNr 1
		mk("zero-start-snr1", 12800, 25600, 0, 0, 1, 1, []trackSpec{v(12800, 50), a(48000, "aac")}),
		mk("zero-start-unaligned", 12800, 25600, 1, 12800, 1, 0, []trackSpec{v(12800, 50), a(48000, "exact")}),
	}
}

package x02

import (
	"bytes"
	"context"
	"encoding/xml"
	"fmt"
	"net/http"
	"net/http/httptest"
	"os"
	"path/filepath"
	"sort"
	"strconv"
	"strings"
	"sync"
	"syscall"
	"time"

	"github.com/Dash-Industry-Forum/livesim2/cmd/cmaf-ingest-receiver/app"

	"verifharness/tr"
)

const (
	big            = 1 << 30 // "not a small number" in the trace (TLC integers are 32 bit)
	smallLimit     = 1 << 24
	processTimeout = 20 * time.Second
)

func small(v int64) int64 {
	if v > -smallLimit && v < smallLimit {
		return v
	}
	return big
}

// ---- hook routing: channel name -> event channel of the scenario that owns the channel

type procEv map[string]any

var hookChans sync.Map // string -> chan procEv

func installHook() {
	app.VerifHook = func(ev string, kv map[string]any) {
		if ev != "process" {
			return
		}
		name, _ := kv["ch"].(string)
		if c, ok := hookChans.Load(name); ok {
			cp := procEv{}
			for k, v := range kv {
				cp[k] = v
			}
			select {
			case c.(chan procEv) <- cp:
			default:
			}
		}
	}
}

func toI64(v any) int64 {
	switch x := v.(type) {
	case int:
		return int64(x)
	case int64:
		return x
	case uint32:
		return int64(x)
	case uint64:
		return int64(x)
	case float64:
		return int64(x)
	}
	return 0
}

// ---- planned uploads

type upload struct {
	track int
	media bool
	k     int // index of the media segment in its track (0 = first uploaded)
	name  string
	data  []byte
	in    *mediaObs // the driver's own reading of what it uploads
}

type trackRun struct {
	spec     trackSpec
	ext      string
	tsOut    int64 // timescale of the STORED init segment (observed)
	trexOut  uint32
	initOK   bool
	uin      int64
	uout     int64
	v        int64
	s        int64
	gsOut    int64
	seen     map[string]string // file name -> digest
	initData []byte
}

var extOf = map[string]string{"video": ".cmfv", "audio": ".cmfa", "text": ".cmft", "meta": ".cmfm"}

// splitDur splits dur into n sample durations (equal when possible).
func splitDur(dur int64, n int, equal bool) []uint32 {
	if n < 1 {
		n = 1
	}
	if equal {
		for dur%int64(n) != 0 {
			n--
		}
	}
	res := make([]uint32, n)
	base := dur / int64(n)
	for i := range res {
		res[i] = uint32(base)
	}
	res[n-1] += uint32(dur - base*int64(n))
	return res
}

func chunkify(t0 int64, durs []uint32, chunks int) []chunkPlan {
	if chunks > len(durs) {
		chunks = len(durs)
	}
	if chunks < 1 {
		chunks = 1
	}
	var res []chunkPlan
	per := (len(durs) + chunks - 1) / chunks
	t := t0
	for i := 0; i < len(durs); i += per {
		j := i + per
		if j > len(durs) {
			j = len(durs)
		}
		res = append(res, chunkPlan{T: uint64(t), Durs: durs[i:j]})
		for _, d := range durs[i:j] {
			t += int64(d)
		}
	}
	return res
}

func ceilTo(v, m int64) int64 { return (v + m - 1) / m * m }

// shortDur: duration of a leading irregular master segment (exact in every timescale of the scenario).
func shortDur(sc *scenario) int64 {
	step := int64(1)
	for _, t := range sc.Tracks {
		step = lcm(step, int64(sc.Tm)/gcd(int64(sc.Tm), int64(t.Ts)))
		if t.Kind == "text" {
			step = lcm(step, int64(sc.Tm)/gcd(int64(sc.Tm), 1000))
		}
	}
	if sc.Src == "tlc" {
		return int64(sc.Tm) // one abstract second in the model
	}
	d := sc.D * 3 / 4 / step * step
	if d <= 0 {
		d = sc.D / 2
	}
	return d
}

// buildUploads constructs init and media uploads of a generated scenario.
func buildUploads(lib *initLib, sc *scenario) ([]trackRun, []upload, error) {
	trs := make([]trackRun, len(sc.Tracks))
	inits := make([]upload, len(sc.Tracks))
	for i, t := range sc.Tracks {
		trs[i] = trackRun{spec: t, ext: extOf[t.Kind], seen: map[string]string{}}
		data, err := lib.makeInit(t.Kind, t.Ts, sc.Creation, 0)
		if err != nil {
			return nil, nil, err
		}
		trs[i].initData = data
		inits[i] = upload{track: i, name: "init", data: data}
	}
	var ups []upload
	for _, i := range sc.InitOrder {
		ups = append(ups, inits[i])
	}
	nseg := sc.Short + sc.K
	sd := shortDur(sc)
	treg := sc.G*sc.D + sc.Off
	mstart := func(j int) int64 { // master start time of segment j (j may be nseg: the end)
		if j < sc.Short {
			return treg - int64(sc.Short-j)*sd
		}
		return treg + int64(j-sc.Short)*sc.D
	}
	for j := 0; j < nseg; j++ {
		if sc.ResendInit > 0 && j == sc.ResendInit {
			for _, i := range sc.InitOrder {
				ups = append(ups, inits[i])
			}
		}
		for _, i := range sc.RoundOrder {
			t := sc.Tracks[i]
			conv := func(tm int64) int64 {
				g := gcd(int64(t.Ts), int64(sc.Tm))
				x := tm * (int64(t.Ts) / g) / (int64(sc.Tm) / g)
				if sc.GenF > 0 { // scripts of the model: the model's own (coarser) ticks, scaled
					x = (tm / sc.GenF) * (int64(t.Ts) / g) / (int64(sc.Tm) / g) * sc.GenF
				}
				if t.Align == "aac" {
					x = ceilTo(x, 1024)
				}
				return x
			}
			a, b := conv(mstart(j)), conv(mstart(j+1))
			var durs []uint32
			if t.Align == "aac" {
				durs = splitDur(b-a, int((b-a)/1024), true)
			} else {
				durs = splitDur(b-a, t.Samples, t.DefaultDur)
			}
			nr := sc.NB - int64(sc.Short) + int64(j) + t.NOff
			if nr < 0 || nr >= 1<<32 {
				return nil, nil, fmt.Errorf("%s: sequence number %d out of range", sc.ID, nr)
			}
			p := segPlan{SeqNr: uint32(nr), Chunks: chunkify(a, durs, t.Chunks), DefaultDur: t.DefaultDur, Styp: true,
				Video: t.Kind == "video", Salt: byte(17*i + j)}
			data, err := buildSeg(p)
			if err != nil {
				return nil, nil, err
			}
			in, err := parseMedia(data, 0)
			if err != nil {
				return nil, nil, fmt.Errorf("%s: own segment unreadable: %w", sc.ID, err)
			}
			if in.Frags[0].Mfhd != uint32(nr) || int64(in.Frags[0].Tfdt) != a {
				return nil, nil, fmt.Errorf("%s: built segment reads back differently", sc.ID)
			}
			ups = append(ups, upload{track: i, media: true, k: j, name: strconv.FormatInt(nr, 10), data: data, in: in})
		}
	}
	return trs, ups, nil
}

// loadTestdata turns a directory of recorded encoder output into a scenario + uploads.  The master is the
// first video track in upload order; D is the duration of its LAST segment; G, Off, NB are derived from the
// first master segment that starts a pair of equal consecutive durations (the driver's own reading).
func loadTestdata(sc *scenario) ([]trackRun, []upload, error) {
	ents, err := os.ReadDir(sc.testdata)
	if err != nil {
		return nil, nil, err
	}
	var names []string
	for _, e := range ents {
		if e.IsDir() {
			names = append(names, e.Name())
		}
	}
	sort.Strings(names)
	// video first so that the master is well defined
	sort.SliceStable(names, func(i, j int) bool {
		return strings.HasPrefix(names[i], "video") && !strings.HasPrefix(names[j], "video")
	})
	var trs []trackRun
	var inits []upload
	perTrack := map[int][]upload{}
	maxSegs := 0
	for i, n := range names {
		dir := filepath.Join(sc.testdata, n)
		files, _ := os.ReadDir(dir)
		var ext, initName string
		var nums []int
		for _, f := range files {
			e := filepath.Ext(f.Name())
			base := strings.TrimSuffix(f.Name(), e)
			switch base {
			case "init":
				initName, ext = f.Name(), e
			case "init_org":
				if initName == "" {
					initName, ext = f.Name(), e
				}
			default:
				if v, err := strconv.Atoi(base); err == nil {
					nums = append(nums, v)
				}
			}
		}
		sort.Ints(nums)
		kind := map[string]string{".cmfv": "video", ".cmfa": "audio", ".cmft": "text", ".cmfm": "meta"}[ext]
		idata, err := os.ReadFile(filepath.Join(dir, initName))
		if err != nil {
			return nil, nil, err
		}
		io, err := parseInit(idata)
		if err != nil {
			return nil, nil, fmt.Errorf("%s: %w", dir, err)
		}
		if i == 0 {
			sc.Creation = creationOf(idata)
		}
		t := trackSpec{Name: n, Kind: kind, Ts: io.Timescale, Align: "recorded", Chunks: 1}
		trs = append(trs, trackRun{spec: t, ext: ext, seen: map[string]string{}, initData: idata})
		inits = append(inits, upload{track: i, name: "init", data: idata})
		for k, v := range nums {
			data, err := os.ReadFile(filepath.Join(dir, strconv.Itoa(v)+ext))
			if err != nil {
				return nil, nil, err
			}
			in, err := parseMedia(data, io.TrexDur)
			if err != nil {
				return nil, nil, fmt.Errorf("%s/%d: %w", dir, v, err)
			}
			perTrack[i] = append(perTrack[i], upload{track: i, media: true, k: k, name: strconv.Itoa(v), data: data, in: in})
		}
		if len(nums) > maxSegs {
			maxSegs = len(nums)
		}
		sc.Tracks = append(sc.Tracks, t)
	}
	ups := append([]upload{}, inits...)
	for k := 0; k < maxSegs; k++ {
		for i := range trs {
			if k < len(perTrack[i]) {
				ups = append(ups, perTrack[i][k])
			}
		}
	}
	m := perTrack[0]
	if trs[0].spec.Kind != "video" || len(m) < 3 {
		return nil, nil, fmt.Errorf("%s: no video master with three segments", sc.testdata)
	}
	sc.Tm = trs[0].spec.Ts
	sc.D = int64(m[len(m)-1].in.totalDur())
	first := -1
	for k := 0; k+1 < len(m); k++ {
		if m[k].in.totalDur() == m[k+1].in.totalDur() {
			first = k
			break
		}
	}
	if first < 0 {
		return nil, nil, fmt.Errorf("%s: master never has two equal durations", sc.testdata)
	}
	t0 := int64(m[first].in.Frags[0].Tfdt)
	sc.G, sc.Off = t0/sc.D, t0%sc.D
	sc.NB = int64(m[first].in.Frags[0].Mfhd)
	sc.Short = first
	sc.K = len(m) - first
	return trs, ups, nil
}

func (m *mediaObs) totalDur() uint64 {
	var d uint64
	for _, f := range m.Frags {
		d += f.SumDur
	}
	return d
}

// ---- manifest.mpd (own small reader; nothing of the receiver is reused)

type xmlMPD struct {
	AST     string      `xml:"availabilityStartTime,attr"`
	Type    string      `xml:"type,attr"`
	Periods []xmlPeriod `xml:"Period"`
}
type xmlPeriod struct {
	Start string  `xml:"start,attr"`
	AS    []xmlAS `xml:"AdaptationSet"`
}
type xmlAS struct {
	ContentType string    `xml:"contentType,attr"`
	ST          *xmlST    `xml:"SegmentTemplate"`
	Reps        []xmlRepr `xml:"Representation"`
}
type xmlST struct {
	Timescale *int64 `xml:"timescale,attr"`
	Duration  *int64 `xml:"duration,attr"`
	StartNr   *int64 `xml:"startNumber,attr"`
	PTO       *int64 `xml:"presentationTimeOffset,attr"`
	Media     string `xml:"media,attr"`
	Init      string `xml:"initialization,attr"`
	Timeline  *struct {
		S []struct {
			T *int64 `xml:"t,attr"`
			D int64  `xml:"d,attr"`
			R int64  `xml:"r,attr"`
		} `xml:"S"`
	} `xml:"SegmentTimeline"`
}
type xmlRepr struct {
	ID string `xml:"id,attr"`
	ST *xmlST `xml:"SegmentTemplate"`
}

func readMPD(path string) (*xmlMPD, error) {
	data, err := os.ReadFile(path)
	if err != nil {
		return nil, err
	}
	var d xmlMPD
	if err := xml.Unmarshal(data, &d); err != nil {
		return nil, err
	}
	return &d, nil
}

func orInt(p *int64, def int64) int64 {
	if p == nil {
		return def
	}
	return *p
}

// ---- one scenario against the real receiver

type runner struct {
	lib  *initLib
	tmp  string
	repo string
}

type result struct {
	events   []tr.E
	uploads  int
	tuned    bool
	shifted  bool
	fidelity int        // 0 not compared, 1 equal, -1 different
	obs      [][2]int64 // per media upload: stored number and first tfdt (absolute; -1 if nothing readable was stored)
	fidNote  string
	err      error
}

func (r *runner) run(idx int, sc *scenario) (res result) {
	emit := func(e tr.E) { res.events = append(res.events, e) }
	var trs []trackRun
	var ups []upload
	var err error
	if sc.Src == "testdata" {
		trs, ups, err = loadTestdata(sc)
	} else {
		trs, ups, err = buildUploads(r.lib, sc)
	}
	if err != nil {
		res.err = err
		return
	}
	chName := fmt.Sprintf("ch%d", idx)
	storage := filepath.Join(r.tmp, fmt.Sprintf("s%d", idx))
	_ = os.RemoveAll(storage)
	if err := os.MkdirAll(storage, 0o755); err != nil {
		res.err = err
		return
	}
	defer os.RemoveAll(storage)
	ctx, cancel := context.WithCancel(context.Background())
	defer cancel()
	cfg := &app.Config{Channels: []app.ChannelConfig{{Name: chName, StartNr: sc.StartNr}}}
	router, _, err := app.VerifNewRouter(ctx, "/upload", storage, uint64(sc.Tsbd), 0, "", cfg)
	if err != nil {
		res.err = err
		return
	}
	procCh := make(chan procEv, 1024)
	hookChans.Store(chName, procCh)
	defer hookChans.Delete(chName)
	chDir := filepath.Join(storage, chName)

	put := func(u *upload) int {
		t := &trs[u.track]
		url := fmt.Sprintf("/upload/%s/%s/%s%s", chName, t.spec.Name, u.name, t.ext)
		if sc.Streams {
			url = fmt.Sprintf("/upload/%s/Streams(%s%s)", chName, t.spec.Name, t.ext)
		}
		req := httptest.NewRequest(http.MethodPut, url, bytes.NewReader(u.data))
		req.Header.Set("Content-Length", strconv.Itoa(len(u.data)))
		rec := httptest.NewRecorder()
		router.ServeHTTP(rec, req)
		return rec.Code
	}

	// 1. the leading init segments (before the header: the fine unit depends on the stored timescales)
	type initEv struct {
		track, status int
		resend        bool
	}
	var initEvs []initEv
	pos := 0
	for pos < len(ups) && !ups[pos].media {
		u := &ups[pos]
		st := put(u)
		res.uploads++
		t := &trs[u.track]
		if data, err := os.ReadFile(filepath.Join(chDir, t.spec.Name, "init"+t.ext)); err == nil {
			if io, err := parseInit(data); err == nil {
				t.tsOut, t.trexOut, t.initOK = int64(io.Timescale), io.TrexDur, true
			}
		}
		initEvs = append(initEvs, initEv{track: u.track, status: st})
		pos++
	}
	// fine unit of every track: 1/F s with F = lcm(Tm, tsIn, tsOut)
	tm := int64(sc.Tm)
	hdrTracks := []map[string]any{}
	master := -1 // the first video track in init upload order
	for _, ie := range initEvs {
		if trs[ie.track].spec.Kind == "video" {
			master = ie.track
			break
		}
	}
	for i := range trs {
		t := &trs[i]
		tsIn := int64(t.spec.Ts)
		tsOut := t.tsOut
		if !t.initOK || tsOut <= 0 {
			tsOut = tsIn
		}
		f := lcm(lcm(tm, tsIn), tsOut)
		t.uin, t.uout, t.v = f/tsIn, f/tsOut, f/tm
		t.s = sc.D * t.v
		if t.s >= 1<<29 || f >= 1<<40 {
			res.err = fmt.Errorf("%s: fine unit too small for 32-bit arithmetic (track %s, F=%d, S=%d)", sc.ID, t.spec.Name, f, t.s)
			return
		}
		// (G*S) mod Uout and mod Uin: needed to decide representability of grid points in the track's timescales
		t.gsOut = mulmod(sc.G, t.s, t.uout)
		hdrTracks = append(hdrTracks, map[string]any{"name": t.spec.Name, "kind": t.spec.Kind, "master": i == master,
			"tsIn": tsIn, "tsOut": small(t.tsOut), "stored": t.initOK, "Uin": t.uin, "Uout": t.uout, "V": t.v, "S": t.s,
			"gsOut": t.gsOut, "gsIn": mulmod(sc.G, t.s, t.uin), "ext": t.ext})
	}
	c := small(sc.NB - int64(sc.StartNr) - sc.G)
	crClass := "other"
	switch {
	case sc.Creation < 0:
		crClass = "before1970"
	case sc.Creation == 0:
		crClass = "epoch"
	case isYearStart(sc.Creation):
		crClass = "year"
	case sc.Creation%86400 == 0:
		crClass = "day"
	}
	emit(tr.E{"ev": "hdr", "id": sc.ID, "cls": sc.Class, "src": sc.Src, "Tm": tm, "D": sc.D, "G": strconv.FormatInt(sc.G, 10),
		"NB": strconv.FormatInt(sc.NB, 10), "c": c, "far": c == big, "startNr": sc.StartNr, "tracks": hdrTracks,
		"creation": crClass, "streams": sc.Streams, "nearZero": sc.G < 1000, "resendInit": sc.ResendInit > 0})
	for _, ie := range initEvs {
		emit(tr.E{"ev": "init", "track": trs[ie.track].spec.Name, "status": ie.status, "resend": false})
	}

	decomp := func(t *trackRun, ticks int64, u int64) (q, rem int64) {
		x := ticks * u
		q = x / t.s
		rem = x % t.s
		return small(q - sc.G), rem
	}
	listDir := func(t *trackRun) map[string]string {
		m := map[string]string{}
		ents, _ := os.ReadDir(filepath.Join(chDir, t.spec.Name))
		for _, e := range ents {
			n := e.Name()
			if !strings.HasSuffix(n, t.ext) || strings.HasPrefix(n, "init") {
				continue
			}
			info, err := e.Info()
			if err != nil {
				continue
			}
			// a file that is written again gets a new modification time - but the kernel stamps files with a coarse clock
			// (one tick), so two writes within a tick look alike; a file replaced by rename has a new inode
			ino := uint64(0)
			if st, ok := info.Sys().(*syscall.Stat_t); ok {
				ino = st.Ino
			}
			m[n] = fmt.Sprintf("%d/%d/%d", info.Size(), info.ModTime().UnixNano(), ino)
		}
		return m
	}
	mpdSeen := false
	tlStamp := ""
	var lastHook procEv

	for ; pos < len(ups); pos++ {
		u := &ups[pos]
		t := &trs[u.track]
		if !u.media {
			st := put(u)
			res.uploads++
			emit(tr.E{"ev": "init", "track": t.spec.Name, "status": st, "resend": true})
			continue
		}
		// drain stale hook events
		for len(procCh) > 0 {
			<-procCh
		}
		st := put(u)
		res.uploads++
		hk := map[string]any{"have": false}
		if st == http.StatusOK {
			deadline := time.After(processTimeout)
		wait:
			for {
				select {
				case ev := <-procCh:
					complete, _ := ev["complete"].(bool)
					if complete && ev["track"] == t.spec.Name {
						lastHook = ev
						n := toI64(ev["seqNr"])
						q, rem := decomp(t, toI64(ev["dts"]), t.uout)
						ssAbs := toI64(ev["seqNrShift"])
						hk = map[string]any{"have": true, "ng": small(n - sc.G), "nb": small(n - (sc.NB - int64(sc.StartNr))),
							"nin": small(toI64(ev["seqNrIn"]) - sc.NB), "q": q, "rem": rem, "dur": small(toI64(ev["dur"])),
							"D": small(toI64(ev["masterSegDuration"])), "Tm": small(toI64(ev["masterTimescale"])),
							"ssd": small(ssAbs - (sc.G - (sc.NB - int64(sc.StartNr)))), "ss0": ssAbs == 0,
							"ts": small(toI64(ev["timeShift"])), "started": ev["started"] == true, "shifted": ev["shifted"] == true,
							"masterTrack": ev["masterTrack"]}
						break wait
					}
				case <-deadline:
					res.err = fmt.Errorf("%s: upload %d answered 200 but the channel goroutine reported nothing", sc.ID, pos)
					return
				}
			}
		}
		// what did the upload store?  new or changed media files in ALL track directories of the channel
		type newFile struct {
			track int
			name  string
		}
		var changed []newFile
		for i := range trs {
			now := listDir(&trs[i])
			for n, d := range now {
				if trs[i].seen[n] != d {
					changed = append(changed, newFile{i, n})
				}
			}
			trs[i].seen = now
		}
		if hk["have"] == true {
			// the same name stored again with the same size within one clock tick: name the file the channel goroutine
			// reported (its content is judged like any other stored file)
			own := false
			for _, nf := range changed {
				own = own || nf.track == u.track
			}
			name := fmt.Sprintf("%d%s", toI64(lastHook["seqNr"]), t.ext)
			if _, ok := trs[u.track].seen[name]; ok && !own {
				changed = append(changed, newFile{u.track, name})
			}
		}
		file := map[string]any{"found": false, "nchanged": len(changed), "ownDir": false, "frs": []any{}}
		res.obs = append(res.obs, [2]int64{-1, -1})
		for _, nf := range changed {
			if nf.track != u.track {
				continue
			}
			file["ownDir"] = true
			base := strings.TrimSuffix(nf.name, t.ext)
			n, err := strconv.ParseInt(base, 10, 64)
			if err != nil {
				continue
			}
			data, err := os.ReadFile(filepath.Join(chDir, t.spec.Name, nf.name))
			if err != nil {
				continue
			}
			file["found"] = true
			file["ng"] = small(n - sc.G)
			file["nb"] = small(n - (sc.NB - int64(sc.StartNr)))
			so, err := parseMedia(data, t.trexOut)
			if err != nil {
				file["readable"] = false
				break
			}
			file["readable"] = true
			file["styp"] = so.Styp
			file["verbatim"] = bytes.Equal(data, u.data) // stored byte for byte as uploaded
			res.obs[len(res.obs)-1] = [2]int64{n, int64(so.Frags[0].Tfdt)}
			var frs []any
			for fi, f := range so.Frags {
				q, rem := decomp(t, int64(f.Tfdt), t.uout)
				// sample j of stored fragment fi belongs to sample j of uploaded fragment fi: (uploaded, stored) duration pairs, run-length coded
				pairs := []any{}
				nsIn := -1
				if fi < len(u.in.Frags) {
					in := u.in.Frags[fi]
					nsIn = in.NS
					var last [2]uint32
					cnt := 0
					for j := 0; j < in.NS && j < f.NS; j++ {
						cur := [2]uint32{in.Durs[j], f.Durs[j]}
						if cnt > 0 && cur != last {
							pairs = append(pairs, map[string]any{"di": small(int64(last[0])), "do": small(int64(last[1])), "n": cnt})
							cnt = 0
						}
						last = cur
						cnt++
					}
					if cnt > 0 {
						pairs = append(pairs, map[string]any{"di": small(int64(last[0])), "do": small(int64(last[1])), "n": cnt})
					}
				}
				same := fi < len(u.in.Frags) && u.in.Frags[fi].Payload == f.Payload
				frs = append(frs, map[string]any{"mng": small(int64(f.Mfhd) - sc.G), "mnb": small(int64(f.Mfhd) - (sc.NB - int64(sc.StartNr))),
					"q": q, "rem": rem, "pairs": pairs, "ns": f.NS, "nsIn": nsIn, "sum": small(int64(f.SumDur)), "same": same,
					// traw: the stored tfdt is, tick for tick, the uploaded one
					"traw": fi < len(u.in.Frags) && u.in.Frags[fi].Tfdt == f.Tfdt})
			}
			file["frs"] = frs
			break
		}
		// the driver's own reading of the upload
		in0 := u.in.Frags[0]
		iq, irem := decomp(t, int64(in0.Tfdt), t.uin)
		var ifr []any
		for _, f := range u.in.Frags {
			q, rem := decomp(t, int64(f.Tfdt), t.uin)
			runs := []any{}
			for _, rn := range f.Runs {
				runs = append(runs, map[string]any{"d": small(int64(rn.D)), "n": rn.N})
			}
			ifr = append(ifr, map[string]any{"q": q, "rem": rem, "runs": runs, "ns": f.NS, "sum": small(int64(f.SumDur))})
		}
		// input class attributes (for the classification of findings; not used by any clause):
		// wide: the product uploaded time x timescale does not fit a signed 64-bit integer
		// (the receiver converts a time to the master timescale and back: time x master timescale)
		dtr := sc.D * int64(t.spec.Ts) / int64(sc.Tm)
		wide := int64(in0.Tfdt)+2*dtr > (1<<63-1)/int64(sc.Tm)
		// rescaled: the stored track counts in another timescale than the uploaded one; wideOut / durWide: the products
		// time x stored timescale (64 bit) / sample duration x stored timescale (32 bit) do not fit
		rescaled := t.tsOut > 0 && t.tsOut != int64(t.spec.Ts)
		wideOut, durWide := false, false
		if rescaled {
			wideOut = int64(in0.Tfdt)+2*dtr > (1<<63-1)/t.tsOut
			for _, f := range u.in.Frags {
				for _, rn := range f.Runs {
					if int64(rn.D)*t.tsOut >= 1<<32 {
						durWide = true
					}
				}
			}
		}
		// fracDur: the segment duration is not a whole number of ticks of this track
		fracDur := sc.D*int64(t.spec.Ts)%int64(sc.Tm) != 0
		emit(tr.E{"ev": "up", "i": pos, "track": t.spec.Name, "k": u.k, "status": st, "nin": small(int64(in0.Mfhd) - sc.NB),
			"tsIn": int64(t.spec.Ts), "nfr": len(u.in.Frags), "defdur": t.spec.DefaultDur, "wide": wide,
			"rescaled": rescaled, "wideOut": wideOut, "durWide": durWide, "fracDur": fracDur,
			"q": iq, "rem": irem, "dur": small(int64(u.in.totalDur())), "frs": ifr, "hook": hk, "file": file})

		// manifest.mpd: reported once, when it first exists, and again whenever its content changes
		if md, err := readMPD(filepath.Join(chDir, "manifest.mpd")); err == nil && !mpdSeen {
			mpdSeen = true
			emit(mpdEvent(sc, trs, md))
		}
		// the SegmentTimeline MPD: listed (number, time) pairs
		if data, err := os.ReadFile(filepath.Join(chDir, "manifest_timeline_nr.mpd")); err == nil {
			if d := digest(data); d != tlStamp {
				tlStamp = d
				var md xmlMPD
				if xml.Unmarshal(data, &md) == nil {
					emit(timelineEvent(sc, trs, &md))
				}
			}
		}
	}
	// end of scenario: listing of every track directory
	files := map[string]any{}
	for i := range trs {
		var ns []any
		var names []string
		for n := range listDir(&trs[i]) {
			names = append(names, n)
		}
		sort.Strings(names)
		for _, n := range names {
			v, err := strconv.ParseInt(strings.TrimSuffix(n, trs[i].ext), 10, 64)
			if err != nil {
				ns = append(ns, map[string]any{"ng": big, "nb": big, "name": n})
				continue
			}
			ns = append(ns, map[string]any{"ng": small(v - sc.G), "nb": small(v - (sc.NB - int64(sc.StartNr)))})
		}
		if ns == nil {
			ns = []any{}
		}
		files[trs[i].spec.Name] = ns
	}
	if lastHook != nil {
		res.tuned = toI64(lastHook["masterSegDuration"]) != 0
		res.shifted = toI64(lastHook["seqNrShift"]) != 0 || toI64(lastHook["timeShift"]) != 0
	}
	emit(tr.E{"ev": "end", "id": sc.ID, "files": files, "mpd": mpdSeen, "tuned": res.tuned})
	// fidelity of the explorer model (never a verdict)
	if sc.Pred != nil && lastHook != nil {
		ok := sc.Pred.Tuned == res.tuned
		if ok && res.tuned {
			ok = sc.Pred.TS == toI64(lastHook["timeShift"])
		}
		if ok && sc.Pred.Abs {
			ok = sc.Pred.SS == toI64(lastHook["seqNrShift"]) && len(sc.Pred.Stored) == len(res.obs)
			for i := 0; ok && i < len(res.obs); i++ {
				// the model counts in coarser ticks: times of the second track agree up to the model's roundings
				d := int64(sc.Pred.Stored[i][2])*sc.Pred.F - res.obs[i][1]
				tol := int64(1)
				if sc.Pred.Stored[i][0] != 0 {
					tol = sc.Pred.TolA
				}
				ok = int64(sc.Pred.Stored[i][1]) == res.obs[i][0] && d > -tol && d < tol
			}
		}
		res.fidelity = 1
		if !ok {
			res.fidelity = -1
			res.fidNote = fmt.Sprintf("%s: model tuned=%v ts=%d ss=%d stored=%v, code tuned=%v ts=%d ss=%d stored=%v", sc.ID, sc.Pred.Tuned, sc.Pred.TS, sc.Pred.SS,
				sc.Pred.Stored, res.tuned, toI64(lastHook["timeShift"]), toI64(lastHook["seqNrShift"]), res.obs)
		}
	}
	return
}

func mulmod(a, b, m int64) int64 {
	if m <= 1 {
		return 0
	}
	return (a % m) * (b % m) % m
}

func isYearStart(s int64) bool {
	t := time.Unix(s, 0).UTC()
	return t.Month() == 1 && t.Day() == 1 && t.Hour() == 0 && t.Minute() == 0 && t.Second() == 0
}

func mpdEvent(sc *scenario, trs []trackRun, md *xmlMPD) tr.E {
	ast0, astc := int64(big), int64(big)
	astOK := false
	if t, err := time.Parse(time.RFC3339, md.AST); err == nil {
		astOK = true
		ast0 = small(t.Unix())
		astc = small(t.Unix() - sc.Creation)
	}
	as := []any{}
	var reps []string
	if len(md.Periods) > 0 {
		for _, a := range md.Periods[0].AS {
			ids := []string{}
			for _, r := range a.Reps {
				ids = append(ids, r.ID)
				reps = append(reps, r.ID)
			}
			o := map[string]any{"ct": a.ContentType, "reps": ids, "hasST": a.ST != nil, "ts": int64(1), "dur": int64(0), "sn": int64(1), "pto": int64(0),
				"media": "", "init": "", "timeline": false}
			if a.ST != nil {
				o["ts"] = small(orInt(a.ST.Timescale, 1))
				o["dur"] = small(orInt(a.ST.Duration, 0))
				o["sn"] = small(orInt(a.ST.StartNr, 1))
				o["pto"] = small(orInt(a.ST.PTO, 0))
				o["media"] = a.ST.Media
				o["init"] = a.ST.Init
				o["timeline"] = a.ST.Timeline != nil
			}
			as = append(as, o)
		}
	}
	if reps == nil {
		reps = []string{}
	}
	return tr.E{"ev": "mpd", "type": md.Type, "astOK": astOK, "ast0": ast0, "astc": astc, "nperiods": len(md.Periods), "as": as, "reps": reps}
}

// timelineEvent: the (number, time) pairs listed by manifest_timeline_nr.mpd, per adaptation set.
func timelineEvent(sc *scenario, trs []trackRun, md *xmlMPD) tr.E {
	as := []any{}
	if len(md.Periods) > 0 {
		for _, a := range md.Periods[0].AS {
			if a.ST == nil || a.ST.Timeline == nil || len(a.Reps) == 0 {
				continue
			}
			var t *trackRun
			for i := range trs {
				if trs[i].spec.Name == a.Reps[0].ID {
					t = &trs[i]
				}
			}
			if t == nil {
				continue
			}
			ts := orInt(a.ST.Timescale, 1)
			segs := []any{}
			n := orInt(a.ST.StartNr, 1)
			var cur int64
			for _, s := range a.ST.Timeline.S {
				if s.T != nil {
					cur = *s.T
				}
				for r := int64(0); r <= s.R && len(segs) < 64; r++ {
					// times of the timeline are in the adaptation set's timescale; decompose in the track's fine unit
					f := lcm(lcm(int64(sc.Tm), int64(t.spec.Ts)), t.tsOut)
					q, rem := int64(big), int64(0)
					if ts > 0 && f%ts == 0 {
						x := cur * (f / ts)
						q, rem = small(x/t.s-sc.G), x%t.s
					}
					segs = append(segs, map[string]any{"ng": small(n - sc.G), "nb": small(n - (sc.NB - int64(sc.StartNr))), "q": q, "rem": rem, "d": small(s.D)})
					n++
					cur += s.D
				}
			}
			as = append(as, map[string]any{"track": t.spec.Name, "ts": small(ts), "segs": segs})
		}
	}
	return tr.E{"ev": "tl", "as": as}
}

// Package c18 drives the real pkg/chunkparser through a scripted io.Reader and records every
// Read call, callback and the return value.
package c18

import (
	"bytes"
	"encoding/binary"
	"encoding/json"
	"errors"
	"flag"
	"fmt"
	"io"
	"math/rand"
	"os"
	"path/filepath"
	"strings"
	"time"

	"github.com/Dash-Industry-Forum/livesim2/pkg/chunkparser"

	"verifharness/tr"
)

type box struct {
	T    string `json:"t"`
	S    int    `json:"s"`
	Real int    `json:"real"`
}

type genLine struct {
	Boxes     []box `json:"boxes"`
	Trunc     int   `json:"trunc"`
	EofJoined bool  `json:"eofJoined"`
	Sched     []int `json:"sched"`
	Out       []struct {
		Start int  `json:"start"`
		Len   int  `json:"len"`
		Init  bool `json:"init"`
	} `json:"out"`
	Err bool `json:"err"`
}

// maxHangs: a parser that does not terminate costs 10 s (and a spinning goroutine) per scenario; a handful of them is verdict
// enough, the driver stops generating scenarios after that
const maxHangs = 5

var errInjected = errors.New("injected reader error")
var errCallback = errors.New("injected callback error")

// scripted reader: hands out data according to a schedule; logs every call.
type reader struct {
	data      []byte
	pos       int
	sched     func(req int) int // bytes to return for this call (>=1), given len(p)
	eofJoined bool
	errAt     int // inject a non-EOF error at the Read call that would start at/after this offset (-1: never)
	// how the error arrives: the error value (injected / io.ErrUnexpectedEOF as net/http gives for a short body), alone or
	// together with data that fills the whole request, once only or on every later call as well
	errUx, errWithData, errOnce, errDone, errFired bool
	w                                              *tr.W
	reads                                          int
	maxReads                                       int
	exceeded                                       bool
}

func clamp(n int) int {
	if n > 1<<30 {
		return 1 << 30
	}
	return n
}

func (r *reader) Read(p []byte) (int, error) {
	r.reads++
	if r.reads > r.maxReads {
		r.exceeded = true
		return 0, errors.New("read bound exceeded")
	}
	left := len(r.data) - r.pos
	if r.errAt >= 0 && r.pos >= r.errAt && !r.errDone {
		var e error = errInjected
		if r.errUx {
			e = io.ErrUnexpectedEOF
		}
		r.errDone = r.errOnce
		n := 0
		if r.errWithData && !r.errFired {
			n = min(len(p), left)
			copy(p, r.data[r.pos:r.pos+n])
		}
		r.errFired = true
		r.w.Emit(tr.E{"ev": "read", "pos": r.pos, "req": clamp(len(p)), "n": n, "eof": false, "err": true})
		r.pos += n
		return n, e
	}
	if left == 0 {
		r.w.Emit(tr.E{"ev": "read", "pos": r.pos, "req": clamp(len(p)), "n": 0, "eof": true, "err": false})
		return 0, io.EOF
	}
	n := r.sched(len(p))
	if n < 1 {
		n = 1
	}
	if n > len(p) {
		n = len(p)
	}
	if n > left {
		n = left
	}
	if r.errAt >= 0 && r.pos+n > r.errAt && r.errAt > r.pos {
		n = r.errAt - r.pos
	}
	copy(p, r.data[r.pos:r.pos+n])
	pos0 := r.pos
	r.pos += n
	eof := r.eofJoined && r.pos == len(r.data)
	r.w.Emit(tr.E{"ev": "read", "pos": pos0, "req": clamp(len(p)), "n": n, "eof": eof, "err": false})
	if eof {
		return n, io.EOF
	}
	return n, nil
}

var known = map[string]bool{"ftyp": true, "moov": true, "styp": true, "moof": true, "mdat": true, "free": true,
	"sidx": true, "emsg": true, "prft": true}

// walk lists the top-level boxes visible in data (independent of the parser).
func walk(data []byte) (boxes []map[string]any, wf bool) {
	wf = true
	pos := uint64(0)
	boxes = []map[string]any{}
	for pos+8 <= uint64(len(data)) {
		size := uint64(binary.BigEndian.Uint32(data[pos : pos+4]))
		typ := string(data[pos+4 : pos+8])
		if !known[typ] {
			typ = "junk"
		}
		if size < 8 || pos+size > 0xFFFFFFFF {
			wf = false
			break
		}
		boxes = append(boxes, map[string]any{"t": typ, "s": int(size)})
		pos += size
	}
	return boxes, wf
}

type scenario struct {
	data      []byte
	sched     func(req int) int
	eofJoined bool
	errAt     int
	cbErrAt   int
	buf0      int
	desc      string
	// reader error shape (see reader)
	errUx, errWithData, errOnce bool
}

type stats struct {
	scen, hangs, cbs, fidelityMismatch int
	distinct                           map[string]bool
	samples                            []any
}

func runOne(w *tr.W, sc scenario, st *stats, modelOut *genLine) {
	boxes, wf := walk(sc.data)
	w.Emit(tr.E{"ev": "hdr", "sc": st.scen, "len": len(sc.data), "boxes": boxes, "wf": wf, "errAt": sc.errAt,
		"cbErrAt": sc.cbErrAt, "buf0": sc.buf0, "eofJoined": sc.eofJoined, "desc": sc.desc,
		"errUx": sc.errUx, "errWithData": sc.errWithData, "errOnce": sc.errOnce})
	st.scen++
	rd := &reader{data: sc.data, sched: sc.sched, eofJoined: sc.eofJoined, errAt: sc.errAt, w: w,
		errUx: sc.errUx, errWithData: sc.errWithData, errOnce: sc.errOnce, maxReads: 4*len(sc.data) + 64}
	type cbrec struct {
		start, n int
		init     bool
	}
	var got []cbrec
	ncb := 0
	cb := func(cd chunkparser.ChunkData) error {
		ncb++
		s := int(cd.Start)
		eq := s >= 0 && s+len(cd.Data) <= len(sc.data) && bytes.Equal(cd.Data, sc.data[s:s+len(cd.Data)])
		w.Emit(tr.E{"ev": "cb", "start": s, "len": len(cd.Data), "init": cd.IsInitSegment, "eq": eq})
		got = append(got, cbrec{s, len(cd.Data), cd.IsInitSegment})
		st.cbs++
		if sc.cbErrAt == ncb {
			return errCallback
		}
		return nil
	}
	p := chunkparser.NewMP4ChunkParser(rd, make([]byte, sc.buf0), cb)
	done := make(chan error, 1)
	go func() {
		defer func() {
			if r := recover(); r != nil {
				done <- fmt.Errorf("panic: %v", r)
			}
		}()
		done <- p.Parse()
	}()
	select {
	case err := <-done:
		if rd.exceeded {
			w.Emit(tr.E{"ev": "hang", "why": "more than 4*len+64 Read calls"})
			st.hangs++
			return
		}
		kind := ""
		switch {
		case err == nil:
		case errors.Is(err, errInjected), sc.errUx && errors.Is(err, io.ErrUnexpectedEOF):
			kind = "reader"
		case errors.Is(err, errCallback):
			kind = "callback"
		case strings.HasPrefix(err.Error(), "panic:"):
			kind = "panic"
		default:
			kind = "other"
		}
		e := tr.E{"ev": "ret", "err": kind}
		if err != nil {
			e["msg"] = err.Error()
		}
		w.Emit(e)
	case <-time.After(10 * time.Second):
		w.Emit(tr.E{"ev": "hang", "why": "Parse did not return within 10 s"})
		st.hangs++
		return
	}
	if modelOut != nil && sc.errAt < 0 && sc.cbErrAt < 0 {
		same := len(got) == len(modelOut.Out)
		for i := 0; same && i < len(got); i++ {
			o := modelOut.Out[i]
			same = o.Start == got[i].start && o.Len == got[i].n && o.Init == got[i].init
		}
		if !same {
			st.fidelityMismatch++
		}
	}
}

func mkStream(bs []box) []byte {
	var b bytes.Buffer
	for i, x := range bs {
		hdr := make([]byte, 8)
		binary.BigEndian.PutUint32(hdr, uint32(x.S))
		copy(hdr[4:], x.T)
		b.Write(hdr)
		for j := 8; j < x.Real; j++ {
			// filler: mostly zero so that a header decoded at a wrong offset has a small (or zero) size
			if (i*5+j)%7 == 3 {
				b.WriteByte(0x09)
			} else {
				b.WriteByte(0)
			}
		}
	}
	return b.Bytes()
}

func Main(args []string) error {
	fs := flag.NewFlagSet("c18", flag.ExitOnError)
	out := fs.String("out", "c18.ndjson", "trace output")
	gen := fs.String("gen", "", "TLC-generated behaviours (jsonl)")
	seed := fs.Int64("seed", 1, "seed")
	nRand := fs.Int("n", 300, "random synthetic streams")
	nReal := fs.Int("real", 40, "partitions per real segment")
	repo := fs.String("repo", os.Getenv("VERIF_REPO"), "repository root")
	_ = fs.Parse(args)
	if *repo == "" {
		*repo = "/repo"
	}
	w, err := tr.New(*out)
	if err != nil {
		return err
	}
	st := &stats{distinct: map[string]bool{}}
	rng := rand.New(rand.NewSource(*seed))

	// (R) replay of explorer behaviours: the schedule is the model's; the model's callbacks are compared (fidelity)
	if *gen != "" {
		data, err := os.ReadFile(*gen)
		if err != nil {
			return err
		}
		for _, line := range strings.Split(strings.TrimSpace(string(data)), "\n") {
			if line == "" {
				continue
			}
			var g genLine
			if err := json.Unmarshal([]byte(line), &g); err != nil {
				return fmt.Errorf("gen: %w", err)
			}
			stream := mkStream(g.Boxes)
			if g.Trunc < len(stream) {
				stream = stream[:g.Trunc]
			}
			i := 0
			sched := func(req int) int {
				for i < len(g.Sched) && g.Sched[i] == 0 {
					i++
				}
				if i < len(g.Sched) {
					i++
					return g.Sched[i-1]
				}
				return 1
			}
			if st.hangs >= maxHangs {
				break
			}
			for _, buf0 := range []int{0, 1024} {
				i = 0
				runOne(w, scenario{data: stream, sched: sched, eofJoined: g.EofJoined, errAt: -1, cbErrAt: -1,
					buf0: buf0, desc: "tlc"}, st, &g)
			}
			st.distinct["g"+line[:min(len(line), 200)]+fmt.Sprint(g.Sched)] = true
			if len(st.samples) < 2 {
				st.samples = append(st.samples, map[string]any{"kind": "tlc-behaviour", "boxes": g.Boxes, "trunc": g.Trunc,
					"eofJoined": g.EofJoined, "sched": g.Sched})
			}
		}
	}

	schedFor := func(kind int, total int) (func(int) int, string) {
		switch kind {
		case 0:
			if total > 3000 {
				return func(req int) int { return 97 }, "fixed-97"
			}
			return func(req int) int { return 1 }, "1-byte"
		case 1:
			return func(req int) int { return req }, "all-at-once"
		case 2:
			k := 2 + rng.Intn(13)
			return func(req int) int { return k }, fmt.Sprintf("fixed-%d", k)
		default:
			local := rand.New(rand.NewSource(rng.Int63()))
			mx := 1 + local.Intn(max(total, 2))
			return func(req int) int { return 1 + local.Intn(mx) }, fmt.Sprintf("random<=%d", mx)
		}
	}
	bufSizes := func(total int) []int { return []int{0, 1, 8, 9, total, total + 1, 64 << 10} }

	// (V) synthetic streams incl. corrupted size fields, truncation, injected errors
	types := []string{"ftyp", "moov", "styp", "moof", "mdat", "free", "sidx", "emsg"}
	for s := 0; s < *nRand && st.hangs < maxHangs; s++ {
		nb := 1 + rng.Intn(6)
		bs := make([]box, nb)
		for i := range bs {
			sz := 8 + []int{0, 1, 4, 7, 8, 100, 1000}[rng.Intn(7)]
			bs[i] = box{types[rng.Intn(len(types))], sz, sz}
		}
		// typical shapes more often
		if rng.Intn(3) == 0 {
			bs = []box{{"styp", 24, 24}}
			for k := 0; k < 1+rng.Intn(4); k++ {
				m := 8 + rng.Intn(64)
				bs = append(bs, box{"moof", 16 + rng.Intn(40), 0}, box{"mdat", m, m})
				bs[len(bs)-2].Real = bs[len(bs)-2].S
			}
		}
		// chunk sequences from a small size alphabet, with optional prft/emsg/styp boxes in front of a moof, so that a box of
		// one chunk often ends at the offset at which the previous chunk ended (lengths coincide); every second one has the
		// coincidence built in
		if rng.Intn(4) == 0 {
			bs = bs[:0]
			if rng.Intn(2) == 0 {
				bs = append(bs, box{"styp", 16, 16})
			}
			prev := 0
			for k := 0; k < 2+rng.Intn(6); k++ {
				var ch []box
				lead := []string{"prft", "emsg", "styp", "free"}[rng.Intn(4)]
				switch {
				case prev > 16 && rng.Intn(2) == 0 && prev-8*(1+rng.Intn(3)) >= 8:
					a := 8 * (1 + rng.Intn(3))
					if prev-a >= 8 { // lead + moof end exactly where the previous chunk ended
						ch = append(ch, box{lead, a, a}, box{"moof", prev - a, prev - a})
					}
				case prev >= 8 && rng.Intn(2) == 0: // the first box alone has the previous chunk's length
					ch = append(ch, box{[]string{lead, "moof"}[rng.Intn(2)], prev, prev})
				}
				if len(ch) == 0 || ch[len(ch)-1].T != "moof" {
					if rng.Intn(3) == 0 {
						a := 8 * (1 + rng.Intn(4))
						ch = append(ch, box{lead, a, a})
					}
					a := 8 * (1 + rng.Intn(6))
					ch = append(ch, box{"moof", a, a})
				}
				m := 8 * (1 + rng.Intn(5))
				ch = append(ch, box{"mdat", m, m})
				prev = 0
				for _, x := range ch {
					prev += x.S
				}
				bs = append(bs, ch...)
			}
		}
		corrupt := ""
		if rng.Intn(3) == 0 && st.hangs < 3 {
			i := rng.Intn(len(bs))
			bad := []int{0, 1, 2, 7, bs[i].Real + 1, bs[i].Real - 1, bs[i].Real + 5000, 0xFFFFFFF8, 0xFFFFFFFF, 3}[rng.Intn(10)]
			if bad >= 0x10000000 {
				// Only offsets that wrap the parser's 32-bit arithmetic are interesting; a huge size that does
				// not wrap merely makes the parser grow its buffer to 4 GB (slow, not a termination issue).
				// The parser's offsets restart after every delivered mdat, so no mdat may precede the box.
				pos, mdatBefore := 0, false
				for j := 0; j < i; j++ {
					pos += bs[j].Real
					mdatBefore = mdatBefore || bs[j].T == "mdat"
				}
				if mdatBefore || uint64(pos)+uint64(bad) <= 0xFFFFFFFF {
					bad = 0
				}
			}
			bs[i].S = bad
			corrupt = fmt.Sprintf("box%d.size=%d", i, bad)
		}
		stream := mkStream(bs)
		trunc := len(stream)
		if rng.Intn(3) == 0 {
			trunc = rng.Intn(len(stream) + 1)
		}
		stream = stream[:trunc]
		for k := 0; k < 5; k++ {
			sched, sname := schedFor(k%4+(k/4)*3, len(stream))
			sc := scenario{data: stream, sched: sched, eofJoined: rng.Intn(2) == 0, errAt: -1, cbErrAt: -1,
				buf0: bufSizes(len(stream))[rng.Intn(7)]}
			if rng.Intn(6) == 0 && len(stream) > 0 {
				sc.errAt = rng.Intn(len(stream) + 1)
				sc.errUx, sc.errWithData, sc.errOnce = rng.Intn(2) == 0, rng.Intn(2) == 0, rng.Intn(2) == 0
			} else if rng.Intn(8) == 0 {
				sc.cbErrAt = 1 + rng.Intn(3)
			}
			sc.desc = fmt.Sprintf("synthetic %s %s", corrupt, sname)
			runOne(w, sc, st, nil)
			st.distinct[fmt.Sprintf("s%v|%d|%s|%v|%d|%d|%d", bs, trunc, sname, sc.eofJoined, sc.errAt, sc.cbErrAt, sc.buf0)] = true
		}
		if s < 2 {
			st.samples = append(st.samples, map[string]any{"kind": "synthetic", "boxes": bs, "trunc": trunc, "corrupt": corrupt})
		}
	}

	// (V) real segments: init segments, a 3-chunk media segment, init+media concatenations
	td := filepath.Join(*repo, "pkg/chunkparser/testdata")
	var reals [][]byte
	var names []string
	for _, f := range []string{"video_init.mp4", "audio_init.mp4", "3_chunked.m4s"} {
		d, err := os.ReadFile(filepath.Join(td, f))
		if err != nil {
			return err
		}
		reals = append(reals, d)
		names = append(names, f)
	}
	reals = append(reals, append(append([]byte{}, reals[0]...), reals[2]...))
	names = append(names, "video_init+3_chunked")
	reals = append(reals, append(append([]byte{}, reals[2]...), reals[2]...))
	names = append(names, "3_chunked x2")
	for ri, d := range reals {
		for k := 0; k < *nReal && st.hangs < maxHangs; k++ {
			data := d
			if k%5 == 4 {
				data = d[:rng.Intn(len(d)+1)]
			}
			sched, sname := schedFor(k%4, len(data))
			if k < 2 {
				sched, sname = schedFor(k, len(data))
			}
			sc := scenario{data: data, sched: sched, eofJoined: k%2 == 0, errAt: -1, cbErrAt: -1,
				buf0: bufSizes(len(data))[rng.Intn(7)], desc: "real " + names[ri] + " " + sname}
			if k%11 == 10 || k%7 == 5 {
				sc.errAt = rng.Intn(len(data) + 1)
				sc.errUx, sc.errWithData, sc.errOnce = rng.Intn(2) == 0, rng.Intn(2) == 0, rng.Intn(2) == 0
			}
			if k%13 == 12 {
				sc.cbErrAt = 1 + rng.Intn(2)
			}
			runOne(w, sc, st, nil)
			st.distinct[fmt.Sprintf("r%d|%d|%s|%v|%d|%d|%d|%d", ri, len(data), sname, sc.eofJoined, sc.errAt, sc.cbErrAt, sc.buf0, k)] = true
		}
	}
	if err := w.Close(); err != nil {
		return err
	}
	tr.PrintStats(map[string]any{"scenarios": st.scen, "events": w.N, "hangs": st.hangs, "callbacks": st.cbs,
		"fidelity_mismatch": st.fidelityMismatch, "distinct": len(st.distinct), "samples": st.samples})
	return nil
}

package c09

import (
	"encoding/base64"
	"encoding/json"
	"fmt"
	"math/rand"
	"regexp"
	"sort"
	"strings"

	"github.com/Eyevinn/mp4ff/mp4"

	"verifharness/drive/tl"
	"verifharness/project"
)

func findAsset(env *tl.Env, name string) *tl.Asset {
	for _, a := range env.Assets {
		if a.Name == name {
			return a
		}
	}
	return nil
}

// minSegMS / maxSegMS of the reference representation (whole ms, rounded down / up).
func minMaxSegMS(rt *project.RepTruth) (int64, int64) {
	mn, mx := int64(1<<62), int64(0)
	for i := range rt.Dur {
		lo := rt.Dur[i] * 1000 / rt.TS
		hi := (rt.Dur[i]*1000 + rt.TS - 1) / rt.TS
		if lo < mn {
			mn = lo
		}
		if hi > mx {
			mx = hi
		}
	}
	return mn, mx
}

type sel struct {
	asset    string
	audio    bool
	mode     string
	snr      int
	ast      int64
	atoMS    int64 // availabilityTimeOffset in ms
	chunkdur string
	drm      string // "" | "cbcs" | "cenc"
	far      bool   // a segment far from availabilityStartTime (numbers close to 2^30)
	nsegs    int
	pos      int    // >= 0: position in the loop of the first chosen segment
	past     bool   // request only before availability (425) and after the segment end (nothing sleeps)
	spread   bool   // request instants over the whole life of the segment (25/50/75 %, [start+mean duration, end))
	extra    string // further URL key for both modes (e.g. scte35_1)
	hunt     string // choose a segment whose whole-mode body has this top-level box (e.g. emsg), if one is found
}

// hasTopBox scans the top-level box headers of an ISOBMFF byte string.
func hasTopBox(data []byte, typ string) bool {
	for off := 0; off+8 <= len(data); {
		sz := int(data[off])<<24 | int(data[off+1])<<16 | int(data[off+2])<<8 | int(data[off+3])
		if string(data[off+4:off+8]) == typ {
			return true
		}
		if sz < 8 {
			return false
		}
		off += sz
	}
	return false
}

// plan builds the scenarios.  The offsets stay inside the property's quantifier: from one sample short of
// the (shortest) segment down to an eighth of it.  chunkdur_ is an independent dimension: according to the
// documentation and the code comments it only switches the low-latency mode on; the chunk span is what the
// (advertised) availabilityTimeOffset leaves of the segment.  Besides literal values, "@lt" / "@eq" / "@gt" /
// "@seg" / "@big" give a chunkdur_ smaller than / equal to / larger than (segment - offset), equal to the
// segment duration and twice the segment duration (inconsistent pairs included on purpose).
func plan(env *tl.Env, rng *rand.Rand, thorough bool) []*scen {
	var sels []sel
	// offsets relative to the segment duration d (ms) and the sample duration s (ms, rounded up)
	type atoF func(d, s int64) int64
	short1 := func(d, s int64) int64 { return d - s }
	short2 := func(d, s int64) int64 { return d - 2*s }
	q34 := func(d, s int64) int64 { return d * 3 / 4 }
	half := func(d, s int64) int64 { return d / 2 }
	third := func(d, s int64) int64 { return d / 3 }
	quart := func(d, s int64) int64 { return d / 4 }
	eighth := func(d, s int64) int64 { return d / 8 }
	fix := func(ms int64) atoF { return func(d, s int64) int64 { return ms } }
	lastSel := func() *sel { return &sels[len(sels)-1] }
	add := func(asset string, audio bool, mode string, snr int, ast int64, f atoF, cd, drm string, far bool, nsegs int) {
		a := findAsset(env, asset)
		if a == nil {
			return
		}
		rt := a.Video
		if audio {
			rt = a.Audio
		}
		if rt == nil {
			return
		}
		mn, _ := minMaxSegMS(a.Video)
		ato := f(mn, sampleMS(rt))
		if ato <= 0 || ato >= mn {
			return
		}
		leave := mn - ato
		switch cd {
		case "@lt":
			cd = fmtMS((leave + 1) / 2)
		case "@eq":
			cd = fmtMS(leave)
		case "@gt":
			cd = fmtMS((leave + mn) / 2)
		case "@seg":
			cd = fmtMS(mn)
		case "@big":
			cd = fmtMS(2 * mn)
		}
		sels = append(sels, sel{asset, audio, mode, snr, ast, ato, cd, drm, far, nsegs, -1, false, false, "", ""})
	}
	const bigAST = 1_699_999_000
	if !thorough {
		// ~40 real-time requests on assets with segments of about 2 s and below
		add("testpic_2s", false, "number", -1, 0, short1, "0.04", "", false, 1)
		add("testpic_2s", false, "number", 5, bigAST, half, "1", "", false, 1)
		lastSel().spread = true
		add("testpic_2s", false, "time", -1, 1000, q34, "0.5", "", false, 1)
		add("testpic_2s", false, "tlnr", 1, 0, eighth, "1.75", "", true, 1)
		add("testpic_2s", true, "number", -1, 0, short1, "0.02", "", false, 1)
		add("testpic_2s", true, "number", 5, bigAST, half, "1", "", false, 1)
		add("testpic_2s", true, "tlnr", -1, 0, eighth, "0.5", "", false, 1)
		add("g_1001tl", false, "number", -1, 0, third, "1", "", false, 1)
		add("g_1001tl", false, "time", 1, bigAST, short2, "0.1", "", false, 1)
		add("g_sub1k", false, "number", -1, 0, short1, "0.04", "", false, 1)
		add("g_sub1k", false, "time", 1, 1000, half, "0.2", "", false, 1)
		add("g_sub1k", false, "tlnr", -1, bigAST, quart, "0.3", "", true, 1)
		// unequal segment durations (1.333 / 2.667 / 2 / 2 s): the shortest segment of the loop
		add("g_irr90k", false, "number", -1, 0, half, "0.5", "", false, 1)
		lastSel().pos, lastSel().spread = 0, true
		// DRM (chunks are encrypted after chunking; decrypted with mp4ff before comparison): requested after the
		// segment end only, so these cost no real time
		add("testpic_2s", false, "number", -1, 0, half, "0.5", "cenc", false, 1)
		add("testpic_2s", false, "time", 1, bigAST, q34, "0.25", "cbcs", false, 1)
		add("testpic_2s", true, "number", -1, 0, quart, "0.5", "cbcs", false, 1)
		add("testpic_2s", true, "tlnr", 5, bigAST, half, "1", "cenc", false, 1)
		for i := 1; i <= 4; i++ {
			sels[len(sels)-i].past = true
		}
		// unequal segment durations, the LONGEST segment of the loop (2.667 s, mean 2 s): request instants over its
		// whole life, in particular between start + mean duration and its real end
		add("g_irr90k", false, "number", -1, 0, fix(1000), "1", "", false, 1)
		lastSel().pos, lastSel().spread = 1, true
		add("g_irr90k", true, "number", 1, bigAST, fix(1200), "@eq", "", false, 1)
		lastSel().pos, lastSel().spread = 1, true
		// (offset, chunkdur_) pairs that do not fit together: chunkdur_ larger than what the offset leaves, equal to the
		// segment, larger than the segment, smaller.  0.48 s segments waited for; 2 s segments after their end only
		add("g_sub1k", false, "number", 1, 1000, q34, "@gt", "", false, 1)
		lastSel().spread = true
		add("g_sub1k", false, "tlnr", -1, 0, half, "@lt", "", false, 1)
		add("testpic_2s", false, "number", -1, 0, half, "@gt", "", false, 1)
		lastSel().past = true
		add("testpic_2s", true, "number", 1, bigAST, q34, "@gt", "", false, 1)
		lastSel().past = true
		add("testpic_2s", false, "time", -1, 0, q34, "@seg", "", false, 1)
		lastSel().past = true
		add("testpic_2s", false, "tlnr", 5, 1000, quart, "@big", "", false, 1)
		lastSel().past = true
		add("g_1001tl", false, "number", -1, 0, short2, "@gt", "", false, 1)
		lastSel().past = true
		// a segment that carries event message boxes (SCTE-35): they sit in front of the first chunk
		add("testpic_2s", false, "number", -1, 0, half, "@eq", "", false, 1)
		lastSel().past, lastSel().extra, lastSel().hunt = true, "scte35_1", "emsg"
	} else {
		fs := []atoF{short1, short2, q34, half, third, quart, eighth}
		cds := []string{"0.04", "0.1", "0.25", "0.5", "1", "1.75", "3"}
		modes := []string{"number", "time", "tlnr"}
		i := 0
		for _, as := range []string{"testpic_2s", "g_1001tl", "g_sub1k", "g_irr90k", "g_alt12800", "g_one", "g_two48k", "g_six25k", "g_irr50", "g_1001num"} {
			for fi, f := range fs {
				mode := modes[(i+fi)%3]
				snr := []int{-1, 1, 5}[(i+fi/2)%3]
				ast := []int64{0, 1000, bigAST}[(i+fi)%3]
				add(as, false, mode, snr, ast, f, cds[(i+fi)%len(cds)], "", fi == 3, 2)
			}
			i++
		}
		for _, as := range []string{"testpic_2s", "g_1001tl", "g_irr90k", "g_irr50", "g_two48k"} {
			for fi, f := range fs {
				mode := []string{"number", "tlnr"}[(i+fi)%2] // audio $Time$ addressing is C04's business
				add(as, true, mode, []int{-1, 1, 5}[(i+fi)%3], []int64{0, bigAST}[(i+fi)%2], f, cds[(i+fi)%len(cds)], "", fi == 2, 2)
			}
			i++
		}
		// 6 s and 8 s segments: a few requests only (each lasts up to a segment duration)
		add("testpic_6s", false, "number", -1, 0, half, "1", "", false, 1)
		add("testpic_6s", true, "number", 1, bigAST, q34, "1", "", false, 1)
		add("testpic_8s", false, "number", -1, 0, short1, "1", "", false, 1)
		add("testpic_8s", false, "time", 5, bigAST, eighth, "1", "", false, 1)
		add("testpic_8s", true, "number", -1, 0, half, "1", "", false, 1)
		// DRM: the chunks are encrypted after chunking; decrypted with mp4ff before comparison
		for di, drm := range []string{"cbcs", "cenc"} {
			add("testpic_2s", false, modes[di], -1, 0, half, "0.5", drm, false, 1)
			add("testpic_2s", false, "number", 1, bigAST, short1, "0.04", drm, false, 1)
			add("testpic_2s", true, "number", -1, 0, quart, "0.5", drm, false, 1)
			add("g_irr90k", false, "number", -1, 0, q34, "0.5", drm, false, 1)
		}
		// every scenario above: request instants over the whole life of the segment
		for k := range sels {
			sels[k].spread = true
		}
		// the (offset, chunkdur_) product, inconsistent pairs included.  Waited for on the 0.48 s asset and on the
		// non-uniform one; after the segment end (no waiting) elsewhere
		pi := 0
		for _, f := range []atoF{short2, q34, half, quart} {
			for _, cd := range []string{"@lt", "@eq", "@gt", "@seg", "@big"} {
				mode := modes[pi%3]
				add("g_sub1k", false, mode, []int{-1, 1, 5}[pi%3], []int64{0, 1000, bigAST}[pi%3], f, cd, "", false, 1)
				lastSel().spread = true
				add("g_irr90k", false, mode, -1, 0, f, cd, "", false, 2)
				lastSel().spread = true
				add("g_irr90k", true, []string{"number", "tlnr"}[pi%2], 1, bigAST, f, cd, "", false, 1)
				lastSel().spread = true
				add("testpic_2s", false, mode, -1, 0, f, cd, "", false, 1)
				lastSel().past = true
				add("testpic_2s", true, "number", 5, bigAST, f, cd, "", false, 1)
				lastSel().past = true
				add("g_alt12800", false, mode, 1, 1000, f, cd, "", false, 2)
				lastSel().past = true
				add("testpic_8s", false, "number", -1, 0, f, cd, "", false, 1)
				lastSel().past = true
				pi++
			}
		}
		add("testpic_2s", false, "number", -1, 0, half, "@eq", "", false, 1)
		lastSel().extra, lastSel().hunt = "scte35_1", "emsg"
		add("testpic_2s", false, "time", 1, bigAST, q34, "@eq", "", false, 1)
		lastSel().past, lastSel().extra, lastSel().hunt = true, "scte35_3", "emsg"
		for _, x := range []struct {
			ato int64
			cd  string
		}{{7000, "2"}, {7500, "1"}, {6000, "4"}, {7000, "1"}, {4000, "1000"}} {
			add("testpic_8s", false, "number", -1, 0, fix(x.ato), x.cd, "", false, 1)
			lastSel().past = true
		}
	}

	var scens []*scen
	for _, x := range sels {
		a := findAsset(env, x.asset)
		rt := a.Video
		if x.audio {
			rt = a.Audio
		}
		extra := []string{"chunkdur_" + x.chunkdur}
		var wextra []string
		if x.drm != "" {
			extra = append(extra, "eccp_"+x.drm)
			wextra = append(wextra, "eccp_"+x.drm)
		}
		if x.extra != "" {
			extra = append(extra, x.extra)
			wextra = append(wextra, x.extra)
		}
		c := tl.Cfg{Mode: x.mode, SNR: x.snr, AST: x.ast, TSBD: -1, AtoMS: x.atoMS, Extra: extra}
		wc := c
		wc.Extra = wextra
		s := &scen{a: a, rt: rt, ref: a.Video, cfg: c, wcfg: wc, chunkdur: x.chunkdur, drm: x.drm, insts: map[int64][]inst{}, seed: rng.Int63()}
		r := rand.New(rand.NewSource(s.seed))
		N := int64(a.Video.N)
		seen := map[int64]bool{}
		for len(s.ns) < x.nsegs {
			n := 2 + r.Int63n(40*N)
			if x.far && len(s.ns) == 0 {
				// nowMS around 1.75e12 when availabilityStartTime is 0; otherwise a few days into the session
				loopMS := a.Video.L * 1000 / a.Video.TS
				if x.ast == 0 {
					n = 1_750_000_000_000/loopMS*N + r.Int63n(N)
				} else {
					n = 400_000_000/loopMS*N + r.Int63n(N)
				}
			}
			if x.hunt != "" && len(s.ns) == 0 {
				// input selection only: look at whole-mode bodies of the next segments for the wanted box
				for m := n; m < n+200; m++ {
					e := (tl.EndTicks(a.Video, m)*1000 + a.Video.TS - 1) / a.Video.TS
					rr := env.S.Get(tl.SegURL(wc, a, rt, m) + "?nowMS=" + fmt.Sprint(x.ast*1000+e+1000))
					if rr.Status == 200 && hasTopBox(rr.Body, x.hunt) {
						n = m
						break
					}
				}
			}
			if x.pos >= 0 && len(s.ns) == 0 {
				n = n - n%N + int64(x.pos)
			}
			if thorough && len(s.ns) == 1 {
				// make sure every position of the loop is visited somewhere: walk the positions
				n = n - n%N + int64(len(scens))%N
			}
			if seen[n] {
				continue
			}
			seen[n] = true
			s.ns = append(s.ns, n)
			av := tl.AvailRelMS(a.Video, n, x.atoMS)
			endMS := (tl.EndTicks(a.Video, n)*1000 + a.Video.TS - 1) / a.Video.TS
			span := endMS - av
			var list []inst
			addI := func(at string, rel int64) {
				if x.ast*1000+rel >= 0 {
					list = append(list, inst{at, rel})
				}
			}
			addI("early", av-1)
			if x.past {
				addI("after", endMS+1)
				addI("after", endMS+1+r.Int63n(50_000))
				s.insts[n] = list
				continue
			}
			addI("early", av-2-r.Int63n(span+1))
			addI("avail", av)
			addI("between", av+1+r.Int63n(span))
			addI("after", endMS+1)
			if x.spread {
				// over the whole life of the segment; instants before the advertised availability time are
				// answered 425 (and cost nothing)
				startMS := tl.StartTicks(a.Video, n) * 1000 / a.Video.TS
				d := endMS - startMS
				addI("q25", startMS+d/4)
				addI("q50", startMS+d/2)
				addI("q75", startMS+d*3/4)
				meanMS := a.Video.L * 1000 / a.Video.TS / N
				if startMS+meanMS+1 < endMS-1 {
					// a segment longer than the mean segment duration of the asset
					addI("latewin", startMS+meanMS+1)
					addI("latewin", startMS+meanMS+1+r.Int63n(endMS-1-(startMS+meanMS+1)))
				}
			}
			if thorough {
				addI("avail", av+1)
				addI("between", av+1+r.Int63n(span))
				addI("after", endMS+1+r.Int63n(50_000)) // inside the default 60 s time-shift buffer
			}
			s.insts[n] = list
		}
		sort.Slice(s.ns, func(x, y int) bool { return s.ns[x] < s.ns[y] })
		scens = append(scens, s)
	}
	return scens
}

// ---------------------------------------------------------------- DRM (thorough): client-side decryption context

var laurlRe = regexp.MustCompile(`(?i)<(?:[a-z0-9]+:)?laurl[^>]*>\s*([^<\s]+)\s*<`)

func b64url(b []byte) string { return base64.RawURLEncoding.EncodeToString(b) }

func unb64url(s string) ([]byte, error) {
	s = strings.TrimRight(s, "=")
	s = strings.NewReplacer("+", "-", "/", "_").Replace(s)
	return base64.RawURLEncoding.DecodeString(s)
}

// decryptCtx does what a ClearKey client does: encrypted init segment -> kid; licence request to the
// MPD's Laurl -> key.  On failure the scenario's bodies stay encrypted and the comparison reports it.
func (d *driver) decryptCtx(s *scen, mpdBody []byte) (*decryptor, string) {
	r := d.env.S.Get(s.cfg.Prefix(s.a.Name) + "/" + s.rt.InitURI)
	if r.Status != 200 {
		return nil, fmt.Sprintf("encrypted init: status %d", r.Status)
	}
	init, err := project.ParseInit(r.Body)
	if err != nil {
		return nil, "encrypted init: " + err.Error()
	}
	di, err := mp4.DecryptInit(init)
	if err != nil {
		return nil, "DecryptInit: " + err.Error()
	}
	var kid []byte
	for _, ti := range di.TrackInfos {
		if ti.Sinf != nil && ti.Sinf.Schi != nil && ti.Sinf.Schi.Tenc != nil {
			kid = ti.Sinf.Schi.Tenc.DefaultKID
		}
	}
	if kid == nil {
		return nil, "no tenc in the encrypted init segment"
	}
	lpath := "/eccp.json"
	if m := laurlRe.FindSubmatch(mpdBody); m != nil {
		u := string(m[1])
		if i := strings.Index(u, "://"); i >= 0 {
			u = u[i+3:]
			if j := strings.Index(u, "/"); j >= 0 {
				u = u[j:]
			}
		}
		lpath = u
	}
	body, _ := json.Marshal(map[string]any{"kids": []string{b64url(kid)}, "type": "temporary"})
	lr := d.env.S.Do("POST", lpath, map[string]string{"Content-Type": "application/json"}, body)
	if lr.Status != 200 {
		return nil, fmt.Sprintf("licence %s: status %d", lpath, lr.Status)
	}
	var resp struct {
		Keys []struct {
			K   string `json:"k"`
			Kid string `json:"kid"`
		} `json:"keys"`
	}
	if err := json.Unmarshal(lr.Body, &resp); err != nil || len(resp.Keys) == 0 {
		return nil, "licence response unusable"
	}
	key, err := unb64url(resp.Keys[0].K)
	if err != nil || len(key) != 16 {
		return nil, "licence key undecodable"
	}
	s.trex = init.Moov.Mvex.Trex
	return &decryptor{di: di, key: key}, ""
}

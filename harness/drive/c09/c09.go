// Package c09 requests segments of the real livesim2 server in chunked low-latency mode
// (URL keys ato_<s> + chunkdur_<s>) through the real router with a recording ResponseWriter that
// timestamps every Write/Flush with the monotonic clock, and the same URL in whole-segment mode.
// It records observations only (calls, parsed chunks, samples); every expectation is computed by
// the TLA+ trace specification spec/trace/Chunked_Trace.tla from the scenario header.
package c09

import (
	"bytes"
	"encoding/xml"
	"flag"
	"fmt"
	"math/rand"
	"net/http"
	"net/http/httptest"
	"os"
	"path/filepath"
	"sort"
	"strconv"
	"strings"
	"sync"
	"time"

	"github.com/Eyevinn/mp4ff/mp4"

	"verifharness/drive/tl"
	"verifharness/project"
	"verifharness/tr"
)

// ---------------------------------------------------------------- recording ResponseWriter

type call struct {
	C   string `json:"c"`   // "w" Write, "f" Flush
	US  int64  `json:"us"`  // monotonic offset from the request start (taken at call entry), microseconds, rounded down
	Pos int    `json:"pos"` // body bytes written before this call
	N   int    `json:"n"`   // bytes of this Write (0 for Flush)
}

type recw struct {
	hdr   http.Header
	code  int
	t0    time.Time
	body  []byte
	calls []call
}

func (r *recw) Header() http.Header { return r.hdr }
func (r *recw) WriteHeader(c int) {
	if r.code == 0 {
		r.code = c
	}
}
func (r *recw) Write(p []byte) (int, error) {
	ns := time.Since(r.t0).Nanoseconds()
	if r.code == 0 {
		r.code = 200
	}
	r.calls = append(r.calls, call{"w", ns / 1000, len(r.body), len(p)})
	r.body = append(r.body, p...)
	return len(p), nil
}
func (r *recw) Flush() {
	ns := time.Since(r.t0).Nanoseconds()
	r.calls = append(r.calls, call{"f", ns / 1000, len(r.body), 0})
}

var _ http.Flusher = (*recw)(nil)

// ---------------------------------------------------------------- projection of a served body

type sample struct {
	Off   int64 // decode time minus the first tfdt of the body
	Dur   uint32
	Flags uint32
	Size  uint32
	Dig   string
}

func (s sample) tuple() []any {
	return []any{s.Off, s.Dur, fmt.Sprintf("%08x", s.Flags), s.Size, s.Dig}
}

type chunkObs struct {
	NStyp   int   `json:"nstyp"`   // styp boxes in front of this moof (since the previous mdat)
	Seq     int64 `json:"seq"`     // mfhd sequence number
	TfdtOff int64 `json:"tfdtOff"` // tfdt minus the first tfdt of the body
	Dur     int64 `json:"dur"`     // sum of sample durations
	NS      int   `json:"ns"`      // samples
	Off     int   `json:"off"`     // byte offset of the first box of the chunk
	End     int   `json:"end"`     // byte offset after its mdat
}

type bodyObs struct {
	Err     string
	Tfdt    uint64 // first tfdt
	Chunks  []chunkObs
	Samples []sample
	Extra   []string // unexpected top-level boxes
	MaxSamp uint32
	TotDur  int64
}

// decryptor turns the fragments of an encrypted body into clear ones (nil: clear content).
type decryptor struct {
	di  mp4.DecryptInfo
	key []byte
}

func parseBody(data []byte, trex *mp4.TrexBox, dec *decryptor) (bo bodyObs) {
	defer func() {
		if r := recover(); r != nil {
			bo.Err = fmt.Sprintf("panic in mp4ff: %v", r)
		}
	}()
	f, err := mp4.DecodeFile(bytes.NewReader(data))
	if err != nil {
		bo.Err = "decode: " + err.Error()
		return
	}
	var frags []*mp4.Fragment
	for _, s := range f.Segments {
		frags = append(frags, s.Fragments...)
	}
	off := 0
	nstyp, start, fi := 0, -1, 0
	for _, c := range f.Children {
		sz := int(c.Size())
		switch c.Type() {
		case "styp":
			if start < 0 {
				start = off
			}
			nstyp++
		case "moof":
			if start < 0 {
				start = off
			}
			if fi >= len(frags) {
				bo.Err = "more moof boxes than fragments"
				return
			}
			fr := frags[fi]
			fi++
			if fr.Moof.Traf == nil || fr.Moof.Traf.Tfdt == nil {
				bo.Err = "fragment without traf/tfdt"
				return
			}
			if dec != nil {
				if err := mp4.DecryptFragment(fr, dec.di, dec.key); err != nil {
					bo.Err = "decrypt: " + err.Error()
					return
				}
			}
			fss, err := fr.GetFullSamples(trex)
			if err != nil {
				bo.Err = "samples: " + err.Error()
				return
			}
			tfdt := fr.Moof.Traf.Tfdt.BaseMediaDecodeTime()
			if len(bo.Chunks) == 0 {
				bo.Tfdt = tfdt
			}
			co := chunkObs{NStyp: nstyp, Seq: int64(fr.Moof.Mfhd.SequenceNumber), TfdtOff: clamp(int64(tfdt) - int64(bo.Tfdt)), NS: len(fss), Off: start}
			for _, s := range fss {
				bo.Samples = append(bo.Samples, sample{clamp(int64(s.DecodeTime) - int64(bo.Tfdt)), s.Dur, s.Flags, s.Size, project.Digest(s.Data)})
				co.Dur += int64(s.Dur)
				if s.Dur > bo.MaxSamp {
					bo.MaxSamp = s.Dur
				}
			}
			bo.TotDur += co.Dur
			bo.Chunks = append(bo.Chunks, co)
			nstyp = 0
		case "mdat":
			if len(bo.Chunks) == 0 || start < 0 {
				bo.Err = "mdat without moof"
				return
			}
			bo.Chunks[len(bo.Chunks)-1].End = off + sz
			start = -1
		default:
			// any other box (emsg, prft, ...) travels with the chunk that follows it; it is logged, not judged:
			// the property speaks about samples and timing
			if start < 0 {
				start = off
			}
			bo.Extra = append(bo.Extra, c.Type())
		}
		off += sz
	}
	if start >= 0 && nstyp == 0 && len(bo.Chunks) > 0 && bo.Chunks[len(bo.Chunks)-1].End != 0 {
		bo.Chunks[len(bo.Chunks)-1].End = off // boxes after the last mdat belong to the last chunk
	}
	if off != len(data) {
		bo.Err = fmt.Sprintf("boxes cover %d of %d bytes", off, len(data))
		return
	}
	if len(bo.Chunks) == 0 {
		bo.Err = "no fragments"
	} else if bo.Chunks[len(bo.Chunks)-1].End == 0 || nstyp != 0 {
		bo.Err = "trailing boxes without mdat"
	}
	return
}

// clamp keeps differences loggable as 32-bit integers (a clamped value can never equal a genuine small one).
func clamp(v int64) int64 {
	const lim = 2_000_000_000
	if v > lim {
		return lim
	}
	if v < -lim {
		return -lim
	}
	return v
}

// ---------------------------------------------------------------- MPD (advertised offset)

type xMPD struct {
	Periods []struct {
		AS []struct {
			ContentType string `xml:"contentType,attr"`
			ST          *struct {
				ATO string `xml:"availabilityTimeOffset,attr"`
				ATC string `xml:"availabilityTimeComplete,attr"`
			} `xml:"SegmentTemplate"`
			Reps []struct {
				ID string `xml:"id,attr"`
			} `xml:"Representation"`
		} `xml:"AdaptationSet"`
	} `xml:"Period"`
}

// advertised returns (availabilityTimeOffset string, availabilityTimeComplete string, found) for the
// adaptation set that contains representation id.
func advertised(body []byte, id string) (string, string, bool) {
	var m xMPD
	if err := xml.Unmarshal(body, &m); err != nil {
		return "", "", false
	}
	for _, p := range m.Periods {
		for _, as := range p.AS {
			for _, r := range as.Reps {
				if r.ID == id && as.ST != nil {
					return as.ST.ATO, as.ST.ATC, true
				}
			}
		}
	}
	return "", "", false
}

// decimalToMS converts a decimal number of seconds to ms exactly; ok=false unless it is a whole number of ms.
func decimalToMS(s string) (int64, bool) {
	if s == "" {
		return 0, false
	}
	ip, fp, _ := strings.Cut(s, ".")
	for len(fp) < 3 {
		fp += "0"
	}
	if strings.TrimRight(fp[3:], "0") != "" {
		return 0, false
	}
	v, err := strconv.ParseInt(ip+fp[:3], 10, 64)
	if err != nil || v < 0 || v > 1_000_000_000 {
		return 0, false
	}
	return v, true
}

// ---------------------------------------------------------------- plan

type inst struct {
	at  string // early | avail | between | after
	rel int64  // request instant in ms relative to availabilityStartTime
}

type scen struct {
	a        *tl.Asset
	rt       *project.RepTruth // requested representation
	ref      *project.RepTruth // reference (video) representation: the segment timeline of the asset
	cfg      tl.Cfg            // with chunkdur_ in Extra
	wcfg     tl.Cfg            // the same without chunkdur_ (whole-segment mode)
	chunkdur string
	drm      string
	ns       []int64
	insts    map[int64][]inst
	seed     int64
	// observations
	mpdSt          int
	atoAdv, atcAdv string
	advFound       bool
	dec            *decryptor
	decErr         string
	trex           *mp4.TrexBox
}

type result struct {
	sc      int
	n       int64
	in      inst
	try     int
	url     string
	st      int
	calls   []call
	body    []byte
	doneUS  int64
	jumpUS  int64
	started bool
	// the offset advertised by the live MPD fetched at the very instant of this request
	ato     int64 // ms; -2: not a whole number of ms
	atoStr  string
	atoFrom string // "instant" | "scenario" (the MPD was not served at the instant: scenario-level value)
	mpdSt   int
}

type driver struct {
	env *tl.Env
	mu  sync.Mutex
}

func (d *driver) timed(url string) (r result) {
	req := httptest.NewRequest("GET", url, nil)
	w := &recw{hdr: http.Header{}}
	t0 := time.Now()
	w.t0 = t0
	d.env.S.Server.Router.ServeHTTP(w, req)
	end := time.Now()
	mono := end.Sub(t0)
	wall := end.Round(0).Sub(t0.Round(0))
	r.url, r.st, r.calls, r.body = url, w.code, w.calls, w.body
	if r.st == 0 {
		r.st = 200
	}
	r.doneUS = mono.Microseconds()
	r.jumpUS = (wall - mono).Microseconds()
	return
}

func segMS(rt *project.RepTruth, i int) int64 { return rt.Dur[i] * 1000 / rt.TS }

func sampleMS(rt *project.RepTruth) int64 {
	if rt.SampleDur > 0 {
		return (rt.SampleDur*1000 + rt.TS - 1) / rt.TS
	}
	return 40
}

func fmtMS(ms int64) string {
	s := fmt.Sprintf("%d.%03d", ms/1000, ms%1000)
	s = strings.TrimRight(s, "0")
	return strings.TrimSuffix(s, ".")
}

func Main(args []string) error {
	fs := flag.NewFlagSet("c09", flag.ExitOnError)
	out := fs.String("out", "c09.ndjson", "trace output")
	work := fs.String("work", "", "scratch directory for the VoD root")
	seed := fs.Int64("seed", 1, "seed")
	thorough := fs.Bool("thorough", false, "more assets, offsets, instants, DRM")
	stagger := fs.Int("stagger", 15, "ms between request starts")
	_ = fs.Parse(args)
	if *work == "" {
		return fmt.Errorf("-work required")
	}
	vod := filepath.Join(*work, "vod")
	_ = os.RemoveAll(vod)
	env, err := tl.Setup(vod, *thorough)
	if err != nil {
		return err
	}
	d := &driver{env: env}
	rng := rand.New(rand.NewSource(*seed))
	scens := plan(env, rng, *thorough)
	w, err := tr.New(*out)
	if err != nil {
		return err
	}

	// advertised offset (live MPD) and, with DRM, the decryption context
	for _, s := range scens {
		d.prepare(s)
	}

	// all real-time requests, concurrently (they only sleep), staggered so that the CPU part of each one
	// (segment generation, chunking, encryption) does not pile up
	var jobs []*result
	for si, s := range scens {
		for _, n := range s.ns {
			for _, in := range s.insts[n] {
				jobs = append(jobs, &result{sc: si, n: n, in: in})
			}
		}
	}
	for _, j := range jobs {
		d.advertisedAt(scens[j.sc], j)
	}
	run := func(list []*result) {
		var wg sync.WaitGroup
		for _, j := range list {
			wg.Add(1)
			go func(j *result) {
				defer wg.Done()
				s := scens[j.sc]
				u := tl.SegURL(s.cfg, s.a, s.rt, j.n) + "?nowMS=" + fmt.Sprint(s.cfg.AST*1000+j.in.rel)
				r := d.timed(u)
				j.url, j.st, j.calls, j.body, j.doneUS, j.jumpUS = r.url, r.st, r.calls, r.body, r.doneUS, r.jumpUS
			}(j)
			time.Sleep(time.Duration(*stagger) * time.Millisecond)
		}
		wg.Wait()
	}
	t0 := time.Now()
	run(jobs)
	// Re-measurement (oracle-free rule): a 200 response whose first Flush came later than 150 ms after the
	// request start (or never) is requested again, up to two more times, when the machine is calmer; every
	// attempt is logged, the never-early clauses apply to all attempts, the liveness-flavoured clause
	// C09.immediate to the last attempt only.
	all := append([]*result{}, jobs...)
	last := map[*result]bool{}
	cur := jobs
	retried := 0
	for round := 1; round <= 2; round++ {
		var again []*result
		for _, j := range cur {
			if j.st == 200 && firstFlushUS(j) > 150_000 {
				again = append(again, &result{sc: j.sc, n: j.n, in: j.in, try: round, ato: j.ato, atoStr: j.atoStr, atoFrom: j.atoFrom, mpdSt: j.mpdSt})
			} else {
				last[j] = true
			}
		}
		if len(again) == 0 {
			cur = nil
			break
		}
		retried += len(again)
		run(again)
		all = append(all, again...)
		cur = again
	}
	for _, j := range cur {
		last[j] = true
	}
	wallS := time.Since(t0).Seconds()

	// emit: per scenario header, per segment the whole-mode observation followed by the chunked ones
	sort.SliceStable(all, func(x, y int) bool {
		a, b := all[x], all[y]
		if a.sc != b.sc {
			return a.sc < b.sc
		}
		if a.n != b.n {
			return a.n < b.n
		}
		if a.in.rel != b.in.rel {
			return a.in.rel < b.in.rel
		}
		return a.try < b.try
	})
	distinct := map[string]bool{}
	samples := []any{}
	nreq, n200, n425, nchunks, jumps, maxWrites := 0, 0, 0, 0, 0, 0
	idx := 0
	for si, s := range scens {
		d.emitHeader(w, si, s)
		for _, n := range s.ns {
			d.emitWhole(w, s, n)
			for idx < len(all) && all[idx].sc == si && all[idx].n == n {
				j := all[idx]
				idx++
				nc, nw := d.emitChunked(w, s, j, last[j])
				nreq++
				nchunks += nc
				if nw > maxWrites {
					maxWrites = nw
				}
				switch j.st {
				case 200:
					n200++
				case 425:
					n425++
				}
				if j.jumpUS > 1000 || j.jumpUS < -1000 {
					jumps++
				}
				distinct[fmt.Sprintf("%s|%s|%s|%d|%s", s.a.Name, s.rt.ID, strings.Join(s.cfg.Parts(), "/"), n, j.in.at)] = true
			}
		}
		if len(samples) < 6 {
			samples = append(samples, map[string]any{"asset": s.a.Name, "rep": s.rt.ID, "cfg": strings.Join(s.cfg.Parts(), "/"), "segments": s.ns})
		}
	}
	if idx != len(all) {
		return fmt.Errorf("internal: %d of %d results emitted", idx, len(all))
	}
	if err := w.Close(); err != nil {
		return err
	}
	tr.PrintStats(map[string]any{"scenarios": len(scens), "events": w.N, "requests": nreq, "ok200": n200, "early425": n425,
		"chunks": nchunks, "retried": retried, "clock_jumps": jumps, "realtime_wall_s": wallS, "max_calls_per_response": maxWrites,
		"distinct": len(distinct), "samples": samples})
	return nil
}

func firstFlushUS(j *result) int64 {
	for _, c := range j.calls {
		if c.C == "f" {
			return c.US
		}
	}
	return j.doneUS
}

// ---------------------------------------------------------------- events

func (d *driver) prepare(s *scen) {
	s.trex = s.rt.Trex
	now := s.cfg.AST*1000 + 600_000
	r := d.env.S.Get(s.cfg.Prefix(s.a.Name) + "/" + s.a.MPD + "?nowMS=" + fmt.Sprint(now))
	s.mpdSt = r.Status
	if r.Status == 200 {
		s.atoAdv, s.atcAdv, s.advFound = advertised(r.Body, s.rt.ID)
	}
	if s.drm != "" {
		s.dec, s.decErr = d.decryptCtx(s, r.Body)
	}
}

// advMS turns the advertised attribute into ms: nothing advertised = 0 (segments become available at their
// end); -2 = not a whole number of ms (reported by the trace spec as unusable input).
func advMS(found bool, str string) int64 {
	if !found || str == "" {
		return 0
	}
	v, ok := decimalToMS(str)
	if !ok {
		return -2
	}
	return v
}

// advertisedAt reads the availabilityTimeOffset of the requested representation from the live MPD fetched at
// the instant of the request j (same configuration, same nowMS).
func (d *driver) advertisedAt(s *scen, j *result) {
	now := s.cfg.AST*1000 + j.in.rel
	r := d.env.S.Get(s.cfg.Prefix(s.a.Name) + "/" + s.a.MPD + "?nowMS=" + fmt.Sprint(now))
	j.mpdSt = r.Status
	if r.Status == 200 {
		str, _, found := advertised(r.Body, s.rt.ID)
		j.ato, j.atoStr, j.atoFrom = advMS(found, str), str, "instant"
		return
	}
	j.ato, j.atoStr, j.atoFrom = advMS(s.advFound, s.atoAdv), s.atoAdv, "scenario"
}

func (d *driver) emitHeader(w *tr.W, si int, s *scen) {
	loopMS := s.ref.L * 1000 / s.ref.TS
	adv := advMS(s.advFound, s.atoAdv)
	slack := 1
	if s.rt.Kind == "audio" {
		slack = 2
	}
	e := tl.HeaderE(si, s.a, s.ref, s.cfg, tr.E{
		"rep": s.rt.ID, "kind": s.rt.Kind, "ato": adv, "atoUrl": s.cfg.AtoMS, "atoAdvStr": s.atoAdv, "atcAdv": s.atcAdv,
		"mpdSt": s.mpdSt, "repTS": s.rt.TS, "Lrep": loopMS * s.rt.TS / 1000, "LrepExact": (loopMS*s.rt.TS)%1000 == 0,
		"chunkdur": s.chunkdur, "drm": s.drm, "decErr": s.decErr, "resUS": 2000, "slackUS": 250_000, "sampleSlack": slack})
	w.Emit(e)
}

func wkey(s *scen, n int64) string { return fmt.Sprintf("%s/%s/%d", s.a.Name, s.rt.ID, n) }

func samplesJSON(ss []sample) [][]any {
	out := make([][]any, 0, len(ss))
	for _, x := range ss {
		out = append(out, x.tuple())
	}
	return out
}

func (d *driver) emitWhole(w *tr.W, s *scen, n int64) {
	N := int64(s.ref.N)
	endMS := (tl.EndTicks(s.ref, n)*1000 + s.ref.TS - 1) / s.ref.TS
	u := tl.SegURL(s.wcfg, s.a, s.rt, n) + "?nowMS=" + fmt.Sprint(s.cfg.AST*1000+endMS+1000)
	r := d.env.S.Get(u)
	e := tr.E{"ev": "whole", "key": wkey(s, n), "k": n / N, "i": n % N, "st": r.Status, "url": u, "err": "", "seq": 0, "tfdt": []int64{0, 0},
		"nstyp": 0, "nfrag": 0, "samples": [][]any{}, "dur": 0, "maxSamp": 0}
	if r.Status == 200 {
		bo := parseBody(r.Body, s.trex, s.dec)
		e["err"] = bo.Err
		if bo.Err == "" {
			p := project.Pair(int64(bo.Tfdt), s.ref.L*1000/s.ref.TS*s.rt.TS/1000)
			ns := 0
			for _, c := range bo.Chunks {
				ns += c.NStyp
			}
			e["seq"], e["tfdt"], e["nstyp"], e["nfrag"], e["samples"] = bo.Chunks[0].Seq, p[:], ns, len(bo.Chunks), samplesJSON(bo.Samples)
			e["dur"], e["maxSamp"] = bo.TotDur, bo.MaxSamp
		}
	}
	w.Emit(e)
}

func (d *driver) emitChunked(w *tr.W, s *scen, j *result, last bool) (int, int) {
	N := int64(s.ref.N)
	loopMS := s.ref.L * 1000 / s.ref.TS
	np := project.Pair(j.in.rel, loopMS)
	e := tr.E{"ev": "chunked", "key": wkey(s, j.n), "k": j.n / N, "i": j.n % N, "at": j.in.at, "now": np[:], "rel": fmt.Sprint(j.in.rel), "st": j.st,
		"url": j.url, "try": j.try, "last": last, "jump": j.jumpUS > 1000 || j.jumpUS < -1000, "doneUS": j.doneUS, "blen": len(j.body),
		"calls": []call{}, "chunks": []chunkObs{}, "samples": [][]any{}, "tfdt": []int64{0, 0}, "extra": []string{}, "err": "",
		"ato": j.ato, "atoStr": j.atoStr, "atoFrom": j.atoFrom, "mpdSt": j.mpdSt}
	nc := 0
	if j.st == 200 {
		bo := parseBody(j.body, s.trex, s.dec)
		e["err"] = bo.Err
		e["calls"] = j.calls
		if bo.Err == "" {
			p := project.Pair(int64(bo.Tfdt), loopMS*s.rt.TS/1000)
			e["tfdt"], e["chunks"], e["samples"] = p[:], bo.Chunks, samplesJSON(bo.Samples)
			if bo.Extra != nil {
				e["extra"] = bo.Extra
			}
			nc = len(bo.Chunks)
		}
	}
	w.Emit(e)
	return nc, len(j.calls)
}

package c10

import (
	"encoding/xml"
	"fmt"
	"io/fs"
	"os"
	"path/filepath"
	"regexp"
	"sort"
	"strconv"
	"strings"
)

// Independent description of the bundled VoD assets (ground truth = the driver's own parse of the VoD
// manifests and files, never livesim2's tables).

type xSegTmpl struct {
	StartNumber    *int    `xml:"startNumber,attr"`
	Initialization string  `xml:"initialization,attr"`
	Media          string  `xml:"media,attr"`
	Duration       *int    `xml:"duration,attr"`
	Timescale      *int    `xml:"timescale,attr"`
	Timeline       *struct {
		S []struct {
			T *int64 `xml:"t,attr"`
			D int64  `xml:"d,attr"`
			R *int   `xml:"r,attr"`
		} `xml:"S"`
	} `xml:"SegmentTimeline"`
}

type xCP struct {
	SchemeIdUri string `xml:"schemeIdUri,attr"`
	Value       string `xml:"value,attr"`
	DefaultKID  string `xml:"urn:mpeg:cenc:2013 default_KID,attr"`
	Laurl       string `xml:"https://dashif.org/CPS Laurl"`
	LaurlOld    string `xml:"http://dashif.org/guidelines/clearKey Laurl"`
}

type xRep struct {
	ID          string    `xml:"id,attr"`
	Codecs      string    `xml:"codecs,attr"`
	MimeType    string    `xml:"mimeType,attr"`
	SegTmpl     *xSegTmpl `xml:"SegmentTemplate"`
	ContentProt []xCP     `xml:"ContentProtection"`
}

type xAS struct {
	ContentType string    `xml:"contentType,attr"`
	MimeType    string    `xml:"mimeType,attr"`
	Codecs      string    `xml:"codecs,attr"`
	SegTmpl     *xSegTmpl `xml:"SegmentTemplate"`
	Reps        []xRep    `xml:"Representation"`
	ContentProt []xCP     `xml:"ContentProtection"`
}

type xMPD struct {
	XMLName xml.Name `xml:"MPD"`
	Type    string   `xml:"type,attr"`
	MPDur   string   `xml:"mediaPresentationDuration,attr"`
	Periods []struct {
		AS []xAS `xml:"AdaptationSet"`
	} `xml:"Period"`
}

func (a *xAS) kind() string {
	if a.ContentType != "" {
		return a.ContentType
	}
	mt := a.MimeType
	if mt == "" && len(a.Reps) > 0 {
		mt = a.Reps[0].MimeType
	}
	if i := strings.Index(mt, "/"); i > 0 {
		switch mt[:i] {
		case "video", "audio":
			return mt[:i]
		}
	}
	return "other"
}

type repInfo struct {
	ID       string
	Kind     string // video | audio
	Codecs   string
	Init     string // path relative to the asset
	Media    string // template with $Number$ or $Time$
	UsesTime bool
	DurMS    int // nominal segment duration (number-based templates), 0 for SegmentTimeline
}

type assetInfo struct {
	Path        string // directory relative to VodRoot
	MPD         string // manifest file name
	Reps        []repInfo
	LoopMS      int
	NSegs       int // video segments per loop (number-based), 0 otherwise
	Timeline    bool
	Encryptable bool // every video/audio representation is AVC resp. AAC (what livesim2 documents as encryptable)
	Other       bool // has non audio/video adaptation sets (subtitles, thumbnails)
}

var isoDur = regexp.MustCompile(`^PT(?:(\d+)H)?(?:(\d+)M)?(?:(\d+(?:\.\d+)?)S)?$`)

func parseDurMS(s string) int {
	m := isoDur.FindStringSubmatch(s)
	if m == nil {
		return 0
	}
	h, _ := strconv.Atoi(m[1])
	mi, _ := strconv.Atoi(m[2])
	sec, _ := strconv.ParseFloat(m[3], 64)
	return (h*3600+mi*60)*1000 + int(sec*1000+0.5)
}

func parseMPD(data []byte) (*xMPD, error) {
	var m xMPD
	if err := xml.Unmarshal(data, &m); err != nil {
		return nil, err
	}
	return &m, nil
}

// codecEncryptable: livesim2 encrypts AVC video and AAC audio on the fly (mp4ff InitProtect supports
// avc1/avc3 visual entries and any audio entry; livesim2 restricts audio to mp4a.40.*).
func codecEncryptable(kind, codecs string) bool {
	switch kind {
	case "video":
		return strings.HasPrefix(codecs, "avc")
	case "audio":
		return strings.HasPrefix(codecs, "mp4a.40")
	}
	return false
}

func discover(vodRoot string) ([]assetInfo, error) {
	var res []assetInfo
	err := filepath.WalkDir(vodRoot, func(p string, d fs.DirEntry, err error) error {
		if err != nil {
			return err
		}
		if d.IsDir() || !strings.HasSuffix(p, ".mpd") {
			return nil
		}
		data, err := os.ReadFile(p)
		if err != nil {
			return err
		}
		m, err := parseMPD(data)
		if err != nil || len(m.Periods) != 1 {
			return nil // not usable by this driver
		}
		rel, _ := filepath.Rel(vodRoot, filepath.Dir(p))
		ai := assetInfo{Path: filepath.ToSlash(rel), MPD: filepath.Base(p), LoopMS: parseDurMS(m.MPDur), Encryptable: true}
		for i := range m.Periods[0].AS {
			as := &m.Periods[0].AS[i]
			k := as.kind()
			if k != "video" && k != "audio" {
				ai.Other = true
				continue
			}
			for _, r := range as.Reps {
				st := r.SegTmpl
				if st == nil {
					st = as.SegTmpl
				}
				if st == nil {
					return nil
				}
				codecs := r.Codecs
				if codecs == "" {
					codecs = as.Codecs
				}
				ri := repInfo{ID: r.ID, Kind: k, Codecs: codecs,
					Init:     strings.ReplaceAll(st.Initialization, "$RepresentationID$", r.ID),
					Media:    strings.ReplaceAll(st.Media, "$RepresentationID$", r.ID),
					UsesTime: strings.Contains(st.Media, "$Time$")}
				if st.Timeline != nil {
					ai.Timeline = true
				} else if st.Duration != nil {
					ts := 1
					if st.Timescale != nil {
						ts = *st.Timescale
					}
					ri.DurMS = *st.Duration * 1000 / ts
				}
				if !codecEncryptable(k, codecs) {
					ai.Encryptable = false
				}
				ai.Reps = append(ai.Reps, ri)
			}
		}
		if len(ai.Reps) == 0 {
			return nil
		}
		if !ai.Timeline {
			for _, r := range ai.Reps {
				if r.Kind == "video" && r.DurMS > 0 && ai.LoopMS%r.DurMS == 0 {
					ai.NSegs = ai.LoopMS / r.DurMS
				}
			}
		}
		res = append(res, ai)
		return nil
	})
	sort.Slice(res, func(i, j int) bool {
		if res[i].Path != res[j].Path {
			return res[i].Path < res[j].Path
		}
		return res[i].MPD < res[j].MPD
	})
	if err != nil {
		return nil, fmt.Errorf("discover: %w", err)
	}
	return res, nil
}

// expandTimeline lists the $Time$ values of a (live) SegmentTimeline.
func expandTimeline(st *xSegTmpl) []int64 {
	if st == nil || st.Timeline == nil {
		return nil
	}
	var res []int64
	var t int64
	for _, s := range st.Timeline.S {
		if s.T != nil {
			t = *s.T
		}
		n := 1
		if s.R != nil && *s.R > 0 {
			n = *s.R + 1
		}
		for i := 0; i < n; i++ {
			res = append(res, t)
			t += s.D
		}
	}
	return res
}

// Package c10 drives the real livesim2 HTTP handlers for property C10: for every scenario (asset, DRM mode,
// delivery) it requests the MPD, the init segments, the licence (POST to the advertised Laurl) and media
// segments with and without DRM at the same instant, decrypts what was served with mp4ff's decryptor (the
// trusted base) using ONLY the served init segment and the key returned by the licence (or, for CPIX
// packages, the key the CPIX document assigns to the init segment's key id), and records an ndjson trace
// that spec/trace/Drm_Trace.tla judges.
package c10

import (
	"bytes"
	"context"
	"crypto/sha256"
	"encoding/base64"
	"encoding/binary"
	"encoding/hex"
	"encoding/json"
	"flag"
	"fmt"
	"math/rand"
	"net/http/httptest"
	"net/url"
	"os"
	"path/filepath"
	"sort"
	"strconv"
	"strings"
	"syscall"

	"github.com/Dash-Industry-Forum/livesim2/cmd/livesim2/app"
	"github.com/Dash-Industry-Forum/livesim2/pkg/logging"
	"github.com/Eyevinn/mp4ff/mp4"

	"verifharness/tr"
)

const noVal = "-"

var kinds = []string{"video", "audio"}

type server struct{ s *app.Server }

func newServer(vodRoot, drmCfg string) (*server, error) {
	cfg := app.ServerConfig{VodRoot: vodRoot, TimeoutS: 0, LogFormat: logging.LogDiscard, DrmCfgFile: drmCfg}
	if err := logging.InitSlog(cfg.LogLevel, cfg.LogFormat); err != nil {
		return nil, err
	}
	s, err := app.SetupServer(context.Background(), &cfg)
	if err != nil {
		return nil, err
	}
	return &server{s}, nil
}

func (sv *server) do(method, u string, body []byte) (int, []byte) {
	var rd *bytes.Reader
	if body != nil {
		rd = bytes.NewReader(body)
	} else {
		rd = bytes.NewReader(nil)
	}
	req := httptest.NewRequest(method, u, rd)
	rr := httptest.NewRecorder()
	sv.s.Router.ServeHTTP(rr, req)
	return rr.Code, rr.Body.Bytes()
}

func (sv *server) get(u string) (int, []byte) { return sv.do("GET", u, nil) }

// quiet runs f with file descriptor 2 pointing to /dev/null: chi's Recoverer prints the stack of every
// recovered handler panic to stderr (the DRM requests on pre-encrypted / non-encryptable assets panic today).
func quiet(f func()) {
	saved, err := syscall.Dup(2)
	if err != nil {
		f()
		return
	}
	null, err := os.OpenFile(os.DevNull, os.O_WRONLY, 0)
	if err != nil {
		syscall.Close(saved)
		f()
		return
	}
	_ = syscall.Dup3(int(null.Fd()), 2, 0)
	defer func() {
		_ = syscall.Dup3(saved, 2, 0)
		syscall.Close(saved)
		null.Close()
	}()
	f()
}

// ---------------------------------------------------------------------------------------------- mp4 helpers

type fragDig struct {
	N int    `json:"n"`
	D string `json:"d"`
}

type segDig struct {
	Frags   []fragDig
	Samples []string
	Raw     [][]byte // raw sample payloads (for the ciphertext-differs statistic)
	NStyp   int
}

func decodeInit(data []byte) (*mp4.InitSegment, error) {
	f, err := mp4.DecodeFile(bytes.NewReader(data))
	if err != nil {
		return nil, err
	}
	if f.Init == nil {
		return nil, fmt.Errorf("no init segment")
	}
	return f.Init, nil
}

func sampleDigest(s *mp4.FullSample) []byte {
	h := sha256.New()
	var b [24]byte
	binary.BigEndian.PutUint64(b[0:], s.DecodeTime)
	binary.BigEndian.PutUint32(b[8:], s.Dur)
	binary.BigEndian.PutUint32(b[12:], s.Size)
	binary.BigEndian.PutUint32(b[16:], s.Flags)
	binary.BigEndian.PutUint32(b[20:], uint32(s.CompositionTimeOffset))
	h.Write(b[:])
	h.Write(s.Data)
	return h.Sum(nil)
}

// digestSegment decodes a served media segment (one or several moof/mdat pairs) and, when di/key are given,
// decrypts every fragment with mp4ff before digesting the samples.
func digestSegment(data []byte, trex *mp4.TrexBox, di *mp4.DecryptInfo, key []byte) (sd segDig, err error) {
	defer func() {
		if r := recover(); r != nil {
			err = fmt.Errorf("panic in mp4ff: %v", r)
		}
	}()
	f, err := mp4.DecodeFile(bytes.NewReader(data))
	if err != nil {
		return sd, fmt.Errorf("decode: %w", err)
	}
	if len(f.Segments) == 0 {
		return sd, fmt.Errorf("no media segment")
	}
	for _, seg := range f.Segments {
		if seg.Styp != nil {
			sd.NStyp++
		}
		for _, frag := range seg.Fragments {
			if di != nil {
				if err := mp4.DecryptFragment(frag, *di, key); err != nil {
					return sd, fmt.Errorf("decrypt: %w", err)
				}
			}
			fss, err := frag.GetFullSamples(trex)
			if err != nil {
				return sd, fmt.Errorf("samples: %w", err)
			}
			h := sha256.New()
			for i := range fss {
				d := sampleDigest(&fss[i])
				h.Write(d)
				sd.Samples = append(sd.Samples, hex.EncodeToString(d[:4]))
				sd.Raw = append(sd.Raw, fss[i].Data)
			}
			sd.Frags = append(sd.Frags, fragDig{N: len(fss), D: hex.EncodeToString(h.Sum(nil)[:6])})
		}
	}
	return sd, nil
}

type initObs struct {
	Enc    bool
	Kid    string
	Schm   string
	IV     string
	IVSize int
	Fmt    string
}

// inspectInit reads the protection box of a served init segment (independent walk over mp4ff's box tree).
func inspectInit(init *mp4.InitSegment) initObs {
	o := initObs{Kid: noVal, Schm: noVal, IV: noVal, Fmt: noVal}
	if init.Moov == nil || init.Moov.Trak == nil {
		return o
	}
	stsd := init.Moov.Trak.Mdia.Minf.Stbl.Stsd
	for _, c := range stsd.Children {
		var sinf *mp4.SinfBox
		switch b := c.(type) {
		case *mp4.VisualSampleEntryBox:
			o.Fmt = b.Type()
			sinf = b.Sinf
		case *mp4.AudioSampleEntryBox:
			o.Fmt = b.Type()
			sinf = b.Sinf
		}
		if sinf == nil {
			continue
		}
		o.Enc = o.Fmt == "encv" || o.Fmt == "enca"
		if sinf.Schm != nil {
			o.Schm = sinf.Schm.SchemeType
		}
		if sinf.Schi != nil && sinf.Schi.Tenc != nil {
			t := sinf.Schi.Tenc
			o.Kid = hex.EncodeToString(t.DefaultKID)
			o.IVSize = int(t.DefaultPerSampleIVSize)
			if len(t.DefaultConstantIV) > 0 {
				o.IV = hex.EncodeToString(t.DefaultConstantIV)
			}
		}
	}
	return o
}

func keyDigest(k []byte) string {
	d := sha256.Sum256(k)
	return hex.EncodeToString(d[:6])
}

func b64url(b []byte) string { return base64.RawURLEncoding.EncodeToString(b) }

func unb64url(s string) ([]byte, error) {
	s = strings.TrimRight(s, "=")
	s = strings.NewReplacer("+", "-", "/", "_").Replace(s)
	return base64.RawURLEncoding.DecodeString(s)
}

// ---------------------------------------------------------------------------------------------- scenarios

type drmMode struct {
	Name   string // eccp-cenc | eccp-cbcs | <package name>
	URL    string // URL part
	Class  string // eccp | cpix
	Scheme string // expected scheme for eccp modes
	Pkg    *cpixPkg
}

type delivery struct {
	Name string // whole | chunked
	Opts string // URL options before the DRM part, e.g. "ato_1.5/chunkdur_0.5/"
	Live bool   // discover segment URLs from the live MPD (SegmentTimeline addressing)
}

type segReq struct {
	Path string // media path relative to the asset
	N    int    // segment number or -1
	T    string // $Time$ value or "-"
	Now  int64
}

type driver struct {
	nEdge    int // chunked representation sweeps so far (every sixth asks for its last segment at the live edge)
	w        *tr.W
	sv       *server
	rng      *rand.Rand
	nScen    int
	nSeg     int
	nSamples int
	cipherDiffSamples int
	unserved []string
	distinct map[string]bool
	samples  []any
	pool     []string
	perSampleMax int
	coverage map[string]int
	licCache map[string][]byte
}

func (d *driver) cov(k string) { d.coverage[k]++ }

func joinURL(parts ...string) string {
	var b strings.Builder
	b.WriteString("/livesim2/")
	for _, p := range parts {
		if p == "" {
			continue
		}
		b.WriteString(strings.Trim(p, "/"))
		b.WriteString("/")
	}
	return strings.TrimSuffix(b.String(), "/")
}

func withNow(u string, now int64) string { return u + "?nowMS=" + strconv.FormatInt(now, 10) }

type mpdAS struct {
	Kind   string `json:"kind"`
	Kid    string `json:"kid"`
	Scheme string `json:"scheme"`
	Laurl  string `json:"laurl"`
	NCP    int    `json:"ncp"`
}

// readMPDProtection extracts, per audio/video AdaptationSet, the mp4protection descriptor (default_KID, value)
// and the ClearKey Laurl.  Descriptors on Representation level are merged into their AdaptationSet.
func readMPDProtection(m *xMPD) []mpdAS {
	var res []mpdAS
	for _, p := range m.Periods {
		for i := range p.AS {
			as := &p.AS[i]
			k := as.kind()
			if k != "video" && k != "audio" {
				continue
			}
			o := mpdAS{Kind: k, Kid: noVal, Scheme: noVal, Laurl: noVal}
			cps := append([]xCP{}, as.ContentProt...)
			for _, r := range as.Reps {
				cps = append(cps, r.ContentProt...)
			}
			o.NCP = len(cps)
			for _, cp := range cps {
				if cp.SchemeIdUri == "urn:mpeg:dash:mp4protection:2011" {
					if cp.DefaultKID != "" {
						o.Kid = normKid(cp.DefaultKID)
					}
					if cp.Value != "" {
						o.Scheme = cp.Value
					}
				}
				if strings.EqualFold(cp.SchemeIdUri, "urn:uuid:e2719d58-a985-b3c9-781a-b030af78d30e") {
					if cp.Laurl != "" {
						o.Laurl = strings.TrimSpace(cp.Laurl)
					} else if cp.LaurlOld != "" {
						o.Laurl = strings.TrimSpace(cp.LaurlOld)
					}
				}
			}
			res = append(res, o)
		}
	}
	return res
}

// liveSegReqs lists media requests from the live MPD served WITHOUT DRM at `now` (URL discovery only).
func (d *driver) liveSegReqs(a *assetInfo, opts string, rep *repInfo, now int64, max int) ([]segReq, error) {
	code, body := d.sv.get(withNow(joinURL(opts, a.Path, a.MPD), now))
	if code != 200 {
		return nil, fmt.Errorf("live MPD %s: status %d", a.Path, code)
	}
	m, err := parseMPD(body)
	if err != nil {
		return nil, err
	}
	for _, p := range m.Periods {
		for i := range p.AS {
			as := &p.AS[i]
			for _, r := range as.Reps {
				if r.ID != rep.ID {
					continue
				}
				st := r.SegTmpl
				if st == nil {
					st = as.SegTmpl
				}
				times := expandTimeline(st)
				if len(times) == 0 && st != nil && st.Duration != nil {
					// the live MPD addresses by $Number$ with a nominal duration
					ts := 1
					if st.Timescale != nil {
						ts = *st.Timescale
					}
					r2 := *rep
					r2.DurMS = *st.Duration * 1000 / ts
					r2.Media = strings.ReplaceAll(st.Media, "$RepresentationID$", rep.ID)
					if r2.DurMS <= 0 || !strings.Contains(r2.Media, "$Number$") {
						return nil, fmt.Errorf("live MPD %s/%s: unusable SegmentTemplate", a.Path, rep.ID)
					}
					return d.numberSegReqs(&r2, now/int64(r2.DurMS), max), nil
				}
				if len(times) == 0 {
					return nil, fmt.Errorf("live MPD %s/%s: no SegmentTimeline", a.Path, rep.ID)
				}
				media := strings.ReplaceAll(st.Media, "$RepresentationID$", rep.ID)
				sn := 1
				if st.StartNumber != nil {
					sn = *st.StartNumber
				}
				var res []segReq
				for i, t := range times {
					rq := segReq{N: -1, T: noVal, Now: now}
					if strings.Contains(media, "$Time$") {
						rq.T = strconv.FormatInt(t, 10)
						rq.Path = strings.ReplaceAll(media, "$Time$", rq.T)
					} else {
						rq.N = sn + i
						rq.Path = strings.ReplaceAll(media, "$Number$", strconv.Itoa(rq.N))
					}
					res = append(res, rq)
				}
				if len(res) > max {
					res = res[len(res)-max:]
				}
				return res, nil
			}
		}
	}
	return nil, fmt.Errorf("live MPD %s: representation %s not found", a.Path, rep.ID)
}

// numberSegReqs: segment numbers base..base+count-1 of a $Number$ template with fixed duration, each asked at
// an instant after the END of the segment (so that chunked delivery never sleeps) and inside the time-shift buffer.
func (d *driver) numberSegReqs(rep *repInfo, base int64, count int) []segReq {
	var res []segReq
	dur := int64(rep.DurMS)
	for i := 0; i < count; i++ {
		n := base + int64(i)
		now := (n+1)*dur + dur + 200 + int64(d.rng.Intn(3000))
		rq := segReq{Path: strings.ReplaceAll(rep.Media, "$Number$", strconv.FormatInt(n, 10)), N: int(n), T: noVal, Now: now}
		if n >= 1<<31-1 {
			// TLC integers are 32 bit: carry huge numbers as strings (they are identifiers only)
			rq.N, rq.T = -1, "#"+strconv.FormatInt(n, 10)
		}
		res = append(res, rq)
	}
	return res
}

func expRec(kid, scheme, iv string) map[string]any {
	return map[string]any{"kid": kid, "scheme": scheme, "iv": iv}
}

// runScenario: one asset x DRM mode x delivery; base = instant (ms) that selects the segment numbers.
func (d *driver) runScenario(a *assetInfo, md drmMode, dl delivery, base int64, count int) error {
	sc := d.nScen
	d.nScen++
	exp := map[string]any{}
	for _, k := range kinds {
		switch md.Class {
		case "eccp":
			exp[k] = expRec(noVal, md.Scheme, noVal)
		case "cpix":
			if ck, ok := md.Pkg.keyFor(k); ok {
				exp[k] = expRec(ck.Kid, ck.Scheme, ck.IV)
			} else {
				exp[k] = expRec(noVal, noVal, noVal)
			}
		}
	}
	mpdNow := base + 5000
	d.w.Emit(tr.E{"ev": "hdr", "sc": sc, "cls": md.Class, "asset": a.Path, "mpdname": a.MPD, "drm": md.Name, "opts": dl.Opts,
		"deliver": dl.Name, "exp": exp, "now": strconv.FormatInt(mpdNow, 10)})
	d.cov("hdr." + md.Class)

	// --- MPD with DRM
	mpdURL := withNow(joinURL(dl.Opts, md.URL, a.Path, a.MPD), mpdNow)
	code, body := d.sv.get(mpdURL)
	var ass []mpdAS
	if code == 200 {
		m, err := parseMPD(body)
		if err != nil {
			return fmt.Errorf("%s: unparsable MPD: %w", mpdURL, err)
		}
		ass = readMPDProtection(m)
	} else {
		d.unserved = append(d.unserved, fmt.Sprintf("%s -> %d", mpdURL, code))
	}
	if ass == nil {
		ass = []mpdAS{}
	}
	d.w.Emit(tr.E{"ev": "mpd", "status": code, "as": ass, "url": mpdURL})
	laurl := map[string]string{}
	anyLaurl := noVal
	for _, x := range ass {
		laurl[x.Kind] = x.Laurl
		if x.Laurl != noVal && anyLaurl == noVal {
			anyLaurl = x.Laurl
		}
	}

	for ri := range a.Reps {
		rep := &a.Reps[ri]
		// --- init segment with DRM, and clear init (for the clear track defaults)
		initURL := joinURL(dl.Opts, md.URL, a.Path, rep.Init)
		icode, ibody := d.sv.get(initURL)
		ccode, cbody := d.sv.get(joinURL(dl.Opts, a.Path, rep.Init))
		if ccode != 200 {
			return fmt.Errorf("clear init %s/%s: status %d", a.Path, rep.Init, ccode)
		}
		clrInit, err := decodeInit(cbody)
		if err != nil {
			return fmt.Errorf("clear init %s/%s: %w", a.Path, rep.Init, err)
		}
		io := initObs{Kid: noVal, Schm: noVal, IV: noVal, Fmt: noVal}
		var di *mp4.DecryptInfo
		var encTrex *mp4.TrexBox
		initErr := ""
		if icode == 200 {
			encInit, err := decodeInit(ibody)
			if err != nil {
				initErr = err.Error()
			} else {
				io = inspectInit(encInit)
				encTrex = encInit.Moov.Mvex.Trex
				// mp4ff's DecryptInit: the client-side view of the init segment (strips sinf, returns tenc/schm)
				x, err := mp4.DecryptInit(encInit)
				if err != nil {
					initErr = err.Error()
				} else {
					di = &x
				}
			}
		} else {
			d.unserved = append(d.unserved, fmt.Sprintf("%s -> %d", initURL, icode))
		}
		d.w.Emit(tr.E{"ev": "init", "kind": rep.Kind, "rep": rep.ID, "status": icode, "enc": io.Enc, "kid": io.Kid,
			"schm": io.Schm, "iv": io.IV, "ivsize": io.IVSize, "fmt": io.Fmt, "err": initErr, "url": initURL})
		d.cov("init." + rep.Kind)

		// --- licence: key for the init segment's kid
		var key []byte
		type licKey struct {
			Kid  string `json:"kid"`
			Kdig string `json:"kdig"`
			Klen int    `json:"klen"`
			Kty  string `json:"kty"`
		}
		keys := []licKey{}
		switch md.Class {
		case "eccp":
			lu := laurl[rep.Kind]
			if lu == "" || lu == noVal {
				lu = anyLaurl // a Laurl advertised on another AdaptationSet of the same MPD serves as well
			}
			lstatus := 0
			lpath := noVal
			if lu != "" && lu != noVal && io.Kid != noVal {
				pu, err := url.Parse(lu)
				if err == nil {
					lpath = pu.Path
					kidb, _ := hex.DecodeString(io.Kid)
					reqBody, _ := json.Marshal(map[string]any{"kids": []string{b64url(kidb)}, "type": "temporary"})
					var lbody []byte
					lstatus, lbody = d.sv.do("POST", lpath, reqBody)
					if lstatus == 200 {
						var resp struct {
							Keys []struct {
								Kty string `json:"kty"`
								K   string `json:"k"`
								Kid string `json:"kid"`
							} `json:"keys"`
						}
						if err := json.Unmarshal(lbody, &resp); err == nil {
							for _, k := range resp.Keys {
								kb, e1 := unb64url(k.K)
								kidr, e2 := unb64url(k.Kid)
								if e1 != nil || e2 != nil {
									keys = append(keys, licKey{Kid: "undecodable", Kdig: noVal, Kty: k.Kty})
									continue
								}
								keys = append(keys, licKey{Kid: hex.EncodeToString(kidr), Kdig: keyDigest(kb), Klen: len(kb), Kty: k.Kty})
								if hex.EncodeToString(kidr) == io.Kid && key == nil {
									key = kb
								}
							}
						}
					}
				}
			}
			d.w.Emit(tr.E{"ev": "lic", "kind": rep.Kind, "src": "laurl", "url": lpath, "status": lstatus, "req": io.Kid, "keys": keys})
			d.cov("lic.laurl")
		case "cpix":
			// the licence servers of CPIX packages are external; the key a licence for kid K delivers is the
			// one the CPIX document lists for K (driver's own parse)
			for _, k := range md.Pkg.Keys {
				keys = append(keys, licKey{Kid: k.Kid, Kdig: keyDigest(k.Key), Klen: len(k.Key), Kty: "oct"})
			}
			if ck, ok := md.Pkg.keyByKid(io.Kid); ok {
				key = ck.Key
			}
			d.w.Emit(tr.E{"ev": "lic", "kind": rep.Kind, "src": "cpix", "url": md.Pkg.Name, "status": 200, "req": io.Kid, "keys": keys})
			d.cov("lic.cpix")
		}

		// --- media segments
		var reqs []segReq
		if dl.Live || a.Timeline || rep.DurMS == 0 {
			reqs, err = d.liveSegReqs(a, dl.Opts, rep, mpdNow, count)
			if err != nil {
				return err
			}
		} else {
			reqs = d.numberSegReqs(rep, base/int64(rep.DurMS), count)
			d.nEdge++
			if dl.Name == "chunked" && len(reqs) > 0 && reqs[len(reqs)-1].N >= 0 && d.nEdge%6 == 0 {
				// (one chunked representation sweep in six: every such request costs up to 0.4 segment durations of real time, twice)
				// the last segment is asked for while it is still in progress (60 % into it: after the advertised availability
				// of its first chunk for every ato_ used here), so that the later chunks are delivered from the waiting path
				last := &reqs[len(reqs)-1]
				last.Now = int64(last.N)*int64(rep.DurMS) + int64(rep.DurMS)*6/10
			}
		}
		for _, rq := range reqs {
			encURL := withNow(joinURL(dl.Opts, md.URL, a.Path, rq.Path), rq.Now)
			clrURL := withNow(joinURL(dl.Opts, a.Path, rq.Path), rq.Now)
			ecode, ebody := d.sv.get(encURL)
			ccode, cbody := d.sv.get(clrURL)
			e := tr.E{"ev": "seg", "kind": rep.Kind, "rep": rep.ID, "n": rq.N, "t": rq.T, "now": strconv.FormatInt(rq.Now, 10),
				"deliver": dl.Name, "encStatus": ecode, "clrStatus": ccode, "url": encURL,
				"kdig": noVal, "decErr": "", "nDec": 0, "nClr": 0, "dec": []fragDig{}, "clr": []fragDig{},
				"decS": []string{}, "clrS": []string{}, "cipherDiff": 0, "stypDec": 0, "stypClr": 0}
			if ccode != 200 {
				// the clear segment is not available at this instant: nothing to compare
				d.w.Emit(e)
				d.cov("seg.clear_unavailable")
				continue
			}
			if ecode != 200 {
				d.unserved = append(d.unserved, fmt.Sprintf("%s -> %d", encURL, ecode))
				d.w.Emit(e)
				continue
			}
			clr, err := digestSegment(cbody, clrInit.Moov.Mvex.Trex, nil, nil)
			if err != nil {
				return fmt.Errorf("clear segment %s: %w", clrURL, err)
			}
			e["nClr"] = len(clr.Samples)
			e["clr"] = clr.Frags
			e["stypClr"] = clr.NStyp
			switch {
			case di == nil:
				e["decErr"] = "no usable init segment: " + initErr
			case key == nil:
				e["decErr"] = "no key for the init segment's kid"
			default:
				e["kdig"] = keyDigest(key)
				// ciphertext statistic: parse the served segment without decrypting
				raw, rerr := digestSegment(ebody, encTrex, nil, nil)
				dec, derr := digestSegment(ebody, encTrex, di, key)
				if derr != nil {
					e["decErr"] = derr.Error()
				} else {
					e["nDec"] = len(dec.Samples)
					e["dec"] = dec.Frags
					e["stypDec"] = dec.NStyp
					if d.nSeg < d.perSampleMax || d.perSampleMax < 0 {
						e["decS"] = dec.Samples
						e["clrS"] = clr.Samples
					}
					nd := 0
					if rerr == nil && len(raw.Raw) == len(clr.Raw) {
						for i := range raw.Raw {
							if !bytes.Equal(raw.Raw[i], clr.Raw[i]) {
								nd++
							}
						}
					}
					e["cipherDiff"] = nd
					d.cipherDiffSamples += nd
					d.nSamples += len(dec.Samples)
				}
			}
			d.w.Emit(e)
			d.nSeg++
			d.cov("seg." + rep.Kind + "." + dl.Name)
			loopIdx := "t"
			if rq.N >= 0 && a.NSegs > 0 {
				loopIdx = strconv.Itoa(rq.N % a.NSegs)
			} else {
				loopIdx = rq.T
			}
			d.distinct[strings.Join([]string{a.Path, md.Name, rep.ID, dl.Name, dl.Opts, loopIdx}, "|")] = true
			if d.nSeg%17 == 0 {
				d.pool = append(d.pool, encURL)
			}
		}
	}
	return nil
}

// ---------------------------------------------------------------------------------------------- pre-encrypted

// buildPreEncryptedAsset makes a VoD root with one asset whose video track is ALREADY encrypted (cbcs), built
// from the clear video of src with mp4ff (harness-side construction of the input).
func buildPreEncryptedAsset(vodRoot, src, dstRoot string) (string, error) {
	name := "preenc_" + filepath.Base(src)
	dst := filepath.Join(dstRoot, name)
	if err := os.MkdirAll(filepath.Join(dst, "V300"), 0o755); err != nil {
		return "", err
	}
	srcDir := filepath.Join(vodRoot, src)
	rawInit, err := os.ReadFile(filepath.Join(srcDir, "V300", "init.mp4"))
	if err != nil {
		return "", err
	}
	init, err := decodeInit(rawInit)
	if err != nil {
		return "", err
	}
	kid, _ := mp4.NewUUIDFromHex("11112222333344445555666677778888")
	key := []byte("0123456789abcdef")
	iv := []byte("fedcba9876543210")
	ipd, err := mp4.InitProtect(init, key, iv, "cbcs", kid, nil)
	if err != nil {
		return "", err
	}
	var ib bytes.Buffer
	if err := init.Encode(&ib); err != nil {
		return "", err
	}
	if err := os.WriteFile(filepath.Join(dst, "V300", "init.mp4"), ib.Bytes(), 0o644); err != nil {
		return "", err
	}
	ents, err := os.ReadDir(filepath.Join(srcDir, "V300"))
	if err != nil {
		return "", err
	}
	for _, e := range ents {
		if !strings.HasSuffix(e.Name(), ".m4s") {
			continue
		}
		raw, err := os.ReadFile(filepath.Join(srcDir, "V300", e.Name()))
		if err != nil {
			return "", err
		}
		f, err := mp4.DecodeFile(bytes.NewReader(raw))
		if err != nil {
			return "", err
		}
		var sb bytes.Buffer
		for _, seg := range f.Segments {
			for _, frag := range seg.Fragments {
				if err := mp4.EncryptFragment(frag, key, iv, ipd); err != nil {
					return "", err
				}
			}
			if err := seg.Encode(&sb); err != nil {
				return "", err
			}
		}
		if err := os.WriteFile(filepath.Join(dst, "V300", e.Name()), sb.Bytes(), 0o644); err != nil {
			return "", err
		}
	}
	mraw, err := os.ReadFile(filepath.Join(srcDir, "Manifest.mpd"))
	if err != nil {
		return "", err
	}
	// keep only the video AdaptationSet
	ms := string(mraw)
	i := strings.Index(ms, `<AdaptationSet contentType="audio"`)
	j := strings.Index(ms, `<AdaptationSet contentType="video"`)
	if i < 0 || j < 0 || j < i {
		return "", fmt.Errorf("unexpected manifest layout in %s", src)
	}
	ms = ms[:i] + ms[j:]
	if err := os.WriteFile(filepath.Join(dst, "Manifest.mpd"), []byte(ms), 0o644); err != nil {
		return "", err
	}
	return name, nil
}

// runPreEnc: DRM requests on a pre-encrypted asset. what = mpd | init | seg.
func (d *driver) runPreEnc(sv *server, asset, mpd, initPath, segTmpl string, durMS int, md drmMode, origin string) {
	sc := d.nScen
	d.nScen++
	exp := map[string]any{"video": expRec(noVal, noVal, noVal), "audio": expRec(noVal, noVal, noVal)}
	now := int64(400_000 + d.rng.Intn(100_000))
	d.w.Emit(tr.E{"ev": "hdr", "sc": sc, "cls": "preenc", "asset": asset, "mpdname": mpd, "drm": md.Name, "opts": "",
		"deliver": "whole", "exp": exp, "now": strconv.FormatInt(now, 10), "origin": origin})
	d.cov("hdr.preenc")
	n := now/int64(durMS) - 2
	items := []struct{ what, path string }{
		{"mpd", mpd}, {"init", initPath}, {"seg", strings.ReplaceAll(segTmpl, "$Number$", strconv.FormatInt(n, 10))},
	}
	for _, it := range items {
		ecode, ebody := sv.get(withNow(joinURL(md.URL, asset, it.path), now))
		ccode, cbody := sv.get(withNow(joinURL(asset, it.path), now))
		d.w.Emit(tr.E{"ev": "pre", "what": it.what, "status": ecode, "clrStatus": ccode,
			"same": ecode == 200 && ccode == 200 && bytes.Equal(ebody, cbody), "url": joinURL(md.URL, asset, it.path)})
		d.cov("pre." + it.what)
	}
	d.distinct["preenc|"+asset+"|"+md.Name] = true
}

// ---------------------------------------------------------------------------------------------- main

func Main(args []string) error {
	fs := flag.NewFlagSet("c10", flag.ExitOnError)
	out := fs.String("out", "c10.ndjson", "trace output")
	seed := fs.Int64("seed", 1, "seed")
	tier := fs.String("tier", "quick", "quick|thorough")
	work := fs.String("work", "", "scratch directory (generated drm config, pre-encrypted asset)")
	perSample := fs.Int("persample", 400, "log per-sample digests for the first N segments (-1: all)")
	probe := fs.String("probe", "", "debug: GET this URL path, print status and body, exit")
	_ = fs.Parse(args)

	repo := os.Getenv("VERIF_REPO")
	if repo == "" {
		repo = "/repo"
	}
	vodRoot := filepath.Join(repo, "cmd", "livesim2", "app", "testdata", "assets")
	if *work == "" {
		*work = filepath.Join(os.TempDir(), "c10work")
	}
	if abs, err := filepath.Abs(*work); err == nil {
		*work = abs
	}
	if err := os.MkdirAll(*work, 0o755); err != nil {
		return err
	}
	w, err := tr.New(*out)
	if err != nil {
		return err
	}
	drmCfg, pkgs, err := buildDrmConfig(repo, *work, *seed)
	if err != nil {
		return fmt.Errorf("drm config: %w", err)
	}
	sv, err := newServer(vodRoot, drmCfg)
	if err != nil {
		return fmt.Errorf("server: %w", err)
	}
	if *probe != "" {
		code, body := sv.get(*probe)
		fmt.Printf("%d\n%s\n", code, body)
		return nil
	}
	d := &driver{w: w, sv: sv, rng: rand.New(rand.NewSource(*seed)), distinct: map[string]bool{}, perSampleMax: *perSample,
		coverage: map[string]int{}}
	assets, err := discover(vodRoot)
	if err != nil {
		return err
	}
	modes := []drmMode{
		{Name: "eccp-cenc", URL: "eccp_cenc", Class: "eccp", Scheme: "cenc"},
		{Name: "eccp-cbcs", URL: "eccp_cbcs", Class: "eccp", Scheme: "cbcs"},
	}
	for _, p := range pkgs {
		modes = append(modes, drmMode{Name: p.Name, URL: "drm_" + p.Name, Class: "cpix", Pkg: p})
	}
	thorough := *tier == "thorough"

	// instants: near the epoch, a few hours in, and far from the epoch ("today" and beyond)
	bases := []int64{120_000 + int64(d.rng.Intn(50))*2000, 7_200_000 + int64(d.rng.Intn(5000))*1000,
		1_700_000_000_000 + int64(d.rng.Intn(90_000_000))*1000}
	if thorough {
		bases = append(bases, 86_400_000*365+int64(d.rng.Intn(1000))*1000, 1_900_000_000_000+int64(d.rng.Intn(1_000_000))*1000,
			4_000_000_000_000+int64(d.rng.Intn(1_000_000))*1000, 61_000+int64(d.rng.Intn(7))*1000,
			1_000_000_000_000+int64(d.rng.Intn(1_000_000_000)), 2_147_483_648_000+int64(d.rng.Intn(100_000)))
	}

	var encryptable, skipped []string
	var bundledPreEnc []string
	for ai := range assets {
		a := &assets[ai]
		// pre-encrypted bundled assets: decided by the driver's own look at the VoD init segments
		pre := false
		for _, r := range a.Reps {
			raw, err := os.ReadFile(filepath.Join(vodRoot, a.Path, r.Init))
			if err != nil {
				continue
			}
			if init, err := decodeInit(raw); err == nil && inspectInit(init).Enc {
				pre = true
			}
		}
		if pre {
			bundledPreEnc = append(bundledPreEnc, a.Path+"/"+a.MPD)
			var v *repInfo
			for i := range a.Reps {
				if a.Reps[i].Kind == "video" {
					v = &a.Reps[i]
				}
			}
			if v != nil && v.DurMS > 0 {
				for _, md := range modes {
					quiet(func() { d.runPreEnc(sv, a.Path, a.MPD, v.Init, v.Media, v.DurMS, md, "bundled") })
				}
			}
			continue
		}
		if !a.Encryptable {
			skipped = append(skipped, a.Path+"/"+a.MPD)
			// outside the property's quantifier ("assets that can be encrypted"): observe only
			code, body := sv.get(withNow(joinURL("eccp_cbcs", a.Path, a.MPD), 500_000))
			hasCP := false
			if code == 200 {
				if m, err := parseMPD(body); err == nil {
					for _, x := range readMPDProtection(m) {
						hasCP = hasCP || x.NCP > 0
					}
				}
			}
			icode, _ := sv.get(joinURL("eccp_cbcs", a.Path, a.Reps[0].Init))
			scode := 0
			if a.Reps[0].DurMS > 0 {
				quiet(func() {
					scode, _ = sv.get(withNow(joinURL("eccp_cbcs", a.Path, strings.ReplaceAll(a.Reps[0].Media, "$Number$", strconv.Itoa(500_000/a.Reps[0].DurMS-2))), 500_000))
				})
			}
			w.Emit(tr.E{"ev": "info", "what": "not-encryptable", "asset": a.Path, "mpdname": a.MPD, "mpdStatus": code, "mpdHasCP": hasCP, "initStatus": icode, "segStatus": scode})
			continue
		}
		encryptable = append(encryptable, a.Path+"/"+a.MPD)
		loopSegs := a.NSegs
		if loopSegs == 0 {
			loopSegs = 4
		}
		for mi, md := range modes {
			for bi, base := range bases {
				_, _ = mi, bi
				count := 2*loopSegs + 1 // one loop, the wrap, and the next loop
				if count > 12 {
					count = 12
				}
				if a.Timeline {
					count = 8
				}
				if err := d.runScenario(a, md, delivery{Name: "whole"}, base, count); err != nil {
					return err
				}
			}
		}
		// SegmentTimeline addressing of number-based assets ($Time$ and $Number$ with timeline)
		if !a.Timeline {
			for mi, md := range modes {
				for oi, o := range []string{"segtimeline_1/", "segtimelinenr_1/", "periods_30/", "periods_30/continuous_1/segtimeline_1/"} {
					if !thorough && (mi+oi+ai+int(*seed))%4 != 0 {
						continue
					}
					nb := 1
					if thorough {
						nb = 3
					}
					for b := 0; b < nb; b++ {
						if err := d.runScenario(a, md, delivery{Name: "whole", Opts: o, Live: true}, bases[(mi+oi+b*2)%len(bases)], 6); err != nil {
							return err
						}
					}
				}
			}
		}
		// chunked (low-latency) delivery: a few, requested after the segment's end so that nothing sleeps
		if !a.Timeline && a.NSegs > 0 {
			var vd int
			for _, r := range a.Reps {
				if r.Kind == "video" {
					vd = r.DurMS
				}
			}
			chunkOpts := []string{}
			switch {
			case vd >= 8000:
				chunkOpts = []string{"ato_7/chunkdur_1/", "ato_6/chunkdur_2/"}
			case vd >= 6000:
				chunkOpts = []string{"ato_5/chunkdur_1/", "ato_4.5/chunkdur_1.5/"}
			default:
				chunkOpts = []string{"ato_1.5/chunkdur_0.5/", "ato_1/chunkdur_1/", "ato_1.8/chunkdur_0.2/"}
			}
			for mi, md := range modes {
				for oi, o := range chunkOpts {
					if !thorough && (mi+oi+ai+int(*seed))%3 != 0 {
						continue
					}
					cnt := a.NSegs + 1
					if cnt > 5 {
						cnt = 5
					}
					nb := 1
					if thorough {
						nb = 3
					}
					for b := 0; b < nb; b++ {
						if err := d.runScenario(a, md, delivery{Name: "chunked", Opts: o}, bases[(mi+oi+b*2)%len(bases)], cnt); err != nil {
							return err
						}
					}
				}
			}
		}
	}

	// pre-encrypted asset constructed by the driver (none is bundled with the repository's test data)
	preRoot := filepath.Join(*work, "vod_preenc")
	_ = os.RemoveAll(preRoot)
	preName, err := buildPreEncryptedAsset(vodRoot, "testpic_2s", preRoot)
	if err != nil {
		return fmt.Errorf("pre-encrypted asset: %w", err)
	}
	sv2, err := newServer(preRoot, drmCfg)
	if err != nil {
		return fmt.Errorf("server (pre-encrypted): %w", err)
	}
	// the construction must have been recognised as an asset: the clear MPD is served
	if code, _ := sv2.get(withNow(joinURL(preName, "Manifest.mpd"), 400_000)); code != 200 {
		return fmt.Errorf("constructed pre-encrypted asset not served without DRM (status %d)", code)
	}
	for _, md := range modes {
		quiet(func() { d.runPreEnc(sv2, preName, "Manifest.mpd", "V300/init.mp4", "V300/$Number$.m4s", 2000, md, "constructed") })
	}

	if err := w.Close(); err != nil {
		return err
	}
	for i := 0; i < 8 && len(d.pool) > 0; i++ {
		d.samples = append(d.samples, d.pool[(i*len(d.pool))/8])
	}
	sort.Strings(d.unserved)
	if len(d.unserved) > 20 {
		d.unserved = append(d.unserved[:20], fmt.Sprintf("... %d more", len(d.unserved)-20))
	}
	tr.PrintStats(map[string]any{"scenarios": d.nScen, "events": w.N, "distinct": len(d.distinct), "samples": d.samples,
		"segments": d.nSeg, "media_samples": d.nSamples, "cipher_differs_samples": d.cipherDiffSamples,
		"unserved": d.unserved, "encryptable": encryptable, "not_encryptable": skipped, "bundled_preenc": bundledPreEnc,
		"modes": len(modes), "coverage": d.coverage})
	return nil
}

// Package c06 fetches, at the same instant, the single-period and the multi-period (periods_P) MPD of the real
// livesim2 server, expands both into explicit segment lists per AdaptationSet, fetches every listed segment through
// the URL derived from the respective MPD and records one `mpd` event per instant (C06).
//
// Number ranges: wall-clock quantities exceed 32 bits. Every event carries B = Period@start (whole seconds, < 2^31)
// of the first period of the multi-period MPD; media times are logged minus B*timescale, numbers minus NB (the event's
// number base, logged as a string), publishTime minus (AST + B s) in ms. The subtraction is exact int64 arithmetic;
// a difference that does not fit 31 bits is clamped and the event is flagged `clamped` (the trace spec rejects it).
package c06

import (
	"flag"
	"fmt"
	"math/rand"
	"os"
	"path/filepath"
	"sort"
	"strings"
	"sync"

	"verifharness/assetgen"
	"verifharness/drive/tl"
	"verifharness/project"
	"verifharness/srv"
	"verifharness/tr"
)

const lim31 = int64(1)<<31 - 2

// limList bounds media times, durations, numbers and presentationTimeOffsets (all relative): sums of three such terms
// still fit TLC's 32-bit integers. Legitimate values stay below 3.3e8 (3630 s at 90 kHz).
const limList = int64(700_000_000)

func clampL(v int64, flag *bool) int64 {
	if v > limList {
		*flag = true
		return limList
	}
	if v < -limList {
		*flag = true
		return -limList
	}
	return v
}

type variant struct {
	a      *tl.Asset
	mpd    string
	segms  []int64 // nominal segment duration (ms, rounded average) of every track the driver knows
	thumbs bool
}

func avgMS(rt *project.RepTruth) int64 {
	// rounded average segment duration in ms
	return (rt.L*1000 + rt.TS*int64(rt.N)/2) / (rt.TS * int64(rt.N))
}

// loadTimeRep: ground truth of a $Time$-addressed bundled representation (files named <t>.m4s) by independent parse.
func loadTimeRep(assetDir, id string) (*project.RepTruth, error) {
	rt := &project.RepTruth{ID: id, Kind: "video", InitURI: id + "/init.mp4", MediaPat: id + "/$Time$.m4s"}
	data, err := os.ReadFile(filepath.Join(assetDir, rt.InitURI))
	if err != nil {
		return nil, err
	}
	init, err := project.ParseInit(data)
	if err != nil {
		return nil, err
	}
	rt.Init = init
	rt.TS = int64(init.Moov.Trak.Mdia.Mdhd.Timescale)
	rt.Trex = init.Moov.Mvex.Trex
	t := int64(0)
	for {
		d, err := os.ReadFile(filepath.Join(assetDir, id, fmt.Sprintf("%d.m4s", t)))
		if err != nil {
			break
		}
		m, err := project.ParseMedia(d, rt.Trex)
		if err != nil {
			return nil, err
		}
		if int64(m.Frags[0].Tfdt) != t {
			return nil, fmt.Errorf("%s/%d.m4s: tfdt %d", id, t, m.Frags[0].Tfdt)
		}
		rt.Dur = append(rt.Dur, int64(m.TotalDur))
		t += int64(m.TotalDur)
	}
	rt.N = len(rt.Dur)
	rt.L = t
	if rt.N == 0 {
		return nil, fmt.Errorf("no segments for %s", id)
	}
	return rt, nil
}

type scen struct {
	v     variant
	mode  string
	P     int
	cont  bool
	tsbd  int
	snr   int      // tl.Cfg.SNR: -1 not given, tl.SNRImplicit = snr_-1, else the explicit startNumber
	subs  []string // generated subtitle options (timesubsstpp_<langs>, timesubswvtt_<langs>)
	ast   int64 // availabilityStartTime (start_<ast>), 0 = default
	seed  int64
	probe bool // P chosen as a value that must or may be rejected
}

func gcd(a, b int64) int64 {
	for b != 0 {
		a, b = b, a%b
	}
	return a
}

func clamp(v int64, flag *bool) int64 {
	if v > lim31 {
		*flag = true
		return lim31
	}
	if v < -lim31 {
		*flag = true
		return -lim31
	}
	return v
}

// allP: the periods-per-hour values of the sweep: 1..60 and 120, 180, ..., 3600.
func allP() []int {
	var ps []int
	for p := 1; p <= 60; p++ {
		ps = append(ps, p)
	}
	for p := 120; p <= 3600; p += 60 {
		ps = append(ps, p)
	}
	return ps
}

// accepts: the driver's guess whether a server may accept P for this asset (used only to CHOOSE inputs): the period
// duration is a multiple of the SMALLEST nominal track duration - the coarsest acceptance rule an implementation could
// use. Values that pass it get the full sweep of instants under every MPD type: where the real server is stricter
// (e.g. $Number$ templates on an asset with 2.002 s video and 2.000 s audio segments) the request is refused and the
// event is cheap; where it serves an MPD, the partition / number / bytes clauses judge what is served.
func accepts(v variant, P int) bool {
	pd := int64(3600 / P)
	if pd <= 0 || len(v.segms) == 0 {
		return false
	}
	min := v.segms[0]
	for _, ms := range v.segms {
		if ms < min {
			min = ms
		}
	}
	return pd*1000%min == 0
}

func Main(args []string) error {
	fs := flag.NewFlagSet("c06", flag.ExitOnError)
	out := fs.String("out", "c06.ndjson", "trace output")
	work := fs.String("work", "", "scratch directory for the VoD root")
	seed := fs.Int64("seed", 1, "seed")
	thorough := fs.Bool("thorough", false, "full configuration product")
	_ = fs.Parse(args)
	if *work == "" {
		return fmt.Errorf("-work required")
	}
	vod := filepath.Join(*work, "vod")
	_ = os.RemoveAll(vod)
	// extra generated layouts for C06 (written before the server starts: tl.Setup scans the root at the end)
	if err := os.MkdirAll(vod, 0o755); err != nil {
		return err
	}
	src := filepath.Join(srv.BundledAssets(), "testpic_2s")
	extraLay := []assetgen.Layout{
		// uniform 1 s segments, loop 8 s: accepts PD = 1 s (periods_3600); loop and period grid align only every lcm
		{Name: "g_p1s", TS: 25000, SampleDur: 1000, SegSamples: []int{25, 25, 25, 25, 25, 25, 25, 25}, MpdStyle: "number"},
		// uniform 3 s segments, loop 6 s, non-zero first decode time: PD in {3, 6, 9, 12, ...}; 60 s accepted, 20 s not... (20 = 3600/180)
		{Name: "g_p3s", TS: 10000, SampleDur: 400, SegSamples: []int{75, 75}, MpdStyle: "timeline"},
	}
	var extra []*tl.Asset
	for _, lay := range extraLay {
		t, err := assetgen.Generate(vod, src, lay)
		if err != nil {
			return fmt.Errorf("generate %s: %w", lay.Name, err)
		}
		extra = append(extra, &tl.Asset{Name: t.Name, MPD: t.MPD, LoopMS: t.LoopMS, Video: t.Video, Audio: t.Audio, Gen: true})
	}
	env, err := tl.Setup(vod, *thorough)
	if err != nil {
		return err
	}
	assets := append([]*tl.Asset{}, env.Assets...)
	assets = append(assets, extra...)
	// bundled asset with alternating 4 s / 8 s segments (SegmentTimeline VoD MPD)
	if rt, err := loadTimeRep(filepath.Join(srv.BundledAssets(), "testpic_alt_seg_dur_stl"), "V300"); err == nil {
		if rt.L*1000%rt.TS != 0 {
			return fmt.Errorf("alt_seg_dur: loop not whole ms")
		}
		assets = append(assets, &tl.Asset{Name: "testpic_alt_seg_dur_stl", MPD: "Manifest.mpd", LoopMS: rt.L * 1000 / rt.TS, Video: rt})
	} else {
		return fmt.Errorf("alt_seg_dur ground truth: %w", err)
	}
	w, err := tr.New(*out)
	if err != nil {
		return err
	}
	rng := rand.New(rand.NewSource(*seed))

	var variants []variant
	for _, a := range assets {
		if a.LoopMS <= 0 {
			continue
		}
		v := variant{a: a, mpd: a.MPD, segms: []int64{avgMS(a.Video)}}
		if a.Audio != nil {
			v.segms = append(v.segms, avgMS(a.Audio))
		}
		if a.Name == "testpic_alt_seg_dur_stl" {
			v.segms = append(v.segms, 6000) // audio track: 4.0107 s + 8 s, nominal 6 s (not parsed; same loop)
		}
		if a.Text != nil {
			v.segms = append(v.segms, avgMS(a.Text))
		}
		if a.Thumbs != nil {
			v.segms = append(v.segms, a.Thumbs.DurS*1000)
			v.thumbs = true
		}
		variants = append(variants, v)
		if a.Name == "testpic_2s" {
			v2 := v
			v2.mpd = "Manifest_imsc1.mpd" // two subtitle AdaptationSets
			variants = append(variants, v2)
			if *thorough {
				v3 := v
				v3.mpd = "Manifest.mpd"
				variants = append(variants, v3)
			}
		}
	}

	// ---- scenarios
	// A job is a list of scenarios that run one after the other on the (single, long-running) server; jobs run
	// concurrently. The three MPD types of one (asset, periods value) form one job, in an order that rotates over all
	// six permutations: the answer to a request must not depend on which other MPD type of the same asset and periods
	// value was requested before (history quantifier of the property). After all jobs every scenario is visited again in
	// reverse order with one instant (`keep`): judged again, and its acceptance compared with the first visit (C06.history).
	var scens []scen
	var jobs [][]int
	modes := []string{"number", "time", "tlnr"}
	perms := [][]int{{0, 1, 2}, {1, 0, 2}, {2, 1, 0}, {1, 2, 0}, {0, 2, 1}, {2, 0, 1}}
	addJob := func(ss ...scen) {
		var j []int
		for _, x := range ss {
			scens = append(scens, x)
			j = append(j, len(scens)-1)
		}
		jobs = append(jobs, j)
	}
	for vi, v := range variants {
		var acc, rej, nondiv []int
		for _, p := range allP() {
			if accepts(v, p) {
				acc = append(acc, p)
				if 3600%p != 0 {
					nondiv = append(nondiv, p)
				}
			} else {
				rej = append(rej, p)
			}
		}
		type grp struct {
			p     int
			modes []int // indices into modes, in request order
		}
		var groups []grp
		if *thorough {
			for pi, p := range acc {
				g := grp{p: p}
				if pi%4 == 0 {
					g.modes = perms[(vi+pi)%6]
				} else {
					g.modes = []int{pi % 3}
				}
				groups = append(groups, g)
			}
		} else if len(acc) > 0 {
			// an extreme, a seeded one, a value that does not divide 3600 (period grid not aligned with the hour), 60 sometimes
			pick := []int{acc[0]}
			if vi%2 == 1 {
				pick[0] = acc[len(acc)-1]
			}
			pick = append(pick, acc[rng.Intn(len(acc))])
			if len(nondiv) > 0 {
				pick = append(pick, nondiv[rng.Intn(len(nondiv))])
			}
			if accepts(v, 60) && vi%3 == 0 {
				pick = append(pick, 60)
			}
			seenP := map[int]bool{}
			for _, p := range pick {
				if !seenP[p] {
					seenP[p] = true
					groups = append(groups, grp{p: p, modes: perms[(vi+len(groups)+int(*seed))%6]})
				}
			}
		}
		// an asset whose tracks differ in nominal segment duration is accepted differently by the MPD types: make sure
		// that one of its groups asks for a SegmentTimeline MPD before the $Number$ MPD
		if len(groups) > 0 && len(v.segms) > 1 {
			differ := false
			for _, ms := range v.segms {
				if ms != v.segms[0] {
					differ = true
				}
			}
			if differ && len(groups[0].modes) == 3 {
				groups[0].modes = perms[[]int{1, 2, 3, 5}[(vi+int(*seed))%4]]
			}
		}
		for gi, g := range groups {
			tsbds := []int{10, 30}
			if !*thorough {
				tsbds = []int{10, 20}
			}
			tsbd := tsbds[(gi+vi)%2]
			if *thorough && gi%7 == 3 {
				tsbd = 0
			}
			if g.p >= 1800 && tsbd > 10 {
				tsbd = 10 // PD <= 2 s: keep the number of periods per MPD small
			}
			// startNumber option: none, explicit 0 / 1 / 7, snr_-1 (no attribute in the MPD = the DASH default 1)
			snr := []int{-1, 7, tl.SNRImplicit, 0, 1}[(gi+vi)%5]
			if v.thumbs && gi == 0 {
				snr = tl.SNRImplicit // the thumbnail AdaptationSet is a $Number$ template under every MPD type
			}
			// generated subtitle AdaptationSets (1-2 languages, stpp / wvtt / both)
			subs := [][]string{nil, {"timesubsstpp_en,sv"}, nil, {"timesubswvtt_en"}, nil, {"timesubsstpp_en", "timesubswvtt_sv"}}[(gi+2*vi+1)%6]
			var ss []scen
			for _, mi := range g.modes {
				ss = append(ss, scen{v: v, mode: modes[mi], P: g.p, cont: (gi+mi+vi)%2 == 1, tsbd: tsbd, snr: snr, subs: subs, seed: rng.Int63()})
			}
			addJob(ss...)
			if *thorough && gi%8 == 0 {
				addJob(scen{v: v, mode: modes[gi%3], P: g.p, cont: (gi+vi)%2 == 0, tsbd: 20, snr: -1, seed: rng.Int63()})
			}
		}
		// values that must or may be refused
		for mi, mode := range modes {
			var probes []int
			if *thorough {
				for j, p := range rej {
					if j%3 == mi {
						probes = append(probes, p)
					}
				}
			} else {
				for j := 0; j < 1+(vi+mi)%2 && len(rej) > 0; j++ {
					probes = append(probes, rej[rng.Intn(len(rej))])
				}
			}
			for pi, p := range probes {
				addJob(scen{v: v, mode: mode, P: p, cont: pi%2 == 0, tsbd: 10, snr: -1, seed: rng.Int63(), probe: true})
			}
			// availabilityStartTime != 0 (start_<s>): not a multiple of most period durations / a whole hour / in 2023
			asts := []int64{1000, 3600, 1_699_999_000}
			if len(groups) > 0 && (*thorough || (vi+mi)%3 == 0) {
				na := 1
				if *thorough {
					na = 3
				}
				for j := 0; j < na; j++ {
					p := groups[(vi+mi+j)%len(groups)].p
					addJob(scen{v: v, mode: mode, P: p, cont: j%2 == 0, tsbd: 10, snr: -1, ast: asts[(vi+j)%3], seed: rng.Int63()})
				}
			}
		}
	}

	var mu sync.Mutex
	nMPD, nSeg, nAcc, nRej, nReq := 0, 0, 0, 0, 0
	distinct := map[string]bool{}
	samples := []any{}
	classes := map[string]int{}

	runScen := func(idx int, emit func(tr.E), repeat bool) {
		s := scens[idx]
		a, rt := s.v.a, s.v.a.Video
		r := rand.New(rand.NewSource(s.seed))
		c1 := tl.Cfg{Mode: s.mode, SNR: s.snr, TSBD: s.tsbd, AST: s.ast}
		c1.Extra = append([]string{}, s.subs...)
		cP := c1
		cP.Extra = append(append([]string{}, s.subs...), fmt.Sprintf("periods_%d", s.P))
		if s.cont {
			cP.Extra = append(cP.Extra, "continuous_1")
		}
		uniform := true
		for _, d := range rt.Dur {
			if d != rt.Dur[0] {
				uniform = false
			}
		}
		emit(tl.HeaderE(idx, a, rt, cP, tr.E{"P": s.P, "cont": s.cont, "segms": s.v.segms, "mpd": s.v.mpd, "uniform": uniform, "probe": s.probe, "repeat": repeat,
			"snropt": map[int]string{-1: "none", tl.SNRImplicit: "implicit"}[s.snr] + map[bool]string{true: fmt.Sprint(s.snr), false: ""}[s.snr >= 0], "subs": strings.Join(s.subs, "/")}))
		pd := int64(3600 / s.P)
		pdMS := pd * 1000
		W := int64(s.tsbd) * 1000
		loop := a.LoopMS
		lcm := pdMS / gcd(pdMS, loop) * loop
		type inst struct {
			t   int64
			cls string
		}
		var ins []inst
		add := func(t int64, cls string) {
			if t >= 0 {
				ins = append(ins, inst{t, cls})
			}
		}
		if s.probe {
			// rejection does not depend on the instant: a few instants only
			add(0, "ast")
			add(pdMS+1, "boundary")
			add(1_700_000_000_000+r.Int63n(1_000_000_000), "seeded-far")
		} else {
			seg0 := (rt.Dur[0]*1000 + rt.TS - 1) / rt.TS
			// near availabilityStartTime
			for _, t := range []int64{0, 1, seg0 - 1, seg0, W - 1, W, W + 1, pdMS - 1, pdMS, pdMS + 1, pdMS + W, pdMS + W - 1} {
				add(t, "near-ast")
			}
			// deep into the first hours: period numbers up to P-1, P, P+1 (for P that does not divide 3600 the period grid
			// k*PD leaves the hour grid: P*PD < 3600) and a seeded one in between
			N := int64(s.P)
			for _, k := range []int64{N - 1, N, N + 1, 2*N + 3, 4 + r.Int63n(N)} {
				if k >= 1 {
					add(k*pdMS+W/2, "deep-hour")
					add(k*pdMS-1, "deep-hour")
				}
			}
			add(3_600_000+r.Int63n(W+1), "deep-hour")
			// epochs where period boundary and loop wrap coincide: multiples of lcm; one early, one in 2023..2025
			far := (1_700_000_000_000 + r.Int63n(50_000_000_000)) / lcm * lcm
			early := (1 + r.Int63n(40)) * lcm
			for ei, e := range []int64{early, far} {
				tag := []string{"", "-far"}[ei]
				if ei == 1 && s.ast != 0 {
					continue // instants are relative to availabilityStartTime: keep absolute times below 2^31 s
				}
				for d := int64(-1); d <= 1; d++ {
					add(e+d, "boundary+wrap"+tag)        // now on period boundary and loop wrap
					add(e+W+d, "boundary+wrap+edge"+tag) // window edge on period boundary and loop wrap
				}
				add(e+seg0, "first-seg-after-wrap"+tag)
				add(e+seg0-1, "first-seg-after-wrap"+tag)
				// period boundary / window edge on a period boundary that is not a loop wrap, and loop wraps off the period grid
				k := 1 + r.Int63n(50)
				add(e+k*pdMS, "boundary"+tag)
				add(e+k*pdMS-1, "boundary"+tag)
				add(e+k*pdMS+W, "boundary+edge"+tag)
				add(e+k*pdMS+W+1, "boundary+edge"+tag)
				add(e+k*pdMS+W-1, "boundary+edge"+tag)
				m := 1 + r.Int63n(50)
				add(e+m*loop, "wrap"+tag)
				add(e+m*loop-1, "wrap"+tag)
				add(e+m*loop+W, "wrap+edge"+tag)
				for j := 0; j < 3; j++ {
					add(e+r.Int63n(2*lcm+1), "seeded"+tag)
				}
			}
			{
				// all coincidence classes once, the rest sampled (quick 1/7, thorough 1/4)
				keep := ins[:0]
				seen := map[string]bool{}
				r.Shuffle(len(ins), func(i, j int) { ins[i], ins[j] = ins[j], ins[i] })
				den := 7
				if *thorough {
					den = 4
				}
				for _, x := range ins {
					if !seen[x.cls] || r.Intn(den) == 0 {
						keep = append(keep, x)
						seen[x.cls] = true
					}
				}
				ins = keep
			}
		}
		sort.Slice(ins, func(i, j int) bool { return ins[i].t < ins[j].t })
		keepIdx := len(ins) * 2 / 3 // the instant that is requested again in the second pass
		url1 := c1.Prefix(a.Name) + "/" + s.v.mpd
		urlP := cP.Prefix(a.Name) + "/" + s.v.mpd
		base1 := c1.Prefix(a.Name) + "/"
		baseP := cP.Prefix(a.Name) + "/"
		for ii, in := range ins {
			if repeat && ii != keepIdx {
				continue
			}
			now := in.t // relative to availabilityStartTime (the MPD timeline)
			q := fmt.Sprintf("?nowMS=%d", s.ast*1000+now)
			r1 := env.S.Get(url1 + q)
			rP := env.S.Get(urlP + q)
			e := tr.E{"ev": "mpd", "now": fmt.Sprint(s.ast*1000 + now), "cls": in.cls, "st1": r1.Status, "stP": rP.Status, "acc": false, "url": urlP + q, "keep": ii == keepIdx}
			mu.Lock()
			nMPD++
			nReq += 2
			classes[in.cls]++
			mu.Unlock()
			if rP.Status != 200 || r1.Status != 200 {
				mu.Lock()
				nRej++
				mu.Unlock()
				emit(e)
				continue
			}
			m1, err1 := parseMPD(r1.Body)
			mP, errP := parseMPD(rP.Body)
			if err1 != nil || errP != nil || len(m1.Periods) != 1 || len(mP.Periods) == 0 {
				e["acc"] = true
				e["parse"] = false
				emit(e)
				continue
			}
			e["acc"] = true
			e["parse"] = true
			clamped := false
			shape := true
			// periods
			type pinfo struct {
				startMS int64
				exact   bool
			}
			var pi []pinfo
			var pers []any
			for _, p := range mP.Periods {
				ms, exact, err := parseDurMS(p.Start)
				if err != nil {
					ms, exact = 0, false
				}
				pi = append(pi, pinfo{ms, exact})
				frac := ms % 1000
				if !exact && frac == 0 {
					frac = 1 // sub-ms remainder: not a whole second either
				}
				pers = append(pers, map[string]any{"id": p.ID, "s": clamp(ms/1000, &clamped), "f": frac})
			}
			B := pi[0].startMS / 1000 // base (s)
			e["B"] = clamp(B, &clamped)
			var nowSign bool
			e["nowB"] = clamp(now-B*1000, &nowSign) // only the sign is used (C06.cover)
			e["pers"] = pers
			ast1, errA := parseTimeMS(mP.AST)
			pt, errT := parseTimeMS(mP.PublishTime)
			// publishTime relative to AST + B (ms); out of range = not ok (it never sets the `clamped` flag of the lists)
			ptClamped := false
			e["pt"] = clamp(pt-ast1-B*1000, &ptClamped)
			e["ptok"] = errA == nil && errT == nil && !ptClamped
			s1ms, s1exact, errS := parseDurMS(m1.Periods[0].Start)
			if errS != nil || !s1exact {
				shape = false
			}
			lo := now - W - 2*(rt.Dur[0]*1000/rt.TS) - 2000
			if lo < 0 {
				lo = 0
			}
			// single-period views
			var one []asView
			for ai := range m1.Periods[0].AS {
				one = append(one, expand(&m1.Periods[0].AS[ai], base1, s1ms, -1, now, lo))
			}
			// number base: smallest number seen
			NB := int64(-1)
			upd := func(v asView) {
				for _, x := range v.segs {
					if x.n >= 0 && (NB < 0 || x.n < NB) {
						NB = x.n
					}
				}
			}
			per := make([][]asView, len(mP.Periods))
			for p := range mP.Periods {
				end := int64(-1)
				if p+1 < len(mP.Periods) {
					end = pi[p+1].startMS
				}
				if len(mP.Periods[p].AS) != len(one) {
					shape = false
				}
				for ai := range mP.Periods[p].AS {
					v := expand(&mP.Periods[p].AS[ai], baseP, pi[p].startMS, end, now, lo)
					per[p] = append(per[p], v)
					upd(v)
				}
			}
			for _, v := range one {
				upd(v)
			}
			if NB < 0 {
				NB = 0
			}
			e["NB"] = fmt.Sprint(NB)
			fetch := func(x seg) (int, string) {
				rr := env.S.Get(x.url + q)
				dig := ""
				if rr.Status == 200 {
					dig = project.Digest(rr.Body)[:10]
				}
				return rr.Status, dig
			}
			tup := func(x seg, t int64, flag *bool) []any {
				st, dig := fetch(x)
				n := int64(0)
				if x.n >= 0 {
					n = x.n - NB
				}
				return []any{clampL(t, flag), clampL(x.d, &clamped), clampL(n, &clamped), st, dig}
			}
			var ass []any
			segsHere := 0
			for ai, v1 := range one {
				if v1.problem != "" {
					shape = false
				}
				ae := map[string]any{"ct": v1.ct, "rep": v1.rep, "ts": clamp(v1.ts, &clamped), "tmpl": v1.tmpl}
				ol := []any{}
				for _, x := range v1.segs {
					// presentation time of the single-period segment: t - pto + Period@start*TS, minus B*TS
					tp := x.t - v1.pto + s1ms*v1.ts/1000 - B*v1.ts
					// a single-period segment before the first period's start is not required: its (negative) time may be clamped
					fl := &clamped
					var ignore bool
					if tp < 0 {
						fl = &ignore
					}
					ol = append(ol, tup(x, tp, fl))
				}
				segsHere += len(ol)
				ae["one"] = ol
				pl := []any{}
				for p := range per {
					if ai >= len(per[p]) {
						continue
					}
					v := per[p][ai]
					if v.problem != "" || v.ct != v1.ct || v.rep != v1.rep || v.tmpl != v1.tmpl {
						shape = false
					}
					sl := []any{}
					for _, x := range v.segs {
						sl = append(sl, tup(x, x.t-B*v.ts, &clamped))
					}
					segsHere += len(sl)
					pl = append(pl, map[string]any{"pto": clampL(v.pto-B*v.ts, &clamped), "ts": clamp(v.ts, &clamped), "pc": v.pc, "segs": sl})
				}
				ae["per"] = pl
				ass = append(ass, ae)
			}
			e["as"] = ass
			e["shape"] = shape
			e["clamped"] = clamped
			emit(e)
			mu.Lock()
			nAcc++
			nSeg += segsHere
			nReq += segsHere
			distinct[fmt.Sprintf("%s|%s|%s|%d|%v|%d|%d|%v|%s", a.Name, s.v.mpd, s.mode, s.P, s.cont, s.ast, s.snr, s.subs, in.cls)] = true
			if len(samples) < 6 && len(mP.Periods) > 1 && r.Intn(20) == 0 {
				samples = append(samples, map[string]any{"url": urlP + q, "periods": len(mP.Periods), "class": in.cls, "segments_listed_and_fetched": segsHere})
			}
			mu.Unlock()
		}
	}
	// first pass: jobs concurrently, the scenarios of a job in order
	tl.RunParallel(w, len(jobs), 10, func(j int, emit func(tr.E)) {
		for _, idx := range jobs[j] {
			runScen(idx, emit, false)
		}
	})
	// second pass on the same server: every scenario again, reverse order, one instant
	tl.RunParallel(w, len(jobs), 10, func(j int, emit func(tr.E)) {
		job := jobs[len(jobs)-1-j]
		for x := len(job) - 1; x >= 0; x-- {
			runScen(job[x], emit, true)
		}
	})
	if err := w.Close(); err != nil {
		return err
	}
	if len(samples) == 0 {
		samples = append(samples, map[string]any{"scenarios": len(scens)})
	}
	var cl []string
	for k, v := range classes {
		cl = append(cl, fmt.Sprintf("%s=%d", k, v))
	}
	sort.Strings(cl)
	tr.PrintStats(map[string]any{"scenarios": len(scens), "jobs": len(jobs), "events": w.N, "distinct": len(distinct), "samples": samples,
		"mpd_pairs": nMPD, "accepted": nAcc, "refused": nRej, "segments_fetched": nSeg, "requests": nReq,
		"variants": len(variants), "instant_classes": strings.Join(cl, " ")})
	return nil
}

package c06

// Independent MPD reader (encoding/xml; nothing from livesim2 or the dash-mpd library) and the expansion of an
// AdaptationSet into an explicit segment list by the DASH rules.

import (
	"encoding/xml"
	"fmt"
	"regexp"
	"strconv"
	"strings"
	"time"
)

type xS struct {
	T *int64 `xml:"t,attr"`
	D int64  `xml:"d,attr"`
	R int64  `xml:"r,attr"`
}

type xSegTmpl struct {
	Media       string  `xml:"media,attr"`
	Timescale   *int64  `xml:"timescale,attr"`
	Duration    *int64  `xml:"duration,attr"`
	StartNumber *int64  `xml:"startNumber,attr"`
	PTO         *int64  `xml:"presentationTimeOffset,attr"`
	Timeline    *struct {
		S []xS `xml:"S"`
	} `xml:"SegmentTimeline"`
}

type xDesc struct {
	Scheme string `xml:"schemeIdUri,attr"`
	Value  string `xml:"value,attr"`
}

type xRep struct {
	ID string `xml:"id,attr"`
}

type xAS struct {
	ContentType string    `xml:"contentType,attr"`
	MimeType    string    `xml:"mimeType,attr"`
	Lang        string    `xml:"lang,attr"`
	Suppl       []xDesc   `xml:"SupplementalProperty"`
	Tmpl        *xSegTmpl `xml:"SegmentTemplate"`
	Reps        []xRep    `xml:"Representation"`
}

type xPeriod struct {
	ID      string   `xml:"id,attr"`
	Start   string   `xml:"start,attr"`
	BaseURL []string `xml:"BaseURL"`
	AS      []xAS    `xml:"AdaptationSet"`
}

type xMPD struct {
	Type        string    `xml:"type,attr"`
	AST         string    `xml:"availabilityStartTime,attr"`
	PublishTime string    `xml:"publishTime,attr"`
	BaseURL     []string  `xml:"BaseURL"`
	Periods     []xPeriod `xml:"Period"`
}

func parseMPD(b []byte) (*xMPD, error) {
	var m xMPD
	if err := xml.Unmarshal(b, &m); err != nil {
		return nil, err
	}
	return &m, nil
}

var durRe = regexp.MustCompile(`^P(?:(\d+)D)?(?:T(?:(\d+)H)?(?:(\d+)M)?(?:(\d+)(?:\.(\d{1,9}))?S)?)?$`)

// parseDurMS parses an xs:duration into whole milliseconds; exact=false if it is not a whole number of ms.
func parseDurMS(s string) (ms int64, exact bool, err error) {
	m := durRe.FindStringSubmatch(s)
	if m == nil || s == "P" || s == "PT" {
		return 0, false, fmt.Errorf("bad duration %q", s)
	}
	at := func(i int) int64 {
		if m[i] == "" {
			return 0
		}
		v, _ := strconv.ParseInt(m[i], 10, 64)
		return v
	}
	sec := ((at(1)*24+at(2))*60+at(3))*60 + at(4)
	ms = sec * 1000
	exact = true
	if f := m[5]; f != "" {
		f = (f + "000000000")[:9]
		ns, _ := strconv.ParseInt(f, 10, 64)
		ms += ns / 1_000_000
		exact = ns%1_000_000 == 0
	}
	return ms, exact, nil
}

// parseTimeMS parses an xs:dateTime (UTC) into ms since the epoch.
func parseTimeMS(s string) (int64, error) {
	for _, lay := range []string{"2006-01-02T15:04:05.999999999Z07:00", "2006-01-02T15:04:05Z07:00", "2006-01-02T15:04:05"} {
		if t, err := time.Parse(lay, s); err == nil {
			return t.UnixMilli(), nil
		}
	}
	return 0, fmt.Errorf("bad dateTime %q", s)
}

// seg is one segment of an expanded list.
type seg struct {
	t, d, n int64 // media time (ticks), duration (ticks), number (-1: $Time$ addressing without numbers)
	url     string
}

// asView is one AdaptationSet of one period, expanded.
type asView struct {
	ct, rep  string
	ts       int64
	pto      int64
	tmpl     bool // SegmentTemplate@duration (no SegmentTimeline)
	pc       bool // period-continuity descriptor present
	segs     []seg
	problem  string
}

const contScheme = "urn:mpeg:dash:period-continuity:2015"

func fill(media, rep string, nr, t int64) string {
	s := strings.ReplaceAll(media, "$RepresentationID$", rep)
	s = strings.ReplaceAll(s, "$Number$", fmt.Sprint(nr))
	s = strings.ReplaceAll(s, "$Time$", fmt.Sprint(t))
	return s
}

// expand lists the segments of AdaptationSet as within a period that starts at startMS and ends at endMS
// (endMS < 0: open, the last period), as a client would at nowMS:
//   - SegmentTimeline: every S entry (r expanded); numbers count from startNumber (default 1) when $Number$ is used.
//   - SegmentTemplate@duration: number startNumber+j has media time pto + j*duration and period time j*duration;
//     it belongs to the period if j*duration lies before the period's end, is listed when it is complete at nowMS
//     (period start + (j+1)*duration <= now) and not older than loMS (presentation time of its start >= loMS;
//     the same clip is applied to the single-period and the multi-period presentation).
func expand(as *xAS, base string, startMS, endMS, nowMS, loMS int64) asView {
	v := asView{ct: as.ContentType, ts: 1}
	if len(as.Reps) > 0 {
		v.rep = as.Reps[0].ID
	}
	for _, d := range as.Suppl {
		if d.Scheme == contScheme {
			v.pc = true
		}
	}
	st := as.Tmpl
	if st == nil {
		v.problem = "no SegmentTemplate"
		return v
	}
	if st.Timescale != nil {
		v.ts = *st.Timescale
	}
	if st.PTO != nil {
		v.pto = *st.PTO
	}
	sn := int64(1)
	if st.StartNumber != nil {
		sn = *st.StartNumber
	}
	useNr := strings.Contains(st.Media, "$Number$")
	if st.Timeline != nil {
		var t int64
		nr := sn
		for _, s := range st.Timeline.S {
			if s.T != nil {
				t = *s.T
			}
			if s.R < 0 || s.D <= 0 {
				v.problem = "S with r<0 or d<=0"
				return v
			}
			for i := int64(0); i <= s.R; i++ {
				x := seg{t: t, d: s.D, n: -1}
				if useNr {
					x.n = nr
				}
				x.url = base + fill(st.Media, v.rep, nr, t)
				v.segs = append(v.segs, x)
				t += s.D
				nr++
				if len(v.segs) > 5000 {
					v.problem = "timeline too long"
					return v
				}
			}
		}
		return v
	}
	if st.Duration == nil || *st.Duration <= 0 {
		v.problem = "neither SegmentTimeline nor @duration"
		return v
	}
	v.tmpl = true
	d := *st.Duration
	ts := v.ts
	// units: 1/(1000*ts) s.  j ranges: complete at now, inside the period, not older than lo
	avail := (nowMS - startMS) * ts        // (j+1)*d*1000 <= avail
	jMax := avail/(d*1000) - 1              // floor; avail may be negative
	if avail < 0 {
		jMax = -1
	}
	if endMS >= 0 {
		// j*d*1000 < (endMS-startMS)*ts
		lim := (endMS - startMS) * ts
		jEnd := (lim - 1) / (d * 1000)
		if lim <= 0 {
			jEnd = -1
		}
		if jEnd < jMax {
			jMax = jEnd
		}
	}
	jMin := int64(0)
	if lo := (loMS - startMS) * ts; lo > 0 {
		jMin = (lo + d*1000 - 1) / (d * 1000) // ceil
	}
	for j := jMin; j <= jMax; j++ {
		x := seg{t: v.pto + j*d, d: d, n: sn + j}
		x.url = base + fill(st.Media, v.rep, x.n, x.t)
		v.segs = append(v.segs, x)
		if len(v.segs) > 5000 {
			v.problem = "template expansion too long"
			return v
		}
	}
	return v
}

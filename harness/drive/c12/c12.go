// Package c12 requests generated time-subtitle segments (stpp, wvtt), their init segments and the MPDs that
// announce them from the real livesim2 server and records what was served (C12).  Expectations are computed
// by TLC (spec/trace/TimeSubs_Trace.tla) from the ground truth of the reference video representation.
package c12

import (
	"flag"
	"fmt"
	"math/rand"
	"os"
	"path/filepath"
	"strings"
	"sync"

	"github.com/Eyevinn/mp4ff/mp4"

	"verifharness/assetgen"
	"verifharness/drive/tl"
	"verifharness/project"
	"verifharness/srv"
	"verifharness/tr"
)

type scen struct {
	a     *tl.Asset
	fmt   string // stpp | wvtt
	langs []string
	lang  string
	repID string // Representation id as announced by the MPD (sweep over announced Representations); "" = time<fmt>-<lang>
	c     int  // cue duration ms
	cOmit bool // c = 900 by leaving the URL key out (default)
	reg   int
	rOmit bool
	mode  string
	snr   int
	ast   int64
	tsbd  int
	sd    int64
}

var cueDurs = []int{1, 100, 900, 1000, 1001, 1500, 2000, 3700}
// language sets by class: 0 plain two-letter tags, 1 BCP-47 tags with subtags, 2 tags sharing a primary subtag
// (both orders) and three-letter tags
var langSets = [][][]string{
	{{"en", "sv", "xx"}, {"xx"}, {"sv", "en"}},
	{{"pt-BR"}, {"en", "zh-Hans"}, {"en-GB-oxendict", "sv"}, {"zh-Hant", "zh-Hans"}},
	{{"pt", "pt-BR"}, {"pt-BR", "pt"}, {"en-GB", "en", "en-GB-oxendict"}, {"swe", "eng"}, {"zh-Hans", "zh", "zho"}},
}

func (s scen) rep() string {
	if s.repID != "" {
		return s.repID
	}
	return "time" + s.fmt + "-" + s.lang
}
var modes = []string{"number", "time", "tlnr"}
var starts = []int64{0, 7, 1000}

func (s scen) cfg(reg int) tl.Cfg {
	extra := []string{"timesubs" + s.fmt + "_" + strings.Join(s.langs, ",")}
	if !s.cOmit {
		extra = append(extra, fmt.Sprintf("timesubsdur_%d", s.c))
	}
	if !(s.rOmit && reg == 0) {
		extra = append(extra, fmt.Sprintf("timesubsreg_%d", reg))
	}
	return tl.Cfg{Mode: s.mode, SNR: s.snr, AST: s.ast, TSBD: s.tsbd, Extra: extra}
}

// extra layouts with segment boundaries off whole seconds (DESIGN C12: 1.92 s, 0.5 s, 3.84 s)
func extraLayouts(thorough bool) []assetgen.Layout {
	ls := []assetgen.Layout{
		// 48 frames of 40 ms = 1.92 s, loop 7.68 s
		{Name: "g12_192", TS: 25000, SampleDur: 1000, SegSamples: []int{48, 48, 48, 48}, MpdStyle: "number"},
	}
	if thorough {
		ls = append(ls,
			assetgen.Layout{Name: "g12_384", TS: 12800, SampleDur: 512, SegSamples: []int{96, 96}, MpdStyle: "number"},               // 3.84 s
			assetgen.Layout{Name: "g12_half", TS: 1000, SampleDur: 20, SegSamples: []int{25, 25, 25, 25, 25, 25, 25}, MpdStyle: "number"}, // 0.5 s, loop 3.5 s
		)
	}
	return ls
}

type subResult struct {
	ev      tr.E
	bodyDig string
	regDes  string
	cueDig  string
	ncues   int
	ph      int64
	gaps    int
	parseOK bool
}

type driver struct {
	env *tl.Env
	mu  sync.Mutex
	cnt map[string]int
}

func (d *driver) inc(k string, n int) {
	d.mu.Lock()
	d.cnt[k] += n
	d.mu.Unlock()
}

// fetchSub requests one subtitle segment and projects it.
func (d *driver) fetchSub(s scen, rt *project.RepTruth, trex *mp4.TrexBox, url string, n int64, c tl.Cfg) subResult {
	N := int64(rt.N)
	loopMS := rt.L * 1000 / rt.TS
	r := d.env.S.Get(url)
	e := tr.E{"ev": "sub", "k": n / N, "i": n % N, "st": r.Status, "url": url, "nrp": []int64{0, 0}, "tfdt": []int64{0, 0}, "dur": 0,
		"cues": []any{}, "samples": []any{}, "regdefs": []string{}, "ph": -1, "base": "", "lang": s.lang, "doclangs": []string{}, "nsamp": 0, "nfrag": 0, "perr": ""}
	res := subResult{ev: e, bodyDig: project.Digest(r.Body)}
	if r.Status != 200 {
		return res
	}
	o, err := parseSeg(r.Body, trex)
	if err != nil {
		// a 200 body that is not a media segment: reported through C12.meta (nrp/tfdt/dur stay 0 = wrong unless n = 0)
		e["perr"] = err.Error()
		e["nrp"] = []int64{-1, 0}
		return res
	}
	res.parseOK = true
	nrp := project.Pair(int64(o.seq)-c.EffSNR(), N)
	tf := project.Pair(int64(o.tfdt), loopMS)
	e["nrp"], e["tfdt"] = nrp[:], tf[:]
	e["nsamp"], e["nfrag"] = len(o.samples), o.nfrag
	tfdt := int64(o.tfdt)
	utc := tfdt + 1000*s.ast
	base := floorDiv(utc, 1000)
	res.ph = utc - base*1000
	e["ph"] = res.ph
	e["base"] = fmt.Sprint(base) // floor(U/1000) as a string (exceeds 32 bits; used only to classify failures)
	var total int64
	var cues []any
	var samples []any
	var dig strings.Builder
	regs := map[string]bool{}
	addCue := func(b, en int64, ok bool, text, reg string) {
		nts, ep, words, nums := textObs(text)
		nrs := [][]int64{}
		for _, v := range nums {
			p := project.Pair(v-c.EffSNR(), N)
			nrs = append(nrs, p[:])
		}
		so := int64(-999)
		if nts > 0 {
			so = clamp(ep - base)
		}
		cues = append(cues, map[string]any{"b": clamp(b), "e": clamp(en), "so": so, "ok": ok, "nts": nts, "toks": words, "nrs": nrs, "reg": reg})
		fmt.Fprintf(&dig, "%d|%d|%d|%v|%v|%v;", b, en, so, ok, words, nrs)
		regs[reg] = true
	}
	switch s.fmt {
	case "stpp":
		regdefs := []string{}
		doclangs := []string{}
		for _, sm := range o.samples {
			total += int64(int32(sm.Dur))
			rc, defs, refs, doclang, err := parseTTML(sm.Data)
			if err != nil {
				e["perr"] = err.Error()
				addCue(0, 0, false, "", "")
				doclangs = append(doclangs, "(unparsed)")
				continue
			}
			doclangs = append(doclangs, doclang)
			regdefs = append(regdefs, defs...)
			for _, x := range rc {
				addCue(x.begin-tfdt, x.end-tfdt, x.ok, x.text, x.reg)
			}
			for _, x := range refs {
				regs[x] = true
			}
		}
		e["regdefs"] = regdefs
		e["doclangs"] = doclangs
	case "wvtt":
		t := int64(0)
		for _, sm := range o.samples {
			dur := clampDur(sm.Dur)
			ws := parseWvttSample(sm.Data)
			samples = append(samples, map[string]any{"t": ws.kind, "d": dur})
			if ws.kind == "c" {
				addCue(t, t+dur, true, ws.text, ws.settings)
			} else if ws.kind == "e" {
				res.gaps++
			}
			t += dur
			total += int64(int32(sm.Dur)) // signed reading: end-begin differences telescope to the segment duration
		}
	}
	if cues != nil {
		e["cues"] = cues
	}
	if samples != nil {
		e["samples"] = samples
	}
	e["dur"] = clamp(total)
	var rs []string
	for k := range regs {
		rs = append(rs, k)
	}
	sortStrings(rs)
	res.regDes = strings.Join(rs, ",")
	res.cueDig = project.Digest([]byte(dig.String()))
	res.ncues = len(cues)
	return res
}

// clampDur reads a sample duration as signed 32-bit (a uint32 wrap of end - start shows as negative) and limits it
// to +-50 000 s so that sums over the samples of a segment stay inside TLC's 32-bit integers.
func clampDur(d uint32) int64 {
	v := int64(int32(d))
	if v > 50_000_000 {
		return 50_000_000
	}
	if v < -50_000_000 {
		return -50_000_000
	}
	return v
}

func sortStrings(a []string) {
	for i := 1; i < len(a); i++ {
		for j := i; j > 0 && a[j] < a[j-1]; j-- {
			a[j], a[j-1] = a[j-1], a[j]
		}
	}
}

// fetchInit requests the init segment of the scenario's Representation and projects timescale, sample entry and language
// (elng if present, else the mdhd language).
func (d *driver) fetchInit(s scen, c tl.Cfg) (*mp4.TrexBox, tr.E, string) {
	u := fmt.Sprintf("%s/%s/init.mp4?nowMS=%d", c.Prefix(s.a.Name), s.rep(), s.ast*1000+10_000)
	r := d.env.S.Get(u)
	e := tr.E{"ev": "init", "st": r.Status, "ts": 0, "codec": "", "url": u, "lang": s.lang, "ilang": "", "mdhd": "", "elng": ""}
	var trex *mp4.TrexBox
	if r.Status == 200 {
		if init, err := project.ParseInit(r.Body); err == nil && init.Moov != nil && init.Moov.Trak != nil && init.Moov.Trak.Mdia != nil {
			mdia := init.Moov.Trak.Mdia
			e["ts"] = clamp(int64(mdia.Mdhd.Timescale))
			if stsd := mdia.Minf.Stbl.Stsd; stsd != nil && len(stsd.Children) > 0 {
				e["codec"] = stsd.Children[0].Type()
			}
			e["mdhd"] = mdia.Mdhd.GetLanguage()
			e["ilang"] = e["mdhd"]
			if mdia.Elng != nil {
				e["elng"] = mdia.Elng.Language
				e["ilang"] = mdia.Elng.Language
			}
			if init.Moov.Mvex != nil {
				trex = init.Moov.Mvex.Trex
			}
		}
	}
	d.inc("inits", 1)
	return trex, e, project.Digest(r.Body)
}

// subURL builds the URL of subtitle segment n. In $Time$ mode the time value is taken from the text timeline
// of the MPD served at `now` (the entry at the position of the video entry of segment n), as a client would;
// mpdSt is the status of that MPD request (0 = none made).  When the MPD cannot be used and the segment starts on
// a whole millisecond, the URL is built from that millisecond value, otherwise from the decode time of the same segment
// served under $Number$ addressing (fallback = true).
func (d *driver) subURL(s scen, rt *project.RepTruth, trex *mp4.TrexBox, c tl.Cfg, n int64, now int64) (url string, mpdSt int, mpdURL string, fallback bool, err error) {
	rep := s.rep()
	if s.mode != "time" {
		return fmt.Sprintf("%s/%s/%d.m4s", c.Prefix(s.a.Name), rep, n+c.EffSNR()), 0, "", false, nil
	}
	want := tl.StartTicks(rt, n)
	fb := func(why error) (string, int, string, bool, error) {
		if want*1000%rt.TS == 0 {
			return fmt.Sprintf("%s/%s/%d.m4s", c.Prefix(s.a.Name), rep, want*1000/rt.TS), mpdSt, mpdURL, true, nil
		}
		// the $Time$ address of a segment is its decode time: take it from the same segment served under $Number$
		cn := c
		cn.Mode = "number"
		rn := d.env.S.Get(fmt.Sprintf("%s/%s/%d.m4s?nowMS=%d", cn.Prefix(s.a.Name), rep, n+cn.EffSNR(), now))
		if rn.Status == 200 {
			if o, err := parseSeg(rn.Body, trex); err == nil {
				return fmt.Sprintf("%s/%s/%d.m4s", c.Prefix(s.a.Name), rep, o.tfdt), mpdSt, mpdURL, true, nil
			}
		}
		return "", mpdSt, mpdURL, false, why
	}
	mpdURL = fmt.Sprintf("%s/%s?nowMS=%d", c.Prefix(s.a.Name), s.a.MPD, now)
	r := d.env.S.Get(mpdURL)
	mpdSt = r.Status
	if r.Status != 200 {
		return fb(fmt.Errorf("mpd status %d", r.Status))
	}
	vid, txt, err := parseMPD(r.Body)
	if err != nil {
		return fb(err)
	}
	pos := -1
	for j, t := range vid.t {
		if t == want {
			pos = j
		}
	}
	if pos < 0 {
		return fb(fmt.Errorf("video timeline has no entry t=%d", want))
	}
	for _, t := range txt {
		if t.rep == rep && pos < len(t.t) {
			m := strings.ReplaceAll(t.media, "$RepresentationID$", t.rep)
			m = strings.ReplaceAll(m, "$Time$", fmt.Sprint(t.t[pos]))
			return c.Prefix(s.a.Name) + "/" + m, mpdSt, mpdURL, false, nil
		}
	}
	return fb(fmt.Errorf("no text timeline entry for %s at position %d", rep, pos))
}

func Main(args []string) error {
	fs := flag.NewFlagSet("c12", flag.ExitOnError)
	out := fs.String("out", "c12.ndjson", "trace output")
	work := fs.String("work", "", "scratch directory for the VoD root")
	seed := fs.Int64("seed", 1, "seed")
	thorough := fs.Bool("thorough", false, "full configuration product")
	_ = fs.Parse(args)
	if *work == "" {
		return fmt.Errorf("-work required")
	}
	vod := filepath.Join(*work, "vod")
	_ = os.RemoveAll(vod)
	// additional generated layouts (written before the server scans the root)
	src := filepath.Join(srv.BundledAssets(), "testpic_2s")
	var extra []*tl.Asset
	for _, lay := range extraLayouts(*thorough) {
		t, err := assetgen.Generate(vod, src, lay)
		if err != nil {
			return fmt.Errorf("generate %s: %w", lay.Name, err)
		}
		extra = append(extra, &tl.Asset{Name: t.Name, MPD: t.MPD, LoopMS: t.LoopMS, Video: t.Video, Audio: t.Audio, Gen: true})
	}
	env, err := tl.Setup(vod, *thorough)
	if err != nil {
		return err
	}
	env.Assets = append(env.Assets, extra...)
	w, err := tr.New(*out)
	if err != nil {
		return err
	}
	rng := rand.New(rand.NewSource(*seed))
	d := &driver{env: env, cnt: map[string]int{}}

	var jobs []scen
	// class: see langSets; the requested language is drawn from the chosen set
	pick := func(a *tl.Asset, f string, c int, mode string, ast int64, class int, reg int) scen {
		sets := langSets[class]
		ls := sets[rng.Intn(len(sets))]
		s := scen{a: a, fmt: f, c: c, mode: mode, ast: ast, langs: ls, lang: ls[rng.Intn(len(ls))], reg: reg, sd: rng.Int63()}
		s.snr = []int{-1, 1, 5, -1}[rng.Intn(4)]
		s.tsbd = []int{20, 20, -1}[rng.Intn(3)]
		s.cOmit = c == 900 && rng.Intn(2) == 0
		s.rOmit = rng.Intn(3) == 0
		return s
	}
	if *thorough {
		for _, a := range env.Assets {
			for _, f := range []string{"stpp", "wvtt"} {
				for class := 0; class < 3; class++ {
					for _, c := range cueDurs {
						for reg := 0; reg < 2; reg++ {
							for _, mode := range modes {
								for _, ast := range starts {
									jobs = append(jobs, pick(a, f, c, mode, ast, class, reg))
								}
							}
						}
					}
				}
			}
		}
	} else {
		x := rng.Intn(1000)
		for _, a := range env.Assets {
			for _, f := range []string{"stpp", "wvtt"} {
				for _, c := range cueDurs {
					for _, mode := range modes {
						x++
						jobs = append(jobs, pick(a, f, c, mode, starts[(x/3)%3], x%3, rng.Intn(2)))
					}
				}
			}
		}
		// every language class x format x MPD type at least once whatever the rotation above gives
		for class := 0; class < 3; class++ {
			for _, f := range []string{"stpp", "wvtt"} {
				for _, mode := range modes {
					for range langSets[class] {
						a := env.Assets[rng.Intn(len(env.Assets))]
						jobs = append(jobs, pick(a, f, []int{100, 900, 1000}[rng.Intn(3)], mode, starts[rng.Intn(3)], class, rng.Intn(2)))
					}
				}
			}
		}
		// seeded extras with other cue durations
		for j := 0; j < 120; j++ {
			a := env.Assets[rng.Intn(len(env.Assets))]
			c := []int{1 + rng.Intn(1000), 1 + rng.Intn(1000), 1001 + rng.Intn(4000)}[rng.Intn(3)]
			ast := []int64{0, 7, 1000, 1_600_000_000 + int64(rng.Intn(100_000_000))}[rng.Intn(4)]
			jobs = append(jobs, pick(a, []string{"stpp", "wvtt"}[rng.Intn(2)], c, modes[rng.Intn(3)], ast, rng.Intn(3), rng.Intn(2)))
		}
	}

	distinct := map[string]bool{}
	samples := []any{}
	var mu sync.Mutex
	tl.RunParallel(w, len(jobs), 10, func(idx int, emit func(tr.E)) {
		s := jobs[idx]
		a, rt := s.a, s.a.Video
		rng := rand.New(rand.NewSource(s.sd))
		c := s.cfg(s.reg)
		N := int64(rt.N)
		emit(tl.HeaderE(idx, a, rt, c, tr.E{"fmt": s.fmt, "lang": s.lang, "langs": s.langs, "c": s.c, "reg": s.reg}))
		rep := s.rep()
		// init segment
		trex, ie, _ := d.fetchInit(s, c)
		emit(ie)
		// segment indices: loop start/end, wraps, seeded indices over many wraps (all phases), a year-2025 index
		ns := []int64{0, int64(rng.Intn(int(N))), N - 1, N, 3*N + int64(rng.Intn(int(N))), int64(rng.Intn(int(60 * N))), int64(rng.Intn(int(1000 * N))),
			int64(rng.Intn(int(1000 * N))), int64(rng.Intn(int(100000 * N)))}
		if s.ast == 0 {
			ns = append(ns, int64(1_750_000_000)*rt.TS/rt.L*N+int64(rng.Intn(int(N))))
		} else {
			ns = append(ns, 1000*N+1)
		}
		seen := map[int64]bool{}
		var pairDone, mpdBad bool
		var mpdNow, mpdN int64 = -1, 0
		for _, n := range ns {
			if seen[n] {
				continue
			}
			seen[n] = true
			now := s.ast*1000 + tl.AvailRelMS(rt, n, 0) + int64(rng.Intn(4000))
			url, mpdSt, mpdURL, fallback, err := d.subURL(s, rt, trex, c, n, now)
			if mpdSt != 0 && mpdSt != 200 && !mpdBad {
				// the MPD that announces the subtitles is not served: an observation for C12.mpd (once per scenario)
				mpdBad = true
				emit(tr.E{"ev": "mpd", "st": mpdSt, "url": mpdURL, "vid": map[string]any{}, "txt": []any{}})
				d.inc("mpds", 1)
				d.inc("mpds_not_200", 1)
			}
			if fallback {
				d.inc("time_url_fallback", 1)
			}
			if err != nil {
				// no usable MPD and no whole-millisecond start: this index cannot be addressed by $Time$; counted
				d.inc("time_url_unresolved", 1)
				continue
			}
			res := d.fetchSub(s, rt, trex, url+fmt.Sprintf("?nowMS=%d", now), n, c)
			emit(res.ev)
			d.inc("subs", 1)
			d.inc("subs_"+s.fmt, 1)
			d.inc("subs_"+s.mode, 1)
			if res.ev["st"] == 200 {
				d.inc("subs_200", 1)
			}
			d.inc("cues", res.ncues)
			d.inc("vtte_samples", res.gaps)
			if res.ph > 0 {
				d.inc("subs_start_inside_second", 1)
			}
			if n >= 1000*N {
				d.inc("subs_far", 1)
			}
			mu.Lock()
			distinct[fmt.Sprintf("%s|%v|%d", a.Name, c.Parts(), n)+s.lang] = true
			if len(samples) < 6 && res.ncues > 0 && idx%37 == 0 {
				samples = append(samples, map[string]any{"url": url, "cues": res.ev["cues"], "phase_ms": res.ph})
			}
			mu.Unlock()
			if mpdNow < 0 || rng.Intn(3) == 0 {
				mpdNow, mpdN = now, n
			}
			// the same segment with the other region setting
			// (a wvtt segment without cues carries no region designation at all: take another index)
			if !pairDone && res.parseOK && s.mode != "time" && (s.fmt == "stpp" || res.ncues > 0) {
				pairDone = true
				oc := s.cfg(1 - s.reg)
				ou := fmt.Sprintf("%s/%s/%d.m4s?nowMS=%d", oc.Prefix(a.Name), rep, n+oc.EffSNR(), now)
				other := d.fetchSub(s, rt, trex, ou, n, oc)
				if other.parseOK && (s.fmt == "stpp" || other.ncues > 0) {
					p0, p1 := res, other
					if s.reg == 1 {
						p0, p1 = other, res
					}
					emit(tr.E{"ev": "regpair", "d0": p0.regDes, "d1": p1.regDes, "q0": p0.cueDig, "q1": p1.cueDig, "url": ou, "ncues": res.ncues})
					d.inc("regpairs", 1)
				}
			}
		}
		// MPD
		if mpdNow >= 0 && !mpdBad {
			u := fmt.Sprintf("%s/%s?nowMS=%d", c.Prefix(a.Name), a.MPD, mpdNow)
			r := env.S.Get(u)
			e := tr.E{"ev": "mpd", "st": r.Status, "url": u, "vid": map[string]any{}, "txt": []any{}}
			ok := true
			if r.Status == 200 {
				vid, txt, err := parseMPD(r.Body)
				if err != nil || (vid.timeline && vid.ts != rt.TS) || (!vid.timeline && (vid.ts > 1_000_000 || vid.dur > 1_000_000)) {
					// not a C12 observation (C02 judges the video AdaptationSet); counted
					d.inc("mpd_unusable", 1)
					ok = false
					if os.Getenv("C12_DEBUG") != "" {
						fmt.Fprintf(os.Stderr, "C12DEBUG mpd unusable %s: %v %+v\n", u, err, vid)
					}
				} else {
					loopMS := rt.L * 1000 / rt.TS
					e["vid"] = vid.event(rt.L, false)
					tx := []any{}
					for i := range txt {
						tx = append(tx, txt[i].event(loopMS, true))
					}
					e["txt"] = tx
					if vid.timeline {
						d.inc("mpd_timeline_entries", len(vid.t))
					}
				}
			}
			if ok {
				emit(e)
				d.inc("mpds", 1)
				if r.Status != 200 {
					d.inc("mpds_not_200", 1)
				}
			}
			// every Representation this MPD announces: init + the media segment mpdN, addressed by the announced id
			if ok && r.Status == 200 {
				_, txt, _ := parseMPD(r.Body)
				reps := []any{}
				for _, t := range txt {
					s2 := s
					s2.lang, s2.repID = t.lang, t.rep
					trex2, ie, idig := d.fetchInit(s2, c)
					emit(ie)
					row := map[string]any{"lang": t.lang, "rep": t.rep, "ist": ie["st"], "mst": 0, "idig": idig, "mdig": "", "nc": 0}
					url, _, _, _, err := d.subURL(s2, rt, trex2, c, mpdN, mpdNow)
					if err == nil {
						res := d.fetchSub(s2, rt, trex2, url+fmt.Sprintf("?nowMS=%d", mpdNow), mpdN, c)
						emit(res.ev)
						row["mst"], row["mdig"], row["nc"] = res.ev["st"], res.bodyDig, res.ncues
						d.inc("subs", 1)
						d.inc("sweep_subs", 1)
						if res.ev["st"] == 200 {
							d.inc("subs_200", 1)
						}
						if strings.Contains(t.lang, "-") {
							d.inc("sweep_subs_subtag_lang", 1)
						}
						mu.Lock()
						distinct[fmt.Sprintf("%s|%v|%d", a.Name, c.Parts(), mpdN)+t.lang] = true
						mu.Unlock()
					} else {
						d.inc("time_url_unresolved", 1)
						row["mst"] = -1
					}
					reps = append(reps, row)
				}
				emit(tr.E{"ev": "lset", "reps": reps, "url": u})
				d.inc("lsets", 1)
				if len(reps) > 1 {
					d.inc("lsets_multi", 1)
				}
			}
		}
	})
	if err := w.Close(); err != nil {
		return err
	}
	st := map[string]any{"scenarios": len(jobs), "events": w.N, "distinct": len(distinct), "samples": samples}
	for k, v := range d.cnt {
		st[k] = v
	}
	for _, k := range []string{"subs", "subs_200", "subs_stpp", "subs_wvtt", "subs_number", "subs_time", "subs_tlnr", "cues", "vtte_samples", "subs_start_inside_second",
		"subs_far", "regpairs", "mpds", "inits", "time_url_unresolved", "time_url_fallback", "mpds_not_200", "mpd_unusable", "mpd_timeline_entries", "sweep_subs", "sweep_subs_subtag_lang", "lsets", "lsets_multi"} {
		if _, ok := st[k]; !ok {
			st[k] = 0
		}
	}
	var names []string
	for _, a := range env.Assets {
		names = append(names, a.Name)
	}
	st["assets"] = names
	tr.PrintStats(st)
	return nil
}

package c12

// Projections of concrete bytes served by livesim2 onto the observations of spec/trace/TimeSubs_Trace.tla:
// TTML documents (encoding/xml), wvtt samples (own box walk), MPD text/video SegmentTemplates (encoding/xml).
// No expectation enters here.

import (
	"bytes"
	"encoding/binary"
	"encoding/xml"
	"fmt"
	"regexp"
	"sort"
	"strconv"
	"strings"
	"time"

	"github.com/Eyevinn/mp4ff/mp4"

	"verifharness/project"
)

const clampLim = int64(1_000_000_000)

func clamp(v int64) int64 {
	if v > clampLim {
		return clampLim
	}
	if v < -clampLim {
		return -clampLim
	}
	return v
}

func floorDiv(a, b int64) int64 {
	q := a / b
	if a%b != 0 && (a < 0) != (b < 0) {
		q--
	}
	return q
}

// rawCue is a cue as found in the document: absolute media times in ms (ok = both parsed), text, region designation.
type rawCue struct {
	begin, end int64
	ok         bool
	text       string
	reg        string
}

var ttTimeRe = regexp.MustCompile(`^(\d+):(\d{2}):(\d{2})\.(\d{3})$`)

// ttmlTime parses the clock-time form HH:MM:SS.mmm (hours unbounded) into ms, exact integers.
func ttmlTime(s string) (int64, bool) {
	m := ttTimeRe.FindStringSubmatch(strings.TrimSpace(s))
	if m == nil {
		return 0, false
	}
	h, e1 := strconv.ParseInt(m[1], 10, 64)
	mi, e2 := strconv.ParseInt(m[2], 10, 64)
	se, e3 := strconv.ParseInt(m[3], 10, 64)
	ms, e4 := strconv.ParseInt(m[4], 10, 64)
	if e1 != nil || e2 != nil || e3 != nil || e4 != nil || mi > 59 || se > 59 || h > 1_000_000_000 {
		return 0, false
	}
	return ((h*60+mi)*60+se)*1000 + ms, true
}

// parseTTML walks a TTML document: region ids defined in head/layout, every <p> with begin/end, its text
// (<br/> as newline) and the region it references (own attribute or inherited from div/body), and the set of
// region references found on body/div/p.
func parseTTML(doc []byte) (cues []rawCue, regdefs []string, regrefs []string, doclang string, err error) {
	dec := xml.NewDecoder(bytes.NewReader(doc))
	type frame struct {
		name string
		reg  string
	}
	var stack []frame
	inP := 0
	var cur *rawCue
	var text strings.Builder
	refs := map[string]bool{}
	regdefs = []string{}
	attr := func(se xml.StartElement, local string) (string, bool) {
		for _, a := range se.Attr {
			if a.Name.Local == local {
				return a.Value, true
			}
		}
		return "", false
	}
	for {
		tok, e := dec.Token()
		if e != nil {
			if e.Error() == "EOF" {
				break
			}
			return nil, nil, nil, "", fmt.Errorf("ttml: %w", e)
		}
		switch t := tok.(type) {
		case xml.StartElement:
			name := t.Name.Local
			inh := ""
			if len(stack) > 0 {
				inh = stack[len(stack)-1].reg
			}
			if name == "tt" && len(stack) == 0 {
				doclang = "(none)"
				for _, a := range t.Attr {
					if a.Name.Local == "lang" && (a.Name.Space == "xml" || a.Name.Space == "http://www.w3.org/XML/1998/namespace") {
						doclang = a.Value
					}
				}
			}
			switch name {
			case "region":
				if id, ok := attr(t, "id"); ok && len(stack) > 0 && stack[len(stack)-1].name == "layout" {
					regdefs = append(regdefs, id)
				}
			case "body", "div", "p", "span":
				if r, ok := attr(t, "region"); ok {
					inh = r
					refs[r] = true
				}
			}
			if name == "p" {
				inP++
				if inP == 1 {
					c := rawCue{reg: inh}
					b, okb := attr(t, "begin")
					en, oke := attr(t, "end")
					bm, ok1 := ttmlTime(b)
					em, ok2 := ttmlTime(en)
					c.begin, c.end, c.ok = bm, em, okb && oke && ok1 && ok2
					cur = &c
					text.Reset()
				}
			}
			if name == "br" && inP > 0 {
				text.WriteString("\n")
			}
			stack = append(stack, frame{name, inh})
		case xml.EndElement:
			if t.Name.Local == "p" {
				inP--
				if inP == 0 && cur != nil {
					cur.text = text.String()
					cues = append(cues, *cur)
					cur = nil
				}
			}
			if len(stack) > 0 {
				stack = stack[:len(stack)-1]
			}
		case xml.CharData:
			if inP > 0 {
				text.Write(t)
			}
		}
	}
	for r := range refs {
		regrefs = append(regrefs, r)
	}
	sort.Strings(regrefs)
	return cues, regdefs, regrefs, doclang, nil
}

// wvtt sample: kind "c" (exactly one vttc box), "e" (exactly one vtte box), "x" (anything else).
type wSample struct {
	kind     string
	text     string
	settings string
}

type box struct {
	typ  string
	body []byte
}

func walkBoxes(b []byte) ([]box, bool) {
	var out []box
	for len(b) > 0 {
		if len(b) < 8 {
			return out, false
		}
		sz := int(binary.BigEndian.Uint32(b[:4]))
		if sz < 8 || sz > len(b) {
			return out, false
		}
		out = append(out, box{string(b[4:8]), b[8:sz]})
		b = b[sz:]
	}
	return out, true
}

func parseWvttSample(data []byte) wSample {
	bs, ok := walkBoxes(data)
	if !ok || len(bs) != 1 {
		return wSample{kind: "x"}
	}
	switch bs[0].typ {
	case "vtte":
		if len(bs[0].body) == 0 {
			return wSample{kind: "e"}
		}
		return wSample{kind: "x"}
	case "vttc":
		ch, ok := walkBoxes(bs[0].body)
		if !ok {
			return wSample{kind: "x"}
		}
		s := wSample{kind: "c"}
		npayl := 0
		for _, c := range ch {
			switch c.typ {
			case "payl":
				s.text = string(c.body)
				npayl++
			case "sttg":
				s.settings = string(c.body)
			}
		}
		if npayl != 1 {
			return wSample{kind: "x"}
		}
		return s
	}
	return wSample{kind: "x"}
}

// segObs is the mp4-level observation of a served subtitle segment.
type segObs struct {
	seq     uint32
	tfdt    uint64
	nfrag   int
	samples []mp4.FullSample
}

func parseSeg(data []byte, trex *mp4.TrexBox) (*segObs, error) {
	f, err := mp4.DecodeFile(bytes.NewReader(data))
	if err != nil {
		return nil, fmt.Errorf("decode: %w", err)
	}
	o := &segObs{}
	for _, s := range f.Segments {
		for _, fr := range s.Fragments {
			if fr.Moof == nil || fr.Moof.Traf == nil || fr.Moof.Traf.Tfdt == nil {
				return nil, fmt.Errorf("fragment without traf/tfdt")
			}
			if o.nfrag == 0 {
				o.seq = fr.Moof.Mfhd.SequenceNumber
				o.tfdt = fr.Moof.Traf.Tfdt.BaseMediaDecodeTime()
			}
			o.nfrag++
			fss, err := fr.GetFullSamples(trex)
			if err != nil {
				return nil, fmt.Errorf("samples: %w", err)
			}
			for _, x := range fss {
				cp := x
				cp.Data = append([]byte{}, x.Data...)
				o.samples = append(o.samples, cp)
			}
		}
	}
	if o.nfrag == 0 {
		return nil, fmt.Errorf("no fragments")
	}
	return o, nil
}

var stampRe = regexp.MustCompile(`\d{4}-\d{2}-\d{2}T\d{2}:\d{2}:\d{2}(?:\.\d+)?(?:Z|[+-]\d{2}:\d{2})`)
var wordRe = regexp.MustCompile(`[0-9A-Za-z_]+(?:-[0-9A-Za-z]+)*`) // a BCP-47 tag (pt-BR, en-GB-oxendict) is one word
var digitsRe = regexp.MustCompile(`^\d{1,18}$`)

// textObs projects a cue text: RFC 3339 stamps (count, epoch second of the first), remaining words, remaining numbers.
func textObs(text string) (nts int, epochS int64, words []string, nums []int64) {
	words, nums = []string{}, []int64{}
	ms := stampRe.FindAllString(text, -1)
	nts = len(ms)
	if nts > 0 {
		t, err := time.Parse(time.RFC3339, ms[0])
		if err != nil {
			nts = -1
		} else {
			epochS = floorDiv(t.UnixMilli(), 1000)
		}
	}
	rest := stampRe.ReplaceAllString(text, " ")
	for _, w := range wordRe.FindAllString(rest, -1) {
		if digitsRe.MatchString(w) {
			v, _ := strconv.ParseInt(w, 10, 64)
			nums = append(nums, v)
		} else {
			words = append(words, w)
		}
	}
	return
}

// ---- MPD

type xMPD struct {
	Periods []struct {
		AS []xAS `xml:"AdaptationSet"`
	} `xml:"Period"`
}
type xAS struct {
	ContentType string `xml:"contentType,attr"`
	Lang        string `xml:"lang,attr"`
	Codecs      string `xml:"codecs,attr"`
	ST          *xST   `xml:"SegmentTemplate"`
	Reps        []struct {
		ID     string `xml:"id,attr"`
		Codecs string `xml:"codecs,attr"`
		ST     *xST   `xml:"SegmentTemplate"`
	} `xml:"Representation"`
}
type xST struct {
	Timescale   *int64  `xml:"timescale,attr"`
	Duration    *int64  `xml:"duration,attr"`
	StartNumber *string `xml:"startNumber,attr"`
	Media       string  `xml:"media,attr"`
	Init        string  `xml:"initialization,attr"`
	TL          *struct {
		S []struct {
			T *int64 `xml:"t,attr"`
			D int64  `xml:"d,attr"`
			R *int64 `xml:"r,attr"`
		} `xml:"S"`
	} `xml:"SegmentTimeline"`
}

// tplObs is one SegmentTemplate with its timeline expanded to (t, d) per segment.
type tplObs struct {
	lang, codecs, rep string
	ts                int64
	snr               string
	media             string // raw template
	init              string // raw template
	timeline          bool
	dur               int64
	t, d              []int64
}

func mediaKind(m string) string {
	switch {
	case strings.Contains(m, "$Time$"):
		return "time"
	case strings.Contains(m, "$Number$"):
		return "number"
	}
	return "other"
}

func stObs(st *xST) (tplObs, error) {
	o := tplObs{ts: 1, snr: "", t: []int64{}, d: []int64{}}
	if st == nil {
		return o, fmt.Errorf("no SegmentTemplate")
	}
	if st.Timescale != nil {
		o.ts = *st.Timescale
	}
	if st.StartNumber != nil {
		o.snr = *st.StartNumber
	}
	if st.Duration != nil {
		o.dur = *st.Duration
	}
	o.media = st.Media
	o.init = st.Init
	if st.TL != nil {
		o.timeline = true
		t := int64(0)
		for _, s := range st.TL.S {
			if s.T != nil {
				t = *s.T
			}
			r := int64(0)
			if s.R != nil {
				r = *s.R
			}
			if r < 0 || r > 100000 {
				return o, fmt.Errorf("SegmentTimeline with r=%d not supported by the projection", r)
			}
			for j := int64(0); j <= r; j++ {
				o.t = append(o.t, t)
				o.d = append(o.d, s.D)
				t += s.D
			}
		}
	}
	return o, nil
}

// parseMPD returns the first video SegmentTemplate and every AdaptationSet that carries a generated
// time-subtitle representation (id "timestpp-*" / "timewvtt-*").
func parseMPD(body []byte) (vid *tplObs, txt []tplObs, err error) {
	var m xMPD
	if err := xml.Unmarshal(body, &m); err != nil {
		return nil, nil, fmt.Errorf("mpd: %w", err)
	}
	if len(m.Periods) == 0 {
		return nil, nil, fmt.Errorf("mpd: no period")
	}
	txt = []tplObs{}
	for _, as := range m.Periods[0].AS {
		if as.ContentType == "video" && vid == nil {
			st := as.ST
			if st == nil && len(as.Reps) > 0 {
				st = as.Reps[0].ST
			}
			o, err := stObs(st)
			if err != nil {
				return nil, nil, fmt.Errorf("mpd video: %w", err)
			}
			vid = &o
			continue
		}
		for _, r := range as.Reps {
			if strings.HasPrefix(r.ID, "timestpp-") || strings.HasPrefix(r.ID, "timewvtt-") {
				st := r.ST
				if st == nil {
					st = as.ST
				}
				o, err := stObs(st)
				if err != nil {
					return nil, nil, fmt.Errorf("mpd text %s: %w", r.ID, err)
				}
				o.lang, o.rep = as.Lang, r.ID
				o.codecs = as.Codecs
				if o.codecs == "" {
					o.codecs = r.Codecs
				}
				txt = append(txt, o)
			}
		}
	}
	if vid == nil {
		return nil, nil, fmt.Errorf("mpd: no video AdaptationSet")
	}
	return vid, txt, nil
}

func (o *tplObs) event(period int64, withLang bool) map[string]any {
	segs := make([][]any, 0, len(o.t))
	for j := range o.t {
		p := project.Pair(o.t[j], period)
		segs = append(segs, []any{p[:], clamp(o.d[j])})
	}
	e := map[string]any{"ts": clamp(o.ts), "snr": o.snr, "media": mediaKind(o.media), "timeline": o.timeline, "dur": clamp(o.dur), "segs": segs}
	if withLang {
		e["lang"], e["codecs"], e["rep"] = o.lang, o.codecs, o.rep
	}
	return e
}

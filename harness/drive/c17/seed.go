package c17

import (
	"fmt"
	"math/rand"
)

// seededHistories: longer runs than the explorer's bounded instances - more numbers than the window,
// tracks at different speeds, gaps, duplicates, transpositions, late / slow tracks, jumps of the
// sequence number, and time-shift depths that make the window smaller (2, 3), equal (8) and larger (16)
// than the initial window.
func seededHistories(seed int64, n int) []history {
	rng := rand.New(rand.NewSource(seed*7919 + 17))
	var res []history
	for i := 0; i < n; i++ {
		res = append(res, seededHistory(rng, i, fmt.Sprintf("s%d", i+1)))
	}
	// one directed history (the explorer counterexample ReceiverImpl_cex_abortdelete replayed in every run): two uploads
	// of V1 break inside a later fragment; before 59900e3 each had already made room by deleting an older segment of V1,
	// which was listed when A1 caught up
	d := history{ID: "d1", Src: "seed", Tracks: []string{"V1", "A1"}, First: []string{"V1", "A1"}, Tsbd: 4,
		Order: []upl{{T: "V1", N: 1}, {T: "V1", N: 2}, {T: "V1", N: 3}, {T: "V1", N: 4, A: 2, F: 2, K: 2 * (1 + int(seed%5))},
			{T: "V1", N: 5, A: 2, F: 3, K: 1 + 2*int(seed%7)}, {T: "A1", N: 1}, {T: "A1", N: 2}, {T: "A1", N: 3}, {T: "V1", N: 4, F: 2}}}
	normalize(&d)
	d.Class = classify(&d, 3) + "+directed"
	return append(res, d)
}

func pick[T any](rng *rand.Rand, xs ...T) T { return xs[rng.Intn(len(xs))] }

func seededHistory(rng *rand.Rand, i int, id string) history {
	kind := i % 6
	tracks := []string{"V1", "A1"}
	if rng.Intn(2) == 0 || kind == 3 {
		tracks = []string{"V1", "V2", "A1"}
	}
	tsbd := pick(rng, 2, 4, 14, 30)
	if kind == 5 {
		tsbd = pick(rng, 2, 4, 6)
	}
	if kind == 4 {
		tsbd = pick(rng, 4, 14)
	}
	// two histories in five run on a SHIFTED channel (see shift.go): the same kinds of upload orders, a small window and
	// at least window + 6 numbers per track, so that the renumbered storage is cleaned up for several rounds
	var sh shift
	shifted := i%5 == 1 || i%5 == 3
	if shifted && kind != 4 {
		tsbd = pick(rng, 2, 4, 6)
	}
	window := tsbd/segSeconds + 1
	m := 6 + rng.Intn(9)
	if tsbd == 30 {
		m = 14 + rng.Intn(8)
	}
	start := 1 + rng.Intn(3)*7 // first sequence number 1, 8 or 15
	if shifted {
		if m < window+6 {
			m = window + 6 + rng.Intn(4)
		}
		sh.StartNr = rng.Intn(2)
		switch rng.Intn(7) {
		case 0: // encoder numbers a few ahead of time / duration
			sh.K = 1 + sh.StartNr + rng.Intn(window+2)
		case 1: // ... or behind
			sh.K = -(1 + rng.Intn(3))
		case 2: // an encoder counting from 1 whatever the time
			sh.K = -1000
		case 3: // times off the grid
			sh.Toff = 30000 * (1 + rng.Intn(5))
		case 4: // both
			sh.Toff = 30000 * (1 + rng.Intn(5))
			sh.K = 1 + rng.Intn(3)
		case 5: // far ahead
			sh.K = 40 + rng.Intn(20)
		case 6: // numbers start at startNr: NOT shifted (MediaLive), but renumbered by startNr
			sh.StartNr = 1
			sh.K = 1
		}
		if sh.K < 0 && start < 8 {
			start = 8
		}
		if sh.K == -1000 {
			sh.K = 1 + sh.StartNr - start
		}
	}
	seqs := map[string][]int{}
	for _, t := range tracks {
		s := make([]int, m)
		for j := range s {
			s[j] = start + j
		}
		seqs[t] = s
	}
	deviate := func(t string, what int) {
		s := seqs[t]
		switch what {
		case 0: // gap of 1..3 numbers
			k := 1 + rng.Intn(len(s)-1)
			g := 1 + rng.Intn(3)
			for j := k; j < len(s); j++ {
				s[j] += g
			}
		case 1: // duplicate (immediately, or an old number again)
			k := rng.Intn(len(s))
			at := k + 1
			if rng.Intn(2) == 0 {
				at = k + 1 + rng.Intn(len(s)-k)
			}
			s = append(s[:at], append([]int{s[k]}, s[at:]...)...)
		case 2: // transposition of neighbours
			k := rng.Intn(len(s) - 1)
			s[k], s[k+1] = s[k+1], s[k]
		}
		seqs[t] = s
	}
	switch kind {
	case 1:
		for _, t := range tracks {
			if rng.Intn(2) == 0 {
				deviate(t, 0)
			}
		}
		deviate(pick(rng, tracks...), 0)
	case 2:
		deviate(pick(rng, tracks...), 1+rng.Intn(2))
		if rng.Intn(2) == 0 {
			deviate(pick(rng, tracks...), rng.Intn(3))
		}
	case 4: // every track jumps by >= window after a run
		r := 3 + rng.Intn(m-3)
		g := window + rng.Intn(4)
		for _, t := range tracks {
			s := seqs[t]
			for j := r; j < len(s); j++ {
				s[j] += g - 1
			}
		}
	}
	// interleave with per-track speeds; kind 5: a non-master track runs ahead of the master's second segment
	weights := map[string]float64{}
	for _, t := range tracks {
		weights[t] = 0.3 + rng.Float64()
	}
	h := history{ID: id, Src: "seed", Tracks: tracks, Tsbd: tsbd, Shift: sh}
	late := ""
	slow := ""
	if kind == 3 {
		late = pick(rng, tracks[1:]...)
		if rng.Intn(3) == 0 { // registered in time, but its first media segment comes after the master's second
			slow, late = late, ""
		}
	}
	for _, t := range tracks {
		if t != late {
			h.First = append(h.First, t)
		}
	}
	pos := map[string]int{}
	lateAt := -1
	if late != "" {
		lateAt = 1 + rng.Intn(2*m)
	}
	ahead := 0
	if kind == 5 {
		ahead = window + 1 + rng.Intn(3)
	}
	// aborted uploads: in about half of the histories a body sometimes breaks inside a box (refused by the receiver);
	// the number is then usually sent again in full (at once or after other uploads), sometimes never
	abortP := 0.0
	if rng.Intn(2) == 0 {
		abortP = 0.08 + 0.12*rng.Float64()
	}
	aborts := map[string]int{}
	sent := map[string]bool{}
	step := 0
	for {
		if late != "" && step == lateAt {
			h.Order = append(h.Order, upl{T: late, N: 0})
			lateAt = -1
		}
		var cand []string
		var tot float64
		for _, t := range tracks {
			if pos[t] >= len(seqs[t]) {
				continue
			}
			if t == slow && pos["V1"] < 2+rng.Intn(2) && pos["V1"] < len(seqs["V1"]) {
				continue
			}
			if kind == 5 && t == "V1" && pos["V1"] == 1 && pos["A1"] < ahead && pos["A1"] < len(seqs["A1"]) {
				continue
			}
			cand = append(cand, t)
			tot += weights[t]
		}
		if len(cand) == 0 {
			break
		}
		x := rng.Float64() * tot
		t := cand[len(cand)-1]
		for _, c := range cand {
			if x < weights[c] {
				t = c
				break
			}
			x -= weights[c]
		}
		nr := seqs[t][pos[t]]
		key := fmt.Sprintf("%s/%d", t, nr)
		if abortP > 0 && !sent[key] && aborts[key] < 2 && rng.Float64() < abortP {
			aborts[key]++
			h.Order = append(h.Order, upl{T: t, N: nr, A: 1 + rng.Intn(2), K: 1 + rng.Intn(1000)})
			step++
			if rng.Intn(6) == 0 {
				pos[t]++ // never repeated
			}
			continue // otherwise the number stays due: the next upload of this track repeats it in full
		}
		sent[key] = true
		h.Order = append(h.Order, upl{T: t, N: nr})
		pos[t]++
		step++
	}
	if late != "" && lateAt >= 0 {
		h.Order = append(h.Order, upl{T: late, N: 0})
	}
	normalize(&h)
	h.Class = classify(&h, window)
	if kind == 5 {
		h.Class += "+ahead"
	}
	if slow != "" {
		h.Class += "+slow"
	}
	if shifted {
		h.Class += "+shiftcfg"
	}
	return h
}

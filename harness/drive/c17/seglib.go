package c17

import (
	"bytes"
	"crypto/sha256"
	"encoding/binary"
	"encoding/hex"
	"fmt"
	"os"
	"path/filepath"

	"github.com/Eyevinn/mp4ff/mp4"
)

// Ground truth of the uploads is built HERE: the driver parses livesim2's VoD test asset (testpic_2s)
// once, and derives for every sequence number n the segment bytes (VoD segment n mod 4, re-stamped
// mfhd.sequence_number = n and tfdt = n div 4 * cycle + original tfdt), its decode time, duration and
// digest by its own arithmetic.  Nothing is taken from the receiver.

type vodSeg struct {
	raw     []byte
	tfdt    uint64
	dur     uint64
	mfhdOff int // offset of sequence_number
	tfdtOff int // offset of baseMediaDecodeTime
	tfdtV1  bool
}

type kindData struct {
	ext       string
	init      []byte
	trex      *mp4.TrexBox
	timescale uint32
	segs      []vodSeg
	cycle     uint64
}

type builtSeg struct {
	data []byte
	dts  int64
	dur  int64
	h    string
}

type segLib struct {
	kinds map[string]*kindData // "V" | "A"
	cache map[string]*builtSeg
}

func digest(b []byte) string {
	s := sha256.Sum256(b)
	return hex.EncodeToString(s[:6])
}

// findBox returns the offset of the first child box of type typ in data[start:end].
func findBox(data []byte, start, end int, typ string) (off, size int, ok bool) {
	pos := start
	for pos+8 <= end {
		sz := int(binary.BigEndian.Uint32(data[pos : pos+4]))
		if sz < 8 || pos+sz > end {
			return 0, 0, false
		}
		if string(data[pos+4:pos+8]) == typ {
			return pos, sz, true
		}
		pos += sz
	}
	return 0, 0, false
}

func loadKind(dir, ext string) (*kindData, error) {
	k := &kindData{ext: ext}
	var err error
	k.init, err = os.ReadFile(filepath.Join(dir, "init.mp4"))
	if err != nil {
		return nil, err
	}
	f, err := mp4.DecodeFile(bytes.NewReader(k.init))
	if err != nil {
		return nil, fmt.Errorf("decode %s/init.mp4: %w", dir, err)
	}
	if f.Init == nil || f.Init.Moov == nil || len(f.Init.Moov.Traks) != 1 || f.Init.Moov.Mvex == nil || f.Init.Moov.Mvex.Trex == nil {
		return nil, fmt.Errorf("%s/init.mp4: unexpected structure", dir)
	}
	k.timescale = f.Init.Moov.Trak.Mdia.Mdhd.Timescale
	k.trex = f.Init.Moov.Mvex.Trex
	trexDur := k.trex.DefaultSampleDuration
	for i := 1; ; i++ {
		p := filepath.Join(dir, fmt.Sprintf("%d.m4s", i))
		raw, err := os.ReadFile(p)
		if err != nil {
			if i == 1 {
				return nil, err
			}
			break
		}
		sf, err := mp4.DecodeFile(bytes.NewReader(raw))
		if err != nil {
			return nil, fmt.Errorf("decode %s: %w", p, err)
		}
		if len(sf.Segments) != 1 || len(sf.Segments[0].Fragments) != 1 {
			return nil, fmt.Errorf("%s: expected one segment with one fragment", p)
		}
		fr := sf.Segments[0].Fragments[0]
		traf := fr.Moof.Traf
		def := trexDur
		if traf.Tfhd.HasDefaultSampleDuration() {
			def = traf.Tfhd.DefaultSampleDuration
		}
		var dur uint64
		for _, trun := range traf.Truns {
			for _, s := range trun.Samples {
				if trun.HasSampleDuration() {
					dur += uint64(s.Dur)
				} else {
					dur += uint64(def)
				}
			}
		}
		vs := vodSeg{raw: raw, tfdt: traf.Tfdt.BaseMediaDecodeTime(), dur: dur}
		moofOff, moofSz, ok := findBox(raw, 0, len(raw), "moof")
		if !ok {
			return nil, fmt.Errorf("%s: no moof", p)
		}
		mfhdOff, _, ok := findBox(raw, moofOff+8, moofOff+moofSz, "mfhd")
		if !ok {
			return nil, fmt.Errorf("%s: no mfhd", p)
		}
		vs.mfhdOff = mfhdOff + 12
		trafOff, trafSz, ok := findBox(raw, moofOff+8, moofOff+moofSz, "traf")
		if !ok {
			return nil, fmt.Errorf("%s: no traf", p)
		}
		tfdtOff, _, ok := findBox(raw, trafOff+8, trafOff+trafSz, "tfdt")
		if !ok {
			return nil, fmt.Errorf("%s: no tfdt", p)
		}
		vs.tfdtV1 = raw[tfdtOff+8] == 1
		vs.tfdtOff = tfdtOff + 12
		// the last top-level box must be the mdat (variant bytes are flipped there)
		if mdOff, mdSz, ok := findBox(raw, 0, len(raw), "mdat"); !ok || mdOff+mdSz != len(raw) {
			return nil, fmt.Errorf("%s: mdat is not the last box", p)
		}
		k.segs = append(k.segs, vs)
	}
	// the VoD loop must be contiguous from 0 so that re-stamped segments are contiguous for every n
	var t uint64
	for i, s := range k.segs {
		if s.tfdt != t {
			return nil, fmt.Errorf("%s: segment %d starts at %d, expected %d", dir, i+1, s.tfdt, t)
		}
		t += s.dur
	}
	k.cycle = t
	return k, nil
}

func loadLib(asset string) (*segLib, error) {
	lib := &segLib{kinds: map[string]*kindData{}, cache: map[string]*builtSeg{}}
	v, err := loadKind(filepath.Join(asset, "V300"), ".cmfv")
	if err != nil {
		return nil, err
	}
	a, err := loadKind(filepath.Join(asset, "A48"), ".cmfa")
	if err != nil {
		return nil, err
	}
	// the master (video) track must be unshifted: every segment has the same duration d and starts at n*d
	d := v.segs[0].dur
	for _, s := range v.segs {
		if s.dur != d {
			return nil, fmt.Errorf("video segments have different durations")
		}
	}
	lib.kinds["V"] = v
	lib.kinds["A"] = a
	return lib, nil
}

func kindOf(track string) string { return track[:1] }

// variant: tracks of the same kind differ in the last payload byte so that a segment stored under the
// wrong track is visible in the digests.
func variantOf(track string) byte {
	if len(track) > 1 && track[1] >= '2' && track[1] <= '9' {
		return track[1] - '1'
	}
	return 0
}

func (l *segLib) timescale(track string) int { return int(l.kinds[kindOf(track)].timescale) }
func (l *segLib) ext(track string) string    { return l.kinds[kindOf(track)].ext }
func (l *segLib) masterDur() int             { return int(l.kinds["V"].segs[0].dur) }

func (l *segLib) initSeg(track string) []byte { return l.kinds[kindOf(track)].init }

// media returns the segment of a track for grid index g (content and time of VoD position g: decode time
// g div 4 * cycle + original tfdt), sent by the encoder as sequence number nIn with all times moved by toff ticks of
// the track, split into nfrag fragments (CMAF chunks).  nfrag = 1 is the VoD segment itself, re-stamped by binary
// patch; nfrag > 1 distributes its samples over nfrag moof/mdat pairs (same samples, same total duration, tfdt of
// fragment j = dts + durations of the samples before it).  An unshifted channel has nIn = g and toff = 0.
func (l *segLib) media(track string, g, nIn int, toff int64, nfrag int) *builtSeg {
	if nfrag > 1 {
		return l.mediaFrags(track, g, nIn, toff, nfrag)
	}
	key := fmt.Sprintf("%s/%d/%d/%d", track, g, nIn, toff)
	if b, ok := l.cache[key]; ok {
		return b
	}
	k := l.kinds[kindOf(track)]
	idx := g % len(k.segs)
	cyc := uint64(g / len(k.segs))
	vs := k.segs[idx]
	dts := cyc*k.cycle + vs.tfdt + uint64(toff)
	data := make([]byte, len(vs.raw))
	copy(data, vs.raw)
	binary.BigEndian.PutUint32(data[vs.mfhdOff:], uint32(nIn))
	if vs.tfdtV1 {
		binary.BigEndian.PutUint64(data[vs.tfdtOff:], dts)
	} else {
		binary.BigEndian.PutUint32(data[vs.tfdtOff:], uint32(dts))
	}
	data[len(data)-1] ^= variantOf(track)
	b := &builtSeg{data: data, dts: int64(dts), dur: int64(vs.dur), h: digest(data)}
	l.cache[key] = b
	return b
}

func (l *segLib) mediaFrags(track string, g, nIn int, toff int64, nfrag int) *builtSeg {
	key := fmt.Sprintf("%s/%d/%d/%d/%d", track, g, nIn, toff, nfrag)
	if b, ok := l.cache[key]; ok {
		return b
	}
	one := l.media(track, g, nIn, toff, 1)
	k := l.kinds[kindOf(track)]
	f, err := mp4.DecodeFile(bytes.NewReader(one.data))
	if err != nil {
		panic(fmt.Sprintf("seglib: decode own segment: %v", err))
	}
	seg := f.Segments[0]
	frag := seg.Fragments[0]
	samples, err := frag.GetFullSamples(k.trex)
	if err != nil || len(samples) < nfrag {
		panic(fmt.Sprintf("seglib: samples of %s: %v (%d)", key, err, len(samples)))
	}
	trackID := frag.Moof.Traf.Tfhd.TrackID
	var out bytes.Buffer
	if seg.Styp != nil {
		if err := seg.Styp.Encode(&out); err != nil {
			panic(err)
		}
	}
	var total int64
	for j := 0; j < nfrag; j++ {
		lo, hi := j*len(samples)/nfrag, (j+1)*len(samples)/nfrag
		nf, err := mp4.CreateFragment(uint32(nIn), trackID)
		if err != nil {
			panic(err)
		}
		for _, sm := range samples[lo:hi] {
			sm.DecodeTime = uint64(one.dts + total) // own arithmetic: start + durations so far
			nf.AddFullSample(sm)
			total += int64(sm.Dur)
		}
		if err := nf.Encode(&out); err != nil {
			panic(err)
		}
	}
	if total != one.dur {
		panic(fmt.Sprintf("seglib: %s: fragment durations %d != %d", key, total, one.dur))
	}
	data := out.Bytes()
	b := &builtSeg{data: data, dts: one.dts, dur: one.dur, h: digest(data)}
	l.cache[key] = b
	return b
}

type boxSpan struct {
	typ        string
	start, end int
}

func topBoxes(data []byte) []boxSpan {
	var res []boxSpan
	pos := 0
	for pos+8 <= len(data) {
		sz := int(binary.BigEndian.Uint32(data[pos : pos+4]))
		if sz < 8 || pos+sz > len(data) {
			break
		}
		res = append(res, boxSpan{string(data[pos+4 : pos+8]), pos, pos + sz})
		pos += sz
	}
	return res
}

// cutPoints lists where an upload of this body can break.  early: before the first fragment is complete; late: after
// at least one complete fragment (which the receiver has then already taken).
//
//	clean  - the body simply ends there (Content-Length = its length): only points INSIDE a moof box (or inside a box
//	         before the first moof).  A body that ends inside / right before an mdat is not in the alphabet: the
//	         receiver cannot tell it from a complete upload without comparing box sizes, answers 200 and keeps the
//	         declared duration - the property text does not say which duration such a segment has.  A body that ends
//	         exactly at a fragment boundary is a complete segment of fewer fragments.
//	broken - the connection breaks there (Content-Length of the whole segment, the reader fails with
//	         io.ErrUnexpectedEOF): every point, including the fragment boundaries.
type cuts struct{ cleanEarly, cleanLate, brokenEarly, brokenLate []int }

func cutPoints(data []byte) cuts {
	var c cuts
	done := 0 // complete fragments before the current box
	for _, b := range topBoxes(data) {
		mid := b.start + (b.end-b.start)/2
		var clean, broken []int
		switch b.typ {
		case "moof":
			clean = []int{b.start + 4, mid, b.end - 1}
			broken = []int{b.start, b.start + 4, mid, b.end}
		case "mdat":
			broken = []int{b.start + 8, mid, b.end - 1}
		default:
			clean = []int{mid}
			broken = []int{mid}
		}
		add := func(dst *[]int, pts []int) {
			for _, p := range pts {
				if p > 0 && p < len(data) {
					*dst = append(*dst, p)
				}
			}
		}
		if done == 0 {
			add(&c.cleanEarly, clean)
			add(&c.brokenEarly, broken)
		} else {
			add(&c.cleanLate, clean)
			add(&c.brokenLate, broken)
		}
		if b.typ == "mdat" {
			done++
		}
	}
	return c
}

type decoded struct {
	ok       bool
	dts, dur int64
	frags    int
}

// decodeStored is the driver's own reading of a stored media file: decode time of the first fragment and the sum
// of the sample durations of all fragments (trun duration, else tfhd default, else trex default).
func (l *segLib) decodeStored(track string, data []byte, cache map[string]decoded, h string) (d decoded) {
	key := track[:1] + h
	if c, ok := cache[key]; ok {
		return c
	}
	defer func() {
		if r := recover(); r != nil {
			d = decoded{}
		}
		cache[key] = d
	}()
	k := l.kinds[kindOf(track)]
	boxes := topBoxes(data)
	covered := 0
	if len(boxes) > 0 {
		covered = boxes[len(boxes)-1].end
	}
	f, err := mp4.DecodeFile(bytes.NewReader(data))
	if err != nil || covered != len(data) || len(f.Segments) == 0 {
		return d
	}
	first := true
	for _, sg := range f.Segments {
		for _, fr := range sg.Fragments {
			if fr.Moof == nil || fr.Moof.Traf == nil || fr.Moof.Traf.Tfdt == nil || fr.Mdat == nil {
				return d
			}
			traf := fr.Moof.Traf
			if first {
				d.dts = clamp64(traf.Tfdt.BaseMediaDecodeTime())
				first = false
			}
			def := k.trex.DefaultSampleDuration
			if traf.Tfhd.HasDefaultSampleDuration() {
				def = traf.Tfhd.DefaultSampleDuration
			}
			for _, trun := range traf.Truns {
				for _, sm := range trun.Samples {
					if trun.HasSampleDuration() {
						d.dur += int64(sm.Dur)
					} else {
						d.dur += int64(def)
					}
				}
			}
			d.frags++
		}
	}
	d.ok = d.frags > 0 && d.dur < 1<<30
	return d
}

func clamp64(v uint64) int64 {
	if v >= 1<<30 {
		return 1<<30 - 1
	}
	return int64(v)
}

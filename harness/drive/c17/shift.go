package c17

// Shifted channels.  The upload histories (and the explorer model) speak about LOGICAL numbers N; a history's
// shift says how the encoder presents them:
//   grid index  g   = N + Base            (content and nominal time g * D of the segment)
//   encoder nr  nIn = g + K               (mfhd.sequence_number; K != 0: number-shifted, e.g. an encoder counting from 1)
//   times           + Toff master ticks   (off-grid t0: time-shifted)
//   StartNr                               (channel configuration: outgoing number = nIn - startNr until tuned in)
// The receiver tunes in when two consecutive master segments have arrived (channel.go); if the first of the pair does
// not sit at time = number * D it is in SHIFTED mode from then on: every later upload is stored with its time increased
// by masterTimeShift = D - (t0 mod D) and under the number "time / segment duration" (receiver.go).  The driver derives
// the expected stored number / time / duration of every upload from these constants by its own arithmetic (the same
// mapping as X02's oracle spec/ReceiverShiftOps.tla: TimeShiftOf, SeqShiftOf, NumberOK), so that all C17 clauses are
// evaluated on the renumbered values.  All parameters are chosen such that every timescale conversion is exact.

type shift struct {
	Base    int `json:"base"`
	K       int `json:"k"`
	Toff    int `json:"toff"` // master ticks
	StartNr int `json:"startNr"`
}

func (s shift) none() bool { return s.K == 0 && s.Toff == 0 && s.StartNr == 0 && s.Base == 0 }

const masterTs = 90000

// tuner is the driver's own reading of "tuned in": the master's segment buffer only takes increasing numbers; two
// of them in a row that are consecutive tune the channel in, otherwise the older one is dropped.
type tuner struct {
	have     bool
	lastG    int
	tuned    bool
	shifted  bool
	timeSh   int64 // master ticks
	seqShift int64
}

// masterAccepted is called after an accepted (200) upload of the master track with grid index g.
func (tu *tuner) masterAccepted(g int, sh shift, D int64) {
	if tu.tuned {
		return
	}
	switch {
	case !tu.have:
		tu.have, tu.lastG = true, g
	case g <= tu.lastG:
		// "sequence number not increasing": not taken
	case g == tu.lastG+1:
		tu.tuned = true
		t0 := int64(tu.lastG)*D + int64(sh.Toff)
		n0 := int64(tu.lastG + sh.K - sh.StartNr)
		tu.seqShift = t0/D - n0
		if over := t0 % D; over != 0 {
			tu.timeSh = D - over
			tu.seqShift++
		}
		tu.shifted = tu.seqShift != 0 || tu.timeSh != 0
	default:
		tu.lastG = g
	}
}

type expect struct {
	sn    []int // candidate stored numbers (both readings of the tuned-in numbering when startNr != 0)
	dts   int64 // expected stored decode time (track ticks)
	exact bool  // the stored bytes must be the uploaded bytes
}

// expected stored identity of an upload of grid index g on a track with timescale ts whose uploaded decode time is dtsIn.
func (tu *tuner) expected(g int, sh shift, ts int64, dtsIn int64, D int64) expect {
	nIn := g + sh.K
	if !tu.tuned || !tu.shifted {
		// the stored file carries the outgoing number in mfhd: byte-identical only if the number is not changed
		return expect{sn: []int{nIn - sh.StartNr}, dts: dtsIn, exact: sh.StartNr == 0}
	}
	t := dtsIn
	if tu.timeSh != 0 {
		t = (dtsIn*masterTs/ts + tu.timeSh) * ts / masterTs
	}
	segDur := D * ts / masterTs
	grid := int((t + segDur/2) / segDur)
	e := expect{sn: []int{grid - sh.StartNr}, dts: t, exact: false}
	if sh.StartNr != 0 {
		e.sn = append(e.sn, grid)
	}
	return e
}

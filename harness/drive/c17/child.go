package c17

import (
	"bytes"
	"context"
	"encoding/json"
	"fmt"
	"io"
	"log/slog"
	"net/http"
	"net/http/httptest"
	"os"
	"path/filepath"
	"runtime"
	"strconv"
	"strings"
	"sync"
	"sync/atomic"
	"syscall"
	"time"

	"github.com/Dash-Industry-Forum/livesim2/cmd/cmaf-ingest-receiver/app"
	m "github.com/Eyevinn/dash-mpd/mpd"

	"verifharness/tr"
)

const (
	answerTimeout  = 30 * time.Second
	processTimeout = 30 * time.Second
)

type procEv map[string]any

// failReader is the rest of a request body whose connection has broken.
type failReader struct{}

func (failReader) Read([]byte) (int, error) { return 0, io.ErrUnexpectedEOF }

// hook routing: the channel goroutine of the history in progress reports here
var (
	hookMu   sync.Mutex
	hookChan string
	hookCh   chan procEv
	hookH    int      // history in progress
	hookI    int      // upload in progress
	lastF    *os.File // <part>.last: the most recent hook event, written INSIDE the hook (channel goroutine)
)

func installHook() {
	app.VerifHook = func(ev string, kv map[string]any) {
		if ev != "process" {
			return
		}
		hookMu.Lock()
		name, ch, hh, hi := hookChan, hookCh, hookH, hookI
		hookMu.Unlock()
		if ch == nil || kv["ch"] != name {
			return
		}
		if lastF != nil {
			// one fixed-size write at offset 0: complete before this goroutine goes on (possibly: goes on dying)
			rec, _ := json.Marshal(map[string]any{"H": hh, "I": hi, "T": kv["track"], "N": toInt(kv["seqNr"])})
			buf := make([]byte, 160)
			for i := range buf {
				buf[i] = ' '
			}
			copy(buf, rec)
			_, _ = lastF.WriteAt(buf, 0)
		}
		select {
		case ch <- kv:
		default: // never block the receiver
		}
	}
}

// poller re-reads the timeline MPD in a tight loop while an upload is in flight (C17.complete).
type poller struct {
	path     atomic.Value // string
	active   atomic.Bool
	stop     atomic.Bool
	mu       sync.Mutex
	reads    int
	bad      int
	distinct int
	sample   string
	lastGood []byte
	done     chan struct{}
}

func completeDoc(data []byte) bool {
	if len(data) == 0 {
		return false
	}
	if _, err := m.MPDFromBytes(data); err != nil {
		return false
	}
	return strings.HasSuffix(strings.TrimSpace(string(data)), "</MPD>")
}

func (p *poller) run() {
	defer close(p.done)
	for !p.stop.Load() {
		if !p.active.Load() {
			time.Sleep(100 * time.Microsecond)
			continue
		}
		path, _ := p.path.Load().(string)
		if path == "" {
			runtime.Gosched()
			continue
		}
		data, err := os.ReadFile(path)
		if err != nil {
			runtime.Gosched()
			continue // not published yet
		}
		p.mu.Lock()
		p.reads++
		if !bytes.Equal(data, p.lastGood) {
			if completeDoc(data) {
				p.lastGood = data
				p.distinct++
			} else {
				p.bad++
				if p.sample == "" {
					s := string(data)
					if len(s) > 80 {
						s = s[:40] + "..." + s[len(s)-30:]
					}
					p.sample = fmt.Sprintf("len=%d %q", len(data), s)
				}
			}
		}
		p.mu.Unlock()
		runtime.Gosched()
	}
}

func (p *poller) take() (reads, bad, distinct int, sample string) {
	p.mu.Lock()
	defer p.mu.Unlock()
	reads, bad, distinct, sample = p.reads, p.bad, p.distinct, p.sample
	p.reads, p.bad, p.distinct, p.sample, p.lastGood = 0, 0, 0, "", nil
	return
}

type mpdStamp struct {
	ino   uint64
	mtime int64
	size  int64
}

type fileEnt struct {
	N   int    `json:"n"`
	H   string `json:"h"`
	Ok  bool   `json:"ok"`  // the driver could decode the stored file completely
	Dts int    `json:"dts"` // decode time of its first fragment
	Dur int    `json:"dur"` // sum of the sample durations of all its fragments
	Fr  int    `json:"fr"`  // fragments
}

func (c *childState) listTrack(track, dir, ext string) []fileEnt {
	res := []fileEnt{}
	ents, err := os.ReadDir(dir)
	if err != nil {
		return res
	}
	for _, e := range ents {
		name := e.Name()
		if !strings.HasSuffix(name, ext) {
			continue
		}
		n, err := strconv.Atoi(strings.TrimSuffix(name, ext))
		if err != nil || n < 0 || n >= 1<<30 {
			continue // init, init_org
		}
		data, err := os.ReadFile(filepath.Join(dir, name))
		if err != nil {
			continue
		}
		h := digest(data)
		d := c.lib.decodeStored(track, data, c.dec, h)
		res = append(res, fileEnt{N: n, H: h, Ok: d.ok, Dts: int(d.dts), Dur: int(d.dur), Fr: d.frags})
	}
	return res
}

type asObs struct {
	Ts    int              `json:"ts"`
	Start int              `json:"start"`
	Reps  []string         `json:"reps"`
	S     []map[string]int `json:"S"`
}

func clampInt(v uint64) int {
	if v >= 1<<30 {
		return 1<<30 - 1
	}
	return int(v)
}

func parseMPD(data []byte) (ok bool, as []asObs) {
	as = []asObs{}
	if !completeDoc(data) {
		return false, as
	}
	doc, err := m.MPDFromBytes(data)
	if err != nil || len(doc.Periods) == 0 {
		return false, as
	}
	for _, a := range doc.Periods[0].AdaptationSets {
		o := asObs{Ts: 1, Start: 1, Reps: []string{}, S: []map[string]int{}}
		for _, r := range a.Representations {
			o.Reps = append(o.Reps, r.Id)
		}
		if st := a.SegmentTemplate; st != nil {
			if st.Timescale != nil {
				o.Ts = int(*st.Timescale)
			}
			if st.StartNumber != nil {
				o.Start = clampInt(uint64(*st.StartNumber))
			}
			if st.SegmentTimeline != nil {
				for _, s := range st.SegmentTimeline.S {
					if s == nil {
						continue
					}
					t := -1
					if s.T != nil {
						t = clampInt(*s.T)
					}
					o.S = append(o.S, map[string]int{"t": t, "d": clampInt(s.D), "r": int(s.R)})
				}
			}
		}
		as = append(as, o)
	}
	return true, as
}

// evWriter writes one event per write(2): the parent must see every complete event even if this process dies.
type evWriter struct{ f *os.File }

func (w *evWriter) Emit(e tr.E) {
	data, err := json.Marshal(e)
	if err != nil {
		panic(fmt.Sprintf("trace marshal: %v", err))
	}
	if _, err := w.f.Write(append(data, '\n')); err != nil {
		panic(err)
	}
}

type childState struct {
	w    *evWriter
	lib  *segLib
	tmp  string
	part string
	dec  map[string]decoded // decoded stored files by kind + digest
	pl   *poller
}

func childMain(lib *segLib, batchFile, part string, from int, tmp string) error {
	data, err := os.ReadFile(batchFile)
	if err != nil {
		return err
	}
	var batch []history
	if err := json.Unmarshal(data, &batch); err != nil {
		return err
	}
	slog.SetDefault(slog.New(slog.NewTextHandler(io.Discard, &slog.HandlerOptions{Level: slog.Level(100)})))
	pf, err := os.Create(part)
	if err != nil {
		return err
	}
	w := &evWriter{f: pf}
	lastF, err = os.Create(part + ".last")
	if err != nil {
		return err
	}
	installHook()
	c := &childState{w: w, lib: lib, tmp: tmp, part: part, dec: map[string]decoded{}, pl: &poller{done: make(chan struct{})}}
	go c.pl.run()
	for hi := from; hi < len(batch); hi++ {
		abort := c.runHistory(hi, &batch[hi])
		if abort {
			_ = pf.Close()
			os.Exit(exitAbort)
		}
	}
	c.pl.stop.Store(true)
	<-c.pl.done
	return pf.Close()
}

func (c *childState) emit(e tr.E) { c.w.Emit(e) }

func noHook(names []string) map[string]any {
	neg := map[string]any{}
	for _, t := range names {
		neg[t] = -1
	}
	return map[string]any{"have": false, "latest": 0, "started": false, "window": 0, "nrTracks": 0, "fill": neg, "blen": neg,
		"cfill": 0, "clen": 0, "maxBuf": 0}
}

func toInt(v any) int {
	switch x := v.(type) {
	case int:
		return x
	case int64:
		if x >= 1<<30 || x <= -(1<<30) {
			return 1<<30 - 1
		}
		return int(x)
	case uint32:
		return clampInt(uint64(x))
	case float64:
		return int(x)
	}
	return 0
}

func hookObs(names []string, ev procEv) map[string]any {
	fill, blen := map[string]any{}, map[string]any{}
	f, _ := ev["fill"].(map[string]any)
	b, _ := ev["bufLen"].(map[string]any)
	for _, t := range names {
		fill[t], blen[t] = -1, -1
		if v, ok := f[t]; ok {
			fill[t] = toInt(v)
		}
		if v, ok := b[t]; ok {
			blen[t] = toInt(v)
		}
	}
	started, _ := ev["started"].(bool)
	return map[string]any{"have": true, "latest": toInt(ev["latestSeqNr"]), "started": started, "window": toInt(ev["windowSize"]),
		"nrTracks": toInt(ev["nrTracks"]), "fill": fill, "blen": blen, "cfill": toInt(ev["counterFill"]),
		"clen": toInt(ev["counterLen"]), "maxBuf": toInt(ev["maxNrBufSegs"])}
}

// runHistory replays one history against a fresh receiver; returns true if the history had to be abandoned.
func (c *childState) runHistory(hi int, h *history) (abort bool) {
	chName := fmt.Sprintf("ch%d", hi)
	storage := filepath.Join(c.tmp, fmt.Sprintf("s%d-%d", os.Getpid(), hi))
	_ = os.RemoveAll(storage)
	if err := os.MkdirAll(storage, 0o755); err != nil {
		panic(err)
	}
	defer os.RemoveAll(storage)
	ctx, cancel := context.WithCancel(context.Background())
	defer cancel()
	sh := h.Shift
	D := int64(c.lib.masterDur())
	tu := &tuner{}
	master := "V1"
	cfg := &app.Config{}
	if sh.StartNr != 0 {
		cfg.Channels = []app.ChannelConfig{{Name: chName, StartNr: sh.StartNr}}
	}
	router, _, err := app.VerifNewRouter(ctx, "/upload", storage, uint64(h.Tsbd), 0, "", cfg)
	if err != nil {
		panic(err)
	}
	procCh := make(chan procEv, 256)
	hookMu.Lock()
	hookChan, hookCh = chName, procCh
	hookMu.Unlock()
	mpdPath := filepath.Join(storage, chName, "manifest_timeline_nr.mpd")
	c.pl.path.Store(mpdPath)
	c.emit(header(c.lib, h))

	var order []upl
	for _, t := range h.First {
		order = append(order, upl{T: t, N: 0})
	}
	order = append(order, h.Order...)
	var lastStamp mpdStamp
	havePub := false
	lastOK := false
	lastHook := noHook(h.Tracks)
	lastRange := []int{}
	crashFree := true
	for i, u := range order {
		// progress marker for the parent (atomically: the process may die at any moment)
		cur, _ := json.Marshal(map[string]any{"H": hi, "I": i, "N": u.N, "T": u.T})
		if err := os.WriteFile(c.part+".cur.tmp", cur, 0o644); err == nil {
			_ = os.Rename(c.part+".cur.tmp", c.part+".cur")
		}
		hookMu.Lock()
		hookH, hookI = hi, i
		hookMu.Unlock()
		var data []byte
		broken, fullLen := false, 0
		var name, kind, dig string
		var dts, dur int64
		g, nIn := 0, 0
		exp := expect{sn: []int{0}, exact: true}
		if u.N == 0 {
			data, name, kind = c.lib.initSeg(u.T), "init", "init"
			dig = digest(data)
		} else {
			nf := u.F
			if nf < 1 {
				nf = 1
			}
			g = u.N + sh.Base
			nIn = g + sh.K
			ts := int64(c.lib.timescale(u.T))
			b := c.lib.media(u.T, g, nIn, int64(sh.Toff)*ts/masterTs, nf)
			data, name, kind, dts, dur, dig = b.data, strconv.Itoa(nIn), "media", b.dts, b.dur, b.h
			exp = tu.expected(g, sh, ts, b.dts, D)
			if u.A != 0 {
				// an upload that breaks inside a box: the body is a proper prefix of the segment
				cp := cutPoints(b.data)
				pts := cp.cleanEarly
				broken = u.K%2 == 1
				switch {
				case u.A == 2 && broken && len(cp.brokenLate) > 0:
					pts = cp.brokenLate
				case u.A == 2 && len(cp.cleanLate) > 0:
					pts = cp.cleanLate
				case broken:
					pts = cp.brokenEarly
				}
				fullLen = len(b.data)
				data = b.data[:pts[(u.K/2)%len(pts)]]
				dig = digest(data)
				// should the receiver accept it (200), "the uploaded content" is this prefix as far as it can be decoded
				d := c.lib.decodeStored(u.T, data, c.dec, dig)
				dts, dur = -1, -1
				if d.ok {
					dts, dur = d.dts, d.dur
				}
			}
		}
		// nothing of an earlier upload may be mistaken for an event of this one
	drain:
		for {
			select {
			case <-procCh:
			default:
				break drain
			}
		}
		url := fmt.Sprintf("/upload/%s/%s/%s%s", chName, u.T, name, c.lib.ext(u.T))
		var body io.Reader = bytes.NewReader(data)
		clen := len(data)
		if broken {
			// the connection breaks: the declared length is that of the whole segment, the reader fails after the prefix
			body = io.MultiReader(bytes.NewReader(data), failReader{})
			clen = fullLen
		}
		req := httptest.NewRequest(http.MethodPut, url, body)
		req.ContentLength = int64(clen)
		req.Header.Set("Content-Length", strconv.Itoa(clen))
		rec := httptest.NewRecorder()
		answered := make(chan struct{})
		c.pl.active.Store(true)
		go func() {
			defer close(answered)
			router.ServeHTTP(rec, req)
		}()
		status := -1
		select {
		case <-answered:
			status = rec.Code
		case <-time.After(answerTimeout):
		}
		processed := false
		nproc := 0
		hk := noHook(h.Tracks) // "have" only for the hook event of THIS upload
		if status == http.StatusOK && kind == "media" {
			deadline := time.After(processTimeout)
		wait:
			for {
				select {
				case ev := <-procCh:
					nproc++
					complete, _ := ev["complete"].(bool)
					if complete && ev["track"] == u.T && toInt(ev["seqNrIn"]) == nIn {
						processed = true
						hk = hookObs(h.Tracks, ev)
						break wait
					}
				case <-deadline:
					break wait
				}
			}
		} else if kind == "media" && status > 0 {
			// refused: the handler may have queued records of the fragments it had accepted before the body broke;
			// observe only after the channel goroutine has been idle for a while
		idle:
			for {
				select {
				case <-procCh:
					nproc++
				case <-time.After(3 * time.Millisecond):
					break idle
				}
			}
		}
		c.pl.active.Store(false)
		if hk["have"] == true {
			lastHook = hk
		}
		// observation
		files := map[string]any{}
		for _, t := range h.Tracks {
			files[t] = c.listTrack(t, filepath.Join(storage, chName, t), c.lib.ext(t))
		}
		mo := map[string]any{"state": "absent", "ok": false, "as": []asObs{}}
		var st syscall.Stat_t
		if err := syscall.Stat(mpdPath, &st); err == nil {
			stamp := mpdStamp{ino: st.Ino, mtime: st.Mtim.Nano(), size: st.Size}
			if havePub && stamp == lastStamp {
				mo = map[string]any{"state": "same", "ok": lastOK, "as": []asObs{}}
			} else {
				data, _ := os.ReadFile(mpdPath)
				ok, as := parseMPD(data)
				mo = map[string]any{"state": "new", "ok": ok, "as": as}
				lastStamp, havePub, lastOK = stamp, true, ok
				if ok && len(as) > 0 {
					nseg := 0
					for _, s := range as[0].S {
						nseg += s["r"] + 1
					}
					lastRange = []int{as[0].Start, as[0].Start + nseg - 1}
				}
			}
		}
		// the expected stored number: where the tuned-in numbering has two readings (startNr != 0) the one the receiver
		// follows is taken from the listing (either is accepted)
		sn := exp.sn[0]
		if kind == "media" && status == http.StatusOK && len(exp.sn) > 1 {
			has := func(n int) bool {
				for _, f := range files[u.T].([]fileEnt) {
					if f.N == n {
						return true
					}
				}
				return false
			}
			if !has(sn) && has(exp.sn[1]) {
				sn = exp.sn[1]
			}
		}
		if kind == "media" && status == http.StatusOK && u.T == master && u.A == 0 {
			tu.masterAccepted(g, sh, D)
		}
		c.emit(tr.E{"ev": "up", "i": i, "track": u.T, "kind": kind, "n": u.N, "nin": nIn, "sn": sn, "sdts": exp.dts, "bx": exp.exact,
			"tuned": tu.tuned, "shifted": tu.shifted, "status": status, "dts": dts, "dur": dur, "h": dig,
			"cut": u.A, "broken": broken, "frags": u.F, "len": len(data), "processed": processed, "nproc": nproc, "files": files, "mpd": mo, "hook": hk})
		if status < 0 || (status == http.StatusOK && kind == "media" && !processed) {
			crashFree = false
			break
		}
	}
	// The deferred process hook also fires while the channel goroutine unwinds a panic: give a dying process the
	// time to die before the history is closed and the next one (with its own hook events) starts.
	time.Sleep(3 * time.Millisecond)
	reads, bad, distinct, sample := c.pl.take()
	c.emit(tr.E{"ev": "poll", "reads": reads, "bad": bad, "distinct": distinct, "sample": sample})
	lh := lastHook
	c.emit(tr.E{"ev": "end", "hid": h.ID, "alive": crashFree, "shifted": tu.shifted, "off": sh.Base + sh.K - sh.StartNr, "range": lastRange, "published": havePub, "hookSeen": lh["have"] == true,
		"latest": toInt(lh["latest"]), "started": lh["started"] == true, "nrTracks": toInt(lh["nrTracks"])})
	hookMu.Lock()
	hookChan, hookCh = "", nil
	hookMu.Unlock()
	return !crashFree
}

// Package c17 drives the real CMAF-ingest receiver (cmd/cmaf-ingest-receiver/app, build tag verif)
// through its HTTP router with real fMP4 segments in the upload orders produced by the explorer
// model (ReceiverImpl) and by a seeded generator, and records one event per upload:
// HTTP status, directory listings with digests, the parsed timeline MPD and the scalars of the
// `process` hook.  A panic of the channel goroutine kills the process, so histories run in child
// processes (this binary re-executed with -child); "child died with Go panic X" becomes a `crash`
// event, a child that dies any other way is a machinery error.
package c17

import (
	"bufio"
	"bytes"
	"encoding/json"
	"errors"
	"flag"
	"fmt"
	"os"
	"os/exec"
	"path/filepath"
	"regexp"
	"sort"
	"strings"
	"sync"
	"time"

	"verifharness/tr"
)

type upl struct {
	T string `json:"t"`
	N int    `json:"n"` // 0: the init segment of a late track
	A int    `json:"a"` // 0: the whole body; 1: the body breaks inside the first fragment; 2: inside a later fragment
	F int    `json:"f"` // fragments (CMAF chunks) of the segment with this number on this track
	K int    `json:"k"` // selects the point where an aborted body breaks
}

// normalize fixes, per (track, number), the number of fragments (every upload of the same number carries the same
// segment: duplicates and retries are byte-identical in full) and the break points of aborted uploads.
func normalize(h *history) {
	frags := map[string]int{}
	key := func(u upl) string { return fmt.Sprintf("%s/%d", u.T, u.N) }
	hash := func(s string) int {
		x := uint32(2166136261)
		for i := 0; i < len(s); i++ {
			x = (x ^ uint32(s[i])) * 16777619
		}
		return int(x >> 8)
	}
	for _, u := range h.Order {
		if u.N == 0 {
			continue
		}
		if u.F > frags[key(u)] {
			frags[key(u)] = u.F
		}
		if u.A == 2 && frags[key(u)] < 2 {
			frags[key(u)] = 2 + hash(h.ID+key(u))%2
		}
	}
	for i := range h.Order {
		u := &h.Order[i]
		if u.N == 0 {
			continue
		}
		if frags[key(*u)] == 0 {
			frags[key(*u)] = []int{1, 1, 2, 3}[hash(h.ID+key(*u))%4]
		}
		u.F = frags[key(*u)]
		if u.A != 0 && u.K == 0 {
			u.K = 1 + hash(fmt.Sprintf("%s#%d", h.ID, i))%1000
		}
	}
}

// pred: what the explorer model says about the history (fidelity only, never a verdict)
type pred struct {
	Panic     bool   `json:"panic"`
	Mpd       []int  `json:"mpd"`
	Latest    int    `json:"latest"`
	Started   bool   `json:"started"`
	NrTracks  int    `json:"nrTracks"`
	ListedBad bool   `json:"listedBad"`
	Why       string `json:"why"`
}

type history struct {
	ID     string   `json:"id"`
	Class  string   `json:"class"`
	Src    string   `json:"src"` // tlc | seed
	Tracks []string `json:"tracks"`
	First  []string `json:"first"` // tracks whose init segment is uploaded before any media, in this order
	Tsbd   int      `json:"tsbd"`
	Order  []upl    `json:"order"`
	Shift  shift    `json:"shift"`
	Pred   *pred    `json:"pred,omitempty"`
}

type genLine struct {
	W         int      `json:"w"`
	Order     []upl    `json:"order"`
	Panic     bool     `json:"panic"`
	Mpd       []int    `json:"mpd"`
	Latest    int      `json:"latest"`
	Started   bool     `json:"started"`
	NrTracks  int      `json:"nrTracks"`
	ListedBad bool     `json:"listedBad"`
	Tracks    []string `json:"tracks"`
	Shift     shift    `json:"shift"`
}

const segSeconds = 2 // testpic_2s

func tsbdForWindow(w int) int { return (w - 1) * segSeconds }

// classify a history by what its upload order contains (per-track deviations from 1,2,3,...)
func classify(h *history, window int) string {
	feat := map[string]bool{}
	last := map[string]int{}
	seen := map[string]map[int]bool{}
	maxAll := 0
	for _, u := range h.Order {
		if u.N == 0 {
			feat["late"] = true
			continue
		}
		if u.A != 0 {
			feat["abort"] = true
			continue
		}
		if seen[u.T] == nil {
			seen[u.T] = map[int]bool{}
		}
		switch {
		case seen[u.T][u.N]:
			feat["dup"] = true
		case u.N < last[u.T]:
			feat["transp"] = true
		case last[u.T] != 0 && u.N > last[u.T]+1:
			feat["gap"] = true
		}
		if maxAll != 0 && u.N >= maxAll+window {
			feat["jump"] = true
		}
		seen[u.T][u.N] = true
		if u.N > last[u.T] {
			last[u.T] = u.N
		}
		if u.N > maxAll {
			maxAll = u.N
		}
	}
	if len(feat) == 0 {
		return "plain"
	}
	var fs []string
	for f := range feat {
		fs = append(fs, f)
	}
	sort.Strings(fs)
	return strings.Join(fs, "+")
}

func canonTracks(set map[string]bool) []string {
	var res []string
	for _, t := range []string{"V1", "V2", "V3", "A1", "A2"} {
		if set[t] {
			res = append(res, t)
		}
	}
	return res
}

func fromGen(g genLine, id string) history {
	h := history{ID: id, Src: "tlc", Tsbd: tsbdForWindow(g.W), Order: g.Order, Shift: g.Shift}
	late := map[string]bool{}
	set := map[string]bool{}
	for _, u := range g.Order {
		set[u.T] = true
		if u.N == 0 {
			late[u.T] = true
		}
	}
	for _, t := range g.Tracks {
		set[t] = true
	}
	h.Tracks = canonTracks(set)
	for _, t := range g.Tracks { // registration order of the model; late tracks are registered by their own upload
		if !late[t] {
			h.First = append(h.First, t)
		}
	}
	if g.Mpd == nil {
		g.Mpd = []int{}
	}
	h.Pred = &pred{Panic: g.Panic, Mpd: g.Mpd, Latest: g.Latest, Started: g.Started, NrTracks: g.NrTracks, ListedBad: g.ListedBad}
	normalize(&h)
	h.Class = classify(&h, g.W)
	if !h.Shift.none() {
		h.Class += "+shiftcfg"
	}
	return h
}

type stats struct {
	Scenarios, Events, Crashes, FidelityMismatch, FidelityCompared int
	MpdNeverPublished, Started, Publications, PollReads, PollBad   int
	ListedRanges, Rejected, Uploads                                int
	ByClass                                                        map[string]int
	CrashFns                                                       map[string]int
	distinct                                                       map[string]bool
	samples                                                        []string
}

// Main is the entry point of harness/cmd/c17.
func Main(args []string) error {
	fs := flag.NewFlagSet("c17", flag.ContinueOnError)
	out := fs.String("out", "c17.ndjson", "trace output")
	gen := fs.String("gen", "", "jsonl of explorer behaviours (GEN lines of ReceiverImpl)")
	seed := fs.Int64("seed", 1, "seed of the sampled histories")
	n := fs.Int("n", 100, "number of seeded histories generated by the driver")
	par := fs.Int("par", 4, "child processes run in parallel")
	tmp := fs.String("tmp", "", "scratch directory for storage trees and part files")
	asset := fs.String("asset", "", "VoD asset directory (default $VERIF_REPO/cmd/livesim2/app/testdata/assets/testpic_2s)")
	plan := fs.String("plan", "", "only write the histories that would be run (ndjson: id, w, first, order) to this file")
	predf := fs.String("pred", "", "jsonl of explorer predictions (PRED lines of ReceiverReplay) for the histories, by id")
	child := fs.String("child", "", "(internal) batch file to run in this process")
	part := fs.String("part", "", "(internal) part file of the child")
	from := fs.Int("from", 0, "(internal) first history of the batch to run")
	if err := fs.Parse(args); err != nil {
		return err
	}
	if *asset == "" {
		repo := os.Getenv("VERIF_REPO")
		if repo == "" {
			repo = "/repo"
		}
		*asset = filepath.Join(repo, "cmd/livesim2/app/testdata/assets/testpic_2s")
	}
	if *tmp == "" {
		d, err := os.MkdirTemp("", "c17-")
		if err != nil {
			return err
		}
		defer os.RemoveAll(d)
		*tmp = d
	}
	if err := os.MkdirAll(*tmp, 0o755); err != nil {
		return err
	}
	lib, err := loadLib(*asset)
	if err != nil {
		return fmt.Errorf("asset: %w", err)
	}
	if *child != "" {
		return childMain(lib, *child, *part, *from, *tmp)
	}

	var hs []history
	if *gen != "" {
		f, err := os.Open(*gen)
		if err != nil {
			return err
		}
		sc := bufio.NewScanner(f)
		sc.Buffer(make([]byte, 1<<20), 1<<24)
		i := 0
		for sc.Scan() {
			if len(bytes.TrimSpace(sc.Bytes())) == 0 {
				continue
			}
			var g genLine
			if err := json.Unmarshal(sc.Bytes(), &g); err != nil {
				return fmt.Errorf("gen line %d: %w", i+1, err)
			}
			i++
			hs = append(hs, fromGen(g, fmt.Sprintf("g%d", i)))
		}
		f.Close()
	}
	hs = append(hs, seededHistories(*seed, *n)...)
	if len(hs) == 0 {
		return errors.New("no histories")
	}
	if *plan != "" {
		pf, err := os.Create(*plan)
		if err != nil {
			return err
		}
		for _, h := range hs {
			line, _ := json.Marshal(map[string]any{"id": h.ID, "w": h.Tsbd/segSeconds + 1, "first": h.First, "order": h.Order})
			pf.Write(append(line, '\n'))
		}
		if err := pf.Close(); err != nil {
			return err
		}
		tr.PrintStats(map[string]any{"scenarios": len(hs), "events": 0, "distinct": 0, "samples": []string{}, "planned": len(hs)})
		return nil
	}
	if *predf != "" {
		data, err := os.ReadFile(*predf)
		if err != nil {
			return err
		}
		byID := map[string]*pred{}
		for _, line := range bytes.Split(data, []byte{'\n'}) {
			if len(bytes.TrimSpace(line)) == 0 {
				continue
			}
			var p struct {
				ID string `json:"id"`
				pred
			}
			if err := json.Unmarshal(line, &p); err != nil {
				return fmt.Errorf("pred: %w", err)
			}
			pp := p.pred
			if pp.Mpd == nil {
				pp.Mpd = []int{}
			}
			byID[p.ID] = &pp
		}
		for i := range hs {
			if p, ok := byID[hs[i].ID]; ok {
				hs[i].Pred = p
			}
		}
	}

	// split into contiguous batches, one worker per batch
	st := &stats{ByClass: map[string]int{}, CrashFns: map[string]int{}, distinct: map[string]bool{}}
	if *par < 1 {
		*par = 1
	}
	nb := *par
	if nb > len(hs) {
		nb = len(hs)
	}
	parts := make([][]byte, nb)
	errs := make([]error, nb)
	var wg sync.WaitGroup
	for b := 0; b < nb; b++ {
		lo, hi := b*len(hs)/nb, (b+1)*len(hs)/nb
		wg.Add(1)
		go func(b int, batch []history) {
			defer wg.Done()
			parts[b], errs[b] = runBatch(lib, batch, filepath.Join(*tmp, fmt.Sprintf("b%d", b)))
		}(b, hs[lo:hi])
	}
	wg.Wait()
	for _, e := range errs {
		if e != nil {
			return e
		}
	}
	of, err := os.Create(*out)
	if err != nil {
		return err
	}
	for b := range parts {
		if _, err := of.Write(parts[b]); err != nil {
			return err
		}
		tally(st, parts[b])
	}
	if err := of.Close(); err != nil {
		return err
	}
	for _, h := range hs {
		st.ByClass[h.Class]++
		sig := fmt.Sprintf("%d|%v|%v|%v", h.Tsbd, h.First, h.Order, h.Shift)
		st.distinct[sig] = true
		if len(st.samples) < 8 && (len(st.samples) == 0 || h.Class != "plain") {
			st.samples = append(st.samples, fmt.Sprintf("%s class=%s tsbd=%d first=%v order=%s", h.ID, h.Class, h.Tsbd, h.First, orderStr(h.Order)))
		}
	}
	tr.PrintStats(map[string]any{
		"scenarios": st.Scenarios, "events": st.Events, "distinct": len(st.distinct), "samples": st.samples,
		"crashes": st.Crashes, "crash_fns": st.CrashFns, "mpd_never_published": st.MpdNeverPublished,
		"histories_started": st.Started, "publications": st.Publications, "poll_reads": st.PollReads,
		"poll_bad": st.PollBad, "by_class": st.ByClass, "uploads": st.Uploads, "rejected_uploads": st.Rejected,
		"tlc_histories": countSrc(hs, "tlc"), "seeded_histories": countSrc(hs, "seed"),
	})
	return nil
}

func countSrc(hs []history, src string) int {
	n := 0
	for _, h := range hs {
		if h.Src == src {
			n++
		}
	}
	return n
}

func orderStr(o []upl) string {
	var sb strings.Builder
	for i, u := range o {
		if i > 0 {
			sb.WriteByte(' ')
		}
		if u.N == 0 {
			fmt.Fprintf(&sb, "%s:init", u.T)
		} else {
			fmt.Fprintf(&sb, "%s:%d", u.T, u.N)
			if u.F > 1 {
				fmt.Fprintf(&sb, "/%d", u.F)
			}
			if u.A != 0 {
				sb.WriteString([]string{"", "!early", "!late"}[u.A])
			}
		}
	}
	return sb.String()
}

// tally derives the statistics from the recorded events (measured, not counted on the side).
func tally(st *stats, data []byte) {
	type upEv struct {
		Ev     string `json:"ev"`
		Kind   string `json:"kind"`
		Status int    `json:"status"`
		Fn     string `json:"fn"`
		Caller string `json:"caller"`
		Reads  int    `json:"reads"`
		Bad    int    `json:"bad"`
		Mpd    struct {
			State string `json:"state"`
		} `json:"mpd"`
		Hook struct {
			Have   bool `json:"have"`
			MaxBuf int  `json:"maxBuf"`
		} `json:"hook"`
	}
	started, published, open := false, false, false
	closeH := func(crashed bool) {
		if !open {
			return
		}
		if started {
			st.Started++
		}
		if !published && !crashed {
			st.MpdNeverPublished++
		}
		open = false
	}
	for len(data) > 0 {
		nl := bytes.IndexByte(data, '\n')
		if nl < 0 {
			break
		}
		var e upEv
		_ = json.Unmarshal(data[:nl], &e)
		data = data[nl+1:]
		st.Events++
		switch e.Ev {
		case "hdr":
			closeH(false)
			st.Scenarios++
			started, published, open = false, false, true
		case "up":
			st.Uploads++
			if e.Status != 200 {
				st.Rejected++
			}
			if e.Mpd.State == "new" {
				st.Publications++
			}
			if e.Mpd.State != "absent" {
				published = true
			}
			if e.Hook.Have && e.Hook.MaxBuf > 0 {
				started = true
			}
		case "poll":
			st.PollReads += e.Reads
			st.PollBad += e.Bad
		case "crash":
			st.Crashes++
			st.CrashFns[e.Fn+"<-"+e.Caller]++
			closeH(true)
		case "end":
			closeH(false)
		}
	}
	closeH(false)
}

// child exit codes
const (
	exitAbort = 7 // an upload was not answered / not processed in time: the history was abandoned
)

var panicRe = regexp.MustCompile(`(?m)^panic: (.*)$`)
var frameRe = regexp.MustCompile(`(?m)^github\.com/Dash-Industry-Forum/livesim2/cmd/cmaf-ingest-receiver/app\.(\S+?)\(`)

// runBatch runs the histories of one batch in child processes, restarting after every crash.
func runBatch(lib *segLib, batch []history, dir string) ([]byte, error) {
	if err := os.MkdirAll(dir, 0o755); err != nil {
		return nil, err
	}
	bf := filepath.Join(dir, "batch.json")
	data, _ := json.Marshal(batch)
	if err := os.WriteFile(bf, data, 0o644); err != nil {
		return nil, err
	}
	var out bytes.Buffer
	from := 0
	round := 0
	for from < len(batch) {
		round++
		part := filepath.Join(dir, fmt.Sprintf("part%d.ndjson", round))
		_ = os.Remove(part + ".last")
		_ = os.Remove(part + ".cur")
		_ = os.Remove(part)
		var stderr bytes.Buffer
		var err error
		for attempt := 0; ; attempt++ {
			cmd := exec.Command(os.Args[0], "-child", bf, "-part", part, "-from", fmt.Sprint(from), "-tmp", filepath.Join(dir, "st"))
			stderr.Reset()
			cmd.Stderr = &stderr
			cmd.Stdout = nil
			cmd.Env = os.Environ()
			err = cmd.Run()
			var ee *exec.ExitError
			if err == nil || errors.As(err, &ee) || attempt >= 3 {
				break
			}
			// the child could not be started (fork/exec failure on a loaded machine): try again
			time.Sleep(time.Duration(200*(attempt+1)) * time.Millisecond)
		}
		pdata, _ := os.ReadFile(part)
		// keep complete lines only
		if i := bytes.LastIndexByte(pdata, '\n'); i >= 0 {
			pdata = pdata[:i+1]
		} else {
			pdata = nil
		}
		if err == nil {
			out.Write(pdata)
			break
		}
		var cur struct {
			H, I, N int
			T       string
		}
		cdata, e3 := os.ReadFile(part + ".cur")
		if e3 != nil || json.Unmarshal(cdata, &cur) != nil {
			return nil, fmt.Errorf("child (from=%d round=%d) died before its first upload: %v (cur: %v)\n%s", from, round, err, e3, tail(stderr.String(), 3000))
		}
		var ee *exec.ExitError
		if errors.As(err, &ee) && ee.ExitCode() == exitAbort {
			// the child recorded the unanswered / unprocessed upload itself and gave the history up
			out.Write(pdata)
			from = cur.H + 1
			continue
		}
		m := panicRe.FindStringSubmatch(stderr.String())
		if m == nil {
			return nil, fmt.Errorf("child died without a Go panic message (%v) at history %d upload %d:\n%s", err, cur.H, cur.I, tail(stderr.String(), 3000))
		}
		// the panicking goroutine is printed first: its innermost two frames inside the receiver package
		fn, caller := "(outside receiver)", ""
		stack := stderr.String()[strings.Index(stderr.String(), m[0]):]
		if j := strings.Index(stack, "\n\ngoroutine "); j >= 0 {
			if k := strings.Index(stack[j+2:], "\n\n"); k >= 0 {
				stack = stack[:j+2+k]
			}
		}
		if fms := frameRe.FindAllStringSubmatch(stack, 3); len(fms) > 0 {
			fn = fms[0][1]
			if len(fms) > 1 {
				caller = fms[1][1]
			}
		}
		if fn == "(outside receiver)" || !strings.Contains(stack, "(*channel).receivedSegData") {
			return nil, fmt.Errorf("child panicked outside the receiver's channel goroutine at history %d upload %d:\n%s", cur.H, cur.I, tail(stderr.String(), 3000))
		}
		// Which upload killed the goroutine?  The process hook is deferred in receivedSegData, so it also fires while the
		// goroutine unwinds the panic, and the child records every hook event synchronously (inside the hook) in
		// <part>.last: the last record is the upload whose processing panicked.  (The driver itself may already have
		// moved on - even to the next history - before the process was gone.)
		var last struct {
			H, I, N int
			T       string
		}
		ldata, e4 := os.ReadFile(part + ".last")
		if e4 != nil || json.Unmarshal(bytes.TrimRight(ldata, " \n\x00"), &last) != nil || last.H < from || last.H >= len(batch) {
			return nil, fmt.Errorf("child panicked in the channel goroutine but left no usable hook record (%v): %q\n%s", e4, ldata, tail(stderr.String(), 2000))
		}
		h := batch[last.H]
		// keep the events up to the last `up` of that history; drop its poll/end and everything of later histories
		keep, inH, seenH := 0, false, false
		off := 0
		for off < len(pdata) {
			nl := bytes.IndexByte(pdata[off:], '\n')
			line := pdata[off : off+nl+1]
			var e struct {
				Ev  string `json:"ev"`
				Hid string `json:"hid"`
			}
			_ = json.Unmarshal(line, &e)
			if e.Ev == "hdr" {
				if seenH && e.Hid != h.ID {
					break
				}
				inH = e.Hid == h.ID
				seenH = seenH || inH
			}
			if !seenH || !inH {
				keep = off + nl + 1 // earlier histories: keep everything
			} else if e.Ev == "hdr" || e.Ev == "up" {
				keep = off + nl + 1
			}
			off += nl + 1
		}
		if !seenH {
			return nil, fmt.Errorf("hook record for history %s but no header in the part file", h.ID)
		}
		out.Write(pdata[:keep])
		msg := m[1]
		if len(msg) > 200 {
			msg = msg[:200]
		}
		ce := tr.E{"ev": "crash", "hid": h.ID, "i": last.I, "track": last.T, "n": last.N, "msg": msg, "fn": fn, "caller": caller}
		cb, _ := json.Marshal(ce)
		out.Write(cb)
		out.WriteByte('\n')
		from = last.H + 1
	}
	return out.Bytes(), nil
}

func tail(s string, n int) string {
	if len(s) > n {
		return s[len(s)-n:]
	}
	return s
}

func header(lib *segLib, h *history) tr.E {
	var tracks []map[string]any
	first := map[string]bool{}
	for _, t := range h.First {
		first[t] = true
	}
	for _, t := range h.Tracks {
		tracks = append(tracks, map[string]any{"name": t, "ts": lib.timescale(t), "late": !first[t]})
	}
	mts := lib.timescale("V1")
	mdur := lib.masterDur()
	window := h.Tsbd*mts/mdur + 1
	return tr.E{"ev": "hdr", "hid": h.ID, "class": h.Class, "src": h.Src, "tsbd": h.Tsbd, "masterTs": mts, "masterDur": mdur,
		"window": window, "maxBuf": window + 1, "initWindow": 8, "unshifted": h.Shift.none(), "shift": h.Shift, "tracks": tracks,
		"names": h.Tracks, "nUploads": len(h.Order), "order": orderStr(h.Order)}
}

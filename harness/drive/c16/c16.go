// Package c16 drives the real CMAF-ingest sender of livesim2 (cmd/livesim2/app: cmafIngesterMgr,
// REST API under /api/cmaf-ingests) against a scripted receiving HTTP server and records
// the receiver's request log plus the call/return events of the REST calls (property C16).
//
// One scenario = one fresh app.Server (own ingester manager) + one receiver + 1..3 sessions +
// 1..n API clients that execute their scripts sequentially (clients run concurrently).
// Ground truth (HACKING rule 2): representation lists, content types, segment durations and
// time scales come from tables in this file / an independent mp4ff parse of the VoD files; numbers
// and times of the received bodies come from an independent mp4ff parse of the bodies; the
// reference digest is livesim2's own HTTP response for the same segment URL (that is what the
// property compares with).
package c16

import (
	"bufio"
	"bytes"
	"context"
	"crypto/sha256"
	"encoding/base64"
	"encoding/binary"
	"encoding/hex"
	"encoding/json"
	"flag"
	"fmt"
	"io"
	"math/rand"
	"net/http"
	"net/http/httptest"
	"os"
	"os/exec"
	"path/filepath"
	"regexp"
	"sort"
	"strconv"
	"strings"
	"sync"
	"time"

	"github.com/Dash-Industry-Forum/livesim2/cmd/livesim2/app"
	"github.com/Dash-Industry-Forum/livesim2/pkg/logging"
	"github.com/Eyevinn/dash-mpd/mpd"
	"github.com/Eyevinn/mp4ff/mp4"

	"verifharness/tr"
)

// ---------------------------------------------------------------- asset tables (ground truth)

type repInfo struct {
	ID      string `json:"id"`
	CT      string `json:"ct"`      // video | audio | text
	TS      int    `json:"ts"`      // media timescale
	TOffMax int    `json:"toffmax"` // max (tfdt - nr*segTicks): 0 for video/text, one frame - 1 for audio
	vodInit string // file below the VoD root ("" = generated)
}

type variant struct {
	name       string
	prefix     string // URL part between /livesim2 and the asset
	asset      string
	mpd        string
	segDurMS   int    // nominal (average) segment duration
	durs       []int  // segment durations (ms) of the reference (video) track over one loop; nil = uniform segDurMS
	mode       string // number | time
	chunked    bool
	nonUniform bool
	reps       []repInfo
}

// startMS is the start of segment n (numbers from 0, wrapping with the loop) on the reference timeline.
func (v *variant) startMS(n int64) int64 {
	L := int64(len(v.durs))
	loop := int64(0)
	for _, d := range v.durs {
		loop += int64(d)
	}
	w, k := n/L, n%L
	t := w * loop
	for i := int64(0); i < k; i++ {
		t += int64(v.durs[i])
	}
	return t
}

func (v *variant) endMS(n int64) int64 { return v.startMS(n + 1) }

// firstNr: number after the newest segment that has fully ended at t (driver side: only used for real-time bounds).
func (v *variant) firstNr(t int64) int64 {
	n := int64(0)
	loop := v.startMS(int64(len(v.durs)))
	n = (t / loop) * int64(len(v.durs))
	for v.endMS(n) <= t {
		n++
	}
	return n
}

func (v *variant) minDur() int {
	m := v.durs[0]
	for _, d := range v.durs {
		if d < m {
			m = d
		}
	}
	return m
}

// readDurs: segment durations of the video track from the SegmentTimeline of the VoD MPD (independent parse).
func readDurs(asset, mpdName string) ([]int, error) {
	mp, err := mpd.ReadFromFile(filepath.Join(vodRoot, asset, mpdName))
	if err != nil {
		return nil, err
	}
	for _, as := range mp.Periods[0].AdaptationSets {
		if string(as.ContentType) != "video" || as.SegmentTemplate == nil || as.SegmentTemplate.SegmentTimeline == nil {
			continue
		}
		ts := int(as.SegmentTemplate.GetTimescale())
		durs := []int{}
		for _, s := range as.SegmentTemplate.SegmentTimeline.S {
			for i := 0; i <= int(s.R); i++ {
				if int(s.D)*1000%ts != 0 {
					return nil, fmt.Errorf("segment duration %d/%d is not a whole number of ms", s.D, ts)
				}
				durs = append(durs, int(s.D)*1000/ts)
			}
		}
		return durs, nil
	}
	return nil, fmt.Errorf("no video SegmentTimeline in %s/%s", asset, mpdName)
}

func baseReps(asset string) []repInfo {
	return []repInfo{{ID: "V300", CT: "video", vodInit: asset + "/V300/init.mp4"}, {ID: "A48", CT: "audio", vodInit: asset + "/A48/init.mp4"}}
}

func genSubs(ids ...string) []repInfo {
	r := []repInfo{}
	for _, id := range ids {
		r = append(r, repInfo{ID: id, CT: "text", TS: 1000})
	}
	return r
}

func variants() []variant {
	t2 := "testpic_2s"
	return []variant{
		{name: "number", prefix: "", asset: t2, mpd: "Manifest.mpd", segDurMS: 2000, mode: "number", reps: baseReps(t2)},
		{name: "timeline", prefix: "/segtimeline_1", asset: t2, mpd: "Manifest.mpd", segDurMS: 2000, mode: "time", reps: baseReps(t2)},
		{name: "timelinenr", prefix: "/segtimelinenr_1", asset: t2, mpd: "Manifest.mpd", segDurMS: 2000, mode: "number", reps: baseReps(t2)},
		{name: "stpp", prefix: "/timesubsstpp_en,sv", asset: t2, mpd: "Manifest.mpd", segDurMS: 2000, mode: "number",
			reps: append(baseReps(t2), genSubs("timestpp-en", "timestpp-sv")...)},
		{name: "wvtt", prefix: "/timesubswvtt_en", asset: t2, mpd: "Manifest.mpd", segDurMS: 2000, mode: "number",
			reps: append(baseReps(t2), genSubs("timewvtt-en")...)},
		{name: "timeline+stpp", prefix: "/segtimeline_1/timesubsstpp_en", asset: t2, mpd: "Manifest.mpd", segDurMS: 2000, mode: "time",
			reps: append(baseReps(t2), genSubs("timestpp-en")...)},
		{name: "imsc1", prefix: "", asset: t2, mpd: "Manifest_imsc1.mpd", segDurMS: 2000, mode: "number",
			reps: append(baseReps(t2), repInfo{ID: "imsc1_img_en", CT: "text", vodInit: t2 + "/imsc1_img_en/init.mp4"},
				repInfo{ID: "imsc1_txt_sv", CT: "text", vodInit: t2 + "/imsc1_txt_sv/init.mp4"})},
		{name: "number8s", prefix: "", asset: "testpic_8s", mpd: "Manifest.mpd", segDurMS: 8000, mode: "number", reps: baseReps("testpic_8s")},
		{name: "timeline8s", prefix: "/segtimeline_1", asset: "testpic_8s", mpd: "Manifest.mpd", segDurMS: 8000, mode: "time", reps: baseReps("testpic_8s")},
		// low latency: chunked transfer encoding, one step takes about one second of wall time
		{name: "chunked", prefix: "/segtimeline_1/ato_1/chunkdur_1000", asset: t2, mpd: "Manifest.mpd", segDurMS: 2000, mode: "time", chunked: true, reps: baseReps(t2)},
		// non-uniform segment durations (4 s / 8 s alternating, VoD MPD is $Time$ addressed); durs are read from the VoD MPD
		{name: "altnumber", prefix: "", asset: "testpic_alt_seg_dur_stl", mpd: "Manifest.mpd", segDurMS: 6000, mode: "number", nonUniform: true,
			reps: baseReps("testpic_alt_seg_dur_stl")},
		{name: "alttimeline", prefix: "/segtimeline_1", asset: "testpic_alt_seg_dur_stl", mpd: "Manifest.mpd", segDurMS: 6000, mode: "time", nonUniform: true,
			reps: baseReps("testpic_alt_seg_dur_stl")},
		{name: "chunkednr", prefix: "/ato_1/chunkdur_1000", asset: t2, mpd: "Manifest.mpd", segDurMS: 2000, mode: "number", chunked: true, reps: baseReps(t2)},
	}
}

var vodRoot string

// fillRepConstants reads the time scale (and the audio frame duration) from the VoD files.
func fillRepConstants(v *variant) error {
	if v.nonUniform {
		d, err := readDurs(v.asset, v.mpd)
		if err != nil {
			return err
		}
		v.durs = d
	} else {
		v.durs = []int{v.segDurMS}
	}
	for i := range v.reps {
		r := &v.reps[i]
		if r.vodInit != "" {
			data, err := os.ReadFile(filepath.Join(vodRoot, r.vodInit))
			if err != nil {
				return err
			}
			f, err := mp4.DecodeFile(bytes.NewReader(data))
			if err != nil || f.Init == nil {
				return fmt.Errorf("parse %s: %v", r.vodInit, err)
			}
			r.TS = int(f.Init.Moov.Trak.Mdia.Mdhd.Timescale)
			if r.CT == "audio" {
				// frame duration from the first VoD segment
				segs, _ := filepath.Glob(filepath.Join(vodRoot, filepath.Dir(r.vodInit), "*.m4s"))
				if len(segs) == 0 {
					return fmt.Errorf("no VoD segment for %s", r.vodInit)
				}
				sort.Strings(segs)
				seg, err := os.ReadFile(segs[0])
				if err != nil {
					return err
				}
				sf, err := mp4.DecodeFile(bytes.NewReader(seg))
				if err != nil || len(sf.Segments) == 0 {
					return fmt.Errorf("parse audio segment: %v", err)
				}
				fs, err := sf.Segments[0].Fragments[0].GetFullSamples(f.Init.Moov.Mvex.Trex)
				if err != nil || len(fs) == 0 {
					return fmt.Errorf("audio samples: %v", err)
				}
				r.TOffMax = int(fs[0].Dur) - 1
			}
		}
	}
	return nil
}

// ---------------------------------------------------------------- scenario description

type sessCfg struct {
	V       variant
	Streams bool
	User    string
	Pass    string
	Dur     int // seconds, -1 = none
	NowMS   int // -1 = real time
}

type op struct {
	Op string // step | delete | get | sleep
	S  int    // session index (1-based)
	MS int    // sleep
}

type scenario struct {
	Desc    string
	Sess    []sessCfg
	Clients [][]op
	Recv    map[string]string // "s/rep/k" -> e500 | e403 | slow   (k = 0 init, k >= 1 k-th media request)
	Gen     *genItem
	// ConcCreate: the POSTs that create the sessions are issued concurrently (concurrent API calls)
	ConcCreate bool
}

type genItem struct {
	Script map[string][][]any `json:"script"`
	Errs   [][]any            `json:"errs"`
	NSeg   int                `json:"nseg"`
	Outs   []genOut           `json:"outs"`
}

type genOut struct {
	Media []map[string]int `json:"media"`
	Rets  map[string]int   `json:"rets"`
}

// ---------------------------------------------------------------- recorder (per scenario)

type recorder struct {
	mu     sync.Mutex
	events []tr.E
}

func (r *recorder) emit(e tr.E) tr.E {
	r.mu.Lock()
	r.events = append(r.events, e)
	r.mu.Unlock()
	return e
}

func (r *recorder) patch(e tr.E, kv tr.E) {
	r.mu.Lock()
	for k, v := range kv {
		e[k] = v
	}
	r.mu.Unlock()
}

type run struct {
	sc        *scenario
	idx       int
	rec       recorder
	srv       *app.Server
	recv      *httptest.Server
	bound     time.Duration
	mu        sync.Mutex
	k         int
	perRep    map[string]int // "s/rep" -> requests started
	mediaEnds map[string]int // "s/rep" -> media requests completely received
	active    int
	reqs      []*reqInfo
	ids       map[int]string // session index -> API id
	firstSeen map[int]int64  // session -> wall ms of first media request (real time sessions)
	stuck     int
	rets      map[int]int
	closed    bool
}

type reqInfo struct {
	ev   tr.E
	s    int
	rep  string
	kind string
	nr   int64
	tfdt int64
	body []byte
}

var (
	reInit    = regexp.MustCompile(`^([^/()]+)/init(\.[a-z0-9]+)$`)
	reNum     = regexp.MustCompile(`^([^/()]+)/(\d+)(\.[a-z0-9]+)$`)
	reStreams = regexp.MustCompile(`^Streams\(([^/()]+?)(\.[a-z0-9]+)\)$`)
)

func clip(v int64) int {
	const lim = 1_000_000_000
	if v > lim {
		return lim
	}
	if v < -lim {
		return -lim
	}
	return int(v)
}

func digest(b []byte) string {
	h := sha256.Sum256(b)
	return hex.EncodeToString(h[:12])
}

// stripLmsg removes the compatible brand "lmsg" from a leading styp box.
func stripLmsg(b []byte) (out []byte, had bool) {
	if len(b) < 16 || string(b[4:8]) != "styp" {
		return b, false
	}
	size := int(binary.BigEndian.Uint32(b[0:4]))
	if size < 16 || size > len(b) || (size-16)%4 != 0 {
		return b, false
	}
	nb := append([]byte{}, b[:16]...)
	for p := 16; p < size; p += 4 {
		if string(b[p:p+4]) == "lmsg" {
			had = true
			continue
		}
		nb = append(nb, b[p:p+4]...)
	}
	if !had {
		return b, false
	}
	binary.BigEndian.PutUint32(nb[0:4], uint32(len(nb)))
	return append(nb, b[size:]...), true
}

type bodyInfo struct {
	kind  string // init | media | bad
	nr    int64
	tfdt  int64
	nfrag int
	lmsg  bool
	isig  string
	seqok bool
}

// parseBody is the independent parse of a received (or served) body.
func parseBody(b []byte) (bi bodyInfo) {
	bi.kind = "bad"
	defer func() {
		if r := recover(); r != nil {
			bi = bodyInfo{kind: "bad"}
		}
	}()
	f, err := mp4.DecodeFile(bytes.NewReader(b))
	if err != nil {
		return
	}
	if f.Init != nil && len(f.Segments) == 0 {
		bi.kind = "init"
		bi.isig = initSig(f.Init)
		return
	}
	if f.Init == nil && len(f.Segments) > 0 {
		bi.seqok = true
		first := true
		for _, s := range f.Segments {
			if s.Styp != nil {
				for _, cb := range s.Styp.CompatibleBrands() {
					if cb == "lmsg" {
						bi.lmsg = true
					}
				}
			}
			for _, fr := range s.Fragments {
				bi.nfrag++
				if fr.Moof == nil || fr.Moof.Mfhd == nil || fr.Moof.Traf == nil || fr.Moof.Traf.Tfdt == nil {
					return bodyInfo{kind: "bad"}
				}
				if first {
					bi.nr = int64(fr.Moof.Mfhd.SequenceNumber)
					bi.tfdt = int64(fr.Moof.Traf.Tfdt.BaseMediaDecodeTime())
					first = false
				} else if int64(fr.Moof.Mfhd.SequenceNumber) != bi.nr {
					bi.seqok = false
				}
			}
		}
		if bi.nfrag > 0 {
			bi.kind = "media"
		}
	}
	return
}

// initSig: track id, media time scale, sample entry type and a digest of the sample entry without
// its size field and without a btrt box (the sender deliberately adds btrt, kind boxes and times).
func initSig(init *mp4.InitSegment) string {
	trak := init.Moov.Trak
	stsd := trak.Mdia.Minf.Stbl.Stsd
	if len(stsd.Children) == 0 {
		return ""
	}
	se := stsd.Children[0]
	var buf bytes.Buffer
	if err := se.Encode(&buf); err != nil {
		return ""
	}
	raw := buf.Bytes()
	pat := []byte{0, 0, 0, 20, 'b', 't', 'r', 't'}
	if i := bytes.Index(raw, pat); i >= 0 && i+20 <= len(raw) {
		raw = append(append([]byte{}, raw[:i]...), raw[i+20:]...)
	}
	if len(raw) < 8 {
		return ""
	}
	return fmt.Sprintf("tid=%d;ts=%d;se=%s;cfg=%s", trak.Tkhd.TrackID, trak.Mdia.Mdhd.Timescale, se.Type(), digest(raw[4:]))
}

func (rn *run) sessOf(name string) int {
	if len(name) >= 2 && name[0] == 's' {
		if n, err := strconv.Atoi(name[1:]); err == nil && n >= 1 && n <= len(rn.sc.Sess) {
			return n
		}
	}
	return 0
}

// ServeHTTP is the scripted receiver.
func (rn *run) ServeHTTP(w http.ResponseWriter, r *http.Request) {
	p := strings.TrimPrefix(r.URL.Path, "/")
	parts := strings.SplitN(p, "/", 2)
	s := rn.sessOf(parts[0])
	rest := ""
	if len(parts) == 2 {
		rest = parts[1]
	}
	form, rep, ext := "other", "?", ""
	var urlnum int64 = -1
	if m := reInit.FindStringSubmatch(rest); m != nil {
		form, rep, ext = "init", m[1], m[2]
	} else if m := reNum.FindStringSubmatch(rest); m != nil {
		form, rep, ext = "num", m[1], m[3]
		urlnum, _ = strconv.ParseInt(m[2], 10, 64)
	} else if m := reStreams.FindStringSubmatch(rest); m != nil {
		form, rep, ext = "streams", m[1], m[2]
	}
	key := fmt.Sprintf("%d/%s", s, rep)
	rn.mu.Lock()
	if rn.closed {
		rn.mu.Unlock()
		w.WriteHeader(http.StatusServiceUnavailable)
		return
	}
	rn.k++
	k := rn.k
	pos := rn.perRep[key] // 0 = first request of the representation (the init segment)
	rn.perRep[key]++
	rn.active++
	te := false
	for _, x := range r.TransferEncoding {
		if x == "chunked" {
			te = true
		}
	}
	ev := tr.E{"ev": "req", "k": k, "s": s, "rep": rep, "method": r.Method, "form": form, "ext": ext,
		"ctype": r.Header.Get("Content-Type"), "ingest": r.Header.Get("DASH-IF-Ingest"), "auth": r.Header.Get("Authorization"),
		"te": te, "kind": "bad", "nr": 0, "toff": 0, "ud": 0, "lmsg": false, "dg": "", "dgx": "", "nfrag": 0, "blen": 0,
		"berr": false, "seqok": true, "status": 0, "refcode": 0, "ref": "", "isig": "", "rsig": "", "path": rest}
	rn.rec.emit(ev)
	ri := &reqInfo{ev: ev, s: s, rep: rep}
	rn.reqs = append(rn.reqs, ri)
	rn.mu.Unlock()

	beh := rn.sc.Recv[fmt.Sprintf("%d/%s/%d", s, rep, pos)]
	if strings.HasPrefix(beh, "slow") {
		ms, _ := strconv.Atoi(strings.TrimPrefix(beh, "slow"))
		if ms == 0 {
			ms = 150
		}
		time.Sleep(time.Duration(ms) * time.Millisecond)
	}
	body, err := io.ReadAll(r.Body)
	bi := parseBody(body)
	dg := digest(body)
	dgx := dg
	if nb, had := stripLmsg(body); had {
		dgx = digest(nb)
	}
	status := http.StatusOK
	switch beh {
	case "e500":
		status = http.StatusInternalServerError
	case "e403":
		status = http.StatusForbidden
	}
	patch := tr.E{"kind": bi.kind, "lmsg": bi.lmsg, "dg": dg, "dgx": dgx, "nfrag": bi.nfrag, "blen": len(body), "berr": err != nil,
		"status": status, "isig": bi.isig, "seqok": bi.seqok || bi.kind != "media"}
	if bi.kind == "media" && s >= 1 {
		sc := rn.sc.Sess[s-1]
		ts := int64(0)
		for _, rinfo := range sc.V.reps {
			if rinfo.ID == rep {
				ts = int64(rinfo.TS)
			}
		}
		patch["nr"] = clip(bi.nr)
		if bi.nr >= 0 && bi.nr < 2_000_000_000 {
			patch["toff"] = clip(bi.tfdt - sc.V.startMS(bi.nr)*ts/1000) // start of segment nr on the reference timeline, in this track's timescale
		}
		if form == "num" {
			if sc.V.mode == "time" {
				patch["ud"] = clip(urlnum - bi.tfdt)
			} else {
				patch["ud"] = clip(urlnum - bi.nr)
			}
		}
	}
	rn.mu.Lock()
	ri.kind, ri.nr, ri.tfdt, ri.body = bi.kind, bi.nr, bi.tfdt, body
	for kk, v := range patch {
		ev[kk] = v
	}
	if bi.kind == "media" {
		rn.mediaEnds[key]++
		if _, ok := rn.firstSeen[s]; !ok {
			rn.firstSeen[s] = time.Now().UnixMilli()
		}
	}
	rn.active--
	rn.rec.emit(tr.E{"ev": "reqend", "k": k, "s": s, "rep": rep, "kind": bi.kind, "status": status})
	rn.mu.Unlock()
	w.WriteHeader(status)
}

// api performs one REST call against the real router; ok=false: it did not return within the bound.
func (rn *run) api(method, path string, body any) (code int, resp string, ok bool) {
	var rd io.Reader
	if body != nil {
		bb, _ := json.Marshal(body)
		rd = bytes.NewReader(bb)
	}
	req := httptest.NewRequest(method, path, rd)
	if body != nil {
		req.Header.Set("Content-Type", "application/json")
	}
	rr := httptest.NewRecorder()
	done := make(chan struct{})
	go func() {
		defer close(done)
		rn.srv.Router.ServeHTTP(rr, req)
	}()
	select {
	case <-done:
		return rr.Code, rr.Body.String(), true
	case <-time.After(rn.bound):
		return 0, "", false
	}
}

func sessEvent(si int, s sessCfg) tr.E {
	reps := []tr.E{}
	for _, r := range s.V.reps {
		reps = append(reps, tr.E{"id": r.ID, "ct": r.CT, "toffmax": r.TOffMax})
	}
	first := 0
	now := s.NowMS
	if s.NowMS >= 0 {
		first = int(s.V.firstNr(int64(s.NowMS))) // informative: FirstNr is recomputed by the trace spec from now / segdurs
	} else {
		now = 0
	}
	return tr.E{"ev": "sess", "s": si, "variant": s.V.name, "reps": reps, "segdurs": s.V.durs, "mode": s.V.mode, "streams": s.Streams,
		"auth": authOf(s.User, s.Pass), "dur": s.Dur, "rt": s.NowMS < 0, "now": now, "firstlo": first, "firsthi": first,
		"chunked": s.V.chunked}
}

func authOf(user, pass string) string {
	if user == "" || pass == "" {
		return ""
	}
	return "Basic " + base64.StdEncoding.EncodeToString([]byte(user+":"+pass))
}

func (rn *run) exec() error {
	sc := rn.sc
	ctx, cancel := context.WithCancel(context.Background())
	defer cancel()
	srv, err := app.SetupServer(ctx, &app.ServerConfig{VodRoot: vodRoot, TimeoutS: 0, LogFormat: logging.LogDiscard, LogLevel: "ERROR",
		RepDataRoot: "+", LiveWindowS: 300})
	if err != nil {
		return fmt.Errorf("SetupServer: %w", err)
	}
	rn.srv = srv
	rn.recv = httptest.NewServer(rn)
	defer func() {
		rn.mu.Lock()
		rn.closed = true
		rn.mu.Unlock()
		rn.recv.CloseClientConnections()
		go rn.recv.Close()
	}()
	rn.rec.emit(tr.E{"ev": "hdr", "desc": sc.Desc, "nsess": len(sc.Sess), "bound": int(rn.bound / time.Millisecond)})
	sessEv := map[int]tr.E{}
	t0 := map[int]int64{}
	var cmu sync.Mutex
	var cwg sync.WaitGroup
	var createErr error
	createStuck := false
	for i, s := range sc.Sess {
		si := i + 1
		ev := sessEvent(si, s)
		sessEv[si] = rn.rec.emit(ev)
		setup := map[string]any{"destRoot": rn.recv.URL, "destName": fmt.Sprintf("s%d", si),
			"livesimURL": "/livesim2" + s.V.prefix + "/" + s.V.asset + "/" + s.V.mpd, "streamsURLs": s.Streams}
		if s.User != "" {
			setup["user"] = s.User
		}
		if s.Pass != "" {
			setup["password"] = s.Pass
		}
		if s.NowMS >= 0 {
			setup["testNowMS"] = s.NowMS
		}
		if s.Dur >= 0 {
			setup["duration"] = s.Dur
		}
		create := func() {
			defer cwg.Done()
			rn.rec.emit(tr.E{"ev": "call", "c": 0, "op": "create", "s": si})
			cmu.Lock()
			t0[si] = time.Now().UnixMilli()
			cmu.Unlock()
			code, resp, ok := rn.api("POST", "/api/cmaf-ingests", setup)
			cmu.Lock()
			defer cmu.Unlock()
			if !ok {
				rn.rec.emit(tr.E{"ev": "stuck", "c": 0, "op": "create", "s": si})
				createStuck = true
				return
			}
			var cr struct {
				ID string `json:"id"`
			}
			_ = json.Unmarshal([]byte(resp), &cr)
			if code != 201 || cr.ID == "" {
				createErr = fmt.Errorf("create session failed: %d %s", code, resp)
				return
			}
			rn.ids[si] = cr.ID
			rn.rec.emit(tr.E{"ev": "ret", "c": 0, "op": "create", "s": si, "code": code})
		}
		cwg.Add(1)
		if sc.ConcCreate {
			go create()
		} else {
			create()
			if createErr != nil || createStuck {
				break
			}
		}
	}
	cwg.Wait()
	if createErr != nil {
		return createErr
	}
	if createStuck {
		return nil
	}
	// clients
	var wg sync.WaitGroup
	served := map[int]int{}
	delCalled := map[int]bool{}
	var smu sync.Mutex
	for ci, script := range sc.Clients {
		wg.Add(1)
		go func(c int, script []op) {
			defer wg.Done()
			for _, o := range script {
				if o.Op == "sleep" {
					time.Sleep(time.Duration(o.MS) * time.Millisecond)
					continue
				}
				id := rn.ids[o.S]
				method, path := "GET", "/api/cmaf-ingests/"+id
				switch o.Op {
				case "step":
					path += "/step"
				case "delete":
					method = "DELETE"
					smu.Lock()
					delCalled[o.S] = true
					smu.Unlock()
				}
				rn.rec.emit(tr.E{"ev": "call", "c": c, "op": o.Op, "s": o.S})
				code, _, ok := rn.api(method, path, nil)
				if !ok {
					rn.rec.emit(tr.E{"ev": "stuck", "c": c, "op": o.Op, "s": o.S})
					rn.mu.Lock()
					rn.stuck++
					rn.mu.Unlock()
					return // the client is blocked in this call (as in the explorer model)
				}
				rn.rec.emit(tr.E{"ev": "ret", "c": c, "op": o.Op, "s": o.S, "code": code})
				smu.Lock()
				if o.Op == "step" && code == 200 && !delCalled[o.S] {
					served[o.S]++
				}
				smu.Unlock()
				rn.mu.Lock()
				rn.rets[c]++
				rn.mu.Unlock()
				if o.Op == "delete" && sc.Sess[o.S-1].NowMS < 0 {
					time.Sleep(1000 * time.Millisecond) // grace for requests already on the wire
					rn.rec.emit(tr.E{"ev": "settle", "s": o.S})
				}
			}
		}(ci+1, script)
	}
	wg.Wait()
	// quiescence: wait (bounded) for what the served steps should deliver; waiting longer never causes an alarm
	deadline := time.Now().Add(10 * time.Second)
	for {
		okAll := true
		rn.mu.Lock()
		if rn.active > 0 {
			okAll = false
		}
		for i, s := range sc.Sess {
			si := i + 1
			if delCalled[si] || s.NowMS < 0 {
				continue
			}
			want := served[si]
			if s.Dur >= 0 {
				nhi := (s.Dur*1000 + s.V.minDur() - 1) / s.V.minDur()
				if want > nhi {
					want = nhi
				}
			}
			initFailed := false
			for _, r := range s.V.reps {
				if b := sc.Recv[fmt.Sprintf("%d/%s/0", si, r.ID)]; b == "e500" || b == "e403" {
					initFailed = true
				}
			}
			if initFailed {
				continue
			}
			for _, r := range s.V.reps {
				if rn.mediaEnds[fmt.Sprintf("%d/%s", si, r.ID)] < want || (sc.ConcCreate && rn.perRep[fmt.Sprintf("%d/%s", si, r.ID)] < 1) {
					okAll = false
				}
			}
		}
		rn.mu.Unlock()
		if okAll || time.Now().After(deadline) {
			break
		}
		time.Sleep(10 * time.Millisecond)
	}
	time.Sleep(120 * time.Millisecond)
	rn.mu.Lock()
	rn.closed = true
	reqs := append([]*reqInfo{}, rn.reqs...)
	rn.mu.Unlock()
	rn.rec.emit(tr.E{"ev": "end"})
	// real-time sessions: the start instant lies between the POST and the first media request
	for i, s := range sc.Sess {
		si := i + 1
		if s.NowMS < 0 {
			lo := s.V.firstNr(t0[si])
			hi := lo
			if fs, ok := rn.firstSeen[si]; ok {
				hi = s.V.firstNr(fs)
			}
			rn.rec.patch(sessEv[si], tr.E{"firstlo": clip(lo), "firsthi": clip(hi)})
		}
	}
	// reference: livesim2's own HTTP response for the same segment
	for _, ri := range reqs {
		if ri.s < 1 {
			continue
		}
		s := sc.Sess[ri.s-1]
		base := "/livesim2" + s.V.prefix + "/" + s.V.asset + "/" + ri.rep + "/"
		var url string
		switch ri.kind {
		case "init":
			url = base + "init.mp4"
		case "media":
			seg := ri.nr
			if s.V.mode == "time" {
				seg = ri.tfdt
			}
			url = fmt.Sprintf("%s%d.m4s", base, seg)
			if s.NowMS >= 0 {
				url += fmt.Sprintf("?nowMS=%d", s.V.endMS(ri.nr)+500)
			}
		default:
			continue
		}
		rr := httptest.NewRecorder()
		srv.Router.ServeHTTP(rr, httptest.NewRequest("GET", url, nil))
		p := tr.E{"refcode": rr.Code}
		if rr.Code == 200 {
			if ri.kind == "media" {
				p["ref"] = digest(rr.Body.Bytes())
			} else {
				p["rsig"] = parseBody(rr.Body.Bytes()).isig
			}
		}
		rn.rec.patch(ri.ev, p)
	}
	return nil
}

// ---------------------------------------------------------------- scenario construction

func pick[T any](rng *rand.Rand, xs []T) T { return xs[rng.Intn(len(xs))] }

func nowFor(rng *rand.Rand, segDurMS int) int {
	// small numbers (32-bit traces): a few segments up to a few hundred, on / next to / between boundaries
	n := 3 + rng.Intn(150)
	switch rng.Intn(4) {
	case 0:
		return n * segDurMS
	case 1:
		return n*segDurMS + segDurMS - 1
	case 2:
		return n*segDurMS + 1
	default:
		return n*segDurMS + rng.Intn(segDurMS)
	}
}

func descOf(sc *scenario) string {
	parts := []string{}
	for _, s := range sc.Sess {
		parts = append(parts, fmt.Sprintf("%s%s%s dur=%d now=%d", s.V.name, map[bool]string{true: "+streams", false: ""}[s.Streams],
			map[bool]string{true: "+auth", false: ""}[s.User != ""], s.Dur, s.NowMS))
	}
	cl := []string{}
	for _, c := range sc.Clients {
		x := []string{}
		for _, o := range c {
			x = append(x, fmt.Sprintf("%s%d", o.Op[:2], o.S))
		}
		cl = append(cl, strings.Join(x, ","))
	}
	rk := []string{}
	for k, v := range sc.Recv {
		rk = append(rk, k+"="+v)
	}
	sort.Strings(rk)
	return strings.Join(parts, " | ") + " :: " + strings.Join(cl, " || ") + " :: " + strings.Join(rk, ",")
}

// fromGen turns one explored script of the explorer model into a scenario (single session, reps v/a = V300/A48).
func fromGen(g *genItem, v variant, rng *rand.Rand, n int) *scenario {
	s := sessCfg{V: v, Streams: n%2 == 1, Dur: -1, NowMS: nowFor(rng, v.segDurMS)}
	if n%3 == 0 {
		s.User, s.Pass = "user", "pw"+strconv.Itoa(n)
	}
	if g.NSeg > 0 {
		s.Dur = g.NSeg * v.segDurMS / 1000
	}
	sc := &scenario{Sess: []sessCfg{s}, Recv: map[string]string{}, Gen: g}
	names := []string{}
	for c := range g.Script {
		names = append(names, c)
	}
	sort.Strings(names)
	for _, c := range names {
		ops := []op{}
		for _, o := range g.Script[c] {
			ops = append(ops, op{Op: o[0].(string), S: int(o[1].(float64))})
		}
		sc.Clients = append(sc.Clients, ops)
	}
	for _, e := range g.Errs {
		rep := map[string]string{"v": "V300", "a": "A48"}[e[1].(string)]
		sc.Recv[fmt.Sprintf("%d/%s/%d", int(e[0].(float64)), rep, int(e[2].(float64)))] = "e500"
	}
	sc.Desc = "gen " + descOf(sc)
	return sc
}

func randomScenario(rng *rand.Rand, vs []variant, n int, allowChunked bool) *scenario {
	sc := &scenario{Recv: map[string]string{}}
	nsess := 1 + rng.Intn(3)
	for i := 0; i < nsess; i++ {
		var v variant
		for {
			v = vs[(n+i*3+rng.Intn(2))%len(vs)]
			if !v.chunked || (allowChunked && i == 0) {
				break
			}
			n++
		}
		s := sessCfg{V: v, Streams: rng.Intn(3) == 0, Dur: -1, NowMS: nowFor(rng, v.segDurMS)}
		if rng.Intn(2) == 0 {
			s.User, s.Pass = "u"+strconv.Itoa(rng.Intn(100)), "p:"+strconv.Itoa(rng.Intn(1000))
		}
		if rng.Intn(2) == 0 {
			s.Dur = pick(rng, []int{2, 4, 7, 10, 1, 3, 16})
		}
		sc.Sess = append(sc.Sess, s)
	}
	for i, s := range sc.Sess {
		si := i + 1
		steps := 1 + rng.Intn(4)
		if s.V.chunked {
			steps = 1 + rng.Intn(2)
		}
		ops := []op{}
		for j := 0; j < steps; j++ {
			ops = append(ops, op{Op: "step", S: si})
			if rng.Intn(6) == 0 {
				ops = append(ops, op{Op: "get", S: si})
			}
		}
		switch rng.Intn(4) {
		case 0: // delete, then one more step (must not deliver; blocks in the code as it is)
			ops = append(ops, op{Op: "delete", S: si}, op{Op: "step", S: si})
		case 1:
			ops = append(ops, op{Op: "delete", S: si})
		}
		sc.Clients = append(sc.Clients, ops)
		// receiver behaviour
		for _, r := range s.V.reps {
			for k := 0; k <= steps; k++ {
				switch x := rng.Intn(24); {
				case x == 0 && k > 0 && !s.V.chunked:
					sc.Recv[fmt.Sprintf("%d/%s/%d", si, r.ID, k)] = pick(rng, []string{"e500", "e403"})
				case x == 1 || x == 2:
					sc.Recv[fmt.Sprintf("%d/%s/%d", si, r.ID, k)] = "slow" + strconv.Itoa(40+rng.Intn(200))
				}
			}
		}
	}
	// a concurrent second client on session 1: steps or a delete racing with the first client
	if rng.Intn(3) == 0 {
		ops := []op{}
		for j := rng.Intn(3); j >= 0; j-- {
			ops = append(ops, op{Op: pick(rng, []string{"step", "step", "get", "delete"}), S: 1})
		}
		sc.Clients = append(sc.Clients, ops)
	}
	sc.Desc = "rnd " + descOf(sc)
	return sc
}

// fixedScenarios: one plain multi-step session per variant and URL style (coverage floor, no stuck calls).
func fixedScenarios(vs []variant, rng *rand.Rand, chunked bool) []*scenario {
	res := []*scenario{}
	for i, v := range vs {
		if v.chunked && !chunked {
			continue
		}
		steps := 3
		if v.chunked {
			steps = 2
		}
		if v.segDurMS > 2000 {
			steps = 2
		}
		if v.nonUniform {
			steps = 4
		}
		for _, streams := range []bool{false, true} {
			if v.chunked && streams {
				continue
			}
			s := sessCfg{V: v, Streams: streams, Dur: -1, NowMS: nowFor(rng, v.segDurMS)}
			if v.nonUniform {
				// start before a short and before a long segment, on and off a boundary
				loop := int(v.startMS(int64(len(v.durs))))
				s.NowMS = (1+rng.Intn(20))*loop + pick(rng, []int{1000, v.durs[0], v.durs[0] + 1, v.durs[0] + 3000, loop - 1, 0})
				if !streams {
					s.NowMS = (1+rng.Intn(20))*loop + 1000 // next segment is a short one, the one after it a long one
				}
			}
			if (i+map[bool]int{true: 1, false: 0}[streams])%2 == 0 {
				s.User, s.Pass = "alice", "s3cret"
			}
			ops := []op{}
			for j := 0; j < steps; j++ {
				ops = append(ops, op{Op: "step", S: 1})
			}
			// let the last step's uploads finish before the DELETE (DELETE racing with uploads is covered by the random scenarios)
			settle := 300
			if v.chunked {
				settle = 1500
			}
			ops = append(ops, op{Op: "get", S: 1}, op{Op: "sleep", MS: settle}, op{Op: "delete", S: 1})
			sc := &scenario{Sess: []sessCfg{s}, Clients: [][]op{ops}, Recv: map[string]string{}}
			sc.Desc = "fix " + descOf(sc)
			res = append(res, sc)
		}
	}
	// durations: exactly divisible (2 s segments: 2, 4, 10 s) and not (7 s, 1 s); enough steps to pass the end
	for i, d := range []int{2, 4, 7, 10, 1} {
		v := vs[i%3]
		s := sessCfg{V: v, Streams: i%2 == 1, Dur: d, NowMS: nowFor(rng, v.segDurMS)}
		n := (d*1000+v.segDurMS-1)/v.segDurMS + 2
		ops := []op{}
		for j := 0; j < n; j++ {
			ops = append(ops, op{Op: "step", S: 1})
		}
		sc := &scenario{Sess: []sessCfg{s}, Clients: [][]op{ops}, Recv: map[string]string{}}
		sc.Desc = "fixdur " + descOf(sc)
		res = append(res, sc)
	}
	return res
}

// realtimeScenarios (thorough): timer driven sessions on the wall clock.
func realtimeScenarios(vs []variant) []*scenario {
	byName := map[string]variant{}
	for _, v := range vs {
		byName[v.name] = v
	}
	mk := func(v variant, dur int, streams bool, sleepMS int, del bool) *scenario {
		s := sessCfg{V: v, Streams: streams, Dur: dur, NowMS: -1, User: "rt", Pass: "pw"}
		ops := []op{{Op: "sleep", MS: sleepMS}}
		if del {
			ops = append(ops, op{Op: "delete", S: 1}, op{Op: "sleep", MS: 2500})
		}
		sc := &scenario{Sess: []sessCfg{s}, Clients: [][]op{ops}, Recv: map[string]string{}}
		sc.Desc = "rt " + descOf(sc)
		return sc
	}
	return []*scenario{
		mk(byName["number"], 4, false, 10500, false),
		mk(byName["timeline"], -1, true, 5000, true),
		mk(byName["chunked"], 4, false, 10500, false),
		mk(byName["chunkednr"], -1, false, 5000, true),
	}
}

// ---------------------------------------------------------------- main

func Main(args []string) error {
	fs := flag.NewFlagSet("c16", flag.ExitOnError)
	out := fs.String("out", "c16.ndjson", "trace output")
	gen := fs.String("gen", "", "file with explorer scripts (one JSON object per line: script, errs, nseg, outs)")
	seed := fs.Int64("seed", 1, "seed")
	ngen := fs.Int("ngen", 40, "number of explorer scripts to replay (0 = all)")
	nrnd := fs.Int("n", 16, "number of random scenarios")
	par := fs.Int("par", 12, "scenarios in parallel")
	bound := fs.Int("stuckms", 3000, "an API call that has not returned after this many ms is recorded as stuck")
	chunked := fs.Bool("chunked", true, "include chunked (low-latency) step-mode scenarios")
	chunkerr := fs.Bool("chunkerr", true, "include the chunked session with a receiver answering 5xx")
	nconc := fs.Int("nconc", 4, "number of scenarios with 64 concurrently created sessions")
	rt := fs.Bool("realtime", false, "include real-time sessions (about 12 s)")
	only := fs.String("only", "", "run only scenarios whose description contains this string")
	verbose := fs.Bool("v", false, "print scenario descriptions")
	worker := fs.Int("worker", -1, "internal: run only scenario i in this process")
	_ = fs.Parse(args)

	repo := os.Getenv("VERIF_REPO")
	if repo == "" {
		repo = "/repo"
	}
	vodRoot = filepath.Join(repo, "cmd/livesim2/app/testdata/assets")
	if err := logging.InitSlog("ERROR", logging.LogDiscard); err != nil {
		return err
	}
	vs := variants()
	for i := range vs {
		if err := fillRepConstants(&vs[i]); err != nil {
			return err
		}
	}
	rng := rand.New(rand.NewSource(*seed))
	scens := fixedScenarios(vs, rng, *chunked)
	// explorer scripts
	nGenTotal := 0
	if *gen != "" {
		data, err := os.ReadFile(*gen)
		if err != nil {
			return err
		}
		items := []*genItem{}
		for _, line := range strings.Split(string(data), "\n") {
			if strings.TrimSpace(line) == "" {
				continue
			}
			g := &genItem{}
			if err := json.Unmarshal([]byte(line), g); err != nil {
				return fmt.Errorf("gen: %w", err)
			}
			items = append(items, g)
		}
		nGenTotal = len(items)
		rng.Shuffle(len(items), func(i, j int) { items[i], items[j] = items[j], items[i] })
		if *ngen > 0 && len(items) > *ngen {
			items = items[:*ngen]
		}
		nonChunked := []variant{}
		for _, v := range vs {
			// timeline+stpp is left to the fixed / random scenarios (it kills the process in the code as it is)
			if !v.chunked && v.segDurMS == 2000 && v.name != "timeline+stpp" {
				nonChunked = append(nonChunked, v)
			}
		}
		for i, g := range items {
			scens = append(scens, fromGen(g, nonChunked[i%len(nonChunked)], rng, i))
		}
	}
	for i := 0; i < *nrnd; i++ {
		scens = append(scens, randomScenario(rng, vs, i, *chunked && i%6 == 0))
	}
	if *chunkerr {
		// chunked session whose receiver answers one media request with 5xx, then another step
		var cv variant
		for _, v := range vs {
			if v.name == "chunkednr" {
				cv = v
			}
		}
		sc := &scenario{Sess: []sessCfg{{V: cv, Dur: -1, NowMS: nowFor(rng, 2000)}},
			Clients: [][]op{{{Op: "step", S: 1}, {Op: "step", S: 1}}}, Recv: map[string]string{"1/A48/1": "e500"}}
		sc.Desc = "chunkerr " + descOf(sc)
		scens = append(scens, sc)
	}
	for i := 0; i < *nconc; i++ {
		// 64 sessions created by concurrent POSTs, then one step for the first six
		sc := &scenario{Recv: map[string]string{}, ConcCreate: true}
		ops := []op{}
		for j := 0; j < 64; j++ {
			v := vs[(i+j)%3]
			sc.Sess = append(sc.Sess, sessCfg{V: v, Streams: j%2 == 0, Dur: -1, NowMS: nowFor(rng, v.segDurMS)})
			if j < 6 {
				ops = append(ops, op{Op: "step", S: j + 1})
			}
		}
		sc.Clients = [][]op{ops}
		sc.Desc = fmt.Sprintf("conccreate %d x64 number/timeline/timelinenr", i)
		scens = append(scens, sc)
	}
	if *rt {
		scens = append(scens, realtimeScenarios(vs)...)
	}
	if *only != "" {
		f := []*scenario{}
		for _, s := range scens {
			if strings.Contains(s.Desc, *only) {
				f = append(f, s)
			}
		}
		scens = f
	}

	if *worker >= 0 {
		return runWorker(scens, *worker, *out, time.Duration(*bound)*time.Millisecond)
	}
	return runParent(args, scens, *out, *par, nGenTotal, *verbose)
}

type workerResult struct {
	Stuck int            `json:"stuck"`
	Rets  map[string]int `json:"rets"`
	Media map[string]int `json:"media"`
}

// runWorker runs ONE scenario in this process (a panic in a goroutine of the code under test kills
// only this process) and writes its events to out.
func runWorker(scens []*scenario, i int, out string, bound time.Duration) error {
	if i >= len(scens) {
		return fmt.Errorf("no scenario %d", i)
	}
	sc := scens[i]
	rn := &run{sc: sc, idx: i + 1, bound: bound, perRep: map[string]int{}, mediaEnds: map[string]int{},
		ids: map[int]string{}, firstSeen: map[int]int64{}, rets: map[int]int{}}
	if err := rn.exec(); err != nil {
		return fmt.Errorf("scenario %d (%s): %w", i+1, sc.Desc, err)
	}
	w, err := tr.New(out)
	if err != nil {
		return err
	}
	for _, e := range rn.rec.events {
		e["scn"] = i + 1
		w.Emit(e)
	}
	if err := w.Close(); err != nil {
		return err
	}
	res := workerResult{Stuck: rn.stuck, Rets: map[string]int{}, Media: map[string]int{}}
	for c, n := range rn.rets {
		res.Rets[strconv.Itoa(c)] = n
	}
	for _, ri := range rn.reqs {
		if ri.kind == "media" {
			res.Media[fmt.Sprintf("%d/%s", ri.s, ri.rep)]++
		}
	}
	data, _ := json.Marshal(res)
	fmt.Println(string(data))
	return nil
}

var reFrame = regexp.MustCompile(`livesim2/cmd/livesim2/app\.([^\n(]*(?:\([^)]*\))?[^\n(]*)\(`)

func runParent(args []string, scens []*scenario, out string, par int, nGenTotal int, verbose bool) error {
	type childOut struct {
		res    workerResult
		part   string
		crash  string // non-empty: the process died (panic in the code under test)
		stderr string
		err    error
	}
	outs := make([]childOut, len(scens))
	sem := make(chan struct{}, par)
	var wg sync.WaitGroup
	for i := range scens {
		wg.Add(1)
		sem <- struct{}{}
		go func(i int) {
			defer wg.Done()
			defer func() { <-sem }()
			part := fmt.Sprintf("%s.part%d", out, i)
			ctx, cancel := context.WithTimeout(context.Background(), 180*time.Second)
			defer cancel()
			cmd := exec.CommandContext(ctx, os.Args[0], append(append([]string{}, args...), "-worker", strconv.Itoa(i), "-out", part)...)
			var so, se bytes.Buffer
			cmd.Stdout, cmd.Stderr = &so, &se
			err := cmd.Run()
			o := childOut{part: part, stderr: se.String()}
			if err != nil {
				es := se.String()
				if ctx.Err() == nil && (strings.Contains(es, "panic:") || strings.Contains(es, "fatal error:")) && strings.Contains(es, "goroutine ") {
					site := "unknown"
					if m := reFrame.FindStringSubmatch(es); m != nil {
						site = strings.TrimSpace(m[1])
					}
					msg := ""
					for _, l := range strings.Split(es, "\n") {
						if strings.HasPrefix(l, "panic:") || strings.HasPrefix(l, "fatal error:") {
							msg = l
							break
						}
					}
					o.crash = site + " :: " + msg
				} else {
					o.err = fmt.Errorf("worker %d (%s): %v\n%s", i, scens[i].Desc, err, tail(es, 3000))
				}
			} else {
				lines := strings.Split(strings.TrimSpace(so.String()), "\n")
				if e := json.Unmarshal([]byte(lines[len(lines)-1]), &o.res); e != nil {
					o.err = fmt.Errorf("worker %d: no result: %v", i, e)
				}
			}
			outs[i] = o
		}(i)
	}
	wg.Wait()
	for _, o := range outs {
		if o.err != nil {
			return o.err
		}
	}
	w, err := tr.New(out)
	if err != nil {
		return err
	}
	distinct := map[string]bool{}
	variantsSeen := map[string]int{}
	samples := []string{}
	nev, nstuck, nmedia, ninit, nsess, genReplayed, mismatch, ncrash := 0, 0, 0, 0, 0, 0, 0, 0
	mismatches := []string{}
	reNow := regexp.MustCompile(`now=\d+`)
	for i, sc := range scens {
		o := outs[i]
		if verbose {
			fmt.Fprintf(os.Stderr, "scn %d: %s %s\n", i+1, sc.Desc, o.crash)
		}
		if o.crash != "" {
			// the scenario's process died: header and sessions from the description, then the crash event
			ncrash++
			w.Emit(tr.E{"ev": "hdr", "scn": i + 1, "desc": sc.Desc, "nsess": len(sc.Sess), "bound": 0})
			vn := []string{}
			seen := map[string]bool{}
			for j, s := range sc.Sess {
				e := sessEvent(j+1, s)
				e["scn"] = i + 1
				w.Emit(e)
				if !seen[s.V.name] {
					seen[s.V.name] = true
					vn = append(vn, s.V.name)
				}
			}
			sort.Strings(vn)
			parts := strings.SplitN(o.crash, " :: ", 2)
			w.Emit(tr.E{"ev": "crash", "scn": i + 1, "site": parts[0], "msg": parts[1], "variants": strings.Join(vn, ",")})
			w.Emit(tr.E{"ev": "end", "scn": i + 1})
			nev += 3 + len(sc.Sess)
		} else {
			f, err := os.Open(o.part)
			if err != nil {
				return err
			}
			scan := bufio.NewScanner(f)
			scan.Buffer(make([]byte, 1<<20), 1<<26)
			for scan.Scan() {
				var e tr.E
				if err := json.Unmarshal(scan.Bytes(), &e); err != nil {
					return err
				}
				w.Emit(e)
				nev++
				if e["ev"] == "req" {
					if e["kind"] == "media" {
						nmedia++
					} else if e["kind"] == "init" {
						ninit++
					}
				}
			}
			f.Close()
		}
		os.Remove(o.part)
		nstuck += o.res.Stuck
		nsess += len(sc.Sess)
		for _, s := range sc.Sess {
			variantsSeen[s.V.name+map[bool]string{true: "+streams", false: ""}[s.Streams]]++
		}
		distinct[reNow.ReplaceAllString(sc.Desc, "now")] = true
		if len(samples) < 8 && i%7 == 0 {
			samples = append(samples, sc.Desc)
		}
		if g := sc.Gen; g != nil && o.crash == "" {
			genReplayed++
			okOut := false
			for _, x := range g.Outs {
				if len(x.Media) == 1 && x.Media[0]["v"] == o.res.Media["1/V300"] && x.Media[0]["a"] == o.res.Media["1/A48"] && x.Rets["c1"] == o.res.Rets["1"] {
					okOut = true
				}
			}
			if !okOut {
				mismatch++
				if len(mismatches) < 5 {
					mismatches = append(mismatches, fmt.Sprintf("%s: real media v=%d a=%d rets=%d", sc.Desc, o.res.Media["1/V300"], o.res.Media["1/A48"], o.res.Rets["1"]))
				}
			}
		}
	}
	if err := w.Close(); err != nil {
		return err
	}
	tr.PrintStats(map[string]any{"scenarios": len(scens), "events": nev, "distinct": len(distinct), "samples": samples,
		"stuck_calls": nstuck, "media_requests": nmedia, "init_requests": ninit, "sessions": nsess, "variants": variantsSeen,
		"crashes": ncrash, "gen_total": nGenTotal, "gen_replayed": genReplayed, "fidelity_mismatch": mismatch, "fidelity_examples": mismatches})
	return nil
}

func tail(s string, n int) string {
	if len(s) > n {
		return s[len(s)-n:]
	}
	return s
}

func (rn *run) perRepMedia(key string) int {
	n := 0
	for _, ri := range rn.reqs {
		if fmt.Sprintf("%d/%s", ri.s, ri.rep) == key && ri.kind == "media" {
			n++
		}
	}
	return n
}

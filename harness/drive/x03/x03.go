// Package x03 replays the predictions of the TLA+ explorer LiveTimelineImpl (GEN lines printed by TLC) into the real
// livesim2 server and records prediction and observation side by side (X03).  The VoD assets are generated with exactly
// the layouts of the explorer's configurations (harness/assetgen; one video sample per tick); nothing is scaled:
// the explorer works in real ticks / ms near time zero (?nowMS= and start_ are inputs).
// A second, seeded part (V) builds layouts at realistic timescales and requests around the breakpoints; there the
// prediction is evaluated by the trace specification itself from the scenario header.
package x03

import (
	"bufio"
	"encoding/json"
	"flag"
	"fmt"
	"math/rand"
	"os"
	"path/filepath"
	"regexp"
	"sort"
	"strconv"
	"strings"

	"verifharness/assetgen"
	"verifharness/drive/tl"
	"verifharness/project"
	"verifharness/srv"
	"verifharness/tr"
)

const lim = int64(1)<<31 - 1

type config struct {
	Dur  []int64
	Vod0 int64
	TS   int64
	TSBD int64
	Ato  int64 // ms, -1 infinite
	SNR  int64
	AST  int64 // s
}

func (c config) layoutKey() string { return fmt.Sprintf("%v|%d|%d", c.Dur, c.Vod0, c.TS) }
func (c config) key() string {
	return fmt.Sprintf("%s|%d|%d|%d|%d", c.layoutKey(), c.TSBD, c.Ato, c.SNR, c.AST)
}
func (c config) L() int64 {
	var l int64
	for _, d := range c.Dur {
		l += d
	}
	return l
}

type reqCase struct {
	kind string // nr | tm | tl
	q    int64
	now  int64
	pred json.RawMessage // nil: none (seeded)
}

type scenario struct {
	cfg   config
	src   string
	cases []reqCase
}

type genCase struct {
	Q int64           `json:"q"`
	R json.RawMessage `json:"r"`
}
type genLine struct {
	K   []json.RawMessage `json:"k"`
	Now int64             `json:"now"`
	Nr  []genCase         `json:"nr"`
	Tm  []genCase         `json:"tm"`
	Tl  []json.RawMessage `json:"tl"`
}

func parseKey(k []json.RawMessage) (config, error) {
	var c config
	if len(k) != 7 {
		return c, fmt.Errorf("GEN key with %d fields", len(k))
	}
	if err := json.Unmarshal(k[0], &c.Dur); err != nil {
		return c, err
	}
	dst := []*int64{&c.Vod0, &c.TS, &c.TSBD, &c.Ato, &c.SNR, &c.AST}
	for i, p := range dst {
		if err := json.Unmarshal(k[i+1], p); err != nil {
			return c, err
		}
	}
	return c, nil
}

func readGen(path string) ([]*scenario, int, error) {
	f, err := os.Open(path)
	if err != nil {
		return nil, 0, err
	}
	defer f.Close()
	by := map[string]*scenario{}
	var order []string
	skipped := 0
	rd := bufio.NewReaderSize(f, 1<<20)
	for {
		line, err := rd.ReadBytes('\n')
		if len(strings.TrimSpace(string(line))) > 0 {
			var g genLine
			if e := json.Unmarshal(line, &g); e != nil {
				return nil, 0, fmt.Errorf("GEN line: %w", e)
			}
			c, e := parseKey(g.K)
			if e != nil {
				return nil, 0, e
			}
			if g.Now < 0 { // the server refuses a negative nowMS (an input it does not define): model level only
				skipped += len(g.Nr) + len(g.Tm) + len(g.Tl)
			} else {
				s := by[c.key()]
				if s == nil {
					s = &scenario{cfg: c, src: "gen"}
					by[c.key()] = s
					order = append(order, c.key())
				}
				for _, x := range g.Nr {
					s.cases = append(s.cases, reqCase{"nr", x.Q, g.Now, x.R})
				}
				for _, x := range g.Tm {
					s.cases = append(s.cases, reqCase{"tm", x.Q, g.Now, x.R})
				}
				for _, x := range g.Tl {
					s.cases = append(s.cases, reqCase{"tl", 0, g.Now, x})
				}
			}
		}
		if err != nil {
			break
		}
	}
	sort.Strings(order)
	var out []*scenario
	for _, k := range order {
		s := by[k]
		sort.SliceStable(s.cases, func(i, j int) bool {
			a, b := s.cases[i], s.cases[j]
			if a.now != b.now {
				return a.now < b.now
			}
			if a.kind != b.kind {
				return a.kind < b.kind
			}
			return a.q < b.q
		})
		out = append(out, s)
	}
	return out, skipped, nil
}

// ---------------------------------------------------------------- seeded scenarios at realistic timescales (V)

type family struct {
	ts, sd int64
	mod    int // total number of samples must be a multiple of mod (whole-ms loop)
}

var families = []family{{90000, 3000, 3}, {90000, 3600, 1}, {12800, 512, 1}, {30000, 1001, 30}, {1000, 40, 1}, {48000, 1920, 1},
	{25000, 1000, 1}, {600, 20, 3}, {15360, 512, 3}, {1000, 1, 1}, {10000, 400, 1}}

// fits: every intermediate value of the TLA+ evaluation (plain 32-bit integers) stays in range for instant now
func fits(c config, now int64) bool {
	l := c.L()
	loopMS := l * 1000 / c.TS
	rel := now - c.AST*1000
	if rel < 0 {
		rel = 0
	}
	ato := c.Ato
	if ato < 0 {
		ato = 0
	}
	maxTicks := c.AST*c.TS + (rel/loopMS+3)*l + c.Vod0 + ato*c.TS/1000
	return (now+ato+1)*c.TS < lim && maxTicks*1000 < lim && (c.TSBD+10)*1000*c.TS < lim && l*1000 < lim/2
}

func seeded(rng *rand.Rand, n int) []*scenario {
	var out []*scenario
	for len(out) < n {
		f := families[rng.Intn(len(families))]
		nseg := 1 + rng.Intn(4)
		var cnt []int
		total := 0
		for i := 0; i < nseg; i++ {
			c := 1 + rng.Intn(36)
			if rng.Intn(3) == 0 && i > 0 {
				c = cnt[i-1] // runs of equal durations (r > 0 entries)
			}
			cnt = append(cnt, c)
			total += c
		}
		for total%f.mod != 0 {
			cnt[nseg-1]++
			total++
		}
		if total > 200 {
			continue
		}
		c := config{TS: f.ts}
		for _, x := range cnt {
			c.Dur = append(c.Dur, int64(x)*f.sd)
		}
		if rng.Intn(4) == 0 {
			c.Vod0 = int64(1+rng.Intn(cnt[0])) * f.sd // first decode time not 0 (below the first segment's duration)
		}
		l := c.L()
		if l*1000%c.TS != 0 || c.Vod0 >= l {
			continue
		}
		loopMS := l * 1000 / c.TS
		seg0MS := c.Dur[0] * 1000 / c.TS
		c.TSBD = []int64{0, 1, 2, 5, 13}[rng.Intn(5)]
		for c.TSBD > 0 && c.TSBD*1000*int64(nseg)/loopMS > 40 { // keep the listed window short (cost of the trace evaluation)
			c.TSBD /= 2
		}
		c.Ato = []int64{0, 0, seg0MS / 4, seg0MS/2 + 1, seg0MS + seg0MS/2, loopMS + 7, -1}[rng.Intn(7)]
		c.SNR = []int64{0, 1, 5, 17}[rng.Intn(4)]
		c.AST = []int64{0, 1, 2, 7}[rng.Intn(4)]
		s := &scenario{cfg: c, src: "seed"}
		// the driver's own arithmetic only CHOOSES instants and requests
		startT := func(n int64) int64 {
			k, i := n/int64(nseg), n%int64(nseg)
			t := k*l + c.Vod0
			for j := int64(0); j < i; j++ {
				t += c.Dur[j]
			}
			return t
		}
		ato := c.Ato
		if ato < 0 {
			ato = 0
		}
		avail := func(n int64) int64 { // first whole ms at which segment n has ended, less ato, absolute
			e := (startT(n) + c.Dur[n%int64(nseg)]) * 1000
			return c.AST*1000 + (e+c.TS-1)/c.TS - ato
		}
		nmax := int64(2*nseg + 2)
		seen := map[string]bool{}
		add := func(kind string, q, now int64) {
			if now < 0 || q < 0 || !fits(c, now) {
				return
			}
			k := fmt.Sprintf("%s|%d|%d", kind, q, now)
			if !seen[k] {
				seen[k] = true
				s.cases = append(s.cases, reqCase{kind, q, now, nil})
			}
		}
		for n := int64(0); n <= nmax; n++ {
			if rng.Intn(3) == 0 && n > 2 {
				continue
			}
			a := avail(n)
			for _, base := range []int64{a, a + c.TSBD*1000, a + (c.TSBD+10)*1000} {
				for _, dt := range []int64{-1, 0, 1} {
					now := base + dt
					add("tl", 0, now)
					for _, dn := range []int64{-1, 0, 1} {
						if n+dn >= 0 {
							add("nr", c.SNR+n+dn, now)
							add("tm", startT(n+dn), now)
						}
					}
				}
			}
			now := c.AST*1000 + rng.Int63n(3*loopMS+1)
			add("tl", 0, now)
			add("nr", c.SNR+n, now)
			add("tm", startT(n)+int64(rng.Intn(2)), now)
		}
		if c.SNR > 0 {
			add("nr", c.SNR-1, c.AST*1000+loopMS)
		}
		add("nr", c.SNR, c.AST*1000-1)
		add("tl", 0, c.AST*1000-1)
		if len(s.cases) < 10 {
			continue
		}
		sort.SliceStable(s.cases, func(i, j int) bool { return s.cases[i].now < s.cases[j].now })
		out = append(out, s)
	}
	return out
}

// ---------------------------------------------------------------- observation

var earlyRe = regexp.MustCompile(`too early by (-?\d+)ms|(-?\d+)ms too early`)

func clamp(v, ts int64) int64 { // keep v*ts inside TLC's integers (a value that large is a mismatch anyway)
	b := lim/ts - 1
	if v > b {
		return b
	}
	if v < -b {
		return -b
	}
	return v
}

func obsSeg(r srv.Resp, rt *project.RepTruth) map[string]any {
	o := map[string]any{"st": r.Status, "early": int64(-1), "idx": -1, "t": int64(0), "d": int64(0), "nr": int64(0)}
	switch r.Status {
	case 200:
		m, err := project.ParseMedia(r.Body, rt.Trex)
		if err != nil {
			o["idx"] = -2 // undecodable body
			return o
		}
		o["t"] = clamp(int64(m.Frags[0].Tfdt), 1)
		o["d"] = clamp(int64(m.TotalDur), 1)
		o["nr"] = int64(m.Frags[0].Seq)
		for i, d := range rt.PayDig {
			if d == m.PayDig {
				o["idx"] = i
			}
		}
	case 425:
		if m := earlyRe.FindSubmatch(r.Body); m != nil {
			x := string(m[1])
			if x == "" {
				x = string(m[2])
			}
			v, err := strconv.ParseInt(x, 10, 64)
			if err == nil {
				o["early"] = clamp(v, rt.TS)
			}
		}
	}
	return o
}

func obsMpd(r srv.Resp, c config) map[string]any {
	o := map[string]any{"st": r.Status, "S": [][]int64{}, "hasSn": false, "sn": int64(0), "hasPt": false, "pt": int64(0), "astOk": false}
	if r.Status != 200 {
		return o
	}
	m, err := project.ParseMPD(r.Body)
	if err != nil {
		o["st"] = -1
		return o
	}
	if ast, err := project.DateMS(m.AST); err == nil && ast == c.AST*1000 {
		o["astOk"] = true
	}
	if pt, err := project.DateMS(m.PublishTime); err == nil {
		o["hasPt"] = true
		o["pt"] = c.AST*1000 + clamp(pt-c.AST*1000, c.TS)
	}
	as := m.FindAS(0, "video", "V300")
	if as == nil || as.SegmentTemplate == nil {
		o["st"] = -2
		return o
	}
	st := as.SegmentTemplate
	if st.StartNumber != nil {
		o["hasSn"] = true
		o["sn"] = clamp(int64(*st.StartNumber)-c.SNR, 1)
	}
	S := [][]int64{}
	if st.Timeline != nil {
		for _, s := range st.Timeline.S {
			e := []int64{0, 0, clamp(int64(s.D), 1), int64(s.R)}
			if s.T != nil {
				e[0], e[1] = 1, clamp(int64(*s.T), 1)
			}
			S = append(S, e)
		}
	}
	o["S"] = S
	return o
}

func Main(args []string) error {
	fs := flag.NewFlagSet("x03", flag.ExitOnError)
	out := fs.String("out", "x03.ndjson", "trace output")
	work := fs.String("work", "", "scratch directory for the VoD root")
	gen := fs.String("gen", "", "GEN lines of the explorer (jsonl)")
	seed := fs.Int64("seed", 1, "seed")
	nseed := fs.Int("n", 20, "number of seeded scenarios at realistic timescales")
	par := fs.Int("par", 6, "parallel scenario workers")
	fix := fs.Bool("fix", true, "header constant for the transcription: true = the present code, false = the code before the vod0 fixes 27fa7f8 / 52d2ae2")
	_ = fs.Parse(args)
	if *work == "" || *gen == "" {
		return fmt.Errorf("-work and -gen required")
	}
	scs, skipped, err := readGen(*gen)
	if err != nil {
		return err
	}
	ngen := len(scs)
	rng := rand.New(rand.NewSource(*seed))
	scs = append(scs, seeded(rng, *nseed)...)

	// one generated asset per layout (duration list, first decode time, timescale); one video sample per sampleDur ticks
	root := filepath.Join(*work, "vod")
	_ = os.RemoveAll(root)
	if err := os.MkdirAll(root, 0o755); err != nil {
		return err
	}
	src := filepath.Join(srv.BundledAssets(), "testpic_2s")
	assets := map[string]*tl.Asset{}
	for _, s := range scs {
		lk := s.cfg.layoutKey()
		if assets[lk] != nil {
			continue
		}
		sd := s.cfg.Dur[0]
		for _, d := range s.cfg.Dur {
			sd = gcd(sd, d)
		}
		if s.cfg.Vod0 > 0 {
			sd = gcd(sd, s.cfg.Vod0)
		}
		total := int64(0)
		var cnt []int
		for _, d := range s.cfg.Dur {
			cnt = append(cnt, int(d/sd))
			total += d / sd
		}
		if total > 240 {
			return fmt.Errorf("layout %s needs %d samples", lk, total)
		}
		lay := assetgen.Layout{Name: fmt.Sprintf("x03a%d", len(assets)), TS: s.cfg.TS, SampleDur: sd, SegSamples: cnt, Vod0: s.cfg.Vod0, MpdStyle: "number"}
		t, err := assetgen.Generate(root, src, lay)
		if err != nil {
			return fmt.Errorf("generate %s: %w", lk, err)
		}
		if t.LoopMS < 0 {
			return fmt.Errorf("layout %s: loop is not a whole number of ms", lk)
		}
		assets[lk] = &tl.Asset{Name: t.Name, MPD: t.MPD, LoopMS: t.LoopMS, Video: t.Video, Gen: true}
	}
	server, err := srv.New(root, nil)
	if err != nil {
		return err
	}
	w, err := tr.New(*out)
	if err != nil {
		return err
	}
	type counters struct {
		st              map[int]int
		nr, tm, tl      int
		maxEntries      int
		multiS, repeatS int
		empty           int
		distinct        map[string]bool
	}
	cnts := make([]counters, len(scs))
	tl.RunParallel(w, len(scs), *par, func(idx int, emit func(tr.E)) {
		s := scs[idx]
		c := s.cfg
		a := assets[c.layoutKey()]
		rt := a.Video
		cn := counters{st: map[int]int{}, distinct: map[string]bool{}}
		emit(tr.E{"ev": "hdr", "sc": idx, "src": s.src, "asset": a.Name, "N": rt.N, "dur": rt.Dur, "vod0": rt.Vod0, "TS": rt.TS,
			"loopMS": a.LoopMS, "tsbd": c.TSBD, "ato": c.Ato, "snr": c.SNR, "ast": c.AST, "fix": *fix})
		for _, rc := range s.cases {
			e := tr.E{"ev": "seg", "by": rc.kind, "q": rc.q, "now": rc.now, "hasp": rc.pred != nil}
			if rc.pred != nil {
				e["p"] = rc.pred
			}
			cn.distinct[fmt.Sprintf("%s|%s|%d|%d", c.key(), rc.kind, rc.q, rc.now)] = true
			switch rc.kind {
			case "nr", "tm":
				mode := "time"
				if rc.kind == "nr" {
					mode = []string{"number", "tlnr"}[(rc.q+rc.now)%2]
					if c.Ato < 0 && rc.pred != nil {
						mode = "number" // the GEN prediction of a number request is that of the $Number$ URL (ato_inf + tlnr is refused: 400)
					}
				}
				uc := tl.Cfg{Mode: mode, SNR: int(c.SNR), AST: c.AST, TSBD: int(c.TSBD), AtoMS: c.Ato}
				u := fmt.Sprintf("%s/V300/%d.m4s?nowMS=%d", uc.Prefix(a.Name), rc.q, rc.now)
				r := server.Get(u)
				e["mode"] = mode
				e["url"] = u
				e["o"] = obsSeg(r, rt)
				cn.st[r.Status]++
				if rc.kind == "nr" {
					cn.nr++
				} else {
					cn.tm++
				}
			case "tl":
				mode := []string{"time", "tlnr"}[rc.now%2]
				uc := tl.Cfg{Mode: mode, SNR: int(c.SNR), AST: c.AST, TSBD: int(c.TSBD), AtoMS: c.Ato}
				u := fmt.Sprintf("%s/%s?nowMS=%d", uc.Prefix(a.Name), a.MPD, rc.now)
				r := server.Get(u)
				o := obsMpd(r, c)
				e["ev"] = "mpd"
				delete(e, "by")
				delete(e, "q")
				e["mode"] = mode
				e["url"] = u
				e["o"] = o
				cn.tl++
				S := o["S"].([][]int64)
				tot := 0
				rep := false
				for _, x := range S {
					tot += int(x[3]) + 1
					if x[3] > 0 {
						rep = true
					}
				}
				if tot > cn.maxEntries {
					cn.maxEntries = tot
				}
				if len(S) > 1 {
					cn.multiS++
				}
				if rep {
					cn.repeatS++
				}
				if len(S) == 0 && r.Status == 200 {
					cn.empty++
				}
			}
			emit(e)
		}
		cnts[idx] = cn
	})
	if err := w.Close(); err != nil {
		return err
	}
	st := map[string]int{}
	distinct := 0
	tot := counters{}
	for _, cn := range cnts {
		for k, v := range cn.st {
			st[strconv.Itoa(k)] += v
		}
		distinct += len(cn.distinct)
		tot.nr += cn.nr
		tot.tm += cn.tm
		tot.tl += cn.tl
		tot.multiS += cn.multiS
		tot.repeatS += cn.repeatS
		tot.empty += cn.empty
		if cn.maxEntries > tot.maxEntries {
			tot.maxEntries = cn.maxEntries
		}
	}
	samples := []any{}
	for i, s := range scs {
		if i%(len(scs)/6+1) == 0 && len(s.cases) > 0 {
			rc := s.cases[len(s.cases)/2]
			samples = append(samples, fmt.Sprintf("%s dur=%v vod0=%d TS=%d tsbd=%d ato=%d snr=%d ast=%d: %s q=%d now=%d", s.src, s.cfg.Dur, s.cfg.Vod0,
				s.cfg.TS, s.cfg.TSBD, s.cfg.Ato, s.cfg.SNR, s.cfg.AST, rc.kind, rc.q, rc.now))
		}
	}
	tr.PrintStats(map[string]any{"scenarios": len(scs), "events": w.N, "distinct": distinct, "samples": samples,
		"gen_scenarios": ngen, "seeded_scenarios": len(scs) - ngen, "layouts": len(assets), "skipped_negative_now": skipped,
		"by_number": tot.nr, "by_time": tot.tm, "mpds": tot.tl, "status": st, "max_listed_segments": tot.maxEntries,
		"mpds_with_several_S": tot.multiS, "mpds_with_r": tot.repeatS, "empty_timelines": tot.empty})
	return nil
}

func gcd(a, b int64) int64 {
	for b != 0 {
		a, b = b, a%b
	}
	return a
}

// Package x04 drives the real livesim2 server with the FORMS enumerated by TLC (spec/UrlGen.tla, GEN lines): every form
// is concretised with seeded representatives per value class, submitted to GET /urlgen/create through the server's
// router, the returned page is read with a tolerant HTML tokenizer (html.go), the shown URL - if any - is requested from
// the same server at a fixed instant (?nowMS=) and the MPD projected into facts (harness/drive/x01.Project), and the
// form is submitted again in another field order, in the other submission style, read back from the URL, and as the
// form the returned page shows.
//
// Events (spec/trace/UrlGen_Trace.tla):
//
//	hdr   the form as constructed here (entries f, c, v, vs, n), the request variant, the asset, the semantic reading m
//	      of the form (X01's configuration record) and the ground truth e about the VoD asset (own parse)
//	gen   what the page shows: status, URLs, prefix / path / query of the first URL, messages, Play links
//	play  the answer to the shown URL: status, facts of the MPD that X01's value clauses read
//	stab  another submission of the same form: kind order | style | feedback | form
package x04

import (
	"bufio"
	"encoding/json"
	"flag"
	"fmt"
	"hash/fnv"
	"math/rand"
	"net/url"
	"os"
	"path/filepath"
	"regexp"
	"sort"
	"strconv"
	"strings"

	"github.com/Dash-Industry-Forum/livesim2/cmd/livesim2/app"

	"verifharness/drive/x01"
	"verifharness/project"
	"verifharness/srv"
	"verifharness/tr"
)

const (
	plainHost  = "x04.test:8443"
	tlsHost    = "secure.x04.test"
	fwdHost    = "pub.x04.example"
	cfgHost    = "https://cdn.x04.example/pre"
	playTmpl   = "https://player.x04.example/play?mpd=%s&x=1"
	placeAsset = "Choose an asset..."
	placeMPD   = "Choose an asset first"
)

type part struct {
	F string `json:"f"`
	C string `json:"c"`
}

type genForm struct {
	Stl   string `json:"stl"`
	Asset string `json:"asset"`
	Hv    string `json:"hv"`
	Parts []part `json:"parts"`
}

// entry is one set field of the form (UrlGenOps: f, c, v, vs, n).
type entry struct {
	F  string   `json:"f"`
	C  string   `json:"c"`
	V  string   `json:"v"`
	VS []string `json:"vs"`
	N  int      `json:"n"`
}

// conc is X01's concrete configuration record (MpdSignalOps.NoCfg).
type conc struct {
	Tsbd       int      `json:"tsbd"`
	Mup        int      `json:"mup"`
	Spd        int      `json:"spd"`
	Snr        int      `json:"snr"`
	Start      int      `json:"start"`
	Startkey   string   `json:"startkey"`
	Startrel   int      `json:"startrel"`
	Stoprel    int      `json:"stoprel"`
	Utc        []string `json:"utc"`
	Ato        int      `json:"ato"`
	Chunkdur   int      `json:"chunkdur"`
	Ltgt       int      `json:"ltgt"`
	Patch      int      `json:"patch"`
	Stpp       []string `json:"stpp"`
	Wvtt       []string `json:"wvtt"`
	Scte35     int      `json:"scte35"`
	AnnexI     int      `json:"annexI"`
	Traffic    int      `json:"traffic"`
	Periods    int      `json:"periods"`
	Continuous bool     `json:"continuous"`
	Eccp       string   `json:"eccp"`
	Drm        string   `json:"drm"`
}

func noCfg() conc {
	return conc{Tsbd: -1, Mup: -1, Spd: -1, Snr: -2, Start: -1, Startkey: "start", Ltgt: -1, Patch: -1, Utc: []string{}, Stpp: []string{}, Wvtt: []string{}}
}

type vodAsset struct {
	class  string
	path   string
	mpd    string
	segMin int64
	segMax int64
	vas    [][2]string
	vodID  string
	vodUtc [][2]string
	keys   map[string]bool
}

type urlPart struct {
	K   string `json:"k"`
	Raw string `json:"raw"`
}

func fmtMS(ms int) string {
	s := fmt.Sprintf("%d.%03d", ms/1000, ms%1000)
	s = strings.TrimRight(s, "0")
	return strings.TrimSuffix(s, ".")
}

var utcMethods = []string{"direct", "head", "ntp", "sntp", "httpxsdate", "httpxsdatems", "httpiso", "httpisoms"}
var langPool = []string{"en", "sv", "de", "fr", "fi", "nb", "es"}
var trafficPool = []string{"u20d10", "d1", "u1", "u45s10h5", "u10d50", "u50d10", "u7d3", "d2u5"}
var nonInts = []string{"abc", "1.5", "12s", "1e3"}
var nonFloats = []string{"fast", "1,5", "0.5s"}

func rint(r *rand.Rand, lo, hi int) int    { return lo + r.Intn(hi-lo+1) }
func pick(r *rand.Rand, s []string) string { return s[r.Intn(len(s))] }

type drmPkg struct{ name, scheme string }

var drmPkgs = map[string]drmPkg{}
var cpixSchemeRe = regexp.MustCompile(`commonEncryptionScheme="([a-z0-9]+)"`)

// loadDrmPkgs reads pkg/drm/testdata/drm_config_test.json: value class k1 / k2 = first / second package.
func loadDrmPkgs() (string, error) {
	dir := filepath.Join(srv.RepoRoot(), "pkg", "drm", "testdata")
	cfgFile := filepath.Join(dir, "drm_config_test.json")
	data, err := os.ReadFile(cfgFile)
	if err != nil {
		return "", err
	}
	var cfg struct {
		Packages []struct {
			Name     string `json:"name"`
			CpixFile string `json:"cpixFile"`
		} `json:"packages"`
	}
	if err := json.Unmarshal(data, &cfg); err != nil {
		return "", err
	}
	for i, p := range cfg.Packages {
		cp, err := os.ReadFile(filepath.Join(dir, p.CpixFile))
		if err != nil {
			return "", err
		}
		schemes := map[string]bool{}
		for _, m := range cpixSchemeRe.FindAllSubmatch(cp, -1) {
			schemes[string(m[1])] = true
		}
		if len(schemes) != 1 {
			return "", fmt.Errorf("CPIX %s: %d encryption schemes", p.CpixFile, len(schemes))
		}
		for sch := range schemes {
			drmPkgs[fmt.Sprintf("k%d", i+1)] = drmPkg{p.Name, sch}
		}
	}
	if len(drmPkgs) < 2 {
		return "", fmt.Errorf("%s: fewer than 2 packages", cfgFile)
	}
	return cfgFile, nil
}

func drmScheme(name string) string {
	for _, p := range drmPkgs {
		if p.name == name {
			return p.scheme
		}
	}
	return ""
}

// concretise draws a value of class p.C for field p.F and records its meaning in m.
func concretise(r *rand.Rand, p part, a *vodAsset, t1s int64, nowS int64, m *conc, startN int) (entry, error) {
	bad := fmt.Errorf("unknown value class %s:%s", p.F, p.C)
	e := entry{F: p.F, C: p.C}
	setN := func(n int) { e.N, e.V = n, strconv.Itoa(n) }
	setS := func(s string) { e.V = s }
	switch p.F {
	case "tsbd":
		switch p.C {
		case "0":
			setN(0)
		case "1":
			setN(1)
		case "typ":
			n := rint(r, 2, 3600)
			if n == 60 {
				n = 61
			}
			setN(n)
		case "max":
			setN(172800)
		case "dflt":
			setN(60)
		case "neg":
			setN(-rint(r, 1, 100))
		case "big":
			setN(rint(r, 172801, 400000))
		case "nonint":
			setS(pick(r, nonInts))
		default:
			return e, bad
		}
		m.Tsbd = e.N
	case "mup":
		switch p.C {
		case "1":
			setN(1)
		case "typ":
			setN(rint(r, 3, 3600))
		case "big":
			setN(rint(r, 100000, 2000000))
		case "0":
			setN(0)
		case "neg":
			setN(-rint(r, 1, 100))
		case "frac":
			setS(pick(r, []string{"2.5", "0.5", "1.0"}))
		case "nonint":
			setS(pick(r, nonInts))
		default:
			return e, bad
		}
		m.Mup = e.N
	case "spd":
		switch p.C {
		case "0":
			setN(0)
		case "typ":
			setN(rint(r, 1, 120))
		case "nonint":
			setS(pick(r, nonInts))
		default:
			return e, bad
		}
		m.Spd = e.N
	case "utc":
		switch p.C {
		case "multi":
			perm := r.Perm(len(utcMethods))
			for _, i := range perm[:rint(r, 2, 4)] {
				e.VS = append(e.VS, utcMethods[i])
			}
			e.V = strings.Join(e.VS, ",")
		case "hyph":
			perm := r.Perm(len(utcMethods))
			e.V = utcMethods[perm[0]] + "-" + utcMethods[perm[1]]
		case "unknown":
			setS(pick(r, []string{"gps", "httpdate", "NTP"}))
		case "keepmix":
			e.VS = []string{"keep", pick(r, utcMethods)}
			e.V = strings.Join(e.VS, ",")
		default:
			ok := p.C == "none" || p.C == "keep"
			for _, x := range utcMethods {
				ok = ok || x == p.C
			}
			if !ok {
				return e, bad
			}
			setS(p.C)
		}
		if e.VS != nil {
			m.Utc = e.VS
		} else {
			m.Utc = []string{e.V}
		}
	case "snr":
		switch p.C {
		case "0":
			setN(0)
		case "1":
			setN(1)
		case "typ":
			setN(rint(r, 2, 100000))
		case "m1":
			setN(-1)
		case "nonint":
			setS(pick(r, nonInts))
		default:
			return e, bad
		}
		m.Snr = e.N
	case "periods":
		var typ int
		var alt []int
		switch {
		case a.segMin == 2000 && a.segMax == 2000:
			typ, alt = 60, []int{30, 20, 12, 45}
		case a.segMin == 8000 && a.segMax == 8000:
			typ, alt = 30, []int{45, 15, 9}
		default:
			typ, alt = 60, []int{30} // (placeholder asset: nothing is played)
		}
		switch p.C {
		case "typ":
			setN(typ)
		case "alt":
			setN(alt[r.Intn(len(alt))])
		case "0":
			setN(0)
		case "big":
			setN(pickInt(r, []int{61, 90, 120, 360, 3600}))
		case "huge":
			setN(rint(r, 3601, 100000))
		case "nonint":
			setS(pick(r, nonInts))
		default:
			return e, bad
		}
		m.Periods = e.N
	case "continuous":
		setS("on")
		m.Continuous = true
	case "ato":
		lim := int(a.segMin) - 300
		if lim < 200 {
			lim = 1700
		}
		switch p.C {
		case "typ":
			m.Ato = 100 * rint(r, 1, lim/100)
			setS(fmtMS(m.Ato))
		case "ms":
			m.Ato = rint(r, 1, lim)
			if m.Ato%100 == 0 {
				m.Ato++
			}
			setS(fmtMS(m.Ato))
		case "inf":
			m.Ato = -1
			setS("inf")
		case "nonfloat":
			m.Ato = 1
			setS(pick(r, nonFloats))
		default:
			return e, bad
		}
	case "chunkdur":
		switch p.C {
		case "typ":
			m.Chunkdur = 100 * rint(r, 1, 10)
			setS(fmtMS(m.Chunkdur))
		case "neg":
			m.Chunkdur = 1
			setS("-" + fmtMS(100*rint(r, 1, 10)))
		case "nonfloat":
			m.Chunkdur = 1
			setS(pick(r, nonFloats))
		default:
			return e, bad
		}
	case "ltgt":
		switch p.C {
		case "typ":
			n := rint(r, 1000, 10000)
			if n == 3500 {
				n = 3501
			}
			setN(n)
		case "1":
			setN(1)
		case "dflt":
			setN(3500)
		case "nonint":
			setS(pick(r, nonInts))
		default:
			return e, bad
		}
		m.Ltgt = e.N
	case "patch-ttl":
		switch p.C {
		case "1":
			setN(1)
		case "typ":
			setN(rint(r, 2, 120))
		case "0":
			setN(0)
		case "neg":
			setN(-rint(r, 2, 100))
		case "nonint":
			setS(pick(r, nonInts))
		default:
			return e, bad
		}
		m.Patch = e.N
	case "scte35":
		v, err := strconv.Atoi(p.C)
		if err != nil || v < 1 || v > 3 {
			return e, bad
		}
		setS(p.C)
		m.Scte35 = v
	case "start":
		switch p.C {
		case "1":
			setN(1)
		case "typ":
			setN(rint(r, 2, int(t1s)-4000))
		case "nonint":
			setS(pick(r, nonInts))
		default:
			return e, bad
		}
		m.Start, m.Startkey = e.N, "start"
	case "stop":
		switch p.C {
		case "typ":
			setN(int(nowS) + rint(r, 10, 3600))
		case "before":
			if startN < 1 {
				return e, fmt.Errorf("stop:before without a start value")
			}
			setN(rint(r, maxInt(0, startN-500), startN-1))
		case "neg":
			setN(-rint(r, 1, 100))
		case "nonint":
			setS(pick(r, nonInts))
		default:
			return e, bad
		}
	case "startrel":
		switch p.C {
		case "m1":
			setN(-1)
		case "typ":
			setN(-rint(r, 2, 3600))
		case "nonint":
			setS(pick(r, []string{"-1m", "abc", "-1.5"}))
		default:
			return e, bad
		}
		m.Startrel = e.N
		if e.N == 0 {
			m.Startrel = -1
		}
	case "stoprel":
		switch p.C {
		case "typ":
			setN(rint(r, 10, 3600))
		case "nonint":
			setS(pick(r, []string{"5m", "abc", "1.5"}))
		default:
			return e, bad
		}
		m.Stoprel = e.N
		if e.N == 0 {
			m.Stoprel = 1
		}
	case "timesubsstpp", "timesubswvtt":
		n := map[string]int{"one": 1, "two": 2, "three": 3}[p.C]
		if n == 0 {
			return e, bad
		}
		for _, i := range r.Perm(len(langPool))[:n] {
			e.VS = append(e.VS, langPool[i])
		}
		e.V = strings.Join(e.VS, ",")
		if p.F == "timesubsstpp" {
			m.Stpp = e.VS
		} else {
			m.Wvtt = e.VS
		}
	case "timesubsdur":
		switch p.C {
		case "1":
			setN(1)
		case "typ":
			n := rint(r, 2, 999)
			if n == 900 {
				n = 901
			}
			setN(n)
		case "max":
			setN(1000)
		case "dflt":
			setN(900)
		case "0":
			setN(0)
		case "neg":
			setN(-rint(r, 1, 1000))
		case "nonint":
			setS(pick(r, nonInts))
		case "huge":
			setN(rint(r, 3600001, 100000000))
		default:
			return e, bad
		}
	case "timesubsreg":
		if p.C != "0" && p.C != "1" {
			return e, bad
		}
		setS(p.C)
	case "drm":
		switch p.C {
		case "None":
			setS("None")
		case "eccp-cbcs", "eccp-cenc":
			setS(p.C)
			m.Eccp = strings.TrimPrefix(p.C, "eccp-")
		case "k1", "k2":
			pk, ok := drmPkgs[p.C]
			if !ok {
				return e, bad
			}
			setS(pk.name)
			m.Drm = pk.name
		default:
			return e, bad
		}
	case "annexI":
		switch p.C {
		case "one", "two":
			n := map[string]int{"one": 1, "two": 2}[p.C]
			for i := 0; i < n; i++ {
				e.VS = append(e.VS, fmt.Sprintf("%c%d=v%d", 'a'+i, rint(r, 0, 9), rint(r, 0, 999)))
			}
			e.V = strings.Join(e.VS, ",")
			m.AnnexI = n
		case "nopair":
			setS(pick(r, []string{"a", "a=1,b", "key"}))
			m.AnnexI = 1
		case "twoeq":
			setS(pick(r, []string{"a=b=c", "a=1,b=2=3"}))
			m.AnnexI = 1
		default:
			return e, bad
		}
	case "statuscode":
		pat := func(code int, rep string) string {
			s := fmt.Sprintf("{code:%d,cycle:%d,rsq:%d", code, rint(r, 10, 120), rint(r, 0, 3))
			if rep != "" {
				s += ",rep:" + rep
			}
			return s + "}"
		}
		switch p.C {
		case "one":
			setS("[" + pat(rint(r, 400, 599), "") + "]")
		case "two":
			setS("[" + pat(rint(r, 400, 599), "") + "," + pat(rint(r, 400, 599), "") + "]")
		case "rep":
			setS("[" + pat(rint(r, 400, 599), pick(r, []string{"video", "V300", "A48", "V300,A48", "*"})) + "]")
		case "code":
			setS("[" + pat(pickInt(r, []int{200, 399, 600, 0}), "") + "]")
		case "short":
			setS(pick(r, []string{"[]", "404"}))
		case "key":
			setS("[{kode:404,cycle:30,rsq:0}]")
		default:
			return e, bad
		}
	case "traffic":
		switch p.C {
		case "one", "two", "three":
			n := map[string]int{"one": 1, "two": 2, "three": 3}[p.C]
			for i := 0; i < n; i++ {
				e.VS = append(e.VS, trafficPool[r.Intn(len(trafficPool))])
			}
			e.V = strings.Join(e.VS, ",")
			m.Traffic = n
		case "letter":
			setS(pick(r, []string{"x5", "u5x", "5"}))
			m.Traffic = 1
		case "empty":
			setS(pick(r, []string{"u5,", ",u5", "u"}))
			m.Traffic = 1
		default:
			return e, bad
		}
	default:
		return e, fmt.Errorf("unknown field %s", p.F)
	}
	if e.VS == nil {
		e.VS = []string{e.V}
	}
	return e, nil
}

func pickInt(r *rand.Rand, s []int) int { return s[r.Intn(len(s))] }
func maxInt(a, b int) int {
	if a > b {
		return a
	}
	return b
}

// the controls of the form a browser submits, in page order, with the pre-filled defaults (urlgen.html)
var browserOrder = []string{"tsbd", "mup", "spd", "utc", "snr", "periods", "continuous", "ato", "chunkdur", "ltgt", "patch-ttl", "scte35",
	"start", "stop", "startrel", "stoprel", "timesubsstpp", "timesubswvtt", "timesubsdur", "timesubsreg", "drm", "annexI", "statuscode", "traffic"}
var prefilled = map[string]string{"tsbd": "60", "ltgt": "3500", "timesubsdur": "900", "timesubsreg": "0", "drm": "None"}

type kv struct{ k, v string }

// formPairs lists the query pairs of a submission. style "browser": every control; "sparse": only what is set.
func formPairs(style, asset, mpd, stl string, entries []entry) []kv {
	ps := []kv{{"asset", asset}, {"mpd", mpd}, {"stl", stl}}
	set := map[string]string{}
	for _, e := range entries {
		set[e.F] = e.V
	}
	for _, f := range browserOrder {
		if v, ok := set[f]; ok {
			ps = append(ps, kv{f, v})
			continue
		}
		if style != "browser" || f == "continuous" { // an unchecked checkbox is not submitted
			continue
		}
		ps = append(ps, kv{f, prefilled[f]})
	}
	return ps
}

func encode(ps []kv, order []int) string {
	var sb strings.Builder
	for n, i := range order {
		if n > 0 {
			sb.WriteByte('&')
		}
		sb.WriteString(url.QueryEscape(ps[i].k) + "=" + url.QueryEscape(ps[i].v))
	}
	return sb.String()
}

type reqVariant struct {
	Scheme  string `json:"scheme"`
	Host    string `json:"host"`
	Fproto  string `json:"fproto"`
	Fhost   string `json:"fhost"`
	Cfghost string `json:"cfghost"`
}

func variant(hv string) (reqVariant, error) {
	switch hv {
	case "plain":
		return reqVariant{Scheme: "http", Host: plainHost}, nil
	case "https":
		return reqVariant{Scheme: "https", Host: tlsHost}, nil
	case "fwd":
		return reqVariant{Scheme: "http", Host: plainHost, Fproto: "https", Fhost: fwdHost}, nil
	case "cfg":
		return reqVariant{Scheme: "http", Host: plainHost, Cfghost: cfgHost}, nil
	}
	return reqVariant{}, fmt.Errorf("unknown host variant %q", hv)
}

// shown is what a page shows.
type shown struct {
	st     int
	perr   string
	nurl   int
	url    string
	prefix string
	path   []string
	query  string
	msgs   []string
	nplay  int
	play   string
	pg     *page
}

func splitURL(u string) (prefix string, path []string, query string) {
	i := strings.Index(u, "/livesim2/")
	if i < 0 {
		return "", []string{}, ""
	}
	prefix = u[:i]
	rest := u[i+1:]
	if j := strings.Index(rest, "?"); j >= 0 {
		query = rest[j+1:]
		rest = rest[:j]
	}
	return prefix, strings.Split(rest, "/"), query
}

func loadVod(root string, a *vodAsset) error {
	data, err := os.ReadFile(filepath.Join(root, a.path, a.mpd))
	if err != nil {
		return err
	}
	if a.vas, err = x01.VodASKeys(data); err != nil {
		return err
	}
	a.keys = map[string]bool{}
	for _, v := range a.vas {
		a.keys[v[0]] = true
	}
	fs, err := x01.Project(data, nil)
	if err != nil {
		return err
	}
	a.vodUtc = [][2]string{}
	for _, f := range fs {
		if f[1] != "MPD" {
			continue
		}
		switch f[2] {
		case "@id":
			a.vodID = f[5]
		case "UTCTiming@schemeIdUri", "UTCTiming@value", "BaseURL#text", "Location#text", "PatchLocation#text":
			return fmt.Errorf("VoD MPD %s/%s has %s: not an asset this driver knows the ground truth of", a.path, a.mpd, f[2])
		}
	}
	return nil
}

func copyTree(src, dst string) error {
	return filepath.Walk(src, func(p string, info os.FileInfo, err error) error {
		if err != nil {
			return err
		}
		rel, _ := filepath.Rel(src, p)
		d := filepath.Join(dst, rel)
		if info.IsDir() {
			return os.MkdirAll(d, 0o755)
		}
		data, err := os.ReadFile(p)
		if err != nil {
			return err
		}
		return os.WriteFile(d, data, 0o644)
	})
}

func segRange(assetDir string) (int64, int64, error) {
	v, err := project.LoadVodRep(assetDir, "V300", "video", "V300/init.mp4", "V300/$Number$.m4s", 1)
	if err != nil {
		return 0, 0, err
	}
	lo, hi := int64(1<<62), int64(0)
	for _, d := range v.Dur {
		if ms := d * 1000 / v.TS; ms < lo {
			lo = ms
		}
		if ms := (d*1000 + v.TS - 1) / v.TS; ms > hi {
			hi = ms
		}
	}
	return lo, hi, nil
}

func Main(args []string) error {
	fs := flag.NewFlagSet("x04", flag.ExitOnError)
	out := fs.String("out", "x04.ndjson", "trace output")
	work := fs.String("work", "", "scratch directory for the VoD root")
	seed := fs.Int64("seed", 1, "seed")
	gen := fs.String("gen", "", "GEN lines of UrlGen.tla (jsonl)")
	sigcls := fs.String("sigcls", "", "JSON array of the fact classes X01's value clauses read")
	probe := fs.String("probe", "", "semicolon-separated /urlgen/create queries: print what the page shows")
	reps := fs.Int("reps", 1, "seeded concretisations per abstract form")
	_ = fs.Parse(args)
	if *work == "" {
		return fmt.Errorf("-work required")
	}
	vod := filepath.Join(*work, "vod")
	_ = os.RemoveAll(vod)
	for _, a := range []string{"testpic_2s", "testpic_8s"} {
		if err := copyTree(filepath.Join(srv.BundledAssets(), a), filepath.Join(vod, a)); err != nil {
			return err
		}
	}
	drmCfgFile, err := loadDrmPkgs()
	if err != nil {
		return err
	}
	// server A: the repository's test DRM configuration (the form offers the drm radio group only then), no --host
	sA, err := srv.New(vod, func(c *app.ServerConfig) { c.DrmCfgFile = drmCfgFile; c.PlayURL = playTmpl })
	if err != nil {
		return fmt.Errorf("server A: %w", err)
	}
	// server B: --host set
	sB, err := srv.New(vod, func(c *app.ServerConfig) { c.Host = cfgHost; c.PlayURL = playTmpl })
	if err != nil {
		return fmt.Errorf("server B: %w", err)
	}
	// submit sends one form and reads the page
	submit := func(rv reqVariant, query string) shown {
		s := sA
		if rv.Cfghost != "" {
			s = sB
		}
		hdr := map[string]string{}
		if rv.Fproto != "" {
			hdr["X-Forwarded-Proto"] = rv.Fproto
		}
		if rv.Fhost != "" {
			hdr["X-Forwarded-Host"] = rv.Fhost
		}
		r := s.Do("GET", rv.Scheme+"://"+rv.Host+"/urlgen/create?"+query, hdr, nil)
		sh := shown{st: r.Status, path: []string{}, msgs: []string{}}
		if ct := r.Header.Get("Content-Type"); !strings.HasPrefix(ct, "text/html") {
			sh.perr = "content type " + ct
		}
		pg, err := parsePage(r.Body)
		if err != nil {
			sh.perr = err.Error()
			return sh
		}
		sh.pg = pg
		if pg.nforms == 0 && r.Status == 200 {
			sh.perr = "page without a form"
		}
		sh.nurl = len(pg.urls)
		if sh.nurl > 0 {
			sh.url = pg.urls[0]
			sh.prefix, sh.path, sh.query = splitURL(sh.url)
		}
		sh.msgs = append(sh.msgs, pg.msgs...)
		sh.nplay = len(pg.playHrefs)
		if sh.nplay > 0 {
			if pu, err := url.Parse(pg.playHrefs[0]); err == nil {
				sh.play = pu.Query().Get("mpd")
			}
		}
		return sh
	}
	if *probe != "" {
		rv, _ := variant("plain")
		for _, q := range strings.Split(*probe, ";") {
			sh := submit(rv, q)
			fmt.Printf("=== %s -> %d perr=%q\nurls=%d %q prefix=%q path=%q query=%q\nmsgs=%q nplay=%d play=%q\ncontrols=%v\n", q, sh.st, sh.perr,
				sh.nurl, sh.url, sh.prefix, sh.path, sh.query, sh.msgs, sh.nplay, sh.play, sh.pg.controls)
			if sh.nurl > 0 {
				pu := url.URL{Scheme: rv.Scheme, Host: rv.Host, Path: "/" + strings.Join(sh.path, "/"), RawQuery: sh.query}
				if pu.RawQuery != "" {
					pu.RawQuery += "&"
				}
				pu.RawQuery += "nowMS=1700000000123"
				rr := sA.Get(pu.String())
				b := string(rr.Body)
				if len(b) > 400 {
					b = b[:400]
				}
				fmt.Printf("  play %s -> %d %s\n", pu.String(), rr.Status, strings.ReplaceAll(b, "\n", " "))
			}
		}
		return nil
	}
	// ---- assets
	assets := map[string]*vodAsset{
		"plain":  {class: "plain", path: "testpic_2s", mpd: "Manifest.mpd"},
		"thumbs": {class: "thumbs", path: "testpic_2s", mpd: "Manifest_thumbs.mpd"},
		"s8":     {class: "s8", path: "testpic_8s", mpd: "Manifest.mpd"},
		"none":   {class: "none", path: placeAsset, mpd: placeMPD},
	}
	for _, a := range assets {
		if a.class == "none" {
			a.vas, a.vodUtc, a.keys = [][2]string{{"none", "other"}}, [][2]string{}, map[string]bool{}
			a.segMin, a.segMax = 1, 1
			continue
		}
		if a.segMin, a.segMax, err = segRange(filepath.Join(srv.BundledAssets(), a.path)); err != nil {
			return err
		}
		if err := loadVod(vod, a); err != nil {
			return err
		}
	}
	// ---- inputs
	keep := map[string]bool{}
	{
		data, err := os.ReadFile(*sigcls)
		if err != nil {
			return err
		}
		var cls []string
		if err := json.Unmarshal(data, &cls); err != nil {
			return err
		}
		for _, c := range cls {
			keep[c] = true
		}
		if len(keep) == 0 {
			return fmt.Errorf("-sigcls: no classes")
		}
	}
	var gens []genForm
	{
		f, err := os.Open(*gen)
		if err != nil {
			return err
		}
		sc := bufio.NewScanner(f)
		sc.Buffer(make([]byte, 1<<20), 1<<24)
		for sc.Scan() {
			if strings.TrimSpace(sc.Text()) == "" {
				continue
			}
			var g genForm
			if err := json.Unmarshal(sc.Bytes(), &g); err != nil {
				return fmt.Errorf("gen line: %w", err)
			}
			gens = append(gens, g)
		}
		f.Close()
	}
	keyOf := func(g genForm) string {
		s := g.Asset + "|" + g.Stl + "|" + g.Hv
		for _, p := range g.Parts {
			s += "|" + p.F + ":" + p.C
		}
		return s
	}
	sort.Slice(gens, func(i, j int) bool {
		if len(gens[i].Parts) != len(gens[j].Parts) {
			return len(gens[i].Parts) < len(gens[j].Parts)
		}
		return keyOf(gens[i]) < keyOf(gens[j])
	})
	if *reps > 1 { // every abstract form `reps` times, with different seeded values
		base := gens
		gens = nil
		for _, g := range base {
			for k := 0; k < *reps; k++ {
				gens = append(gens, g)
			}
		}
	}
	// ---- instants: one early (days after the epoch), two in 2022-2026; seeded ms remainders
	rng := rand.New(rand.NewSource(*seed))
	nows := []int64{1_200_000_000 + rng.Int63n(700_000_000), 1_650_000_000_000 + rng.Int63n(130_000_000_000), 1_650_000_000_000 + rng.Int63n(130_000_000_000)}
	nows[2] -= nows[2] % 1000
	t1s := nows[0] / 1000

	w, err := tr.New(*out)
	if err != nil {
		return err
	}
	factsJSON := func(fs []x01.Fact) [][6]string {
		out := make([][6]string, 0, len(fs))
		for _, f := range fs {
			out = append(out, [6]string(f))
		}
		return out
	}
	distinct := map[string]bool{}
	samples := []any{}
	fieldsSeen := map[string]int{}
	pageOutcome := map[string]int{}
	playStatus := map[string]int{}
	stabKinds := map[string]int{}
	nreq, nplayed, nfacts := 0, 0, 0
	for id, g := range gens {
		a := assets[g.Asset]
		if a == nil {
			return fmt.Errorf("unknown asset class %q", g.Asset)
		}
		rv, err := variant(g.Hv)
		if err != nil {
			return err
		}
		h := fnv.New64a()
		h.Write([]byte(keyOf(g)))
		r := rand.New(rand.NewSource(*seed*1_000_003 + int64(h.Sum64()>>1) + int64(id%*reps)*7919))
		now := nows[id%len(nows)]
		m := noCfg()
		entries := make([]entry, len(g.Parts))
		startN := 0
		var deferred []int
		for i, p := range g.Parts {
			if p.F == "stop" && p.C == "before" {
				deferred = append(deferred, i)
				continue
			}
			e, err := concretise(r, p, a, t1s, now/1000, &m, 0)
			if err != nil {
				return err
			}
			if p.F == "start" {
				startN = e.N
			}
			entries[i] = e
			fieldsSeen[p.F]++
		}
		for _, i := range deferred {
			e, err := concretise(r, g.Parts[i], a, t1s, now/1000, &m, startN)
			if err != nil {
				return err
			}
			entries[i] = e
			fieldsSeen[g.Parts[i].F]++
		}
		distinct[keyOf(g)] = true
		style := []string{"browser", "sparse"}[r.Intn(2)]
		ps := formPairs(style, a.path, a.mpd, g.Stl, entries)
		w.Emit(tr.E{"ev": "hdr", "id": id, "stl": g.Stl, "acls": g.Asset, "aseg": strings.Split(a.path, "/"), "mpd": a.mpd, "hv": g.Hv,
			"form": entries, "req": rv, "style": style, "m": m,
			"classes": classesOf(g),
			"e": tr.E{"mode": map[string]string{"nr": "number", "tlt": "time", "tlnr": "tlnr"}[g.Stl], "segMin": a.segMin, "segMax": a.segMax,
				"vas": a.vas, "vodId": a.vodID, "vodUtc": a.vodUtc, "host": hostOf(rv), "url": []urlPart{}, "drmScheme": drmScheme(m.Drm)}})
		q0 := encode(ps, r.Perm(len(ps)))
		sh := submit(rv, q0)
		nreq++
		switch {
		case sh.st != 200 || sh.perr != "":
			pageOutcome["no-page"]++
		case sh.nurl > 0:
			pageOutcome["url"]++
		default:
			pageOutcome["rejected"]++
		}
		w.Emit(tr.E{"ev": "gen", "id": id, "st": sh.st, "perr": sh.perr, "nurl": sh.nurl, "url": sh.url, "prefix": sh.prefix, "path": sh.path,
			"query": sh.query, "msgs": sh.msgs, "nplay": sh.nplay, "plaympd": sh.play, "q": q0})
		if len(samples) < 8 && id%131 == 0 {
			samples = append(samples, map[string]any{"form": q0, "url": sh.url, "messages": sh.msgs})
		}
		if sh.st != 200 || sh.perr != "" {
			continue
		}
		// ---- play the shown URL: its path and query on the server that generated it
		if sh.nurl > 0 && len(sh.path) > 0 {
			pu := url.URL{Scheme: rv.Scheme, Host: rv.Host, Path: "/" + strings.Join(sh.path, "/"), RawQuery: sh.query}
			if pu.RawQuery != "" {
				pu.RawQuery += "&"
			}
			pu.RawQuery += "nowMS=" + strconv.FormatInt(now, 10)
			s := sA
			if rv.Cfghost != "" {
				s = sB
			}
			resp := s.Get(pu.String())
			nreq++
			nplayed++
			playStatus[strconv.Itoa(resp.Status)]++
			perr := ""
			var sig []x01.Fact
			if resp.Status == 200 {
				facts, err := x01.Project(resp.Body, a.keys)
				if err != nil {
					perr = err.Error()
				}
				for _, x := range facts {
					if keep[x[2]] {
						sig = append(sig, x)
					}
				}
				nfacts += len(facts)
			}
			eurl := []urlPart{}
			na := len(strings.Split(a.path, "/"))
			for i, seg := range sh.path {
				k := ""
				if i > 0 && i < len(sh.path)-na-1 {
					if key, _, ok := strings.Cut(seg, "_"); ok {
						k = key
					}
				}
				eurl = append(eurl, urlPart{k, seg})
			}
			body := ""
			if resp.Status != 200 {
				body = string(resp.Body)
				if len(body) > 200 {
					body = body[:200]
				}
			}
			w.Emit(tr.E{"ev": "play", "id": id, "st": resp.Status, "perr": perr, "now": []int64{now / 1000, now % 1000}, "facts": factsJSON(sig),
				"eurl": eurl, "purl": pu.String(), "body": strings.TrimSpace(body)})
		}
		// ---- stability
		stab := func(kind string, query string, fb []control) {
			s2 := submit(rv, query)
			nreq++
			stabKinds[kind]++
			if fb == nil {
				fb = []control{}
			}
			w.Emit(tr.E{"ev": "stab", "id": id, "kind": kind, "st": s2.st, "perr": s2.perr, "nurl": s2.nurl, "url": s2.url, "nmsgs": len(s2.msgs), "fb": fb, "q": query})
		}
		// another order of the same pairs (reversed and rotated)
		{
			ord := make([]int, len(ps))
			rot := r.Intn(len(ps))
			for i := range ord {
				ord[i] = (len(ps) - 1 - i + rot) % len(ps)
			}
			stab("order", encode(ps, ord), nil)
		}
		// the other submission style
		{
			other := "sparse"
			if style == "sparse" {
				other = "browser"
			}
			ps2 := formPairs(other, a.path, a.mpd, g.Stl, entries)
			ord := make([]int, len(ps2))
			for i := range ord {
				ord[i] = i
			}
			stab("style", encode(ps2, ord), nil)
		}
		// the URL's parts read back as form values (UrlGenOps.FieldOfKey)
		if sh.nurl == 1 && len(sh.path) >= len(strings.Split(a.path, "/"))+2 {
			na := len(strings.Split(a.path, "/"))
			mid := sh.path[1 : len(sh.path)-na-1]
			stl := "nr"
			var fb []control
			for _, seg := range mid {
				key, val, _ := strings.Cut(seg, "_")
				switch key {
				case "segtimeline":
					stl = "tlt"
				case "segtimelinenr":
					stl = "tlnr"
				case "continuous":
					fb = append(fb, control{"continuous", "on"})
				case "patch":
					fb = append(fb, control{"patch-ttl", val})
				default:
					fb = append(fb, control{key, val})
				}
			}
			fb = append([]control{{"stl", stl}}, fb...)
			ps3 := []kv{{"asset", strings.Join(sh.path[len(sh.path)-na-1:len(sh.path)-1], "/")}, {"mpd", sh.path[len(sh.path)-1]}}
			for _, c := range fb {
				ps3 = append(ps3, kv{c.Name, c.Value})
			}
			ord := make([]int, len(ps3))
			for i := range ord {
				ord[i] = i
			}
			stab("feedback", encode(ps3, ord), fb)
		}
		// the form the page shows, submitted as a browser would
		if sh.pg != nil && len(sh.pg.controls) > 0 {
			ps4 := make([]kv, 0, len(sh.pg.controls))
			for _, c := range sh.pg.controls {
				ps4 = append(ps4, kv{c.Name, c.Value})
			}
			ord := make([]int, len(ps4))
			for i := range ord {
				ord[i] = i
			}
			stab("form", encode(ps4, ord), nil)
		}
	}
	if err := w.Close(); err != nil {
		return err
	}
	tr.PrintStats(map[string]any{"scenarios": len(gens), "events": w.N, "distinct": len(distinct), "samples": samples, "forms": len(gens),
		"requests": nreq, "played": nplayed, "facts": nfacts, "fields": fieldsSeen, "pages": pageOutcome, "play_status": playStatus,
		"stab": stabKinds, "instants": nows})
	return nil
}

func hostOf(rv reqVariant) string {
	if rv.Cfghost != "" {
		return rv.Cfghost
	}
	return rv.Scheme + "://" + rv.Host
}

func classesOf(g genForm) string {
	var s []string
	for _, p := range g.Parts {
		s = append(s, p.F+":"+p.C)
	}
	sort.Strings(s)
	return strings.Join(s, "+")
}

package x04

// Tolerant reading of the page that /urlgen/create returns (HTML tokenizer, no assumptions about nesting beyond
// what is named here).  Nothing of livesim2 is used.
//
//	shown URLs   every text line that starts with "URL=" inside an <article>
//	play links   href of every <a> whose text is "Play"
//	messages     the text lines (split at <br> and element boundaries) of every <article> that shows no URL
//	host line    the text of the first element whose text starts with "host="
//	form         the successful controls of the first <form> in document order, as a browser would submit them:
//	             text inputs always (name=value), the checked radio of a group, a checked checkbox (value, default
//	             "on"), the selected <option> of a <select> (the first option when none is selected)

import (
	"bytes"
	"strings"

	"golang.org/x/net/html"
)

type control struct {
	Name  string `json:"f"`
	Value string `json:"v"`
}

type page struct {
	urls      []string
	playHrefs []string
	msgs      []string
	hostLine  string
	action    string
	controls  []control
	nforms    int
}

func attrOf(t html.Token, name string) (string, bool) {
	for _, a := range t.Attr {
		if a.Key == name {
			return a.Val, true
		}
	}
	return "", false
}

func parsePage(body []byte) (*page, error) {
	p := &page{}
	z := html.NewTokenizer(bytes.NewReader(body))
	inArticle := 0
	var artLines []string
	var line strings.Builder
	flush := func() {
		if s := strings.TrimSpace(line.String()); s != "" && inArticle > 0 {
			artLines = append(artLines, s)
		}
		line.Reset()
	}
	endArticle := func() {
		flush()
		hasURL := false
		for _, l := range artLines {
			if strings.HasPrefix(l, "URL=") {
				hasURL = true
				p.urls = append(p.urls, strings.TrimSpace(strings.TrimPrefix(l, "URL=")))
			}
		}
		if !hasURL {
			p.msgs = append(p.msgs, artLines...)
		}
		artLines = nil
	}
	inAnchor := false
	var anchorHref string
	var anchorText strings.Builder
	inForm := false
	var selName string
	var selValue string
	selHas, selChosen, inSelect := false, false, false
	inOption := false
	var optValue string
	optHasValue, optSelected := false, false
	var optText strings.Builder
	endOption := func() {
		if !inOption {
			return
		}
		inOption = false
		v := optValue
		if !optHasValue {
			v = strings.TrimSpace(optText.String())
		}
		if !selHas { // first option: what a browser submits when none is selected
			selValue, selHas = v, true
		}
		if optSelected && !selChosen {
			selValue, selChosen = v, true
		}
	}
	for {
		tt := z.Next()
		if tt == html.ErrorToken {
			break // io.EOF or a malformed tail: keep what was read (tolerant)
		}
		t := z.Token()
		switch tt {
		case html.TextToken:
			txt := t.Data
			if inArticle > 0 {
				line.WriteString(txt)
			}
			if inAnchor {
				anchorText.WriteString(txt)
			}
			if inOption {
				optText.WriteString(txt)
			}
			if p.hostLine == "" {
				if s := strings.TrimSpace(txt); strings.HasPrefix(s, "host=") {
					p.hostLine = s
				}
			}
		case html.StartTagToken, html.SelfClosingTagToken:
			if inArticle > 0 {
				flush()
			}
			switch t.Data {
			case "article":
				inArticle++
			case "a":
				inAnchor = true
				anchorHref, _ = attrOf(t, "href")
				anchorText.Reset()
			case "form":
				p.nforms++
				if p.nforms == 1 {
					inForm = true
					p.action, _ = attrOf(t, "action")
				}
			case "input":
				if !inForm {
					break
				}
				name, ok := attrOf(t, "name")
				if !ok || name == "" {
					break
				}
				typ, _ := attrOf(t, "type")
				val, hasVal := attrOf(t, "value")
				_, checked := attrOf(t, "checked")
				switch strings.ToLower(typ) {
				case "radio":
					if checked {
						p.controls = append(p.controls, control{name, val})
					}
				case "checkbox":
					if checked {
						if !hasVal {
							val = "on"
						}
						p.controls = append(p.controls, control{name, val})
					}
				case "button", "submit", "reset", "image", "file":
				default:
					p.controls = append(p.controls, control{name, val})
				}
			case "select":
				if inForm {
					inSelect = true
					selName, _ = attrOf(t, "name")
					selValue, selHas, selChosen = "", false, false
				}
			case "option":
				if inSelect {
					endOption()
					inOption = true
					optValue, optHasValue = attrOf(t, "value")
					_, optSelected = attrOf(t, "selected")
					optText.Reset()
				}
			}
		case html.EndTagToken:
			if inArticle > 0 {
				flush()
			}
			switch t.Data {
			case "article":
				if inArticle > 0 {
					inArticle--
					if inArticle == 0 {
						endArticle()
					}
				}
			case "a":
				if inAnchor && strings.TrimSpace(anchorText.String()) == "Play" {
					p.playHrefs = append(p.playHrefs, anchorHref)
				}
				inAnchor = false
			case "form":
				inForm = false
			case "option":
				endOption()
			case "select":
				endOption()
				if inSelect && selName != "" && selHas {
					p.controls = append(p.controls, control{selName, selValue})
				}
				inSelect = false
			}
		}
	}
	if inArticle > 0 {
		endArticle()
	}
	return p, nil
}

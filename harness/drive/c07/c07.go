// Package c07 drives the real livesim2 server for property C07: "responses are a pure function of
// (URL, time) and race-free".
//
// A request pool (MPDs of all three types with/without periods_, patch_, ato_; init; media incl. re-segmented
// audio, text, thumbnails; DRM eccp-cbcs/cenc/CPIX init+media; generated subtitles; patch documents; a few
// chunked requests at instants after the segment end) x instants (?nowMS=) is derived from the server's own
// MPDs and then served in phases by several server instances:
//
//	disc      the discovery instance (requests made while the pool is built)
//	long      ONE long-running instance: seqA (pool order), seqP (seeded permutation), rep (every request
//	          twice in a row), conc (32 goroutines, seeded mix, every request at least twice)
//	fresh-k   fresh instances, each serving a slice of another permutation as its first requests
//	writer    an instance that scans the VoD root and WRITES representation metadata files
//	cached    an instance LOADED from those metadata files
//	race-*    the same mixes in a second process built with -race (mode "race"), together with urlgen/assets
//	          pages, /reqcount, /metrics and the ingest API (aux events, never entered into the memo)
//
// Every response becomes a `resp` event {inst, phase, kind, key, dig}; dig = status|content-type|sha256(body).
// Response headers are not part of the digest (they carry request ids, dates, counters of the limiter).
// The events are written partitioned by a hash of the key (all events of a key in one part, recording order
// kept) so that the parts can be validated by concurrent TLC processes.
package c07

import (
	"crypto/sha256"
	"encoding/hex"
	"encoding/json"
	"flag"
	"fmt"
	"hash/fnv"
	"math/rand"
	"os"
	"path/filepath"
	"sort"
	"strconv"
	"strings"
	"sync"

	"github.com/Dash-Industry-Forum/livesim2/cmd/livesim2/app"

	"verifharness/drive/tl"
	"verifharness/srv"
	"verifharness/tr"
)

const nParts = 16

type rec struct {
	Inst, Phase, Kind, Key, Dig string
	St                          int
	Aux                         tr.E // non-nil: an aux event instead of a response
}

type recorder struct {
	mu   sync.Mutex
	recs []rec
	st   map[string]map[int]int // kind -> status -> count
}

func newRecorder() *recorder { return &recorder{st: map[string]map[int]int{}} }

func digest(r srv.Resp) string {
	h := sha256.Sum256(r.Body)
	return strconv.Itoa(r.Status) + "|" + r.Header.Get("Content-Type") + "|" + hex.EncodeToString(h[:])
}

func (rc *recorder) add(inst, phase string, it item, r srv.Resp) {
	d := digest(r)
	rc.mu.Lock()
	rc.recs = append(rc.recs, rec{Inst: inst, Phase: phase, Kind: it.Kind, Key: it.Key(), Dig: d, St: r.Status})
	m := rc.st[it.Kind]
	if m == nil {
		m = map[int]int{}
		rc.st[it.Kind] = m
	}
	m[r.Status]++
	rc.mu.Unlock()
}

// gap200 counts the 200 responses of the cache-loaded instance for the gap asset (per kind).
func (rc *recorder) gap200() map[string]int {
	res := map[string]int{}
	for _, r := range rc.recs {
		if r.Aux == nil && r.Inst == "cached" && r.St == 200 && strings.Contains(r.Key, "/"+gapAsset+"/") {
			res[r.Kind]++
		}
	}
	return res
}

func (rc *recorder) merge(o *recorder) {
	rc.mu.Lock()
	defer rc.mu.Unlock()
	rc.recs = append(rc.recs, o.recs...)
	for k, m := range o.st {
		if rc.st[k] == nil {
			rc.st[k] = map[int]int{}
		}
		for st, c := range m {
			rc.st[k][st] += c
		}
	}
}

func (rc *recorder) aux(e tr.E) {
	e["ev"] = "aux"
	rc.mu.Lock()
	rc.recs = append(rc.recs, rec{Aux: e})
	rc.mu.Unlock()
}

func partOf(key string) int {
	h := fnv.New32a()
	h.Write([]byte(key))
	return int(h.Sum32() % nParts)
}

// write emits the events partitioned by key hash; aux events go to part 0.
func (rc *recorder) write(path string, proc string) (events int, err error) {
	w, err := tr.New(path)
	if err != nil {
		return 0, err
	}
	parts := make([][]rec, nParts)
	for _, r := range rc.recs {
		p := 0
		if r.Aux == nil {
			p = partOf(r.Key)
		}
		parts[p] = append(parts[p], r)
	}
	for p, rs := range parts {
		w.Emit(tr.E{"ev": "hdr", "part": p, "nparts": nParts, "proc": proc, "n": len(rs)})
		for _, r := range rs {
			if r.Aux != nil {
				w.Emit(r.Aux)
				continue
			}
			w.Emit(tr.E{"ev": "resp", "inst": r.Inst, "phase": r.Phase, "kind": r.Kind, "key": r.Key, "dig": r.Dig, "st": r.St})
		}
	}
	n := w.N
	return n, w.Close()
}

func drmCfgFile() string { return filepath.Join(srv.RepoRoot(), "pkg/drm/testdata/drm_config_test.json") }

func newInst(root string, limiter bool, repData string, write bool) (*srv.S, error) {
	return srv.New(root, func(c *app.ServerConfig) {
		c.DrmCfgFile = drmCfgFile()
		if limiter {
			c.MaxRequests = 1 << 30 // limiter middleware in the request path, quota never reached
		}
		c.RepDataRoot = repData
		c.WriteRepData = write
	})
}

func perm(rng *rand.Rand, pool []item) []item {
	p := append([]item(nil), pool...)
	rng.Shuffle(len(p), func(i, j int) { p[i], p[j] = p[j], p[i] })
	return p
}

func serveSeq(rc *recorder, s *srv.S, inst, phase string, items []item) {
	for _, it := range items {
		rc.add(inst, phase, it, s.Get(it.Full()))
	}
}

// serveConc serves items on `workers` goroutines. The harness adds NO synchronisation between the workers while
// they run (static partition of the seeded order, worker-local buffers, merged after the join): the Go race
// detector is happens-before based, a shared cursor or a shared recorder lock would order the requests of
// different workers and hide races of the server from it.
func serveConc(rc *recorder, s *srv.S, inst, phase string, items []item, workers int) {
	locals := make([]*recorder, workers)
	start := make(chan struct{})
	var wg sync.WaitGroup
	for g := 0; g < workers; g++ {
		locals[g] = newRecorder()
		wg.Add(1)
		go func(g int) {
			defer wg.Done()
			<-start
			for i := g; i < len(items); i += workers {
				locals[g].add(inst, phase, items[i], s.Get(items[i].Full()))
			}
		}(g)
	}
	close(start)
	wg.Wait()
	for _, l := range locals {
		rc.merge(l)
	}
}

func countFiles(dir, suffix string) int {
	n := 0
	_ = filepath.Walk(dir, func(p string, info os.FileInfo, err error) error {
		if err == nil && !info.IsDir() && filepath.Ext(p) == suffix {
			n++
		}
		return nil
	})
	return n
}

func Main(args []string) error {
	fs := flag.NewFlagSet("c07", flag.ExitOnError)
	mode := fs.String("mode", "main", "setup | main | race")
	out := fs.String("out", "c07.ndjson", "trace output")
	work := fs.String("work", "", "scratch directory")
	vod := fs.String("vod", "", "VoD root built by -mode setup")
	seed := fs.Int64("seed", 1, "seed")
	thorough := fs.Bool("thorough", false, "thorough tier")
	n := fs.Int("n", 10000, "target number of responses")
	phases := fs.String("phases", "all", "race mode: all | ingest (skip the response mixes)")
	statsFile := fs.String("stats", "", "also write the stats JSON to this file (race mode: before the ingest phase and at the end)")
	_ = fs.Parse(args)
	if *work == "" {
		return fmt.Errorf("-work required")
	}
	switch *mode {
	case "setup":
		root := filepath.Join(*work, "vod")
		_ = os.RemoveAll(root)
		env, err := tl.Setup(root, *thorough)
		if err != nil {
			return err
		}
		env.S.Cancel()
		if err := addGapAsset(root); err != nil {
			return err
		}
		tr.PrintStats(map[string]any{"scenarios": 0, "events": 0, "distinct": 0, "samples": []any{}, "vod": root, "assets": len(env.Assets)})
		return nil
	case "main":
		return runMain(*vod, *work, *out, *seed, *thorough, *n)
	case "race":
		return runRace(*vod, *work, *out, *seed, *thorough, *n, *statsFile, *phases)
	}
	return fmt.Errorf("unknown mode %q", *mode)
}

func statusTable(rc *recorder) map[string]map[string]int {
	res := map[string]map[string]int{}
	for k, m := range rc.st {
		res[k] = map[string]int{}
		for st, c := range m {
			res[k][strconv.Itoa(st)] = c
		}
	}
	return res
}

func runMain(root, work, out string, seed int64, thorough bool, n int) error {
	if root == "" {
		return fmt.Errorf("-vod required")
	}
	rc := newRecorder()
	rng := rand.New(rand.NewSource(seed))
	// multiplicity of a pool item over all phases (see below)
	mult := 7.5
	nFresh, concCopies, freshShare := 3, 2, 3
	if thorough {
		mult, nFresh, concCopies, freshShare = 12.5, 12, 4, 4
	}
	target := int(float64(n) / mult)
	disc, err := newInst(root, false, "", false)
	if err != nil {
		return err
	}
	pool, ps, err := buildPool(disc, root, seed, thorough, target, func(it item, r srv.Resp) { rc.add("disc", "discover", it, r) })
	if err != nil {
		return err
	}
	disc.Cancel()
	if len(pool) < target/2 {
		return fmt.Errorf("pool too small: %d of %d", len(pool), target)
	}
	// ---- the long-running instance
	long, err := newInst(root, true, "", false)
	if err != nil {
		return err
	}
	serveSeq(rc, long, "long", "seqA", pool)
	serveSeq(rc, long, "long", "seqP", perm(rng, pool))
	var twice []item
	for _, it := range perm(rng, pool)[:len(pool)/2] {
		twice = append(twice, it, it)
	}
	serveSeq(rc, long, "long", "rep", twice)
	var mix []item
	for k := 0; k < concCopies; k++ {
		mix = append(mix, perm(rng, pool)...)
	}
	serveConc(rc, long, "long", "conc", mix, 32)
	// ... and once more sequentially after the concurrent phase (damage done by the concurrent phase shows here)
	serveSeq(rc, long, "long", "after", perm(rng, pool)[:len(pool)/2])
	// ---- fresh instances: first requests of a new process image of the asset tables
	for k := 0; k < nFresh; k++ {
		f, err := newInst(root, false, "", false)
		if err != nil {
			return err
		}
		p := perm(rng, pool)
		serveSeq(rc, f, "fresh-"+strconv.Itoa(k), "fresh", p[:len(p)/freshShare])
		f.Cancel()
	}
	// ---- metadata files: written by one instance, loaded by the next
	repDir := filepath.Join(work, "repdata")
	_ = os.RemoveAll(repDir)
	if err := os.MkdirAll(repDir, 0o755); err != nil {
		return err
	}
	wr, err := newInst(root, false, repDir, true)
	if err != nil {
		return err
	}
	p := perm(rng, pool)
	serveSeq(rc, wr, "writer", "writer", p[:len(p)/4])
	wr.Cancel()
	nRepFiles := countFiles(repDir, ".gz")
	if nRepFiles == 0 {
		return fmt.Errorf("the writer instance wrote no representation metadata below %s", repDir)
	}
	// metadata files that parse but are refused by the loading instance (gap asset, stale edits): see repdata.go
	gapFiles, staleFiles, err := prepareRefusedFiles(repDir, rng)
	if err != nil {
		return err
	}
	ca, err := newInst(root, false, repDir, false)
	if err != nil {
		return err
	}
	serveSeq(rc, ca, "cached", "cached", perm(rng, pool))
	ca.Cancel()
	long.Cancel()

	events, err := rc.write(out, "main")
	if err != nil {
		return err
	}
	// accounting
	perKey := map[string]map[string]bool{}
	nresp := 0
	for _, r := range rc.recs {
		if r.Aux != nil {
			continue
		}
		nresp++
		if perKey[r.Key] == nil {
			perKey[r.Key] = map[string]bool{}
		}
		perKey[r.Key][r.Inst+"/"+r.Phase] = true
	}
	multi := 0
	for _, m := range perKey {
		if len(m) >= 4 {
			multi++
		}
	}
	var samples []any
	for i := 0; i < len(pool) && len(samples) < 8; i += len(pool)/8 + 1 {
		samples = append(samples, pool[i].Kind+" "+pool[i].Full())
	}
	tr.PrintStats(map[string]any{
		"scenarios": 7 + nFresh, "events": events, "responses": nresp, "distinct": len(perKey), "keys_in_4_or_more_instance_phases": multi,
		"pool": len(pool), "pool_by_kind": ps.ByKind, "groups": ps.Groups, "groups_by_config_class": ps.ByTag, "assets": ps.Assets,
		"discovery_requests": ps.Disc, "mpd_refused_at_discovery": ps.DiscFail, "status_by_kind": statusTable(rc),
		"rep_metadata_files": nRepFiles, "refused_gap_files": gapFiles, "refused_stale_files": staleFiles,
		"gap_asset_200": rc.gap200(), "fresh_instances": nFresh, "samples": samples,
	})
	return nil
}

func writeStats(path string, st map[string]any) {
	if path == "" {
		return
	}
	data, _ := json.Marshal(st)
	_ = os.WriteFile(path, data, 0o644)
}

func sortedKeys(m map[string]int) []string {
	var ks []string
	for k := range m {
		ks = append(ks, k)
	}
	sort.Strings(ks)
	return ks
}

package c07

import (
	"encoding/xml"
	"fmt"
	"math/rand"
	"os"
	"path/filepath"
	"regexp"
	"sort"
	"strconv"
	"strings"
	"time"

	"verifharness/srv"
)

// item is one request of the pool: URL (path, plus a query for patch documents) and the instant.
// key = URL "@" nowMS is the argument of the function the property talks about.
type item struct {
	URL  string
	Now  int64
	Kind string // mpd | init | media | audio | text | thumb | subs | drm-init | drm-media | chunked | patch | neg
	Grp  int    // group (asset x configuration x instant) the item was discovered in
}

func (it item) Key() string { return it.URL + "@" + strconv.FormatInt(it.Now, 10) }

func (it item) Full() string {
	sep := "?"
	if strings.Contains(it.URL, "?") {
		sep = "&"
	}
	return it.URL + sep + "nowMS=" + strconv.FormatInt(it.Now, 10)
}

// ---- minimal MPD model (encoding/xml; independent of livesim2's own MPD package use)

type xS struct {
	T *int64 `xml:"t,attr"`
	D int64  `xml:"d,attr"`
	R int    `xml:"r,attr"`
}
type xST struct {
	Media       string `xml:"media,attr"`
	Init        string `xml:"initialization,attr"`
	StartNumber *int64 `xml:"startNumber,attr"`
	Timescale   *int64 `xml:"timescale,attr"`
	Duration    *int64 `xml:"duration,attr"`
	TL          *struct {
		S []xS `xml:"S"`
	} `xml:"SegmentTimeline"`
}
type xRep struct {
	ID string `xml:"id,attr"`
	ST *xST   `xml:"SegmentTemplate"`
}
type xAS struct {
	ContentType string `xml:"contentType,attr"`
	MimeType    string `xml:"mimeType,attr"`
	ST          *xST   `xml:"SegmentTemplate"`
	Reps        []xRep `xml:"Representation"`
}
type xPeriod struct {
	ID    string `xml:"id,attr"`
	Start string `xml:"start,attr"`
	AS    []xAS  `xml:"AdaptationSet"`
}
type xMPD struct {
	AST         string    `xml:"availabilityStartTime,attr"`
	PublishTime string    `xml:"publishTime,attr"`
	Periods     []xPeriod `xml:"Period"`
}

var durRe = regexp.MustCompile(`^PT(?:(\d+)H)?(?:(\d+)M)?(?:([\d.]+)S)?$`)

func durMS(s string) int64 {
	m := durRe.FindStringSubmatch(s)
	if m == nil {
		return 0
	}
	var ms int64
	if m[1] != "" {
		h, _ := strconv.ParseInt(m[1], 10, 64)
		ms += h * 3600_000
	}
	if m[2] != "" {
		mi, _ := strconv.ParseInt(m[2], 10, 64)
		ms += mi * 60_000
	}
	if m[3] != "" {
		f, _ := strconv.ParseFloat(m[3], 64)
		ms += int64(f*1000 + 0.5)
	}
	return ms
}

// config is a livesim2 URL configuration (the part between /livesim2/ and the asset).
type config struct {
	parts string
	tag   string // class of the configuration (coverage accounting)
	only  string // "" | "t2" (only for the asset with text and thumbnails) | "enc" (only assets whose init can be encrypted)
}

func configs(thorough bool) []config {
	var cs []config
	for _, b := range []string{"", "segtimeline_1", "segtimelinenr_1"} {
		j := func(x string) string {
			if b == "" {
				return x
			}
			if x == "" {
				return b
			}
			return b + "/" + x
		}
		cs = append(cs,
			config{j(""), "plain", ""},
			config{j("periods_60"), "periods", ""},
			config{j("patch_60"), "patch", ""},
			config{j("ato_1"), "ato", ""},
			config{j("timesubsstpp_en,sv"), "stpp", ""},
			config{j("timesubswvtt_en"), "wvtt", ""},
			config{j("eccp_cbcs"), "eccp-cbcs", "enc"},
			config{j("eccp_cenc"), "eccp-cenc", "enc"},
			config{j("drm_EZDRM-1-key-cbcs-test"), "drm", "enc"},
			config{j("ato_1/chunkdur_0.5"), "chunked", ""},
		)
		if thorough || b == "" {
			cs = append(cs,
				config{j("periods_60/continuous_1"), "periods", ""},
				config{j("periods_30/patch_60"), "patch", ""},
				config{j("scte35_2"), "scte35", ""},
				config{j("tsbd_30/snr_7"), "plain", ""},
				config{j("start_1000/utc_direct-head"), "plain", ""},
				config{j("eccp_cbcs/ato_1/chunkdur_0.5"), "chunked", "enc"},
				config{j("eccp_cenc/timesubsstpp_en"), "stpp", "enc"},
				config{j("drm_EZDRM-2-keys-cbcs-test"), "drm", "enc"},
				config{j("ato_inf"), "ato", ""},
			)
		}
	}
	return cs
}

type assetRef struct {
	Name string
	MPD  string
}

// listAssets walks the VoD root: every directory with an MPD file is an asset (the server does the same).
func listAssets(root string) ([]assetRef, error) {
	var as []assetRef
	err := filepath.Walk(root, func(p string, info os.FileInfo, err error) error {
		if err != nil {
			return err
		}
		if !info.IsDir() && strings.HasSuffix(p, ".mpd") {
			rel, _ := filepath.Rel(root, p)
			d, f := filepath.Split(rel)
			as = append(as, assetRef{Name: strings.TrimSuffix(d, "/"), MPD: f})
		}
		return nil
	})
	sort.Slice(as, func(i, j int) bool { return as[i].Name+"/"+as[i].MPD < as[j].Name+"/"+as[j].MPD })
	return as, err
}

func subst(pat, repID string, nr, t int64) string {
	s := strings.ReplaceAll(pat, "$RepresentationID$", repID)
	s = strings.ReplaceAll(s, "$Number$", strconv.FormatInt(nr, 10))
	s = strings.ReplaceAll(s, "$Time$", strconv.FormatInt(t, 10))
	return s
}

type segRef struct{ nr, t int64 }

// newest returns up to `want` newest segments (newest first) announced / implied by the template at nowMS,
// plus one segment in the future. Only used to CHOOSE requests; nothing is expected of the answers.
func newest(st *xST, nowMS, astMS, pStartMS int64, want int) (segs []segRef, future *segRef) {
	ts := int64(1)
	if st.Timescale != nil {
		ts = *st.Timescale
	}
	sn := int64(1)
	if st.StartNumber != nil {
		sn = *st.StartNumber
	}
	if st.TL != nil {
		var all []segRef
		var t int64
		nr := sn
		for _, s := range st.TL.S {
			if s.T != nil {
				t = *s.T
			}
			for k := 0; k <= s.R; k++ {
				all = append(all, segRef{nr, t})
				t += s.D
				nr++
			}
		}
		for i := len(all) - 1; i >= 0 && len(segs) < want; i-- {
			segs = append(segs, all[i])
		}
		if len(st.TL.S) > 0 {
			d := st.TL.S[len(st.TL.S)-1].D
			future = &segRef{nr + 2, t + 2*d}
		}
		return
	}
	if st.Duration == nil || *st.Duration == 0 {
		return
	}
	rel := nowMS - astMS - pStartMS
	if rel < 0 {
		return
	}
	n := rel*ts/(*st.Duration*1000) + sn - 2 // one whole segment of margin
	for k := int64(0); k < int64(want) && n-k >= sn; k++ {
		segs = append(segs, segRef{n - k, 0})
	}
	future = &segRef{n + 5, 0}
	return
}

var pubRe = regexp.MustCompile(`publishTime="([^"]+)"`)

type poolStats struct {
	Groups   int
	ByKind   map[string]int
	ByTag    map[string]int
	Assets   int
	Disc     int
	DiscFail int
}

// buildPool derives the request pool from the server's own MPDs (discovery instance `s`): for every
// (asset, configuration, instant) group the MPD, and per representation the init segment and the newest
// media segments (plus one too-early and one long-gone segment, an unknown representation, patch documents).
// Deterministic for a given (root, seed, thorough, target).
func buildPool(s *srv.S, root string, seed int64, thorough bool, target int, rec func(it item, r srv.Resp)) ([]item, *poolStats, error) {
	assets, err := listAssets(root)
	if err != nil {
		return nil, nil, err
	}
	rng := rand.New(rand.NewSource(seed*7919 + 17))
	ps := &poolStats{ByKind: map[string]int{}, ByTag: map[string]int{}, Assets: len(assets)}
	type group struct {
		a    assetRef
		c    config
		now  int64
		must bool
	}
	instants := func() []int64 {
		// early in 1970, the round billion, today-ish; all seeded off the segment grid
		base := []int64{3_600_000 + rng.Int63n(7_200_000), 1_000_000_000_000 + rng.Int63n(86_400_000), 1_700_000_000_000 + rng.Int63n(86_400_000_000),
			1_790_000_000_000 + rng.Int63n(1_000_000)}
		rng.Shuffle(len(base), func(i, j int) { base[i], base[j] = base[j], base[i] })
		return base
	}
	var groups []group
	cs := configs(thorough)
	t2 := 0
	for _, a := range assets {
		isT2 := a.Name == "testpic_2s" && a.MPD != "Manifest_endNumber.mpd"
		for ci, c := range cs {
			ins := instants()
			nI := 2
			if thorough {
				nI = 3
			}
			for k := 0; k < nI; k++ {
				now := ins[k]
				if strings.Contains(c.parts, "start_1000") && now < 2_000_000 {
					now += 2_000_000
				}
				// mandatory: every configuration on the asset with text and thumbnails, its three MPDs in turn
				must := isT2 && k == 0 && (ci+int(seed))%3 == t2
				if a.Name == gapAsset && k == 0 && (c.tag == "plain" || c.tag == "periods" || c.tag == "stpp") {
					must = true // the asset whose metadata file is refused by the loading instance
				}
				groups = append(groups, group{a, c, now, must})
			}
		}
		if isT2 {
			t2++
		}
	}
	// mandatory groups first, the rest in seeded order
	var must, rest []group
	for _, g := range groups {
		if g.must {
			must = append(must, g)
		} else {
			rest = append(rest, g)
		}
	}
	rng.Shuffle(len(rest), func(i, j int) { rest[i], rest[j] = rest[j], rest[i] })
	groups = append(must, rest...)

	var pool []item
	seen := map[string]bool{}
	add := func(it item) {
		if seen[it.Key()] {
			return
		}
		seen[it.Key()] = true
		pool = append(pool, it)
		ps.ByKind[it.Kind]++
	}
	get := func(it item) srv.Resp {
		r := s.Get(it.Full())
		ps.Disc++
		if rec != nil {
			rec(it, r)
		}
		return r
	}
	for gi, g := range groups {
		if len(pool) >= target {
			break
		}
		prefix := "/livesim2/"
		if g.c.parts != "" {
			prefix += g.c.parts + "/"
		}
		prefix += g.a.Name + "/"
		mpdIt := item{URL: prefix + g.a.MPD, Now: g.now, Kind: "mpd", Grp: gi}
		r := get(mpdIt)
		if r.Status != 200 {
			ps.DiscFail++
			if ps.DiscFail%5 == 1 { // keep some refused configurations as negative requests
				mpdIt.Kind = "neg"
				add(mpdIt)
			}
			continue
		}
		var x xMPD
		if err := xml.Unmarshal(r.Body, &x); err != nil || len(x.Periods) == 0 {
			return nil, nil, fmt.Errorf("cannot parse MPD %s: %v", mpdIt.Full(), err)
		}
		ps.Groups++
		ps.ByTag[g.c.tag]++
		add(mpdIt)
		var astMS int64
		if t, err := time.Parse(time.RFC3339, x.AST); err == nil {
			astMS = t.UnixMilli()
		}
		// the same MPD a little later / earlier (other function arguments of the same URL)
		add(item{URL: mpdIt.URL, Now: g.now + 1, Kind: "mpd", Grp: gi})
		add(item{URL: mpdIt.URL, Now: g.now - 4_000 - rng.Int63n(8_000), Kind: "mpd", Grp: gi})
		if strings.Contains(g.c.parts, "patch_") {
			// patch documents: publishTime of an older MPD of the same URL
			for _, back := range []int64{6_000 + rng.Int63n(10_000), 30_000 + rng.Int63n(20_000), 100_000} {
				old := get(item{URL: mpdIt.URL, Now: g.now - back, Kind: "mpd", Grp: gi})
				if m := pubRe.FindSubmatch(old.Body); old.Status == 200 && m != nil {
					pu := "/patch" + strings.TrimSuffix(mpdIt.URL, ".mpd") + ".mpp?publishTime=" + string(m[1])
					add(item{URL: pu, Now: g.now, Kind: "patch", Grp: gi})
				}
			}
		}
		p := x.Periods[len(x.Periods)-1]
		pStart := durMS(p.Start)
		chunked := strings.Contains(g.c.parts, "chunkdur_")
		enc := strings.Contains(g.c.parts, "eccp_") || strings.Contains(g.c.parts, "drm_")
		for _, as := range p.AS {
			for _, rp := range as.Reps {
				st := rp.ST
				if st == nil {
					st = as.ST
				}
				if st == nil || st.Media == "" {
					continue
				}
				ct := as.ContentType
				kind := "media"
				switch {
				case strings.HasPrefix(rp.ID, "timestpp") || strings.HasPrefix(rp.ID, "timewvtt"):
					kind = "subs"
				case ct == "audio":
					kind = "audio"
				case ct == "text":
					kind = "text"
				case ct == "image":
					kind = "thumb"
				}
				if enc && (kind == "media" || kind == "audio") {
					kind = "drm-" + kind
				} else if enc && kind != "subs" {
					continue // text / image tracks of the VoD asset under DRM: handler panic (C08 finding), not this property's business
				}
				if chunked && kind != "thumb" {
					kind = "chunked"
				}
				if st.Init != "" {
					ik := "init"
					if enc && (ct == "audio" || ct == "video") {
						ik = "drm-init"
					}
					add(item{URL: prefix + subst(st.Init, rp.ID, 0, 0), Now: g.now, Kind: ik, Grp: gi})
				}
				want := 2
				if chunked {
					want = 1 // a few only: each is complete at the instant asked (nothing sleeps)
				}
				segs, fut := newest(st, g.now, astMS, pStart, want)
				for i, sg := range segs {
					now := g.now
					if chunked {
						now += 20_000 // well after the end of the segment: every chunk is due, nothing is paced
					}
					add(item{URL: prefix + subst(st.Media, rp.ID, sg.nr, sg.t), Now: now, Kind: kind, Grp: gi})
					if i == 0 && !chunked {
						// the same segment asked a bit later and when it has left the time-shift buffer
						add(item{URL: prefix + subst(st.Media, rp.ID, sg.nr, sg.t), Now: g.now + 1_500, Kind: kind, Grp: gi})
						if rng.Intn(4) == 0 {
							add(item{URL: prefix + subst(st.Media, rp.ID, sg.nr, sg.t), Now: g.now + 400_000, Kind: "neg", Grp: gi})
						}
					}
				}
				if fut != nil && !chunked && rng.Intn(3) == 0 {
					add(item{URL: prefix + subst(st.Media, rp.ID, fut.nr, fut.t), Now: g.now, Kind: "neg", Grp: gi})
				}
			}
		}
		if rng.Intn(6) == 0 {
			add(item{URL: prefix + "NOSUCHREP/1.m4s", Now: g.now, Kind: "neg", Grp: gi})
		}
	}
	return pool, ps, nil
}

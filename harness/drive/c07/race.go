package c07

import (
	"encoding/json"
	"fmt"
	"io"
	"math/rand"
	"net/http"
	"net/http/httptest"
	"strconv"
	"sync"
	"sync/atomic"
	"time"

	"github.com/Dash-Industry-Forum/livesim2/cmd/livesim2/app"

	"verifharness/srv"
	"verifharness/tr"
)

// auxURLs are requests that are NOT functions of (URL, time) by design (counters, pages that list state,
// wall-clock values); they take part in the race clause only.
func auxURLs(rng *rand.Rand) []string {
	us := []string{"/assets", "/vod", "/reqcount", "/metrics", "/healthz", "/config", "/version", "/", "/urlgen/",
		"/urlgen/create?asset=testpic_2s&mpd=Manifest.mpd&stl=timeline&tsbd=30",
		"/urlgen/create?asset=testpic_2s&mpd=Manifest_thumbs.mpd&ato=1&chunkdur=0.5&ltgt=3000",
		"/urlgen/create?asset=testpic_8s&mpd=Manifest.mpd&periods=60&continuous=on",
		"/urlgen/create?asset=testpic_2s&mpd=Manifest.mpd&timesubsstpp=en,sv&drm=eccp-cbcs",
		"/vod/testpic_2s/Manifest.mpd", "/vod/testpic_2s/V300/init.mp4", "/vod/testpic_2s/V300/1.m4s",
		"/static/favicon.ico", "/favicon.ico",
	}
	rng.Shuffle(len(us), func(i, j int) { us[i], us[j] = us[j], us[i] })
	return us
}

type apiCall struct {
	op   string
	id   string
	code int
	ok   bool // returned within the bound
}

// runRace is the body of the child process built with -race. Data-race reports and runtime fatal errors go to
// stderr and are turned into race / fatal events by checks/c07.py. The response events are written BEFORE the
// ingest phase (a "concurrent map" fatal error kills the process).
func runRace(root, work, out string, seed int64, thorough bool, n int, statsFile, phases string) error {
	if root == "" {
		return fmt.Errorf("-vod required")
	}
	rc := newRecorder()
	rng := rand.New(rand.NewSource(seed))
	target := n / 4
	if phases == "ingest" {
		target = 40
	}
	// all instances are created before any concurrency starts (SetupServer itself is not claimed to be re-entrant)
	disc, err := newInst(root, false, "", false)
	if err != nil {
		return err
	}
	long, err := newInst(root, true, "", false)
	if err != nil {
		return err
	}
	fresh, err := newInst(root, false, "", false)
	if err != nil {
		return err
	}
	pool, ps, err := buildPool(disc, root, seed, thorough, target, func(it item, r srv.Resp) { rc.add("race-disc", "discover", it, r) })
	if err != nil {
		return err
	}
	disc.Cancel()
	// ---- phase 1: 32-way concurrent mix of the pool (twice) + aux pages on the long-running instance
	mix := append(perm(rng, pool), perm(rng, pool)...)
	var wg sync.WaitGroup
	var stopAux atomic.Bool // only ever loaded by the workers before the store: creates no order between them
	auxLocal := make([]*recorder, 4)
	auxCount := make([]int64, 4)
	for g := 0; g < 4; g++ {
		wg.Add(1)
		auxLocal[g] = newRecorder()
		us := auxURLs(rand.New(rand.NewSource(seed*100 + int64(g))))
		go func(g int) {
			defer wg.Done()
			for i := 0; !stopAux.Load(); i++ {
				u := us[i%len(us)]
				r := long.Get(u)
				auxCount[g]++
				if i < len(us) {
					auxLocal[g].aux(tr.E{"what": "page", "url": u, "st": r.Status})
				}
			}
		}(g)
	}
	serveConc(rc, long, "race-long", "conc", mix, 28)
	stopAux.Store(true)
	wg.Wait()
	var nAux int64
	for g := range auxLocal {
		rc.merge(auxLocal[g])
		nAux += auxCount[g]
	}
	// ---- phase 2: a fresh instance serves concurrently from its very first request
	serveConc(rc, fresh, "race-fresh", "conc", perm(rng, pool), 32)
	fresh.Cancel()
	// ---- phase 3: sequential pass on the long-running instance after the concurrent phases
	serveSeq(rc, long, "race-long", "after", perm(rng, pool)[:len(pool)/2])
	nresp := len(rc.recs)
	events, err := rc.write(out, "race")
	if err != nil {
		return err
	}
	st := map[string]any{"scenarios": 3, "events": events, "responses": nresp, "distinct": len(pool), "pool": len(pool), "pool_by_kind": ps.ByKind,
		"aux_requests": nAux, "status_by_kind": statusTable(rc), "samples": []any{}, "ingest": "not reached"}
	writeStats(statsFile, st)

	// ---- phase 4: ingest API (create / get / step / delete) from independent goroutines, while media requests go on
	ing := runIngest(long, rng, thorough)
	st["ingest"] = ing
	writeStats(statsFile, st)
	long.Cancel()
	tr.PrintStats(st)
	return nil
}

func apiDo(s *srv.S, method, url string, body any, bound time.Duration) (code int, resp []byte, ok bool) {
	type res struct {
		code int
		body []byte
	}
	ch := make(chan res, 1)
	go func() {
		var data []byte
		hdr := map[string]string{}
		if body != nil {
			data, _ = json.Marshal(body)
			hdr["Content-Type"] = "application/json"
		}
		r := s.Do(method, url, hdr, data)
		ch <- res{r.Status, r.Body}
	}()
	select {
	case r := <-ch:
		return r.code, r.body, true
	case <-time.After(bound):
		return 0, nil, false
	}
}

// tally is a goroutine-local result table (merged after the join: no lock shared by the API goroutines).
type tally map[string]int

func (t tally) note(op string, code int, ok bool) {
	if !ok {
		t[op+":stuck"]++
	} else {
		t[op+":"+strconv.Itoa(code)]++
	}
}

// runIngest exercises the session manager. The harness adds no synchronisation that would order a handler that
// writes the manager's tables / a session goroutine that writes state and report before a handler that reads
// them: creators, pollers and steppers keep goroutine-local tallies, pollers GUESS the (sequential) ids, the stop
// flag is only stored after everything else is done. (The detector is happens-before based: what is left to
// chance is the synchronisation inside the server itself - sync.Pool, request id counter - which is why the
// numbers of sessions and pollers are what they are.)
func runIngest(s *srv.S, rng *rand.Rand, thorough bool) map[string]any {
	recv := httptest.NewServer(http.HandlerFunc(func(w http.ResponseWriter, r *http.Request) {
		_, _ = io.Copy(io.Discard, r.Body)
		w.WriteHeader(200)
	}))
	defer recv.Close()
	nSess, nCreators, nPollers, steps := 48, 4, 6, 2
	if thorough {
		nSess, nCreators, nPollers, steps = 240, 6, 8, 3
	}
	bound := 20 * time.Second
	forced := forceReportOverlap(s, recv.URL, bound)
	var stop atomic.Bool
	var bg sync.WaitGroup
	nBg := nPollers + 2
	bgT := make([]tally, nBg)
	// pollers: GET info of guessed ids all the time (ids are 1, 2, 3, ...)
	for p := 0; p < nPollers; p++ {
		bg.Add(1)
		bgT[p] = tally{}
		go func(p int) {
			defer bg.Done()
			for i := 0; !stop.Load(); i++ {
				id := strconv.Itoa(1 + (i*7+p)%(nSess+1))
				code, _, ok := apiDo(s, "GET", "/api/cmaf-ingests/"+id, nil, bound)
				bgT[p].note("get", code, ok)
			}
		}(p)
	}
	// media / MPD requests keep being served meanwhile (the session goroutines use the same asset tables)
	for g := 0; g < 2; g++ {
		bg.Add(1)
		bgT[nPollers+g] = tally{}
		go func(g int) {
			defer bg.Done()
			for i := 0; !stop.Load(); i++ {
				now := 1_700_000_000_000 + int64(i%50)*2000
				s.Get("/livesim2/testpic_2s/Manifest.mpd?nowMS=" + strconv.FormatInt(now, 10))
				s.Get("/livesim2/testpic_2s/V300/" + strconv.FormatInt(now/2000-3, 10) + ".m4s?nowMS=" + strconv.FormatInt(now, 10))
				bgT[nPollers+g]["media"] += 2
			}
		}(g)
	}
	urls := []string{"/livesim2/testpic_2s/Manifest.mpd", "/livesim2/segtimeline_1/testpic_2s/Manifest.mpd",
		"/livesim2/timesubsstpp_en/testpic_2s/Manifest.mpd", "/livesim2/segtimelinenr_1/testpic_8s/Manifest.mpd"}
	// every session has its own life-cycle goroutine, started by its creator: step, read, delete (twice), read
	var cw sync.WaitGroup
	crT := make([]tally, nCreators)
	lifeT := make([]tally, nSess)
	var lw sync.WaitGroup
	for c := 0; c < nCreators; c++ {
		cw.Add(1)
		crT[c] = tally{}
		go func(c int) {
			defer cw.Done()
			for k := c; k < nSess; k += nCreators {
				now := 1_700_000_000_000 + k*10_000
				setup := map[string]any{"destRoot": recv.URL, "destName": "s" + strconv.Itoa(k), "livesimURL": urls[k%len(urls)],
					"testNowMS": now, "streamsURLs": k%2 == 1}
				code, body, ok := apiDo(s, "POST", "/api/cmaf-ingests", setup, bound)
				crT[c].note("create", code, ok)
				var cr struct {
					ID string `json:"id"`
				}
				_ = json.Unmarshal(body, &cr)
				if !(ok && code == 201 && cr.ID != "") {
					continue
				}
				crT[c]["sessions_created"]++
				lifeT[k] = tally{}
				lw.Add(1)
				go func(k int, id string) {
					defer lw.Done()
					t := lifeT[k]
					alive := true
					for j := 0; j < steps && alive; j++ {
						code, _, ok := apiDo(s, "GET", "/api/cmaf-ingests/"+id+"/step", nil, bound)
						t.note("step", code, ok)
						alive = ok && code == 200
						code, _, ok = apiDo(s, "GET", "/api/cmaf-ingests/"+id, nil, bound)
						t.note("get", code, ok)
					}
					code, _, ok := apiDo(s, "DELETE", "/api/cmaf-ingests/"+id, nil, bound)
					t.note("delete", code, ok)
					// a second DELETE reads the session's state while its goroutine winds up
					code, _, ok = apiDo(s, "DELETE", "/api/cmaf-ingests/"+id, nil, bound)
					t.note("delete", code, ok)
					code, _, ok = apiDo(s, "GET", "/api/cmaf-ingests/"+id, nil, bound)
					t.note("get", code, ok)
				}(k, cr.ID)
			}
		}(c)
	}
	cw.Wait()
	lw.Wait()
	time.Sleep(50 * time.Millisecond)
	stop.Store(true)
	bg.Wait()
	res := map[string]any{"forced_overlaps": forced}
	sum := func(t tally) {
		for k, v := range t {
			if cur, ok := res[k].(int); ok {
				res[k] = cur + v
			} else {
				res[k] = v
			}
		}
	}
	for _, t := range bgT {
		sum(t)
	}
	for _, t := range crT {
		sum(t)
	}
	for _, t := range lifeT {
		if t != nil {
			sum(t)
		}
	}
	_ = rng
	return res
}

// forceReportOverlap replays the NoConflict_report counterexample of spec/IngestMgrImpl.tla (process sess inside the
// append to `report`, a Get client inside its read) with the scheduler gates of the repository (build tag verif):
// the session goroutine is held at "ingest:sess_report" right before the append, a GET handler at
// "ingest:get_report" right before the read, then both gates are released by this goroutine. The harness adds NO
// happens-before edge between the two released goroutines beyond the releases themselves: both only acquire from
// this goroutine (close of their gate channel), this goroutine acquires nothing from either of them between the two
// releases, and the GET gate is released FIRST because the GET handler never touches the gate table again, whereas
// the session goroutine calls verifGate (table mutex) again for its next init segment - released second, nothing of
// what it does afterwards can reach the reader through that mutex. So the two accesses are unordered for the race
// detector unless the SERVER orders them (the per-session mutex). Returns the number of overlaps forced; the check
// treats 0 as a machinery problem (gates not reached).
func forceReportOverlap(s *srv.S, recvURL string, bound time.Duration) int {
	const gSess, gGet = "ingest:sess_report", "ingest:get_report"
	reached := make(chan string, 16)
	app.VerifGateReached = func(p string) { reached <- p }
	defer func() { app.VerifGateReached = nil }()
	waitFor := func(p string, d time.Duration) bool {
		t := time.After(d)
		for {
			select {
			case q := <-reached:
				if q == p {
					return true
				}
			case <-t:
				return false
			}
		}
	}
	n := 0
	for round := 0; round < 3; round++ {
		app.VerifArmGate(gSess)
		app.VerifArmGate(gGet)
		setup := map[string]any{"destRoot": recvURL, "destName": "forced" + strconv.Itoa(round), "livesimURL": "/livesim2/testpic_2s/Manifest.mpd",
			"testNowMS": 1_700_000_000_000 + round*4000}
		code, body, ok := apiDo(s, "POST", "/api/cmaf-ingests", setup, bound)
		var cr struct {
			ID string `json:"id"`
		}
		_ = json.Unmarshal(body, &cr)
		okSess := ok && code == 201 && cr.ID != "" && waitFor(gSess, 1500*time.Millisecond)
		okGet := false
		done := make(chan struct{})
		if okSess {
			go func() {
				apiDo(s, "GET", "/api/cmaf-ingests/"+cr.ID, nil, bound)
				close(done)
			}()
			okGet = waitFor(gGet, 1500*time.Millisecond)
		}
		app.VerifReleaseGate(gGet)
		app.VerifReleaseGate(gSess)
		if okSess {
			<-done
		}
		if okSess && okGet {
			n++
		}
		if cr.ID != "" {
			time.Sleep(20 * time.Millisecond)
			apiDo(s, "DELETE", "/api/cmaf-ingests/"+cr.ID, nil, bound)
		}
		if !okSess {
			break // gate not reached (session not created / no gate in this build)
		}
	}
	return n
}

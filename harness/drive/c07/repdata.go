package c07

import (
	"bytes"
	"compress/gzip"
	"encoding/json"
	"fmt"
	"io"
	"math/rand"
	"os"
	"path/filepath"
	"sort"
	"strings"

	"github.com/Eyevinn/mp4ff/mp4"

	"verifharness/assetgen"
	"verifharness/srv"
)

// Representation-metadata files that PARSE, have the right shape and are still REFUSED by the loading instance's
// later checks (the instance then falls back to scanning that representation). Two representative kinds (the
// systematic damage classes are C15's business):
//
//	(a) a legal asset whose SegmentTimeline has a gap: the scanning instance serves it and writes a file whose
//	    segment table is not contiguous, every instance that loads the file refuses it;
//	(b) a stale / hand-edited file: endTime of one segment changed so that the next segment no longer starts
//	    where it ends.
//
// Whatever the loading instance does with such a file, every key of the pool it answers must carry the digest that
// the scanning instances gave (C07.functional, same memo).

const gapAsset = "g_c07gap"

// addGapAsset generates a SegmentTimeline($Time$) asset (4 x 2 s video at 90 kHz + audio) below root and makes the
// last sample of the first video segment 1500 ticks short: the first segment ends before the second one starts.
// The MPD's S@d stays nominal (legal: S@t of the next entry is explicit in the scan's view of the media).
func addGapAsset(root string) error {
	src := filepath.Join(srv.BundledAssets(), "testpic_2s")
	lay := assetgen.Layout{Name: gapAsset, TS: 90000, SampleDur: 3000, SegSamples: []int{60, 60, 60, 60},
		AudioSegFrames: []int{94, 94, 94, 93}, MpdStyle: "timeline"}
	if _, err := assetgen.Generate(root, src, lay); err != nil {
		return fmt.Errorf("generate %s: %w", gapAsset, err)
	}
	return shortenLastSample(filepath.Join(root, gapAsset, "V300", "t0.m4s"), 3000, 1500)
}

func shortenLastSample(path string, nominal uint32, cut int) error {
	raw, err := os.ReadFile(path)
	if err != nil {
		return err
	}
	f, err := mp4.DecodeFile(bytes.NewReader(raw))
	if err != nil {
		return err
	}
	if len(f.Segments) != 1 || len(f.Segments[0].Fragments) == 0 {
		return fmt.Errorf("%s: unexpected structure of generated segment", path)
	}
	frs := f.Segments[0].Fragments
	trun := frs[len(frs)-1].Moof.Traf.Trun
	last := len(trun.Samples) - 1
	if !trun.HasSampleDuration() || trun.Samples[last].Dur != nominal {
		return fmt.Errorf("%s: generated segment has no per-sample durations of %d", path, nominal)
	}
	trun.Samples[last].Dur = uint32(int(nominal) - cut)
	var buf bytes.Buffer
	if err := f.Encode(&buf); err != nil {
		return err
	}
	return os.WriteFile(path, buf.Bytes(), 0o644)
}

func readRepFile(path string) (map[string]json.RawMessage, []map[string]json.Number, error) {
	fh, err := os.Open(path)
	if err != nil {
		return nil, nil, err
	}
	defer fh.Close()
	zr, err := gzip.NewReader(fh)
	if err != nil {
		return nil, nil, err
	}
	data, err := io.ReadAll(zr)
	if err != nil {
		return nil, nil, err
	}
	var top map[string]json.RawMessage
	if err := json.Unmarshal(data, &top); err != nil {
		return nil, nil, err
	}
	dec := json.NewDecoder(bytes.NewReader(top["segments"]))
	dec.UseNumber()
	var segs []map[string]json.Number
	if err := dec.Decode(&segs); err != nil {
		return nil, nil, fmt.Errorf("%s: segments: %w", path, err)
	}
	return top, segs, nil
}

// contiguous reports whether every segment of the table starts where the previous one ends.
func contiguous(segs []map[string]json.Number) bool {
	for i := 1; i < len(segs); i++ {
		if segs[i]["startTime"] != segs[i-1]["endTime"] {
			return false
		}
	}
	return true
}

// staleEdit rewrites the metadata file: endTime of segment k (not the last one) is one tick later. All fields stay
// present, the JSON stays well-formed; only the table is no longer contiguous.
func staleEdit(path string, k int) error {
	top, segs, err := readRepFile(path)
	if err != nil {
		return err
	}
	if k < 0 || k >= len(segs)-1 {
		return fmt.Errorf("%s: no segment %d to edit", path, k)
	}
	e, err := segs[k]["endTime"].Int64()
	if err != nil {
		return err
	}
	segs[k]["endTime"] = json.Number(fmt.Sprint(e + 1))
	raw, err := json.Marshal(segs)
	if err != nil {
		return err
	}
	top["segments"] = raw
	data, err := json.Marshal(top)
	if err != nil {
		return err
	}
	var buf bytes.Buffer
	zw := gzip.NewWriter(&buf)
	if _, err := zw.Write(data); err != nil {
		return err
	}
	if err := zw.Close(); err != nil {
		return err
	}
	return os.WriteFile(path, buf.Bytes(), 0o644)
}

// prepareRefusedFiles is called between the writing and the loading instance. It checks that the file written for
// the gap asset's video is not contiguous (kind a) and edits the file of one representation of testpic_2s (always in
// the pool, seeded choice between the reference video and the audio) plus one further seeded file (kind b).
// Returns the relative paths of the files the loading instance must refuse after parsing them.
func prepareRefusedFiles(repDir string, rng *rand.Rand) (gap []string, stale []string, err error) {
	var files []string
	_ = filepath.Walk(repDir, func(p string, info os.FileInfo, e error) error {
		if e == nil && !info.IsDir() && strings.HasSuffix(p, "_data.json.gz") {
			rel, _ := filepath.Rel(repDir, p)
			files = append(files, rel)
		}
		return nil
	})
	sort.Strings(files)
	var cand []string
	for _, f := range files {
		_, segs, e := readRepFile(filepath.Join(repDir, f))
		if e != nil {
			return nil, nil, e
		}
		switch {
		case !contiguous(segs):
			gap = append(gap, f)
		case len(segs) >= 2 && !strings.HasPrefix(f, "testpic_2s/"):
			cand = append(cand, f)
		}
	}
	first := "testpic_2s/" + []string{"V300", "A48"}[rng.Intn(2)] + "_data.json.gz"
	picks := []string{first}
	if len(cand) > 0 {
		picks = append(picks, cand[rng.Intn(len(cand))])
	}
	for _, f := range picks {
		_, segs, e := readRepFile(filepath.Join(repDir, f))
		if e != nil {
			return nil, nil, e
		}
		if e := staleEdit(filepath.Join(repDir, f), rng.Intn(len(segs)-1)); e != nil {
			return nil, nil, e
		}
		_, segs, e = readRepFile(filepath.Join(repDir, f))
		if e != nil || contiguous(segs) {
			return nil, nil, fmt.Errorf("%s: edit did not make the table non-contiguous (%v)", f, e)
		}
		stale = append(stale, f)
	}
	return gap, stale, nil
}

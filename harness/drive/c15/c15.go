// Package c15 replays TLC-generated behaviours of the representation-metadata cache model (spec/RepCache.tla)
// on real directories with real livesim2 server instances and records, per started instance and asset, what
// the instance answers to a fixed request pool (C15).
//
// One worker = one private copy of the VoD root (+ a private separate metadata root) and one trace file:
//
//	ref    {vod, asset, adm, reps, nv, na, listed, cls}   the scanning server (no metadata root) of this VoD root
//	hdr    {beh, vod, root, map, desc}                    a behaviour starts: all metadata files are wiped
//	damage {rep, kind, variant, off, precond} / remove {rep}  file actions ("rep" = "<asset>/<representation>")
//	start  {inst, write, ok, err}                         a server was started on the current files
//	asset  {inst, asset, listed, cls, diff}               its answers for one asset (cls: per request class
//	                                                      [c, n, n200, n404, dig]; dig = digest over (url,status,body digest))
//	tl     {inst, asset, rep, N, n0, t0, tfdt, dur, ovf} (times relative to t0 = the first one; ovf: a value did not fit 32 bits)
//	                cache-enabled read-mode instances: the served segments n0.. of one
//	                                                      representation (first tfdt and total sample duration of each)
//	mtl    {inst, asset, rep, N, t, d, st, tfdt}          the scanning server (inst -1) and the same instances: the first N+2 entries
//	                                                      (t, d) the SegmentTimeline MPD declares and, per entry, status and first
//	                                                      tfdt of the segment served for $Time$ = t
//	files  {inst, write, files}                           the metadata files after the start: [[path, digest], ...]
package c15

import (
	"bytes"
	"compress/gzip"
	"crypto/sha1"
	"encoding/hex"
	"encoding/json"
	"flag"
	"fmt"
	"io"
	"math/rand"
	"os"
	"path/filepath"
	"regexp"
	"runtime/debug"
	"sort"
	"strings"
	"sync"
	"time"

	"github.com/Dash-Industry-Forum/livesim2/cmd/livesim2/app"
	"github.com/Eyevinn/mp4ff/mp4"

	"verifharness/assetgen"
	"verifharness/drive/tl"
	"verifharness/project"
	"verifharness/srv"
	"verifharness/tr"
)

// ---------------------------------------------------------------- behaviours (from TLC)

type Action struct {
	A string `json:"a"` // start | damage | remove
	W bool   `json:"w"`
	R string `json:"r"` // r1 | r2 | -
	K string `json:"k"` // truncated | garbage | empty | plainjson | -
}

type Beh struct {
	Root string   `json:"root"` // same | separate | disabled
	Acts []Action `json:"acts"`
}

func (b Beh) String() string {
	var p []string
	for _, a := range b.Acts {
		switch a.A {
		case "start":
			if a.W {
				p = append(p, "S+")
			} else {
				p = append(p, "S-")
			}
		case "damage":
			p = append(p, a.K[:3]+"("+a.R+")")
		default:
			p = append(p, "rm("+a.R+")")
		}
	}
	return b.Root + ":" + strings.Join(p, " ")
}

// the concrete representations the model's r1 / r2 stand for, rotated over the behaviours
var mappings = [][2]string{
	{"testpic_2s/V300", "testpic_2s/A48"},
	{"g_1001tl/V300", "g_1001tl/A48"},
	{"testpic_2s/A48", "g_irr90k/V300"},
	{"g_twov/V300", "g_twov/V600"},
	{"bad_ms/V300", "testpic_2s/imsc1_txt_sv"},
	{"g_irr90k/A48", "bad_dur/V600"},
	{"testpic_2s/thumbs", "testpic_2s/V300"},
	{"g_twov/V600", "g_1001tl/V300"},
	{"g_gap/V300", "g_gap/A48"},
	{"r15360_7975/V300", "r15360_fl/V300"},
	{"r44100_fl/V300", "r44100_8000/V300"},
	{"d_2as/V600", "d_2mpd/V300"},
	{"d_2mpd_ok/V600", "d_va/A48"},
	{"d_2as_ok/V300", "d_2mpd/V600"},
}

// ---------------------------------------------------------------- VoD root with ground truth

type assetTruth struct {
	Name string
	Adm  bool     // admissible by construction
	MPDs []string // MPD file names
	Reps []string // every Representation@id of every MPD
	V, A *project.RepTruth
	Text *project.RepTruth
	TL   *tl.Asset
	Thumbs int
	// MediaGap: the sample durations of the first video segment end before the second segment's decode time (legal; the
	// loaded table lets a segment end where the next starts). The media-derived window is not judged for its video.
	MediaGap bool
	Rounding bool // member of the loop-duration family
	V600     bool // has a second video representation V600
	// AdmOpen: neither the property text nor the documentation decides whether the asset is to be served (video and audio
	// of clearly different total duration): every mode must then answer exactly like the scanning server (served or left out)
	AdmOpen bool
	Light   bool // positive control of a layout family: a shorter pool (one ClearKey scheme, fewer $Time$ requests)
	Gen      bool // generated: N, durations, timescale, loop known by construction
}

func copyTree(src, dst string) error {
	return filepath.Walk(src, func(p string, info os.FileInfo, err error) error {
		if err != nil {
			return err
		}
		rel, _ := filepath.Rel(src, p)
		d := filepath.Join(dst, rel)
		if info.IsDir() {
			return os.MkdirAll(d, 0o755)
		}
		data, err := os.ReadFile(p)
		if err != nil {
			return err
		}
		return os.WriteFile(d, data, 0o644)
	})
}

// addSecondVideo generates layout `second` in a scratch directory and installs its video representation as V600
// of asset `name` (same AdaptationSet as V300).
func addSecondVideo(root, src, name string, second assetgen.Layout) (*project.RepTruth, error) {
	tmp, err := os.MkdirTemp(filepath.Dir(root), "gen2-")
	if err != nil {
		return nil, err
	}
	defer os.RemoveAll(tmp)
	second.Name = "x"
	second.AudioSegFrames = nil
	t2, err := assetgen.Generate(tmp, src, second)
	if err != nil {
		return nil, err
	}
	if err := copyTree(filepath.Join(tmp, "x", "V300"), filepath.Join(root, name, "V600")); err != nil {
		return nil, err
	}
	mp := filepath.Join(root, name, "Manifest.mpd")
	data, err := os.ReadFile(mp)
	if err != nil {
		return nil, err
	}
	const v300 = `<Representation id="V300" codecs="avc1.64001e" bandwidth="300000" width="640" height="360"/>`
	if !bytes.Contains(data, []byte(v300)) {
		return nil, fmt.Errorf("generated MPD of %s has no V300 line to extend", name)
	}
	out := strings.Replace(string(data), v300, v300+"\n         "+strings.Replace(strings.Replace(v300, "V300", "V600", 1), "300000", "600000", 1), 1)
	if err := os.WriteFile(mp, []byte(out), 0o644); err != nil {
		return nil, err
	}
	v := t2.Video
	v.ID = "V600"
	v.InitURI = "V600/init.mp4"
	v.MediaPat = strings.Replace(v.MediaPat, "V300/", "V600/", 1)
	return v, nil
}

// splitV600 moves the V600 representation (added by addSecondVideo to the video AdaptationSet of Manifest.mpd) into
// an AdaptationSet of its own ("2as") or into a second MPD of the asset directory, Manifest_b.mpd ("2mpd").
func splitV600(root, name, how string) error {
	mp := filepath.Join(root, name, "Manifest.mpd")
	data, err := os.ReadFile(mp)
	if err != nil {
		return err
	}
	const v300 = `<Representation id="V300" codecs="avc1.64001e" bandwidth="300000" width="640" height="360"/>`
	const v600 = `<Representation id="V600" codecs="avc1.64001e" bandwidth="600000" width="640" height="360"/>`
	const tmpl = `<SegmentTemplate startNumber="1" initialization="$RepresentationID$/init.mp4" media="$RepresentationID$/$Number$.m4s"/>`
	both := v300 + "\n         " + v600
	txt := string(data)
	if !strings.Contains(txt, both) || !strings.Contains(txt, tmpl) {
		return fmt.Errorf("%s: generated MPD does not have the expected two-representation video AdaptationSet", name)
	}
	switch how {
	case "2as":
		txt = strings.Replace(txt, both, v300+"\n      </AdaptationSet>\n      <AdaptationSet contentType=\"video\" id=\"3\" mimeType=\"video/mp4\" segmentAlignment=\"true\" startWithSAP=\"1\">\n         "+tmpl+"\n         "+v600, 1)
		return os.WriteFile(mp, []byte(txt), 0o644)
	case "2mpd":
		if err := os.WriteFile(mp, []byte(strings.Replace(txt, both, v300, 1)), 0o644); err != nil {
			return err
		}
		return os.WriteFile(filepath.Join(root, name, "Manifest_b.mpd"), []byte(strings.Replace(txt, both, v600, 1)), 0o644)
	}
	return fmt.Errorf("splitV600: %q", how)
}

func repIDs(dir string) (mpds, reps []string, err error) {
	ents, err := os.ReadDir(dir)
	if err != nil {
		return nil, nil, err
	}
	seen := map[string]bool{}
	for _, e := range ents {
		if !strings.HasSuffix(e.Name(), ".mpd") {
			continue
		}
		mpds = append(mpds, e.Name())
		data, err := os.ReadFile(filepath.Join(dir, e.Name()))
		if err != nil {
			return nil, nil, err
		}
		m, err := project.ParseMPD(data)
		if err != nil {
			return nil, nil, fmt.Errorf("%s/%s: %w", dir, e.Name(), err)
		}
		for _, p := range m.Periods {
			for _, as := range p.AS {
				for _, r := range as.Representations {
					seen[r.ID] = true
				}
			}
		}
	}
	sort.Strings(mpds)
	return mpds, project.SortedKeys(seen), nil
}

// shortenLastSample rewrites a generated media segment with the duration of its last sample changed by -cut ticks
// (cut < 0 lengthens). Returns the new duration of that sample.
func shortenLastSample(path string, nominal uint32, cut int) error {
	raw, err := os.ReadFile(path)
	if err != nil {
		return err
	}
	f, err := mp4.DecodeFile(bytes.NewReader(raw))
	if err != nil {
		return err
	}
	if len(f.Segments) != 1 || len(f.Segments[0].Fragments) == 0 {
		return fmt.Errorf("%s: unexpected structure of generated segment", path)
	}
	frs := f.Segments[0].Fragments
	trun := frs[len(frs)-1].Moof.Traf.Trun
	last := len(trun.Samples) - 1
	if !trun.HasSampleDuration() || trun.Samples[last].Dur != nominal {
		return fmt.Errorf("%s: generated segment has no per-sample durations of %d", path, nominal)
	}
	trun.Samples[last].Dur = uint32(int(nominal) - cut)
	var buf bytes.Buffer
	if err := f.Encode(&buf); err != nil {
		return err
	}
	return os.WriteFile(path, buf.Bytes(), 0o644)
}

// buildMaster creates the VoD root: a bundled asset, admissible generated layouts, inadmissible layouts.
func buildMaster(root string, thoroughLayouts bool) ([]*assetTruth, error) {
	if err := os.MkdirAll(root, 0o755); err != nil {
		return nil, err
	}
	src := filepath.Join(srv.BundledAssets(), "testpic_2s")
	if err := copyTree(src, filepath.Join(root, "testpic_2s")); err != nil {
		return nil, err
	}
	var res []*assetTruth
	// bundled: ground truth by independent parse
	{
		ad := filepath.Join(root, "testpic_2s")
		v, err := project.LoadVodRep(ad, "V300", "video", "V300/init.mp4", "V300/$Number$.m4s", 1)
		if err != nil {
			return nil, err
		}
		a, err := project.LoadVodRep(ad, "A48", "audio", "A48/init.mp4", "A48/$Number$.m4s", 1)
		if err != nil {
			return nil, err
		}
		tx, err := project.LoadVodRep(ad, "imsc1_txt_sv", "text", "imsc1_txt_sv/init.mp4", "imsc1_txt_sv/$Number$.m4s", 1)
		if err != nil {
			return nil, err
		}
		nth := 0
		for {
			if _, err := os.Stat(filepath.Join(ad, "thumbs", fmt.Sprintf("%d.jpg", nth+1))); err != nil {
				break
			}
			nth++
		}
		res = append(res, &assetTruth{Name: "testpic_2s", Adm: (v.L*1000)%v.TS == 0, V: v, A: a, Text: tx, Thumbs: nth})
	}
	aud := []int{94, 94, 94, 93}
	gen := func(l assetgen.Layout) (*assetgen.Truth, error) {
		t, err := assetgen.Generate(root, src, l)
		if err != nil {
			return nil, fmt.Errorf("generate %s: %w", l.Name, err)
		}
		return t, nil
	}
	// admissible
	for _, l := range []assetgen.Layout{
		{Name: "g_irr90k", TS: 90000, SampleDur: 3000, SegSamples: []int{40, 80, 60, 60}, AudioSegFrames: aud, MpdStyle: "number"},
		{Name: "g_1001tl", TS: 30000, SampleDur: 1001, SegSamples: []int{60, 60, 60, 60}, AudioSegFrames: aud, MpdStyle: "timeline"},
	} {
		t, err := gen(l)
		if err != nil {
			return nil, err
		}
		if t.LoopMS < 0 {
			return nil, fmt.Errorf("layout %s meant to be admissible is not", l.Name)
		}
		res = append(res, &assetTruth{Name: l.Name, Adm: true, V: t.Video, A: t.Audio})
	}
	// admissible control of the two-video construction: equal durations
	{
		l := assetgen.Layout{Name: "g_twov", TS: 90000, SampleDur: 3000, SegSamples: []int{60, 30, 60}, Vod0: 9000, MpdStyle: "number"}
		t, err := gen(l)
		if err != nil {
			return nil, err
		}
		l2 := l
		l2.SegSamples = []int{30, 60, 60} // same total duration, other cuts
		if _, err := addSecondVideo(root, src, "g_twov", l2); err != nil {
			return nil, err
		}
		res = append(res, &assetTruth{Name: "g_twov", Adm: true, V: t.Video, V600: true})
	}
	// admissible, $Number$ addressing, the last sample of the first video segment is 1500 ticks short: only the loaded
	// table (previous segment ends where the next starts) makes the timeline contiguous
	{
		l := assetgen.Layout{Name: "g_gap", TS: 90000, SampleDur: 3000, SegSamples: []int{60, 60, 60, 60}, AudioSegFrames: aud, MpdStyle: "number"}
		t, err := gen(l)
		if err != nil {
			return nil, err
		}
		if err := shortenLastSample(filepath.Join(root, "g_gap", "V300", "1.m4s"), 3000, 1500); err != nil {
			return nil, err
		}
		res = append(res, &assetTruth{Name: "g_gap", Adm: true, V: t.Video, A: t.Audio, MediaGap: true})
	}
	// inadmissible 1: loop is not a whole number of milliseconds (100 samples of 3001 ticks at 90 kHz = 3334.4.. ms)
	{
		l := assetgen.Layout{Name: "bad_ms", TS: 90000, SampleDur: 3001, SegSamples: []int{50, 50}, MpdStyle: "number"}
		t, err := gen(l)
		if err != nil {
			return nil, err
		}
		if t.LoopMS != -1 || (t.Video.L*1000)%t.Video.TS == 0 {
			return nil, fmt.Errorf("bad_ms is admissible?")
		}
		res = append(res, &assetTruth{Name: "bad_ms", Adm: false, V: t.Video})
	}
	// loop-duration family (ground truth by construction: loop ticks L, timescale TS; admissible iff L*1000 mod TS = 0):
	// whole-ms base layouts whose LAST sample is cut / extended so that the loop lands on, just under or just over a
	// whole millisecond, at timescales that are not multiples of 1000 (the ms <-> tick conversion is not exact there).
	for _, rl := range []struct {
		name      string
		ts, sd    int64
		segs      []int
		cut       int // ticks removed from the last sample
		wantAdm   bool
		thorough  bool
	}{
		{"r15360_7975", 15360, 512, []int{60, 60, 60, 60}, 384, true, false},   // 122496 ticks = 7975 ms exactly
		{"r44100_8000", 44100, 1470, []int{60, 60, 60, 60}, 0, true, false},     // 352800 ticks = 8000 ms
		{"r15360_fl", 15360, 512, []int{60, 60, 60, 60}, 16, false, false},      // 122864 = floor(7999 ms): 7998.958 ms
		{"r15360_ce", 15360, 512, []int{60, 60, 60, 60}, 15, false, false},      // 122865 = ceil(7999 ms): 7999.023 ms
		{"r15360_m1", 15360, 512, []int{60, 60, 60, 60}, 1, false, false},       // one tick short of 8000 ms
		{"r15360_p1", 15360, 512, []int{60, 60, 60, 60}, -1, false, true},       // one tick over 8000 ms
		{"r12800_fl", 12800, 512, []int{50, 50, 50, 50}, 13, false, false},      // 102387 = floor(7999 ms): 7998.984 ms
		{"r12800_ce", 12800, 512, []int{50, 50, 50, 50}, 12, false, true},       // 102388 = ceil(7999 ms)
		{"r44100_fl", 44100, 1470, []int{60, 60, 60, 60}, 45, false, false},     // 352755 = floor(7999 ms): 7998.98 ms
		{"r44100_ce", 44100, 1470, []int{60, 60, 60, 60}, 44, false, true},      // 352756 = ceil(7999 ms)
		{"r90000_m1", 90000, 3000, []int{60, 60, 60, 60}, 1, false, false},      // 719999 ticks
		{"r90000_p1", 90000, 3000, []int{60, 60, 60, 60}, -1, false, true},      // 720001 ticks
	} {
		if rl.thorough && !thoroughLayouts {
			continue
		}
		l := assetgen.Layout{Name: rl.name, TS: rl.ts, SampleDur: rl.sd, SegSamples: rl.segs, MpdStyle: "number"}
		t, err := gen(l)
		if err != nil {
			return nil, err
		}
		v := t.Video
		if rl.cut != 0 {
			if err := shortenLastSample(filepath.Join(root, rl.name, "V300", fmt.Sprintf("%d.m4s", len(rl.segs))), uint32(rl.sd), rl.cut); err != nil {
				return nil, err
			}
			v.Dur[len(v.Dur)-1] -= int64(rl.cut)
			v.L -= int64(rl.cut)
			v.SampleDur = 0
		}
		adm := (v.L*1000)%v.TS == 0
		if adm != rl.wantAdm {
			return nil, fmt.Errorf("layout %s: admissible=%v by construction, meant %v (L=%d TS=%d)", rl.name, adm, rl.wantAdm, v.L, v.TS)
		}
		res = append(res, &assetTruth{Name: rl.name, Adm: adm, V: v, Rounding: true, Light: true})
	}
	// inadmissible 2: two video representations of 4 s and 3 s
	{
		l := assetgen.Layout{Name: "bad_dur", TS: 90000, SampleDur: 3000, SegSamples: []int{60, 60}, MpdStyle: "number"}
		t, err := gen(l)
		if err != nil {
			return nil, err
		}
		l2 := l
		l2.SegSamples = []int{60, 30}
		v2, err := addSecondVideo(root, src, "bad_dur", l2)
		if err != nil {
			return nil, err
		}
		if v2.L*1000/v2.TS == t.Video.L*1000/t.Video.TS {
			return nil, fmt.Errorf("bad_dur durations are equal?")
		}
		res = append(res, &assetTruth{Name: "bad_dur", Adm: false, V: t.Video, V600: true})
	}
	// duration-disagreement family (ground truth by construction): same-type representations that are NOT in one
	// AdaptationSet - two video AdaptationSets of one MPD, or two MPDs of one asset directory. The rule (README "Content",
	// consolidateAsset): representations of the reference content type of an ASSET all have the loop duration, else the
	// asset is left out. Durations are whole milliseconds (8000 / 6000 ms). *_ok: positive controls (8000 / 8000 ms).
	for _, dl := range []struct {
		name       string
		how        string
		first, sec []int // samples per segment of V300 / V600 (3000 ticks at 90 kHz)
		thorough   bool
	}{
		{"d_2as", "2as", []int{60, 60, 60, 60}, []int{60, 60, 60}, false},
		{"d_2mpd", "2mpd", []int{60, 60, 60, 60}, []int{60, 60, 60}, false},
		{"d_2as_ok", "2as", []int{60, 60, 60, 60}, []int{80, 80, 80}, false},
		{"d_2mpd_ok", "2mpd", []int{60, 60, 60, 60}, []int{80, 80, 80}, false},
		{"d_2as_r", "2as", []int{60, 60, 60}, []int{60, 60, 60, 60}, true}, // the reference (V300) is the shorter one
		{"d_2mpd_r", "2mpd", []int{60, 60, 60}, []int{60, 60, 60, 60}, true},
	} {
		if dl.thorough && !thoroughLayouts {
			continue
		}
		l := assetgen.Layout{Name: dl.name, TS: 90000, SampleDur: 3000, SegSamples: dl.first, MpdStyle: "number"}
		t, err := gen(l)
		if err != nil {
			return nil, err
		}
		l2 := l
		l2.SegSamples = dl.sec
		v2, err := addSecondVideo(root, src, dl.name, l2)
		if err != nil {
			return nil, err
		}
		if err := splitV600(root, dl.name, dl.how); err != nil {
			return nil, err
		}
		adm := v2.L == t.Video.L && (t.Video.L*1000)%t.Video.TS == 0
		if adm != strings.HasSuffix(dl.name, "_ok") {
			return nil, fmt.Errorf("layout %s: admissible=%v by construction", dl.name, adm)
		}
		res = append(res, &assetTruth{Name: dl.name, Adm: adm, V: t.Video, V600: true, Light: true})
	}
	// video 8000 ms, audio 282 frames = 6016 ms: open (see AdmOpen)
	{
		l := assetgen.Layout{Name: "d_va", TS: 90000, SampleDur: 3000, SegSamples: []int{60, 60, 60, 60}, AudioSegFrames: []int{94, 94, 94}, MpdStyle: "number"}
		t, err := gen(l)
		if err != nil {
			return nil, err
		}
		res = append(res, &assetTruth{Name: "d_va", Adm: false, AdmOpen: true, V: t.Video, A: t.Audio})
	}
	for _, a := range res {
		var err error
		a.MPDs, a.Reps, err = repIDs(filepath.Join(root, a.Name))
		if err != nil {
			return nil, err
		}
		a.TL = &tl.Asset{Name: a.Name, Video: a.V, Audio: a.A}
		a.Gen = a.Name != "testpic_2s"
	}
	return res, nil
}

// ---------------------------------------------------------------- request pool

const (
	t1MS = int64(50_000)            // all segments 0..N+1 available and inside the default time-shift buffer
	t2MS = int64(1_712_345_678_901) // far from the epoch
)

type req struct {
	cls string
	url string
	// contiguity window membership: rep id and position (>= 0) in the window n0..; -1 otherwise
	rep string
	pos int
	far int // 1 + j for the far-from-epoch request of video segment k*N+j (j = 0, 1); 0 otherwise
}

type pool struct {
	byAsset map[string][]req
	n       int
}

func q(url string, now int64) string { return fmt.Sprintf("%s?nowMS=%d", url, now) }

// buildPool fixes the URL list. Only inputs are chosen here ($Time$ values of the audio timeline are read from
// the reference server's MPD, video ones from the ground truth); every instance gets the same list.
func buildPool(assets []*assetTruth, ref *srv.S) (*pool, error) {
	p := &pool{byAsset: map[string][]req{}}
	for _, a := range assets {
		var rs []req
		add := func(cls, url string, now int64) { rs = append(rs, req{cls: cls, url: q(url, now), pos: -1}) }
		num := tl.Cfg{Mode: "number", SNR: -1, TSBD: -1}
		tim := tl.Cfg{Mode: "time", SNR: -1, TSBD: -1}
		tnr := tl.Cfg{Mode: "tlnr", SNR: -1, TSBD: -1}
		if !a.Adm {
			// must be left out: a short probe of every request kind
			for _, m := range a.MPDs {
				for _, c := range []tl.Cfg{num, tim, tnr} {
					add("mpd", c.Prefix(a.Name)+"/"+m, t1MS)
				}
				add("mpd", num.Prefix(a.Name)+"/"+m, t2MS)
			}
			if a.A != nil {
				add("init", num.Prefix(a.Name)+"/"+a.A.InitURI, t1MS)
				add("seg", tl.SegURL(num, a.TL, a.A, 1), t1MS)
				add("seg", tl.SegURL(num, a.TL, a.A, int64(a.V.N)+1), t1MS)
			}
			add("init", num.Prefix(a.Name)+"/"+a.V.InitURI, t1MS)
			for n := int64(0); n <= int64(a.V.N); n++ {
				add("seg", tl.SegURL(num, a.TL, a.V, n), t1MS)
			}
			add("time", tl.SegURL(tim, a.TL, a.V, 1), t1MS)
			lms := a.V.L * 1000 / a.V.TS
			add("far", tl.SegURL(num, a.TL, a.V, (t2MS-30_000)/lms*int64(a.V.N)), t2MS)
			add("drm", tl.Cfg{Mode: "number", SNR: -1, TSBD: -1, Extra: []string{"eccp_cbcs"}}.Prefix(a.Name)+"/"+a.V.InitURI, t1MS)
			if a.V600 {
				add("init", num.Prefix(a.Name)+"/V600/init.mp4", t1MS)
				add("seg", fmt.Sprintf("%s/V600/%d.m4s", num.Prefix(a.Name), 1), t1MS)
				add("seg", fmt.Sprintf("%s/V600/%d.m4s", num.Prefix(a.Name), 46), 100_000)
			}
			p.byAsset[a.Name] = rs
			p.n += len(rs)
			continue
		}
		for _, m := range a.MPDs {
			for _, c := range []tl.Cfg{num, tim, tnr} {
				for _, now := range []int64{t1MS, t2MS} {
					add("mpd", c.Prefix(a.Name)+"/"+m, now)
				}
			}
			if !a.Light {
				add("mpd", tl.Cfg{Mode: "number", SNR: 7, TSBD: 20, AtoMS: 500}.Prefix(a.Name)+"/"+m, t1MS+777)
			}
		}
		reps := []*project.RepTruth{a.V}
		if a.A != nil {
			reps = append(reps, a.A)
		}
		if a.Text != nil {
			reps = append(reps, a.Text)
		}
		for _, rt := range reps {
			add("init", num.Prefix(a.Name)+"/"+rt.InitURI, t1MS)
		}
		// ClearKey (ECCP) protected variants of an avc / aac representation: MPD, init and media
		for _, scheme := range []string{"eccp_cbcs", "eccp_cenc"} {
			if a.Light && scheme == "eccp_cenc" {
				continue
			}
			dc := tl.Cfg{Mode: "number", SNR: -1, TSBD: -1, Extra: []string{scheme}}
			if scheme == "eccp_cbcs" {
				add("drm", dc.Prefix(a.Name)+"/"+a.MPDs[0], t1MS)
			}
			for _, rt := range reps {
				if rt.Kind == "text" {
					continue
				}
				add("drm", dc.Prefix(a.Name)+"/"+rt.InitURI, t1MS)
				add("drm", tl.SegURL(dc, a.TL, rt, int64(a.V.N)+1), t1MS)
			}
		}
		if a.V600 {
			add("init", num.Prefix(a.Name)+"/V600/init.mp4", t1MS)
			for n := 0; n < 4; n++ {
				add("seg", fmt.Sprintf("%s/V600/%d.m4s", num.Prefix(a.Name), n), t1MS)
			}
		}
		N := int64(a.V.N)
		for _, rt := range reps {
			// number mode, one loop + wrap from the start of the stream (C15.contig window for video and audio)
			for n := int64(0); n <= N+1; n++ {
				r := req{cls: "seg", url: q(tl.SegURL(num, a.TL, rt, n), t1MS), pos: -1}
				if rt.Kind != "text" {
					r.rep, r.pos = rt.ID, int(n)
				}
				rs = append(rs, r)
			}
			// far from the epoch: the three segments that ended >= 30 s before t2
			loopMS := a.V.L * 1000 / a.V.TS
			k := (t2MS - 30_000) / loopMS
			for j := int64(0); j < 3; j++ {
				add("far", tl.SegURL(num, a.TL, rt, k*N+j), t2MS)
				if rt == a.V && j < 2 {
					rs[len(rs)-1].far = int(j) + 1
				}
			}
			add("far", tl.SegURL(tl.Cfg{Mode: "number", SNR: 7, TSBD: -1}, a.TL, rt, k*N+1), t2MS)
			add("far", tl.SegURL(num, a.TL, rt, (k+100)*N), t2MS) // not yet available
		}
		// $Time$ addressing: video from the ground truth, audio from the reference server's timeline
		for n := int64(0); n <= N; n++ {
			if a.Light && n > 1 && n < N {
				continue
			}
			add("time", tl.SegURL(tim, a.TL, a.V, n), t1MS)
		}
		if a.A != nil && a.Adm {
			r := ref.Get(q(tim.Prefix(a.Name)+"/"+a.MPDs[0], t1MS))
			if r.Status != 200 {
				return nil, fmt.Errorf("reference server: %s timeline MPD status %d", a.Name, r.Status)
			}
			m, err := project.ParseMPD(r.Body)
			if err != nil {
				return nil, err
			}
			as := m.FindAS(0, "audio", a.A.ID)
			if as == nil || as.SegmentTemplate == nil || as.SegmentTemplate.Timeline == nil || len(as.SegmentTemplate.Timeline.S) == 0 {
				return nil, fmt.Errorf("reference server: %s timeline MPD has no audio timeline", a.Name)
			}
			var t uint64
			cnt := 0
			for _, s := range as.SegmentTemplate.Timeline.S {
				if s.T != nil {
					t = *s.T
				}
				for j := 0; j <= s.R && cnt < 4; j++ {
					u := strings.ReplaceAll(strings.ReplaceAll(as.SegmentTemplate.Media, "$RepresentationID$", a.A.ID), "$Time$", fmt.Sprint(t))
					add("time", tim.Prefix(a.Name)+"/"+u, t1MS)
					t += s.D
					cnt++
				}
			}
		}
		if a.Thumbs > 0 {
			for n := 0; n < 3; n++ {
				add("other", fmt.Sprintf("%s/thumbs/%d.jpg", num.Prefix(a.Name), n), t1MS)
			}
			add("other", fmt.Sprintf("%s/imsc1_img_en/init.mp4", num.Prefix(a.Name)), t1MS)
			add("other", fmt.Sprintf("%s/imsc1_img_en/2.m4s", num.Prefix(a.Name)), t1MS)
		}
		p.byAsset[a.Name] = rs
		p.n += len(rs)
	}
	return p, nil
}

// ---------------------------------------------------------------- one server instance

type clsSum struct {
	C    string `json:"c"`
	N    int    `json:"n"`
	N200 int    `json:"n200"`
	N404 int    `json:"n404"`
	Dig  string `json:"dig"`
}

type winSeg struct {
	ok   bool
	tfdt int64
	dur  int64
}

type assetObs struct {
	listed bool
	cls    []clsSum
	per    []string            // per request "status:digest" (for the diff against the reference; not part of the verdict)
	win    map[string][]winSeg // rep -> window
	far    [2]winSeg           // video segments k*N, k*N+1 far from the epoch
	farSt  [2]int
}

var sectionRe = regexp.MustCompile(`(?s)<section>(.*?)</section>`)
var strongRe = regexp.MustCompile(`<strong>([^<]+)</strong>`)

type parseMemo struct {
	mu sync.Mutex
	m  map[string]winSeg
}

func (pm *parseMemo) get(body []byte, full string, rt *project.RepTruth) winSeg {
	key := rt.ID + ":" + full
	pm.mu.Lock()
	w, ok := pm.m[key]
	pm.mu.Unlock()
	if ok {
		return w
	}
	md, err := project.ParseMedia(body, rt.Trex)
	if err == nil {
		w = winSeg{ok: true, tfdt: int64(md.Frags[0].Tfdt), dur: int64(md.TotalDur)}
	}
	pm.mu.Lock()
	pm.m[key] = w
	pm.mu.Unlock()
	return w
}

func fullDigest(b []byte) string {
	h := sha1.Sum(b)
	return hex.EncodeToString(h[:])
}

// observe fetches the pool from s (nil = the server did not start: nothing is served).
func observe(s *srv.S, assets []*assetTruth, p *pool, memo *parseMemo, wantWin bool) map[string]*assetObs {
	res := map[string]*assetObs{}
	sections := map[string]string{}
	if s != nil {
		r := s.Get("/assets")
		if r.Status == 200 {
			for _, m := range sectionRe.FindAllStringSubmatch(string(r.Body), -1) {
				if nm := strongRe.FindStringSubmatch(m[1]); nm != nil {
					sections[nm[1]] = strings.Join(strings.Fields(m[1]), " ")
				}
			}
		}
	}
	for _, a := range assets {
		o := &assetObs{win: map[string][]winSeg{}}
		sec, listed := sections[a.Name]
		o.listed = listed
		order := []string{}
		type acc struct {
			n, n200, n404 int
			h            io.Writer
			sum          func() string
		}
		accs := map[string]*acc{}
		get := func(c string) *acc {
			if x, ok := accs[c]; ok {
				return x
			}
			h := sha1.New()
			x := &acc{h: h, sum: func() string { return hex.EncodeToString(h.Sum(nil)[:8]) }}
			accs[c] = x
			order = append(order, c)
			return x
		}
		for _, rq := range p.byAsset[a.Name] {
			x := get(rq.cls)
			status, dig := 404, "-"
			var body []byte
			if s != nil {
				r := s.Get(rq.url)
				status, body = r.Status, r.Body
				dig = fullDigest(body)
			}
			x.n++
			switch status {
			case 200:
				x.n200++
			case 404:
				x.n404++
			}
			fmt.Fprintf(x.h, "%s %d %s\n", rq.url, status, dig)
			o.per = append(o.per, fmt.Sprintf("%d:%s", status, dig[:min(12, len(dig))]))
			if wantWin && rq.far > 0 {
				o.farSt[rq.far-1] = status
				if status == 200 {
					o.far[rq.far-1] = memo.get(body, dig, a.V)
				}
			}
			if wantWin && rq.pos >= 0 && status == 200 {
				rt := a.V
				if a.A != nil && rq.rep == a.A.ID {
					rt = a.A
				}
				w := memo.get(body, dig, rt)
				for len(o.win[rq.rep]) <= rq.pos {
					o.win[rq.rep] = append(o.win[rq.rep], winSeg{})
				}
				o.win[rq.rep][rq.pos] = w
			}
		}
		// the listing of the asset (name, loop duration, MPD names and durations)
		x := get("list")
		x.n = 1
		if listed {
			x.n200 = 1
			fmt.Fprintf(x.h, "%s", sec)
		} else {
			x.n404 = 1
		}
		for _, c := range order {
			x := accs[c]
			o.cls = append(o.cls, clsSum{C: c, N: x.n, N200: x.n200, N404: x.n404, Dig: x.sum()})
		}
		res[a.Name] = o
	}
	return res
}

// mpdTimeline: what the server DECLARES in its SegmentTimeline MPD against what it SERVES for the declared entries: the
// first cnt entries (t, d) of the representation's timeline (expanded) and, for each, the status and the first tfdt of the
// segment requested with $Time$ = t (-1: not 200 / not parseable).
type mtlObs struct {
	rep            string
	t, d, st, tfdt []int64
}

type mpdMemo struct {
	mu sync.Mutex
	m  map[string]*project.XMPD
}

var mpdCache = &mpdMemo{m: map[string]*project.XMPD{}}

func observeTimeline(s *srv.S, a *assetTruth, memo *parseMemo) ([]mtlObs, int) {
	tim := tl.Cfg{Mode: "time", SNR: -1, TSBD: -1}
	r := s.Get(q(tim.Prefix(a.Name)+"/"+a.MPDs[0], t1MS))
	nreq := 1
	if r.Status != 200 {
		return nil, nreq
	}
	key := fullDigest(r.Body)
	mpdCache.mu.Lock()
	m := mpdCache.m[key]
	mpdCache.mu.Unlock()
	if m == nil {
		var err error
		m, err = project.ParseMPD(r.Body)
		if err != nil {
			return nil, nreq
		}
		mpdCache.mu.Lock()
		mpdCache.m[key] = m
		mpdCache.mu.Unlock()
	}
	var res []mtlObs
	for _, rt := range []*project.RepTruth{a.V, a.A} {
		if rt == nil {
			continue
		}
		as := m.FindAS(0, rt.Kind, rt.ID)
		o := mtlObs{rep: rt.ID, t: []int64{}, d: []int64{}, st: []int64{}, tfdt: []int64{}}
		if as != nil && as.SegmentTemplate != nil && as.SegmentTemplate.Timeline != nil {
			var t uint64
			cnt := a.V.N + 2
		outer:
			for _, e := range as.SegmentTemplate.Timeline.S {
				if e.T != nil {
					t = *e.T
				}
				for j := 0; j <= e.R; j++ {
					if len(o.t) >= cnt {
						break outer
					}
					u := strings.ReplaceAll(strings.ReplaceAll(as.SegmentTemplate.Media, "$RepresentationID$", rt.ID), "$Time$", fmt.Sprint(t))
					sr := s.Get(q(tim.Prefix(a.Name)+"/"+u, t1MS))
					nreq++
					tf := int64(-1)
					if sr.Status == 200 {
						if w := memo.get(sr.Body, fullDigest(sr.Body), rt); w.ok {
							tf = w.tfdt
						}
					}
					o.t, o.d, o.st, o.tfdt = append(o.t, int64(t)), append(o.d, int64(e.D)), append(o.st, int64(sr.Status)), append(o.tfdt, tf)
					t += e.D
				}
			}
		}
		res = append(res, o)
	}
	return res, nreq
}

func (wk *worker) emitTimeline(inst int, s *srv.S, a *assetTruth) {
	if s == nil {
		return
	}
	obs, nreq := observeTimeline(s, a, wk.memo)
	wk.requests += nreq
	for _, o := range obs {
		if len(o.t) >= a.V.N+1 {
			wk.fullTimelines++
		}
		var base int64
		if len(o.t) > 0 {
			base = o.t[0]
		}
		served := make([]int64, len(o.tfdt))
		for i, v := range o.tfdt {
			served[i] = v
			if v < 0 { // nothing parseable was served: the status says so (200 -> -200)
				served[i] = base
				if o.st[i] == 200 {
					o.st[i] = -200
				}
			}
		}
		t, o1 := rebase32(o.t, base)
		tf, o2 := rebase32(served, base)
		d, o3 := rebase32(o.d, 0)
		wk.w.Emit(tr.E{"ev": "mtl", "inst": inst, "asset": a.Name, "rep": o.rep, "N": a.V.N, "t0": fmt.Sprint(base), "t": t, "d": d, "st": o.st,
			"tfdt": tf, "ovf": o1 || o2 || o3})
	}
}

// emitFar: video segments k*N and k*N+1 far from the epoch as served, against the construction of the asset: the decode time
// must be k*L + start(j) exactly (L = loop in ticks). Logged as pairs over L.
func (wk *worker) emitFar(inst int, a *assetTruth, o *assetObs) {
	if !a.Gen || !a.Adm {
		return
	}
	L := a.V.L
	k := (t2MS - 30_000) / (L * 1000 / a.V.TS)
	st, w, r := []int{}, []int64{}, []int64{}
	for j := 0; j < 2; j++ {
		st = append(st, o.farSt[j])
		if o.far[j].ok {
			pr := project.Pair(o.far[j].tfdt, L)
			if pr[0] > int32Max {
				pr[0] = int32Max // cannot equal k (< 2^31 - 1 by the choice of t2)
			}
			w, r = append(w, pr[0]), append(r, pr[1])
		} else {
			w, r = append(w, -1), append(r, -1)
		}
	}
	wk.farChecks++
	wk.w.Emit(tr.E{"ev": "far", "inst": inst, "asset": a.Name, "rep": a.V.ID, "N": a.V.N, "L": L, "TS": a.V.TS, "k": k,
		"st": st, "w": w, "r": r, "exp": []int64{a.V.Vod0, a.V.Vod0 + a.V.Dur[0]}})
}

const int32Max = int64(1_000_000_000) // clamp limit: sums of two clamped values still fit TLC's 32-bit integers

// rebase32 returns vs[i] - base clamped to the 32-bit range TLC's integers have, and whether anything was clamped.
// (Times served by a broken table can be arbitrarily large; within one window of N+2 consecutive segments of the
// assets built here all true times are far less than 2^31 ticks apart.)
func rebase32(vs []int64, base int64) ([]int64, bool) {
	out := make([]int64, len(vs))
	ovf := false
	for i, v := range vs {
		d := v - base
		if d > int32Max {
			d, ovf = int32Max, true
		} else if d < -int32Max {
			d, ovf = -int32Max, true
		}
		out[i] = d
	}
	return out, ovf
}

func startServer(vod, rdRoot string, write bool) (s *srv.S, errStr string) {
	defer func() {
		if r := recover(); r != nil {
			s, errStr = nil, fmt.Sprintf("panic: %v", r)
		}
	}()
	s, err := srv.New(vod, func(c *app.ServerConfig) {
		c.RepDataRoot = rdRoot
		c.WriteRepData = write
	})
	if err != nil {
		return nil, err.Error()
	}
	return s, ""
}

// ---------------------------------------------------------------- metadata files

func cacheFiles(dir string) ([][2]string, error) {
	res := [][2]string{}
	if _, err := os.Stat(dir); err != nil {
		return res, nil
	}
	err := filepath.Walk(dir, func(p string, info os.FileInfo, err error) error {
		if err != nil {
			return err
		}
		if info.IsDir() {
			return nil
		}
		if strings.HasSuffix(p, "_data.json.gz") || strings.HasSuffix(p, "_data.json") {
			data, err := os.ReadFile(p)
			if err != nil {
				return err
			}
			rel, _ := filepath.Rel(dir, p)
			res = append(res, [2]string{rel, project.Digest(data)})
		}
		return nil
	})
	sort.Slice(res, func(i, j int) bool { return res[i][0] < res[j][0] })
	return res, err
}

func wipeCache(dir string, removeDir bool) error {
	if removeDir {
		return os.RemoveAll(dir)
	}
	fl, err := cacheFiles(dir)
	if err != nil {
		return err
	}
	for _, f := range fl {
		if err := os.Remove(filepath.Join(dir, f[0])); err != nil {
			return err
		}
	}
	return nil
}

func gz(data []byte) []byte {
	var b bytes.Buffer
	w := gzip.NewWriter(&b)
	_, _ = w.Write(data)
	_ = w.Close()
	return b.Bytes()
}

func gunzip(data []byte) ([]byte, error) {
	r, err := gzip.NewReader(bytes.NewReader(data))
	if err != nil {
		return nil, err
	}
	return io.ReadAll(r)
}

// damage replaces the metadata file of rep ("asset/rep") under dir. Returns (variant, offset, precond).
// precond = false: the model says the file is a good one but the bytes on disk are not a gzipped document (a
// write-mode start did not leave a usable file); the action is then carried out on whatever is there and the
// trace specification treats the result as "garbage" (the lenient kind).
func damage(dir, rep, kind string, rng *rand.Rand) (string, int, bool, error) {
	asset, id := filepath.Split(rep)
	base := filepath.Join(dir, asset, id+"_data.json")
	gzp := base + ".gz"
	cur, curErr := os.ReadFile(gzp)
	var plain []byte
	good := false
	if curErr == nil {
		if pl, err := gunzip(cur); err == nil && len(pl) > 0 {
			plain, good = pl, true
		}
	}
	_ = os.Remove(base)
	_ = os.Remove(gzp)
	if err := os.MkdirAll(filepath.Dir(base), 0o755); err != nil {
		return "", 0, false, err
	}
	switch kind {
	case "truncated":
		if !good || len(cur) < 2 {
			return "cut-of-unusable-file", len(cur) / 2, false, os.WriteFile(gzp, cur[:len(cur)/2], 0o644)
		}
		off := 1 + rng.Intn(len(cur)-1)
		switch rng.Intn(4) {
		case 0:
			off = len(cur) - 1 - rng.Intn(8) // inside the gzip trailer
		case 1:
			off = 1 + rng.Intn(10) // inside the gzip header
		}
		return "cut", off, true, os.WriteFile(gzp, cur[:off], 0o644)
	case "empty":
		return "zero-bytes", 0, true, os.WriteFile(gzp, nil, 0o644)
	case "plainjson":
		if !good {
			return "plain-copy-of-unusable-file", 0, false, os.WriteFile(base, cur, 0o644)
		}
		return "gunzipped", 0, true, os.WriteFile(base, plain, 0o644)
	case "garbage":
		switch v := rng.Intn(10); {
		case v == 8 && goodGZ[rep] != nil:
			d := bitFlipJob(rep, rng.Intn(len(goodGZ[rep])), rng.Intn(8))
			return d.Desc, 0, true, os.WriteFile(gzp, d.Bytes, 0o644)
		case v == 9 && goodGZ[rep] != nil:
			ds, err := staleCRCJobs(rep)
			if err == nil && len(ds) > 0 {
				d := ds[rng.Intn(len(ds))]
				return d.Desc, 0, true, os.WriteFile(gzp, d.Bytes, 0o644)
			}
			return "zero-bytes", 0, true, os.WriteFile(gzp, nil, 0o644)
		case v >= 6 && v < 8 && goodJSON[rep] != nil:
			// well-formed JSON with one value of another type
			ds, err := typedDamages(goodJSON[rep])
			if err != nil {
				return "", 0, false, err
			}
			d := ds[rng.Intn(len(ds))]
			return "typed:" + d.Path + "=" + d.Value, 0, true, writeTyped(dir, rep, d)
		case v == 0:
			b := make([]byte, 1+rng.Intn(300))
			rng.Read(b)
			return "random-bytes", len(b), true, os.WriteFile(gzp, b, 0o644)
		case v == 1:
			b := make([]byte, 1+rng.Intn(200))
			for i := range b {
				b[i] = byte(32 + rng.Intn(90))
			}
			return "gzip-of-text", len(b), true, os.WriteFile(gzp, gz(b), 0o644)
		case v == 2:
			return "gzip-of-empty-object", 0, true, os.WriteFile(gzp, gz([]byte("{}")), 0o644)
		case v == 4:
			// a well-formed record of another shape: no segment table
			return "gzip-of-record-without-segments", 0, true, os.WriteFile(gzp, gz([]byte(`{"id":"`+id+`","contentType":"video","mediaTimescale":90000,"initURI":"`+id+`/init.mp4","mediaURI":"`+id+`/$Number$.m4s","segments":[]}`)), 0o644)
		case v == 3 && len(plain) > 2:
			off := 1 + rng.Intn(len(plain)-1)
			return "gzip-of-json-prefix", off, true, os.WriteFile(gzp, gz(plain[:off]), 0o644)
		default:
			return "gzip-of-json-array", 0, true, os.WriteFile(gzp, gz([]byte(`[{"id":"x"}]`)), 0o644)
		}
	}
	return "", 0, false, fmt.Errorf("unknown damage kind %q", kind)
}

func removeRep(dir, rep string) {
	asset, id := filepath.Split(rep)
	base := filepath.Join(dir, asset, id+"_data.json")
	_ = os.Remove(base)
	_ = os.Remove(base + ".gz")
}

// ---------------------------------------------------------------- type-level damage of well-formed metadata files

// goodJSON: the plain JSON of every metadata file as a write-mode server writes it (captured once; read-only afterwards).
var goodJSON = map[string][]byte{}

type typedDamage struct {
	Path  string // "field" or "segments[i].field"
	Value string // replacement (JSON text)
}

var wrongValues = []string{`"x"`, `"false"`, `-3`, `1e30`, `99999999999999999999`, `1.5`, `null`, `true`, `[]`, `{}`, `[{"a":[1]}]`, `[1,"x"]`}

func jsonKind(raw json.RawMessage) string {
	t := bytes.TrimSpace(raw)
	if len(t) == 0 {
		return "?"
	}
	switch t[0] {
	case '"':
		return "string"
	case '{':
		return "object"
	case '[':
		return "array"
	case 't', 'f':
		return "bool"
	case 'n':
		return "null"
	}
	return "number"
}

// replacements for a value: every wrong value whose JSON type differs, plus for numbers the out-of-range / negative /
// fractional numbers
func replacementsFor(raw json.RawMessage) []string {
	k := jsonKind(raw)
	var res []string
	for _, v := range wrongValues {
		vk := jsonKind(json.RawMessage(v))
		if vk == k && k != "number" && k != "array" {
			continue
		}
		if k == "string" && vk == "string" {
			continue
		}
		res = append(res, v)
	}
	return res
}

// typedDamages enumerates (field, replacement) for one real metadata file: every top-level field and every field of the
// first and the last entry of the segment table.
func typedDamages(plain []byte) ([]typedDamage, error) {
	var top map[string]json.RawMessage
	if err := json.Unmarshal(plain, &top); err != nil {
		return nil, err
	}
	keys := make([]string, 0, len(top))
	for k := range top {
		keys = append(keys, k)
	}
	sort.Strings(keys)
	var res []typedDamage
	for _, k := range keys {
		for _, v := range replacementsFor(top[k]) {
			res = append(res, typedDamage{k, v})
		}
	}
	var segs []map[string]json.RawMessage
	if err := json.Unmarshal(top["segments"], &segs); err != nil || len(segs) == 0 {
		return nil, fmt.Errorf("metadata file without a segment table: %v", err)
	}
	for _, i := range []int{0, len(segs) - 1} {
		sk := make([]string, 0, len(segs[i]))
		for k := range segs[i] {
			sk = append(sk, k)
		}
		sort.Strings(sk)
		for _, k := range sk {
			for _, v := range replacementsFor(segs[i][k]) {
				res = append(res, typedDamage{fmt.Sprintf("segments[%d].%s", i, k), v})
			}
		}
		for _, v := range []string{`"x"`, `5`, `null`, `[]`} {
			res = append(res, typedDamage{fmt.Sprintf("segments[%d]", i), v})
		}
	}
	return res, nil
}

var segPathRe = regexp.MustCompile(`^segments\[(\d+)\](?:\.(\w+))?$`)

// applyTyped returns the document with one value replaced; everything else keeps its bytes' meaning.
func applyTyped(plain []byte, d typedDamage) ([]byte, error) {
	var top map[string]json.RawMessage
	if err := json.Unmarshal(plain, &top); err != nil {
		return nil, err
	}
	if m := segPathRe.FindStringSubmatch(d.Path); m != nil {
		var segs []json.RawMessage
		if err := json.Unmarshal(top["segments"], &segs); err != nil {
			return nil, err
		}
		var i int
		fmt.Sscan(m[1], &i)
		if i >= len(segs) {
			return nil, fmt.Errorf("no segment %d", i)
		}
		if m[2] == "" {
			segs[i] = json.RawMessage(d.Value)
		} else {
			var sm map[string]json.RawMessage
			if err := json.Unmarshal(segs[i], &sm); err != nil {
				return nil, err
			}
			if _, ok := sm[m[2]]; !ok {
				return nil, fmt.Errorf("no field %s", d.Path)
			}
			sm[m[2]] = json.RawMessage(d.Value)
			segs[i], _ = json.Marshal(sm)
		}
		top["segments"], _ = json.Marshal(segs)
	} else {
		if _, ok := top[d.Path]; !ok {
			return nil, fmt.Errorf("no field %s", d.Path)
		}
		top[d.Path] = json.RawMessage(d.Value)
	}
	return json.Marshal(top)
}

// writeTyped installs the type-damaged variant of rep's metadata file (gzipped) under dir.
func writeTyped(dir, rep string, d typedDamage) error {
	plain, ok := goodJSON[rep]
	if !ok {
		return fmt.Errorf("no captured metadata file for %s", rep)
	}
	doc, err := applyTyped(plain, d)
	if err != nil {
		return err
	}
	asset, id := filepath.Split(rep)
	base := filepath.Join(dir, asset, id+"_data.json")
	_ = os.Remove(base)
	if err := os.MkdirAll(filepath.Dir(base), 0o755); err != nil {
		return err
	}
	return os.WriteFile(base+".gz", gz(doc), 0o644)
}

// captureGood records the metadata files a write-mode server writes (worker 0, before any behaviour).
func (wk *worker) captureGood() error {
	if err := wk.wipe(); err != nil {
		return err
	}
	defer wk.wipe()
	s, errStr := startServer(wk.vod, wk.rd, true)
	if s == nil {
		return fmt.Errorf("capture: write-mode server did not start: %s", errStr)
	}
	s.Cancel()
	fl, err := cacheFiles(wk.rd)
	if err != nil {
		return err
	}
	for _, f := range fl {
		if !strings.HasSuffix(f[0], "_data.json.gz") {
			continue
		}
		data, err := os.ReadFile(filepath.Join(wk.rd, f[0]))
		if err != nil {
			return err
		}
		plain, err := gunzip(data)
		if err != nil {
			return fmt.Errorf("capture %s: %w", f[0], err)
		}
		goodJSON[strings.TrimSuffix(filepath.ToSlash(f[0]), "_data.json.gz")] = plain
		goodGZ[strings.TrimSuffix(filepath.ToSlash(f[0]), "_data.json.gz")] = data
	}
	if len(goodJSON) == 0 {
		return fmt.Errorf("capture: write mode left no metadata files")
	}
	return nil
}

// goodGZ: the written .gz bytes per representation (captured with goodJSON)
var goodGZ = map[string][]byte{}

// fileDamage is one damaged variant of a metadata file: Desc for the trace, Bytes = the .gz content to install.
type fileDamage struct {
	Desc  string
	Field string // class for statistics
	Bytes []byte
}

func typedJob(rep string, d typedDamage) (fileDamage, error) {
	doc, err := applyTyped(goodJSON[rep], d)
	if err != nil {
		return fileDamage{}, err
	}
	return fileDamage{Desc: "typed:" + d.Path + "=" + d.Value, Field: d.Path, Bytes: gz(doc)}, nil
}

// bitFlipJob: one bit of the COMPRESSED file flipped (header, deflate blocks, CRC-32 or ISIZE trailer).
func bitFlipJob(rep string, off, bit int) fileDamage {
	b := append([]byte{}, goodGZ[rep]...)
	b[off] ^= 1 << uint(bit)
	region := "deflate"
	switch {
	case off < 10:
		region = "header"
	case off >= len(b)-8 && off < len(b)-4:
		region = "crc"
	case off >= len(b)-4:
		region = "isize"
	}
	return fileDamage{Desc: fmt.Sprintf("bitflip:%s@%d.%d/%d", region, off, bit, len(b)), Field: "bitflip-" + region, Bytes: b}
}

// staleCRCJobs: valid gzip streams of an ALTERED document (one numeric value of the table changed to another plausible
// value, the document still well-formed, of the right shape and with a contiguous table) whose CRC-32 / ISIZE trailer is
// the one of the original file: the check sum mismatch is the only symptom of the damage.
func staleCRCJobs(rep string) ([]fileDamage, error) {
	var top map[string]json.RawMessage
	if err := json.Unmarshal(goodJSON[rep], &top); err != nil {
		return nil, err
	}
	var segs []map[string]int64
	if err := json.Unmarshal(top["segments"], &segs); err != nil || len(segs) == 0 {
		return nil, fmt.Errorf("stale-crc %s: no numeric segment table (%v)", rep, err)
	}
	var mts int64
	_ = json.Unmarshal(top["mediaTimescale"], &mts)
	orig := goodGZ[rep]
	trailer := orig[len(orig)-8:]
	mk := func(desc string, mut func(sg []map[string]int64, tp map[string]json.RawMessage)) fileDamage {
		sg := make([]map[string]int64, len(segs))
		for i, m := range segs {
			sg[i] = map[string]int64{}
			for k, v := range m {
				sg[i][k] = v
			}
		}
		tp := map[string]json.RawMessage{}
		for k, v := range top {
			tp[k] = v
		}
		mut(sg, tp)
		tp["segments"], _ = json.Marshal(sg)
		doc, _ := json.Marshal(tp)
		z := gz(doc)
		copy(z[len(z)-8:], trailer)
		return fileDamage{Desc: "stale-crc:" + desc, Field: "stale-crc", Bytes: z}
	}
	last := len(segs) - 1
	step := mts / 2 // half a second
	if step == 0 {
		step = 1
	}
	var res []fileDamage
	if last >= 1 {
		res = append(res,
			mk("nr-of-last-is-nr-of-previous", func(sg []map[string]int64, _ map[string]json.RawMessage) { sg[last]["nr"] = sg[last-1]["nr"] }),
			mk("nr-of-second-is-nr-of-first", func(sg []map[string]int64, _ map[string]json.RawMessage) { sg[1]["nr"] = sg[0]["nr"] }),
			mk("boundary-0/1-moved", func(sg []map[string]int64, _ map[string]json.RawMessage) {
				sg[0]["endTime"] += step / 4
				sg[1]["startTime"] += step / 4
			}),
			mk("boundary-last-moved", func(sg []map[string]int64, _ map[string]json.RawMessage) {
				sg[last-1]["endTime"] -= step / 4
				sg[last]["startTime"] -= step / 4
			}))
	}
	res = append(res,
		mk("last-endTime-plus-half-second", func(sg []map[string]int64, _ map[string]json.RawMessage) { sg[last]["endTime"] += step }),
		mk("last-endTime-plus-4-ninths-second", func(sg []map[string]int64, _ map[string]json.RawMessage) { sg[last]["endTime"] += mts * 4 / 9 }),
		mk("all-times-shifted", func(sg []map[string]int64, _ map[string]json.RawMessage) {
			for i := range sg {
				sg[i]["startTime"] += step
				sg[i]["endTime"] += step
			}
		}),
		mk("mediaTimescale-doubled", func(_ []map[string]int64, tp map[string]json.RawMessage) {
			tp["mediaTimescale"] = json.RawMessage(fmt.Sprint(2 * mts))
		}),
		mk("defaultSampleDuration-plus-1", func(_ []map[string]int64, tp map[string]json.RawMessage) {
			var d int64
			_ = json.Unmarshal(tp["defaultSampleDuration"], &d)
			tp["defaultSampleDuration"] = json.RawMessage(fmt.Sprint(d + 1))
		}))
	return res, nil
}

// runSweep: one write-mode start, then for every job: the file of the representation is replaced by the damaged
// variant (only that file is damaged at any time) and a read-mode server is started.
func (wk *worker) runSweep(idx int, root, rep string, jobs []fileDamage) error {
	if err := wk.wipe(); err != nil {
		return err
	}
	dir := wk.rdRoot(root)
	wk.w.Emit(tr.E{"ev": "hdr", "beh": idx, "vod": wk.id, "root": root, "map": map[string]string{"r1": rep, "r2": "-"},
		"desc": fmt.Sprintf("%s:S+ then %d x [file-damage(%s) S-]", root, len(jobs), rep)})
	s, errStr := startServer(wk.vod, dir, true)
	wk.emitInstance(0, true, root, s, errStr)
	if s != nil {
		s.Cancel()
	}
	asset, id := filepath.Split(rep)
	base := filepath.Join(dir, asset, id+"_data.json")
	for i, d := range jobs {
		_ = os.Remove(base)
		if err := os.MkdirAll(filepath.Dir(base), 0o755); err != nil {
			return err
		}
		if err := os.WriteFile(base+".gz", d.Bytes, 0o644); err != nil {
			return fmt.Errorf("sweep %s %s: %w", rep, d.Desc, err)
		}
		wk.w.Emit(tr.E{"ev": "damage", "rep": rep, "kind": "garbage", "variant": d.Desc, "off": 0, "precond": true})
		s, errStr := startServer(wk.vod, dir, false)
		wk.emitInstance(i+1, false, root, s, errStr)
		if s != nil {
			s.Cancel()
		}
		wk.sweeps++
	}
	return nil
}

// ---------------------------------------------------------------- worker

type worker struct {
	id     int
	vod    string
	rd     string
	w      *tr.W
	assets []*assetTruth
	pool   *pool
	ref    map[string]*assetObs
	memo   *parseMemo

	instances, cacheRead, requests int
	fullWindows, precondFailed     int
	fullTimelines, farChecks       int
	sweeps                         int
	tStart, tObs                   time.Duration
	outcomes                       map[string]int
	samples                        []any
}

func (wk *worker) rdRoot(root string) string {
	switch root {
	case "same":
		return wk.vod
	case "separate":
		return wk.rd
	}
	return ""
}

func outcomeOf(o, ref *assetObs) string {
	all404 := true
	for _, c := range o.cls {
		if c.N404 != c.N {
			all404 = false
		}
	}
	if !o.listed && all404 {
		return "absent"
	}
	if o.listed == ref.listed && len(o.cls) == len(ref.cls) {
		same := true
		for i := range o.cls {
			if o.cls[i] != ref.cls[i] {
				same = false
			}
		}
		if same {
			return "scan"
		}
	}
	return "different"
}

func (wk *worker) emitInstance(inst int, write bool, root string, s *srv.S, errStr string) {
	wk.instances++
	wantWin := root != "disabled" && !write
	if wantWin {
		wk.cacheRead++
	}
	obs := observe(s, wk.assets, wk.pool, wk.memo, wantWin)
	wk.requests += wk.pool.n + 1
	wk.w.Emit(tr.E{"ev": "start", "inst": inst, "write": write, "ok": s != nil, "err": errStr})
	for _, a := range wk.assets {
		o := obs[a.Name]
		ref := wk.ref[a.Name]
		oc := outcomeOf(o, ref)
		wk.outcomes[oc]++
		diff := []string{}
		if oc == "different" {
			rs := wk.pool.byAsset[a.Name]
			for i := range rs {
				if o.per[i] != ref.per[i] && len(diff) < 3 {
					diff = append(diff, fmt.Sprintf("%s got %s want %s", rs[i].url, o.per[i], ref.per[i]))
				}
			}
			if o.listed != ref.listed {
				diff = append(diff, fmt.Sprintf("listed %v want %v", o.listed, ref.listed))
			}
		}
		wk.w.Emit(tr.E{"ev": "asset", "inst": inst, "asset": a.Name, "listed": o.listed, "cls": o.cls, "diff": diff})
		if wantWin && oc != "absent" {
			wk.emitTimeline(inst, s, a)
			wk.emitFar(inst, a, o)
			for _, rt := range []*project.RepTruth{a.V, a.A} {
				if rt == nil || (a.MediaGap && rt == a.V) {
					continue
				}
				win := o.win[rt.ID]
				tf, du := []int64{}, []int64{}
				for _, x := range win {
					if !x.ok {
						break
					}
					tf = append(tf, x.tfdt)
					du = append(du, x.dur)
				}
				if len(tf) >= a.V.N+1 {
					wk.fullWindows++
				}
				var base int64
				if len(tf) > 0 {
					base = tf[0]
				}
				tfr, o1 := rebase32(tf, base)
				dur, o2 := rebase32(du, 0)
				wk.w.Emit(tr.E{"ev": "tl", "inst": inst, "asset": a.Name, "rep": rt.ID, "N": a.V.N, "n0": 0, "t0": fmt.Sprint(base), "tfdt": tfr, "dur": dur,
					"ovf": o1 || o2})
			}
		}
	}
	if root != "disabled" {
		fl, _ := cacheFiles(wk.rdRoot(root))
		wk.w.Emit(tr.E{"ev": "files", "inst": inst, "write": write, "files": fl})
	}
}

func (wk *worker) wipe() error {
	if err := wipeCache(wk.vod, false); err != nil {
		return err
	}
	return wipeCache(wk.rd, true)
}

func (wk *worker) runBeh(idx int, b Beh, mp [2]string, seed int64) error {
	if err := wk.wipe(); err != nil {
		return err
	}
	rng := rand.New(rand.NewSource(seed*1_000_003 + int64(idx)))
	wk.w.Emit(tr.E{"ev": "hdr", "beh": idx, "vod": wk.id, "root": b.Root, "map": map[string]string{"r1": mp[0], "r2": mp[1]}, "desc": b.String()})
	dir := wk.rdRoot(b.Root)
	inst := 0
	for _, a := range b.Acts {
		rep := ""
		switch a.R {
		case "r1":
			rep = mp[0]
		case "r2":
			rep = mp[1]
		}
		switch a.A {
		case "start":
			t0 := time.Now()
			s, errStr := startServer(wk.vod, dir, a.W)
			wk.tStart += time.Since(t0)
			t0 = time.Now()
			wk.emitInstance(inst, a.W, b.Root, s, errStr)
			wk.tObs += time.Since(t0)
			if s != nil {
				s.Cancel()
			}
			inst++
		case "damage":
			if dir == "" {
				return fmt.Errorf("behaviour %d: damage without a metadata root", idx)
			}
			variant, off, precond, err := damage(dir, rep, a.K, rng)
			if err != nil {
				return fmt.Errorf("behaviour %d (%s): %w", idx, b, err)
			}
			if !precond {
				wk.precondFailed++
			}
			wk.w.Emit(tr.E{"ev": "damage", "rep": rep, "kind": a.K, "variant": variant, "off": off, "precond": precond})
		case "remove":
			if dir == "" {
				return fmt.Errorf("behaviour %d: remove without a metadata root", idx)
			}
			removeRep(dir, rep)
			wk.w.Emit(tr.E{"ev": "remove", "rep": rep})
		default:
			return fmt.Errorf("unknown action %q", a.A)
		}
	}
	return nil
}

// reference starts the scanning server of this worker's VoD root and records its answers.
func (wk *worker) reference(buildPoolNow bool) error {
	s, errStr := startServer(wk.vod, "", false)
	if s == nil {
		return fmt.Errorf("reference server did not start: %s", errStr)
	}
	defer s.Cancel()
	if buildPoolNow {
		p, err := buildPool(wk.assets, s)
		if err != nil {
			return err
		}
		wk.pool = p
	}
	wk.ref = observe(s, wk.assets, wk.pool, wk.memo, true)
	for _, a := range wk.assets {
		o := wk.ref[a.Name]
		if a.Adm {
			// machinery sanity (never a verdict): the pool must be meaningful on the reference
			if !o.listed {
				return fmt.Errorf("reference server does not list admissible asset %s", a.Name)
			}
			for _, c := range o.cls {
				if c.N200 == 0 {
					return fmt.Errorf("reference server: no 200 in request class %s of asset %s", c.C, a.Name)
				}
			}
			for _, rt := range []*project.RepTruth{a.V, a.A} {
				if rt == nil {
					continue
				}
				if len(o.win[rt.ID]) != a.V.N+2 {
					return fmt.Errorf("reference server: window of %s/%s has %d of %d segments", a.Name, rt.ID, len(o.win[rt.ID]), a.V.N+2)
				}
			}
		}
		na := 0
		if a.A != nil {
			na = a.A.N
		}
		wk.w.Emit(tr.E{"ev": "ref", "vod": wk.id, "asset": a.Name, "adm": a.Adm, "open": a.AdmOpen, "reps": repKeys(a), "nv": a.V.N, "na": na,
			"listed": o.listed, "cls": o.cls})
		if a.Adm {
			// the scanning server's own declared timeline against what it serves (inst -1)
			before := wk.fullTimelines
			wk.emitTimeline(-1, s, a)
			wk.emitFar(-1, a, o)
			if wk.fullTimelines-before == 0 {
				return fmt.Errorf("reference server: no complete declared timeline for asset %s", a.Name)
			}
		}
	}
	return nil
}

func repKeys(a *assetTruth) []string {
	var r []string
	for _, id := range a.Reps {
		r = append(r, a.Name+"/"+id)
	}
	return r
}

// probeCacheIsRead is a vacuity guard: a VALID but altered metadata file must change what is served, otherwise the
// metadata files are not consulted at all and every comparison of this driver is empty.
func (wk *worker) probeCacheIsRead() (bool, error) {
	if err := wk.wipe(); err != nil {
		return false, err
	}
	defer wk.wipe()
	s, errStr := startServer(wk.vod, wk.rd, true)
	if s == nil {
		return false, fmt.Errorf("probe: write-mode server did not start: %s", errStr)
	}
	s.Cancel()
	p := filepath.Join(wk.rd, "g_irr90k", "V300_data.json.gz")
	data, err := os.ReadFile(p)
	if err != nil {
		return false, fmt.Errorf("probe: write mode left no %s: %w", p, err)
	}
	plain, err := gunzip(data)
	if err != nil {
		return false, err
	}
	var m map[string]any
	if err := json.Unmarshal(plain, &m); err != nil {
		return false, err
	}
	segs, ok := m["segments"].([]any)
	if !ok || len(segs) < 2 {
		return false, fmt.Errorf("probe: unexpected metadata layout: %s", plain[:min(len(plain), 200)])
	}
	s0, s1 := segs[0].(map[string]any), segs[1].(map[string]any)
	s0["endTime"] = s0["endTime"].(float64) + 9000
	s1["startTime"] = s1["startTime"].(float64) + 9000
	alt, _ := json.Marshal(m)
	if err := os.WriteFile(p, gz(alt), 0o644); err != nil {
		return false, err
	}
	s, errStr = startServer(wk.vod, wk.rd, false)
	if s == nil {
		return false, fmt.Errorf("probe: read-mode server did not start: %s", errStr)
	}
	defer s.Cancel()
	obs := observe(s, wk.assets, wk.pool, wk.memo, false)
	return outcomeOf(obs["g_irr90k"], wk.ref["g_irr90k"]) != "scan", nil
}

// ---------------------------------------------------------------- main

func Main(args []string) error {
	fs := flag.NewFlagSet("c15", flag.ExitOnError)
	out := fs.String("out", "c15", "trace output prefix: <out>.w<k>.ndjson per worker")
	gen := fs.String("gen", "", "behaviours from TLC (one JSON object per line)")
	work := fs.String("work", "", "scratch directory")
	seed := fs.Int64("seed", 1, "seed")
	n := fs.Int("n", 0, "number of behaviours to replay (0 = all); behaviours ending in Start, Start(read) (they cover every shorter behaviour as a prefix) get up to two thirds of it")
	workers := fs.Int("workers", 4, "parallel workers (one VoD root copy each)")
	thorough := fs.Bool("thorough", false, "all loop-duration layouts, full type-damage product")
	_ = fs.Parse(args)
	debug.SetGCPercent(400) // thousands of short-lived server instances: trade memory for time
	if *work == "" || *gen == "" {
		return fmt.Errorf("-work and -gen required")
	}
	// behaviours
	data, err := os.ReadFile(*gen)
	if err != nil {
		return err
	}
	var all []Beh
	for _, line := range strings.Split(string(data), "\n") {
		if strings.TrimSpace(line) == "" {
			continue
		}
		var b Beh
		if err := json.Unmarshal([]byte(line), &b); err != nil {
			return fmt.Errorf("gen line: %w", err)
		}
		all = append(all, b)
	}
	sort.SliceStable(all, func(i, j int) bool { return all[i].String() < all[j].String() })
	rng := rand.New(rand.NewSource(*seed))
	var sel []Beh
	if *n <= 0 || *n >= len(all) {
		sel = all
	} else {
		var rest []Beh
		for _, b := range all {
			k := len(b.Acts)
			if k >= 2 && b.Acts[k-1].A == "start" && !b.Acts[k-1].W && b.Acts[k-2].A == "start" {
				sel = append(sel, b) // covers every shorter behaviour as a prefix
			} else {
				rest = append(rest, b)
			}
		}
		// the prefix-covering ones take at most two thirds of the budget (a seeded choice when there are more)
		if quota := *n * 2 / 3; len(sel) > quota {
			rng.Shuffle(len(sel), func(i, j int) { sel[i], sel[j] = sel[j], sel[i] })
			sel = sel[:quota]
		}
		rng.Shuffle(len(rest), func(i, j int) { rest[i], rest[j] = rest[j], rest[i] })
		for _, b := range rest {
			if len(sel) >= *n {
				break
			}
			sel = append(sel, b)
		}
	}
	mapOff := int(rng.Int63n(int64(len(mappings))))

	// VoD roots
	_ = os.RemoveAll(*work)
	master := filepath.Join(*work, "master")
	assets, err := buildMaster(master, *thorough)
	if err != nil {
		return err
	}
	memo := &parseMemo{m: map[string]winSeg{}}
	wks := make([]*worker, *workers)
	for k := range wks {
		wk := &worker{id: k, vod: filepath.Join(*work, fmt.Sprintf("w%d", k), "vod"), rd: filepath.Join(*work, fmt.Sprintf("w%d", k), "repdata"),
			assets: assets, memo: memo, outcomes: map[string]int{}}
		if err := copyTree(master, wk.vod); err != nil {
			return err
		}
		wk.w, err = tr.New(fmt.Sprintf("%s.w%d.ndjson", *out, k))
		if err != nil {
			return err
		}
		if k > 0 {
			wk.pool = wks[0].pool
		}
		if err := wk.reference(k == 0); err != nil {
			return err
		}
		wks[k] = wk
	}
	probe, err := wks[0].probeCacheIsRead()
	if err != nil {
		return err
	}
	if err := wks[0].captureGood(); err != nil {
		return err
	}
	// file-damage sweep: chunks of (representation, [damaged variant of its file ...]): type-level damage of the JSON,
	// bit flips of the compressed stream, valid gzip of an altered document with a stale trailer
	type sweepChunk struct {
		rep  string
		root string
		jobs []fileDamage
	}
	var chunks []sweepChunk
	sweepReps := []string{"g_irr90k/V300", "testpic_2s/A48", "g_1001tl/V300"}
	if *thorough {
		sweepReps = append(sweepReps, "g_twov/V600", "testpic_2s/V300", "g_gap/A48", "r15360_7975/V300", "testpic_2s/thumbs")
	}
	sweepFields := map[string]bool{}
	for ri, rep := range sweepReps {
		if goodJSON[rep] == nil {
			return fmt.Errorf("sweep: no metadata file captured for %s", rep)
		}
		ds, err := typedDamages(goodJSON[rep])
		if err != nil {
			return err
		}
		var sel []typedDamage
		if *thorough {
			sel = ds
		} else {
			// every field once or twice, the replacement values seeded
			byPath := map[string][]typedDamage{}
			var order []string
			for _, d := range ds {
				if byPath[d.Path] == nil {
					order = append(order, d.Path)
				}
				byPath[d.Path] = append(byPath[d.Path], d)
			}
			for pi, pth := range order {
				c := byPath[pth]
				sel = append(sel, c[rng.Intn(len(c))])
				if (pi+ri)%2 == 0 {
					sel = append(sel, c[rng.Intn(len(c))])
				}
			}
		}
		var jobs []fileDamage
		for _, d := range sel {
			j, err := typedJob(rep, d)
			if err != nil {
				return err
			}
			jobs = append(jobs, j)
		}
		// compression level: stale trailer (all), bit flips (thorough: every byte of the file, the bit rotating;
		// quick: header, trailer and a seeded sample of the deflate blocks)
		if rep != "testpic_2s/thumbs" {
			sj, err := staleCRCJobs(rep)
			if err != nil {
				return err
			}
			if !*thorough && ri > 0 {
				rng.Shuffle(len(sj), func(i, j int) { sj[i], sj[j] = sj[j], sj[i] })
				sj = sj[:4]
			}
			jobs = append(jobs, sj...)
		}
		z := goodGZ[rep]
		if *thorough {
			if ri < 4 {
				for off := range z {
					jobs = append(jobs, bitFlipJob(rep, off, (off+ri)%8))
				}
			}
		} else {
			offs := []int{rng.Intn(10), 3, len(z) - 8 + rng.Intn(4), len(z) - 4 + rng.Intn(4)}
			for i := 0; i < 6; i++ {
				offs = append(offs, 10+rng.Intn(len(z)-18))
			}
			for _, off := range offs {
				jobs = append(jobs, bitFlipJob(rep, off, rng.Intn(8)))
			}
		}
		for _, d := range jobs {
			sweepFields[d.Field] = true
		}
		for i := 0; i < len(jobs); i += 12 {
			root := "separate"
			if (i/12+ri)%2 == 1 {
				root = "same"
			}
			chunks = append(chunks, sweepChunk{rep, root, jobs[i:min(i+12, len(jobs))]})
		}
	}
	if !probe {
		return fmt.Errorf("vacuity probe: an altered (valid) metadata file did not change the answers for its asset - the cache is not read")
	}

	// replay
	var wg sync.WaitGroup
	errs := make([]error, len(wks))
	for k, wk := range wks {
		wg.Add(1)
		go func(k int, wk *worker) {
			defer wg.Done()
			for idx := k; idx < len(sel); idx += len(wks) {
				mp := mappings[(idx+mapOff)%len(mappings)]
				if err := wk.runBeh(idx, sel[idx], mp, *seed); err != nil {
					errs[k] = err
					return
				}
			}
			for ci := k; ci < len(chunks); ci += len(wks) {
				if err := wk.runSweep(1_000_000+ci, chunks[ci].root, chunks[ci].rep, chunks[ci].jobs); err != nil {
					errs[k] = err
					return
				}
			}
			// the scanning server is deterministic: a second scan at the end answers like the first
			s, errStr := startServer(wk.vod, "", false)
			wk.w.Emit(tr.E{"ev": "hdr", "beh": -1 - k, "vod": wk.id, "root": "disabled", "map": map[string]string{"r1": "-", "r2": "-"}, "desc": "disabled:S- (rescan)"})
			wk.emitInstance(0, false, "disabled", s, errStr)
			if s != nil {
				s.Cancel()
			}
			errs[k] = wk.wipe()
		}(k, wk)
	}
	wg.Wait()
	for _, e := range errs {
		if e != nil {
			return e
		}
	}
	events, instances, cacheRead, requests, fullWindows, precondFailed, fullTimelines, farChecks, sweeps := 0, 0, 0, 0, 0, 0, 0, 0, 0
	var tStart, tObs time.Duration
	outcomes := map[string]int{}
	var traces []string
	for k, wk := range wks {
		if err := wk.w.Close(); err != nil {
			return err
		}
		events += wk.w.N
		instances += wk.instances
		cacheRead += wk.cacheRead
		requests += wk.requests
		fullWindows += wk.fullWindows
		precondFailed += wk.precondFailed
		fullTimelines += wk.fullTimelines
		farChecks += wk.farChecks
		sweeps += wk.sweeps
		tStart += wk.tStart
		tObs += wk.tObs
		for o, c := range wk.outcomes {
			outcomes[o] += c
		}
		traces = append(traces, fmt.Sprintf("%s.w%d.ndjson", *out, k))
	}
	distinct := map[string]bool{}
	var samples []any
	for idx, b := range sel {
		mp := mappings[(idx+mapOff)%len(mappings)]
		distinct[b.String()+"|"+mp[0]+"|"+mp[1]] = true
		if len(samples) < 6 && idx%(len(sel)/6+1) == 0 {
			samples = append(samples, map[string]any{"behaviour": b.String(), "r1": mp[0], "r2": mp[1]})
		}
	}
	var names []string
	for _, a := range assets {
		names = append(names, a.Name)
	}
	_ = os.RemoveAll(master)
	for _, wk := range wks {
		_ = os.RemoveAll(filepath.Dir(wk.vod))
	}
	tr.PrintStats(map[string]any{"scenarios": len(sel), "behaviours_available": len(all), "events": events, "distinct": len(distinct),
		"samples": samples, "instances": instances, "cache_read_instances": cacheRead, "requests": requests, "pool": wks[0].pool.n + 1,
		"outcomes": outcomes, "assets": names, "traces": traces, "probe_cache_is_read": probe, "full_contig_windows": fullWindows, "full_declared_timelines": fullTimelines, "far_exact_checks": farChecks, "type_damage_instances": sweeps, "type_damage_fields": len(sweepFields), "damage_on_unusable_file": precondFailed, "workers": len(wks),
		"cpu_start_s": tStart.Seconds(), "cpu_observe_s": tObs.Seconds()})
	return nil
}

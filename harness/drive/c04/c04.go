// Package c04 sweeps fixed segment URLs of the real livesim2 server over increasing wall-clock
// instants around both availability transitions and records status and body (C04).
package c04

import (
	"flag"
	"fmt"
	"math/rand"
	"os"
	"path/filepath"
	"regexp"
	"sort"
	"strconv"
	"strings"
	"sync"

	"verifharness/drive/tl"
	"verifharness/project"
	"verifharness/tr"
)

var earlyRe = regexp.MustCompile(`too early by (-?\d+)ms|(-?\d+)ms too early`)

func parseEarly(body []byte) int64 {
	m := earlyRe.FindSubmatch(body)
	if m == nil {
		return -1 << 62 // absent
	}
	s := string(m[1])
	if s == "" {
		s = string(m[2])
	}
	v, err := strconv.ParseInt(s, 10, 64)
	if err != nil {
		return -2
	}
	return v
}

// earlyPair logs the "too early by X ms" figure as a pair over loopMS (X may exceed 32 bits); [-1,0] = absent.
func earlyPair(x, loopMS int64) []int64 {
	if x == -1<<62 {
		return []int64{-1, 0} // no figure in the body
	}
	if x < 0 {
		return []int64{-2, 0} // a negative figure
	}
	p := project.Pair(x, loopMS)
	return p[:]
}

func Main(args []string) error {
	fs := flag.NewFlagSet("c04", flag.ExitOnError)
	out := fs.String("out", "c04.ndjson", "trace output")
	work := fs.String("work", "", "scratch directory for the VoD root")
	seed := fs.Int64("seed", 1, "seed")
	thorough := fs.Bool("thorough", false, "full configuration product")
	_ = fs.Parse(args)
	if *work == "" {
		return fmt.Errorf("-work required")
	}
	vod := filepath.Join(*work, "vod")
	_ = os.RemoveAll(vod)
	env, err := tl.Setup(vod, *thorough)
	if err != nil {
		return err
	}
	w, err := tr.New(*out)
	if err != nil {
		return err
	}
	rng := rand.New(rand.NewSource(*seed))
	sc, nreq := 0, 0
	distinct := map[string]bool{}
	samples := []any{}

	type cfgSel struct {
		mode    string
		snr     int
		ast     int64
		tsbd    int
		atoKind int // 0 none, 1 quarter segment, 2 segment minus 40 ms, 3 1.5 segments, 4 inf
		initS   int // init_<s>: the init segment is offered s seconds before the start (0 = option not given)
	}
	var cfgs []cfgSel
	modes := []string{"number", "time", "tlnr"}
	if *thorough {
		for _, mode := range modes {
			for _, snr := range []int{-1, 1, 5} {
				for _, ast := range []int64{0, 1000, 1_699_999_000} {
					for ti, tsbd := range []int{0, 1, -1, 172800} {
						for ak := 0; ak < 5; ak++ {
							if (ti+ak+snr)%2 == 0 || mode == "time" { // half of the product for the Number modes
								cfgs = append(cfgs, cfgSel{mode, snr, ast, tsbd, ak, 0})
							}
						}
					}
				}
			}
		}
	} else {
		// a covering subset + seeded extras
		for i, mode := range modes {
			cfgs = append(cfgs, cfgSel{mode, -1, 0, -1, 0, 0}, cfgSel{mode, 1, 1000, 0, 1 + i, 0}, cfgSel{mode, 5, 1_699_999_000, 1, (i + 2) % 5, 0},
				cfgSel{mode, -1, 1_699_999_000, 172800, 4 - i, 0})
		}
		for j := 0; j < 6; j++ {
			cfgs = append(cfgs, cfgSel{modes[rng.Intn(3)], []int{-1, 1, 5}[rng.Intn(3)], []int64{0, 1000, 1_699_999_000, 1_000_000_000 + int64(rng.Intn(700_000_000))}[rng.Intn(4)],
				[]int{0, 1, -1, 60, 172800, 7}[rng.Intn(6)], rng.Intn(5), 0})
		}
	}
	// option combinations: the implicit startNumber (snr_-1 = DASH default 1) in every mode, and init_<s> (which concerns the
	// init segment only) together with offsets up to infinite - media segments are still never served before the start
	for i, mode := range modes {
		cfgs = append(cfgs, cfgSel{mode, tl.SNRImplicit, []int64{0, 1000, 1_699_999_000}[i], []int{-1, 1, 10}[i], i, 0},
			cfgSel{mode, []int{-1, 1, tl.SNRImplicit}[i], 1_699_999_000, -1, []int{4, 3, 1}[i], 10})
	}
	if *thorough {
		for _, mode := range modes {
			for ak := 0; ak < 5; ak++ {
				cfgs = append(cfgs, cfgSel{mode, tl.SNRImplicit, 1_699_999_000, 1, ak, 0}, cfgSel{mode, 1, 1000, 0, ak, 3 + ak})
			}
		}
	}

	type job struct {
		a  *tl.Asset
		rt *project.RepTruth // the representation whose timeline decides availability (video for audio requests)
		cs cfgSel
		sd int64
		au *project.RepTruth // non-nil: the requests are for this audio representation
	}
	var jobs []job
	for _, a := range env.Assets {
		reps := []*project.RepTruth{a.Video}
		if a.Text != nil {
			reps = append(reps, a.Text)
		}
		if a.Thumbs != nil {
			th := a.Thumbs
			rt := &project.RepTruth{ID: th.ID, Kind: "image", TS: 1, N: th.N, L: int64(th.N) * th.DurS, MediaPat: th.Pat}
			for j := 0; j < th.N; j++ {
				rt.Dur = append(rt.Dur, th.DurS)
			}
			reps = append(reps, rt)
		}
		for _, rt := range reps {
			for _, cs := range cfgs {
				if rt.Kind == "image" && cs.mode != "number" {
					continue
				}
				jobs = append(jobs, job{a, rt, cs, rng.Int63(), nil})
			}
		}
		// audio follows the video (reference) segment's availability; a subset of the configurations
		if a.Audio != nil && a.Audio.SampleDur > 0 {
			for ci, cs := range cfgs {
				if ci%3 == int(a.Video.TS)%3 || *thorough {
					jobs = append(jobs, job{a, a.Video, cs, rng.Int63(), a.Audio})
				}
			}
		}
		if len(samples) < 3 {
			samples = append(samples, map[string]any{"asset": a.Name, "N": a.Video.N, "dur": a.Video.Dur, "TS": a.Video.TS, "vod0": a.Video.Vod0})
		}
	}
	var mu sync.Mutex
	tl.RunParallel(w, len(jobs), 12, func(idx int, emit func(tr.E)) {
		j := jobs[idx]
		a, rt, cs := j.a, j.rt, j.cs
		rng := rand.New(rand.NewSource(j.sd))
		segMS := rt.Dur[0] * 1000 / rt.TS
		if cs.atoKind == 4 && cs.mode != "number" {
			// an infinite offset cannot be combined with a SegmentTimeline: no MPD exists for that configuration (refused as a
			// bad request since 63cb812, MPD generation error before), so it is not a supported URL configuration
			cs.atoKind = 3
		}
		var ato int64
		switch cs.atoKind {
		case 1:
			ato = segMS / 4
		case 2:
			ato = segMS - 40
		case 3:
			ato = segMS + segMS/2
		case 4:
			ato = -1
		}
		if ato == 0 && cs.atoKind != 0 {
			ato = 1
		}
		c := tl.Cfg{Mode: cs.mode, SNR: cs.snr, AST: cs.ast, TSBD: cs.tsbd, AtoMS: ato}
		if cs.initS > 0 {
			c.Extra = append(c.Extra, fmt.Sprintf("init_%d", cs.initS))
		}
		var extra tr.E
		if j.au != nil {
			// the audio segment ends up to one frame after the video segment: in that slack either answer is accepted
			extra = tr.E{"kind": "audio", "rep": j.au.ID, "slack": j.au.SampleDur*1000/j.au.TS + 1}
		}
		emit(tl.HeaderE(idx, a, rt, c, extra))
		N := int64(rt.N)
		ns := []int64{0, int64(rng.Intn(int(N))), N - 1, N, 3*N + int64(rng.Intn(int(N)))}
		far := int64(1_750_000_000)*rt.TS/rt.L*N + int64(rng.Intn(int(N)))
		if cs.ast == 0 {
			ns = append(ns, far)
		} else {
			ns = append(ns, 1000*N+1)
		}
		seen := map[int64]bool{}
		for _, n := range ns {
			if seen[n] {
				continue
			}
			seen[n] = true
			av := tl.AvailRelMS(rt, n, ato)
			tsbdMS := c.EffTSBD() * 1000
			inst := map[int64]bool{-1: true, 0: true, 1: true}
			for _, base := range []int64{av, av + tsbdMS, av + tsbdMS + 10_000} {
				for d := int64(-2); d <= 2; d++ {
					inst[base+d] = true
				}
			}
			inst[av+tsbdMS+11_000] = true
			if cs.initS > 0 { // before the start, inside and outside the init_<s> lead
				for _, d := range []int64{-int64(cs.initS)*1000 - 500, -int64(cs.initS)*1000 + 1, -int64(cs.initS) * 500, -100} {
					inst[d] = true
				}
			}
			inst[av+tsbdMS+3_600_000] = true
			for j := 0; j < 4; j++ {
				inst[av-int64(rng.Intn(int(segMS)+1))] = true
				if tsbdMS > 0 {
					inst[av+rng.Int63n(tsbdMS)] = true
				}
				inst[av+tsbdMS+int64(rng.Intn(10_000))] = true
			}
			var list []int64
			for t := range inst {
				// negative absolute times cannot be expressed (nowMS must be >= 0)
				if cs.ast*1000+t >= 0 && t > -2_000_000_000 {
					list = append(list, t)
				}
			}
			sort.Slice(list, func(x, y int) bool { return list[x] < list[y] })
			url := tl.SegURL(c, a, rt, n)
			if j.au != nil {
				v := n + c.EffSNR()
				if c.Mode == "time" {
					v = tl.AudioStartTicks(rt, j.au, n)
				}
				pat := strings.ReplaceAll(strings.ReplaceAll(j.au.MediaPat, "$Number$", fmt.Sprint(v)), "$Time$", fmt.Sprint(v))
				url = c.Prefix(a.Name) + "/" + pat
			}
			k, i := n/N, n%N
			loopMS := rt.L * 1000 / rt.TS
			for _, t := range list {
				r := env.S.Get(url + "?nowMS=" + fmt.Sprint(cs.ast*1000+t))
				np := project.Pair(t, loopMS)
				emit(tr.E{"ev": "req", "k": k, "i": i, "now": np[:], "st": r.Status, "early": earlyPair(parseEarly(r.Body), loopMS), "url": url,
					"rel": fmt.Sprint(t)})
				mu.Lock()
				nreq++
				mu.Unlock()
			}
			mu.Lock()
			distinct[fmt.Sprintf("%s|%s|%v|%d", a.Name, rt.ID, cs, n)] = true
			mu.Unlock()
		}
		// C04.notfound: number below startNumber, unknown representation, unknown asset
		now := fmt.Sprint(cs.ast*1000 + 100_000)
		if cs.mode != "time" && c.EffSNR() > 0 && j.au == nil {
			u := tl.SegURL(c, a, rt, -1) + "?nowMS=" + now
			emit(tr.E{"ev": "nf", "what": "number below startNumber", "st": env.S.Get(u).Status, "url": u})
		}
		if cs.mode != "time" && c.EffSNR() > 0 && j.au != nil {
			// audio and generated subtitles reach the number lookup through their own paths: every number below startNumber
			for _, v := range []int64{c.EffSNR() - 1, 0} {
				pat := strings.ReplaceAll(j.au.MediaPat, "$Number$", fmt.Sprint(v))
				u := c.Prefix(a.Name) + "/" + pat + "?nowMS=" + now
				emit(tr.E{"ev": "nf", "what": "audio number below startNumber", "st": env.S.Get(u).Status, "url": u})
			}
			for _, g := range []string{"stpp", "wvtt"} {
				cg := c
				cg.Extra = append(append([]string{}, c.Extra...), "timesubs"+g+"_en")
				u := cg.Prefix(a.Name) + "/time" + g + "-en/" + fmt.Sprint(c.EffSNR()-1) + ".m4s?nowMS=" + now
				emit(tr.E{"ev": "nf", "what": "generated subtitle number below startNumber", "st": env.S.Get(u).Status, "url": u})
			}
		}
		u := c.Prefix(a.Name) + "/NOSUCHREP/1.m4s?nowMS=" + now
		emit(tr.E{"ev": "nf", "what": "unknown representation", "st": env.S.Get(u).Status, "url": u})
		u = c.Prefix("nosuchasset") + "/V300/1.m4s?nowMS=" + now
		emit(tr.E{"ev": "nf", "what": "unknown asset", "st": env.S.Get(u).Status, "url": u})
	})
	sc = len(jobs)
	if err := w.Close(); err != nil {
		return err
	}
	tr.PrintStats(map[string]any{"scenarios": sc, "events": w.N, "requests": nreq, "distinct": len(distinct), "samples": samples})
	return nil
}

// Package c14 drives the fault-injection parameters of the real livesim2 server (C14):
//
//	(A) statuscode_[{cycle:..,rsq:..,code:..,rep:..},..]: every media segment (video and the audio segment that
//	    follows it) of a window of >= 5 cycles is requested once, at an instant at which it is available;
//	(B) traffic_<p0>,<p1>,..: the MPD is fetched (BaseURL list) and media segments are requested through every
//	    BaseURL at every second of two cycles (slow / hanging seconds only sampled: they cost wall time).
//
// The driver only chooses inputs and records status codes and wall times; all expectations are computed by
// TLC (spec/trace/Faults_Trace.tla) from the scenario header (ground truth of the asset + the patterns that
// the driver itself put into the URL).
package c14

import (
	"flag"
	"fmt"
	"math/rand"
	"net/url"
	"os"
	"path/filepath"
	"runtime"
	"sort"
	"strings"
	"sync"
	"syscall"
	"time"

	"verifharness/drive/tl"
	"verifharness/project"
	"verifharness/tr"
)

// ---------------------------------------------------------------- statuscode patterns

type pat struct {
	C, Q, Code int
	Reps       []string
	star       bool // write an empty filter as rep:* (otherwise omit the rep key)
}

func (p pat) urlForm() string {
	s := fmt.Sprintf("{cycle:%d,rsq:%d,code:%d", p.C, p.Q, p.Code)
	switch {
	case len(p.Reps) > 0:
		s += ",rep:" + strings.Join(p.Reps, ",")
	case p.star:
		s += ",rep:*"
	}
	return s + "}"
}

func (p pat) hdr() map[string]any {
	reps := make([]string, 0, len(p.Reps))
	reps = append(reps, p.Reps...)
	return map[string]any{"c": p.C, "q": p.Q, "code": p.Code, "reps": reps}
}

func statusPart(ps []pat, escape bool) string {
	var fs []string
	for _, p := range ps {
		fs = append(fs, p.urlForm())
	}
	v := "[" + strings.Join(fs, ",") + "]"
	if escape {
		v = url.PathEscape(v)
	}
	return "statuscode_" + v
}

// ---------------------------------------------------------------- traffic patterns

type itvl struct {
	S string
	D int
}
type tpat []itvl

func (t tpat) String() string {
	var b strings.Builder
	for _, i := range t {
		fmt.Fprintf(&b, "%s%d", i.S, i.D)
	}
	return b.String()
}
func (t tpat) cycle() int {
	c := 0
	for _, i := range t {
		c += i.D
	}
	return c
}
func (t tpat) hdr() []map[string]any {
	out := make([]map[string]any, 0, len(t))
	for _, i := range t {
		out = append(out, map[string]any{"s": i.S, "d": i.D})
	}
	return out
}
func (t tpat) onlyUD() bool {
	for _, i := range t {
		if i.S != "u" && i.S != "d" {
			return false
		}
	}
	return true
}

// stateGuess is the driver's own reading of a pattern (cycle counted from the epoch). It is used ONLY to choose
// which seconds are sampled (slow / hanging seconds cost wall time); the verdict never depends on it.
func (t tpat) stateGuess(sec int64) (string, bool, bool) {
	r := int(sec % int64(t.cycle()))
	for _, i := range t {
		if r < i.D {
			return i.S, r == 0, r == i.D-1
		}
		r -= i.D
	}
	return "?", false, false
}

func allTraffic(maxLen int, states []string) []tpat {
	var it []itvl
	for _, s := range states {
		for _, d := range []int{1, 2, 10} {
			it = append(it, itvl{s, d})
		}
	}
	var out []tpat
	var rec func(cur tpat)
	rec = func(cur tpat) {
		if len(cur) > 0 {
			out = append(out, append(tpat{}, cur...))
		}
		if len(cur) == maxLen {
			return
		}
		for _, i := range it {
			rec(append(cur, i))
		}
	}
	rec(nil)
	return out
}

// ---------------------------------------------------------------- URLs derived from the served MPD

// expand fills a SegmentTemplate@media (identifiers without format tags).
func expand(media, repID string, v int64) string {
	r := strings.NewReplacer("$RepresentationID$", repID, "$Number$", fmt.Sprint(v), "$Time$", fmt.Sprint(v))
	return r.Replace(media)
}

// periodFor returns the index of the Period of m that contains media time segStartMS (ms after
// availabilityStartTime): the last Period whose @start is not later. -1: none.
func periodFor(m *project.XMPD, segStartMS int64) int {
	best := -1
	for i, p := range m.Periods {
		st := int64(0)
		if p.Start != "" {
			v, err := project.DurMS(p.Start)
			if err != nil {
				continue
			}
			st = v
		}
		if st <= segStartMS {
			best = i
		}
	}
	return best
}

// mediaFor returns SegmentTemplate@media of the AdaptationSet of period pi that holds representation repID.
func mediaFor(m *project.XMPD, pi int, repID string) (string, bool) {
	for _, as := range m.Periods[pi].AS {
		for _, r := range as.Representations {
			if r.ID == repID && as.SegmentTemplate != nil && as.SegmentTemplate.Media != "" {
				return as.SegmentTemplate.Media, true
			}
		}
	}
	return "", false
}

func periodBaseURLs(m *project.XMPD) ([][]string, []string) {
	out := make([][]string, 0, len(m.Periods))
	ids := make([]string, 0, len(m.Periods))
	for _, p := range m.Periods {
		b := make([]string, 0, len(p.BaseURLs))
		b = append(b, p.BaseURLs...)
		out = append(out, b)
		ids = append(ids, p.ID)
	}
	return out, ids
}

// ---------------------------------------------------------------- helpers

// audioTime is the decode time (audio timescale) of the audio segment that follows a video segment starting at
// startTicks/ts: the first audio frame boundary (frame = samples per frame) at or after the video start.
func audioTime(startTicks, ts, audioTS, frame int64) int64 {
	num := startTicks * audioTS
	t := num / ts / frame * frame
	if t*ts < num {
		t += frame
	}
	return t
}

// newestAvail returns the newest segment index that is available at relMS (ms after availabilityStartTime).
func newestAvail(rt *project.RepTruth, relMS int64) int64 {
	N := int64(rt.N)
	k := relMS * rt.TS / 1000 / rt.L
	n := (k + 1) * N
	for n > 0 && tl.AvailRelMS(rt, n, 0) > relMS {
		n--
	}
	return n
}

// getWD issues the request on its own goroutine and gives up after `timeout`: a request that the server never
// answers (endless loop in the handler) must not block the driver.  The abandoned goroutine keeps running until
// the driver exits, so callers stop the scenario after the first unanswered request (it is recorded with status 0
// and judged like any other answer).
func getWD(env *tl.Env, u string, timeout time.Duration) (int, bool) {
	ch := make(chan int, 1)
	go func() { ch <- env.S.Get(u).Status }()
	select {
	case st := <-ch:
		return st, true
	case <-time.After(timeout):
		return 0, false
	}
}

// memGuard stops the driver (exit 3 = machinery problem) if the heap explodes, e.g. when an abandoned handler
// allocates without bound; the machine is shared.
func memGuard(limit uint64) {
	go func() {
		var ms runtime.MemStats
		for {
			time.Sleep(250 * time.Millisecond)
			runtime.ReadMemStats(&ms)
			if ms.HeapAlloc > limit {
				fmt.Fprintf(os.Stderr, "driver error: heap %d MB exceeds the guard (abandoned request allocating?)\n", ms.HeapAlloc>>20)
				os.Exit(3)
			}
		}
	}()
}

type job struct {
	run func(idx int, emit func(tr.E))
}

func runJobs(jobs []job, workers int) [][]tr.E {
	bufs := make([][]tr.E, len(jobs))
	ch := make(chan int)
	var wg sync.WaitGroup
	for g := 0; g < workers; g++ {
		wg.Add(1)
		go func() {
			defer wg.Done()
			for idx := range ch {
				jobs[idx].run(idx, func(e tr.E) { bufs[idx] = append(bufs[idx], e) })
			}
		}()
	}
	for i := range jobs {
		ch <- i
	}
	close(ch)
	wg.Wait()
	return bufs
}

type counters struct {
	mu       sync.Mutex
	requests int
	byStatus map[int]int
	distinct map[string]bool
	sleepers int
	multiPeriodMPDs int
	mpdDerived      int
	mpdFallback     int
}

func (c *counters) add(st int, key string) {
	c.mu.Lock()
	c.requests++
	c.byStatus[st]++
	if key != "" {
		c.distinct[key] = true
	}
	c.mu.Unlock()
}

// ---------------------------------------------------------------- main

func Main(args []string) error {
	fs := flag.NewFlagSet("c14", flag.ExitOnError)
	out := fs.String("out", "c14.ndjson", "trace output (with -shards K > 1: <out>.0 .. <out>.K-1)")
	work := fs.String("work", "", "scratch directory for the VoD root")
	seed := fs.Int64("seed", 1, "seed")
	thorough := fs.Bool("thorough", false, "full configuration product")
	shards := fs.Int("shards", 1, "number of trace files")
	_ = fs.Parse(args)
	if *work == "" {
		return fmt.Errorf("-work required")
	}
	// chi's Recoverer prints a stack trace per panicking request to fd 2 (thousands with the known findings):
	// send fd 2 to a log file while the server runs, give it back before returning
	if lf, err := os.Create(filepath.Join(*work, "server_stderr.log")); err == nil {
		if saved, err := syscall.Dup(2); err == nil {
			if syscall.Dup3(int(lf.Fd()), 2, 0) == nil {
				defer func() { _ = syscall.Dup3(saved, 2, 0); _ = syscall.Close(saved); _ = lf.Close() }()
			}
		}
	}
	vod := filepath.Join(*work, "vod")
	_ = os.RemoveAll(vod)
	env, err := tl.Setup(vod, *thorough)
	if err != nil {
		return err
	}
	rng := rand.New(rand.NewSource(*seed))
	cnt := &counters{byStatus: map[int]int{}, distinct: map[string]bool{}}
	var samples []any
	var jobs, tjobs []job // statuscode jobs (CPU bound) / traffic jobs (mostly sleeping)
	sem := make(chan struct{}, 64) // bounds concurrently sleeping traffic requests

	// ------------------------------------------------------------ (B) traffic scenarios first: they sleep
	type tsc struct {
		a     *tl.Asset
		pats  []tpat
		ast   int64
		base  int64 // epoch second of the first request
		msOff int64
		full  bool           // request slow/hanging seconds too (edges), else only where the guess says u/d
		sh    map[string]int // budget of slow / hang requests for this scenario
		mode  string         // MPD type
		pph   int            // periods_<pph> (periods per hour), 0 = single period
		cont  bool           // continuous_1
	}
	var tscs []tsc
	var withAudio, all []*tl.Asset
	for _, a := range env.Assets {
		all = append(all, a)
		if a.Audio != nil {
			withAudio = append(withAudio, a)
		}
	}
	pickBase := func(ast int64) int64 {
		if ast == 0 && rng.Intn(2) == 0 {
			return 1_750_000_000 + rng.Int63n(1_000_000)
		}
		return ast + 40 + rng.Int63n(500)
	}
	asts := []int64{0, 1000, 1007}
	ud := allTraffic(3, []string{"u", "d"})
	var udSel []tpat
	if *thorough {
		udSel = ud
	} else {
		for _, t := range ud {
			if len(t) <= 2 {
				udSel = append(udSel, t)
			}
		}
		var l3 []tpat
		for _, t := range ud {
			if len(t) == 3 {
				l3 = append(l3, t)
			}
		}
		rng.Shuffle(len(l3), func(i, j int) { l3[i], l3[j] = l3[j], l3[i] })
		udSel = append(udSel, l3[:21]...)
	}
	rng.Shuffle(len(udSel), func(i, j int) { udSel[i], udSel[j] = udSel[j], udSel[i] })
	for i := 0; i < len(udSel); {
		n := 1 + rng.Intn(3) // 1..3 BaseURLs per MPD
		if i+n > len(udSel) {
			n = len(udSel) - i
		}
		ast := asts[rng.Intn(len(asts))]
		tscs = append(tscs, tsc{a: all[rng.Intn(len(all))], pats: udSel[i : i+n], ast: ast, base: pickBase(ast),
			msOff: []int64{0, 1, 500, 999}[rng.Intn(4)], full: true, sh: map[string]int{}})
		i += n
	}
	// patterns with slow / hanging intervals
	full4 := allTraffic(3, []string{"u", "d", "s", "h"})
	var shPats []tpat
	for _, t := range full4 {
		if !t.onlyUD() {
			shPats = append(shPats, t)
		}
	}
	rng.Shuffle(len(shPats), func(i, j int) { shPats[i], shPats[j] = shPats[j], shPats[i] })
	if *thorough {
		// every pattern: all seconds that the guess says are u/d; slow / hang sampled on interval edges with a
		// global budget (each costs 2 s / 10 s of wall time, run concurrently)
		slowBudget, hangBudget := 600, 150
		for i := 0; i < len(shPats); {
			n := 1 + rng.Intn(3)
			if i+n > len(shPats) {
				n = len(shPats) - i
			}
			ast := asts[rng.Intn(len(asts))]
			sc := tsc{a: all[rng.Intn(len(all))], pats: shPats[i : i+n], ast: ast, base: pickBase(ast), msOff: []int64{0, 1, 500, 999}[rng.Intn(4)],
				sh: map[string]int{}}
			if slowBudget > 0 {
				sc.sh["s"] = 1 + rng.Intn(2)
				slowBudget -= sc.sh["s"]
			}
			if hangBudget > 0 && rng.Intn(3) == 0 {
				sc.sh["h"] = 1
				hangBudget--
			}
			tscs = append(tscs, sc)
			i += n
		}
	} else {
		// quick: 4 slow + 1 hang request in total
		fixed := [][]tpat{
			{{{"u", 2}, {"h", 1}, {"d", 1}}, {{"s", 2}, {"u", 1}}},
			{{{"d", 1}, {"s", 1}}, {{"u", 10}, {"s", 2}, {"d", 2}}},
		}
		for j, ps := range fixed {
			ast := asts[(j+int(*seed))%len(asts)]
			sc := tsc{a: all[rng.Intn(len(all))], pats: ps, ast: ast, base: pickBase(ast), msOff: []int64{0, 999}[j%2], sh: map[string]int{"s": 2}}
			if j == 0 {
				sc.sh["h"] = 1
			}
			tscs = append(tscs, sc)
		}
		// a few more s/h patterns with their u/d seconds only
		for j := 0; j < 12; j++ {
			ast := asts[rng.Intn(len(asts))]
			tscs = append(tscs, tsc{a: all[rng.Intn(len(all))], pats: shPats[j : j+1], ast: ast, base: pickBase(ast), sh: map[string]int{}})
		}
	}
	// MPD type and multi-period configuration of every traffic scenario.  periods_<N> needs segments of one
	// duration that divides the period duration 3600/N s; the request instants lie deep in an hour.
	periodsOK := func(a *tl.Asset, pph int) bool {
		v := a.Video
		for _, d := range v.Dur {
			if d != v.Dur[0] {
				return false
			}
		}
		if v.Dur[0]*1000%v.TS != 0 {
			return false
		}
		return (3600_000/int64(pph))%(v.Dur[0]*1000/v.TS) == 0 && 3600%pph == 0
	}
	pphs := []int{60, 120, 30, 20, 18}
	for j := range tscs {
		sc := &tscs[j]
		sc.mode = []string{"number", "time", "tlnr"}[(j+int(*seed))%3]
		if (j+int(*seed))%2 == 0 {
			continue
		}
		pph := pphs[(j/2+int(*seed))%len(pphs)]
		if !periodsOK(sc.a, pph) {
			var cand []*tl.Asset
			for _, a := range all {
				if periodsOK(a, pph) {
					cand = append(cand, a)
				}
			}
			if len(cand) == 0 {
				continue
			}
			sc.a = cand[rng.Intn(len(cand))]
		}
		sc.pph, sc.cont = pph, (j/2)%2 == 1
		if sc.base < 1_000_000_000 { // deep in the hour, one to three hours after the start of the stream
			sc.base = sc.ast + 3600*int64(1+rng.Intn(3)) + rng.Int63n(3600)
		}
	}
	// the sleeping scenarios go first so that their wall time overlaps with everything else
	sort.SliceStable(tscs, func(i, j int) bool { return len(tscs[i].sh) > 0 && tscs[i].sh["h"] > tscs[j].sh["h"] })

	for _, sc := range tscs {
		sc := sc
		run := func(idx int, emit func(tr.E)) {
			a, rt := sc.a, sc.a.Video
			var names []string
			var hp [][]map[string]any
			for _, p := range sc.pats {
				names = append(names, p.String())
				hp = append(hp, p.hdr())
			}
			var extra []string
			if sc.pph > 0 {
				extra = append(extra, fmt.Sprintf("periods_%d", sc.pph))
				if sc.cont {
					extra = append(extra, "continuous_1")
				}
			}
			extra = append(extra, "traffic_"+strings.Join(names, ","))
			c := tl.Cfg{Mode: sc.mode, SNR: -1, AST: sc.ast, TSBD: -1, Extra: extra}
			emit(tl.HeaderE(idx, a, rt, c, tr.E{"part": "traffic", "pats": []any{}, "traffic": hp, "multirep": false, "pph": sc.pph}))
			type rq struct {
				b        int
				sec, rel int64
				n        int64
				url      string
				period   string
				st       int
				ms       int64
				sleeper  bool // the driver's guess says slow / hanging: run concurrently
			}
			// the trace of the scenario in order: MPD observations (ready events) and requests (filled in later)
			type item struct {
				e tr.E
				q *rq
			}
			var items []item
			var rqs []*rq
			budget := map[string]int{"s": sc.sh["s"], "h": sc.sh["h"]}
			maxCyc := int64(0)
			for _, p := range sc.pats {
				if c := int64(p.cycle()); c > maxCyc {
					maxCyc = c
				}
			}
			N := int64(rt.N)
			for sec := sc.base; sec < sc.base+2*maxCyc+1; sec++ {
				// which BaseURLs get a request at this second
				type want struct {
					b       int
					sleeper bool
				}
				var wants []want
				for b, p := range sc.pats {
					cyc := int64(p.cycle())
					if sec >= sc.base+2*cyc+1 {
						continue
					}
					g, first, last := p.stateGuess(sec)
					if g == "s" || g == "h" {
						if budget[g] == 0 || !(first || last) {
							continue
						}
						budget[g]--
						cnt.mu.Lock()
						cnt.sleepers++
						cnt.mu.Unlock()
					}
					wants = append(wants, want{b, g == "s" || g == "h"})
					cnt.mu.Lock()
					cnt.distinct[fmt.Sprintf("T|%s|%d", p.String(), sec%cyc)] = true
					cnt.mu.Unlock()
				}
				if len(wants) == 0 {
					continue
				}
				// what a client does: fetch the MPD at this instant and build the segment URL from the Period that
				// contains the segment: Period BaseURL number b + SegmentTemplate@media + Representation@id.
				// Only the value of $Number$ / $Time$ of the newest available segment comes from the ground truth.
				nowMS := sec*1000 + sc.msOff
				mu := c.Prefix(a.Name) + "/" + a.MPD + fmt.Sprintf("?nowMS=%d", nowMS)
				r := env.S.Get(mu)
				cnt.add(r.Status, "")
				var m *project.XMPD
				if r.Status == 200 {
					m, _ = project.ParseMPD(r.Body)
				}
				if m == nil {
					m = &project.XMPD{}
				}
				pbs, pids := periodBaseURLs(m)
				items = append(items, item{e: tr.E{"ev": "mpd", "st": r.Status, "periods": pbs, "pids": pids, "url": mu}})
				cnt.mu.Lock()
				cnt.distinct[fmt.Sprintf("M|%s|%d", c.Prefix(a.Name), len(m.Periods))] = true
				if len(m.Periods) > 1 {
					cnt.multiPeriodMPDs++
				}
				cnt.mu.Unlock()
				relMS := (sec-sc.ast)*1000 + sc.msOff
				n := newestAvail(rt, relMS)
				// alternate between the newest segment and one that is half a time-shift buffer old (an earlier Period
				// of a multi-period MPD)
				if sec%2 == 1 {
					back := 25_000 * rt.TS / 1000 / rt.Dur[0]
					if n-back > 0 {
						n -= back
					}
				}
				segStartMS := tl.StartTicks(rt, n) * 1000 / rt.TS
				v := n + c.EffSNR()
				if sc.mode == "time" {
					v = tl.StartTicks(rt, n)
				}
				pi := periodFor(m, segStartMS)
				for _, w := range wants {
					why := ""
					var media string
					switch {
					case pi < 0:
						why = "no Period of the MPD contains the segment"
					case w.b >= len(m.Periods[pi].BaseURLs):
						why = "the Period has no BaseURL for this pattern"
					default:
						var ok bool
						if media, ok = mediaFor(m, pi, rt.ID); !ok {
							why = "no SegmentTemplate@media for the representation in the Period"
						}
					}
					if why != "" {
						pid := ""
						if pi >= 0 {
							pid = m.Periods[pi].ID
						}
						items = append(items, item{e: tr.E{"ev": "tnoreq", "b": w.b, "period": pid, "why": why, "sec": sec, "url": mu}})
						continue
					}
					q := &rq{b: w.b, sec: sec, rel: sec - sc.ast, n: n, sleeper: w.sleeper, period: m.Periods[pi].ID,
						url: c.Prefix(a.Name) + "/" + m.Periods[pi].BaseURLs[w.b] + expand(media, rt.ID, v) + fmt.Sprintf("?nowMS=%d", nowMS)}
					rqs = append(rqs, q)
					items = append(items, item{q: q})
				}
			}
			// The wall time of a request is the only observable of "slow"; the machine is shared, so a fast answer can
			// occasionally take long: every answer that took >= 0.5 s is measured again (up to 4 attempts) and the
			// minimum is recorded.  A real delay (time.Sleep in the server) shows in every attempt.  A hanging answer
			// (503 after >= 9 s) is not repeated.
			do := func(q *rq) {
				for attempt := 0; attempt < 4; attempt++ {
					t0 := time.Now()
					st, answered := getWD(env, q.url, 45*time.Second) // hanging = 10 s; no answer at all is recorded as status 0
					ms := time.Since(t0).Milliseconds()
					if attempt == 0 || ms < q.ms {
						q.st, q.ms = st, ms
					}
					if ms < 500 || (st == 503 && ms >= 9000) || !answered {
						break
					}
				}
			}
			var wg sync.WaitGroup
			for _, q := range rqs {
				if !q.sleeper {
					continue
				}
				q := q
				wg.Add(1)
				sem <- struct{}{}
				go func() {
					defer func() { <-sem; wg.Done() }()
					do(q)
				}()
			}
			for _, q := range rqs {
				if !q.sleeper {
					do(q)
				}
			}
			wg.Wait()
			loopMS := rt.L * 1000 / rt.TS
			for _, it := range items {
				if it.q == nil {
					emit(it.e)
					continue
				}
				q := it.q
				np := project.Pair((q.sec-sc.ast)*1000+sc.msOff, loopMS)
				emit(tr.E{"ev": "treq", "b": q.b, "k": q.n / N, "i": q.n % N, "now": np[:], "sec": q.sec, "rel": q.rel, "st": q.st, "ms": q.ms,
					"period": q.period, "url": q.url})
				cnt.add(q.st, "")
			}
		}
		if sc.sh["s"]+sc.sh["h"] > 0 {
			tjobs = append(tjobs, job{run})
		} else {
			jobs = append(jobs, job{run})
		}
	}
	if len(samples) < 2 && len(tscs) > 0 {
		samples = append(samples, map[string]any{"traffic": tscs[0].pats[0].String(), "asset": tscs[0].a.Name, "ast": tscs[0].ast, "base_sec": tscs[0].base})
	}

	// ------------------------------------------------------------ (A) statuscode scenarios
	cycles := []int{10, 30, 7, 45}
	if *thorough {
		cycles = append(cycles, 3)
	}
	codes := []int{404, 503, 410}
	filters := [][]string{nil, {"V300"}, {"A48"}}
	type cq struct{ c, q int }
	var cqs []cq
	for _, c := range cycles {
		for q := 0; q <= 4; q++ {
			cqs = append(cqs, cq{c, q})
		}
	}
	rng.Shuffle(len(cqs), func(i, j int) { cqs[i], cqs[j] = cqs[j], cqs[i] })
	// pattern set j: primary (c,q) j with code / filter cycling; odd j add a second simultaneous pattern
	mkSet := func(j int, short bool) []pat {
		x := cqs[j%len(cqs)]
		if short { // only the short cycles (keeps the windows of the known-defect classes small in quick)
			for t := 0; x.c > 10; t++ {
				x = cqs[(j+t)%len(cqs)]
			}
		}
		ps := []pat{{C: x.c, Q: x.q, Code: codes[j%3], Reps: filters[(j/3)%3], star: j%2 == 0}}
		if j%2 == 1 {
			y := cqs[(j+7)%len(cqs)]
			if short && y.c > 10 {
				y.c = 7
			}
			ps = append(ps, pat{C: y.c, Q: y.q, Code: codes[(j+1)%3], Reps: filters[(j/2)%3], star: true})
		}
		return ps
	}
	type ssc struct {
		a        *tl.Asset
		mode     string
		ast      int64
		snr      int
		pats     []pat
		far      bool
		esc      bool
		maxSeg   int64
		multirep bool
		pph      int // periods_<pph> in the URL: segment URLs are then built from the multi-period MPD
		cont     bool
	}
	var sscs []ssc
	modes := []string{"number", "time", "tlnr"}
	maxSeg := int64(260)
	if *thorough {
		maxSeg = 560
	}
	j := int(*seed) * 7
	for ai, a := range all {
		for mi, mode := range modes {
			if *thorough {
				for _, as := range []struct {
					ast int64
					snr int
				}{{0, -1}, {1000, -1}, {0, 5}, {1000, 5}} {
					for s := 0; s < len(cqs); s++ {
						sscs = append(sscs, ssc{a: a, mode: mode, ast: as.ast, snr: as.snr, pats: mkSet(j, false), far: j%3 == 0, esc: j%2 == 0, maxSeg: maxSeg})
						j++
					}
				}
			} else {
				for s := 0; s < 6; s++ {
					sscs = append(sscs, ssc{a: a, mode: mode, ast: 0, snr: -1, pats: mkSet(j, false), far: j%3 == 0, esc: j%2 == 0, maxSeg: maxSeg})
					j++
				}
				sscs = append(sscs,
					ssc{a: a, mode: mode, ast: 1000, snr: -1, pats: mkSet(j, true), far: (ai+mi)%2 == 0, esc: true, maxSeg: 40},
					ssc{a: a, mode: mode, ast: 0, snr: 5, pats: mkSet(j+1, true), far: (ai+mi)%2 == 1, maxSeg: 40},
					ssc{a: a, mode: mode, ast: 1000, snr: 5, pats: mkSet(j+2, true), far: false, maxSeg: 40})
				j += 3
			}
		}
	}
	// rep filter naming several representations
	for ai, a := range withAudio {
		for mi, mode := range modes {
			if !*thorough && (ai+mi)%3 != 0 {
				continue
			}
			x := cqs[(ai+mi)%len(cqs)]
			sscs = append(sscs, ssc{a: a, mode: mode, ast: 0, snr: -1, pats: []pat{{C: x.c, Q: x.q % 3, Code: 404, Reps: []string{"V300", "A48"}}},
				esc: ai%2 == 0, maxSeg: 30, multirep: true})
		}
	}

	const answerTimeout = 10 * time.Second // a normal answer takes about a millisecond
	var hungMu sync.Mutex
	hung := map[string]int{} // configuration class -> scenarios stopped by an unanswered request
	classOf := func(sc ssc) string { return fmt.Sprintf("ast=%d,far=%v", sc.ast, sc.far) }
	statusJob := func(sc ssc) job {
		return job{func(idx int, emit func(tr.E)) {
			a, rt := sc.a, sc.a.Video
			// the rep filters are written with the ids of the generated / testpic assets; use this asset's own ids
			pats := make([]pat, len(sc.pats))
			for j, p := range sc.pats {
				pats[j] = p
				pats[j].Reps = nil
				for _, r := range p.Reps {
					switch {
					case r == "V300":
						r = rt.ID
					case r == "A48" && a.Audio != nil:
						r = a.Audio.ID
					}
					pats[j].Reps = append(pats[j].Reps, r)
				}
			}
			sc.pats = pats
			var extra []string
			if sc.pph > 0 {
				extra = append(extra, fmt.Sprintf("periods_%d", sc.pph))
				if sc.cont {
					extra = append(extra, "continuous_1")
				}
			}
			c := tl.Cfg{Mode: sc.mode, SNR: sc.snr, AST: sc.ast, TSBD: -1, Extra: append(extra, statusPart(sc.pats, sc.esc))}
			var hp []map[string]any
			cmax, cmin := 0, 1<<30
			for _, p := range sc.pats {
				hp = append(hp, p.hdr())
				if p.C > cmax {
					cmax = p.C
				}
				if p.C < cmin {
					cmin = p.C
				}
			}
			emit(tl.HeaderE(idx, a, rt, c, tr.E{"part": "status", "pats": hp, "traffic": []any{}, "multirep": sc.multirep, "pph": sc.pph}))
			N := int64(rt.N)
			n0 := int64(0)
			if sc.far {
				n0 = (1_750_000_000-sc.ast)*rt.TS/rt.L*N + int64(idx%97)
			}
			span := (int64(5*cmax) + int64(cmin)) * rt.TS // >= 5 cycles of the longest pattern
			loopMS := rt.L * 1000 / rt.TS
			end0 := tl.EndTicks(rt, 0)
			// one request; false = no answer within answerTimeout (recorded as status 0, scenario stopped)
			request := func(rep string, n int64, v int64, u string, rel int64, b4 bool) bool {
				if sc.pph > 0 {
					// multi-period MPD: build the URL as a client does, from the Period that contains the segment
					// (BaseURL if any + SegmentTemplate@media + Representation@id); v = value of $Number$ / $Time$.
					// An MPD without a usable Period / template is not C14's business: the hand-built URL is used.
					derived := false
					r := env.S.Get(c.Prefix(a.Name) + "/" + a.MPD + fmt.Sprintf("?nowMS=%d", sc.ast*1000+rel))
					if r.Status == 200 {
						if m, err := project.ParseMPD(r.Body); err == nil {
							if pi := periodFor(m, tl.StartTicks(rt, n)*1000/rt.TS); pi >= 0 {
								if media, ok := mediaFor(m, pi, rep); ok {
									bu := ""
									if len(m.Periods[pi].BaseURLs) > 0 {
										bu = m.Periods[pi].BaseURLs[0]
									}
									u = c.Prefix(a.Name) + "/" + bu + expand(media, rep, v)
									derived = true
								}
							}
						}
					}
					cnt.mu.Lock()
					if derived {
						cnt.mpdDerived++
					} else {
						cnt.mpdFallback++
					}
					cnt.mu.Unlock()
				}
				st, ok := getWD(env, u+fmt.Sprintf("?nowMS=%d", sc.ast*1000+rel), answerTimeout)
				np := project.Pair(rel, loopMS)
				emit(tr.E{"ev": "sreq", "rep": rep, "k": n / N, "i": n % N, "now": np[:], "st": st, "url": u, "b4end0": b4, "rel": fmt.Sprint(rel), "answered": ok})
				cnt.add(st, fmt.Sprintf("S|%s|%s|%s|%d", a.Name, c.Prefix(""), rep, n))
				if !ok {
					hungMu.Lock()
					hung[classOf(sc)]++
					hungMu.Unlock()
				}
				return ok
			}
			for n := n0; n < n0+sc.maxSeg; n++ {
				st := tl.StartTicks(rt, n)
				if st-tl.StartTicks(rt, n0) > span {
					break
				}
				// classification aid for known findings only: a cycle boundary (cycle >= 1) before the end of segment 0
				b4 := false
				for _, p := range sc.pats {
					m := int64(p.C) * rt.TS
					if cyc := st / m; cyc >= 1 && cyc*m < end0 {
						b4 = true
					}
				}
				rel := tl.AvailRelMS(rt, n, 0) + 1
				vv := n + c.EffSNR()
				if sc.mode == "time" {
					vv = st
				}
				if !request(rt.ID, n, vv, tl.SegURL(c, a, rt, n), rel, b4) {
					return
				}
				// audio $Time$ requests under start_<t> are refused (410) whatever the fault parameters say: that is the
				// C04 finding "findRefSegMetaFromTime lacks the start offset", not a matter of C14 - not requested here
				// ($Time$ audio also needs the constant audio frame duration of the asset: 1024 AAC, 1536 AC-3, ...)
				if a.Audio != nil && !(sc.mode == "time" && (sc.ast != 0 || a.Audio.SampleDur <= 0)) {
					au := a.Audio
					var v int64
					if sc.mode == "time" {
						v = audioTime(st, rt.TS, au.TS, au.SampleDur)
					} else {
						v = n + c.EffSNR()
					}
					pth := strings.ReplaceAll(strings.ReplaceAll(au.MediaPat, "$Number$", fmt.Sprint(v)), "$Time$", fmt.Sprint(v))
					// +40 ms: the audio segment may end up to one AAC frame after the video segment
					if !request(au.ID, n, v, c.Prefix(a.Name)+"/"+pth, rel+40, b4) {
						return
					}
				}
			}
		}}
	}
	// every 4th statuscode scenario on an asset that allows it is combined with periods_<N>
	for j := range sscs {
		sc := &sscs[j]
		pph := pphs[(j/4+int(*seed))%len(pphs)]
		if j%4 == 1 && periodsOK(sc.a, pph) {
			sc.pph, sc.cont = pph, (j/4)%2 == 0
		}
	}
	for _, sc := range sscs {
		jobs = append(jobs, statusJob(sc))
	}
	if len(sscs) > 0 {
		samples = append(samples, map[string]any{"statuscode": statusPart(sscs[0].pats, false), "asset": sscs[0].a.Name, "mode": sscs[0].mode},
			map[string]any{"statuscode": statusPart(sscs[len(sscs)/2].pats, false), "asset": sscs[len(sscs)/2].a.Name, "mode": sscs[len(sscs)/2].mode,
				"ast": sscs[len(sscs)/2].ast, "snr": sscs[len(sscs)/2].snr})
	}

	memGuard(6 << 30)
	t0 := time.Now()
	var tbufs [][]tr.E
	tdone := make(chan struct{})
	go func() { tbufs = runJobs(tjobs, 16); close(tdone) }()
	bufs := runJobs(jobs, 8)
	<-tdone
	bufs = append(tbufs, bufs...)
	runS := time.Since(t0).Seconds()
	// scenario numbers = position in the trace
	nsc := 0
	for _, b := range bufs {
		for _, e := range b {
			if e["ev"] == "hdr" {
				e["sc"] = nsc
				nsc++
			}
		}
	}

	// write the trace file(s): contiguous blocks of scenarios per shard
	K := *shards
	if K < 1 {
		K = 1
	}
	total := 0
	for _, b := range bufs {
		total += len(b)
	}
	var files []string
	events := 0
	bi := 0
	for s := 0; s < K; s++ {
		name := *out
		if K > 1 {
			name = fmt.Sprintf("%s.%d", *out, s)
		}
		w, err := tr.New(name)
		if err != nil {
			return err
		}
		target := total * (s + 1) / K
		for bi < len(bufs) && (events < target || s == K-1) {
			for _, e := range bufs[bi] {
				w.Emit(e)
			}
			events += len(bufs[bi])
			bi++
		}
		if err := w.Close(); err != nil {
			return err
		}
		if w.N > 0 {
			files = append(files, name)
		} else {
			_ = os.Remove(name)
		}
	}
	bs := map[string]int{}
	for k, v := range cnt.byStatus {
		bs[fmt.Sprint(k)] = v
	}
	tr.PrintStats(map[string]any{"scenarios": nsc, "unanswered": hung, "status_scenarios": len(sscs), "traffic_scenarios": len(tscs), "events": events,
		"requests": cnt.requests, "distinct": len(cnt.distinct), "samples": samples, "by_status": bs, "sleeping_requests": cnt.sleepers, "multi_period_mpds": cnt.multiPeriodMPDs,
		"status_urls_from_mpd": cnt.mpdDerived, "status_urls_fallback": cnt.mpdFallback,
		"files": files, "run_s": runS})
	return nil
}

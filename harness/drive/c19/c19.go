// Package c19 drives the real CMAF-ingest receiver (cmd/cmaf-ingest-receiver/app) with concurrent
// uploads and records what an outside observer can see: channel objects created (hook), the answer
// to every upload together with an independent look at the storage directory, what the channel
// goroutine processed (hook), and the final files / MPD of every channel, next to the outcome of the
// same uploads made sequentially (in two orders) on a fresh receiver.
//
//	(R) replay: TLC behaviours of spec/ReceiverConcGen (lists of (handler, label) steps) are forced in the
//	    real handler with the verif gates: get1/m1 start a request, add/s1/s3/reg/ms1/m2 release a gate.
//	    Steps on the channel table are synchronised (the driver waits until the handler stands at its next
//	    gate); releases of the stream-table / track-table gates are not followed by a wait so that the
//	    race detector sees the two accesses without a happens-before edge made by the harness.
//	(V) conc:   2..8 tracks x 1..4 channels uploaded with real goroutines (all inits at once or, as the
//	    livesim2 sender does, the inits of a channel one after the other and the channels in parallel;
//	    then the media segments of each number in parallel with a barrier per number).
//
// The binary is meant to be built with -race and run as a child; the parent turns detector reports
// on stderr into `race` events.
package c19

import (
	"bufio"
	"bytes"
	"context"
	"crypto/sha256"
	"encoding/binary"
	"encoding/hex"
	"encoding/json"
	"flag"
	"fmt"
	"io"
	"log/slog"
	"math/rand"
	"net/http"
	"net/http/httptest"
	"os"
	"path/filepath"
	"sort"
	"strings"
	"sync"
	"sync/atomic"
	"time"

	"github.com/Eyevinn/dash-mpd/mpd"
	"github.com/go-chi/chi/v5/middleware"

	app "github.com/Dash-Industry-Forum/livesim2/cmd/cmaf-ingest-receiver/app"

	"verifharness/tr"
)

// ---------------------------------------------------------------------------------------------- trace writer

// writer buffers the events of one scenario and writes + flushes them at the scenario's end, so that
// a child killed by "fatal error: concurrent map writes" leaves a trace of whole scenarios.
type writer struct {
	mu  sync.Mutex
	f   *os.File
	b   *bufio.Writer
	cur [][]byte
	N   int
}

func newWriter(path string) (*writer, error) {
	f, err := os.Create(path)
	if err != nil {
		return nil, err
	}
	return &writer{f: f, b: bufio.NewWriterSize(f, 1<<20)}, nil
}

func (w *writer) Emit(e tr.E) {
	data, err := json.Marshal(e)
	if err != nil {
		panic(fmt.Sprintf("trace marshal: %v", err))
	}
	w.mu.Lock()
	w.cur = append(w.cur, data)
	w.mu.Unlock()
}

func (w *writer) Commit() {
	w.mu.Lock()
	defer w.mu.Unlock()
	for _, d := range w.cur {
		w.b.Write(d)
		w.b.WriteByte('\n')
		w.N++
	}
	w.cur = w.cur[:0]
	w.b.Flush()
}

func (w *writer) Close() error {
	w.Commit()
	return w.f.Close()
}

// ---------------------------------------------------------------------------------------------- inputs

type asset struct {
	mt   string // video | audio | text
	ext  string
	init []byte
	segs [][]byte // media segments 1..3 of the VoD asset
}

// box walk on raw bytes (independent of the receiver's parser)
func findBox(data []byte, path ...string) (start, size int, ok bool) {
	lo, hi := 0, len(data)
	for depth, name := range path {
		found := false
		for p := lo; p+8 <= hi; {
			sz := int(binary.BigEndian.Uint32(data[p : p+4]))
			typ := string(data[p+4 : p+8])
			if sz < 8 || p+sz > hi {
				return 0, 0, false
			}
			if typ == name {
				if depth == len(path)-1 {
					return p, sz, true
				}
				lo, hi = p+8, p+sz
				found = true
				break
			}
			p += sz
		}
		if !found {
			return 0, 0, false
		}
	}
	return 0, 0, false
}

// prepSeg: the driver constructs its input: sequence number = index (so that number and time agree and
// the receiver stores the bytes unchanged), and the first payload bytes carry a per-track tag so that
// every upload is distinguishable.
func prepSeg(raw []byte, seq uint32, tag string) []byte {
	out := append([]byte(nil), raw...)
	p, _, ok := findBox(out, "moof", "mfhd")
	if !ok {
		panic("no mfhd in media segment")
	}
	binary.BigEndian.PutUint32(out[p+12:p+16], seq)
	m, sz, ok := findBox(out, "mdat")
	if !ok {
		panic("no mdat in media segment")
	}
	h := sha256.Sum256([]byte(tag))
	for i := 0; i < 8 && i < sz-8; i++ {
		out[m+8+i] ^= h[i]
	}
	return out
}

// prepInit sets the mdhd language (3 letters) when lang != "".
func prepInit(raw []byte, lang string) []byte {
	out := append([]byte(nil), raw...)
	if lang == "" {
		return out
	}
	p, _, ok := findBox(out, "moov", "trak", "mdia", "mdhd")
	if !ok {
		panic("no mdhd in init segment")
	}
	version := out[p+8]
	off := p + 12 + 16 // v0: ctime, mtime, timescale, duration
	if version == 1 {
		off = p + 12 + 28
	}
	v := uint16(lang[0]-0x60)<<10 | uint16(lang[1]-0x60)<<5 | uint16(lang[2]-0x60)
	binary.BigEndian.PutUint16(out[off:off+2], v)
	return out
}

func loadAssets(repo string) (map[string]*asset, error) {
	base := filepath.Join(repo, "cmd/livesim2/app/testdata/assets/testpic_2s")
	res := map[string]*asset{}
	for _, a := range []struct{ dir, mt, ext string }{{"V300", "video", ".cmfv"}, {"A48", "audio", ".cmfa"}, {"imsc1_txt_sv", "text", ".cmft"}} {
		as := &asset{mt: a.mt, ext: a.ext}
		var err error
		if as.init, err = os.ReadFile(filepath.Join(base, a.dir, "init.mp4")); err != nil {
			return nil, err
		}
		for k := 1; k <= 3; k++ {
			d, err := os.ReadFile(filepath.Join(base, a.dir, fmt.Sprintf("%d.m4s", k)))
			if err != nil {
				return nil, err
			}
			as.segs = append(as.segs, d)
		}
		res[a.mt] = as
	}
	return res, nil
}

type track struct {
	Ch, Tr, Mt, Ext, Lang string
	init                  []byte
	segs                  [][]byte
	preload               bool // the init segment is put on disk as init_org.* before the run (media-first upload)
	inexact               bool // the receiver may renumber / re-time the segment: it is looked up by its mdat payload
	cred                  string // "" = the right credentials; "wrong" / "none": an upload that must be refused (401) when
	// the channel is configured with credentials
}

type scenario struct {
	kind      string // replay | conflict | conc | start | startconc | rounds | burst | live | overlap
	chans     []string
	tracks    []*track
	auth      string // none | default | channel
	repcfg    bool
	sender    bool // inits of a channel one after the other (as the livesim2 sender does)
	streamURL bool
	clHeader  bool
	steps     [][2]string
	pred      *genLine
	startNr   int            // configured startNr of every channel (the uploads then carry number k + startNr)
	cfg       *app.Config
	padcfg    int            // number of other channels in the configuration file, listed before the scenario's channels
	langcfg   bool           // per-representation language / role / label overrides for audio and text tracks
	variant   string         // start / rounds: data set and shift class
	newest    map[string]int // rounds: number the timeline MPD of a channel must end at (by construction), else absent
}

func (s *scenario) shape() string {
	var b strings.Builder
	fmt.Fprintf(&b, "%s|%s|%v|%v|%v|%d|%v|%d|", s.variant, s.auth, s.repcfg, s.streamURL, s.clHeader, s.startNr, s.langcfg, s.padcfg)
	for _, t := range s.tracks {
		fmt.Fprintf(&b, "%s/%s:%s:%s:%s:%v:%d,", t.Ch, t.Tr, t.Mt, t.Lang, t.cred, t.preload, len(t.segs))
	}
	return b.String()
}

func mkTrack(assets map[string]*asset, ch, name, mt, lang string) *track {
	a := assets[mt]
	t := &track{Ch: ch, Tr: name, Mt: mt, Ext: a.ext, Lang: lang, init: prepInit(a.init, lang)}
	for k, s := range a.segs {
		t.segs = append(t.segs, prepSeg(s, uint32(k), ch+"/"+name))
	}
	return t
}

const user, pswd = "ingest", "s3cret"

func (s *scenario) config() *app.Config {
	if s.cfg != nil {
		return s.cfg // read-only for the receiver
	}
	cfg := app.GetEmptyConfig()
	s.cfg = cfg
	if s.auth == "default" {
		cfg.DefaultUser, cfg.DefaultPswd = user, pswd
	}
	// a receiver that serves many configured channels: the lookup of a channel's entry is a scan of the list
	for i := 0; i < s.padcfg; i++ {
		cfg.Channels = append(cfg.Channels, app.ChannelConfig{Name: fmt.Sprintf("other-channel-%05d", i), AuthUser: "u", AuthPswd: "p",
			StartNr: 1, Reps: []app.RepresentationConfig{{Name: "video", Language: "eng"}}})
	}
	for _, ch := range s.chans {
		cc := app.ChannelConfig{Name: ch, StartNr: s.startNr}
		if s.auth == "channel" {
			cc.AuthUser, cc.AuthPswd = user+ch, pswd+ch
		}
		if s.repcfg {
			for _, t := range s.tracks {
				if t.Ch != ch {
					continue
				}
				switch t.Mt {
				case "video":
					cc.Reps = append(cc.Reps, app.RepresentationConfig{Name: t.Tr, Bitrate: 300000, DisplayName: "label-" + t.Tr})
				case "text":
					cc.Reps = append(cc.Reps, app.RepresentationConfig{Name: t.Tr, Role: "subtitle", DisplayName: "subs-" + t.Tr})
				}
			}
		}
		if s.langcfg {
			for _, t := range s.tracks {
				if t.Ch == ch && t.Mt == "audio" {
					cc.Reps = append(cc.Reps, app.RepresentationConfig{Name: t.Tr, Language: "nor", Role: "main", DisplayName: "lyd-" + t.Tr})
				}
				if t.Ch == ch && t.Mt == "text" && !s.repcfg {
					cc.Reps = append(cc.Reps, app.RepresentationConfig{Name: t.Tr, Language: "nor", Role: "caption", DisplayName: "tekst-" + t.Tr})
				}
			}
		}
		if s.auth == "channel" || s.repcfg || s.langcfg || s.startNr != 0 {
			cfg.Channels = append(cfg.Channels, cc)
		}
	}
	return cfg
}

// ---------------------------------------------------------------------------------------------- one run of the receiver

type upRes struct {
	t      *track
	k      int // -1 init, 0..2 media
	status int
	body   string // start of the response body ("" after a panic caught by the router's Recoverer)
	stored bool
	file   string // inexact tracks: name of the file that carries the uploaded payload
	// unanswered: the handler did not return within answerBound; skipped: not made, the run is already dead
	unanswered, skipped bool
}

// answerBound: every upload must be answered within this time (C19.progress).
const answerBound = 12 * time.Second

type run struct {
	sc      *scenario
	dir     string
	router  http.Handler
	cancel  context.CancelFunc
	w       *writer // nil in reference runs
	nProc   atomic.Int64
	nEv     atomic.Int64 // serial number of process events (the outgoing number k need not be unique)
	created sync.Map // ch -> *atomic.Int64
	started sync.Map // ch -> true once a channel goroutine reported the channel as started
	dead    atomic.Bool // an upload of this run was not answered: no further uploads are made
	stMu    sync.Mutex
	status  [][3]any // distinct (ch/tr, k, status) of the uploads made
	stSeen  map[string]bool
}

var curRun atomic.Pointer[run]

func hook(ev string, kv map[string]any) {
	r := curRun.Load()
	if r == nil {
		return
	}
	switch ev {
	case "chan_created":
		ch, _ := kv["ch"].(string)
		c, _ := r.created.LoadOrStore(ch, new(atomic.Int64))
		c.(*atomic.Int64).Add(1)
		if r.w != nil {
			r.w.Emit(tr.E{"ev": "chan_created", "ch": ch})
		}
	case "process":
		complete, _ := kv["complete"].(bool)
		track, _ := kv["track"].(string)
		fill, _ := kv["fill"].(map[string]any)
		_, known := fill[track]
		if r.w != nil {
			seq, _ := kv["seqNr"].(int64)
			r.w.Emit(tr.E{"ev": "process", "ch": kv["ch"], "tr": track, "k": int(seq), "n": int(r.nEv.Add(1)), "complete": complete, "known": known})
		}
		if st, _ := kv["started"].(bool); st {
			r.started.Store(kv["ch"], true)
		}
		if complete {
			r.nProc.Add(1)
		}
	}
}

func newRun(sc *scenario, root string, w *writer) (*run, error) {
	dir, err := os.MkdirTemp(root, "st")
	if err != nil {
		return nil, err
	}
	ctx, cancel := context.WithCancel(context.Background())
	router, _, err := app.VerifNewRouter(ctx, "/upload", dir, 30, 0, "", sc.config())
	if err != nil {
		cancel()
		return nil, err
	}
	r := &run{sc: sc, dir: dir, router: router, cancel: cancel, w: w, stSeen: map[string]bool{}}
	for _, t := range sc.tracks {
		if t.preload {
			td := filepath.Join(dir, t.Ch, t.Tr)
			if err := os.MkdirAll(td, 0755); err == nil {
				err = os.WriteFile(filepath.Join(td, "init_org"+t.Ext), t.init, 0644)
			}
			if err != nil {
				cancel()
				return nil, err
			}
		}
	}
	curRun.Store(r)
	return r, nil
}

func (r *run) close() {
	curRun.Store(nil)
	r.cancel()
	os.RemoveAll(r.dir)
}

func (r *run) upload(t *track, k int) upRes { return r.uploadBody(t, k, nil) }

// dirHashes: media files of a track directory with their content hashes.
func dirHashes(dir string) map[string][32]byte {
	res := map[string][32]byte{}
	entries, _ := os.ReadDir(dir)
	for _, e := range entries {
		if e.IsDir() || strings.HasPrefix(e.Name(), "init") {
			continue
		}
		if data, err := os.ReadFile(filepath.Join(dir, e.Name())); err == nil {
			res[e.Name()] = sha256.Sum256(data)
		}
	}
	return res
}

// mdatOf returns the payload of the first mdat box (what no rewriting of numbers / times touches).
func mdatOf(data []byte) []byte {
	p, sz, ok := findBox(data, "mdat")
	if !ok {
		return nil
	}
	return data[p+8 : p+sz]
}

// uploadBody makes one upload; wrap (optional) replaces the request body reader (gated / slow body).
func (r *run) uploadBody(t *track, k int, wrap func(io.Reader) io.ReadCloser) upRes {
	if r.dead.Load() {
		return upRes{t: t, k: k, skipped: true}
	}
	name, body := "init", t.init
	if k >= 0 {
		name, body = fmt.Sprintf("%d", k), t.segs[k]
	}
	url := fmt.Sprintf("/upload/%s/%s/%s%s", t.Ch, t.Tr, name, t.Ext)
	if r.sc.streamURL {
		url = fmt.Sprintf("/upload/%s/Streams(%s%s)", t.Ch, t.Tr, t.Ext)
	}
	req := httptest.NewRequest(http.MethodPut, url, bytes.NewReader(body))
	if wrap != nil {
		req.Body = wrap(bytes.NewReader(body))
	}
	if r.sc.clHeader {
		req.Header.Set("Content-Length", fmt.Sprint(len(body)))
	}
	switch {
	case t.cred == "none":
	case t.cred == "wrong":
		req.SetBasicAuth(user, "not-the-"+pswd)
	case r.sc.auth == "default":
		req.SetBasicAuth(user, pswd)
	case r.sc.auth == "channel":
		req.SetBasicAuth(user+t.Ch, pswd+t.Ch)
	}
	// inexact tracks: the track directory before the upload (a track never has two uploads at a time)
	var before map[string][32]byte
	if k >= 0 && t.inexact {
		before = dirHashes(filepath.Join(r.dir, t.Ch, t.Tr))
	}
	rr := httptest.NewRecorder()
	answered := make(chan struct{})
	go func() {
		r.router.ServeHTTP(rr, req)
		close(answered)
	}()
	select {
	case <-answered:
	case <-time.After(answerBound):
		r.dead.Store(true)
		return upRes{t: t, k: k, unanswered: true}
	}
	res := upRes{t: t, k: k, status: rr.Code, body: strings.TrimSpace(rr.Body.String())}
	r.stMu.Lock()
	if key := fmt.Sprintf("%s/%s|%d|%d", t.Ch, t.Tr, k, rr.Code); !r.stSeen[key] {
		r.stSeen[key] = true
		r.status = append(r.status, [3]any{t.Ch + "/" + t.Tr, k, rr.Code})
	}
	r.stMu.Unlock()
	if len(res.body) > 40 {
		res.body = res.body[:40]
	}
	// independent look at the storage: the uploaded bytes under the upload's own track directory
	stored := "init_org" + t.Ext
	if k >= 0 {
		stored = fmt.Sprintf("%d%s", k, t.Ext)
	}
	got, err := os.ReadFile(filepath.Join(r.dir, t.Ch, t.Tr, stored))
	res.stored = err == nil && bytes.Equal(got, body)
	if k >= 0 && t.inexact {
		// a file of the upload's own track directory that is new or rewritten carries the uploaded media payload
		res.stored = false
		want := mdatOf(body)
		td := filepath.Join(r.dir, t.Ch, t.Tr)
		after := dirHashes(td)
		names := make([]string, 0, len(after))
		for n := range after {
			names = append(names, n)
		}
		sort.Strings(names)
		for _, n := range names {
			if h, ok := before[n]; ok && h == after[n] {
				continue
			}
			if got, err := os.ReadFile(filepath.Join(td, n)); err == nil && want != nil && bytes.Equal(mdatOf(got), want) {
				res.stored = true
				res.file = n
				break
			}
		}
	}
	if k < 0 && res.stored {
		_, err = os.Stat(filepath.Join(r.dir, t.Ch, t.Tr, "init"+t.Ext))
		res.stored = err == nil
	}
	return res
}

func (r *run) emitUp(u upRes) {
	if r.w == nil {
		return
	}
	if u.skipped || u.t == nil {
		return
	}
	seg := "init"
	if u.k >= 0 {
		seg = "media"
	}
	cred := u.t.cred
	if cred == "" || r.sc.auth == "none" {
		cred = "ok"
	}
	r.w.Emit(tr.E{"ev": "up", "ch": u.t.Ch, "tr": u.t.Tr, "seg": seg, "k": u.k, "status": u.status, "body": u.body, "stored": u.stored,
		"answered": !u.unanswered, "cred": cred})
}

// quiesce waits until the channel goroutines have processed `want` complete segments.
func (r *run) quiesce(want int64) bool {
	deadline := time.Now().Add(15 * time.Second)
	for r.nProc.Load() < want {
		if time.Now().After(deadline) {
			return false
		}
		time.Sleep(200 * time.Microsecond)
	}
	return true
}

type repOut struct {
	ID     string   `json:"id"`
	Codecs string   `json:"codecs"`
	W      int      `json:"w"`
	H      int      `json:"h"`
	Labels []string `json:"labels"`
}
type asOut struct {
	CT    string   `json:"ct"`
	Lang  string   `json:"lang"`
	Mime  string   `json:"mime"`
	Roles []string `json:"roles"`
	TS    int      `json:"ts"`
	Reps  []repOut `json:"reps"`
}
type tlOut struct {
	Reps []string `json:"reps"`
	SN   int      `json:"sn"`   // startNumber
	NSeg int      `json:"nseg"` // segments in the SegmentTimeline
	End  int      `json:"end"`  // number of the last segment
}
type outcome struct {
	Files  [][2]string `json:"files"`
	HasMPD bool        `json:"hasmpd"`
	MPD    []asOut     `json:"mpd"`
	HasTL  bool        `json:"hastl"`
	TL     []tlOut     `json:"tl"`
	St     [][3]any    `json:"st"` // (track, k, status) of every upload of the channel
}

// timeline reads manifest_timeline_nr.mpd of a channel: per AdaptationSet the representation ids and the
// numbers the SegmentTimeline covers. Unparsable = one entry with reps ["unparsable"].
func (r *run) timeline(ch string) (bool, []tlOut) {
	res := []tlOut{}
	data, err := os.ReadFile(filepath.Join(r.dir, ch, "manifest_timeline_nr.mpd"))
	if err != nil {
		return false, res
	}
	m, err := mpd.MPDFromBytes(data)
	if err != nil || len(m.Periods) != 1 {
		return true, append(res, tlOut{Reps: []string{"unparsable"}, End: -1})
	}
	for _, as := range m.Periods[0].AdaptationSets {
		a := tlOut{Reps: []string{}, SN: -1, End: -1}
		for _, rep := range as.Representations {
			a.Reps = append(a.Reps, rep.Id)
		}
		if st := as.SegmentTemplate; st != nil && st.StartNumber != nil && st.SegmentTimeline != nil {
			a.SN = int(*st.StartNumber)
			for _, s := range st.SegmentTimeline.S {
				if s != nil {
					a.NSeg += int(s.R) + 1
				}
			}
			a.End = a.SN + a.NSeg - 1
		}
		res = append(res, a)
	}
	return true, res
}

// manifestIDs: representation ids of manifest.mpd (nil, false when the file is missing).
func (r *run) manifestIDs(ch string) ([]string, bool) {
	ids := []string{}
	data, err := os.ReadFile(filepath.Join(r.dir, ch, "manifest.mpd"))
	if err != nil {
		return ids, false
	}
	m, err := mpd.MPDFromBytes(data)
	if err != nil || len(m.Periods) != 1 {
		return append(ids, "unparsable"), true
	}
	for _, as := range m.Periods[0].AdaptationSets {
		for _, rep := range as.Representations {
			ids = append(ids, rep.Id)
		}
	}
	return ids, true
}

func (s *scenario) own(ch string) []string {
	ids := []string{}
	for _, t := range s.tracks {
		if t.Ch == ch && (t.cred == "" || s.auth == "none") {
			ids = append(ids, t.Tr)
		}
	}
	return ids
}

// final: files of a channel (relative path, hash) without the MPDs, and manifest.mpd as adaptation sets.
// Bandwidth is not compared: the receiver estimates it from whatever segments happen to be buffered when the
// master track has its second segment (also for representations with a configured bitrate), which legitimately
// depends on the upload order.
func (r *run) final(ch string) outcome {
	o := outcome{Files: [][2]string{}, MPD: []asOut{}, St: [][3]any{}}
	o.HasTL, o.TL = r.timeline(ch)
	r.stMu.Lock()
	for _, st := range r.status {
		if strings.HasPrefix(st[0].(string), ch+"/") {
			o.St = append(o.St, [3]any{strings.TrimPrefix(st[0].(string), ch+"/"), st[1], st[2]})
		}
	}
	r.stMu.Unlock()
	sort.Slice(o.St, func(i, j int) bool {
		if o.St[i][0].(string) != o.St[j][0].(string) {
			return o.St[i][0].(string) < o.St[j][0].(string)
		}
		return o.St[i][1].(int) < o.St[j][1].(int)
	})
	root := filepath.Join(r.dir, ch)
	_ = filepath.Walk(root, func(p string, info os.FileInfo, err error) error {
		if err != nil || info.IsDir() {
			return nil
		}
		rel, _ := filepath.Rel(root, p)
		if strings.HasSuffix(rel, ".mpd") || strings.HasSuffix(rel, ".tmp") {
			return nil
		}
		data, _ := os.ReadFile(p)
		h := sha256.Sum256(data)
		o.Files = append(o.Files, [2]string{rel, hex.EncodeToString(h[:6])})
		return nil
	})
	sort.Slice(o.Files, func(i, j int) bool { return o.Files[i][0] < o.Files[j][0] })
	data, err := os.ReadFile(filepath.Join(root, "manifest.mpd"))
	if err != nil {
		return o
	}
	m, err := mpd.MPDFromBytes(data)
	if err != nil || len(m.Periods) != 1 {
		o.HasMPD = true
		o.MPD = append(o.MPD, asOut{CT: "unparsable", Roles: []string{}, Reps: []repOut{}})
		return o
	}
	o.HasMPD = true
	for _, as := range m.Periods[0].AdaptationSets {
		a := asOut{CT: string(as.ContentType), Lang: as.Lang, Mime: as.MimeType, Roles: []string{}, Reps: []repOut{}}
		for _, ro := range as.Roles {
			a.Roles = append(a.Roles, ro.Value)
		}
		if as.SegmentTemplate != nil && as.SegmentTemplate.Timescale != nil {
			a.TS = int(*as.SegmentTemplate.Timescale)
		}
		for _, rep := range as.Representations {
			ro := repOut{ID: rep.Id, Codecs: rep.Codecs, W: int(rep.Width), H: int(rep.Height), Labels: []string{}}
			for _, l := range rep.Labels {
				ro.Labels = append(ro.Labels, l.Value)
			}
			a.Reps = append(a.Reps, ro)
		}
		o.MPD = append(o.MPD, a)
	}
	return o
}

type planStep struct {
	t *track
	k int
}

// standardPlan: init uploads in the given order, then the media segments of each number in that order.
func standardPlan(order []*track) []planStep {
	var plan []planStep
	n := 0
	for _, t := range order {
		n = max(n, len(t.segs))
	}
	for k := -1; k < n; k++ {
		for _, t := range order {
			if k == -1 && t.preload {
				continue
			}
			if k < len(t.segs) {
				plan = append(plan, planStep{t, k})
			}
		}
	}
	return plan
}

// sequential reference: the same uploads one after the other. "One after the other" includes the work of the
// channel goroutines: the next upload is made when the previous one has been processed completely.
func reference(sc *scenario, root string, plan []planStep) (map[string]outcome, error) {
	r, err := newRun(sc, root, nil)
	if err != nil {
		return nil, err
	}
	defer r.close()
	n := int64(0)
	for _, st := range plan {
		u := r.upload(st.t, st.k)
		if st.t.cred != "" && sc.auth != "none" {
			if u.status != 401 {
				return nil, fmt.Errorf("reference run: upload %s/%s k=%d with %s credentials answered %d", st.t.Ch, st.t.Tr, st.k, st.t.cred, u.status)
			}
			continue
		}
		if u.status != 200 || !u.stored || u.unanswered {
			names := []string{}
			if es, err := os.ReadDir(filepath.Join(r.dir, st.t.Ch, st.t.Tr)); err == nil {
				for _, e := range es {
					names = append(names, e.Name())
				}
			}
			return nil, fmt.Errorf("reference run: upload %s/%s k=%d answered %d stored=%v unanswered=%v (track directory: %v; %s)", st.t.Ch, st.t.Tr,
				st.k, u.status, u.stored, u.unanswered, names, sc.shape())
		}
		if st.k >= 0 {
			n++
			if !r.quiesce(n) {
				return nil, fmt.Errorf("reference run did not quiesce")
			}
		}
	}
	res := map[string]outcome{}
	for _, ch := range sc.chans {
		res[ch] = r.final(ch)
	}
	return res, nil
}

// ---------------------------------------------------------------------------------------------- gates / replay engine

type genLine struct {
	Steps    [][2]string `json:"steps"`
	CreatedA int         `json:"createdA"`
	CreatedB int         `json:"createdB"`
	Fail     []string    `json:"fail"`
	Orphan   []string    `json:"orphan"`
	Procs    []string    `json:"procs"`
	Kinds    [][2]string `json:"kinds"`
	Raced    bool        `json:"raced"`
	Conflict bool        `json:"conflict"`
}

type hstate struct {
	t       *track
	settle  chan string
	pending bool
	at      string // gate the handler stands at ("" = not started, "done" = request finished)
	started bool
	phase   int // 0 nothing, 1 init running/finished, 2 media running/finished
	res     []upRes
	mu      sync.Mutex
}

type engine struct {
	r    *run
	hs   map[string]*hstate
	free atomic.Bool
	wg   sync.WaitGroup
}

var curEngine atomic.Pointer[engine]

func gateReached(point string) {
	e := curEngine.Load()
	i := strings.IndexByte(point, ':')
	if e == nil || i < 0 {
		app.VerifReleaseGate(point)
		return
	}
	if e.free.Load() {
		app.VerifReleaseGate(point)
		return
	}
	h := e.hs[point[i+1:]]
	if h == nil {
		app.VerifReleaseGate(point)
		return
	}
	h.settle <- point[:i]
}

var errFidelity = fmt.Errorf("real handler is not where the model says")

func (e *engine) wait(h *hstate) error {
	select {
	case at := <-h.settle:
		h.at = at
		h.pending = false
		return nil
	case <-time.After(10 * time.Second):
		return fmt.Errorf("handler %s did not reach a gate: %w", h.t.Tr, errFidelity)
	}
}

func (e *engine) start(h *hstate, k int, gates ...string) {
	for _, g := range gates {
		app.VerifArmGate(g + ":" + h.t.Tr)
	}
	e.wg.Add(1)
	go func() {
		defer e.wg.Done()
		u := e.r.upload(h.t, k)
		h.mu.Lock()
		h.res = append(h.res, u)
		h.mu.Unlock()
		h.settle <- "done"
	}()
}

var gateOf = map[string]string{"add": "add", "s1": "streams_r", "s3": "streams_w", "reg": "reg", "ms1": "streams_r", "m2": "trdatas_r"}
var syncStep = map[string]bool{"get1": true, "add": true, "m1": true}

func (e *engine) step(name, label string) error {
	h := e.hs[name]
	if h == nil {
		return fmt.Errorf("unknown handler %s", name)
	}
	if h.pending {
		if err := e.wait(h); err != nil {
			return err
		}
	}
	switch label {
	case "get1":
		h.started, h.phase, h.pending = true, 1, true
		e.start(h, -1, "add", "streams_r", "streams_w", "reg")
	case "m1":
		if h.at != "done" {
			return fmt.Errorf("%s m1: init request stands at %q: %w", name, h.at, errFidelity)
		}
		h.phase, h.pending = 2, true
		e.start(h, 0, "streams_r", "trdatas_r")
	default:
		g, ok := gateOf[label]
		if !ok {
			return fmt.Errorf("unknown label %s", label)
		}
		if h.at != g {
			return fmt.Errorf("%s %s: handler stands at %q, expected gate %q: %w", name, label, h.at, g, errFidelity)
		}
		h.pending = true
		app.VerifReleaseGate(g + ":" + h.t.Tr)
	}
	if syncStep[label] {
		return e.wait(h)
	}
	return nil
}

// finish lets everything run freely: armed gates release themselves, missing requests are made.
func (e *engine) finish() {
	e.free.Store(true)
	for _, h := range e.hs {
		for _, g := range []string{"add", "streams_r", "streams_w", "reg", "trdatas_r"} {
			app.VerifReleaseGate(g + ":" + h.t.Tr)
		}
	}
	drain := func(h *hstate) {
		for h.pending || (h.started && h.at != "done") {
			at := <-h.settle
			h.at, h.pending = at, false
		}
	}
	for _, name := range sortedKeys(e.hs) {
		h := e.hs[name]
		drain(h)
		if h.phase < 1 {
			h.res = append(h.res, e.r.upload(h.t, -1))
			h.phase = 1
		}
	}
	for _, name := range sortedKeys(e.hs) {
		h := e.hs[name]
		if h.phase < 2 {
			h.res = append(h.res, e.r.upload(h.t, 0))
			h.phase = 2
		}
	}
	e.wg.Wait()
}

func sortedKeys(m map[string]*hstate) []string {
	ks := make([]string, 0, len(m))
	for k := range m {
		ks = append(ks, k)
	}
	sort.Strings(ks)
	return ks
}

// ---------------------------------------------------------------------------------------------- scenarios

type driver struct {
	w      *writer
	repo   string
	root   string
	assets map[string]*asset
	refs   map[string][]namedRef
	nScen  int // global index of the next scenario
	nDead  int // runs in which an upload was not answered
}

type namedRef struct {
	name  string
	indep bool // the oracle assumes that all references with indep = true of a scenario agree
	out   map[string]outcome
}

type namedPlan struct {
	name  string
	indep bool
	plan  []planStep
}

// refsFor runs (once per configuration) the sequential reference plans of a scenario on the real code.
func (d *driver) refsFor(sc *scenario, plans []namedPlan) ([]namedRef, error) {
	key := sc.kind[:1] + sc.shape()
	if r, ok := d.refs[key]; ok {
		return r, nil
	}
	if plans == nil {
		fwd := append([]*track(nil), sc.tracks...)
		rev := make([]*track, len(fwd))
		for i, t := range fwd {
			rev[len(fwd)-1-i] = t
		}
		plans = []namedPlan{{"fwd", true, standardPlan(fwd)}, {"rev", true, standardPlan(rev)}}
	}
	var res []namedRef
	for _, p := range plans {
		out, err := reference(sc, d.root, p.plan)
		if err != nil {
			return nil, fmt.Errorf("%s: %w", p.name, err)
		}
		res = append(res, namedRef{p.name, p.indep, out})
	}
	d.refs[key] = res
	return res, nil
}

func (d *driver) header(sc *scenario, extra tr.E) error { return d.headerPlans(sc, extra, nil) }

func (d *driver) headerPlans(sc *scenario, extra tr.E, plans []namedPlan) error {
	refs, err := d.refsFor(sc, plans)
	if err != nil {
		return err
	}
	tl := []any{}
	pre := [][]string{} // tracks whose init segment is on disk: registered by their first media upload
	for _, t := range sc.tracks {
		tl = append(tl, []string{t.Ch, t.Tr, t.Mt, t.Lang})
		if t.preload && (t.cred == "" || sc.auth == "none") {
			pre = append(pre, []string{t.Ch, t.Tr})
		}
	}
	e := tr.E{"ev": "hdr", "sc": d.nScen, "kind": sc.kind, "nch": len(sc.chans), "ntr": len(sc.tracks), "auth": sc.auth,
		"repcfg": sc.repcfg, "sender": sc.sender, "streamurl": sc.streamURL, "clhdr": sc.clHeader, "tracks": tl,
		"shape": sc.shape(), "variant": sc.variant, "pre": pre, "startnr": sc.startNr, "langcfg": sc.langcfg}
	for k, v := range extra {
		e[k] = v
	}
	d.w.Emit(e)
	for _, nr := range refs {
		for _, ch := range sc.chans {
			o := nr.out[ch]
			d.w.Emit(tr.E{"ev": "ref", "ch": ch, "order": nr.name, "indep": nr.indep, "files": o.Files, "hasmpd": o.HasMPD,
				"mpd": o.MPD, "hastl": o.HasTL, "tl": o.TL, "st": o.St})
		}
	}
	return nil
}

// footer: agree = yes | fixed | no | na | aborted (does the real run show what the explorer predicts; never a verdict)
func (d *driver) footer(r *run, nOK int64, agree string) {
	q := false
	if !r.dead.Load() {
		q = r.quiesce(nOK)
	} else {
		d.nDead++
	}
	created := map[string]int{}
	for _, ch := range r.sc.chans {
		o := r.final(ch)
		n := 0
		if c, ok := r.created.Load(ch); ok {
			n = int(c.(*atomic.Int64).Load())
		}
		created[ch] = n
		newest := -1
		if v, ok := r.sc.newest[ch]; ok {
			newest = v
		}
		d.w.Emit(tr.E{"ev": "final", "ch": ch, "files": o.Files, "hasmpd": o.HasMPD, "mpd": o.MPD, "hastl": o.HasTL, "tl": o.TL,
			"objects": n, "own": r.sc.own(ch), "newest": newest, "st": o.St})
	}
	d.w.Emit(tr.E{"ev": "end", "quiesced": q, "mediaok": int(nOK), "agree": agree, "dead": r.dead.Load()})
	d.w.Commit()
	d.nScen++
}

func replayTracks(assets map[string]*asset, handlers []string) ([]*track, []string) {
	mtOf := map[string]string{"t1": "video", "t2": "audio", "t3": "video", "u1": "video", "u2": "audio"}
	chans := map[string]bool{}
	var ts []*track
	for _, h := range handlers {
		ch := "chA"
		if h[0] == 'u' {
			ch = "chB"
		}
		chans[ch] = true
		ts = append(ts, mkTrack(assets, ch, h, mtOf[h], ""))
	}
	var cl []string
	for c := range chans {
		cl = append(cl, c)
	}
	sort.Strings(cl)
	return ts, cl
}

func (d *driver) replay(g *genLine, variant int) error {
	hset := map[string]bool{}
	for _, s := range g.Steps {
		hset[s[0]] = true
	}
	for _, p := range g.Procs {
		hset[p] = true
	}
	var handlers []string
	for h := range hset {
		handlers = append(handlers, h)
	}
	sort.Strings(handlers)
	if len(handlers) < 2 {
		handlers = []string{"t1", "t2"}
	}
	tracks, chans := replayTracks(d.assets, handlers)
	sc := &scenario{kind: "replay", chans: chans, tracks: tracks, auth: []string{"none", "default", "channel"}[variant%3],
		repcfg: variant%2 == 1, clHeader: variant%4 >= 2, steps: g.Steps, pred: g, newest: map[string]int{}}
	for _, ch := range chans {
		sc.newest[ch] = 2
	}
	if g.Conflict {
		sc.kind = "conflict"
	}
	sj, _ := json.Marshal(g.Steps)
	if err := d.header(sc, tr.E{"steps": string(sj), "pred_created": max(g.CreatedA, g.CreatedB), "pred_fail": len(g.Fail)}); err != nil {
		return err
	}
	r, err := newRun(sc, d.root, d.w)
	if err != nil {
		return err
	}
	defer r.close()
	e := &engine{r: r, hs: map[string]*hstate{}}
	for _, t := range tracks {
		e.hs[t.Tr] = &hstate{t: t, settle: make(chan string, 8)}
	}
	curEngine.Store(e)
	aborted := ""
	for _, s := range g.Steps {
		if err := e.step(s[0], s[1]); err != nil {
			aborted = err.Error()
			break
		}
	}
	e.finish()
	curEngine.Store(nil)
	nOK := int64(0)
	failed := map[string]bool{}
	for _, name := range sortedKeys(e.hs) {
		for _, u := range e.hs[name].res {
			r.emitUp(u)
			if u.k >= 0 && u.status == 200 {
				nOK++
			}
			if u.k == 0 && u.status != 200 {
				failed[name] = true
			}
		}
	}
	// epilogue (not scheduled): media segments 1 and 2 of every track, one after the other
	for k := 1; k < 3; k++ {
		for _, t := range tracks {
			u := r.upload(t, k)
			r.emitUp(u)
			if u.status == 200 {
				nOK++
			}
		}
	}
	agree := "na"
	if aborted != "" {
		agree = "aborted: " + aborted
	} else if !g.Conflict {
		// explorer fidelity (never a verdict): channel objects and failed first media uploads as the model predicts
		cnt := func(ch string) int {
			if c, ok := r.created.Load(ch); ok {
				return int(c.(*atomic.Int64).Load())
			}
			return 0
		}
		pf := map[string]bool{}
		for _, f := range g.Fail {
			pf[f] = true
		}
		same := cnt("chA") == g.CreatedA && cnt("chB") == g.CreatedB && len(pf) == len(failed)
		for f := range pf {
			same = same && failed[f]
		}
		agree = "yes"
		if !same && cnt("chA") <= 1 && cnt("chB") <= 1 && len(failed) == 0 {
			// what the explorer predicts with Fixed = TRUE (one object per name, every media upload accepted)
			agree = "fixed"
		} else if !same {
			agree = fmt.Sprintf("no: model created %d/%d fail %v; code created %d/%d fail %v", g.CreatedA, g.CreatedB, g.Fail,
				cnt("chA"), cnt("chB"), failed)
		}
	}
	d.footer(r, nOK, agree)
	return nil
}

func (d *driver) concShape(seed int64, shapeIdx int) *scenario {
	rng := rand.New(rand.NewSource(seed*7919 + int64(shapeIdx)))
	nch := 1 + rng.Intn(4)
	sc := &scenario{kind: "conc", auth: []string{"none", "default", "channel"}[rng.Intn(3)], repcfg: rng.Intn(2) == 0,
		sender: rng.Intn(3) == 0, streamURL: rng.Intn(3) == 0, clHeader: rng.Intn(2) == 0, newest: map[string]int{}}
	uniq := rng.Intn(2) == 0 // channel-unique track names (a foreign MPD is then recognisable by its ids)
	langs := []string{"", "swe", "eng", "nor"}
	for c := 0; c < nch; c++ {
		ch := fmt.Sprintf("ch%d", c+1)
		sc.chans = append(sc.chans, ch)
		sc.newest[ch] = 2
		ntr := 2 + rng.Intn(7)
		nv, na, nt := 0, 0, 0
		for i := 0; i < ntr; i++ {
			mt := "video"
			if i > 0 {
				mt = []string{"video", "audio", "audio", "text"}[rng.Intn(4)]
			}
			var name, lang string
			switch mt {
			case "video":
				nv++
				name = fmt.Sprintf("v%d", nv)
			case "audio":
				na++
				name = fmt.Sprintf("a%d", na)
				lang = langs[rng.Intn(len(langs))]
			default:
				nt++
				name = fmt.Sprintf("s%d", nt)
				lang = langs[rng.Intn(len(langs))]
			}
			if uniq {
				name = ch + "_" + name
			}
			sc.tracks = append(sc.tracks, mkTrack(d.assets, ch, name, mt, lang))
		}
	}
	rng.Shuffle(len(sc.tracks), func(i, j int) { sc.tracks[i], sc.tracks[j] = sc.tracks[j], sc.tracks[i] })
	return sc
}

// conc: one concurrent run of a configuration: all init uploads at once (or, sender-like, per channel one after
// the other), then the media segments of each number at once, with a barrier per number.
func (d *driver) conc(sc *scenario, rep int) error {
	if err := d.header(sc, tr.E{"rep": rep}); err != nil {
		return err
	}
	r, err := newRun(sc, d.root, d.w)
	if err != nil {
		return err
	}
	defer r.close()
	nOK := int64(0)
	res := make([]upRes, len(sc.tracks))
	for k := -1; k < 3; k++ {
		var wg sync.WaitGroup
		startCh := make(chan struct{})
		if k == -1 && sc.sender {
			for _, ch := range sc.chans {
				wg.Add(1)
				go func() {
					defer wg.Done()
					<-startCh
					for i, t := range sc.tracks {
						if t.Ch == ch {
							res[i] = r.upload(t, k)
						}
					}
				}()
			}
		} else {
			for i, t := range sc.tracks {
				wg.Add(1)
				go func() {
					defer wg.Done()
					<-startCh
					res[i] = r.upload(t, k)
				}()
			}
		}
		close(startCh)
		wg.Wait()
		for _, u := range res {
			r.emitUp(u)
			if k >= 0 && u.status == 200 {
				nOK++
			}
		}
	}
	d.footer(r, nOK, "na")
	return nil
}

// nilConfigProbe: NewReceiver(ctx, opts, nil) - AddChannel dereferences cm.cfg (reported in the stats only:
// the property does not speak about a nil configuration and the command never passes one).
func nilConfigProbe(root string, assets map[string]*asset) string {
	dir, err := os.MkdirTemp(root, "nil")
	if err != nil {
		return "error"
	}
	defer os.RemoveAll(dir)
	ctx, cancel := context.WithCancel(context.Background())
	defer cancel()
	router, _, err := app.VerifNewRouter(ctx, "/upload", dir, 30, 0, "", nil)
	if err != nil {
		return "error"
	}
	t := mkTrack(assets, "chN", "v1", "video", "")
	req := httptest.NewRequest(http.MethodPut, "/upload/chN/v1/init.cmfv", bytes.NewReader(t.init))
	rr := httptest.NewRecorder()
	done := make(chan int, 1)
	go func() {
		defer func() {
			if recover() != nil {
				done <- -1
			}
		}()
		router.ServeHTTP(rr, req)
		done <- rr.Code
	}()
	select {
	case c := <-done:
		return fmt.Sprintf("status %d", c)
	case <-time.After(5 * time.Second):
		return "hang"
	}
}

func Main(args []string) error {
	fs := flag.NewFlagSet("c19", flag.ExitOnError)
	out := fs.String("out", "c19.ndjson", "trace output")
	gen := fs.String("gen", "", "file with TLC-generated schedules (one JSON object per line)")
	seed := fs.Int64("seed", 1, "seed")
	nShapes := fs.Int("shapes", 12, "number of random concurrent configurations")
	reps := fs.Int("reps", 4, "repetitions of every concurrent configuration")
	sgen := fs.String("sgen", "", "file with TLC-generated start-transition behaviours (ReceiverConcStart)")
	nSets := fs.Int("startsets", 2, "number of test data sets used for the start scenarios")
	nStartConc := fs.Int("startconc", 4, "repetitions of the start transition with plain goroutines per data set")
	nRoundsSc := fs.Int("rounds", 4, "number of many-rounds scenarios (several channels in one storage directory)")
	nBurst := fs.Int("bursts", 3, "number of burst configurations (all handlers released at once at one gate)")
	burstReps := fs.Int("burstreps", 4, "repetitions of every burst configuration and gate")
	nLive := fs.Int("lives", 3, "number of liveness scenarios (8..12 tracks of one channel, multi-chunk segments)")
	liveLen := fs.Int("livelen", 4, "rounds per liveness scenario")
	roundLen := fs.Int("roundlen", 12, "rounds per many-rounds scenario")
	nOverlap := fs.Int("overlaps", 4, "number of overlap scenarios (two uploads of one track while it is registered from disk)")
	from := fs.Int("from", 0, "index of the first scenario to run (the parent restarts a child that the Go runtime killed)")
	repo := fs.String("repo", os.Getenv("VERIF_REPO"), "repository root")
	root := fs.String("tmp", "", "directory for the receivers' storage")
	_ = fs.Parse(args)
	if *repo == "" {
		*repo = "/repo"
	}
	slog.SetDefault(slog.New(slog.NewTextHandler(io.Discard, nil)))
	middleware.DefaultLogger = func(next http.Handler) http.Handler { return next }
	assets, err := loadAssets(*repo)
	if err != nil {
		return err
	}
	if *root == "" {
		if *root, err = os.MkdirTemp("", "c19"); err != nil {
			return err
		}
		defer os.RemoveAll(*root)
	}
	w, err := newWriter(*out)
	if err != nil {
		return err
	}
	app.VerifHook = hook
	app.VerifGateReached = gateReached
	d := &driver{w: w, repo: *repo, root: *root, assets: assets, refs: map[string][]namedRef{}}
	if *from == 0 {
		w.Emit(tr.E{"ev": "note", "what": "nil_config_probe", "result": nilConfigProbe(*root, assets)})
		w.Commit()
	}
	var gens []genLine
	if *gen != "" {
		data, err := os.ReadFile(*gen)
		if err != nil {
			return err
		}
		for i, line := range strings.Split(strings.TrimSpace(string(data)), "\n") {
			if line == "" {
				continue
			}
			var g genLine
			if err := json.Unmarshal([]byte(line), &g); err != nil {
				return fmt.Errorf("gen line %d: %w", i+1, err)
			}
			gens = append(gens, g)
		}
	}
	var sgens []sgenLine
	if *sgen != "" {
		data, err := os.ReadFile(*sgen)
		if err != nil {
			return err
		}
		for i, line := range strings.Split(strings.TrimSpace(string(data)), "\n") {
			if line == "" {
				continue
			}
			var g sgenLine
			if err := json.Unmarshal([]byte(line), &g); err != nil {
				return fmt.Errorf("sgen line %d: %w", i+1, err)
			}
			sgens = append(sgens, g)
		}
	}
	if *nSets > len(startSets) {
		*nSets = len(startSets)
	}
	// data sets rotate with the seed
	set := func(i int) startSet { return startSets[(i+int(*seed))%len(startSets)] }
	nStart := len(sgens) * *nSets
	nSC := *nStartConc * *nSets
	nConc := *nShapes * *reps
	nB := *nBurst * 2 * *burstReps
	totalOld := len(gens) + nStart + nSC + nConc + *nRoundsSc + nB + *nLive
	total := totalOld + *nOverlap
	for idx := *from; idx < total; idx++ {
		d.nScen = idx
		c := idx
		var err error
		switch {
		case c >= totalOld:
			c -= totalOld
			err = d.overlap(d.overlapScenario(*seed, c), c)
		case c < len(gens):
			err = d.replay(&gens[c], c+int(*seed))
		case c < len(gens)+nStart:
			c -= len(gens)
			err = d.start(set(c/len(sgens)), &sgens[c%len(sgens)])
		case c < len(gens)+nStart+nSC:
			c -= len(gens) + nStart
			err = d.start(set(c / *nStartConc), nil)
		case c < len(gens)+nStart+nSC+nConc:
			c -= len(gens) + nStart + nSC
			err = d.conc(d.concShape(*seed, c / *reps), c%*reps)
		case c < len(gens)+nStart+nSC+nConc+*nRoundsSc:
			c -= len(gens) + nStart + nSC + nConc
			err = d.rounds(d.roundsScenario(*seed, c, *roundLen), *roundLen)
		case c >= len(gens)+nStart+nSC+nConc+*nRoundsSc+nB:
			c -= len(gens) + nStart + nSC + nConc + *nRoundsSc + nB
			err = d.burst(d.liveScenario(*seed, c, *liveLen), "reg", 0)
		default:
			c -= len(gens) + nStart + nSC + nConc + *nRoundsSc
			err = d.burst(d.burstScenario(*seed, c/(2**burstReps)), []string{"reg", "add"}[(c / *burstReps)%2], c%*burstReps)
		}
		if err != nil {
			return err
		}
		if d.nDead >= 2 {
			// every dead run costs answerBound; the observation has been made
			w.Emit(tr.E{"ev": "note", "what": "stopped_early", "result": fmt.Sprintf("%d runs with unanswered uploads; scenarios %d..%d not run", d.nDead, idx+1, total-1)})
			w.Commit()
			break
		}
	}
	if err := w.Close(); err != nil {
		return err
	}
	tr.PrintStats(map[string]any{"scenarios": total - *from, "events": w.N, "total": total})
	return nil
}

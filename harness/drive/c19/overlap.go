package c19

// overlap: two uploads of ONE track of an EXISTING channel directory overlap while the track is being registered from disk.
//
// The receiver has been restarted on storage that holds init_org.* of every track (no init segment is sent again). The
// first upload of a track makes the receiver load init_org inside registerStream; the storage is made slow at exactly that
// point (a named pipe in the place of init_org, the read completes when the driver delivers the bytes). While the first
// request stands there, a second media upload of the same track arrives - an encoder that pipelines its PUTs, or the retry of
// a PUT that timed out. In every sequential execution both uploads are accepted (C19.registered: the track is registered by
// its first media upload; C19.no_loss). The order in which the two segments reach the channel goroutine is fixed by the
// driver so that the outcome is comparable with the sequential references: the request that loads init_org carries segment 1
// behind a body that is released only after the other request (segment 0, body available at once) has been answered and
// processed.

import (
	"fmt"
	"io"
	"math/rand"
	"os"
	"path/filepath"
	"syscall"
	"time"

	"verifharness/tr"
)

func (d *driver) overlapScenario(seed int64, idx int) *scenario {
	rng := rand.New(rand.NewSource(seed*49979687 + int64(idx)))
	sc := &scenario{kind: "overlap", auth: "none", clHeader: rng.Intn(2) == 0, streamURL: idx%2 == 1, chans: []string{"och"}}
	n := 2 + rng.Intn(2)
	nseg := 3 + rng.Intn(2)
	for i := 0; i < n; i++ {
		mt := "video"
		if i > 0 && rng.Intn(2) == 0 {
			mt = "audio"
		}
		t := mkTrackN(d.assets, "och", fmt.Sprintf("o%s%d", mt[:1], i+1), mt, "", nseg, 0, 1)
		t.preload = true
		sc.tracks = append(sc.tracks, t)
	}
	sc.variant = fmt.Sprintf("n%d-s%d-t%d", n, nseg, idx%n)
	return sc
}

func (d *driver) overlap(sc *scenario, idx int) error {
	target := sc.tracks[idx%len(sc.tracks)]
	// sequential reference: the same uploads one after the other in the order in which the driver lets them reach the channel
	// goroutine (manifest.mpd is written once, when the master track has delivered two segments: the outcome depends on
	// which tracks are registered by then, so the standard plans are not references for this order)
	asrun := []planStep{{target, 0}, {target, 1}}
	for k := 0; k < len(target.segs); k++ {
		for _, t := range sc.tracks {
			if t == target && k < 2 {
				continue
			}
			asrun = append(asrun, planStep{t, k})
		}
	}
	if err := d.headerPlans(sc, tr.E{"target": target.Tr}, []namedPlan{{"asrun", false, asrun}}); err != nil {
		return err
	}
	r, err := newRun(sc, d.root, d.w)
	if err != nil {
		return err
	}
	defer r.close()
	fifo := filepath.Join(r.dir, target.Ch, target.Tr, "init_org"+target.Ext)
	if err := os.Remove(fifo); err != nil {
		return err
	}
	if err := syscall.Mkfifo(fifo, 0644); err != nil {
		return err
	}
	agree := "na"
	// request A: segment 1 behind a gated body; it is the request that registers the track (loads init_org)
	gb := &gatedBody{reached: make(chan struct{}), release: make(chan struct{})}
	resA := make(chan upRes, 1)
	go func() {
		resA <- r.uploadBody(target, 1, func(rd io.Reader) io.ReadCloser { gb.r = rd; return gb })
	}()
	type opened struct {
		f   *os.File
		err error
	}
	wr := make(chan opened, 1)
	go func() { // returns when the receiver has opened init_org for reading
		f, err := os.OpenFile(fifo, os.O_WRONLY, 0)
		wr <- opened{f, err}
	}()
	var w opened
	select {
	case w = <-wr:
	case <-time.After(10 * time.Second):
		// the receiver does not load init_org at this point (not what this scenario was built for): let the opener go
		if f, err := os.OpenFile(fifo, os.O_RDONLY|syscall.O_NONBLOCK, 0); err == nil {
			defer f.Close()
		}
		w = <-wr
		agree = "aborted: init_org not opened by the first upload"
	}
	// request B: segment 0 of the same track, body available at once, while A stands in the registration
	resB := make(chan upRes, 1)
	go func() { resB <- r.upload(target, 0) }()
	var uB upRes
	gotB := false
	select {
	case uB = <-resB: // answered before the track was registered
		gotB = true
	case <-time.After(300 * time.Millisecond): // waits for the registration
	}
	// the storage delivers init_org; the receiver then rewrites init_org (drained here)
	drained := make(chan []byte, 1)
	if w.err == nil && w.f != nil {
		_, _ = w.f.Write(target.init)
		_ = w.f.Close()
		go func() {
			f, err := os.OpenFile(fifo, os.O_RDONLY, 0)
			if err != nil {
				drained <- nil
				return
			}
			data, _ := io.ReadAll(f)
			f.Close()
			drained <- data
		}()
	} else {
		drained <- nil
	}
	nOK := int64(0)
	if !gotB {
		uB = <-resB // bounded by answerBound inside uploadBody
	}
	if uB.status == 200 && !uB.unanswered {
		nOK++
		r.quiesce(nOK)
	}
	// A's body: released when B has been answered and processed (or A never gets that far: released anyhow)
	select {
	case <-gb.reached:
	case <-time.After(5 * time.Second):
	}
	close(gb.release)
	uA := <-resA
	if uA.status == 200 && !uA.unanswered {
		nOK++
		// the uploads that follow are made one after the other, as in the reference: the channel goroutine must have
		// processed A's segment before the next track registers (manifest.mpd is written when the master track has two
		// segments and lists the tracks registered by then)
		r.quiesce(nOK)
	}
	var rewritten []byte
	select {
	case rewritten = <-drained:
	case <-time.After(2 * time.Second):
		// init_org was not rewritten: wake the blocked reader
		if f, err := os.OpenFile(fifo, os.O_WRONLY|syscall.O_NONBLOCK, 0); err == nil {
			f.Close()
		}
	}
	// the slow storage holds what was written to it (the driver's look at the directory must not block on the pipe)
	if len(rewritten) == 0 {
		rewritten = target.init
	}
	_ = os.Remove(fifo)
	if err := os.WriteFile(fifo, rewritten, 0644); err != nil {
		return err
	}
	r.emitUp(uB)
	r.emitUp(uA)
	// the rest one after the other: the remaining segments of the target and every segment of the other tracks
	nseg := len(target.segs)
	for k := 0; k < nseg; k++ {
		for _, t := range sc.tracks {
			if t == target && k < 2 {
				continue
			}
			u := r.upload(t, k)
			r.emitUp(u)
			if u.status == 200 && !u.unanswered {
				nOK++
				r.quiesce(nOK)
			}
		}
	}
	d.footer(r, nOK, agree)
	return nil
}

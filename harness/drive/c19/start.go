package c19

// Scenario kinds added for the channel START transition and for channels that share one storage directory:
//
//	start     (R) behaviours of spec/ReceiverConcStart (snap / body / start steps) forced on a channel that WILL be
//	          shifted (the repository's zero_3.84s and awsMediaLiveScte35 test data): `snap` starts an upload of a
//	          non-master track whose request body is gated (the handler has accepted the request and taken its view
//	          of the channel, the body has not arrived), `start` uploads the master segment that starts the channel
//	          and waits until the channel goroutine reports it started, `body` lets the gated body arrive.
//	startconc (V) the same transition with plain goroutines (all uploads of the starting number at once).
//	rounds    (V) 2..4 channels in ONE storage directory, channel-unique track names, every segment number uploaded
//	          to all tracks of all channels at the same moment for many rounds; after every round each channel's
//	          manifest.mpd / manifest_timeline_nr.mpd are looked at (`mpdcheck`).
//
// The references of start / startconc are the sequential runs for every subset of the non-master tracks whose
// transition upload comes BEFORE the master's (the outcome legitimately depends on that subset only).

import (
	"encoding/binary"
	"encoding/json"
	"fmt"
	"io"
	"math/rand"
	"os"
	"path/filepath"
	"sort"
	"sync"
	"time"

	app "github.com/Dash-Industry-Forum/livesim2/cmd/cmaf-ingest-receiver/app"

	"verifharness/tr"
)

// gatedBody: the first Read reports that the handler has started to read the body and waits for release.
type gatedBody struct {
	r       io.Reader
	once    sync.Once
	reached chan struct{}
	release chan struct{}
}

func (b *gatedBody) Read(p []byte) (int, error) {
	b.once.Do(func() {
		close(b.reached)
		<-b.release
	})
	return b.r.Read(p)
}
func (b *gatedBody) Close() error { return nil }

type sgenLine struct {
	Steps [][2]string       `json:"steps"`
	Used  map[string]string `json:"used"`
}

// ---------------------------------------------------------------------------------------------- data sets

type startSet struct {
	name   string
	dir    string   // below cmd/cmaf-ingest-receiver/app/testdata
	tracks []string // master video first
	names  []string // file names of the media segments, in order
	trans  int      // index of the master segment that starts the channel
	nPost  int      // segments uploaded after the transition
	initOn string   // "disk": init_org preloaded (media-first); "upload": init segment uploaded first
	initFn string
}

var startSets = []startSet{
	{"zero-audio-text", "zero_3.84s", []string{"video-500Kbps", "audio-nor-128Kbps", "text-nor-0"}, []string{"0", "1", "2", "3"}, 1, 2, "disk", "init_org"},
	{"medialive-startnr0", "awsMediaLiveScte35", []string{"video", "audio", "scte"}, []string{"896605655", "896605656", "896605657", "896605658"}, 2, 1, "upload", "init"},
	{"zero-audio-video", "zero_3.84s", []string{"video-500Kbps", "audio-nor-128Kbps", "video-800Kbps"}, []string{"0", "1", "2", "3"}, 1, 2, "upload", "init_org"},
	{"zero-text-video", "zero_3.84s", []string{"video-500Kbps", "text-nor-1_hearing_impaired", "video-800Kbps"}, []string{"0", "1", "2", "3"}, 1, 2, "disk", "init_org"},
}

var extMt = map[string]string{".cmfv": "video", ".cmfa": "audio", ".cmft": "text", ".cmfm": "meta"}

func (d *driver) loadStartSet(ss startSet) (*scenario, error) {
	base := filepath.Join(d.repo, "cmd/cmaf-ingest-receiver/app/testdata", ss.dir)
	sc := &scenario{kind: "start", chans: []string{ss.dir}, auth: "none", streamURL: true, variant: ss.name}
	for _, name := range ss.tracks {
		files, err := filepath.Glob(filepath.Join(base, name, ss.initFn+".*"))
		if err != nil || len(files) != 1 {
			return nil, fmt.Errorf("test data %s/%s: init segment not found", ss.dir, name)
		}
		ext := filepath.Ext(files[0])
		t := &track{Ch: ss.dir, Tr: name, Mt: extMt[ext], Ext: ext, inexact: true, preload: ss.initOn == "disk"}
		if t.init, err = os.ReadFile(files[0]); err != nil {
			return nil, err
		}
		for _, n := range ss.names {
			data, err := os.ReadFile(filepath.Join(base, name, n+ext))
			if err != nil {
				return nil, err
			}
			t.segs = append(t.segs, data)
		}
		sc.tracks = append(sc.tracks, t)
	}
	return sc, nil
}

// startPlans: one sequential plan per subset of the non-master tracks that upload the transition segment
// before the master does.
func startPlans(sc *scenario, ss startSet) []namedPlan {
	m, others := sc.tracks[0], sc.tracks[1:]
	var plans []namedPlan
	for mask := 0; mask < 1<<len(others); mask++ {
		var plan []planStep
		for _, t := range sc.tracks {
			if !t.preload {
				plan = append(plan, planStep{t, -1})
			}
		}
		for k := 0; k < ss.trans; k++ {
			for _, t := range sc.tracks {
				plan = append(plan, planStep{t, k})
			}
		}
		for i, t := range others {
			if mask&(1<<i) != 0 {
				plan = append(plan, planStep{t, ss.trans})
			}
		}
		plan = append(plan, planStep{m, ss.trans})
		for i, t := range others {
			if mask&(1<<i) == 0 {
				plan = append(plan, planStep{t, ss.trans})
			}
		}
		for k := ss.trans + 1; k <= ss.trans+ss.nPost; k++ {
			for _, t := range sc.tracks {
				plan = append(plan, planStep{t, k})
			}
		}
		plans = append(plans, namedPlan{fmt.Sprintf("before%d", mask), false, plan})
	}
	return plans
}

func (r *run) waitStarted(ch string) bool {
	deadline := time.Now().Add(15 * time.Second)
	for {
		if _, ok := r.started.Load(ch); ok {
			return true
		}
		if time.Now().After(deadline) {
			return false
		}
		time.Sleep(200 * time.Microsecond)
	}
}

type inflight struct {
	body *gatedBody
	done chan upRes
}

// start runs one behaviour of ReceiverConcStart (g != nil) or the transition with plain goroutines (g == nil).
func (d *driver) start(ss startSet, g *sgenLine) error {
	sc, err := d.loadStartSet(ss)
	if err != nil {
		return err
	}
	extra := tr.E{}
	if g == nil {
		sc.kind = "startconc"
	} else {
		sj, _ := json.Marshal(g.Steps)
		extra["steps"] = string(sj)
	}
	if err := d.headerPlans(sc, extra, startPlans(sc, ss)); err != nil {
		return err
	}
	r, err := newRun(sc, d.root, d.w)
	if err != nil {
		return err
	}
	defer r.close()
	nOK := int64(0)
	seq := func(t *track, k int) {
		u := r.upload(t, k)
		r.emitUp(u)
		if k >= 0 && u.status == 200 {
			nOK++
			r.quiesce(nOK)
		}
	}
	for _, t := range sc.tracks {
		if !t.preload {
			seq(t, -1)
		}
	}
	for k := 0; k < ss.trans; k++ {
		for _, t := range sc.tracks {
			seq(t, k)
		}
	}
	m, others := sc.tracks[0], sc.tracks[1:]
	agree := "na"
	if g == nil {
		res := make([]upRes, len(sc.tracks))
		var wg sync.WaitGroup
		startCh := make(chan struct{})
		for i, t := range sc.tracks {
			wg.Add(1)
			go func() {
				defer wg.Done()
				<-startCh
				res[i] = r.upload(t, ss.trans)
			}()
		}
		close(startCh)
		wg.Wait()
		for _, u := range res {
			r.emitUp(u)
			if u.status == 200 {
				nOK++
			}
		}
		r.quiesce(nOK)
	} else {
		byName := map[string]*track{}
		for i, t := range others {
			byName[fmt.Sprintf("u%d", i+1)] = t
		}
		fl := map[string]*inflight{}
		var results []upRes
		for _, s := range g.Steps {
			switch s[1] {
			case "start":
				u := r.upload(m, ss.trans)
				results = append(results, u)
				if u.status == 200 {
					nOK++
				}
				if !r.waitStarted(sc.chans[0]) {
					agree = "aborted: channel did not start with the master's transition segment"
				}
			case "snap":
				t := byName[s[0]]
				if t == nil {
					continue
				}
				f := &inflight{body: &gatedBody{reached: make(chan struct{}), release: make(chan struct{})}, done: make(chan upRes, 1)}
				fl[s[0]] = f
				go func() {
					f.done <- r.uploadBody(t, ss.trans, func(rd io.Reader) io.ReadCloser { f.body.r = rd; return f.body })
				}()
				select {
				case <-f.body.reached:
				case u := <-f.done: // answered without reading the body
					f.done <- u
				case <-time.After(15 * time.Second):
					agree = "aborted: gated upload did not reach its body"
				}
			case "body":
				f := fl[s[0]]
				if f == nil {
					continue
				}
				close(f.body.release)
				u := <-f.done
				results = append(results, u)
				if u.status == 200 {
					nOK++
				}
			}
		}
		for _, u := range results {
			r.emitUp(u)
		}
		r.quiesce(nOK)
		if agree == "na" {
			// explorer fidelity: an upload whose view was taken before the start is stored under its incoming number
			agree = "yes"
			for _, u := range results {
				if u.t == m || u.status != 200 {
					continue
				}
				pm, _, _ := findBox(u.t.segs[ss.trans], "moof", "mfhd")
				in := binary.BigEndian.Uint32(u.t.segs[ss.trans][pm+12 : pm+16])
				got := "shifted"
				if u.file == fmt.Sprintf("%d%s", in, u.t.Ext) {
					got = "unshifted"
				}
				for name, t := range byName {
					if t == u.t && g.Used[name] != got {
						agree = fmt.Sprintf("no: model %s %s, code %s (%s)", name, g.Used[name], got, u.file)
					}
				}
			}
		}
	}
	for k := ss.trans + 1; k <= ss.trans+ss.nPost; k++ {
		for _, t := range sc.tracks {
			seq(t, k)
		}
	}
	d.footer(r, nOK, agree)
	return nil
}

// ---------------------------------------------------------------------------------------------- rounds

// patchTimes sets mfhd.sequence_number and tfdt.baseMediaDecodeTime of a media segment (raw bytes).
func patchTimes(raw []byte, seq uint32, dts uint64, tag string) []byte {
	out := prepSeg(raw, seq, tag)
	p, _, ok := findBox(out, "moof", "traf", "tfdt")
	if !ok {
		panic("no tfdt in media segment")
	}
	if out[p+8] == 1 {
		binary.BigEndian.PutUint64(out[p+12:p+20], dts)
	} else {
		binary.BigEndian.PutUint32(out[p+12:p+16], uint32(dts))
	}
	return out
}

var tsOf = map[string]uint64{"video": 90000, "audio": 48000, "text": 1000}

// roundsScenario: nch channels below one storage directory; channel i has 1..2 tracks with channel-unique names.
// shift class of a channel: "none" (number = time/duration), "seq" (incoming numbers are one too high: the
// receiver detects masterSeqNrShift = -1), "time" (times are half a second off the grid: masterTimeShift # 0).
func (d *driver) roundsScenario(seed int64, idx int, nRounds int) *scenario {
	rng := rand.New(rand.NewSource(seed*104729 + int64(idx)))
	nch := 2 + rng.Intn(3)
	sc := &scenario{kind: "rounds", auth: "none", clHeader: rng.Intn(2) == 0, newest: map[string]int{}, variant: fmt.Sprintf("r%d", nRounds)}
	for c := 0; c < nch; c++ {
		ch := fmt.Sprintf("chan%d", c+1)
		sc.chans = append(sc.chans, ch)
		shift := []string{"none", "none", "seq", "time"}[rng.Intn(4)]
		sc.variant += "-" + shift
		mts := []string{"video"}
		if rng.Intn(2) == 0 {
			mts = append(mts, []string{"audio", "text"}[rng.Intn(2)])
		}
		for i, mt := range mts {
			a := d.assets[mt]
			name := fmt.Sprintf("%s_%s%d", ch, mt[:1], i+1)
			t := &track{Ch: ch, Tr: name, Mt: mt, Ext: a.ext, init: prepInit(a.init, ""), inexact: shift != "none"}
			for k := 0; k < nRounds; k++ {
				seqNr, dts := uint32(k), uint64(k)*2*tsOf[mt]
				switch shift {
				case "seq":
					seqNr = uint32(k + 1)
				case "time":
					dts += tsOf[mt] / 2
				}
				t.segs = append(t.segs, patchTimes(a.segs[k%len(a.segs)], seqNr, dts, fmt.Sprintf("%s/%s/%d", ch, name, k)))
			}
			sc.tracks = append(sc.tracks, t)
		}
		// the number the newest complete segment gets: time/duration, and one more when the times are moved up
		// to the next grid point
		sc.newest[ch] = nRounds - 1
		if shift == "time" {
			sc.newest[ch] = nRounds
		}
	}
	return sc
}

func (sc *scenario) shifted(ch string) bool {
	for _, t := range sc.tracks {
		if t.Ch == ch {
			return t.inexact
		}
	}
	return false
}

// roundsPlan: the sequential order used as reference: per round channel by channel, track by track.
func roundsPlan(sc *scenario, nRounds int) []planStep {
	var plan []planStep
	for k := -1; k < nRounds; k++ {
		for _, t := range sc.tracks {
			plan = append(plan, planStep{t, k})
		}
	}
	return plan
}

func (d *driver) rounds(sc *scenario, nRounds int) error {
	// per channel: the master (video) track last, so that in the sequential tune-in of a shifted channel the
	// other tracks' uploads come before the master segment that starts the channel
	sort.SliceStable(sc.tracks, func(i, j int) bool {
		if sc.tracks[i].Ch != sc.tracks[j].Ch {
			return sc.tracks[i].Ch < sc.tracks[j].Ch
		}
		return sc.tracks[i].Mt != "video" && sc.tracks[j].Mt == "video"
	})
	if err := d.headerPlans(sc, tr.E{"rounds": nRounds}, []namedPlan{{"seq", true, roundsPlan(sc, nRounds)}}); err != nil {
		return err
	}
	r, err := newRun(sc, d.root, d.w)
	if err != nil {
		return err
	}
	defer r.close()
	nOK := int64(0)
	for k := -1; k < nRounds; k++ {
		res := make([]upRes, len(sc.tracks))
		var wg sync.WaitGroup
		startCh := make(chan struct{})
		for i, t := range sc.tracks {
			if k >= 0 && k < 2 && sc.shifted(t.Ch) {
				// tune-in of a channel that will be shifted: one upload after the other (the transition itself
				// is the subject of the start scenarios); the other channels upload concurrently
				continue
			}
			wg.Add(1)
			go func() {
				defer wg.Done()
				<-startCh
				res[i] = r.upload(t, k)
			}()
		}
		wg.Add(1)
		go func() {
			defer wg.Done()
			<-startCh
			if k >= 0 && k < 2 {
				for i, t := range sc.tracks {
					if sc.shifted(t.Ch) {
						res[i] = r.upload(t, k)
					}
				}
			}
		}()
		close(startCh)
		wg.Wait()
		for _, u := range res {
			r.emitUp(u)
			if k >= 0 && u.status == 200 {
				nOK++
			}
		}
		if k < 0 {
			continue
		}
		q := r.quiesce(nOK)
		// per-round look at the MPDs of every channel
		for _, ch := range sc.chans {
			ids, hasmpd := r.manifestIDs(ch)
			hastl, tl := r.timeline(ch)
			newest := k
			if sc.newest[ch] == nRounds {
				newest = k + 1
			}
			d.w.Emit(tr.E{"ev": "mpdcheck", "ch": ch, "round": k, "quiesced": q, "hasmpd": hasmpd, "ids": ids, "hastl": hastl, "tl": tl,
				"own": sc.own(ch), "needmpd": k >= 1, "needtl": k >= 2, "newest": newest})
		}
	}
	d.footer(r, nOK, "na")
	return nil
}

// ---------------------------------------------------------------------------------------------- burst

// burstScenario: one or two channels with many tracks that fall into few AdaptationSets (several video tracks,
// several audio tracks of one language, text tracks), channel-unique track names.
func (d *driver) burstScenario(seed int64, idx int) *scenario {
	rng := rand.New(rand.NewSource(seed*15485863 + int64(idx)))
	sc := &scenario{kind: "burst", auth: []string{"none", "default"}[rng.Intn(2)], repcfg: rng.Intn(3) == 0,
		clHeader: rng.Intn(2) == 0, newest: map[string]int{}}
	nch := 1 + rng.Intn(2)
	for c := 0; c < nch; c++ {
		ch := fmt.Sprintf("bch%d", c+1)
		sc.chans = append(sc.chans, ch)
		sc.newest[ch] = 2
		nv, na, nt := 2+rng.Intn(3), 1+rng.Intn(3), rng.Intn(3)
		if nch == 2 {
			nv, na, nt = 2+rng.Intn(2), 1+rng.Intn(2), rng.Intn(2)
		}
		for i := 0; i < nv; i++ {
			sc.tracks = append(sc.tracks, mkTrack(d.assets, ch, fmt.Sprintf("%s_v%d", ch, i+1), "video", ""))
		}
		for i := 0; i < na; i++ {
			sc.tracks = append(sc.tracks, mkTrack(d.assets, ch, fmt.Sprintf("%s_a%d", ch, i+1), "audio", "swe"))
		}
		for i := 0; i < nt; i++ {
			sc.tracks = append(sc.tracks, mkTrack(d.assets, ch, fmt.Sprintf("%s_s%d", ch, i+1), "text", ""))
		}
	}
	rng.Shuffle(len(sc.tracks), func(i, j int) { sc.tracks[i], sc.tracks[j] = sc.tracks[j], sc.tracks[i] })
	return sc
}

// burst: the state of the explorer in which ALL handlers stand at the same label: every first upload is held at
// the gate `gate` (add: between the GetChannel miss and AddChannel; reg: before the registration of the track in
// the channel and its MPD), then all are released at once; the first media uploads are held at trdatas_r likewise.
func (d *driver) burst(sc *scenario, gate string, rep int) error {
	sc.variant = gate
	if err := d.header(sc, tr.E{"gate": gate, "rep": rep}); err != nil {
		return err
	}
	r, err := newRun(sc, d.root, d.w)
	if err != nil {
		return err
	}
	defer r.close()
	e := &engine{r: r, hs: map[string]*hstate{}}
	for _, t := range sc.tracks {
		e.hs[t.Tr] = &hstate{t: t, settle: make(chan string, 8)}
	}
	curEngine.Store(e)
	agree := "na"
	phase := func(k int, g string) {
		for _, t := range sc.tracks {
			e.start(e.hs[t.Tr], k, g)
		}
		held := []*hstate{}
		for _, t := range sc.tracks {
			h := e.hs[t.Tr]
			select {
			case at := <-h.settle:
				if at != "done" {
					held = append(held, h)
				}
			case <-time.After(15 * time.Second):
				agree = "aborted: upload neither finished nor reached gate " + g
			}
		}
		for _, h := range held {
			app.VerifReleaseGate(g + ":" + h.t.Tr)
		}
		for _, h := range held {
			<-h.settle
		}
		e.wg.Wait()
		for _, t := range sc.tracks {
			app.VerifReleaseGate(g + ":" + t.Tr) // disarm gates that were not reached
		}
	}
	phase(-1, gate)
	phase(0, "trdatas_r")
	curEngine.Store(nil)
	nOK := int64(0)
	for _, t := range sc.tracks {
		for _, u := range e.hs[t.Tr].res {
			r.emitUp(u)
			if u.k >= 0 && u.status == 200 {
				nOK++
			}
		}
	}
	for k := 1; k < 3; k++ {
		res := make([]upRes, len(sc.tracks))
		var wg sync.WaitGroup
		for i, t := range sc.tracks {
			wg.Add(1)
			go func() {
				defer wg.Done()
				res[i] = r.upload(t, k)
			}()
		}
		wg.Wait()
		for _, u := range res {
			r.emitUp(u)
			if u.status == 200 {
				nOK++
			}
		}
	}
	d.footer(r, nOK, agree)
	return nil
}

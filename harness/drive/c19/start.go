package c19

// Scenario kinds added for the channel START transition and for channels that share one storage directory:
//
//	start     (R) behaviours of spec/ReceiverConcStart (snap / body / start steps) forced on a channel that WILL be
//	          shifted (the repository's zero_3.84s and awsMediaLiveScte35 test data): `snap` starts an upload of a
//	          non-master track whose request body is gated (the handler has accepted the request and taken its view
//	          of the channel, the body has not arrived), `start` uploads the master segment that starts the channel
//	          and waits until the channel goroutine reports it started, `body` lets the gated body arrive.
//	startconc (V) the same transition with plain goroutines (all uploads of the starting number at once).
//	rounds    (V) 2..4 channels in ONE storage directory, channel-unique track names, every segment number uploaded
//	          to all tracks of all channels at the same moment for many rounds; after every round each channel's
//	          manifest.mpd / manifest_timeline_nr.mpd are looked at (`mpdcheck`).
//
// The references of start / startconc are the sequential runs for every subset of the non-master tracks whose
// transition upload comes BEFORE the master's (the outcome legitimately depends on that subset only).

import (
	"bytes"
	"encoding/binary"
	"encoding/json"
	"fmt"
	"io"
	"math/rand"
	"os"
	"path/filepath"
	"sort"
	"sync"
	"sync/atomic"
	"time"

	app "github.com/Dash-Industry-Forum/livesim2/cmd/cmaf-ingest-receiver/app"
	"github.com/Eyevinn/mp4ff/mp4"

	"verifharness/tr"
)

// gatedBody: the first Read reports that the handler has started to read the body and waits for release.
type gatedBody struct {
	r       io.Reader
	once    sync.Once
	reached chan struct{}
	release chan struct{}
}

func (b *gatedBody) Read(p []byte) (int, error) {
	b.once.Do(func() {
		close(b.reached)
		<-b.release
	})
	return b.r.Read(p)
}
func (b *gatedBody) Close() error { return nil }

type sgenLine struct {
	Steps [][2]string       `json:"steps"`
	Used  map[string]string `json:"used"`
}

// ---------------------------------------------------------------------------------------------- data sets

type startSet struct {
	name   string
	dir    string   // below cmd/cmaf-ingest-receiver/app/testdata
	tracks []string // master video first
	names  []string // file names of the media segments, in order
	trans  int      // index of the master segment that starts the channel
	nPost  int      // segments uploaded after the transition
	initOn string   // "disk": init_org preloaded (media-first); "upload": init segment uploaded first
	initFn string
}

var startSets = []startSet{
	{"zero-audio-text", "zero_3.84s", []string{"video-500Kbps", "audio-nor-128Kbps", "text-nor-0"}, []string{"0", "1", "2", "3"}, 1, 2, "disk", "init_org"},
	{"medialive-startnr0", "awsMediaLiveScte35", []string{"video", "audio", "scte"}, []string{"896605655", "896605656", "896605657", "896605658"}, 2, 1, "upload", "init"},
	{"zero-audio-video", "zero_3.84s", []string{"video-500Kbps", "audio-nor-128Kbps", "video-800Kbps"}, []string{"0", "1", "2", "3"}, 1, 2, "upload", "init_org"},
	{"zero-text-video", "zero_3.84s", []string{"video-500Kbps", "text-nor-1_hearing_impaired", "video-800Kbps"}, []string{"0", "1", "2", "3"}, 1, 2, "disk", "init_org"},
}

var extMt = map[string]string{".cmfv": "video", ".cmfa": "audio", ".cmft": "text", ".cmfm": "meta"}

func (d *driver) loadStartSet(ss startSet) (*scenario, error) {
	base := filepath.Join(d.repo, "cmd/cmaf-ingest-receiver/app/testdata", ss.dir)
	sc := &scenario{kind: "start", chans: []string{ss.dir}, auth: "none", streamURL: true, variant: ss.name}
	for _, name := range ss.tracks {
		files, err := filepath.Glob(filepath.Join(base, name, ss.initFn+".*"))
		if err != nil || len(files) != 1 {
			return nil, fmt.Errorf("test data %s/%s: init segment not found", ss.dir, name)
		}
		ext := filepath.Ext(files[0])
		t := &track{Ch: ss.dir, Tr: name, Mt: extMt[ext], Ext: ext, inexact: true, preload: ss.initOn == "disk"}
		if t.init, err = os.ReadFile(files[0]); err != nil {
			return nil, err
		}
		for _, n := range ss.names {
			data, err := os.ReadFile(filepath.Join(base, name, n+ext))
			if err != nil {
				return nil, err
			}
			t.segs = append(t.segs, data)
		}
		sc.tracks = append(sc.tracks, t)
	}
	return sc, nil
}

// startPlans: one sequential plan per subset of the non-master tracks that upload the transition segment
// before the master does.
func startPlans(sc *scenario, ss startSet) []namedPlan {
	m, others := sc.tracks[0], sc.tracks[1:]
	var plans []namedPlan
	for mask := 0; mask < 1<<len(others); mask++ {
		var plan []planStep
		for _, t := range sc.tracks {
			if !t.preload {
				plan = append(plan, planStep{t, -1})
			}
		}
		for k := 0; k < ss.trans; k++ {
			for _, t := range sc.tracks {
				plan = append(plan, planStep{t, k})
			}
		}
		for i, t := range others {
			if mask&(1<<i) != 0 {
				plan = append(plan, planStep{t, ss.trans})
			}
		}
		plan = append(plan, planStep{m, ss.trans})
		for i, t := range others {
			if mask&(1<<i) == 0 {
				plan = append(plan, planStep{t, ss.trans})
			}
		}
		for k := ss.trans + 1; k <= ss.trans+ss.nPost; k++ {
			for _, t := range sc.tracks {
				plan = append(plan, planStep{t, k})
			}
		}
		plans = append(plans, namedPlan{fmt.Sprintf("before%d", mask), false, plan})
	}
	return plans
}

func (r *run) waitStarted(ch string) bool {
	deadline := time.Now().Add(15 * time.Second)
	for {
		if _, ok := r.started.Load(ch); ok {
			return true
		}
		if time.Now().After(deadline) {
			return false
		}
		time.Sleep(200 * time.Microsecond)
	}
}

type inflight struct {
	body *gatedBody
	done chan upRes
}

// start runs one behaviour of ReceiverConcStart (g != nil) or the transition with plain goroutines (g == nil).
func (d *driver) start(ss startSet, g *sgenLine) error {
	sc, err := d.loadStartSet(ss)
	if err != nil {
		return err
	}
	extra := tr.E{}
	if g == nil {
		sc.kind = "startconc"
	} else {
		sj, _ := json.Marshal(g.Steps)
		extra["steps"] = string(sj)
	}
	if err := d.headerPlans(sc, extra, startPlans(sc, ss)); err != nil {
		return err
	}
	r, err := newRun(sc, d.root, d.w)
	if err != nil {
		return err
	}
	defer r.close()
	nOK := int64(0)
	seq := func(t *track, k int) {
		u := r.upload(t, k)
		r.emitUp(u)
		if k >= 0 && u.status == 200 {
			nOK++
			r.quiesce(nOK)
		}
	}
	for _, t := range sc.tracks {
		if !t.preload {
			seq(t, -1)
		}
	}
	for k := 0; k < ss.trans; k++ {
		for _, t := range sc.tracks {
			seq(t, k)
		}
	}
	m, others := sc.tracks[0], sc.tracks[1:]
	agree := "na"
	if g == nil {
		res := make([]upRes, len(sc.tracks))
		var wg sync.WaitGroup
		startCh := make(chan struct{})
		for i, t := range sc.tracks {
			wg.Add(1)
			go func() {
				defer wg.Done()
				<-startCh
				res[i] = r.upload(t, ss.trans)
			}()
		}
		close(startCh)
		wg.Wait()
		for _, u := range res {
			r.emitUp(u)
			if u.status == 200 {
				nOK++
			}
		}
		r.quiesce(nOK)
	} else {
		byName := map[string]*track{}
		for i, t := range others {
			byName[fmt.Sprintf("u%d", i+1)] = t
		}
		fl := map[string]*inflight{}
		var results []upRes
		for _, s := range g.Steps {
			switch s[1] {
			case "start":
				u := r.upload(m, ss.trans)
				results = append(results, u)
				if u.status == 200 {
					nOK++
				}
				if !r.waitStarted(sc.chans[0]) {
					agree = "aborted: channel did not start with the master's transition segment"
				}
			case "snap":
				t := byName[s[0]]
				if t == nil {
					continue
				}
				f := &inflight{body: &gatedBody{reached: make(chan struct{}), release: make(chan struct{})}, done: make(chan upRes, 1)}
				fl[s[0]] = f
				go func() {
					f.done <- r.uploadBody(t, ss.trans, func(rd io.Reader) io.ReadCloser { f.body.r = rd; return f.body })
				}()
				select {
				case <-f.body.reached:
				case u := <-f.done: // answered without reading the body
					f.done <- u
				case <-time.After(15 * time.Second):
					agree = "aborted: gated upload did not reach its body"
				}
			case "body":
				f := fl[s[0]]
				if f == nil {
					continue
				}
				close(f.body.release)
				u := <-f.done
				results = append(results, u)
				if u.status == 200 {
					nOK++
				}
			}
		}
		for _, u := range results {
			r.emitUp(u)
		}
		r.quiesce(nOK)
		if agree == "na" {
			// explorer fidelity: an upload whose view was taken before the start is stored under its incoming number
			agree = "yes"
			for _, u := range results {
				if u.t == m || u.status != 200 {
					continue
				}
				pm, _, _ := findBox(u.t.segs[ss.trans], "moof", "mfhd")
				in := binary.BigEndian.Uint32(u.t.segs[ss.trans][pm+12 : pm+16])
				got := "shifted"
				if u.file == fmt.Sprintf("%d%s", in, u.t.Ext) {
					got = "unshifted"
				}
				for name, t := range byName {
					if t == u.t && g.Used[name] != got {
						agree = fmt.Sprintf("no: model %s %s, code %s (%s)", name, g.Used[name], got, u.file)
					}
				}
			}
		}
	}
	for k := ss.trans + 1; k <= ss.trans+ss.nPost; k++ {
		for _, t := range sc.tracks {
			seq(t, k)
		}
	}
	d.footer(r, nOK, agree)
	return nil
}

// ---------------------------------------------------------------------------------------------- rounds

// patchTimes sets mfhd.sequence_number and tfdt.baseMediaDecodeTime of a media segment (raw bytes).
func patchTimes(raw []byte, seq uint32, dts uint64, tag string) []byte {
	out := prepSeg(raw, seq, tag)
	p, _, ok := findBox(out, "moof", "traf", "tfdt")
	if !ok {
		panic("no tfdt in media segment")
	}
	if out[p+8] == 1 {
		binary.BigEndian.PutUint64(out[p+12:p+20], dts)
	} else {
		binary.BigEndian.PutUint32(out[p+12:p+16], uint32(dts))
	}
	return out
}

var tsOf = map[string]uint64{"video": 90000, "audio": 48000, "text": 1000}

// roundsScenario: nch channels below one storage directory; channel i has 1..2 tracks with channel-unique names.
// shift class of a channel: "none" (number = time/duration), "seq" (incoming numbers are one too high: the
// receiver detects masterSeqNrShift = -1), "time" (times are half a second off the grid: masterTimeShift # 0).
func (d *driver) roundsScenario(seed int64, idx int, nRounds int) *scenario {
	rng := rand.New(rand.NewSource(seed*104729 + int64(idx)))
	nch := 2 + rng.Intn(3)
	sc := &scenario{kind: "rounds", auth: "none", clHeader: rng.Intn(2) == 0, newest: map[string]int{}, variant: fmt.Sprintf("r%d", nRounds)}
	for c := 0; c < nch; c++ {
		ch := fmt.Sprintf("chan%d", c+1)
		sc.chans = append(sc.chans, ch)
		shift := []string{"none", "none", "seq", "time"}[rng.Intn(4)]
		sc.variant += "-" + shift
		mts := []string{"video"}
		if rng.Intn(2) == 0 {
			mts = append(mts, []string{"audio", "text"}[rng.Intn(2)])
		}
		for i, mt := range mts {
			a := d.assets[mt]
			name := fmt.Sprintf("%s_%s%d", ch, mt[:1], i+1)
			t := &track{Ch: ch, Tr: name, Mt: mt, Ext: a.ext, init: prepInit(a.init, ""), inexact: shift != "none"}
			for k := 0; k < nRounds; k++ {
				seqNr, dts := uint32(k), uint64(k)*2*tsOf[mt]
				switch shift {
				case "seq":
					seqNr = uint32(k + 1)
				case "time":
					dts += tsOf[mt] / 2
				}
				t.segs = append(t.segs, patchTimes(a.segs[k%len(a.segs)], seqNr, dts, fmt.Sprintf("%s/%s/%d", ch, name, k)))
			}
			sc.tracks = append(sc.tracks, t)
		}
		// the number the newest complete segment gets: time/duration, and one more when the times are moved up
		// to the next grid point
		sc.newest[ch] = nRounds - 1
		if shift == "time" {
			sc.newest[ch] = nRounds
		}
	}
	return sc
}

func (sc *scenario) shifted(ch string) bool {
	for _, t := range sc.tracks {
		if t.Ch == ch {
			return t.inexact
		}
	}
	return false
}

// roundsPlan: the sequential order used as reference: per round channel by channel, track by track.
func roundsPlan(sc *scenario, nRounds int) []planStep {
	var plan []planStep
	for k := -1; k < nRounds; k++ {
		for _, t := range sc.tracks {
			plan = append(plan, planStep{t, k})
		}
	}
	return plan
}

func (d *driver) rounds(sc *scenario, nRounds int) error {
	// per channel: the master (video) track last, so that in the sequential tune-in of a shifted channel the
	// other tracks' uploads come before the master segment that starts the channel
	sort.SliceStable(sc.tracks, func(i, j int) bool {
		if sc.tracks[i].Ch != sc.tracks[j].Ch {
			return sc.tracks[i].Ch < sc.tracks[j].Ch
		}
		return sc.tracks[i].Mt != "video" && sc.tracks[j].Mt == "video"
	})
	if err := d.headerPlans(sc, tr.E{"rounds": nRounds}, []namedPlan{{"seq", true, roundsPlan(sc, nRounds)}}); err != nil {
		return err
	}
	r, err := newRun(sc, d.root, d.w)
	if err != nil {
		return err
	}
	defer r.close()
	nOK := int64(0)
	for k := -1; k < nRounds; k++ {
		res := make([]upRes, len(sc.tracks))
		var wg sync.WaitGroup
		startCh := make(chan struct{})
		for i, t := range sc.tracks {
			if k >= 0 && k < 2 && sc.shifted(t.Ch) {
				// tune-in of a channel that will be shifted: one upload after the other (the transition itself
				// is the subject of the start scenarios); the other channels upload concurrently
				continue
			}
			wg.Add(1)
			go func() {
				defer wg.Done()
				<-startCh
				res[i] = r.upload(t, k)
			}()
		}
		wg.Add(1)
		go func() {
			defer wg.Done()
			<-startCh
			if k >= 0 && k < 2 {
				for i, t := range sc.tracks {
					if sc.shifted(t.Ch) {
						res[i] = r.upload(t, k)
					}
				}
			}
		}()
		close(startCh)
		wg.Wait()
		for _, u := range res {
			r.emitUp(u)
			if k >= 0 && u.status == 200 {
				nOK++
			}
		}
		if k < 0 {
			continue
		}
		q := r.quiesce(nOK)
		// per-round look at the MPDs of every channel
		for _, ch := range sc.chans {
			ids, hasmpd := r.manifestIDs(ch)
			hastl, tl := r.timeline(ch)
			newest := k
			if sc.newest[ch] == nRounds {
				newest = k + 1
			}
			d.w.Emit(tr.E{"ev": "mpdcheck", "ch": ch, "round": k, "quiesced": q, "hasmpd": hasmpd, "ids": ids, "hastl": hastl, "tl": tl,
				"own": sc.own(ch), "needmpd": k >= 1, "needtl": k >= 2, "newest": newest})
		}
	}
	d.footer(r, nOK, "na")
	return nil
}

// ---------------------------------------------------------------------------------------------- burst

// chunkify re-packs a one-fragment media segment into n fragments (chunks) of the same segment.
func chunkify(initRaw, segRaw []byte, n int) ([]byte, error) {
	fi, err := mp4.DecodeFile(bytes.NewReader(initRaw))
	if err != nil || fi.Init == nil || fi.Init.Moov.Mvex == nil {
		return nil, fmt.Errorf("chunkify: init: %v", err)
	}
	fm, err := mp4.DecodeFile(bytes.NewReader(segRaw))
	if err != nil || len(fm.Segments) != 1 || len(fm.Segments[0].Fragments) != 1 {
		return nil, fmt.Errorf("chunkify: media: %v", err)
	}
	frag := fm.Segments[0].Fragments[0]
	samples, err := frag.GetFullSamples(fi.Init.Moov.Mvex.Trex)
	if err != nil {
		return nil, err
	}
	if n > len(samples) {
		n = len(samples)
	}
	seg := mp4.NewMediaSegment()
	for c := 0; c < n; c++ {
		fr, err := mp4.CreateFragment(frag.Moof.Mfhd.SequenceNumber, frag.Moof.Traf.Tfhd.TrackID)
		if err != nil {
			return nil, err
		}
		for i := c * len(samples) / n; i < (c+1)*len(samples)/n; i++ {
			fr.AddFullSample(samples[i])
		}
		seg.AddFragment(fr)
	}
	var buf bytes.Buffer
	if err := seg.Encode(&buf); err != nil {
		return nil, err
	}
	return buf.Bytes(), nil
}

// mkTrackN: like mkTrack with nseg segments, incoming numbers k + startNr, and `chunks` fragments per segment.
func mkTrackN(assets map[string]*asset, ch, name, mt, lang string, nseg, startNr, chunks int) *track {
	a := assets[mt]
	// with a configured startNr the receiver stores the segment under (and with) the outgoing number: re-encoded
	t := &track{Ch: ch, Tr: name, Mt: mt, Ext: a.ext, Lang: lang, init: prepInit(a.init, lang), inexact: startNr != 0}
	for k := 0; k < nseg; k++ {
		raw := patchTimes(a.segs[k%len(a.segs)], uint32(k+startNr), uint64(k)*2*tsOf[mt], fmt.Sprintf("%s/%s/%d", ch, name, k))
		if chunks > 1 {
			c, err := chunkify(t.init, raw, chunks)
			if err != nil {
				panic(err)
			}
			raw = c
		}
		t.segs = append(t.segs, raw)
	}
	return t
}

// burstScenario: one or two CONFIGURED channels with many tracks that fall into few AdaptationSets (several video
// tracks, several audio tracks of one language, text tracks), channel-unique track names; credentials (default or
// per channel), startNr 1 (the uploads then carry number k+1), per-representation language / role / label, some
// tracks whose init segment is already on disk (their first upload is a media segment), and "intruder" tracks
// whose uploads carry wrong or no credentials (every sequential order refuses them with 401).
func (d *driver) burstScenario(seed int64, idx int) *scenario {
	rng := rand.New(rand.NewSource(seed*15485863 + int64(idx)))
	sc := &scenario{kind: "burst", auth: []string{"default", "channel", "channel", "none"}[rng.Intn(4)], repcfg: rng.Intn(3) == 0,
		clHeader: rng.Intn(2) == 0, newest: map[string]int{}, startNr: rng.Intn(2), langcfg: rng.Intn(2) == 0}
	if sc.auth != "none" || sc.startNr != 0 || sc.langcfg {
		sc.padcfg = []int{1500, 3000}[rng.Intn(2)]
	}
	if idx%3 == 0 { // always some fully configured ones, in a large configuration
		sc.auth, sc.startNr, sc.langcfg, sc.padcfg = "channel", 1, true, 3000
	}
	nch := 1 + rng.Intn(2)
	for c := 0; c < nch; c++ {
		ch := fmt.Sprintf("bch%d", c+1)
		sc.chans = append(sc.chans, ch)
		sc.newest[ch] = 2
		nv, na, nt := 2+rng.Intn(3), 1+rng.Intn(3), rng.Intn(3)
		if nch == 2 {
			nv, na, nt = 2+rng.Intn(2), 1+rng.Intn(2), rng.Intn(2)
		}
		add := func(name, mt, lang string) *track {
			t := mkTrackN(d.assets, ch, ch+"_"+name, mt, lang, 3, sc.startNr, 1)
			t.preload = rng.Intn(4) == 0 || (idx%3 == 0 && rng.Intn(3) != 0)
			sc.tracks = append(sc.tracks, t)
			return t
		}
		for i := 0; i < nv; i++ {
			add(fmt.Sprintf("v%d", i+1), "video", "")
		}
		for i := 0; i < na; i++ {
			add(fmt.Sprintf("a%d", i+1), "audio", "swe")
		}
		for i := 0; i < nt; i++ {
			add(fmt.Sprintf("s%d", i+1), "text", "")
		}
		if sc.auth != "none" {
			for i, cred := range []string{"wrong", "none"} {
				t := add(fmt.Sprintf("x%d", i+1), []string{"video", "audio"}[i], "")
				t.cred = cred
			}
		}
	}
	rng.Shuffle(len(sc.tracks), func(i, j int) { sc.tracks[i], sc.tracks[j] = sc.tracks[j], sc.tracks[i] })
	return sc
}

// liveScenario: one channel with 8..12 tracks whose segments come in several chunks.
func (d *driver) liveScenario(seed int64, idx int, nRounds int) *scenario {
	rng := rand.New(rand.NewSource(seed*32452843 + int64(idx)))
	sc := &scenario{kind: "live", auth: "none", clHeader: rng.Intn(2) == 0, newest: map[string]int{"lch": nRounds - 1}, chans: []string{"lch"},
		variant: fmt.Sprintf("r%d", nRounds)}
	n := 8 + rng.Intn(5)
	chunks := 2 + rng.Intn(3)
	for i := 0; i < n; i++ {
		mt := "video"
		if i > 0 && rng.Intn(2) == 0 {
			mt = "audio"
		}
		sc.tracks = append(sc.tracks, mkTrackN(d.assets, "lch", fmt.Sprintf("l%s%d", mt[:1], i+1), mt, "", nRounds, 0, chunks))
	}
	sc.variant += fmt.Sprintf("-n%d-c%d", n, chunks)
	return sc
}

// burst: the state of the explorer in which ALL handlers stand at the same label: every first upload is held at
// the gate `gate` (add: between the GetChannel miss and AddChannel; reg: before the registration of the track in
// the channel and its MPD), then all are released at once; the first media uploads are held at trdatas_r likewise.
func (d *driver) burst(sc *scenario, gate string, rep int) error {
	if sc.kind == "burst" {
		sc.variant = gate
	}
	nseg := 0
	for _, t := range sc.tracks {
		nseg = max(nseg, len(t.segs))
	}
	if err := d.header(sc, tr.E{"gate": gate, "rep": rep}); err != nil {
		return err
	}
	r, err := newRun(sc, d.root, d.w)
	if err != nil {
		return err
	}
	defer r.close()
	e := &engine{r: r, hs: map[string]*hstate{}}
	for _, t := range sc.tracks {
		e.hs[t.Tr] = &hstate{t: t, settle: make(chan string, 8)}
	}
	curEngine.Store(e)
	agree := "na"
	intruder := func(t *track) bool { return t.cred != "" && sc.auth != "none" }
	var intrRes []upRes
	var intrMu sync.Mutex
	// phase: the uploads `what` (track -> segment index, -2 = none) are started with gate g armed; when every one of
	// them stands at the gate (or has been answered) all are released at once.
	phase := func(what func(t *track) int, gateOf func(t *track) string) {
		if r.dead.Load() {
			return
		}
		var in []*track
		for _, t := range sc.tracks {
			k := what(t)
			if k == -2 || intruder(t) {
				continue
			}
			in = append(in, t)
			e.start(e.hs[t.Tr], k, gateOf(t))
		}
		held := []*hstate{}
		for _, t := range in {
			h := e.hs[t.Tr]
			select {
			case at := <-h.settle:
				if at != "done" {
					held = append(held, h)
				}
			case <-time.After(answerBound + 5*time.Second):
				agree = "aborted: upload neither finished nor reached its gate"
			}
		}
		// uploads with wrong / no credentials are not gate-controlled (they are refused before the first gate when
		// the channel does not exist yet): each intruder repeats its upload while the held handlers are released
		var iwg sync.WaitGroup
		var stop atomic.Bool
		for _, t := range sc.tracks {
			if k := what(t); k != -2 && intruder(t) {
				iwg.Add(1)
				go func() {
					defer iwg.Done()
					for i := 0; i < 1500 && (i < 20 || !stop.Load()); i++ {
						u := r.upload(t, k)
						if i < 2 || u.status != 401 { // the trace keeps the first answers and every unexpected one
							intrMu.Lock()
							intrRes = append(intrRes, u)
							intrMu.Unlock()
						}
					}
				}()
			}
		}
		for i, h := range held {
			app.VerifReleaseGate(gateOf(h.t) + ":" + h.t.Tr)
			if sc.kind == "live" && i%3 == 2 {
				time.Sleep(200 * time.Microsecond) // staggered release
			}
		}
		for _, h := range held {
			select {
			case <-h.settle:
			case <-time.After(answerBound + 5*time.Second):
			}
		}
		e.wg.Wait()
		stop.Store(true)
		iwg.Wait()
		for _, t := range sc.tracks {
			app.VerifReleaseGate(gateOf(t) + ":" + t.Tr) // disarm gates that were not reached
		}
	}
	// first uploads: the init segment, or media segment 0 for a track whose init segment is on disk. A media-first
	// upload is held at `add` only (the registration from disk runs inside the stream table's critical section).
	phase(func(t *track) int {
		if t.preload {
			return 0
		}
		return -1
	}, func(t *track) string {
		if t.preload {
			return "add"
		}
		return gate
	})
	if sc.kind == "live" {
		// every round: all handlers held inside the chunk callback (before the track table lookup), released staggered
		for k := 0; k < nseg; k++ {
			phase(func(*track) int { return k }, func(*track) string { return "trdatas_r" })
		}
	} else {
		phase(func(t *track) int {
			if t.preload {
				return -2
			}
			return 0
		}, func(*track) string { return "trdatas_r" })
	}
	for _, u := range intrRes {
		r.emitUp(u)
	}
	curEngine.Store(nil)
	nOK := int64(0)
	for _, t := range sc.tracks {
		e.hs[t.Tr].mu.Lock()
		for _, u := range e.hs[t.Tr].res {
			r.emitUp(u)
			if u.k >= 0 && u.status == 200 {
				nOK++
			}
		}
		e.hs[t.Tr].mu.Unlock()
	}
	for k := 1; k < nseg && sc.kind != "live"; k++ {
		res := make([]upRes, len(sc.tracks))
		var wg sync.WaitGroup
		for i, t := range sc.tracks {
			wg.Add(1)
			go func() {
				defer wg.Done()
				res[i] = r.upload(t, k)
			}()
		}
		wg.Wait()
		for _, u := range res {
			r.emitUp(u)
			if u.status == 200 {
				nOK++
			}
		}
	}
	d.footer(r, nOK, agree)
	return nil
}

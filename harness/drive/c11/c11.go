// Package c11 drives the real pkg/patch (MPDDiff) and the real HTTP patch handler and records, per pair of MPDs,
// the old tree, the tokenised patch operations and the new tree (spec/trace/Patch_Trace.tla decides).
package c11

import (
	"bufio"
	"crypto/sha1"
	"encoding/hex"
	"encoding/json"
	"errors"
	"flag"
	"fmt"
	"math/rand"
	"os"
	"path/filepath"
	"runtime"
	"strings"
	"time"

	"github.com/Dash-Industry-Forum/livesim2/pkg/patch"

	"verifharness/tr"
)

// marginS is the tolerance the oracle grants beyond the time-to-live before 410 is demanded (a constant of the
// check, logged in every event; the property text does not fix it).
const marginS = 10

type genLine struct {
	Cls string `json:"cls"`
	Old *Node  `json:"old"`
	New *Node  `json:"new"`
}

type stats struct {
	scenarios, events       int
	distinct                map[string]bool
	byCls, byStatus, opKind map[string]int
	panics, errors5xx       int
	unsupported             []string
	samples                 []map[string]any
	maxNodes                int
	changedSamePT           int
	baseDiffers             int
	locNotPT                int
	skipped                 map[string]int
}

func newStats() *stats {
	return &stats{samples: []map[string]any{}, unsupported: []string{}, distinct: map[string]bool{}, byCls: map[string]int{}, byStatus: map[string]int{}, opKind: map[string]int{},
		skipped: map[string]int{}}
}

type pairEvent struct {
	src, cls, desc string
	old, new       *Node
	status         int
	err, site      string
	panicked       bool
	pd             *PatchDoc
	ttl            int
	dt, dpt        int64
	extra          map[string]any
}

func clamp31(v int64) int64 {
	const lim = 1 << 30
	if v > lim {
		return lim
	}
	if v < -lim {
		return -lim
	}
	return v
}

func emitPair(w *tr.W, st *stats, p *pairEvent) {
	ops := []Op{}
	hdr := map[string]string{"mpdId": "", "opt": "", "pt": ""}
	if p.pd != nil {
		ops = p.pd.Ops
		hdr = map[string]string{"mpdId": p.pd.MpdId, "opt": p.pd.OrigPT, "pt": p.pd.PT}
		st.unsupported = append(st.unsupported, p.pd.Unsupported...)
		for _, o := range ops {
			k := o.Op
			switch {
			case o.Attr != "":
				k += "_attr"
			case o.Op == "add":
				k += "_" + map[string]string{"": "append"}[o.Pos] + o.Pos
			default:
				k += "_elem"
			}
			st.opKind[k]++
		}
	}
	same := p.old.equal(p.new)
	if !same && p.dpt == 0 {
		st.changedSamePT++
	}
	e := tr.E{"ev": "pair", "src": p.src, "cls": p.cls, "desc": p.desc, "old": p.old, "new": p.new,
		"status": p.status, "err": p.err, "site": p.site, "panic": p.panicked, "ops": ops, "hdr": hdr,
		"ttl": p.ttl, "margin": marginS, "dt": clamp31(p.dt), "dpt": clamp31(p.dpt), "nops": len(ops)}
	for k, v := range p.extra {
		e[k] = v
	}
	w.Emit(e)
	st.scenarios++
	st.events++
	st.byCls[p.src+"/"+p.cls]++
	st.byStatus[fmt.Sprint(p.status)]++
	if p.panicked {
		st.panics++
	}
	if n := p.old.size() + p.new.size(); n > st.maxNodes {
		st.maxNodes = n
	}
	h := sha1.New()
	_ = json.NewEncoder(h).Encode([]any{p.old, p.new, p.status})
	st.distinct[hex.EncodeToString(h.Sum(nil)[:8])] = true
	if len(st.samples) < 6 && (len(ops) > 2 || p.panicked) && (st.byCls[p.src+"/"+p.cls] == 1) {
		sels := []string{}
		for _, o := range ops {
			sels = append(sels, o.Op+" "+o.Raw+" "+o.Pos)
		}
		st.samples = append(st.samples, map[string]any{"src": p.src, "cls": p.cls, "desc": p.desc, "status": p.status, "ops": sels, "site": p.site})
	}
}

// panicSite names the innermost frame inside pkg/patch of the panicking goroutine.
func panicSite() string {
	pcs := make([]uintptr, 64)
	n := runtime.Callers(3, pcs)
	frames := runtime.CallersFrames(pcs[:n])
	for {
		f, more := frames.Next()
		if strings.Contains(f.Function, "livesim2/pkg/patch.") {
			fn := f.Function[strings.LastIndex(f.Function, ".")+1:]
			return filepath.Base(f.File) + ":" + fn
		}
		if !more {
			break
		}
	}
	return "(outside pkg/patch)"
}

// callDiff runs the real patch.MPDDiff; a panic is recovered and reported with its site.
func callDiff(oldX, newX []byte) (out []byte, status int, errStr string, panicked bool, site string) {
	defer func() {
		if r := recover(); r != nil {
			panicked, site, status = true, panicSite(), 500
			errStr = fmt.Sprint(r)
		}
	}()
	doc, _, err := patch.MPDDiff(oldX, newX)
	switch {
	case errors.Is(err, patch.ErrPatchSamePublishTime):
		return nil, 425, err.Error(), false, ""
	case errors.Is(err, patch.ErrPatchTooLate):
		return nil, 410, err.Error(), false, ""
	case err != nil:
		return nil, 500, err.Error(), false, ""
	}
	doc.Indent(2)
	b, err := doc.WriteToBytes()
	if err != nil {
		return nil, 500, "WriteToBytes: " + err.Error(), false, ""
	}
	return b, 200, "", false, ""
}

func ptOf(n *Node) (time.Time, error) {
	return time.Parse(time.RFC3339, n.Attrs["publishTime"])
}

func ttlOf(n *Node) int {
	if pl := n.kid("PatchLocation"); pl != nil {
		var v float64
		if _, err := fmt.Sscanf(pl.Attrs["ttl"], "%g", &v); err == nil {
			return int(v)
		}
	}
	return -1
}

// withNS adds the namespace declarations every served MPD carries (same on both sides).
func withNS(n *Node) *Node {
	c := n.clone()
	c.Attrs["xmlns"] = "urn:mpeg:dash:schema:mpd:2011"
	c.Attrs["xmlns:xsi"] = "http://www.w3.org/2001/XMLSchema-instance"
	return c
}

// diffPair renders both trees, gives the bytes to the real MPDDiff and records what came back.
func diffPair(w *tr.W, st *stats, src, cls, desc string, oldT, newT *Node, rng *rand.Rand) error {
	oldT, newT = withNS(oldT), withNS(newT)
	oldX, newX := renderXML(oldT, rng), renderXML(newT, rng)
	oldP, err := parseXML(oldX)
	if err != nil {
		return fmt.Errorf("recorder cannot parse its own rendering: %w", err)
	}
	newP, err := parseXML(newX)
	if err != nil {
		return fmt.Errorf("recorder cannot parse its own rendering: %w", err)
	}
	if !oldP.equal(oldT) || !newP.equal(newT) {
		return fmt.Errorf("render/parse round trip changed the tree (%s %s)", cls, desc)
	}
	pt1, e1 := ptOf(oldP)
	pt2, e2 := ptOf(newP)
	if e1 != nil || e2 != nil {
		return fmt.Errorf("generated MPD without publishTime")
	}
	out, status, errStr, panicked, site := callDiff(oldX, newX)
	p := &pairEvent{src: src, cls: cls, desc: desc, old: oldP, new: newP, status: status, err: errStr, site: site,
		panicked: panicked, ttl: ttlOf(oldP), dt: pt2.Sub(pt1).Milliseconds(), dpt: pt2.Sub(pt1).Milliseconds()}
	if status == 200 {
		pd, err := parsePatch(out)
		if err != nil {
			return fmt.Errorf("patch document of %s %s: %w\n%s", cls, desc, err, out)
		}
		p.pd = pd
	}
	p.extra = inputFlags(oldP, newP)
	emitPair(w, st, p)
	return nil
}

// inputFlags describes the input class by construction of the input (used to classify findings narrowly).
func inputFlags(a, b *Node) map[string]any {
	return map[string]any{
		"dupScheme":   hasDupScheme(a) || hasDupScheme(b),
		"maxListSkew": maxSkew(a, b),
		"reorder":     hasReorder(a, b),
		"baseDiffers": false,
	}
}

// hasReorder: some element (matched by tag+id path) has id-carrying children present on both sides in a
// different relative order
func hasReorder(a, b *Node) bool {
	key := func(k *Node) (string, bool) {
		id, ok := k.Attrs["id"]
		return k.Tag + "|" + id, ok
	}
	inB := map[string]*Node{}
	for _, k := range b.Kids {
		if s, ok := key(k); ok {
			if _, dup := inB[s]; !dup {
				inB[s] = k
			}
		}
	}
	var la, lb []string
	inA := map[string]bool{}
	for _, k := range a.Kids {
		if s, ok := key(k); ok && inB[s] != nil && !inA[s] {
			inA[s] = true
			la = append(la, s)
		}
	}
	for _, k := range b.Kids {
		if s, ok := key(k); ok && inA[s] {
			lb = append(lb, s)
			delete(inA, s)
		}
	}
	for i := range la {
		if i >= len(lb) || la[i] != lb[i] {
			return true
		}
	}
	for _, k := range a.Kids {
		if s, ok := key(k); ok && inB[s] != nil && hasReorder(k, inB[s]) {
			return true
		}
	}
	return false
}

// hasDupScheme: two id-less siblings with the same tag and the same schemeIdUri
func hasDupScheme(n *Node) bool {
	seen := map[string]bool{}
	for _, k := range n.Kids {
		if _, hasID := k.Attrs["id"]; hasID {
			continue
		}
		if u, ok := k.Attrs["schemeIdUri"]; ok {
			key := k.Tag + "|" + u
			if seen[key] {
				return true
			}
			seen[key] = true
		}
	}
	for _, k := range n.Kids {
		if hasDupScheme(k) {
			return true
		}
	}
	return false
}

// maxSkew: the largest | #children(old) - #children(new) | over elements matched by tag+id path
func maxSkew(a, b *Node) int {
	d := len(a.Kids) - len(b.Kids)
	if d < 0 {
		d = -d
	}
	idx := map[string]*Node{}
	for _, k := range b.Kids {
		key := k.Tag + "|" + k.Attrs["id"]
		if _, dup := idx[key]; !dup {
			idx[key] = k
		}
	}
	for _, k := range a.Kids {
		if o, ok := idx[k.Tag+"|"+k.Attrs["id"]]; ok {
			if s := maxSkew(k, o); s > d {
				d = s
			}
		}
	}
	return d
}

func Main(args []string) error {
	fs := flag.NewFlagSet("c11", flag.ContinueOnError)
	out := fs.String("out", "c11.ndjson", "trace file")
	gen := fs.String("gen", "", "file with one TLC-generated pair per line (JSON)")
	seed := fs.Int64("seed", 1, "seed")
	n := fs.Int("n", 300, "number of seeded pairs")
	live := fs.Int("live", 2, "number of start instants per (asset, configuration); 0 = no live part")
	mode := fs.String("mode", "all", "all | gen | seed | live")
	if err := fs.Parse(args); err != nil {
		return err
	}
	w, err := tr.New(*out)
	if err != nil {
		return err
	}
	st := newStats()
	rng := rand.New(rand.NewSource(*seed))

	if *gen != "" && (*mode == "all" || *mode == "gen") {
		f, err := os.Open(*gen)
		if err != nil {
			return err
		}
		sc := bufio.NewScanner(f)
		sc.Buffer(make([]byte, 1<<20), 1<<26)
		i := 0
		for sc.Scan() {
			line := strings.TrimSpace(sc.Text())
			if line == "" {
				continue
			}
			var g genLine
			if err := json.Unmarshal([]byte(line), &g); err != nil {
				return fmt.Errorf("gen line %d: %w", i, err)
			}
			g.Old.normalize()
			g.New.normalize()
			i++
			// every 7th pair with shuffled attribute order (no meaning in XML)
			var r *rand.Rand
			if i%7 == 0 {
				r = rng
			}
			if err := diffPair(w, st, "gen", g.Cls, fmt.Sprintf("tlc#%d", i), g.Old, g.New, r); err != nil {
				return err
			}
		}
		f.Close()
		if err := sc.Err(); err != nil {
			return err
		}
	}
	if *mode == "all" || *mode == "seed" {
		if err := seeded(w, st, rng, *n); err != nil {
			return err
		}
	}
	if (*mode == "all" || *mode == "live") && *live > 0 {
		if err := runLive(w, st, rng, *live); err != nil {
			return err
		}
	}
	if err := w.Close(); err != nil {
		return err
	}
	tr.PrintStats(map[string]any{"scenarios": st.scenarios, "events": st.events, "distinct": len(st.distinct),
		"samples": st.samples, "by_class": st.byCls, "by_status": st.byStatus, "op_kinds": st.opKind,
		"panics": st.panics, "unsupported_selectors": st.unsupported, "max_nodes_per_event": st.maxNodes,
		"changed_with_same_publishTime": st.changedSamePT, "base_regenerated_differs": st.baseDiffers, "location_not_mpd_publishTime": st.locNotPT, "skipped": st.skipped})
	return nil
}

package c11

import (
	"context"
	"fmt"
	"math/rand"
	"net/http/httptest"
	"net/url"
	"os"
	"path/filepath"
	"strings"

	"github.com/Dash-Industry-Forum/livesim2/cmd/livesim2/app"
	"github.com/Dash-Industry-Forum/livesim2/pkg/logging"

	"verifharness/tr"
)

type liveAsset struct {
	mpd     string // path below the asset root
	segMS   int64  // nominal segment duration (only used to choose interesting instants)
	periods string // a periods_N setting whose period duration is a multiple of the segment duration ("" = none)
}

var liveAssets = []liveAsset{
	{"testpic_2s/Manifest.mpd", 2000, "periods_60"},
	{"testpic_8s/Manifest.mpd", 8000, "periods_90"},
	{"testpic_6s/Manifest.mpd", 6000, "periods_60"},
	{"WAVE/vectors/cfhd_sets/12.5_25_50/t3/2022-10-17/stream.mpd", 2000, "periods_60"},
	{"WAVE/vectors/cfhd_sets/14.985_29.97_59.94/t1/2022-10-17/stream.mpd", 2002, ""},
	{"bbb_hevc_ac3_8s/manifest.mpd", 2000, "periods_60"},
	{"testpic_alt_seg_dur_stl/Manifest.mpd", 6000, ""},
	{"testpic_2s/Manifest_imsc1.mpd", 2000, ""},
	{"testpic_2s/Manifest_thumbs.mpd", 2000, ""},
}

type liveServer struct {
	s *app.Server
}

func newLiveServer() (*liveServer, error) {
	repo := os.Getenv("VERIF_REPO")
	if repo == "" {
		repo = "/repo"
	}
	cfg := app.ServerConfig{VodRoot: filepath.Join(repo, "cmd/livesim2/app/testdata/assets"), TimeoutS: 0, LogFormat: logging.LogDiscard}
	if err := logging.InitSlog(cfg.LogLevel, cfg.LogFormat); err != nil {
		return nil, err
	}
	s, err := app.SetupServer(context.Background(), &cfg)
	if err != nil {
		return nil, err
	}
	return &liveServer{s}, nil
}

func (l *liveServer) get(url string) (status int, body []byte) {
	defer func() {
		if r := recover(); r != nil {
			status, body = 500, []byte(fmt.Sprint("panic: ", r))
		}
	}()
	rr := httptest.NewRecorder()
	req := httptest.NewRequest("GET", url, nil)
	l.s.Router.ServeHTTP(rr, req)
	return rr.Code, rr.Body.Bytes()
}

// one scenario: MPD(t1) -> its PatchLocation requested at t2 -> MPD(t2)
func (l *liveServer) scenario(w *tr.W, st *stats, cls, cfg, mpd string, t1, t2 int64) error {
	mpdURL := "/livesim2/" + cfg + "/" + mpd
	c1, b1 := l.get(fmt.Sprintf("%s?nowMS=%d", mpdURL, t1))
	if c1 != 200 {
		st.skipped[fmt.Sprintf("MPD(t1) status %d: %s", c1, cfg)]++
		return nil
	}
	oldT, err := parseXML(b1)
	if err != nil {
		return fmt.Errorf("MPD(t1) of %s is not XML: %w", mpdURL, err)
	}
	pl := oldT.kid("PatchLocation")
	if pl == nil || oldT.Tag != "MPD" {
		st.skipped["MPD(t1) without PatchLocation: "+cfg]++
		return nil
	}
	c2, b2 := l.get(fmt.Sprintf("%s?nowMS=%d", mpdURL, t2))
	if c2 != 200 {
		st.skipped[fmt.Sprintf("MPD(t2) status %d: %s", c2, cfg)]++
		return nil
	}
	newT, err := parseXML(b2)
	if err != nil {
		return fmt.Errorf("MPD(t2) of %s is not XML: %w", mpdURL, err)
	}
	sep := "?"
	if strings.Contains(pl.Text, "?") {
		sep = "&"
	}
	patchURL := fmt.Sprintf("%s%snowMS=%d", pl.Text, sep, t2)
	cp, bp := l.get(patchURL)
	pt1, e1 := ptOf(oldT)
	pt2, e2 := ptOf(newT)
	if e1 != nil || e2 != nil {
		return fmt.Errorf("served MPD without parsable publishTime: %s", mpdURL)
	}
	p := &pairEvent{src: "live", cls: cls, desc: fmt.Sprintf("%s t1=%d t2=t1+%d", mpdURL, t1, t2-t1), old: oldT, new: newT,
		status: cp, ttl: ttlOf(oldT), dt: t2 - t1, dpt: pt2.Sub(pt1).Milliseconds(),
		extra: map[string]any{"cfg": cfg, "asset": mpd}}
	for k, v := range inputFlags(oldT, newT) {
		p.extra[k] = v
	}
	// what the patch handler uses as base document: the MPD regenerated from the advertised publishTime
	// (same request the handler makes internally: the patch location's own query, on the .mpd path)
	q := ""
	if i := strings.IndexByte(pl.Text, '?'); i >= 0 {
		q = pl.Text[i:]
	}
	// does the advertised location name the MPD's own publishTime? (observation used to classify failures)
	locPT := false
	if vals, err := url.ParseQuery(strings.TrimPrefix(q, "?")); err == nil {
		locPT = vals.Get("publishTime") == oldT.Attrs["publishTime"]
	}
	p.extra["locPT"] = locPT
	if !locPT {
		st.locNotPT++
	}
	cb, bb := l.get(mpdURL + q)
	if baseT, err := parseXML(bb); cb != 200 || err != nil || !baseT.equal(oldT) {
		p.extra["baseDiffers"] = true
		st.baseDiffers++
	}
	switch {
	case cp == 200:
		pd, err := parsePatch(bp)
		if err != nil {
			return fmt.Errorf("patch document %s: %w\n%s", patchURL, err, bp)
		}
		p.pd = pd
	case cp == 425 || cp == 410:
		p.err = strings.TrimSpace(string(bp))
	default:
		// diagnose: the same two documents given to the package directly
		_, _, errStr, panicked, site := callDiff(b1, b2)
		p.err = strings.TrimSpace(string(bp)) + " | MPDDiff(MPD(t1),MPD(t2)): " + errStr
		if len(p.err) > 300 {
			p.err = p.err[:300]
		}
		p.panicked, p.site = panicked, site
	}
	emitPair(w, st, p)
	return nil
}

func runLive(w *tr.W, st *stats, rng *rand.Rand, perCfg int) error {
	l, err := newLiveServer()
	if err != nil {
		return fmt.Errorf("SetupServer: %w", err)
	}
	const hour = 3_600_000
	base := int64(1_700_000_000_000) + int64(rng.Intn(2_000_000))*1000
	base -= base % hour
	for ai, a := range liveAssets {
		for _, ttl := range []int{60, 15} {
			var cfgs []string
			for _, tl := range []string{"segtimeline_1", "segtimelinenr_1"} {
				cfgs = append(cfgs, fmt.Sprintf("patch_%d/%s", ttl, tl))
				if a.periods != "" {
					cfgs = append(cfgs, fmt.Sprintf("patch_%d/%s/%s", ttl, tl, a.periods))
				}
			}
			if a.periods != "" {
				// multi-period with plain $Number$ SegmentTemplate: publishTime is the start of the last Period
				cfgs = append(cfgs, fmt.Sprintf("patch_%d/%s", ttl, a.periods))
				if ttl == 60 {
					cfgs = append(cfgs, fmt.Sprintf("patch_%d/%s/continuous_1/segtimeline_1", ttl, a.periods))
				}
			}
			if ttl == 60 && ai == 0 {
				cfgs = append(cfgs, "patch_60/segtimeline_1/tsbd_6", "patch_60/segtimeline_1/timesubsstpp_en,sv", "patch_60/segtimeline_1/ltgt_3000/chunkdur_0.5",
					"patch_60/segtimeline_1/utc_direct-ntp-sntp", "patch_60/segtimelinenr_1/snr_10")
			}
			for _, cfg := range cfgs {
				for k := 0; k < perCfg; k++ {
					var t1 int64
					switch k % 4 {
					case 0: // arbitrary instant
						t1 = base + int64(rng.Intn(hour))
					case 1: // shortly before a minute (period) boundary
						t1 = base + int64(1+rng.Intn(58))*60_000 - int64(500+rng.Intn(5000))
					case 2: // shortly before the hour boundary (period numbers restart)
						t1 = base + hour - int64(500+rng.Intn(20_000))
					default: // exactly on a segment boundary
						t1 = base + int64(rng.Intn(hour))
						t1 -= t1 % a.segMS
					}
					toNext := a.segMS - t1%a.segMS
					tt := int64(ttl) * 1000
					offs := []int64{1, toNext - 1, toNext, toNext + 1, toNext + a.segMS, toNext + a.segMS + 1, 5*a.segMS + int64(rng.Intn(2000)),
						int64(1000 + rng.Intn(int(tt))), tt - 1000, tt + 1000, tt + marginS*1000 - 1000,
						tt + marginS*1000 + 1000 + a.segMS, 2 * (tt + marginS*1000)}
					for _, o := range offs {
						if o <= 0 {
							continue
						}
						if err := l.scenario(w, st, "matrix", cfg, a.mpd, t1, t1+o); err != nil {
							return err
						}
					}
				}
			}
		}
	}
	// start of a session: availabilityStartTime shortly before t1 (lists grow from one entry), and its end (stop_)
	a := liveAssets[0]
	for k := 0; k < max(1, perCfg/2); k++ {
		startS := (base+int64(rng.Intn(hour)))/1000 + 7
		startS -= startS % 2
		for _, tl := range []string{"segtimeline_1", "segtimelinenr_1", "segtimeline_1/periods_900"} {
			cfg := fmt.Sprintf("patch_60/start_%d/%s", startS, tl)
			for _, d1 := range []int64{2500, 4500, 9000} {
				for _, d2 := range []int64{2000, 6000, 14_000, 22_000, 30_000, 44_000, 58_000} {
					if err := l.scenario(w, st, "startup", cfg, a.mpd, startS*1000+d1, startS*1000+d1+d2); err != nil {
						return err
					}
				}
			}
		}
		stopS := startS + 3600
		cfg := fmt.Sprintf("patch_60/stop_%d/segtimeline_1", stopS)
		for _, d1 := range []int64{-9000, -2500} {
			for _, d2 := range []int64{2000, 4000, 12_000, 30_000} {
				if err := l.scenario(w, st, "stop", cfg, a.mpd, stopS*1000+d1, stopS*1000+d1+d2); err != nil {
					return err
				}
			}
		}
	}
	return nil
}

package c11

import (
	"fmt"
	"math/rand"
	"strconv"
	"time"

	"verifharness/tr"
)

func nd(tag string, attrs map[string]string, text string, kids ...*Node) *Node {
	n := &Node{Tag: tag, Attrs: AttrMap{}, Text: text, Kids: []*Node{}}
	for k, v := range attrs {
		n.Attrs[k] = v
	}
	n.Kids = append(n.Kids, kids...)
	return n
}

var basePT = time.Date(2024, 1, 1, 0, 0, 0, 0, time.UTC)

func mpdOf(ptOffsetS int, ttl int, kids ...*Node) *Node {
	pl := nd("PatchLocation", map[string]string{"ttl": strconv.Itoa(ttl)}, "/patch/x.mpp")
	all := append([]*Node{pl}, kids...)
	return nd("MPD", map[string]string{"id": "m", "type": "dynamic",
		"publishTime": basePT.Add(time.Duration(ptOffsetS) * time.Second).Format(time.RFC3339)}, "", all...)
}

func sElem(a map[string]string) *Node { return nd("S", a, "") }

func timelineAS(id string, ss []*Node) *Node {
	return nd("AdaptationSet", map[string]string{"id": id, "contentType": "audio"}, "",
		nd("Role", map[string]string{"schemeIdUri": "urn:mpeg:dash:role:2011", "value": "main"}, ""),
		nd("SegmentTemplate", map[string]string{"timescale": "48000", "media": "$RepresentationID$/$Time$.m4s"}, "",
			nd("SegmentTimeline", nil, "", ss...)),
		nd("Representation", map[string]string{"id": "r" + id, "bandwidth": "48000"}, ""))
}

func distinctS(prefix string, n int) []*Node {
	r := make([]*Node, n)
	for i := range r {
		r[i] = sElem(map[string]string{"d": prefix + strconv.Itoa(i)})
	}
	return r
}

// audioLike: the S list a live SegmentTimeline shows for segments [first, first+count): runs of equal durations
// compressed with r, the first entry carrying t.
func audioLike(first, count int, pattern []int) []*Node {
	var res []*Node
	t := 0
	for i := 0; i < first; i++ {
		t += pattern[i%len(pattern)]
	}
	i := first
	for i < first+count {
		d := pattern[i%len(pattern)]
		r := 0
		for i+r+1 < first+count && pattern[(i+r+1)%len(pattern)] == d {
			r++
		}
		a := map[string]string{"d": strconv.Itoa(d)}
		if len(res) == 0 {
			a["t"] = strconv.Itoa(t)
		}
		if r > 0 {
			a["r"] = strconv.Itoa(r)
		}
		res = append(res, sElem(a))
		i += r + 1
	}
	return res
}

func onePeriod(ss []*Node) *Node {
	return nd("Period", map[string]string{"id": "P0", "start": "PT0S"}, "", timelineAS("1", ss))
}

func seeded(w *tr.W, st *stats, rng *rand.Rand, n int) error {
	utc := nd("UTCTiming", map[string]string{"schemeIdUri": "urn:mpeg:dash:utc:http-xsdate:2014", "value": "https://t/?a&b"}, "")
	emit := func(cls, desc string, o, nw *Node, r *rand.Rand) error {
		return diffPair(w, st, "seed", cls, desc, o, nw, r)
	}
	// (a) length-skewed S lists: the Myers index arithmetic depends on |N-M| and min(N,M)
	for _, nm := range [][2]int{{1, 4}, {1, 7}, {1, 8}, {1, 20}, {0, 20}, {2, 11}, {2, 20}, {3, 14}, {3, 30}, {5, 40}} {
		for rep := 0; rep < 3; rep++ {
			a, b := distinctS("a", nm[0]), distinctS("b", nm[1])
			desc := fmt.Sprintf("S %d vs %d distinct", nm[0], nm[1])
			if rep > 0 && nm[0] > 0 {
				i, j := rng.Intn(nm[0]), rng.Intn(nm[1])
				a[i] = sElem(map[string]string{"d": "X"})
				b[j] = sElem(map[string]string{"d": "X"})
				desc = fmt.Sprintf("S %d vs %d, one common element at %d/%d", nm[0], nm[1], i, j)
			}
			if err := emit("skew", desc, mpdOf(0, 60, onePeriod(a), utc), mpdOf(2, 60, onePeriod(b), utc), nil); err != nil {
				return err
			}
			if err := emit("skew", desc+" (reversed)", mpdOf(0, 60, onePeriod(b), utc), mpdOf(2, 60, onePeriod(a), utc), nil); err != nil {
				return err
			}
		}
	}
	// (b) length-skewed Period lists (ids): 1 vs many, with the old period kept
	for _, m := range []int{4, 9, 12} {
		mk := func(from, to int) []*Node {
			var ps []*Node
			for i := from; i < to; i++ {
				ps = append(ps, nd("Period", map[string]string{"id": "P" + strconv.Itoa(i), "start": "PT" + strconv.Itoa(i*2) + "S"}, "",
					timelineAS("1", audioLike(i, 1, []int{96256}))))
			}
			return ps
		}
		o := mpdOf(0, 60, append(mk(0, 1), utc)...)
		nw := mpdOf(2*m, 60, append(mk(0, m), utc)...)
		if err := emit("skewperiod", fmt.Sprintf("Period 1 vs %d, first kept", m), o, nw, nil); err != nil {
			return err
		}
		if err := emit(nw2(o, nw)); err != nil {
			return err
		}
	}
	// (c) publish-time distances around the time-to-live (status clause at package level)
	for _, ttl := range []int{1, 60} {
		for _, d := range []int{0, 1, ttl, ttl + 1, ttl + marginS, ttl + marginS + 1, 10 * (ttl + marginS)} {
			o := mpdOf(0, ttl, onePeriod(audioLike(3, 10, []int{96256, 96256, 95232, 96256})), utc)
			nw := mpdOf(d, ttl, onePeriod(audioLike(4, 10, []int{96256, 96256, 95232, 96256})), utc)
			if err := emit("ttl", fmt.Sprintf("ttl %d distance %d s", ttl, d), o, nw, nil); err != nil {
				return err
			}
			if err := emit("ttl", fmt.Sprintf("ttl %d distance %d s, equal content", ttl, d), o, mpdOf(d, ttl, o.Kids[1:]...), nil); err != nil {
				return err
			}
		}
	}
	// (d) sliding windows over audio-like patterns (what a live timeline does), and (e) random trees + random edits
	patterns := [][]int{{96256, 96256, 95232, 96256}, {96256, 95232}, {288768, 287744, 287744}, {180000}, {1, 2, 3, 4, 5, 6, 7}}
	for i := 0; i < n; i++ {
		var r *rand.Rand
		if i%5 == 0 {
			r = rng
		}
		if i%2 == 0 {
			p := patterns[rng.Intn(len(patterns))]
			first, cnt := rng.Intn(20), rng.Intn(40)
			shift, cnt2 := rng.Intn(25), rng.Intn(40)
			if rng.Intn(4) == 0 {
				cnt = rng.Intn(3) // short lists (start of a session, tiny time-shift buffer)
			}
			o := mpdOf(0, 60, onePeriod(audioLike(first, cnt, p)), utc)
			nw := mpdOf(2, 60, onePeriod(audioLike(first+shift, cnt2, p)), utc)
			if err := emit("window", fmt.Sprintf("pattern %v window [%d,+%d) -> [%d,+%d)", p, first, cnt, first+shift, cnt2), o, nw, r); err != nil {
				return err
			}
			continue
		}
		o := randMPD(rng)
		nw := mutate(rng, o)
		if err := emit("randtree", fmt.Sprintf("random tree %d", i), o, nw, r); err != nil {
			return err
		}
	}
	return nil
}

func nw2(o, nw *Node) (string, string, *Node, *Node, *rand.Rand) {
	// reversed direction: publish times must still increase
	a, b := nw.clone(), o.clone()
	a.Attrs["publishTime"], b.Attrs["publishTime"] = o.Attrs["publishTime"], nw.Attrs["publishTime"]
	return "skewperiod", fmt.Sprintf("Period %d vs %d (reversed)", len(a.Kids)-2, len(b.Kids)-2), a, b, nil
}

var idPool = []string{"a", "b", "c", "d", "e"}
var sPool = []map[string]string{{"d": "10"}, {"d": "20", "r": "1"}, {"d": "10", "r": "2"}, {"d": "30"}}

func randIDs(rng *rand.Rand, max int) []string {
	p := rng.Perm(len(idPool))
	k := rng.Intn(max + 1)
	ids := make([]string, 0, k)
	for _, i := range p[:k] {
		ids = append(ids, idPool[i])
	}
	return ids
}

func randS(rng *rand.Rand, max int) []*Node {
	k := rng.Intn(max + 1)
	r := make([]*Node, k)
	for i := range r {
		r[i] = sElem(sPool[rng.Intn(len(sPool))])
	}
	return r
}

func randAttrs(rng *rand.Rand, a map[string]string) map[string]string {
	for _, k := range []string{"bandwidth", "codecs", "lang", "schemaLocation"} {
		switch rng.Intn(3) {
		case 0:
			a[k] = "v" + strconv.Itoa(rng.Intn(2))
		}
	}
	return a
}

// randMPD: periods (ids) > adaptation sets (ids) > Role / Label / SegmentTemplate / Representation (ids)
func randMPD(rng *rand.Rand) *Node {
	var periods []*Node
	for _, pid := range randIDs(rng, 3) {
		p := nd("Period", map[string]string{"id": pid}, "")
		for _, aid := range randIDs(rng, 3) {
			as := nd("AdaptationSet", randAttrs(rng, map[string]string{"id": aid}), "")
			schemes := []string{"urn:r", "urn:q", "http://x/y"}
			for _, i := range rng.Perm(3)[:rng.Intn(3)] {
				as.Kids = append(as.Kids, nd("Role", map[string]string{"schemeIdUri": schemes[i], "value": "v" + strconv.Itoa(rng.Intn(2))}, ""))
			}
			for i := rng.Intn(3); i > 0; i-- {
				as.Kids = append(as.Kids, nd("Label", nil, "l"+strconv.Itoa(rng.Intn(3))))
			}
			as.Kids = append(as.Kids, nd("SegmentTemplate", map[string]string{"timescale": "10"}, "", nd("SegmentTimeline", nil, "", randS(rng, 8)...)))
			for _, rid := range randIDs(rng, 2) {
				as.Kids = append(as.Kids, nd("Representation", randAttrs(rng, map[string]string{"id": rid}), ""))
			}
			p.Kids = append(p.Kids, as)
		}
		periods = append(periods, p)
	}
	periods = append(periods, nd("UTCTiming", map[string]string{"schemeIdUri": "urn:mpeg:dash:utc:http-xsdate:2014", "value": "https://t/"}, ""))
	return mpdOf(0, 60, periods...)
}

// mutate returns an edited copy: id-carrying children inserted / deleted / kept, attributes changed,
// S lists edited, labels edited; ids stay unique among siblings.
func mutate(rng *rand.Rand, o *Node) *Node {
	n := o.clone()
	n.Attrs["publishTime"] = basePT.Add(time.Duration(1+rng.Intn(60)) * time.Second).Format(time.RFC3339)
	var walk func(x *Node)
	walk = func(x *Node) {
		switch x.Tag {
		case "SegmentTimeline":
			switch rng.Intn(4) {
			case 0:
				x.Kids = randS(rng, 8)
			case 1:
				if len(x.Kids) > 0 {
					x.Kids = x.Kids[rng.Intn(len(x.Kids)):]
				}
				x.Kids = append(x.Kids, randS(rng, 3)...)
			case 2:
				if len(x.Kids) > 0 {
					i := rng.Intn(len(x.Kids))
					x.Kids[i] = sElem(sPool[rng.Intn(len(sPool))])
				}
			}
			return
		case "AdaptationSet", "Representation":
			if rng.Intn(3) == 0 {
				id := x.Attrs["id"]
				for k := range x.Attrs {
					delete(x.Attrs, k)
				}
				x.Attrs["id"] = id
				randAttrs(rng, x.Attrs)
			}
		case "Label":
			if rng.Intn(3) == 0 {
				x.Text = "l" + strconv.Itoa(rng.Intn(3))
			}
		case "Role":
			if rng.Intn(4) == 0 {
				x.Attrs["value"] = "v" + strconv.Itoa(rng.Intn(3))
			}
		}
		// children with ids: delete some, insert some
		var kids []*Node
		used := map[string]bool{}
		for _, k := range x.Kids {
			if id, ok := k.Attrs["id"]; ok {
				used[k.Tag+id] = true
			}
		}
		for _, k := range x.Kids {
			_, hasID := k.Attrs["id"]
			if hasID && rng.Intn(5) == 0 {
				continue // delete
			}
			if k.Tag == "Label" && rng.Intn(5) == 0 {
				continue
			}
			if hasID && rng.Intn(6) == 0 {
				for _, id := range idPool {
					if !used[k.Tag+id] {
						used[k.Tag+id] = true
						c := k.clone()
						c.Attrs["id"] = id
						kids = append(kids, c)
						break
					}
				}
			}
			kids = append(kids, k)
		}
		x.Kids = kids
		for _, k := range x.Kids {
			walk(k)
		}
	}
	for _, k := range n.Kids {
		if k.Tag == "Period" {
			walk(k)
		}
	}
	// periods themselves
	if rng.Intn(3) == 0 && len(n.Kids) > 2 {
		i := 1 + rng.Intn(len(n.Kids)-2)
		n.Kids = append(n.Kids[:i:i], n.Kids[i+1:]...)
	}
	return n
}

package c11

import (
	"bytes"
	"encoding/json"
	"encoding/xml"
	"fmt"
	"io"
	"math/rand"
	"sort"
	"strconv"
	"strings"
)

// Node is the tree shape shared with spec/PatchOps.tla: every node carries the same four fields.
type Node struct {
	Tag   string  `json:"tag"`
	Attrs AttrMap `json:"attrs"`
	Text  string  `json:"text"`
	Kids  []*Node `json:"kids"`
	raw   string  // untrimmed character data (attribute values carried as element content in patch operations)
}

// AttrMap is a JSON object; TLC prints an empty function as [] so that form is accepted on input.
type AttrMap map[string]string

func (a *AttrMap) UnmarshalJSON(b []byte) error {
	t := bytes.TrimSpace(b)
	if len(t) > 0 && t[0] == '[' {
		var l []any
		if err := json.Unmarshal(t, &l); err != nil {
			return err
		}
		if len(l) != 0 {
			return fmt.Errorf("attrs: non-empty array")
		}
		*a = AttrMap{}
		return nil
	}
	m := map[string]string{}
	if err := json.Unmarshal(t, &m); err != nil {
		return err
	}
	*a = m
	return nil
}

func (n *Node) normalize() {
	if n.Attrs == nil {
		n.Attrs = AttrMap{}
	}
	if n.Kids == nil {
		n.Kids = []*Node{}
	}
	for _, k := range n.Kids {
		k.normalize()
	}
}

func (n *Node) clone() *Node {
	c := &Node{Tag: n.Tag, Attrs: AttrMap{}, Text: n.Text, Kids: make([]*Node, 0, len(n.Kids))}
	for k, v := range n.Attrs {
		c.Attrs[k] = v
	}
	for _, k := range n.Kids {
		c.Kids = append(c.Kids, k.clone())
	}
	return c
}

func (n *Node) size() int {
	s := 1
	for _, k := range n.Kids {
		s += k.size()
	}
	return s
}

func (n *Node) equal(o *Node) bool {
	if n.Tag != o.Tag || n.Text != o.Text || len(n.Attrs) != len(o.Attrs) || len(n.Kids) != len(o.Kids) {
		return false
	}
	for k, v := range n.Attrs {
		if w, ok := o.Attrs[k]; !ok || w != v {
			return false
		}
	}
	for i := range n.Kids {
		if !n.Kids[i].equal(o.Kids[i]) {
			return false
		}
	}
	return true
}

func (n *Node) kid(tag string) *Node {
	for _, k := range n.Kids {
		if k.Tag == tag {
			return k
		}
	}
	return nil
}

// attrKey: local names are kept (the package under test addresses attributes by local name);
// namespace declarations keep their xmlns: prefix so that they cannot collide with ordinary attributes.
func attrKey(a xml.Name) string {
	if a.Space == "xmlns" {
		return "xmlns:" + a.Local
	}
	return a.Local
}

// parseXML is the recorder's own XML reader (encoding/xml raw tokens; no use of etree or of the MPD model):
// element order kept, attribute order dropped, character data trimmed, comments / PIs / directives ignored.
func parseXML(data []byte) (*Node, error) {
	d := xml.NewDecoder(bytes.NewReader(data))
	d.Strict = true
	var stack []*Node
	var root *Node
	var texts []*strings.Builder
	for {
		tok, err := d.RawToken()
		if err == io.EOF {
			break
		}
		if err != nil {
			return nil, err
		}
		switch t := tok.(type) {
		case xml.StartElement:
			n := &Node{Tag: t.Name.Local, Attrs: AttrMap{}, Kids: []*Node{}}
			for _, a := range t.Attr {
				k := attrKey(a.Name)
				if _, dup := n.Attrs[k]; dup {
					// two attributes with the same local name: keep the prefix of the later one
					k = a.Name.Space + ":" + a.Name.Local
				}
				n.Attrs[k] = a.Value
			}
			if len(stack) == 0 {
				if root != nil {
					return nil, fmt.Errorf("two document elements")
				}
				root = n
			} else {
				p := stack[len(stack)-1]
				p.Kids = append(p.Kids, n)
			}
			stack = append(stack, n)
			texts = append(texts, &strings.Builder{})
		case xml.EndElement:
			if len(stack) == 0 {
				return nil, fmt.Errorf("unbalanced end element")
			}
			n := stack[len(stack)-1]
			if n.Tag != t.Name.Local {
				return nil, fmt.Errorf("end element %s closes %s", t.Name.Local, n.Tag)
			}
			n.raw = texts[len(texts)-1].String()
			n.Text = strings.TrimSpace(n.raw)
			stack = stack[:len(stack)-1]
			texts = texts[:len(texts)-1]
		case xml.CharData:
			if len(texts) > 0 {
				texts[len(texts)-1].Write(t)
			}
		}
	}
	if root == nil || len(stack) != 0 {
		return nil, fmt.Errorf("no complete document element")
	}
	return root, nil
}

var prefixed = map[string]string{"schemaLocation": "xsi:schemaLocation"}

// renderXML writes a tree as XML text; rng (optional) shuffles the attribute order, which has no meaning in XML.
func renderXML(n *Node, rng *rand.Rand) []byte {
	var b bytes.Buffer
	b.WriteString(`<?xml version="1.0" encoding="UTF-8"?>` + "\n")
	renderNode(&b, n, rng, 0)
	return b.Bytes()
}

func esc(s string) string {
	var b bytes.Buffer
	_ = xml.EscapeText(&b, []byte(s))
	return b.String()
}

func renderNode(b *bytes.Buffer, n *Node, rng *rand.Rand, depth int) {
	ind := strings.Repeat("  ", depth)
	b.WriteString(ind + "<" + n.Tag)
	keys := make([]string, 0, len(n.Attrs))
	for k := range n.Attrs {
		keys = append(keys, k)
	}
	sort.Strings(keys)
	if rng != nil {
		rng.Shuffle(len(keys), func(i, j int) { keys[i], keys[j] = keys[j], keys[i] })
	}
	for _, k := range keys {
		name := k
		if p, ok := prefixed[k]; ok {
			name = p
		}
		b.WriteString(" " + name + `="` + esc(n.Attrs[k]) + `"`)
	}
	if len(n.Kids) == 0 && n.Text == "" {
		b.WriteString("/>\n")
		return
	}
	b.WriteString(">")
	if n.Text != "" {
		b.WriteString(esc(n.Text))
	}
	if len(n.Kids) > 0 {
		b.WriteString("\n")
		for _, k := range n.Kids {
			renderNode(b, k, rng, depth+1)
		}
		b.WriteString(ind)
	}
	b.WriteString("</" + n.Tag + ">\n")
}

// ---- selectors ----

type Step struct {
	Tag string `json:"tag"`
	Pk  string `json:"pk"` // none | attr | idx
	Pa  string `json:"pa"`
	Pv  string `json:"pv"`
	N   int    `json:"n"`
}

type Op struct {
	Op    string  `json:"op"`
	Ok    bool    `json:"ok"`
	Sel   []Step  `json:"sel"`
	Attr  string  `json:"attr"`
	Pos   string  `json:"pos"`
	Val   string  `json:"val"`
	Elems []*Node `json:"elems"`
	Raw   string  `json:"raw"`
}

type selError struct {
	unsupported bool // valid XPath the recorder does not model (machinery problem), as opposed to malformed
	msg         string
}

func (e *selError) Error() string { return e.msg }

func isNameStart(c byte) bool {
	return c == '_' || (c >= 'a' && c <= 'z') || (c >= 'A' && c <= 'Z') || c >= 0x80
}
func isNameChar(c byte) bool {
	return isNameStart(c) || c == '-' || c == '.' || (c >= '0' && c <= '9')
}

// local strips a namespace prefix (local names are kept, see attrKey)
func local(qname string) string {
	if i := strings.IndexByte(qname, ':'); i >= 0 {
		return qname[i+1:]
	}
	return qname
}

func readQName(s string, i int) (string, int) {
	j := i
	if j >= len(s) || !isNameStart(s[j]) {
		return "", i
	}
	for j < len(s) && (isNameChar(s[j]) || (s[j] == ':' && j+1 < len(s) && isNameStart(s[j+1]) && !strings.HasPrefix(s[j:], "::"))) {
		j++
	}
	return s[i:j], j
}

// tokenise parses the XPath subset  /name(pred)?(/name(pred)?)*(/@name)?  with pred = [@name='v'] | [@name="v"] | [k].
// It is lossless: detokenise(tokenise(s)) == s up to the quote character.
func tokenise(sel string) (steps []Step, attr string, err *selError) {
	s := sel
	i := 0
	if len(s) == 0 || s[0] != '/' {
		return nil, "", &selError{true, "selector is not an absolute location path"}
	}
	for i < len(s) {
		if s[i] != '/' {
			return nil, "", &selError{false, fmt.Sprintf("expected / at offset %d", i)}
		}
		i++
		if i < len(s) && s[i] == '/' {
			return nil, "", &selError{true, "descendant axis"}
		}
		if i < len(s) && s[i] == '@' {
			name, j := readQName(s, i+1)
			if name == "" {
				return nil, "", &selError{false, "attribute step without a name"}
			}
			if j != len(s) {
				return nil, "", &selError{false, "attribute step is not the last step"}
			}
			if len(steps) == 0 {
				return nil, "", &selError{false, "attribute step without an element"}
			}
			return steps, local(name), nil
		}
		name, j := readQName(s, i)
		if name == "" {
			if i < len(s) && (s[i] == '*' || s[i] == '.') {
				return nil, "", &selError{true, "wildcard or abbreviated step"}
			}
			return nil, "", &selError{false, fmt.Sprintf("expected a name at offset %d", i)}
		}
		if strings.HasPrefix(s[j:], "::") || strings.HasPrefix(s[j:], "(") {
			return nil, "", &selError{true, "axis or node test"}
		}
		st := Step{Tag: local(name), Pk: "none"}
		i = j
		if i < len(s) && s[i] == '[' {
			i++
			switch {
			case i < len(s) && s[i] == '@':
				an, j := readQName(s, i+1)
				if an == "" {
					return nil, "", &selError{false, "predicate without attribute name"}
				}
				i = j
				if i >= len(s) || s[i] != '=' {
					return nil, "", &selError{true, "predicate is not an equality"}
				}
				i++
				if i >= len(s) || (s[i] != '\'' && s[i] != '"') {
					return nil, "", &selError{false, "predicate value is not quoted"}
				}
				q := s[i]
				i++
				k := strings.IndexByte(s[i:], q)
				if k < 0 {
					return nil, "", &selError{false, "unterminated literal"}
				}
				st.Pk, st.Pa, st.Pv = "attr", local(an), s[i:i+k]
				i += k + 1
			case i < len(s) && s[i] >= '0' && s[i] <= '9':
				j := i
				for j < len(s) && s[j] >= '0' && s[j] <= '9' {
					j++
				}
				v, e := strconv.Atoi(s[i:j])
				if e != nil || v < 1 || v > 1<<30 {
					return nil, "", &selError{false, "bad positional index"}
				}
				st.Pk, st.N = "idx", v
				i = j
			default:
				return nil, "", &selError{true, "unsupported predicate"}
			}
			if i >= len(s) || s[i] != ']' {
				return nil, "", &selError{false, fmt.Sprintf("expected ] at offset %d", i)}
			}
			i++
			if i < len(s) && s[i] == '[' {
				return nil, "", &selError{true, "several predicates"}
			}
		}
		steps = append(steps, st)
	}
	if len(steps) == 0 {
		return nil, "", &selError{false, "empty selector"}
	}
	return steps, "", nil
}

func detokenise(steps []Step, attr string) string {
	var b strings.Builder
	for _, s := range steps {
		b.WriteString("/" + s.Tag)
		switch s.Pk {
		case "attr":
			b.WriteString("[@" + s.Pa + "='" + s.Pv + "']")
		case "idx":
			b.WriteString("[" + strconv.Itoa(s.N) + "]")
		}
	}
	if attr != "" {
		b.WriteString("/@" + attr)
	}
	return b.String()
}

// PatchDoc is the recorder's reading of a patch document.
type PatchDoc struct {
	MpdId, OrigPT, PT string
	Ops               []Op
	Unsupported       []string // selectors that are valid XPath but outside the modelled subset
}

func parsePatch(data []byte) (*PatchDoc, error) {
	root, err := parseXML(data)
	if err != nil {
		return nil, err
	}
	if root.Tag != "Patch" {
		return nil, fmt.Errorf("document element %q is not Patch", root.Tag)
	}
	pd := &PatchDoc{MpdId: root.Attrs["mpdId"], OrigPT: root.Attrs["originalPublishTime"], PT: root.Attrs["publishTime"], Ops: []Op{}}
	for _, k := range root.Kids {
		op := Op{Op: k.Tag, Ok: true, Sel: []Step{}, Pos: k.Attrs["pos"], Elems: []*Node{}, Raw: k.Attrs["sel"]}
		switch k.Tag {
		case "add", "replace", "remove":
		default:
			op.Ok = false
		}
		steps, attr, serr := tokenise(k.Attrs["sel"])
		if serr != nil {
			op.Ok = false
			if serr.unsupported {
				pd.Unsupported = append(pd.Unsupported, k.Attrs["sel"]+": "+serr.msg)
			}
		} else {
			op.Sel, op.Attr = steps, attr
			if norm := detokenise(steps, attr); norm != strings.ReplaceAll(k.Attrs["sel"], `"`, `'`) && !strings.Contains(k.Attrs["sel"], ":") {
				return nil, fmt.Errorf("tokeniser is not lossless on %q (%q)", k.Attrs["sel"], norm)
			}
		}
		if t, ok := k.Attrs["type"]; ok && k.Tag == "add" {
			// RFC 5261: <add sel="elem" type="@name">value</add>
			if strings.HasPrefix(t, "@") && op.Attr == "" {
				op.Attr = local(t[1:])
			} else {
				op.Ok = false
				pd.Unsupported = append(pd.Unsupported, "type="+t)
			}
		}
		if op.Attr != "" {
			op.Val = k.raw
		} else {
			for _, e := range k.Kids {
				op.Elems = append(op.Elems, e)
			}
		}
		if op.Pos != "" && op.Pos != "prepend" && op.Pos != "before" && op.Pos != "after" {
			op.Ok = false
		}
		pd.Ops = append(pd.Ops, op)
	}
	return pd, nil
}

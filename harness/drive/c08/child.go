package c08

import (
	"bufio"
	"bytes"
	"context"
	"encoding/json"
	"fmt"
	"io"
	"net/http"
	"net/http/httptest"
	"net/url"
	"os"
	"path/filepath"
	"regexp"
	"runtime"
	"runtime/debug"
	"strconv"
	"strings"
	"syscall"
	"time"

	rapp "github.com/Dash-Industry-Forum/livesim2/cmd/cmaf-ingest-receiver/app"
	"github.com/Dash-Industry-Forum/livesim2/cmd/livesim2/app"
	"github.com/Dash-Industry-Forum/livesim2/pkg/logging"
	"github.com/Eyevinn/dash-mpd/mpd"
	"github.com/go-chi/chi/v5/middleware"
)

// outcome of one concrete request (one line of the child's stdout).
type outcome struct {
	ID     int    `json:"id"`
	Kind   string `json:"kind"` // status | panic | timeout | fatal | slow
	Status int    `json:"status"`
	Blen   int    `json:"blen"`
	Site   string `json:"site"` // innermost frame inside the repository: file.go:Func
	Top    string `json:"top"`  // innermost non-runtime frame (may be a dependency)
	Chain  string `json:"chain"` // timeouts: repository frames of the handler goroutine, innermost first, joined by "<"
	Msg    string `json:"msg"`
	MS     int    `json:"ms"`
	URL    string `json:"url"`
	Pre    []int  `json:"pre,omitempty"`
}

const exitTimeout = 77

// ---------------------------------------------------------------------------------------------
// panic capture: chi's Recoverer hands the recovered value and debug.Stack() to the request's LogEntry.

type logEntry struct {
	pv    any
	stack []byte
}

func (l *logEntry) Write(status, bytes int, header http.Header, elapsed time.Duration, extra interface{}) {
}
func (l *logEntry) Panic(v interface{}, stack []byte) { l.pv, l.stack = v, stack }

type entryKey struct{}

// formatter used instead of chi's default request logger (receiver router): returns the request's own entry.
type fmtr struct{}

func (fmtr) NewLogEntry(r *http.Request) middleware.LogEntry {
	if e, ok := r.Context().Value(entryKey{}).(*logEntry); ok {
		return e
	}
	return &logEntry{}
}

// ---------------------------------------------------------------------------------------------
// stack parsing

type frame struct{ fn, file string }

var fileLineRe = regexp.MustCompile(`^\s+(\S+):(\d+)`)

func parseFrames(block string) []frame {
	var fr []frame
	lines := strings.Split(block, "\n")
	for i := 0; i+1 < len(lines); i++ {
		l := lines[i]
		if l == "" || l[0] == '\t' || l[0] == ' ' || strings.HasPrefix(l, "goroutine ") {
			continue
		}
		m := fileLineRe.FindStringSubmatch(lines[i+1])
		if m == nil {
			continue
		}
		fr = append(fr, frame{fn: l, file: m[1]})
		i++
	}
	return fr
}

func shortFunc(fn string) string {
	fn = strings.TrimPrefix(fn, "created by ")
	if i := strings.LastIndex(fn, "("); i > 0 && !strings.HasSuffix(fn[:i], ".") {
		// drop the argument list, but not a "(*T)" receiver
		if j := strings.LastIndex(fn, ")"); j > i && j == len(fn)-1 {
			fn = fn[:i]
		}
	}
	if i := strings.LastIndex(fn, "/"); i >= 0 {
		fn = fn[i+1:]
	}
	if i := strings.Index(fn, "."); i >= 0 {
		fn = fn[i+1:]
	}
	fn = strings.NewReplacer("(*", "", ")", "").Replace(fn)
	return fn
}

func isRuntime(f frame) bool {
	return strings.HasPrefix(f.fn, "runtime.") || strings.HasPrefix(f.fn, "runtime/") || strings.HasPrefix(f.fn, "panic(") ||
		strings.HasPrefix(f.fn, "internal/") || strings.HasPrefix(f.fn, "sync.") || strings.HasPrefix(f.fn, "sync/") ||
		strings.HasPrefix(f.fn, "time.")
}

func isRepo(f frame) bool {
	return strings.Contains(f.fn, "Dash-Industry-Forum/livesim2/") && !strings.Contains(f.fn, "verifharness")
}

func fmtFrame(f frame) string { return filepath.Base(f.file) + ":" + shortFunc(f.fn) }

// sitesAfterPanic: frames below the last "panic(" frame (or all frames when there is none).
func sites(frames []frame, afterPanic bool) (site, top string) {
	start := 0
	if afterPanic {
		for i, f := range frames {
			if strings.HasPrefix(f.fn, "panic(") {
				start = i + 1
			}
		}
	}
	for _, f := range frames[start:] {
		if isRuntime(f) || strings.Contains(f.fn, "verifharness") {
			continue
		}
		if top == "" {
			top = fmtFrame(f)
		}
		if isRepo(f) {
			site = fmtFrame(f)
			break
		}
	}
	return
}

// goroutineBlock returns the stack block of the goroutine that contains marker.
func goroutineBlock(all, marker string) string {
	for _, b := range strings.Split(all, "\n\n") {
		if strings.Contains(b, marker) {
			return b
		}
	}
	return ""
}

// ---------------------------------------------------------------------------------------------

type child struct {
	repo    string
	tmp     string
	baseMS  int64
	bound   time.Duration
	routers map[string]http.Handler
	at      map[string]string
	out     *bufio.Writer
	cur     outcome
}

func (c *child) router(srv string) (http.Handler, error) {
	if h, ok := c.routers[srv]; ok {
		return h, nil
	}
	ctx := context.Background()
	var h http.Handler
	switch srv {
	case "plain", "drm", "limit":
		cfg := app.DefaultConfig
		cfg.LogFormat = logging.LogDiscard
		cfg.LogLevel = "ERROR"
		cfg.VodRoot = filepath.Join(c.repo, "cmd/livesim2/app/testdata/assets")
		cfg.RepDataRoot = ""
		cfg.TimeoutS = 60
		if srv == "drm" {
			cfg.DrmCfgFile = filepath.Join(c.repo, "pkg/drm/testdata/drm_config_test.json")
		}
		if srv == "limit" {
			cfg.MaxRequests = 100_000_000
			cfg.ReqLimitInt = 3600
		}
		s, err := app.SetupServer(ctx, &cfg)
		if err != nil {
			return nil, fmt.Errorf("SetupServer(%s): %w", srv, err)
		}
		h = s.Router
	case "rcv", "rcvraw":
		storage := filepath.Join(c.tmp, srv)
		if err := os.MkdirAll(storage, 0o755); err != nil {
			return nil, err
		}
		raw := uint64(0)
		fsp := ""
		if srv == "rcvraw" {
			raw = 3
			fsp = "files"
		}
		r, _, err := rapp.VerifNewRouter(ctx, "/upload", storage, 30, raw, fsp, rapp.GetEmptyConfig())
		if err != nil {
			return nil, err
		}
		h = r
	default:
		return nil, fmt.Errorf("unknown server %q", srv)
	}
	c.routers[srv] = h
	return h, nil
}

func buildReq(ctx context.Context, method, path, rawq string, headers map[string]string, body []byte, cl int64) *http.Request {
	u := &url.URL{Path: path, RawQuery: rawq}
	r := &http.Request{Method: method, URL: u, Proto: "HTTP/1.1", ProtoMajor: 1, ProtoMinor: 1, Header: http.Header{},
		Host: "localhost:8888", RemoteAddr: "192.0.2.7:4711", RequestURI: u.RequestURI()}
	for k, v := range headers {
		r.Header.Set(k, v)
	}
	if body != nil {
		r.Body = io.NopCloser(bytes.NewReader(body))
	} else {
		r.Body = http.NoBody
	}
	r.ContentLength = cl
	return r.WithContext(ctx)
}

type result struct {
	status int
	blen   int
	body   []byte
	pv     any
	stack  []byte
}

// serve runs one request through the router; it is the marker frame for goroutine dumps.
func (c *child) serve(h http.Handler, r *http.Request, e *logEntry, done chan<- result) {
	rr := httptest.NewRecorder()
	var res result
	defer func() {
		if v := recover(); v != nil { // a panic that escaped the router's Recoverer
			res.pv, res.stack = v, debug.Stack()
		}
		done <- res
	}()
	h.ServeHTTP(rr, r)
	res.status, res.blen = rr.Code, rr.Body.Len()
	if rr.Body.Len() < 4096 {
		res.body = rr.Body.Bytes()
	}
	res.pv, res.stack = e.pv, e.stack
}

// do sends one request with the wall-time bound. On a timeout it reports and terminates the process
// (the handler goroutine cannot be stopped).
func (c *child) do(srv, method, path, rawq string, headers map[string]string, body []byte, cl int64) (result, error) {
	h, err := c.router(srv)
	if err != nil {
		return result{}, err
	}
	e := &logEntry{}
	ctx := context.WithValue(context.Background(), entryKey{}, e)
	r := buildReq(ctx, method, path, rawq, headers, body, cl)
	r = middleware.WithLogEntry(r, e)
	done := make(chan result, 1)
	t0 := time.Now()
	go c.serve(h, r, e, done)
	timer := time.NewTimer(c.bound)
	defer timer.Stop()
	var early <-chan time.Time
	if len(fastSites) > 0 && c.bound > fastAfter {
		et := time.NewTimer(fastAfter)
		defer et.Stop()
		early = et.C
	}
	var mem <-chan time.Time
	if memLimitMB > 0 {
		tk := time.NewTicker(40 * time.Millisecond)
		defer tk.Stop()
		mem = tk.C
	}
	for {
		select {
		case res := <-done:
			c.cur.MS = int(time.Since(t0) / time.Millisecond)
			return res, nil
		case <-timer.C:
			c.timeout(fmt.Sprintf("no response within %d ms", c.bound/time.Millisecond), false)
		case <-early:
			// still running in a call site where this run has already confirmed (twice, alone, long bound) that
			// the handler does not return: do not wait for the full bound
			c.timeout(fmt.Sprintf("still running after %d ms in a call site confirmed as non-terminating", fastAfter/time.Millisecond), true)
		case <-mem:
			var ms runtime.MemStats
			runtime.ReadMemStats(&ms)
			if ms.HeapAlloc > uint64(memLimitMB)<<20 {
				c.timeout(fmt.Sprintf("heap grew beyond %d MiB while the handler was running", memLimitMB), false)
			}
		}
	}
}

var memLimitMB = 0

// fastSites: call sites confirmed as non-terminating earlier in this run (parent flag -fastsites)
var fastSites = map[string]bool{}

const fastAfter = 150 * time.Millisecond

// repoChain: the frames inside the repository of the handler goroutine, innermost first.
func repoChain(blk string) (chain []string, top string) {
	for _, f := range parseFrames(blk) {
		if isRuntime(f) || strings.Contains(f.fn, "verifharness") {
			continue
		}
		if top == "" {
			top = fmtFrame(f)
		}
		if isRepo(f) {
			chain = append(chain, fmtFrame(f))
		}
	}
	return
}

func (c *child) timeout(why string, onlyFast bool) {
	// the call site of a handler that does not return: the innermost repository frame that is on the stack in
	// six dumps taken 12 ms apart (a loop calling small helpers is identified by the looping function)
	var common, first []string
	top := ""
	for i := 0; i < 6; i++ {
		buf := make([]byte, 1<<20)
		n := runtime.Stack(buf, true)
		chain, t := repoChain(goroutineBlock(string(buf[:n]), "c08.(*child).serve"))
		if i == 0 {
			common, first, top = chain, chain, t
		} else {
			k := 0
			for k < len(common) && k < len(chain) && common[len(common)-1-k] == chain[len(chain)-1-k] {
				k++
			}
			common = common[len(common)-k:]
		}
		time.Sleep(12 * time.Millisecond)
	}
	site := ""
	if len(common) > 0 {
		site = common[0]
	}
	if onlyFast && !fastSites[site] {
		return // some other place: keep waiting for the full bound
	}
	o := c.cur
	o.Kind, o.Site, o.Top, o.Msg = "timeout", site, top, why
	o.Chain = strings.Join(first[:min(len(first), 5)], "<")
	o.MS = int(c.bound / time.Millisecond)
	c.emit(o)
	c.out.Flush()
	os.Exit(exitTimeout)
}

func (c *child) emit(o outcome) {
	b, _ := json.Marshal(o)
	c.out.Write(b)
	c.out.WriteByte('\n')
	c.out.Flush()
}

func trunc(s string, n int) string {
	if len(s) > n {
		return s[:n]
	}
	return s
}

var idRe = regexp.MustCompile(`"id"\s*:\s*"?(\d+)`)

func (c *child) audioTime(asset string) string {
	if v, ok := c.at[asset]; ok {
		return v
	}
	v := "0"
	res, err := c.do("plain", "GET", "/livesim2/segtimeline_1/"+asset, "nowMS="+strconv.FormatInt(c.baseMS, 10), nil, nil, 0)
	if err == nil && res.status == 200 && res.pv == nil {
		if m, err := mpd.ReadFromString(string(res.body)); err == nil && len(m.Periods) > 0 {
			for _, as := range m.Periods[0].AdaptationSets {
				if as.ContentType != "audio" || as.SegmentTemplate == nil || as.SegmentTemplate.SegmentTimeline == nil {
					continue
				}
				var t uint64
				var last uint64
				for _, s := range as.SegmentTemplate.SegmentTimeline.S {
					if s.T != nil {
						t = *s.T
					}
					for i := 0; i <= s.R; i++ {
						last = t
						t += s.D
					}
				}
				v = strconv.FormatUint(last, 10)
			}
		}
	}
	c.at[asset] = v
	return v
}

var atRe = regexp.MustCompile(`\{AT:([^}]+)\}`)

func (c *child) run(j job) {
	c.cur = outcome{ID: j.ID}
	path := j.Path
	if m := atRe.FindStringSubmatch(path); m != nil {
		save := c.cur
		path = strings.Replace(path, m[0], c.audioTime(m[1]), 1)
		c.cur = save
	}
	for _, p := range j.Pre {
		cl := int64(len(p.Body))
		res, err := c.do(j.Abs.Srv, p.Method, p.Path, "", p.Headers, p.Body, cl)
		if err != nil {
			o := c.cur
			o.Kind, o.Msg = "slow", "setup: "+err.Error()
			c.emit(o)
			return
		}
		c.cur.Pre = append(c.cur.Pre, res.status)
		if res.pv != nil { // every step of a sequence is judged: a panic in an earlier step is the outcome
			o := c.cur
			o.URL = trunc(p.Path, 300)
			o.Kind, o.Status = "panic", res.status
			o.Msg = trunc(fmt.Sprintf("step %d of %d (%s %s): %v", len(c.cur.Pre), len(j.Pre)+1, p.Method, p.Path, res.pv), 200)
			o.Site, o.Top = sites(parseFrames(string(res.stack)), true)
			c.emit(o)
			return
		}
		if p.SettleMS > 0 {
			time.Sleep(time.Duration(p.SettleMS) * time.Millisecond)
		}
		if p.WantID {
			id := "0"
			if m := idRe.FindSubmatch(res.body); m != nil {
				id = string(m[1])
			}
			path = strings.ReplaceAll(path, "{ID}", id)
			time.Sleep(100 * time.Millisecond) // let the ingest goroutine reach its steady state
		}
	}
	c.cur.URL = trunc(path, 300)
	if j.RawQuery != "" {
		c.cur.URL = trunc(path+"?"+j.RawQuery, 300)
	}
	res, err := c.do(j.Abs.Srv, j.Method, path, j.RawQuery, j.Headers, j.Body, j.CL)
	o := c.cur
	if err != nil {
		o.Kind, o.Msg = "slow", "setup: "+err.Error()
		c.emit(o)
		return
	}
	if j.SettleMS > 0 {
		time.Sleep(time.Duration(j.SettleMS) * time.Millisecond)
	}
	o.Status, o.Blen = res.status, res.blen
	if res.pv != nil {
		o.Kind = "panic"
		o.Msg = trunc(fmt.Sprint(res.pv), 160)
		o.Site, o.Top = sites(parseFrames(string(res.stack)), true)
		if os.Getenv("C08_DEBUG") != "" {
			fmt.Fprintf(os.Stderr, "=== %s\npanic: %v\n%s\n", c.cur.URL, res.pv, res.stack)
		}
	} else {
		o.Kind = "status"
		if res.status >= 400 {
			o.Msg = trunc(strings.TrimSpace(string(res.body)), 100)
		}
		if len(o.Pre) > 1 {
			o.Msg = trunc(fmt.Sprintf("steps=%v ", o.Pre)+o.Msg, 160)
		}
	}
	c.emit(o)
}

func childMain(jobsFile string, boundMS int, repo, tmp string, baseMS int64, asLimitMB int) error {
	if err := os.MkdirAll(tmp, 0o755); err != nil {
		return err
	}
	if err := os.Chdir(tmp); err != nil {
		return err
	}
	if asLimitMB > 0 {
		lim := syscall.Rlimit{Cur: uint64(asLimitMB) << 20, Max: uint64(asLimitMB) << 20}
		if err := syscall.Setrlimit(syscall.RLIMIT_AS, &lim); err != nil {
			return fmt.Errorf("setrlimit: %w", err)
		}
	}
	if err := logging.InitSlog("ERROR", logging.LogDiscard); err != nil {
		return err
	}
	middleware.DefaultLogger = middleware.RequestLogger(fmtr{})
	c := &child{repo: repo, tmp: tmp, baseMS: baseMS, bound: time.Duration(boundMS) * time.Millisecond,
		routers: map[string]http.Handler{}, at: map[string]string{}, out: bufio.NewWriter(os.Stdout)}
	f, err := os.Open(jobsFile)
	if err != nil {
		return err
	}
	defer f.Close()
	sc := bufio.NewScanner(f)
	sc.Buffer(make([]byte, 1<<20), 64<<20)
	for sc.Scan() {
		var j job
		if err := json.Unmarshal(sc.Bytes(), &j); err != nil {
			return fmt.Errorf("job line: %w", err)
		}
		c.run(j)
	}
	c.out.Flush()
	return sc.Err()
}

package c08

import (
	"encoding/binary"
	"fmt"
	"os"
	"path/filepath"
	"sort"
	"strconv"
	"strings"
)

// Receiver upload SEQUENCES on one channel (ep "rcvseq"): a malformed / refused init segment followed by
// well-formed media of the same and of other tracks, before and after the channel start, on a channel whose
// numbering is shifted (AWS MediaLive test data) or not (zero_3.84s test data).  The state a refused request
// leaves behind is part of the property; a death of the channel goroutine kills the child process and is
// observed by the parent as a fatal outcome of the sequence.

type rcvTrack struct {
	dir   string // track directory name = track name in the URL
	ext   string
	init  []byte
	media [][]byte
	names []string
}

type rcvSet struct {
	video  rcvTrack
	others []rcvTrack
}

func loadTrack(dir string) (rcvTrack, error) {
	t := rcvTrack{dir: filepath.Base(dir)}
	ents, err := os.ReadDir(dir)
	if err != nil {
		return t, err
	}
	type seg struct {
		nr   int
		name string
	}
	var segs []seg
	for _, e := range ents {
		n := e.Name()
		ext := filepath.Ext(n)
		base := strings.TrimSuffix(n, ext)
		if strings.HasPrefix(base, "init") {
			if t.init, err = os.ReadFile(filepath.Join(dir, n)); err != nil {
				return t, err
			}
			t.ext = ext
			continue
		}
		if nr, err := strconv.Atoi(base); err == nil {
			segs = append(segs, seg{nr, n})
		}
	}
	sort.Slice(segs, func(i, j int) bool { return segs[i].nr < segs[j].nr })
	for _, s := range segs {
		d, err := os.ReadFile(filepath.Join(dir, s.name))
		if err != nil {
			return t, err
		}
		t.media = append(t.media, d)
		t.names = append(t.names, s.name)
	}
	if t.init == nil || len(t.media) < 3 {
		return t, fmt.Errorf("track %s: init or media missing", dir)
	}
	return t, nil
}

func (c *concretizer) loadRcvSets(repo string) error {
	root := filepath.Join(repo, "cmd/cmaf-ingest-receiver/app/testdata")
	c.rcvSets = map[string]*rcvSet{}
	for kind, spec := range map[string][]string{
		"shifted":   {"awsMediaLiveScte35", "video", "audio", "scte"},
		"unshifted": {"zero_3.84s", "video-500Kbps", "audio-nor-128Kbps", "text-nor-0", "video-800Kbps"},
	} {
		rs := &rcvSet{}
		for i, tr := range spec[1:] {
			t, err := loadTrack(filepath.Join(root, spec[0], tr))
			if err != nil {
				return err
			}
			if i == 0 {
				rs.video = t
			} else {
				rs.others = append(rs.others, t)
			}
		}
		c.rcvSets[kind] = rs
	}
	return nil
}

// --- byte-level box surgery (independent of mp4ff) ---------------------------------------------

var containers = map[string]bool{"moov": true, "trak": true, "mdia": true, "minf": true, "stbl": true, "mvex": true}

// findBox returns the offset of the box with the given path (e.g. moov, trak, mdia) or -1.
func findBox(data []byte, path ...string) int {
	start, end := 0, len(data)
	for depth, typ := range path {
		pos := start
		found := -1
		for pos+8 <= end {
			size := int(binary.BigEndian.Uint32(data[pos:]))
			if size < 8 || pos+size > end {
				break
			}
			if string(data[pos+4:pos+8]) == typ {
				found = pos
				break
			}
			pos += size
		}
		if found < 0 {
			return -1
		}
		if depth == len(path)-1 {
			return found
		}
		size := int(binary.BigEndian.Uint32(data[found:]))
		start, end = found+8, found+size
	}
	return -1
}

func hideBox(data []byte, path ...string) []byte {
	out := append([]byte(nil), data...)
	if off := findBox(out, path...); off >= 0 {
		copy(out[off+4:], "free")
	}
	return out
}

func mdhdTimescale(init []byte) (int, error) {
	off := findBox(init, "moov", "trak", "mdia", "mdhd")
	if off < 0 {
		return 0, fmt.Errorf("no mdhd")
	}
	p := off + 8 + 4 + 8
	if init[off+8] == 1 {
		p = off + 8 + 4 + 16
	}
	return int(binary.BigEndian.Uint32(init[p:])), nil
}

// badInit builds the malformed init segment of class `class` from a well-formed one.
func (c *concretizer) badInit(class string, good []byte) []byte {
	trak := []string{"moov", "trak"}
	switch class {
	case "init_valid":
		return good
	case "moov_empty":
		return okBox("moov", nil)
	case "moov_junk":
		pay := make([]byte, 16)
		c.rng.Read(pay)
		return okBox("moov", pay)
	case "ftyp_only":
		return okBox("ftyp", []byte("cmfc\x00\x00\x00\x00cmfc"))
	case "init_truncated":
		return good[:len(good)/2+c.rng.Intn(len(good)/3)]
	case "no_stsd":
		return hideBox(good, "moov", "trak", "mdia", "minf", "stbl", "stsd")
	case "no_stbl":
		return hideBox(good, "moov", "trak", "mdia", "minf", "stbl")
	case "no_minf":
		return hideBox(good, "moov", "trak", "mdia", "minf")
	case "no_mdia":
		return hideBox(good, "moov", "trak", "mdia")
	case "no_mdhd":
		return hideBox(good, "moov", "trak", "mdia", "mdhd")
	case "no_hdlr":
		return hideBox(good, "moov", "trak", "mdia", "hdlr")
	case "no_tkhd":
		return hideBox(good, "moov", "trak", "tkhd")
	case "no_trak":
		return hideBox(good, trak...)
	case "no_mvhd":
		return hideBox(good, "moov", "mvhd")
	case "no_mvex":
		return hideBox(good, "moov", "mvex")
	case "no_trex":
		return hideBox(good, "moov", "mvex", "trex")
	case "zero_mdhd_ts", "zero_mvhd_ts":
		out := append([]byte(nil), good...)
		path := []string{"moov", "trak", "mdia", "mdhd"}
		if class == "zero_mvhd_ts" {
			path = []string{"moov", "mvhd"}
		}
		if off := findBox(out, path...); off >= 0 {
			p := off + 8 + 4 + 8
			if out[off+8] == 1 {
				p = off + 8 + 4 + 16
			}
			binary.BigEndian.PutUint32(out[p:], 0)
		}
		return out
	case "stsd_empty":
		out := append([]byte(nil), good...)
		if off := findBox(out, "moov", "trak", "mdia", "minf", "stbl", "stsd"); off >= 0 {
			binary.BigEndian.PutUint32(out[off+12:], 0) // entry_count = 0
			if size := int(binary.BigEndian.Uint32(out[off:])); size > 24 {
				// the former sample entry becomes a free box inside stsd
				copy(out[off+20:], "free")
			}
		}
		return out
	}
	panic("unknown bad init class " + class)
}

// rcvSequence fills job j with the steps of the sequence shape a.Tail.
func (c *concretizer) rcvSequence(j *job, a absReq) {
	rs := c.rcvSets[a.Query]
	if rs == nil {
		panic("unknown channel kind " + a.Query)
	}
	c.nextCh++
	ch := fmt.Sprintf("sq%d", c.nextCh)
	other := rs.others[c.rng.Intn(len(rs.others))]
	video := rs.video
	put := func(t rcvTrack, name string, body []byte, settle int) preReq {
		return preReq{Method: a.Method, Path: "/upload/" + ch + "/" + t.dir + "/" + name, Body: body, SettleMS: settle,
			Headers: map[string]string{"Content-Length": strconv.Itoa(len(body))}}
	}
	initOf := func(t rcvTrack, body []byte) preReq { return put(t, "init"+t.ext, body, 0) }
	media := func(t rcvTrack, from, n int) []preReq {
		var r []preReq
		for i := from; i < from+n && i < len(t.media); i++ {
			r = append(r, put(t, t.names[i], t.media[i], 12))
		}
		return r
	}
	var steps []preReq
	switch a.Tail {
	case "bad_media": // refused init of a track, then its media (channel never started)
		x := []rcvTrack{video, other}[c.rng.Intn(2)]
		steps = append(steps, initOf(x, c.badInit(a.Body, x.init)))
		steps = append(steps, media(x, 0, 3)...)
	case "vinit_bad_vmedia": // refused init before the channel start, then the master track starts the channel
		steps = append(steps, initOf(video, video.init), initOf(other, c.badInit(a.Body, other.init)))
		steps = append(steps, media(video, 0, 4)...)
		steps = append(steps, media(other, 0, 2)...)
	case "started_bad_media": // channel started (possibly shifted), then a refused init and media of that track
		steps = append(steps, initOf(video, video.init))
		steps = append(steps, media(video, 0, 3)...)
		steps = append(steps, initOf(other, c.badInit(a.Body, other.init)))
		steps = append(steps, media(other, 0, 3)...)
		steps = append(steps, media(video, 3, 1)...)
	case "bad_good_media": // refused init, then the good one, then media
		x := []rcvTrack{video, other}[c.rng.Intn(2)]
		steps = append(steps, initOf(x, c.badInit(a.Body, x.init)), initOf(x, x.init))
		steps = append(steps, media(x, 0, 3)...)
		if x.dir != video.dir {
			steps = append(steps, initOf(video, video.init))
			steps = append(steps, media(video, 0, 3)...)
		}
	case "badvideo_other": // the master (video) track is the refused one
		steps = append(steps, initOf(video, c.badInit(a.Body, video.init)), initOf(other, other.init))
		steps = append(steps, media(other, 0, 3)...)
		steps = append(steps, media(video, 0, 3)...)
	default:
		panic("unknown sequence shape " + a.Tail)
	}
	last := steps[len(steps)-1]
	j.Pre = steps[:len(steps)-1]
	j.Method, j.Path, j.Body, j.Headers = last.Method, last.Path, last.Body, last.Headers
	j.CL = int64(len(last.Body))
	j.SettleMS = 60
}
